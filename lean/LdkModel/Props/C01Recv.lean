/- C01 — receiver admission (census row 2): property theorems only. Both sides are GENERATED (tools/gen_recvadmit.py):
   `recvAdmits` from ChannelContext::validate_update_add_htlc, `senderReserveCap` / `senderInFlightCap` / `senderCountOk` from the
   three caps of sign/tx_builder.rs get_available_balances. -/
import LdkModel.Model.RecvAdmit
import LdkModel.Generated.SendLimit
import LdkModel.Props.C01Stats

namespace Ldk.C01Recv
open Ldk Ldk.RecvAdmit Ldk.TxB

/-- the receiver `r` holds the sender `s`'s parameters with the roles exchanged: what the sender knows as the limits / reserve its
    COUNTERPARTY imposes is what the receiver knows as the ones it (the holder) selected -/
def Mirrored (s r : Params) : Prop :=
  r.holder_max_accepted_htlcs = s.counterparty_max_accepted_htlcs ∧
  r.holder_max_htlc_value_in_flight_msat = s.counterparty_max_htlc_value_in_flight_msat ∧
  r.holder_selected_channel_reserve_satoshis = s.counterparty_selected_channel_reserve_satoshis

/-- same view of the commitment: the receiver's statistics (new HTLC included) count the sender's outbound HTLCs plus this one,
    and give the sender at least its balance before fees less the new HTLC -/
structure SameView (amt outCount outValue localBal : Nat) (v : RecvView) : Prop where
  count : v.inbound_htlcs_count = outCount + 1
  value : v.inbound_htlcs_value_msat = outValue + amt
  bal : localBal - amt ≤ v.counterparty_balance_msat

/-- WHAT THE SENDER'S LIMIT ADMITS, THE RECEIVER ADMITS (direct comparisons): for all parameter pairs (asymmetric reserves and
    limits included) that are mirrored, all HTLC sets and balances on which the two nodes have the same view, a positive amount
    within the sender's three translated caps (HTLC count, value in flight, the reserve the PEER selected) passes all four
    translated refusals of the receiver's validate_update_add_htlc.  A swapped side (holder_/counterparty_ field), a `+ 1` or a
    strict / non-strict comparison changed on either side changes a generated definition and this proof fails.
    Partial — what is missing: (a) hypothesis `SameView.bal` (the receiver's figure for the sender's balance AFTER the commitment
    fee when the sender is the funder: that is adjust_capacity_for_holder_reserved_fee, and for a non-funder sender the funder's
    fee-spike buffer, KF-C01-1); (b) the step from `amt ≤ next_outbound_htlc_limit_msat` of the whole translated
    get_available_balances to the three caps (it takes minima of them; not proved here); (c) htlc_minimum_msat
    (FundedChannel::update_add_htlc) and the dust-exposure tests are not part of `recvAdmits`. -/
theorem sender_limit_admitted_by_receiver_partial (s r : Params) (hm : Mirrored s r)
    (chanSat amt outCount outValue localBal : Nat) (v : RecvView) (hv : SameView amt outCount outValue localBal v)
    (hpos : 0 < amt) (hcv : localBal ≤ chanSat * 1000)
    (h1 : senderCountOk s outCount = true) (h2 : amt ≤ senderInFlightCap s outValue) (h3 : amt ≤ senderReserveCap s localBal) :
    recvAdmits r chanSat amt v = true := by
  obtain ⟨m1, m2, m3⟩ := hm
  obtain ⟨c, vl, b⟩ := hv
  unfold senderCountOk at h1
  unfold senderInFlightCap at h2
  unfold senderReserveCap at h3
  unfold recvAdmits
  simp only [Bool.not_eq_true', decide_eq_false_iff_not, Bool.and_eq_true, decide_eq_true_eq] at *
  rw [m1, m2, m3, c, vl]
  refine ⟨⟨⟨?_, ?_⟩, ?_⟩, ?_⟩ <;> omega

-- non-vacuity, asymmetric reserves: the sender must keep 10 % (its peer's choice), demands 1 % itself
def exS : Params := ⟨483, 900000000, 10000, 30, 500000000, 100000, 1, 1000⟩
def exR : Params := ⟨30, 500000000, 100000, 483, 900000000, 10000, 1000, 1⟩
example : Mirrored exS exR := ⟨rfl, rfl, rfl⟩
example : senderCountOk exS 29 = true ∧ senderCountOk exS 30 = false ∧
    senderInFlightCap exS 100000000 = 400000000 ∧ senderReserveCap exS 300000000 = 200000000 ∧
    recvAdmits exR 1000000 200000000 ⟨30, 300000000, 100000000, 0⟩ = true ∧
    recvAdmits exR 1000000 200000001 ⟨30, 300000001, 99999999, 0⟩ = false := by decide

/-! ## from the WHOLE translated send check to the receiver (round 6) -/

section real
variable (fu : Bool) (chan vth : Nat) (dirs : List HTLCAmountDirection) (f : Nat) (lim : Option Nat)
  (maxd : Nat) (cons : ChannelConstraints) (ty : ChanType)

/-- the sender's balance before the commitment fee, as get_available_balances computes it (`outbound_capacity_eq`) -/
def localBalBeforeFee (fu : Bool) (vth : Nat) (dirs : List HTLCAmountDirection) (ty : ChanType) : Nat :=
  vth - outSum dirs - (if fu then 1000 * total_anchors_sat ty else 0)

/-- THE MONOLITHIC LIMIT IS WITHIN THE THREE STAND-ALONE CAPS (what chan op `lim` validated on samples, now for all inputs): a
    positive amount within `next_outbound_htlc_limit_msat` of the whole translated get_available_balances — for every funding
    side, channel type, feerate, HTLC set, dust configuration — satisfies the generated HTLC-count cap, in-flight cap and reserve
    cap on the sender's own figures. -/
theorem real_limit_within_sender_caps (amt : Nat) (hpos : 0 < amt)
    (h : amt ≤ (get_available_balances fu chan vth dirs f lim maxd cons ty).next_outbound_htlc_limit_msat) :
    senderCountOk (senderParams cons) (outCount dirs) = true ∧
    amt ≤ senderInFlightCap (senderParams cons) (outSum dirs) ∧
    amt ≤ senderReserveCap (senderParams cons) (localBalBeforeFee fu vth dirs ty) := by
  have h1 := Ldk.C01.limit_le_outbound_capacity fu chan vth dirs f lim maxd cons ty
  have h2 := Ldk.C01.limit_le_in_flight_remaining fu chan vth dirs f lim maxd cons ty
  have h3 := Ldk.C01.limit_zero_when_slots_full fu chan vth dirs f lim maxd cons ty
  have h4 := Ldk.C01.outbound_capacity_eq fu chan vth dirs f lim maxd cons ty
  refine ⟨?_, ?_, ?_⟩
  · unfold senderCountOk senderParams
    simp only [Bool.not_eq_true', decide_eq_false_iff_not]
    intro hfull
    have := h3 hfull
    omega
  · unfold senderInFlightCap senderParams
    simp only []
    omega
  · unfold senderReserveCap senderParams localBalBeforeFee
    simp only []
    omega

/-- the peer's htlc_minimum_msat as the receiver holds it -/
def MirroredMin (s r : Params) : Prop := r.holder_htlc_minimum_msat = s.counterparty_htlc_minimum_msat

/-- WHAT THE REAL SEND CHECK ADMITS, THE RECEIVER ADMITS — from send_htlc's own comparisons (`sendAmountOk`, generated) on the
    limits of the whole translated get_available_balances to ALL direct refusals of the receiver: the four of
    FundedChannel::update_add_htlc (zero amount, htlc_minimum_msat, HTLC id, CLTV) and the four of validate_update_add_htlc.
    Gaps (b) and the htlc_minimum half of (c) of `sender_limit_admitted_by_receiver_partial` are closed; what remains is (a): the
    hypothesis `SameView` (in particular `.bal`: the receiver's figure of the sender's balance after the commitment fee,
    KF-C01-1 for a non-funder sender), and the dust-exposure tests, which live in can_accept_incoming_htlc (fail-back, below). -/
theorem real_send_check_admitted_by_receiver_partial (r : Params) (hm : Mirrored (senderParams cons) r)
    (hmin : MirroredMin (senderParams cons) r) (amt id cltv : Nat) (v : RecvView)
    (hv : SameView amt (outCount dirs) (outSum dirs) (localBalBeforeFee fu vth dirs ty) v)
    (hcv : vth ≤ chan * 1000) (hcl : cltv < 500000000)
    (hs : Ldk.Chan.sendAmountOk amt (get_available_balances fu chan vth dirs f lim maxd cons ty).next_outbound_htlc_minimum_msat
            (get_available_balances fu chan vth dirs f lim maxd cons ty).next_outbound_htlc_limit_msat = true) :
    recvAddPrechecks r amt id id cltv = true ∧ recvAdmits r chan amt v = true := by
  unfold Ldk.Chan.sendAmountOk at hs
  simp only [Bool.and_eq_true, Bool.not_eq_true', decide_eq_false_iff_not] at hs
  obtain ⟨⟨h0, hmn⟩, hlm⟩ := hs
  have hpos : 0 < amt := by omega
  obtain ⟨c1, c2, c3⟩ := real_limit_within_sender_caps fu chan vth dirs f lim maxd cons ty amt hpos (by omega)
  constructor
  · have hge := Ldk.C01.minimum_ge_peer_minimum fu chan vth dirs f lim maxd cons ty
    unfold MirroredMin senderParams at hmin
    simp only [] at hmin
    unfold recvAddPrechecks
    simp only [Bool.and_eq_true, Bool.not_eq_true', decide_eq_false_iff_not]
    refine ⟨⟨⟨by omega, by omega⟩, by simp⟩, by omega⟩
  · exact sender_limit_admitted_by_receiver_partial (senderParams cons) r hm chan amt (outCount dirs) (outSum dirs)
      (localBalBeforeFee fu vth dirs ty) v hv hpos (by unfold localBalBeforeFee; omega) c1 c2 c3

end real

/-- non-vacuity of the hypotheses and sharpness: the example of C01Stats (holder-funded legacy 1 000 000-sat channel, 600 000 sat
    to the holder, one pending outbound HTLC of 50 000 sat, limit 450 000 sat = the in-flight room, minimum 1 000 msat): the limit
    itself passes the peer's checks, one msat more does not pass the send check, and 999 msat is refused by both sides -/
example : Mirrored (senderParams Ldk.C01.exCons) (peerParams Ldk.C01.exCons) ∧ MirroredMin (senderParams Ldk.C01.exCons) (peerParams Ldk.C01.exCons) :=
  ⟨⟨rfl, rfl, rfl⟩, rfl⟩
example : Ldk.Chan.sendAmountOk 450000000 1000 450000000 = true ∧ Ldk.Chan.sendAmountOk 450000001 1000 450000000 = false ∧
    Ldk.Chan.sendAmountOk 999 1000 450000000 = false ∧
    recvAddPrechecks (peerParams Ldk.C01.exCons) 450000000 7 7 800000 = true ∧
    recvAddPrechecks (peerParams Ldk.C01.exCons) 999 7 7 800000 = false ∧
    recvAddPrechecks (peerParams Ldk.C01.exCons) 1000 8 7 800000 = false ∧
    recvAddPrechecks (peerParams Ldk.C01.exCons) 1000 7 7 500000000 = false ∧
    recvAdmits (peerParams Ldk.C01.exCons) 1000000 450000000 ⟨2, 500000000, 100000000, 0⟩ = true := by decide

/-! ## can_accept_incoming_htlc: the forwarding-time decision (a refusal fails the HTLC back; the channel stays open) -/

/-- THE TRANSLATED DECISION OF can_accept_incoming_htlc, characterised: the HTLC is accepted (code 0) exactly when neither dust
    exposure exceeds the maximum and — for a receiver that is NOT the funder — the funder's balance on the next remote commitment
    with the fee-spike assumption exists and is at least the reserve the receiver selected.  A funder receiver never consults the
    fee-spike statistics.  (`>` vs `>=`, a swapped reserve field or a dropped `!` changes the generated definition and this
    proof fails.) -/
theorem can_accept_decision_ok_iff (p : Params) (isOutbound : Bool) (maxd rd ld : Nat) (spike : Option Nat) :
    canAcceptDecision p isOutbound maxd rd ld spike = 0 ↔
      rd ≤ maxd ∧ ld ≤ maxd ∧
      (isOutbound = true ∨ ∃ bal, spike = some bal ∧ p.holder_selected_channel_reserve_satoshis * 1000 ≤ bal) := by
  unfold canAcceptDecision
  by_cases h1 : rd > maxd
  · simp [h1] <;> (intros; omega)
  · by_cases h2 : ld > maxd
    · simp [h1, h2] <;> (intros; omega)
    · cases isOutbound
      · cases spike with
        | none => simp [h1, h2] <;> (intros; omega)
        | some bal =>
          by_cases h3 : bal < p.holder_selected_channel_reserve_satoshis * 1000
          · simp [h1, h2, h3] <;> (intros; omega)
          · simp [h1, h2, h3] <;> (intros; omega)
      · simp [h1, h2] <;> (intros; omega)

/-- the reasons are exclusive and ordered as in the source: counterparty dust, then holder dust, then fee-spike buffer -/
theorem can_accept_decision_reason (p : Params) (isOutbound : Bool) (maxd rd ld : Nat) (spike : Option Nat) :
    (canAcceptDecision p isOutbound maxd rd ld spike = 1 ↔ rd > maxd) ∧
    (canAcceptDecision p isOutbound maxd rd ld spike = 2 ↔ rd ≤ maxd ∧ ld > maxd) ∧
    (canAcceptDecision p isOutbound maxd rd ld spike = 3 → isOutbound = false) := by
  unfold canAcceptDecision
  by_cases h1 : rd > maxd
  · simp [h1] <;> (intros; omega)
  · by_cases h2 : ld > maxd
    · simp [h1, h2] <;> (intros; omega)
    · cases isOutbound <;> cases spike <;> simp [h1, h2] <;> (try split) <;> (intros; omega)

example : canAcceptDecision exR false 5000000 0 0 (some 100000000) = 0 ∧ canAcceptDecision exR false 5000000 0 0 (some 99999999) = 3 ∧
    canAcceptDecision exR true 5000000 0 0 none = 0 ∧ canAcceptDecision exR false 5000000 0 0 none = 3 ∧
    canAcceptDecision exR true 5000000 5000001 0 none = 1 ∧ canAcceptDecision exR true 5000000 5000000 5000001 none = 2 ∧
    canAcceptFeeSpikeBufferHtlcs false = 1 ∧ canAcceptFeeSpikeBufferHtlcs true = 0 ∧ canAcceptFeerate 253 (some 1000) = 1000 := by decide

end Ldk.C01Recv
