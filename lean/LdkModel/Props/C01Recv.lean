/- C01 — receiver admission (census row 2): property theorems only. Both sides are GENERATED (tools/gen_recvadmit.py):
   `recvAdmits` from ChannelContext::validate_update_add_htlc, `senderReserveCap` / `senderInFlightCap` / `senderCountOk` from the
   three caps of sign/tx_builder.rs get_available_balances. -/
import LdkModel.Generated.RecvAdmit

namespace Ldk.C01Recv
open Ldk.RecvAdmit

/-- the receiver `r` holds the sender `s`'s parameters with the roles exchanged: what the sender knows as the limits / reserve its
    COUNTERPARTY imposes is what the receiver knows as the ones it (the holder) selected -/
def Mirrored (s r : Params) : Prop :=
  r.holder_max_accepted_htlcs = s.counterparty_max_accepted_htlcs ∧
  r.holder_max_htlc_value_in_flight_msat = s.counterparty_max_htlc_value_in_flight_msat ∧
  r.holder_selected_channel_reserve_satoshis = s.counterparty_selected_channel_reserve_satoshis

/-- same view of the commitment: the receiver's statistics (new HTLC included) count the sender's outbound HTLCs plus this one,
    and give the sender at least its balance before fees less the new HTLC -/
structure SameView (amt outCount outValue localBal : Nat) (v : RecvView) : Prop where
  count : v.inbound_htlcs_count = outCount + 1
  value : v.inbound_htlcs_value_msat = outValue + amt
  bal : localBal - amt ≤ v.counterparty_balance_msat

/-- WHAT THE SENDER'S LIMIT ADMITS, THE RECEIVER ADMITS (direct comparisons): for all parameter pairs (asymmetric reserves and
    limits included) that are mirrored, all HTLC sets and balances on which the two nodes have the same view, a positive amount
    within the sender's three translated caps (HTLC count, value in flight, the reserve the PEER selected) passes all four
    translated refusals of the receiver's validate_update_add_htlc.  A swapped side (holder_/counterparty_ field), a `+ 1` or a
    strict / non-strict comparison changed on either side changes a generated definition and this proof fails.
    Partial — what is missing: (a) hypothesis `SameView.bal` (the receiver's figure for the sender's balance AFTER the commitment
    fee when the sender is the funder: that is adjust_capacity_for_holder_reserved_fee, and for a non-funder sender the funder's
    fee-spike buffer, KF-C01-1); (b) the step from `amt ≤ next_outbound_htlc_limit_msat` of the whole translated
    get_available_balances to the three caps (it takes minima of them; not proved here); (c) htlc_minimum_msat
    (FundedChannel::update_add_htlc) and the dust-exposure tests are not part of `recvAdmits`. -/
theorem sender_limit_admitted_by_receiver_partial (s r : Params) (hm : Mirrored s r)
    (chanSat amt outCount outValue localBal : Nat) (v : RecvView) (hv : SameView amt outCount outValue localBal v)
    (hpos : 0 < amt) (hcv : localBal ≤ chanSat * 1000)
    (h1 : senderCountOk s outCount = true) (h2 : amt ≤ senderInFlightCap s outValue) (h3 : amt ≤ senderReserveCap s localBal) :
    recvAdmits r chanSat amt v = true := by
  obtain ⟨m1, m2, m3⟩ := hm
  obtain ⟨c, vl, b⟩ := hv
  unfold senderCountOk at h1
  unfold senderInFlightCap at h2
  unfold senderReserveCap at h3
  unfold recvAdmits
  simp only [Bool.not_eq_true', decide_eq_false_iff_not, Bool.and_eq_true, decide_eq_true_eq] at *
  rw [m1, m2, m3, c, vl]
  refine ⟨⟨⟨?_, ?_⟩, ?_⟩, ?_⟩ <;> omega

-- non-vacuity, asymmetric reserves: the sender must keep 10 % (its peer's choice), demands 1 % itself
def exS : Params := ⟨483, 900000000, 10000, 30, 500000000, 100000⟩
def exR : Params := ⟨30, 500000000, 100000, 483, 900000000, 10000⟩
example : Mirrored exS exR := ⟨rfl, rfl, rfl⟩
example : senderCountOk exS 29 = true ∧ senderCountOk exS 30 = false ∧
    senderInFlightCap exS 100000000 = 400000000 ∧ senderReserveCap exS 300000000 = 200000000 ∧
    recvAdmits exR 1000000 200000000 ⟨30, 300000000, 100000000, 0⟩ = true ∧
    recvAdmits exR 1000000 200000001 ⟨30, 300000001, 99999999, 0⟩ = false := by decide

end Ldk.C01Recv
