/- C15 — The encrypted transport delivers the exact message sequence or disconnects.

   Model: Model/Noise.lean (BOLT-8 acts, key schedule), Model/Framing.lean (frames, key rotation,
   the byte-level reassembly loop of `PeerManager::do_read_event`, the Init gate).
   Model/PeerMsgs.lean: the messages the PeerManager builds by itself from peer-chosen values (pong,
   decode-failure warnings, reply_channel_range batches), their wire sizes, and `nodeRun` — decode,
   Init gate, Ping / Pong arms — over the decrypted sequence (section "Message-size bounds" below;
   the bounds are re-extracted from the source on every run: tools/gen_peer_sizes.py →
   Generated/PeerSizes.lean, tied by `size_bounds_match_source`).
   The cryptographic primitives are PARAMETERS (`Noise.Crypto`); every property of them that a
   theorem needs is an explicit hypothesis (`AeadOK`, `Authentic`, `BoxBinds`, `HandshakeOK`),
   never an axiom.  Helper lemmas: Proofs/Framing.lean, Proofs/PeerMsgs.lean. -/
import LdkModel.Proofs.Framing
import LdkModel.Proofs.PeerMsgs
import LdkModel.Generated.NoiseConsts
import LdkModel.Generated.PeerSizes
import LdkModel.Proofs.PeerWriteE2E
import LdkModel.Proofs.EphKey
import LdkModel.Model.HsTimer
namespace Ldk.C15
open Ldk.Noise Ldk.Framing

variable (c : Crypto)

/-- every message fits a frame and carries at least its 2-byte type (do_read_event drops the
    connection on `msg_len < 2`; the sender refuses `> LN_MAX_MSG_LEN`) -/
def MsgsOK (msgs : List Bytes) : Prop := ∀ m ∈ msgs, 2 ≤ m.length ∧ m.length ≤ Ldk.LN_MAX_MSG_LEN

private theorem msgsOK_iff (msgs : List Bytes) :
    MsgsOK msgs ↔ ∀ m ∈ msgs, 2 ≤ m.length ∧ m.length ≤ 65535 := Iff.rfl

/-- **Reassembly.** However a byte string is cut into `read_event` calls, the receiver ends in the
    same state having delivered the same messages as for one read of the whole string. -/
theorem reassembly (r : Receiver) (chunks : List Bytes) :
    recvChunks c r chunks = recvChunks c r [chunks.flatten] := by
  rw [recvChunks_flatten, recvChunks_flatten]; simp

/-- **Delivery.** For every message list (each 2…65535 bytes, any count — so across any number of
    key rotations), from any in-sync sender/receiver pair, and for EVERY partition of the
    ciphertext into reads: the receiver delivers exactly the message list, stays connected, and is
    again the mirror image of the sender. -/
theorem transport_delivers (hc : AeadOK c) (s : Sender) (msgs : List Bytes) (hm : MsgsOK msgs)
    (chunks : List Bytes) (hch : chunks.flatten = (sendAll c s msgs).1) :
    recvChunks c (Receiver.mirrorOf s) chunks
      = (msgs, some (Receiver.mirrorOf (sendAll c s msgs).2)) := by
  rw [recvChunks_flatten, hch]
  have h := recv_sendAll c hc msgs s [] hm
  simp only [List.append_nil] at h
  rw [h]; simp [recvData_nil]

/-- **Rotation in sync.** After any prefix of the traffic the receiver is the exact mirror of the
    sender (same key, same counter, same chaining key), so the test `n ≥ 1000` gives the same
    answer on both sides for the next frame and both rotate to the same new key. -/
theorem rotation_in_sync (hc : AeadOK c) (s : Sender) (pre post : List Bytes)
    (hm : MsgsOK (pre ++ post)) :
    let sᵢ := (sendAll c s pre).2
    let rᵢ := Receiver.mirrorOf sᵢ
    recvData c (Receiver.mirrorOf s) (sendAll c s pre).1 = (pre, some rᵢ)
    ∧ (rᵢ.rn ≥ ROTATE_AT ↔ sᵢ.sn ≥ ROTATE_AT)
    ∧ rᵢ.rotate c = Receiver.mirrorOf (sᵢ.rotate c) := by
  intro sᵢ rᵢ
  refine ⟨?_, Iff.rfl, rotate_mirror c sᵢ⟩
  have h := recv_sendAll c hc pre s [] (fun m hx => hm m (by simp [hx]))
  simp only [List.append_nil] at h
  rw [h]; simp [recvData_nil, rᵢ, sᵢ]

/-- **Rotation schedule.** From a fresh key (`sn = 0`) the counter after `n ≥ 1` frames is
    `2·((n−1) mod 500 + 1)`: it reaches 1000 exactly after frames 500, 1000, …, so frame number `i`
    (0-based) is sealed under a rotated key iff `i > 0 ∧ i mod 500 = 0`. -/
theorem rotation_schedule (s : Sender) (hs : s.sn = 0) (msgs : List Bytes) :
    ((sendAll c s msgs).2.sn ≥ ROTATE_AT ↔ 0 < msgs.length ∧ msgs.length % 500 = 0) := by
  rw [sendAll_length_sn c msgs s 0 (by omega) (by omega)]
  unfold ROTATE_AT
  by_cases h0 : msgs.length = 0
  · simp [h0]
  · simp only [h0, if_false]; omega

/-- what can arrive in place of frame `j` (sender state `sⱼ`, message `mⱼ`), followed by anything:
    a box at the header position, or — after the genuine header — a box at the body position, that
    is not a valid AEAD box under the key and nonce of that position.  This covers a flipped /
    inserted / deleted byte (the bytes found at the position are then a different string), a
    truncated frame followed by later traffic, and a replayed earlier frame (see
    `replay_disconnects`). -/
inductive Tampered (sⱼ : Sender) (mⱼ : Bytes) : Bytes → Prop where
  | header (h' rest : Bytes) (hl : h'.length = 18)
      (hbad : ¬ ValidBox c (sⱼ.rotate c).sk (sⱼ.rotate c).sn h') : Tampered sⱼ mⱼ (h' ++ rest)
  | body (b' rest : Bytes) (hl : b'.length = mⱼ.length + 16)
      (hbad : ¬ ValidBox c (sⱼ.rotate c).sk ((sⱼ.rotate c).sn + 1) b') :
      Tampered sⱼ mⱼ (c.aeadSeal (sⱼ.rotate c).sk (sⱼ.rotate c).sn [] (be16 mⱼ.length) ++ b' ++ rest)

/-- **Tampering disconnects.** Under AEAD authenticity (what `open` accepts is a `seal` output):
    if after `j−1` genuine frames the header box or the body box of frame `j` is anything that is
    not a valid box for that position, then for every continuation and every partition into reads
    the receiver delivers exactly the first `j−1` messages, drops the connection, and delivers
    nothing after. -/
theorem tamper_disconnects (hc : AeadOK c) (ha : Authentic c) (s : Sender) (pre : List Bytes)
    (mⱼ : Bytes) (hm : MsgsOK (pre ++ [mⱼ])) (x : Bytes)
    (hx : Tampered c (sendAll c s pre).2 mⱼ x)
    (chunks : List Bytes) (hch : chunks.flatten = (sendAll c s pre).1 ++ x) :
    recvChunks c (Receiver.mirrorOf s) chunks = (pre, none) := by
  rw [recvChunks_flatten, hch, recv_sendAll c hc pre s x (fun m h => hm m (by simp [h]))]
  have hmj := hm mⱼ (by simp)
  have h65 : Ldk.LN_MAX_MSG_LEN = 65535 := rfl
  cases hx with
  | header h' rest hl hbad =>
    rw [andThen_some, recv_header_bad c _ _ (by simp [hl])]
    · simp
    · rw [List.take_left' hl]; exact open_none_of_not_valid ha hbad
  | body b' rest hl hbad =>
    rw [andThen_some, List.append_assoc,
        recv_header_ok c _ _ _ mⱼ.length (by rw [hc.seal_len]; rfl) (hc.open_seal _ _ _ _)
          hmj.1 (by omega),
        recv_body_bad c _ _ mⱼ.length (by simp [hl])]
    · simp
    · rw [List.take_left' hl]; exact open_none_of_not_valid ha hbad

/-- **Exact sequence or nothing.** For ANY byte string whatsoever (any adversarial traffic, cut
    into reads in any way) fed to a receiver that is in sync with sender state `s`: under AEAD
    authenticity, the list of messages it delivers is such that the bytes read begin with exactly
    the genuine frames `sendAll s msgs` of those messages, in that order, sealed under the in-sync
    keys and nonces ("accepts ⇒ the MAC equations hold", frame by frame); each delivered message has
    2…65535 bytes; and what follows those frames delivered nothing. -/
theorem delivered_is_genuine (hc : AeadOK c) (ha : Authentic c) (s : Sender) (chunks : List Bytes)
    (msgs : List Bytes) (r' : Option Receiver)
    (h : recvChunks c (Receiver.mirrorOf s) chunks = (msgs, r')) :
    ∃ rest, chunks.flatten = (sendAll c s msgs).1 ++ rest ∧ MsgsOK msgs
      ∧ recvData c (Receiver.mirrorOf (sendAll c s msgs).2) rest = ([], r') := by
  rw [recvChunks_flatten] at h
  obtain ⟨rest, h1, h2, h3⟩ := delivered_all_genuine c hc ha msgs s _ r' h
  exact ⟨rest, h1, h2, h3.symm⟩

/-- a box sealed under one (key, nonce) is not a box under another — the binding property of the
    AEAD that replay protection rests on (hypothesis, not axiom) -/
def BoxBinds : Prop :=
  ∀ k n m k' n' m', c.aeadSeal k n [] m = c.aeadSeal k' n' [] m' → k = k' ∧ n = n'

/-- **Replay disconnects.** If an earlier frame `i` is sent again at position `j`, and the
    (key, nonce) pair of position `j` differs from that of position `i`, the receiver delivers the
    genuine messages and drops the connection at the replayed frame. -/
theorem replay_disconnects (hc : AeadOK c) (ha : Authentic c) (hb : BoxBinds c) (s : Sender)
    (pre : List Bytes) (mᵢ : Bytes) (mid : List Bytes) (hm : MsgsOK (pre ++ mᵢ :: mid))
    (hfresh : (((sendAll c s pre).2.rotate c).sk, ((sendAll c s pre).2.rotate c).sn)
        ≠ (((sendAll c s (pre ++ mᵢ :: mid)).2.rotate c).sk,
           ((sendAll c s (pre ++ mᵢ :: mid)).2.rotate c).sn))
    (rest : Bytes) (chunks : List Bytes)
    (hch : chunks.flatten = (sendAll c s (pre ++ mᵢ :: mid)).1
        ++ ((frame c (sendAll c s pre).2 mᵢ).1 ++ rest)) :
    recvChunks c (Receiver.mirrorOf s) chunks = (pre ++ mᵢ :: mid, none) := by
  have hmi := hm mᵢ (by simp)
  have hm' : MsgsOK ((pre ++ mᵢ :: mid) ++ [mᵢ]) := by
    intro m h
    rcases List.mem_append.mp h with h | h
    · exact hm m h
    · simp at h; subst h; exact hmi
  apply tamper_disconnects c hc ha s (pre ++ mᵢ :: mid) mᵢ hm' _ _ chunks hch
  rw [frame_fst, List.append_assoc]
  refine Tampered.header _ _ (by rw [hc.seal_len]; rfl) ?_
  rintro ⟨p, hp⟩
  exact hfresh (by have := hb _ _ _ _ _ _ hp; rw [this.1, this.2])

/-- **Replay within a key epoch** needs no freshness hypothesis: while no rotation intervenes the
    key is the same and the nonce has strictly advanced. -/
theorem replay_within_epoch_disconnects (hc : AeadOK c) (ha : Authentic c) (hb : BoxBinds c)
    (s : Sender) (hs : s.sn < ROTATE_AT) (pre : List Bytes) (mᵢ : Bytes) (mid : List Bytes)
    (hm : MsgsOK (pre ++ mᵢ :: mid))
    (hepoch : s.sn + 2 * (pre.length + 1 + mid.length) < ROTATE_AT)
    (rest : Bytes) (chunks : List Bytes)
    (hch : chunks.flatten = (sendAll c s (pre ++ mᵢ :: mid)).1
        ++ ((frame c (sendAll c s pre).2 mᵢ).1 ++ rest)) :
    recvChunks c (Receiver.mirrorOf s) chunks = (pre ++ mᵢ :: mid, none) := by
  apply replay_disconnects c hc ha hb s pre mᵢ mid hm _ rest chunks hch
  rw [sendAll_no_rotation c pre s (by omega) (Or.inl hs),
      sendAll_no_rotation c (pre ++ mᵢ :: mid) s
        (by simp only [List.length_append, List.length_cons]; omega) (Or.inl hs)]
  have r1 : ∀ n, s.sn + 2 * n < ROTATE_AT →
      ({ s with sn := s.sn + 2 * n } : Sender).rotate c = { s with sn := s.sn + 2 * n } := by
    intro n hn; unfold Sender.rotate; simp [Nat.not_le.mpr hn]
  rw [r1 _ (by omega), r1 _ (by simp only [List.length_append, List.length_cons]; omega)]
  simp only [List.length_append, List.length_cons, ne_eq, Prod.mk.injEq, true_and]
  omega

/-- **Truncation.** A stream that stops inside frame `j` delivers exactly the first `j−1` messages:
    the incomplete message is never processed (the receiver keeps waiting; the connection ends when
    the socket is closed, outside this model). -/
theorem truncation_delivers_prefix (hc : AeadOK c) (s : Sender) (pre : List Bytes) (mⱼ : Bytes)
    (hm : MsgsOK (pre ++ [mⱼ])) (t : Nat) (ht : t < (frame c (sendAll c s pre).2 mⱼ).1.length)
    (chunks : List Bytes)
    (hch : chunks.flatten = (sendAll c s pre).1 ++ (frame c (sendAll c s pre).2 mⱼ).1.take t) :
    (recvChunks c (Receiver.mirrorOf s) chunks).1 = pre := by
  rw [recvChunks_flatten, hch, recv_sendAll c hc pre s _ (fun m h => hm m (by simp [h]))]
  have hmj := hm mⱼ (by simp)
  have h65 : Ldk.LN_MAX_MSG_LEN = 65535 := rfl
  simp only [andThen_some]
  generalize (sendAll c s pre).2 = sj at ht ⊢
  rw [frame_fst] at ht ⊢
  simp only [List.length_append, hc.seal_len, be16_length] at ht
  suffices h : (recvData c (Receiver.mirrorOf sj)
      (List.take t (c.aeadSeal (sj.rotate c).sk (sj.rotate c).sn [] (be16 mⱼ.length)
        ++ c.aeadSeal (sj.rotate c).sk ((sj.rotate c).sn + 1) [] mⱼ))).1 = [] by
    rw [h]; simp
  by_cases h18 : t < 18
  · -- inside the header
    rw [List.take_append_of_le_length (by rw [hc.seal_len]; simp [be16_length]; omega)]
    by_cases h0 : t = 0
    · subst h0; simp [recvData_nil]
    · rw [recvData_short c _ _ (by
            intro hnil
            have := congrArg List.length hnil
            simp [hc.seal_len, be16_length] at this; omega)
          (by simp [Receiver.mirrorOf, hc.seal_len, be16_length]; omega)]
  · -- header complete, inside the body
    rw [List.take_append, List.take_of_length_le (by rw [hc.seal_len]; simp [be16_length]; omega)]
    rw [recv_header_ok c sj _ _ mⱼ.length (by rw [hc.seal_len]; rfl) (hc.open_seal _ _ _ _)
          hmj.1 (by omega)]
    simp only [hc.seal_len, be16_length]
    by_cases h0 : t - (2 + 16) = 0
    · rw [h0]; simp [recvData_nil]
    · rw [recvData_short c _ _ (by
            intro hnil
            have := congrArg List.length hnil
            simp [hc.seal_len] at this; omega)
          (by simp [Receiver.midOf, hc.seal_len]; omega)]

/-! ### The Init gate.  Every decision below is a definition of Generated/PeerGate.lean, translated from
    peer_handler.rs on every run (tools/gen_peer_gate.py); the three `source_*` facts are what the gate
    theorems rest on and they FAIL TO PROVE when the source lets any variant through before Init, drops
    the second-Init test or changes what the `error` arm does. -/
open Ldk.PeerGate (MK)

/-- the Init arm is taken by `Message::Init` only -/
theorem source_init_arm_iff (k : MK) : PeerGate.isInitArm k = true ↔ k = .Init := by
  cases k <;> decide

/-- **translated Need-an-Init rule:** while `their_features` is `None`, EVERY variant other than Init is
    answered with `Err(PeerHandleError)` — the else-if body lets nothing through -/
theorem source_gate_rejects_all_before_init (k : MK) (h : k ≠ .Init) :
    PeerGate.rejectedBeforeInit false k = true := by
  cases k <;> first | decide | exact absurd rfl h

/-- after Init the Need-an-Init rule rejects nothing, and a second Init is rejected -/
theorem source_gate_after_init (k : MK) :
    PeerGate.rejectedBeforeInit true k = false ∧ PeerGate.secondInitRejected true = true
      ∧ PeerGate.secondInitRejected false = false := by
  cases k <;> decide

/-- **translated dispatch facts:** `error` calls exactly `ChannelMessageHandler::handle_error`, first, and then
    disconnects iff the channel id is all-zero; `warning`, `ping`, `pong` and unknown types reach no handler;
    an unknown EVEN type disconnects, an unknown ODD one does not -/
theorem source_dispatch_facts (e : Bool) :
    PeerGate.dispatch .Error e = { calls := ["chan.handle_error"], disc := .ifZeroChannelId, mayFail := false, callFirst := true }
    ∧ (PeerGate.dispatch .Warning e).calls = [] ∧ (PeerGate.dispatch .Warning e).disc = .never
    ∧ (PeerGate.dispatch .Ping e).calls = [] ∧ (PeerGate.dispatch .Pong e).calls = []
    ∧ (PeerGate.dispatch .Unknown e).calls = []
    ∧ (PeerGate.dispatch .Unknown true).disc = .always ∧ (PeerGate.dispatch .Unknown false).disc = .never
    ∧ (PeerGate.dispatch .Init e).calls = [] := by
  cases e <;> decide

/-- a non-Init message received while the peer's Init is outstanding: `Err(PeerHandleError)`, no handler call,
    state unchanged — for EVERY variant (error / warning / ping / channel / gossip / custom / unknown) -/
theorem no_handler_call_before_init (classify : Nat → MK) (initOk : Bytes → Bool) (g : Gate)
    (hg : g.theirInit = false) (m : Bytes) (h : classify (msgType m) ≠ .Init) :
    gateStep classify initOk g m = (g, .disconnect) := by
  unfold gateStep
  have h1 : PeerGate.isInitArm (classify (msgType m)) = false := by
    cases hh : PeerGate.isInitArm (classify (msgType m))
    · rfl
    · exact absurd ((source_init_arm_iff _).mp hh) h
  simp [h1, hg, source_gate_rejects_all_before_init _ h]
example : gateStep (fun t => if t = 17 then .Error else .Unknown) (fun _ => true) Gate.start
    ([0, 17] ++ List.replicate 32 42 ++ [0, 0]) = (Gate.start, .disconnect) :=
  no_handler_call_before_init _ _ _ rfl _ (by decide)

/-- **Init before anything.** Whatever the peer sends after the handshake, a message is handed to
    a handler only if the very first message was an accepted Init (and our own Init had been queued
    when the handshake completed). -/
theorem init_before_anything (classify : Nat → MK) (initOk : Bytes → Bool) (msgs : List Bytes)
    (m : Bytes) (h : GateOut.passUp m ∈ gateRun classify initOk Gate.start msgs) :
    ∃ m₀ rest, msgs = m₀ :: rest ∧ classify (msgType m₀) = .Init ∧ initOk m₀ = true
      ∧ (gateRun classify initOk Gate.start msgs).head? = some .initOk
      ∧ Gate.start.ourInitQueued = true := by
  cases msgs with
  | nil => simp [gateRun] at h
  | cons m₀ rest =>
    refine ⟨m₀, rest, rfl, ?_⟩
    by_cases hk : classify (msgType m₀) = .Init
    · unfold gateRun gateStep at h ⊢
      have h1 : PeerGate.isInitArm MK.Init = true := rfl
      rw [hk] at h ⊢
      by_cases hi : initOk m₀ = true
      · simp [h1, hi, Gate.start, (source_gate_after_init .Init).2.2]
      · simp [h1, hi, Gate.start] at h
    · rw [gateRun, no_handler_call_before_init classify initOk Gate.start rfl m₀ hk] at h
      simp at h

/-- a non-Init first message drops the connection and nothing is processed -/
theorem non_init_first_disconnects (classify : Nat → MK) (initOk : Bytes → Bool) (m₀ : Bytes)
    (rest : List Bytes) (h : classify (msgType m₀) ≠ .Init) :
    gateRun classify initOk Gate.start (m₀ :: rest) = [.disconnect] := by
  rw [gateRun, no_handler_call_before_init classify initOk Gate.start rfl m₀ h]

/-- a second Init drops the connection -/
theorem second_init_disconnects (classify : Nat → MK) (initOk : Bytes → Bool) (m : Bytes)
    (rest : List Bytes) (hk : classify (msgType m) = .Init) :
    gateRun classify initOk { theirInit := true, ourInitQueued := true } (m :: rest) = [.disconnect] := by
  rw [gateRun]
  unfold gateStep
  have h1 : PeerGate.isInitArm MK.Init = true := rfl
  rw [hk]
  by_cases hi : initOk m = true <;> simp [h1, hi, (source_gate_after_init .Init).2.1]
example : gateRun (fun t => if t = 16 then .Init else .Unknown) (fun _ => true) Gate.start [[0, 16], [0, 16], [0, 3]]
    = [.initOk, .disconnect] := by decide

/-- after Init: an unknown EVEN type drops the connection, an unknown ODD type is ignored and the
    following messages are still processed -/
theorem unknown_even_odd_rule (classify : Nat → MK) (initOk : Bytes → Bool) (m : Bytes)
    (rest : List Bytes) (hk : classify (msgType m) = .Unknown) :
    gateRun classify initOk { theirInit := true, ourInitQueued := true } (m :: rest)
      = if msgType m % 2 = 0 then [.disconnect]
        else .ignored :: gateRun classify initOk { theirInit := true, ourInitQueued := true } rest := by
  rw [gateRun]
  unfold gateStep dispatchOut armDisconnects
  have h0 : PeerGate.isInitArm MK.Unknown = false := by decide
  have h2 := (source_gate_after_init .Unknown).1
  rw [hk]
  by_cases he : msgType m % 2 = 0
  · have hb : (msgType m % 2 == 0) = true := by simp [he]
    have := (source_dispatch_facts true)
    simp [he, hb, h0, h2, this.2.2.2.2.2.1, this.2.2.2.2.2.2.1]
  · have hb : (msgType m % 2 == 0) = false := by simp [he]
    have := (source_dispatch_facts false)
    simp [he, hb, h0, h2, this.2.2.2.2.2.1, this.2.2.2.2.2.2.2.1]

/-- **What an `error` does** (after Init): `ChannelMessageHandler::handle_error` is invoked; the peer is dropped
    afterwards iff the channel id is all-zero, otherwise the following messages are still processed -/
theorem error_dispatch_rule (classify : Nat → MK) (initOk : Bytes → Bool) (m : Bytes)
    (rest : List Bytes) (hk : classify (msgType m) = .Error) :
    gateRun classify initOk { theirInit := true, ourInitQueued := true } (m :: rest)
      = if chanIdZero m then [.passUp m, .disconnect]
        else .passUp m :: gateRun classify initOk { theirInit := true, ourInitQueued := true } rest := by
  rw [gateRun]
  unfold gateStep dispatchOut armDisconnects
  have h0 : PeerGate.isInitArm MK.Error = false := by decide
  have h2 := (source_gate_after_init .Error).1
  have h3 := (source_dispatch_facts (msgType m % 2 == 0)).1
  rw [hk]
  by_cases hz : chanIdZero m = true <;> simp [h0, h2, h3, hz]
example : gateRun (fun t => if t = 16 then .Init else if t = 17 then .Error else .Unknown) (fun _ => true) Gate.start
    [[0, 16], [0, 17] ++ List.replicate 32 42 ++ [0, 0], [0, 17] ++ List.replicate 32 0 ++ [0, 0], [0, 3]]
    = [.initOk, .passUp ([0, 17] ++ List.replicate 32 42 ++ [0, 0]), .passUp ([0, 17] ++ List.replicate 32 0 ++ [0, 0]), .disconnect] := by
  decide

/-- a `warning` (after Init) reaches no handler and keeps the peer -/
theorem warning_is_only_logged (classify : Nat → MK) (initOk : Bytes → Bool) (m : Bytes)
    (rest : List Bytes) (hk : classify (msgType m) = .Warning) :
    gateRun classify initOk { theirInit := true, ourInitQueued := true } (m :: rest)
      = .ignored :: gateRun classify initOk { theirInit := true, ourInitQueued := true } rest := by
  rw [gateRun]
  unfold gateStep dispatchOut armDisconnects
  have h0 : PeerGate.isInitArm MK.Warning = false := by decide
  have h2 := (source_gate_after_init .Warning).1
  have h3 := (source_dispatch_facts (msgType m % 2 == 0))
  rw [hk]
  simp [h0, h2, h3.2.1, h3.2.2.1]

/-- **Handshake.** Under Diffie–Hellman commutativity and AEAD correctness the three acts are
    accepted, the responder learns the initiator's static key, and the transport keys are mirror
    images: initiator (sk, rk, sck, rck) = responder (rk, sk, rck, sck), all counters 0. -/
theorem handshake_keys_match (hc : HandshakeOK c) (sI eI sR eR : Bytes) :
    ∃ kI kR, runHandshake c sI eI sR eR = some (kI, c.pubOf sI, kR)
      ∧ kI.sk = kR.rk ∧ kI.rk = kR.sk ∧ kI.sck = kR.rck ∧ kI.rck = kR.sck
      ∧ kI.sn = 0 ∧ kI.rn = 0 ∧ kR.sn = 0 ∧ kR.rn = 0 := by
  unfold runHandshake getActOne processActOne
  simp only []
  rw [inbound_of_outbound c hc.aead _ _ _ _ (hc.pub_len eI) (hc.pub_valid eI) (hc.ecdh_comm sR eI)]
  simp only []
  unfold processActTwo
  rw [inbound_of_outbound c hc.aead _ _ _ _ (hc.pub_len eR) (hc.pub_valid eR) (hc.ecdh_comm eI eR)]
  simp only []
  rw [actThree_roundtrip c hc.aead _ _ _ _ _ _ (hc.pub_len sI) (hc.pub_valid sI) (hc.ecdh_comm eR sI)]
  exact ⟨_, _, rfl, rfl, rfl, rfl, rfl, rfl, rfl, rfl, rfl⟩

/-- the handshake output plugs into the transport theorems: the initiator's sender and the
    responder's receiver (and vice versa) are mirror images -/
theorem handshake_then_transport (hc : HandshakeOK c) (sI eI sR eR : Bytes) :
    ∃ kI kR, runHandshake c sI eI sR eR = some (kI, c.pubOf sI, kR)
      ∧ Receiver.ofKeys kR = Receiver.mirrorOf (Sender.ofKeys kI)
      ∧ Receiver.ofKeys kI = Receiver.mirrorOf (Sender.ofKeys kR) := by
  obtain ⟨kI, kR, h, h1, h2, h3, h4, h5, h6, h7, h8⟩ := handshake_keys_match c hc sI eI sR eR
  refine ⟨kI, kR, h, ?_, ?_⟩ <;>
    simp [Receiver.ofKeys, Receiver.start, Receiver.mirrorOf, Sender.ofKeys, *]

/-- **Tie of the model's literals to the source.** The rotation threshold, the Noise constants and
    the buffer / box sizes are literals in peer_channel_encryptor.rs and peer_handler.rs; they are
    re-extracted on every run (tools/gen_noise_consts.py → Generated/NoiseConsts.lean) and must equal
    the literals the model uses (`ROTATE_AT`, `NOISE_CK`, `NOISE_H`, `Receiver.start` = 18-byte
    header, acts of 50 / 50 / 66 bytes, 16-byte tags, `msg_len < 2`). -/
theorem model_constants_match_source :
    ROTATE_AT = NoiseConsts.ROTATE_AT_SEND ∧ ROTATE_AT = NoiseConsts.ROTATE_AT_RECV
    ∧ Noise.NOISE_CK = NoiseConsts.NOISE_CK ∧ Noise.NOISE_H = NoiseConsts.NOISE_H
    ∧ (Receiver.start [] []).need = NoiseConsts.HEADER_BOX_LEN
    ∧ NoiseConsts.PEER_HEADER_READ_LEN = NoiseConsts.HEADER_BOX_LEN
    ∧ NoiseConsts.ACT_ONE_TWO_LEN = 50 ∧ NoiseConsts.PEER_FIRST_READ_LEN = 50
    ∧ NoiseConsts.ACT_THREE_LEN = 66 ∧ NoiseConsts.TAG_LEN = 16 ∧ NoiseConsts.MIN_MSG_LEN = 2 := by
  decide

/-! ### non-vacuity: a toy crypto instance satisfying every hypothesis, and the theorems applied -/

def toyTag (k : Bytes) (n : Nat) (ad m : Bytes) : Bytes :=
  List.replicate 16 (UInt8.ofNat (k.length + 3 * n + ad.length + 7 * m.length + 1))

def toy : Crypto where
  aeadSeal k n ad m := m ++ toyTag k n ad m
  aeadOpen k n ad box :=
    if 16 ≤ box.length ∧ box.drop (box.length - 16) = toyTag k n ad (box.take (box.length - 16))
    then some (box.take (box.length - 16)) else none
  hkdf2 a b := (0 :: a, 1 :: b)
  hash x := x.take 4
  ecdh _ _ := [7]
  pubOf a := List.replicate 33 (a.headD 2)
  validPub _ := true

private theorem toy_aeadOK : AeadOK toy where
  open_seal k n ad m := by
    simp [toy, toyTag]
  seal_len k n ad m := by simp [toy, toyTag]

private theorem toy_authentic : Authentic toy := by
  intro k n ad box m h
  simp only [toy] at h ⊢
  split at h
  · rename_i hcond
    cases h
    conv => lhs; rw [← List.take_append_drop (box.length - 16) box]
    rw [hcond.2]
  · cases h

private theorem toy_handshakeOK : HandshakeOK toy where
  aead := toy_aeadOK
  ecdh_comm _ _ := rfl
  pub_len _ := by simp [toy]
  pub_valid _ := rfl

def s0 : Sender := { sk := [1, 2], sn := 998, sck := [3] }
def m1 : Bytes := [0, 16, 5]
def m2 : Bytes := [128, 1]

example : MsgsOK [m1, m2] := by intro m h; simp [m1, m2] at h; rcases h with h | h <;> subst h <;> decide

-- delivery across a rotation (sn 998 → 1000 → rotate), ciphertext cut at arbitrary points
example (chunks : List Bytes) (h : chunks.flatten = (sendAll toy s0 [m1, m2]).1) :
    recvChunks toy (Receiver.mirrorOf s0) chunks
      = ([m1, m2], some (Receiver.mirrorOf (sendAll toy s0 [m1, m2]).2)) :=
  transport_delivers toy toy_aeadOK s0 [m1, m2]
    (by intro m h; simp [m1, m2] at h; rcases h with h | h <;> subst h <;> decide) chunks h

-- the second frame is sealed under the rotated key
example : (sendAll toy s0 [m1]).2.sn = 1000 ∧ ((sendAll toy s0 [m1]).2.rotate toy).sk = [1, 1, 2] := by
  decide

-- a header box with a wrong tag is not valid under the toy AEAD, so it drops the connection
example (rest : Bytes) (chunks : List Bytes)
    (h : chunks.flatten = (sendAll toy s0 [m1]).1 ++ (List.replicate 18 0 ++ rest)) :
    recvChunks toy (Receiver.mirrorOf s0) chunks = ([m1], none) :=
  tamper_disconnects toy toy_aeadOK toy_authentic s0 [m1] m2
    (by intro m h; simp [m1, m2] at h; rcases h with h | h <;> subst h <;> decide) _
    (Tampered.header _ rest (by simp) (by
      rintro ⟨p, hp⟩
      have hl := congrArg List.length hp
      simp [toy, toyTag] at hl
      have : p.length = 2 := by omega
      have h2 := congrArg List.getLast? hp
      simp [toy, toyTag, this] at h2
      revert h2; decide)) chunks h

-- whatever is delivered was genuinely framed: instantiated on the toy AEAD
example (chunks : List Bytes) (m : Bytes) (r' : Option Receiver)
    (h : recvChunks toy (Receiver.mirrorOf s0) chunks = ([m], r')) :
    ∃ rest, chunks.flatten = (frame toy s0 m).1 ++ rest := by
  obtain ⟨rest, h1, _, _⟩ := delivered_is_genuine toy toy_aeadOK toy_authentic s0 chunks [m] r' h
  exact ⟨rest, by simpa [sendAll] using h1⟩

example : ∃ kI kR, runHandshake toy [1] [2] [3] [4] = some (kI, toy.pubOf [1], kR) ∧ kI.sk = kR.rk :=
  let ⟨kI, kR, h, h1, _⟩ := handshake_keys_match toy toy_handshakeOK [1] [2] [3] [4]
  ⟨kI, kR, h, h1⟩

-- the gate: ping before Init is dropped; Init, then an unknown odd type, then a custom message
example : gateRun (fun t => if t = 16 then .Init else if t = 40001 then .Custom else .Unknown)
    (fun _ => true) Gate.start [[0, 18, 0, 0], [0, 16]] = [.disconnect] := by decide
example : gateRun (fun t => if t = 16 then .Init else if t = 40001 then .Custom else .Unknown)
    (fun _ => true) Gate.start [[0, 16], [0x40, 0x01], [0x9c, 0x41, 9], [0x40, 0x02], [0x9c, 0x41]]
    = [.initOk, .ignored, .passUp [0x9c, 0x41, 9], .disconnect] := by decide

open Ldk.PeerMsgs

/-! ## Message-size bounds

   A peer chooses numbers (`num_pong_bytes`, a message type, a block range); the node turns them into
   messages of its own.  Every such message must satisfy the encryptor's precondition
   (`≤ LN_MAX_MSG_LEN`, otherwise `encrypt_message` panics under debug assertions and drops the message
   after logging otherwise), and what BOLT 1 says must be answered must be answered. -/

/-- **The source's Ping bound is BOLT 1's**: the comparison of the `Message::Ping` arm, as translated from
    peer_handler.rs on this run, answers exactly `num_pong_bytes < 65532`. -/
theorem source_ping_answered_iff (ponglen : Nat) :
    PeerSizes.pingAnswered ponglen = true ↔ ponglen < 65532 := by
  unfold PeerSizes.pingAnswered; rw [decide_eq_true_eq] <;> omega
example : PeerSizes.pingAnswered 65531 = true ∧ ¬ PeerSizes.pingAnswered 65532 = true :=
  ⟨(source_ping_answered_iff _).mpr (by omega), fun h => by have := (source_ping_answered_iff _).mp h; omega⟩

/-- **The source's encryptor limit**: `encrypt_message_with_header_0s` (as translated) refuses exactly
    the messages longer than 65535 bytes, and `MessageBuf::from_encoded` refuses the same ones. -/
theorem source_encryptor_limit (msgLen : Nat) :
    (PeerSizes.encryptRejects msgLen = true ↔ 65535 < msgLen)
    ∧ (PeerSizes.fromEncodedRejects msgLen = true ↔ 65535 < msgLen) := by
  unfold PeerSizes.encryptRejects PeerSizes.fromEncodedRejects PeerSizes.LN_MAX_MSG_LEN
  constructor <;> (rw [decide_eq_true_eq] <;> omega)
example : PeerSizes.encryptRejects 65536 = true ∧ ¬ PeerSizes.encryptRejects 65535 = true :=
  ⟨(source_encryptor_limit _).1.mpr (by omega), fun h => by have := (source_encryptor_limit _).1.mp h; omega⟩

/-- **The source's reader limit**: `decrypt_message` (as translated) refuses exactly the boxes longer
    than 65535 + 16 bytes. -/
theorem source_reader_limit (boxLen : Nat) :
    PeerSizes.decryptRejects boxLen = true ↔ 65551 < boxLen := by
  unfold PeerSizes.decryptRejects PeerSizes.LN_MAX_MSG_LEN; rw [decide_eq_true_eq] <;> omega
example : PeerSizes.decryptRejects 65552 = true := (source_reader_limit _).mpr (by omega)

private theorem bool_false_iff {b : Bool} {p : Prop} (h : b = true ↔ p) : b = false ↔ ¬ p := by
  cases b <;> simp_all
private theorem encRej_true (x : Nat) : PeerSizes.encryptRejects x = true ↔ 65535 < x :=
  (source_encryptor_limit x).1
private theorem encRej_false (x : Nat) : PeerSizes.encryptRejects x = false ↔ x ≤ 65535 := by
  rw [bool_false_iff (encRej_true x)]; omega
private theorem decRej_true (x : Nat) : PeerSizes.decryptRejects x = true ↔ 65551 < x :=
  source_reader_limit x
private theorem decRej_false (x : Nat) : PeerSizes.decryptRejects x = false ↔ x ≤ 65551 := by
  rw [bool_false_iff (decRej_true x)]; omega
private theorem pingAns_true (n : Nat) : PeerSizes.pingAnswered n = true ↔ n < 65532 :=
  source_ping_answered_iff n
private theorem pingAns_false (n : Nat) : PeerSizes.pingAnswered n = false ↔ 65532 ≤ n := by
  rw [bool_false_iff (pingAns_true n)]; omega
private theorem pongSize_src (n : Nat) :
    PeerSizes.TYPE_BYTES + PeerSizes.pongBodySize (PeerSizes.pongByteslen n)
      = 2 + ((if n < 65535 then 2 else 10) + n) := rfl


/-- **A ping is answered iff `num_pong_bytes < 65532`** (BOLT 1), for every value a peer can put on
    the wire (and beyond). -/
theorem ping_answered_iff (ponglen : Nat) : (pingReply ponglen).isSome ↔ ponglen < 65532 := by
  unfold pingReply PONG_LIMIT; split <;> simp [*]
example : (pingReply 65531).isSome ∧ (pingReply 65532).isNone ∧ (pingReply 65535).isNone := by decide


/-- **Pong wire size**: 2 bytes type + 2 bytes `byteslen` field + `ponglen` zero bytes, for every
    `ponglen` below the `CollectionLength` escape value. -/
theorem pong_wire_size (ponglen : Nat) (h : ponglen < 65535) :
    (encodePong ponglen).length = 4 + ponglen := by
  rw [encodePong_length, if_pos h]
example : (encodePong 65531).length = 65535 := pong_wire_size _ (by omega)
example : encodePong 3 = [0, 19, 0, 3, 0, 0, 0] := by decide


/-- **The handler's bound is exactly the encryptor's precondition**: for ALL `ponglen`, the pong the
    node would build fits `LN_MAX_MSG_LEN` iff `ponglen < 65532` (the arithmetic: `4 + ponglen ≤ 65535`). -/
theorem pong_fits_iff (ponglen : Nat) :
    (encodePong ponglen).length ≤ Ldk.LN_MAX_MSG_LEN ↔ ponglen < 65532 := by
  rw [encodePong_length]
  show _ ≤ 65535 ↔ _
  split <;> omega
example : ¬ (encodePong 65532).length ≤ Ldk.LN_MAX_MSG_LEN := fun h => by
  have := (pong_fits_iff 65532).mp h; omega


/-- … and so `encrypt_message` (Framing.send) carries the reply exactly when the Ping arm builds one:
    no reply is ever refused by the encryptor ("dropped after logging" / debug panic), and no ping that
    could be answered is ignored. -/
theorem ping_bound_is_encryptor_precondition (s : Sender) (ponglen : Nat) :
    (pingReply ponglen).isSome ↔ (send c s (encodePong ponglen)).isSome := by
  rw [ping_answered_iff, ← pong_fits_iff]
  unfold send
  split <;> simp <;> omega
example : (send toy s0 (encodePong 65532)).isNone := by
  have h := ping_bound_is_encryptor_precondition toy s0 65532
  have h0 : ¬ (pingReply 65532).isSome := by decide
  cases hs : send toy s0 (encodePong 65532) with
  | none => rfl
  | some x => exact absurd (h.mpr (by simp [hs])) h0


/-- every pong the node builds: it is `Pong { byteslen: ponglen }`, has `4 + ponglen ≤ 65535` bytes
    and is sealed by the encryptor -/
theorem pong_reply_is_sent (s : Sender) (ponglen : Nat) (r : Bytes) (h : pingReply ponglen = some r) :
    r = encodePong ponglen ∧ r.length = 4 + ponglen ∧ 4 + ponglen ≤ Ldk.LN_MAX_MSG_LEN
      ∧ send c s r = some (frame c s r) := by
  obtain ⟨h1, h2, h3⟩ := pingReply_fits ponglen r h
  refine ⟨h1, h2, by rw [← h2]; exact h3.2, ?_⟩
  unfold send
  rw [if_neg (by have := h3.2; omega)]
example : ∃ r, pingReply 65531 = some r ∧ r.length = 65535 ∧ send toy s0 r = some (frame toy s0 r) := by
  have h : pingReply 65531 = some (encodePong 65531) := by
    unfold pingReply PONG_LIMIT; rw [if_pos (by omega)]
  exact ⟨_, h, (pong_reply_is_sent toy s0 65531 _ h).2.1, (pong_reply_is_sent toy s0 65531 _ h).2.2.2⟩


/-- **Every message the PeerManager builds by itself fits a frame**, whatever the peer sent: for every
    received message sequence (any bytes, any types, decodable or not, before or after Init) every
    reply handed to enqueue_message (pong, decode-failure warning) has 2 … `LN_MAX_MSG_LEN` bytes, so
    `encrypt_message` never refuses it. -/
theorem node_replies_fit (classify : Nat → PeerGate.MK) (initOk : Bytes → Bool) (other : Bytes → Decoded)
    (g : Gate) (received : List Bytes) (s : Sender) :
    ∀ r ∈ repliesOf (nodeRun classify initOk other g received),
      2 ≤ r.length ∧ r.length ≤ Ldk.LN_MAX_MSG_LEN ∧ send c s r = some (frame c s r) := by
  intro r hr
  have h := nodeRun_replies_fit classify initOk other received g r hr
  refine ⟨h.1, h.2, ?_⟩
  unfold send
  rw [if_neg (by have := h.2; omega)]
-- Init, a ping asking for 3 bytes, a ping asking for 65532 (ignored), an undecodable gossip message
-- (warning), a ping that does not decode (drop): two replies, then the drop
example : nodeRun (fun t => if t = 16 then .Init else .Unknown) (fun _ => true)
      (fun m => if msgType m = 256 then .bogusGossip else .ok) Gate.start
      [[0, 16], [0, 18, 0, 3, 0, 1, 9], [0, 18, 0xff, 0xfc, 0, 0], [1, 0, 7], [0, 18, 0, 0, 0, 2, 0], [0, 16]]
    = [.reply [0, 19, 0, 3, 0, 0, 0], .reply (bogusGossipWarning 256), .disc] := by decide


/-- **… and is delivered**: the replies, framed by the node's sender, reach the peer exactly and in
    order for every partition of the ciphertext into reads (nothing is dropped silently). -/
theorem node_replies_delivered (hc : AeadOK c) (classify : Nat → PeerGate.MK) (initOk : Bytes → Bool)
    (other : Bytes → Decoded) (g : Gate) (received : List Bytes) (s : Sender) (chunks : List Bytes)
    (hch : chunks.flatten = (sendAll c s (repliesOf (nodeRun classify initOk other g received))).1) :
    recvChunks c (Receiver.mirrorOf s) chunks
      = (repliesOf (nodeRun classify initOk other g received),
         some (Receiver.mirrorOf (sendAll c s (repliesOf (nodeRun classify initOk other g received))).2)) :=
  transport_delivers c hc s _ (fun r hr => nodeRun_replies_fit classify initOk other received g r hr)
    chunks hch
example (chunks : List Bytes)
    (h : chunks.flatten = (sendAll toy s0 [encodePong 3, encodePong 5]).1) :
    recvChunks toy (Receiver.mirrorOf s0) chunks
      = ([encodePong 3, encodePong 5],
         some (Receiver.mirrorOf (sendAll toy s0 [encodePong 3, encodePong 5]).2)) := by
  have hr : repliesOf (nodeRun (fun _ => .Unknown) (fun _ => true) (fun _ => .ok)
      { theirInit := true, ourInitQueued := true } [[0, 18, 0, 3, 0, 0], [0, 18, 0, 5, 0, 0]])
      = [encodePong 3, encodePong 5] := by
    simp only [nodeRun, nodeStep, decode]
    decide
  have := node_replies_delivered toy toy_aeadOK (fun _ => .Unknown) (fun _ => true) (fun _ => .ok)
    { theirInit := true, ourInitQueued := true } [[0, 18, 0, 3, 0, 0], [0, 18, 0, 5, 0, 0]] s0 chunks
  rw [hr] at this
  exact this h


/-- **What a ping does**, for every message of type 18 that decodes (any `byteslen`, trailing bytes
    allowed) received after Init: the reply is `Pong { byteslen: ponglen }` iff `ponglen < 65532`,
    otherwise nothing; the connection is kept and nothing is passed to a handler. -/
theorem ping_answered_exactly (classify : Nat → PeerGate.MK) (initOk : Bytes → Bool) (other : Bytes → Decoded)
    (g : Gate) (hg : g.theirInit = true) (m : Bytes) (hty : msgType m = 18) (ponglen byteslen : Nat)
    (hp : parsePing (m.drop 2) = some (ponglen, byteslen)) :
    nodeStep classify initOk other g m
      = (g, if ponglen < 65532 then [.reply (encodePong ponglen)] else []) := by
  unfold nodeStep decode
  simp only [hty, PING_TYPE, hp, Option.isSome_some, if_true, hg, Bool.not_true, Bool.false_eq_true,
    if_false, pingReply, PONG_LIMIT]
  by_cases h : ponglen < 65532 <;> simp [h]
/-- a message of type 18 that does not decode (shorter than its two u16s, or `byteslen` larger than
    what follows) drops the connection -/
theorem malformed_ping_disconnects (classify : Nat → PeerGate.MK) (initOk : Bytes → Bool)
    (other : Bytes → Decoded) (g : Gate) (m : Bytes) (hty : msgType m = 18)
    (hp : parsePing (m.drop 2) = none) :
    nodeStep classify initOk other g m = (g, [.disc]) := by
  unfold nodeStep decode
  simp [hty, PING_TYPE, hp]
example (g : Gate) : nodeStep (fun _ => .Unknown) (fun _ => true) (fun _ => .ok) g [0, 18, 0, 0, 0, 2, 0]
    = (g, [.disc]) := malformed_ping_disconnects _ _ _ g _ (by decide) (by decide)


/-- one message while the peer's Init is outstanding: the peer is dropped, or the message did not decode and was answered
    with a warning (acted on before the gate; state unchanged), or it is an accepted Init — never a handler call -/
theorem nodeStep_before_init (classify : Nat → PeerGate.MK) (initOk : Bytes → Bool) (other : Bytes → Decoded)
    (g : Gate) (hg : g.theirInit = false) (m : Bytes) :
    (nodeStep classify initOk other g m).2 = [.disc]
    ∨ ((decode other m = .bogusGossip ∨ decode other m = .zlib) ∧ ∃ r, nodeStep classify initOk other g m = (g, [.reply r]))
    ∨ (classify (msgType m) = .Init ∧ initOk m = true ∧ decode other m = .ok
        ∧ (nodeStep classify initOk other g m).2 = []) := by
  unfold nodeStep
  cases hd : decode other m with
  | fatal => left; rfl
  | bogusGossip => right; left; exact ⟨Or.inl rfl, _, rfl⟩
  | zlib => right; left; exact ⟨Or.inr rfl, _, rfl⟩
  | ok =>
    simp only []
    by_cases hp : msgType m = PING_TYPE
    · left; simp [hp, hg]
    · by_cases hq : msgType m = PONG_TYPE
      · left; simp [hp, hq, hg]
      · simp only [hp, hq, if_false]
        by_cases hk : classify (msgType m) = .Init
        · by_cases hi : initOk m = true
          · right; right
            refine ⟨hk, hi, by first | trivial | rfl, ?_⟩
            unfold gateStep
            have h1 : PeerGate.isInitArm PeerGate.MK.Init = true := rfl
            rw [hk]
            simp [h1, hi, hg, (source_gate_after_init .Init).2.2]
          · left
            unfold gateStep
            have h1 : PeerGate.isInitArm PeerGate.MK.Init = true := rfl
            rw [hk]
            simp [h1, hi]
        · left
          rw [no_handler_call_before_init classify initOk g hg m hk]

/-- **No handler is invoked before both Inits are exchanged** — for the node model the driver runs (`nodeRun`: decode-error
    table, Init gate, Ping / Pong arms), from the state right after the handshake (our Init queued, theirs outstanding):
    if ANY message is handed to a channel / routing / onion / custom handler, an accepted Init precedes it in the
    received sequence, and everything before that Init was an undecodable message answered with a warning (acted on
    before the gate, never handed to a handler). -/
theorem node_no_handler_before_init (classify : Nat → PeerGate.MK) (initOk : Bytes → Bool) (other : Bytes → Decoded) :
    ∀ (msgs : List Bytes) (g : Gate) (x : Bytes), g.theirInit = false →
      Ev.up x ∈ nodeRun classify initOk other g msgs →
      ∃ pre m₀ post, msgs = pre ++ m₀ :: post ∧ classify (msgType m₀) = .Init ∧ initOk m₀ = true
        ∧ decode other m₀ = .ok
        ∧ ∀ p ∈ pre, decode other p = .bogusGossip ∨ decode other p = .zlib := by
  intro msgs
  induction msgs with
  | nil => intro g x _ h; simp [nodeRun] at h
  | cons m ms ih =>
    intro g x hg h
    unfold nodeRun at h
    rcases nodeStep_before_init classify initOk other g hg m with h1 | ⟨hdec, r, h2⟩ | ⟨hk, hi, hd, h3⟩
    · generalize hs : nodeStep classify initOk other g m = st at h h1
      obtain ⟨g1, evs⟩ := st
      simp only [] at h h1
      subst h1
      simp at h
    · rw [h2] at h
      simp at h
      obtain ⟨pre, m₀, post, he, hk, hi, hd, hpre⟩ := ih g x hg h
      refine ⟨m :: pre, m₀, post, by simp [he], hk, hi, hd, ?_⟩
      intro p hp
      rcases List.mem_cons.mp hp with rfl | hp
      · exact hdec
      · exact hpre p hp
    · exact ⟨[], m, ms, rfl, hk, hi, hd, by simp⟩
example : nodeRun (fun t => if t = 16 then .Init else if t = 17 then .Error else .Unknown) (fun _ => true) (fun _ => .ok)
      Gate.start [[0, 17] ++ List.replicate 32 42 ++ [0, 0], [0, 16]] = [.disc] := by decide
example : upsOf (nodeRun (fun t => if t = 16 then .Init else if t = 17 then .Error else .Unknown) (fun _ => true)
      (fun m => if msgType m = 256 then .bogusGossip else .ok)
      Gate.start [[1, 0, 7], [0, 16], [0, 17] ++ List.replicate 32 42 ++ [0, 0]])
    = [[0, 17] ++ List.replicate 32 42 ++ [0, 0]] := by decide


/-- `parsePing` inverts `encodePing` (so the theorems above are about the pings a peer encodes) -/
theorem parsePing_encodePing (ponglen byteslen : Nat) (hp : ponglen < 65536) (hb : byteslen < 65535)
    (extra : Bytes) :
    parsePing ((encodePing ponglen byteslen ++ extra).drop 2) = some (ponglen, byteslen) := by
  have h1 : (encodePing ponglen byteslen ++ extra).drop 2
      = be16 ponglen ++ (be16 byteslen ++ (zeros byteslen ++ extra)) := by
    simp [encodePing, collectionLength, hb, be16, PING_TYPE]
  rw [h1]
  have h2 : ∀ (n : Nat) (rest : Bytes), n < 65536 → unbe16 (be16 n ++ rest) = n := by
    intro n rest hn
    have := unbe16_be16 n hn
    simpa [unbe16, be16] using this
  unfold parsePing
  have hd : (be16 ponglen ++ (be16 byteslen ++ (zeros byteslen ++ extra))).drop 2
      = be16 byteslen ++ (zeros byteslen ++ extra) := by simp [be16]
  rw [hd, h2 _ _ hp, h2 _ _ (by omega)]
  simp [be16, zeros_length]
  omega

example (g : Gate) (hg : g.theirInit = true) :
    nodeStep (fun _ => .Unknown) (fun _ => true) (fun _ => .ok) g (encodePing 65532 5 ++ [1, 2])
      = (g, []) := by
  have := ping_answered_exactly (fun _ => .Unknown) (fun _ => true) (fun _ => .ok) g hg
    (encodePing 65532 5 ++ [1, 2]) (by decide) 65532 5 (parsePing_encodePing 65532 5 (by omega) (by omega) _)
  simpa using this


/-- the node's own ping is 70 bytes and asks for the 4-byte pong -/
theorem own_ping_size : ownPing.length = 70 ∧ pingReply 0 = some (encodePong 0)
    ∧ (encodePong 0).length = 4 := by decide

/-- the decode-failure warnings are small whatever type the peer put on the wire -/
theorem warnings_fit (ty : Nat) :
    (bogusGossipWarning ty).length ≤ 81 ∧ zlibWarning.length = 73 :=
  ⟨(bogus_len ty).2, zlib_len⟩
example : bogusGossipWarning 256 = encodeWarning (ascii "Unreadable/bogus gossip message of type 256") := by
  decide


/-- **Read side**: the length header is a u16, so the body box the reader waits for (`msg_len + 16`)
    never exceeds what `decrypt_message` accepts (`LN_MAX_MSG_LEN + 16`) — its size check cannot fire
    from `do_read_event` — and after the `msg_len < 2` rule it is at least the `2 + 16` the
    `debug_assert!` before `decrypt_message` demands. -/
theorem read_body_size_in_range (p : Bytes) :
    PeerSizes.decryptRejects (unbe16 p + PeerSizes.READ_BODY_EXTRA) = false
    ∧ (2 ≤ unbe16 p → PeerSizes.READ_BODY_MIN ≤ unbe16 p + PeerSizes.READ_BODY_EXTRA) := by
  have := unbe16_lt p
  rw [decRej_false]
  simp only [PeerSizes.READ_BODY_EXTRA, PeerSizes.READ_BODY_MIN]
  omega
example : PeerSizes.decryptRejects (65535 + 16) = false ∧ PeerSizes.decryptRejects (65535 + 17) = true := by
  decide


/-- **The source's bounds, as translated**: the Ping arm's comparison (`PeerSizes.pingAnswered`)
    implies the precondition of `encrypt_message_with_header_0s` (`PeerSizes.encryptRejects`) for the
    pong it builds: type + byteslen field + ponglen = `4 + ponglen ≤ 65535`. -/
theorem source_ping_bound_implies_encryptor_precondition (ponglen : Nat)
    (h : PeerSizes.pingAnswered ponglen = true) :
    PeerSizes.TYPE_BYTES + PeerSizes.pongBodySize (PeerSizes.pongByteslen ponglen) = 4 + ponglen
    ∧ 4 + ponglen ≤ PeerSizes.LN_MAX_MSG_LEN
    ∧ PeerSizes.encryptRejects
        (PeerSizes.TYPE_BYTES + PeerSizes.pongBodySize (PeerSizes.pongByteslen ponglen)) = false := by
  rw [pingAns_true] at h
  rw [pongSize_src, if_pos (by omega), encRej_false]
  show _ ∧ _ ≤ 65535 ∧ _
  omega
example : PeerSizes.pingAnswered 65531 = true ∧ PeerSizes.pingAnswered 65532 = false := by
  rw [pingAns_true, pingAns_false]; omega


/-- … and conversely every ping the source ignores could not have been answered (BOLT 1: the node
    MUST answer `num_pong_bytes < 65532`) -/
theorem source_ping_bound_is_tight (ponglen : Nat) (h : PeerSizes.pingAnswered ponglen = false) :
    PeerSizes.encryptRejects
        (PeerSizes.TYPE_BYTES + PeerSizes.pongBodySize (PeerSizes.pongByteslen ponglen)) = true := by
  rw [pingAns_false] at h
  rw [pongSize_src, encRej_true]
  split <;> omega
example : PeerSizes.encryptRejects (PeerSizes.TYPE_BYTES + PeerSizes.pongBodySize 65532) = true := by decide


/-- the ping the PeerManager builds by itself (timer tick / extra ping), with the source's literals, is
    accepted by the encryptor -/
theorem source_own_ping_fits :
    PeerSizes.encryptRejects (PeerSizes.TYPE_BYTES + PeerSizes.pingBodySize PeerSizes.OWN_PING_BYTESLEN) = false
    ∧ PeerSizes.pingAnswered PeerSizes.OWN_PING_PONGLEN = true := by
  rw [encRej_false, pingAns_true]; decide

/-- one reply_channel_range batch (`≤ MAX_SCIDS_PER_REPLY` ids, routing/gossip.rs) fits a frame and
    its u16 `encoding_len` does not wrap -/
theorem reply_channel_range_fits (scids : Nat) (h : scids ≤ PeerSizes.MAX_SCIDS_PER_REPLY) :
    replyChannelRangeLen scids ≤ Ldk.LN_MAX_MSG_LEN
    ∧ PeerSizes.replyChannelRangeEncodingLen scids < 65536
    ∧ PeerSizes.encryptRejects (PeerSizes.TYPE_BYTES + PeerSizes.replyChannelRangeBodySize scids) = false := by
  simp only [PeerSizes.MAX_SCIDS_PER_REPLY] at h
  rw [encRej_false]
  simp only [replyChannelRangeLen, PeerSizes.replyChannelRangeEncodingLen, PeerSizes.TYPE_BYTES,
    PeerSizes.replyChannelRangeBodySize]
  refine ⟨?_, by omega, by omega⟩
  show _ ≤ 65535; omega
example : replyChannelRangeLen 8000 = 64046 ∧ ¬ replyChannelRangeLen 8187 ≤ Ldk.LN_MAX_MSG_LEN := by decide


/-- **Tie of the size model to the source** (tools/gen_peer_sizes.py → Generated/PeerSizes.lean,
    regenerated on every run): the model's Ping bound, pong / ping / warning / reply_channel_range
    encodings, the encryptor's and the reader's limits are the translated ones — for all arguments. -/
theorem size_bounds_match_source :
    Ldk.LN_MAX_MSG_LEN = PeerSizes.LN_MAX_MSG_LEN
    ∧ (∀ n, (pingReply n).isSome = PeerSizes.pingAnswered n)
    ∧ (∀ n r, pingReply n = some r → r = encodePong (PeerSizes.pongByteslen n))
    ∧ (∀ n, (collectionLength n).length = PeerSizes.collectionLengthSize n)
    ∧ (∀ n, (encodePong n).length = PeerSizes.TYPE_BYTES + PeerSizes.pongBodySize n)
    ∧ (∀ p b, (encodePing p b).length = PeerSizes.TYPE_BYTES + PeerSizes.pingBodySize b)
    ∧ (∀ (s : Sender) (m : Bytes), (send c s m).isNone = PeerSizes.encryptRejects m.length)
    ∧ (∀ n, PeerSizes.fromEncodedRejects n = PeerSizes.encryptRejects n)
    ∧ (∀ (r : Receiver) (box : Bytes), PeerSizes.decryptRejects box.length = true →
          decryptMessage c r box = none)
    ∧ (∀ (r : Receiver) (box : Bytes), PeerSizes.decryptRejects box.length = false →
          decryptMessage c r box = (c.aeadOpen r.rk r.rn [] box).map (fun m => (m, { r with rn := r.rn + 1 })))
    ∧ PING_TYPE = PeerSizes.PING_TYPE ∧ PONG_TYPE = PeerSizes.PONG_TYPE
    ∧ WARNING_TYPE = PeerSizes.WARNING_TYPE
    ∧ ownPing = encodePing PeerSizes.OWN_PING_PONGLEN PeerSizes.OWN_PING_BYTESLEN
    ∧ PeerSizes.HEADER_PLACEHOLDER = NoiseConsts.HEADER_BOX_LEN
    ∧ PeerSizes.LENGTH_HEADER_BYTES + NoiseConsts.TAG_LEN = NoiseConsts.HEADER_BOX_LEN
    ∧ PeerSizes.READ_BODY_EXTRA = NoiseConsts.TAG_LEN
    ∧ PeerSizes.READ_BODY_MIN = NoiseConsts.MIN_MSG_LEN + NoiseConsts.TAG_LEN
    ∧ PeerSizes.HEADER_PLACEHOLDER + NoiseConsts.TAG_LEN ≤ PeerSizes.MSG_BUF_ALLOC_SIZE
    ∧ PeerSizes.MSG_BUF_ALLOC_SIZE ≤ PeerSizes.LN_MAX_MSG_LEN
    ∧ (∀ d : Bytes, (encodeWarning d).length = PeerSizes.TYPE_BYTES + PeerSizes.warningBodySize d.length)
    ∧ zlibWarning.length = PeerSizes.TYPE_BYTES + PeerSizes.warningBodySize PeerSizes.ZLIB_WARNING_LEN
    ∧ (∀ ty, bogusGossipWarning ty
          = encodeWarning (ascii PeerSizes.BOGUS_GOSSIP_WARNING_PREFIX ++ dec5 ty))
    ∧ (∀ n, replyChannelRangeLen n = PeerSizes.TYPE_BYTES + PeerSizes.replyChannelRangeBodySize n)
    ∧ Ldk.MAX_SCIDS_PER_REPLY = PeerSizes.MAX_SCIDS_PER_REPLY := by
  refine ⟨rfl, ?_, ?_, ?_, ?_, ?_, ?_, ?_, ?_, ?_, rfl, rfl, rfl, rfl, rfl, rfl, rfl, rfl,
    by decide, by decide, ?_, by decide, fun _ => rfl, ?_, rfl⟩
  · intro n
    rw [Bool.eq_iff_iff, ping_answered_iff, pingAns_true]
  · intro n r h
    exact (pingReply_fits n r h).1
  · intro n
    rw [collectionLength_length]; unfold PeerSizes.collectionLengthSize; split <;> rfl
  · intro n
    rw [encodePong_length]
    unfold PeerSizes.TYPE_BYTES PeerSizes.pongBodySize PeerSizes.collectionLengthSize
    split <;> omega
  · intro p b
    rw [encodePing_length]
    unfold PeerSizes.TYPE_BYTES PeerSizes.pingBodySize PeerSizes.collectionLengthSize
    split <;> omega
  · intro s m
    rw [Bool.eq_iff_iff, encRej_true]
    unfold send
    have : Ldk.LN_MAX_MSG_LEN = 65535 := rfl
    split <;> simp <;> omega
  · intro n
    rw [Bool.eq_iff_iff, encRej_true, (source_encryptor_limit n).2]
  · intro r box h
    unfold decryptMessage
    rw [decRej_true] at h
    have : Ldk.LN_MAX_MSG_LEN = 65535 := rfl
    rw [if_pos (by omega)]
  · intro r box h
    unfold decryptMessage
    rw [decRej_false] at h
    have : Ldk.LN_MAX_MSG_LEN = 65535 := rfl
    rw [if_neg (by omega)]
    cases c.aeadOpen r.rk r.rn [] box <;> rfl
  · intro d
    rw [encodeWarning_length]
    simp [PeerSizes.TYPE_BYTES, PeerSizes.warningBodySize, PeerSizes.CHANNEL_ID_LEN]; omega
  · intro n
    simp [replyChannelRangeLen, PeerSizes.TYPE_BYTES, PeerSizes.replyChannelRangeBodySize]; omega

/-! ### the OUTBOUND path: enqueue_message / do_attempt_write_data / write_buffer_space_avail / timer / broadcast

    `PeerWrite.run c sched k ops` folds ANY list of entry-point calls (`PeerWrite.Op`: process_events with
    any handler messages, write_buffer_space_avail, gossip broadcasts, received pongs / messages, timer
    ticks, backlog changes — each with any refill sources) over a connection, against ANY acceptance
    schedule `sched` (the i-th send_data call takes any `0 ≤ n ≤ len` bytes). -/
section Outbound
open Ldk.PeerWrite

/-- the connection right after the handshake: nothing queued -/
def conn0 (s : Sender) (bl : Bool) : Conn := { p := WPeer.fresh s, bl := bl, alive := true }

/-- **Outbound bytes are written in order, once.** For every op sequence and every acceptance schedule:
    the bytes the socket accepted, followed by the bytes still queued (the unwritten rest of the front
    buffer, then the other buffers), are exactly the concatenation of every buffer ever queued, in queue
    order.  So the accepted stream is a PREFIX of that concatenation: no byte is re-sent, skipped or
    reordered, whatever partial counts `send_data` returned.  (The proof unfolds the translated
    `advanceOffset` / `bufferDone`: setting the offset instead of advancing it breaks it.) -/
theorem outbound_bytes_in_order (sched : Nat → Option Nat) (s : Sender) (bl : Bool) (ops : List Op) :
    let p := (run c sched (conn0 s bl) ops).p
    p.wire ++ p.remaining = p.queued ∧ p.wire <+: p.queued := by
  intro p
  have h : Inv p := inv_run c sched ops (conn0 s bl) (inv_fresh s)
  exact ⟨h.1, ⟨p.remaining, h.1⟩⟩

/-- … and the offset always points into the front buffer (the slice `&next_buff[offset..]` of
    do_attempt_write_data never panics), `0` when the queue is empty -/
theorem outbound_offset_in_range (sched : Nat → Option Nat) (s : Sender) (bl : Bool) (ops : List Op) :
    let p := (run c sched (conn0 s bl) ops).p
    p.off ≤ (p.out.headD []).length :=
  (inv_run c sched ops (conn0 s bl) (inv_fresh s)).2

/-- **Buffer limits drop gossip only.** `enqueue_message` (every channel / control / custom message, the
    replies the node builds, its pings) consults no limit: whatever is already queued — any number of
    buffers, any sizes, any `msgs_sent_since_pong` — a message that fits a frame is encrypted and appended,
    and the broadcast queue is untouched; whereas a gossip broadcast is skipped exactly when the translated
    `buffer_full_drop_gossip_broadcast() && !allow_large_buffer` holds (or it exceeds a frame). Together
    with `outbound_bytes_in_order` (nothing leaves the queue except through the socket) a queued channel
    message is never lost. -/
theorem buffer_limits_drop_gossip_only (p : WPeer) (m : Bytes) :
    (m.length ≤ Ldk.LN_MAX_MSG_LEN →
      (enqueue c p m).2 = true ∧ (enqueue c p m).1.out = p.out ++ [(frame c p.snd m).1]
        ∧ (enqueue c p m).1.gossip = p.gossip)
    ∧ (∀ allowLarge capTotal, (broadcast p m allowLarge capTotal).2 = false ↔
        ((capTotal > PeerWriteGen.OUTBOUND_BUFFER_SIZE_LIMIT_DROP_GOSSIP ∧ allowLarge = false)
          ∨ m.length > Ldk.LN_MAX_MSG_LEN))
    ∧ (∀ allowLarge capTotal, (broadcast p m allowLarge capTotal).1.out = p.out) := by
  refine ⟨enqueue_fits c p m, ?_, ?_⟩
  · intro al cap
    unfold broadcast PeerWriteGen.broadcastSkips PeerWriteGen.bufferFullDropGossip
    by_cases h1 : cap > PeerWriteGen.OUTBOUND_BUFFER_SIZE_LIMIT_DROP_GOSSIP <;> cases al <;>
      by_cases h2 : m.length > Ldk.LN_MAX_MSG_LEN <;> simp [h1, h2]
  · intro al cap
    unfold broadcast
    split
    · rfl
    · split <;> rfl

/-- **End to end: what the peer's PeerManager delivers is exactly what was sent.** Take any op sequence
    (any interleaving of process_events / write_buffer_space_avail / timer / broadcast / pong ops), ANY
    partial-write schedule of the socket, and a moment at which the queue has been written out
    (`out = []`; that an all-accepting socket gets there is validated by the c15write drain phase, not proved); cut the bytes the socket accepted into reads in ANY way
    and feed them to the peer's `do_read_event` (the mirror receiver of `transport_delivers`): it
    delivers exactly the plaintext messages that were encrypted, in order, stays connected and in sync
    with the sender.  `MsgsOK`: every message carries its 2-byte type (≤ 65535 is enforced by the model). -/
theorem outbound_then_inbound_delivers (hc : AeadOK c) (sched : Nat → Option Nat) (s : Sender) (bl : Bool)
    (ops : List Op) (chunks : List Bytes) :
    let p := (run c sched (conn0 s bl) ops).p
    MsgsOK p.plains.reverse → p.out = [] → chunks.flatten = p.wire →
    recvChunks c (Receiver.mirrorOf s) chunks = (p.plains.reverse, some (Receiver.mirrorOf p.snd)) := by
  intro p hm ho hch
  have hi : Inv p := inv_run c sched ops (conn0 s bl) (inv_fresh s)
  have hs : SInv c s p := sinv_run c s sched ops (conn0 s bl) (sinv_fresh c s)
  have hw : p.wire = (sendAll c s p.plains.reverse).1 := by
    have h1 := hi.1
    rw [ho] at h1
    simp only [List.flatten_nil, List.drop_nil, List.append_nil] at h1
    rw [hs]; exact h1
  have := transport_delivers c hc s p.plains.reverse hm chunks (by rw [hch, hw])
  rw [this, hs]

/-- … and at ANY moment (queue not written out): the accepted bytes are a prefix of the ciphertext of the
    messages encrypted so far, so — by `truncation_delivers_prefix` / `tamper_disconnects` — the peer can
    only ever have been handed a prefix of that message sequence. -/
theorem outbound_wire_is_ciphertext_prefix (sched : Nat → Option Nat) (s : Sender) (bl : Bool) (ops : List Op) :
    let p := (run c sched (conn0 s bl) ops).p
    p.wire <+: (sendAll c s p.plains.reverse).1 := by
  intro p
  have hi : Inv p := inv_run c sched ops (conn0 s bl) (inv_fresh s)
  have hs : SInv c s p := sinv_run c s sched ops (conn0 s bl) (sinv_fresh c s)
  rw [hs]
  exact ⟨p.remaining, hi.1⟩

/-- **Read pausing.** Every loop iteration of do_attempt_write_data that calls `send_data` (the queue is
    non-empty after the refills, or the call is forced) passes `resume_read = should_read` and leaves
    `sent_pause_read = !should_read`, where `should_read` is the translated expression evaluated on the
    queue AT THE TIME OF THE CALL: reads are paused iff `OUTBOUND_BUFFER_LIMIT_READ_PAUSE` (12) or more
    buffers are queued, or gossip processing is backlogged and a channel_announcement arrived since. -/
theorem read_pause_rule (sched : Nat → Option Nat) (bl : Bool) (p : WPeer) (src : Src) (force : Bool)
    (hcall : (refill c p src).1.out ≠ [] ∨ force = true) :
    let q := (shouldRead (refill c p src).1 bl).1
    (iter c sched bl p src force).1.sentPause
      = !(PeerWriteGen.shouldRead q.out.length bl q.annSince)
    ∧ ((iter c sched bl p src force).1.sentPause = true ↔
        (12 ≤ q.out.length ∨ (bl = true ∧ q.annSince = true))) := by
  intro q
  have hq : q.out = (refill c p src).1.out := by cases bl <;> rfl
  have h1 : (iter c sched bl p src force).1.sentPause = !(PeerWriteGen.shouldRead q.out.length bl q.annSince) := by
    unfold iter
    simp only
    rw [writeOnce_pause sched _ _ force (by rw [← hq] at hcall; exact hcall)]
    rfl
  refine ⟨h1, ?_⟩
  rw [h1]
  unfold PeerWriteGen.shouldRead PeerWriteGen.OUTBOUND_BUFFER_LIMIT_READ_PAUSE
  cases bl <;> cases q.annSince <;> simp <;> omega

/-- the entry rule of do_attempt_write_data: a stale flag (`should_read == sent_pause_read`) forces one
    `send_data` call even with an empty queue and `awaiting_write_event` set, and so does
    write_buffer_space_avail -/
theorem stale_flag_forces_a_call (force sr sp : Bool) :
    PeerWriteGen.forceOnEntry force sr sp = (force || (sr == sp))
    ∧ (∀ awaiting, sr = sp → PeerWriteGen.loopCond (PeerWriteGen.forceOnEntry force sr sp) awaiting = true) := by
  refine ⟨rfl, ?_⟩
  intro aw h
  subst h
  cases force <;> cases sr <;> cases aw <;> rfl

-- non-vacuity: a run on the toy crypto with partial writes (3 bytes, then 0, then everything)
def wops : List Op := [.events [m1, m2] false Src.none, .writeAvail Src.none, .broadcast m1 false 0, .writeAvail Src.none]
def wsched : Nat → Option Nat := fun i => if i = 0 then some 3 else if i = 1 then some 0 else none
example : (run toy wsched (conn0 s0 false) wops).p.out = []
    ∧ (run toy wsched (conn0 s0 false) wops).p.plains.reverse = [m1, m2, m1]
    ∧ ((run toy wsched (conn0 s0 false) wops).p.log.map (fun x => (x.data.length, x.acc))).reverse
        = [(37, 3), (34, 0), (34, 34), (36, 36), (37, 37)] := by decide
example : (broadcast (WPeer.fresh s0) m1 false 131073).2 = false ∧ (enqueue toy (WPeer.fresh s0) m1).2 = true := by decide

end Outbound

/-! ## Ephemeral keys: one fresh BOLT-8 ephemeral key per connection, replayed transcripts rejected

   Model/EphKey.lean: PeerManager::new / get_ephemeral_key / AtomicCounter, with WHAT is hashed
   translated from the Rust text on every run (tools/gen_peer_eph.py → Generated/PeerEph.lean).
   The hash is a parameter `H`; its collision-freeness is an explicit hypothesis. -/
section Ephemeral
open Ldk.EphKey Ldk.PeerEph

/-- **The facts about the source the theorems below rest on**: get_ephemeral_key finalises the
    engine that was fed the seed AND THEN the little-endian counter, consumes exactly one counter
    value per key, the counter starts at 0 and advances by 1, and exactly the two connection
    constructors draw a key.  Fails to prove when the un-mixed midstate is finalised (seeded
    C15-r5), the counter is not consumed / not advanced, or it is fed before the seed. -/
theorem source_eph_key_derivation :
    midstateParts = [.seed] ∧ ephPreimageParts = [.seed, .counterLE] ∧ counterNextCalls = 1
    ∧ COUNTER_START = 0 ∧ COUNTER_STEP = 1
    ∧ callSites = ["new_outbound_connection", "do_read_event:ActOne"] := by
  decide

/-- the hashed byte string determines the counter value (for every seed, all u64 values) -/
theorem eph_preimage_injective (seed : Bytes) (i j : Nat) (hi : i < 2 ^ 64) (hj : j < 2 ^ 64)
    (h : ephPreimage seed i = ephPreimage seed j) : i = j := by
  unfold ephPreimage at h
  rw [source_eph_key_derivation.2.1] at h
  simp only [List.map_cons, List.map_nil, partBytes, List.flatten_cons, List.flatten_nil,
    List.append_nil] at h
  exact le64_inj hi hj (List.append_cancel_left h)
example : ephPreimage [9] 258 = [9, 2, 1, 0, 0, 0, 0, 0, 0] := by decide

/-- **Fresh ephemeral key per connection.**  For every seed and EVERY history of connections of
    one PeerManager (outbound connections, inbound connections reaching act one, in any order, up
    to 2^64 of them) any two connections use different ephemeral keys — provided the hash does not
    collide (hypothesis on the parameter `H`, for SHA-256 the standard assumption). -/
theorem eph_keys_fresh (H : Bytes → Bytes) (hH : ∀ a b, H a = H b → a = b) (seed : Bytes)
    (ops : List ConnOp) (hlen : ops.length ≤ 2 ^ 64) (i j : Nat) (hij : i < j) (hj : j < ops.length) :
    ∃ ki kj, (runConns H seed EphSt.fresh ops)[i]? = some ki
      ∧ (runConns H seed EphSt.fresh ops)[j]? = some kj ∧ ki ≠ kj := by
  refine ⟨_, _, runConns_getElem? H seed ops _ i (by omega), runConns_getElem? H seed ops _ j hj, ?_⟩
  intro h
  have hs := source_eph_key_derivation
  have := eph_preimage_injective seed _ _ ?_ ?_ (hH _ _ h)
  · simp only [EphSt.fresh, hs.2.2.1, hs.2.2.2.1, hs.2.2.2.2.1] at this; omega
  · simp only [EphSt.fresh, hs.2.2.1, hs.2.2.2.1, hs.2.2.2.2.1]; omega
  · simp only [EphSt.fresh, hs.2.2.1, hs.2.2.2.1, hs.2.2.2.2.1]; omega
-- non-vacuity with an injective "hash"
example : runConns id [9] EphSt.fresh [.outbound, .inboundActOne, .inboundActOne]
    = [[9, 0, 0, 0, 0, 0, 0, 0, 0], [9, 1, 0, 0, 0, 0, 0, 0, 0], [9, 2, 0, 0, 0, 0, 0, 0, 0]] := by decide

/-- an AEAD box of the handshake binds its key and its associated data (hypothesis, not axiom;
    the handshake hash `h` is the associated data of every handshake box) -/
def HsBoxBinds : Prop :=
  ∀ k n ad m k' n' ad' m', c.aeadSeal k n ad m = c.aeadSeal k' n' ad' m' → k = k' ∧ ad = ad'

/-- **A recorded act three is rejected by a session with different key material.**  `tempK2`, `h`
    are the responder's temp_k2 and handshake hash of the session in which the initiator built its
    act three (first box `seal tempK2 1 h initiatorStaticPub`); a responder whose own
    (temp_k2, h) after act two differs — any other session — returns Err (process_act_three
    "Bad MAC"): the peer is dropped before `their_node_id` is set, no Init is read, no message is
    processed. -/
theorem replayed_act_three_rejected (ha : Authentic c) (hb : HsBoxBinds c) (r : ResponderPostTwo)
    (tempK2 h pubS rest : Bytes) (ssOf : Bytes → Bytes)
    (hlen : (c.aeadSeal tempK2 1 h pubS).length = 49)
    (hdiff : (r.tempK2, r.st.h) ≠ (tempK2, h)) :
    processActThree c r ((0 : UInt8) :: c.aeadSeal tempK2 1 h pubS ++ rest) ssOf = none := by
  unfold processActThree
  split
  · rfl
  · split
    · rfl
    · have hc1 : (List.take 49 (List.drop 1 ((0 : UInt8) :: c.aeadSeal tempK2 1 h pubS ++ rest)))
          = c.aeadSeal tempK2 1 h pubS := by
        simp only [List.cons_append, List.drop_succ_cons, List.drop_zero]
        rw [← hlen, List.take_left']
        rfl
      simp only [hc1]
      cases ho : c.aeadOpen r.tempK2 1 r.st.h (c.aeadSeal tempK2 1 h pubS) with
      | none => rfl
      | some m =>
        exfalso
        have := hb _ _ _ _ _ _ _ _ (ha _ _ _ _ _ ho)
        exact hdiff (by rw [← this.1, ← this.2])

/-- **The responder's handshake hash after act two binds its ephemeral key**: two responders that
    processed the SAME act one with ephemeral public keys `re`, `re'` (of equal length: 33 bytes in the
    code) and wrote act twos of equal length (50 bytes in the code) end with the same hash only if
    `re = re'` (hash collision-free — hypothesis on the parameter). -/
theorem act_two_hash_binds_ephemeral (hinj : ∀ a b, c.hash a = c.hash b → a = b)
    (ourStaticPub actOne re re' : Bytes) (ssOf1 ssOf2 ssOf2' : Bytes → Bytes)
    (a2 a2' : Bytes) (r r' : ResponderPostTwo)
    (h1 : processActOne c ourStaticPub actOne re ssOf1 ssOf2 = some (a2, r))
    (h2 : processActOne c ourStaticPub actOne re' ssOf1 ssOf2' = some (a2', r'))
    (hlre : re.length = re'.length) (hla : a2.length = a2'.length)
    (hh : r.st.h = r'.st.h) : re = re' := by
  unfold processActOne at h1 h2
  cases hi : inboundAct c (initHS c ourStaticPub) actOne ssOf1 with
  | none => simp [hi] at h1
  | some x =>
    obtain ⟨ie, st, tk⟩ := x
    simp only [hi, outboundAct, mixKey, Option.some.injEq, Prod.mk.injEq] at h1 h2
    obtain ⟨ha2, rfl⟩ := h1
    obtain ⟨ha2', rfl⟩ := h2
    simp only at hh
    have e1 := hinj _ _ hh
    have l1 := congrArg List.length ha2
    have l2 := congrArg List.length ha2'
    simp only [List.length_cons, List.length_append] at l1 l2
    have e2 := List.append_inj_left' e1 (by omega)
    exact List.append_cancel_left (hinj _ _ e2)

/-- **Replay of a recorded initiator transcript is dropped at act three** (composition): the
    responder of the new connection processed the recorded act one with an ephemeral key `re'`
    different from the one (`re`) of the recorded session; then the recorded act three — and with
    it the recorded Init and every later recorded message — is never accepted.  (`eph_keys_fresh`
    gives `re ≠ re'` for any two connections of one PeerManager, given that distinct secret keys
    have distinct public keys.) -/
theorem replayed_transcript_rejected (ha : Authentic c) (hb : HsBoxBinds c)
    (hinj : ∀ a b, c.hash a = c.hash b → a = b)
    (ourStaticPub actOne re re' : Bytes) (ssOf1 ssOf2 ssOf2' : Bytes → Bytes)
    (a2 a2' : Bytes) (r r' : ResponderPostTwo)
    (h1 : processActOne c ourStaticPub actOne re ssOf1 ssOf2 = some (a2, r))
    (h2 : processActOne c ourStaticPub actOne re' ssOf1 ssOf2' = some (a2', r'))
    (hlre : re.length = re'.length) (hla : a2.length = a2'.length)
    (hre : re ≠ re') (pubS rest : Bytes) (ssOf : Bytes → Bytes)
    (hlen : (c.aeadSeal r.tempK2 1 r.st.h pubS).length = 49) :
    processActThree c r' ((0 : UInt8) :: c.aeadSeal r.tempK2 1 r.st.h pubS ++ rest) ssOf = none := by
  apply replayed_act_three_rejected c ha hb r' _ _ _ _ _ hlen
  intro h
  have : r'.st.h = r.st.h := (Prod.mk.injEq _ _ _ _ ▸ h).2
  exact hre (act_two_hash_binds_ephemeral c hinj ourStaticPub actOne re re' ssOf1 ssOf2 ssOf2'
    a2 a2' r r' h1 h2 hlre hla this.symm)

/-! non-vacuity: a toy crypto whose hash is injective (identity) and whose boxes carry key and
    associated data in clear (so `Authentic` and `HsBoxBinds` hold) -/
def bindToy : Crypto where
  aeadSeal k _ ad m := [UInt8.ofNat k.length, UInt8.ofNat ad.length] ++ k ++ ad ++ m
  aeadOpen k _ ad box :=
    if box.take (2 + k.length + ad.length) = [UInt8.ofNat k.length, UInt8.ofNat ad.length] ++ k ++ ad
    then some (box.drop (2 + k.length + ad.length)) else none
  hkdf2 a b := (0 :: a, 1 :: b)
  hash x := x
  ecdh _ _ := [7]
  pubOf a := a
  validPub _ := true

private theorem bindToy_authentic : Authentic bindToy := by
  intro k n ad box m h
  simp only [bindToy] at h ⊢
  split at h
  · rename_i hc
    cases h
    conv => lhs; rw [← List.take_append_drop (2 + k.length + ad.length) box]
    rw [hc]
  · cases h

-- a recorded act three (key [1], hash [2]) offered to a responder whose act two left key [1], hash [3]
example : processActThree bindToy { st := { h := [3], ck := [] }, ie := [], tempK2 := [1] }
    ((0 : UInt8) :: bindToy.aeadSeal [1] 1 [2] (List.replicate 45 5) ++ List.replicate 16 0) (fun _ => []) = none := by
  decide
-- two responders, same (genuine) act one, ephemeral public keys 08… / 09…: both accept it and end
-- with different handshake hashes (toy AEAD of the section above with an injective hash)
def toyId : Crypto := { toy with hash := fun x => x }
example :
    let a1 := (getActOne toyId [4] (List.replicate 33 6) [7]).1
    let p := fun (re : Bytes) => processActOne toyId [4] a1 re (fun _ => [7]) (fun _ => [7])
    (p (List.replicate 33 8)).isSome = true ∧ (p (List.replicate 33 9)).isSome = true
      ∧ (p (List.replicate 33 8)).map (·.2.st.h) ≠ (p (List.replicate 33 9)).map (·.2.st.h) := by
  decide

end Ephemeral

/-! ## Replayed RESPONDER transcript against an outbound connection, and the timer -/
section ReplayResponderAndTimer
open Ldk.PeerWrite Ldk.HsTimer Ldk.PeerWriteGen

/-- **A recorded act two is rejected by an initiator with different key material.**  The recorded
    act two carries the tag `seal tempK 0 h1 []` of the session it was made in; an initiator whose own
    (temp_k, handshake hash) for this act differs — it drew another ephemeral key for the new
    outbound connection (`eph_keys_fresh`), so its `h` after act one and `ee` differ — returns Err
    (process_act_two "Bad MAC"): no act three is written, no key is derived, nothing is processed. -/
theorem replayed_act_two_rejected (ha : Authentic c) (hb : HsBoxBinds c) (st : HS) (re tempK h1 : Bytes)
    (ssOf : Bytes → Bytes)
    (hdiff : ((mixKey c { st with h := c.hash (st.h ++ re) } (ssOf re)).2, c.hash (st.h ++ re)) ≠ (tempK, h1))
    (hre : re.length = 33) :
    inboundAct c st ((0 : UInt8) :: re ++ c.aeadSeal tempK 0 h1 []) ssOf = none := by
  unfold inboundAct
  split
  · rfl
  · split
    · rfl
    · have e1 : List.take 33 (List.drop 1 ((0 : UInt8) :: re ++ c.aeadSeal tempK 0 h1 [])) = re := by
        simp only [List.cons_append, List.drop_succ_cons, List.drop_zero]
        rw [← hre, List.take_left']; rfl
      have e2 : List.drop 34 ((0 : UInt8) :: re ++ c.aeadSeal tempK 0 h1 []) = c.aeadSeal tempK 0 h1 [] := by
        simp only [List.cons_append, List.drop_succ_cons]
        rw [← hre, List.drop_left']; rfl
      simp only [e1, e2]
      split
      · rfl
      · simp only [mixKey] at hdiff ⊢
        cases ho : c.aeadOpen (c.hkdf2 st.ck (ssOf re)).2 0 (c.hash (st.h ++ re)) (c.aeadSeal tempK 0 h1 []) with
        | none => rfl
        | some m =>
          exfalso
          have := hb _ _ _ _ _ _ _ _ (ha _ _ _ _ _ ho)
          exact hdiff (by rw [← this.1, ← this.2])
-- non-vacuity (bindToy: boxes carry key and associated data in clear)
example : inboundAct bindToy { h := [2], ck := [] } ((0 : UInt8) :: List.replicate 33 6 ++ bindToy.aeadSeal [1, 7] 0 [9] []) (fun _ => [7]) = none := by
  decide

/-- **Handshake timeout**: a connection that does not complete its handshake survives exactly one
    timer tick and is disconnected by the second (for every later tick count as well). -/
theorem handshake_timeout_two_ticks :
    hsTicks 1 0 = some 1 ∧ ∀ n, 2 ≤ n → hsTicks n 0 = none := by
  refine ⟨by decide, ?_⟩
  intro n hn
  obtain ⟨k, rfl⟩ : ∃ k, n = k + 2 := ⟨n - 2, by omega⟩
  simp [hsTicks, hsTick, PeerTimer.hsTickDisconnects, PeerTimer.HS_TICK_SET]

/-- **Ping timeout: a silent peer is dropped, an answering peer is not.**  For a handshake-complete
    peer and every number of peers, schedule and refill source (the translated ladder):
    (a) a ping is outstanding (`awaiting_pong_timer_tick_intervals > 0`) and nothing was received since
        the last tick ⇒ this tick disconnects;
    (b) the pong arrived (`pongReceived`: timer back to 0) ⇒ this tick does not disconnect, whatever
        else happened;
    (c) the peer keeps sending but never answers the ping: it is disconnected exactly when the timer
        exceeds MAX_BUFFER_DRAIN_TICK_INTERVALS_PER_PEER · #peers. -/
theorem ping_timeout_rule (sched : Nat → Option Nat) (bl : Bool) (p : WPeer) (src : Src) (npeers : Nat)
    (flush : Bool) :
    (0 < p.pongTimer → p.recv = false → tickCore c sched bl p src npeers flush = none)
    ∧ (tickCore c sched bl (pongReceived p) src npeers flush).isSome = true
    ∧ (0 < p.pongTimer → p.recv = true →
        ((tickCore c sched bl p src npeers flush = none)
          ↔ p.pongTimer.toNat > PeerWriteGen.MAX_BUFFER_DRAIN_TICK_INTERVALS_PER_PEER * npeers)) := by
  refine ⟨?_, ?_, ?_⟩
  · intro ht hr
    have h1 : timerMagic p.pongTimer = false := by simp [timerMagic]; omega
    simp [tickCore, h1, timerDisconnects, notRecentlyActive, hr, ht]
  · simp [tickCore, pongReceived, timerMagic, timerDisconnects, notRecentlyActive, reachedThreshold,
      asU64, timerStillWaiting]
  · intro ht hr
    have h1 : timerMagic p.pongTimer = false := by simp [timerMagic]; omega
    have h2 : ¬ p.pongTimer < 0 := by omega
    simp [tickCore, h1, timerDisconnects, notRecentlyActive, hr, reachedThreshold, asU64, h2,
      timerStillWaiting, ht]

end ReplayResponderAndTimer

end Ldk.C15
