/- C15 — The encrypted transport delivers the exact message sequence or disconnects.

   Model: Model/Noise.lean (BOLT-8 acts, key schedule), Model/Framing.lean (frames, key rotation,
   the byte-level reassembly loop of `PeerManager::do_read_event`, the Init gate).
   The cryptographic primitives are PARAMETERS (`Noise.Crypto`); every property of them that a
   theorem needs is an explicit hypothesis (`AeadOK`, `Authentic`, `BoxBinds`, `HandshakeOK`),
   never an axiom.  Helper lemmas: Proofs/Framing.lean. -/
import LdkModel.Proofs.Framing
import LdkModel.Generated.NoiseConsts
namespace Ldk.C15
open Ldk.Noise Ldk.Framing

variable (c : Crypto)

/-- every message fits a frame and carries at least its 2-byte type (do_read_event drops the
    connection on `msg_len < 2`; the sender refuses `> LN_MAX_MSG_LEN`) -/
def MsgsOK (msgs : List Bytes) : Prop := ∀ m ∈ msgs, 2 ≤ m.length ∧ m.length ≤ Ldk.LN_MAX_MSG_LEN

private theorem msgsOK_iff (msgs : List Bytes) :
    MsgsOK msgs ↔ ∀ m ∈ msgs, 2 ≤ m.length ∧ m.length ≤ 65535 := Iff.rfl

/-- **Reassembly.** However a byte string is cut into `read_event` calls, the receiver ends in the
    same state having delivered the same messages as for one read of the whole string. -/
theorem reassembly (r : Receiver) (chunks : List Bytes) :
    recvChunks c r chunks = recvChunks c r [chunks.flatten] := by
  rw [recvChunks_flatten, recvChunks_flatten]; simp

/-- **Delivery.** For every message list (each 2…65535 bytes, any count — so across any number of
    key rotations), from any in-sync sender/receiver pair, and for EVERY partition of the
    ciphertext into reads: the receiver delivers exactly the message list, stays connected, and is
    again the mirror image of the sender. -/
theorem transport_delivers (hc : AeadOK c) (s : Sender) (msgs : List Bytes) (hm : MsgsOK msgs)
    (chunks : List Bytes) (hch : chunks.flatten = (sendAll c s msgs).1) :
    recvChunks c (Receiver.mirrorOf s) chunks
      = (msgs, some (Receiver.mirrorOf (sendAll c s msgs).2)) := by
  rw [recvChunks_flatten, hch]
  have h := recv_sendAll c hc msgs s [] hm
  simp only [List.append_nil] at h
  rw [h]; simp [recvData_nil]

/-- **Rotation in sync.** After any prefix of the traffic the receiver is the exact mirror of the
    sender (same key, same counter, same chaining key), so the test `n ≥ 1000` gives the same
    answer on both sides for the next frame and both rotate to the same new key. -/
theorem rotation_in_sync (hc : AeadOK c) (s : Sender) (pre post : List Bytes)
    (hm : MsgsOK (pre ++ post)) :
    let sᵢ := (sendAll c s pre).2
    let rᵢ := Receiver.mirrorOf sᵢ
    recvData c (Receiver.mirrorOf s) (sendAll c s pre).1 = (pre, some rᵢ)
    ∧ (rᵢ.rn ≥ ROTATE_AT ↔ sᵢ.sn ≥ ROTATE_AT)
    ∧ rᵢ.rotate c = Receiver.mirrorOf (sᵢ.rotate c) := by
  intro sᵢ rᵢ
  refine ⟨?_, Iff.rfl, rotate_mirror c sᵢ⟩
  have h := recv_sendAll c hc pre s [] (fun m hx => hm m (by simp [hx]))
  simp only [List.append_nil] at h
  rw [h]; simp [recvData_nil, rᵢ, sᵢ]

/-- **Rotation schedule.** From a fresh key (`sn = 0`) the counter after `n ≥ 1` frames is
    `2·((n−1) mod 500 + 1)`: it reaches 1000 exactly after frames 500, 1000, …, so frame number `i`
    (0-based) is sealed under a rotated key iff `i > 0 ∧ i mod 500 = 0`. -/
theorem rotation_schedule (s : Sender) (hs : s.sn = 0) (msgs : List Bytes) :
    ((sendAll c s msgs).2.sn ≥ ROTATE_AT ↔ 0 < msgs.length ∧ msgs.length % 500 = 0) := by
  rw [sendAll_length_sn c msgs s 0 (by omega) (by omega)]
  unfold ROTATE_AT
  by_cases h0 : msgs.length = 0
  · simp [h0]
  · simp only [h0, if_false]; omega

/-- what can arrive in place of frame `j` (sender state `sⱼ`, message `mⱼ`), followed by anything:
    a box at the header position, or — after the genuine header — a box at the body position, that
    is not a valid AEAD box under the key and nonce of that position.  This covers a flipped /
    inserted / deleted byte (the bytes found at the position are then a different string), a
    truncated frame followed by later traffic, and a replayed earlier frame (see
    `replay_disconnects`). -/
inductive Tampered (sⱼ : Sender) (mⱼ : Bytes) : Bytes → Prop where
  | header (h' rest : Bytes) (hl : h'.length = 18)
      (hbad : ¬ ValidBox c (sⱼ.rotate c).sk (sⱼ.rotate c).sn h') : Tampered sⱼ mⱼ (h' ++ rest)
  | body (b' rest : Bytes) (hl : b'.length = mⱼ.length + 16)
      (hbad : ¬ ValidBox c (sⱼ.rotate c).sk ((sⱼ.rotate c).sn + 1) b') :
      Tampered sⱼ mⱼ (c.aeadSeal (sⱼ.rotate c).sk (sⱼ.rotate c).sn [] (be16 mⱼ.length) ++ b' ++ rest)

/-- **Tampering disconnects.** Under AEAD authenticity (what `open` accepts is a `seal` output):
    if after `j−1` genuine frames the header box or the body box of frame `j` is anything that is
    not a valid box for that position, then for every continuation and every partition into reads
    the receiver delivers exactly the first `j−1` messages, drops the connection, and delivers
    nothing after. -/
theorem tamper_disconnects (hc : AeadOK c) (ha : Authentic c) (s : Sender) (pre : List Bytes)
    (mⱼ : Bytes) (hm : MsgsOK (pre ++ [mⱼ])) (x : Bytes)
    (hx : Tampered c (sendAll c s pre).2 mⱼ x)
    (chunks : List Bytes) (hch : chunks.flatten = (sendAll c s pre).1 ++ x) :
    recvChunks c (Receiver.mirrorOf s) chunks = (pre, none) := by
  rw [recvChunks_flatten, hch, recv_sendAll c hc pre s x (fun m h => hm m (by simp [h]))]
  have hmj := hm mⱼ (by simp)
  have h65 : Ldk.LN_MAX_MSG_LEN = 65535 := rfl
  cases hx with
  | header h' rest hl hbad =>
    rw [andThen_some, recv_header_bad c _ _ (by simp [hl])]
    · simp
    · rw [List.take_left' hl]; exact open_none_of_not_valid ha hbad
  | body b' rest hl hbad =>
    rw [andThen_some, List.append_assoc,
        recv_header_ok c _ _ _ mⱼ.length (by rw [hc.seal_len]; rfl) (hc.open_seal _ _ _ _)
          hmj.1 (by omega),
        recv_body_bad c _ _ mⱼ.length (by simp [hl])]
    · simp
    · rw [List.take_left' hl]; exact open_none_of_not_valid ha hbad

/-- **Exact sequence or nothing.** For ANY byte string whatsoever (any adversarial traffic, cut
    into reads in any way) fed to a receiver that is in sync with sender state `s`: under AEAD
    authenticity, the list of messages it delivers is such that the bytes read begin with exactly
    the genuine frames `sendAll s msgs` of those messages, in that order, sealed under the in-sync
    keys and nonces ("accepts ⇒ the MAC equations hold", frame by frame); each delivered message has
    2…65535 bytes; and what follows those frames delivered nothing. -/
theorem delivered_is_genuine (hc : AeadOK c) (ha : Authentic c) (s : Sender) (chunks : List Bytes)
    (msgs : List Bytes) (r' : Option Receiver)
    (h : recvChunks c (Receiver.mirrorOf s) chunks = (msgs, r')) :
    ∃ rest, chunks.flatten = (sendAll c s msgs).1 ++ rest ∧ MsgsOK msgs
      ∧ recvData c (Receiver.mirrorOf (sendAll c s msgs).2) rest = ([], r') := by
  rw [recvChunks_flatten] at h
  obtain ⟨rest, h1, h2, h3⟩ := delivered_all_genuine c hc ha msgs s _ r' h
  exact ⟨rest, h1, h2, h3.symm⟩

/-- a box sealed under one (key, nonce) is not a box under another — the binding property of the
    AEAD that replay protection rests on (hypothesis, not axiom) -/
def BoxBinds : Prop :=
  ∀ k n m k' n' m', c.aeadSeal k n [] m = c.aeadSeal k' n' [] m' → k = k' ∧ n = n'

/-- **Replay disconnects.** If an earlier frame `i` is sent again at position `j`, and the
    (key, nonce) pair of position `j` differs from that of position `i`, the receiver delivers the
    genuine messages and drops the connection at the replayed frame. -/
theorem replay_disconnects (hc : AeadOK c) (ha : Authentic c) (hb : BoxBinds c) (s : Sender)
    (pre : List Bytes) (mᵢ : Bytes) (mid : List Bytes) (hm : MsgsOK (pre ++ mᵢ :: mid))
    (hfresh : (((sendAll c s pre).2.rotate c).sk, ((sendAll c s pre).2.rotate c).sn)
        ≠ (((sendAll c s (pre ++ mᵢ :: mid)).2.rotate c).sk,
           ((sendAll c s (pre ++ mᵢ :: mid)).2.rotate c).sn))
    (rest : Bytes) (chunks : List Bytes)
    (hch : chunks.flatten = (sendAll c s (pre ++ mᵢ :: mid)).1
        ++ ((frame c (sendAll c s pre).2 mᵢ).1 ++ rest)) :
    recvChunks c (Receiver.mirrorOf s) chunks = (pre ++ mᵢ :: mid, none) := by
  have hmi := hm mᵢ (by simp)
  have hm' : MsgsOK ((pre ++ mᵢ :: mid) ++ [mᵢ]) := by
    intro m h
    rcases List.mem_append.mp h with h | h
    · exact hm m h
    · simp at h; subst h; exact hmi
  apply tamper_disconnects c hc ha s (pre ++ mᵢ :: mid) mᵢ hm' _ _ chunks hch
  rw [frame_fst, List.append_assoc]
  refine Tampered.header _ _ (by rw [hc.seal_len]; rfl) ?_
  rintro ⟨p, hp⟩
  exact hfresh (by have := hb _ _ _ _ _ _ hp; rw [this.1, this.2])

/-- **Replay within a key epoch** needs no freshness hypothesis: while no rotation intervenes the
    key is the same and the nonce has strictly advanced. -/
theorem replay_within_epoch_disconnects (hc : AeadOK c) (ha : Authentic c) (hb : BoxBinds c)
    (s : Sender) (hs : s.sn < ROTATE_AT) (pre : List Bytes) (mᵢ : Bytes) (mid : List Bytes)
    (hm : MsgsOK (pre ++ mᵢ :: mid))
    (hepoch : s.sn + 2 * (pre.length + 1 + mid.length) < ROTATE_AT)
    (rest : Bytes) (chunks : List Bytes)
    (hch : chunks.flatten = (sendAll c s (pre ++ mᵢ :: mid)).1
        ++ ((frame c (sendAll c s pre).2 mᵢ).1 ++ rest)) :
    recvChunks c (Receiver.mirrorOf s) chunks = (pre ++ mᵢ :: mid, none) := by
  apply replay_disconnects c hc ha hb s pre mᵢ mid hm _ rest chunks hch
  rw [sendAll_no_rotation c pre s (by omega) (Or.inl hs),
      sendAll_no_rotation c (pre ++ mᵢ :: mid) s
        (by simp only [List.length_append, List.length_cons]; omega) (Or.inl hs)]
  have r1 : ∀ n, s.sn + 2 * n < ROTATE_AT →
      ({ s with sn := s.sn + 2 * n } : Sender).rotate c = { s with sn := s.sn + 2 * n } := by
    intro n hn; unfold Sender.rotate; simp [Nat.not_le.mpr hn]
  rw [r1 _ (by omega), r1 _ (by simp only [List.length_append, List.length_cons]; omega)]
  simp only [List.length_append, List.length_cons, ne_eq, Prod.mk.injEq, true_and]
  omega

/-- **Truncation.** A stream that stops inside frame `j` delivers exactly the first `j−1` messages:
    the incomplete message is never processed (the receiver keeps waiting; the connection ends when
    the socket is closed, outside this model). -/
theorem truncation_delivers_prefix (hc : AeadOK c) (s : Sender) (pre : List Bytes) (mⱼ : Bytes)
    (hm : MsgsOK (pre ++ [mⱼ])) (t : Nat) (ht : t < (frame c (sendAll c s pre).2 mⱼ).1.length)
    (chunks : List Bytes)
    (hch : chunks.flatten = (sendAll c s pre).1 ++ (frame c (sendAll c s pre).2 mⱼ).1.take t) :
    (recvChunks c (Receiver.mirrorOf s) chunks).1 = pre := by
  rw [recvChunks_flatten, hch, recv_sendAll c hc pre s _ (fun m h => hm m (by simp [h]))]
  have hmj := hm mⱼ (by simp)
  have h65 : Ldk.LN_MAX_MSG_LEN = 65535 := rfl
  simp only [andThen_some]
  generalize (sendAll c s pre).2 = sj at ht ⊢
  rw [frame_fst] at ht ⊢
  simp only [List.length_append, hc.seal_len, be16_length] at ht
  suffices h : (recvData c (Receiver.mirrorOf sj)
      (List.take t (c.aeadSeal (sj.rotate c).sk (sj.rotate c).sn [] (be16 mⱼ.length)
        ++ c.aeadSeal (sj.rotate c).sk ((sj.rotate c).sn + 1) [] mⱼ))).1 = [] by
    rw [h]; simp
  by_cases h18 : t < 18
  · -- inside the header
    rw [List.take_append_of_le_length (by rw [hc.seal_len]; simp [be16_length]; omega)]
    by_cases h0 : t = 0
    · subst h0; simp [recvData_nil]
    · rw [recvData_short c _ _ (by
            intro hnil
            have := congrArg List.length hnil
            simp [hc.seal_len, be16_length] at this; omega)
          (by simp [Receiver.mirrorOf, hc.seal_len, be16_length]; omega)]
  · -- header complete, inside the body
    rw [List.take_append, List.take_of_length_le (by rw [hc.seal_len]; simp [be16_length]; omega)]
    rw [recv_header_ok c sj _ _ mⱼ.length (by rw [hc.seal_len]; rfl) (hc.open_seal _ _ _ _)
          hmj.1 (by omega)]
    simp only [hc.seal_len, be16_length]
    by_cases h0 : t - (2 + 16) = 0
    · rw [h0]; simp [recvData_nil]
    · rw [recvData_short c _ _ (by
            intro hnil
            have := congrArg List.length hnil
            simp [hc.seal_len] at this; omega)
          (by simp [Receiver.midOf, hc.seal_len]; omega)]

/-- **Init before anything.** Whatever the peer sends after the handshake, a message is handed to
    a handler only if the very first message was an accepted Init (and our own Init had been queued
    when the handshake completed). -/
theorem init_before_anything (classify : Nat → Kind) (initOk : Bytes → Bool) (msgs : List Bytes)
    (m : Bytes) (h : GateOut.passUp m ∈ gateRun classify initOk Gate.start msgs) :
    ∃ m₀ rest, msgs = m₀ :: rest ∧ classify (msgType m₀) = .init ∧ initOk m₀ = true
      ∧ (gateRun classify initOk Gate.start msgs).head? = some .initOk
      ∧ Gate.start.ourInitQueued = true := by
  cases msgs with
  | nil => simp [gateRun] at h
  | cons m₀ rest =>
    refine ⟨m₀, rest, rfl, ?_⟩
    unfold gateRun gateStep at h ⊢
    cases hk : classify (msgType m₀) <;> simp [hk, Gate.start] at h ⊢
    · by_cases hi : initOk m₀ = true
      · simp [hi]
      · simp [hi] at h

/-- a non-Init first message drops the connection and nothing is processed -/
theorem non_init_first_disconnects (classify : Nat → Kind) (initOk : Bytes → Bool) (m₀ : Bytes)
    (rest : List Bytes) (h : classify (msgType m₀) ≠ .init) :
    gateRun classify initOk Gate.start (m₀ :: rest) = [.disconnect] := by
  unfold gateRun gateStep
  cases hk : classify (msgType m₀) <;> simp [hk, Gate.start] at h ⊢

/-- after Init: an unknown EVEN type drops the connection, an unknown ODD type is ignored and the
    following messages are still processed -/
theorem unknown_even_odd_rule (classify : Nat → Kind) (initOk : Bytes → Bool) (m : Bytes)
    (rest : List Bytes) (hk : classify (msgType m) = .unknown) :
    gateRun classify initOk { theirInit := true, ourInitQueued := true } (m :: rest)
      = if msgType m % 2 = 0 then [.disconnect]
        else .ignored :: gateRun classify initOk { theirInit := true, ourInitQueued := true } rest := by
  rw [gateRun]
  unfold gateStep
  by_cases he : msgType m % 2 = 0 <;> simp [hk, he]

/-- **Handshake.** Under Diffie–Hellman commutativity and AEAD correctness the three acts are
    accepted, the responder learns the initiator's static key, and the transport keys are mirror
    images: initiator (sk, rk, sck, rck) = responder (rk, sk, rck, sck), all counters 0. -/
theorem handshake_keys_match (hc : HandshakeOK c) (sI eI sR eR : Bytes) :
    ∃ kI kR, runHandshake c sI eI sR eR = some (kI, c.pubOf sI, kR)
      ∧ kI.sk = kR.rk ∧ kI.rk = kR.sk ∧ kI.sck = kR.rck ∧ kI.rck = kR.sck
      ∧ kI.sn = 0 ∧ kI.rn = 0 ∧ kR.sn = 0 ∧ kR.rn = 0 := by
  unfold runHandshake getActOne processActOne
  simp only []
  rw [inbound_of_outbound c hc.aead _ _ _ _ (hc.pub_len eI) (hc.pub_valid eI) (hc.ecdh_comm sR eI)]
  simp only []
  unfold processActTwo
  rw [inbound_of_outbound c hc.aead _ _ _ _ (hc.pub_len eR) (hc.pub_valid eR) (hc.ecdh_comm eI eR)]
  simp only []
  rw [actThree_roundtrip c hc.aead _ _ _ _ _ _ (hc.pub_len sI) (hc.pub_valid sI) (hc.ecdh_comm eR sI)]
  exact ⟨_, _, rfl, rfl, rfl, rfl, rfl, rfl, rfl, rfl, rfl⟩

/-- the handshake output plugs into the transport theorems: the initiator's sender and the
    responder's receiver (and vice versa) are mirror images -/
theorem handshake_then_transport (hc : HandshakeOK c) (sI eI sR eR : Bytes) :
    ∃ kI kR, runHandshake c sI eI sR eR = some (kI, c.pubOf sI, kR)
      ∧ Receiver.ofKeys kR = Receiver.mirrorOf (Sender.ofKeys kI)
      ∧ Receiver.ofKeys kI = Receiver.mirrorOf (Sender.ofKeys kR) := by
  obtain ⟨kI, kR, h, h1, h2, h3, h4, h5, h6, h7, h8⟩ := handshake_keys_match c hc sI eI sR eR
  refine ⟨kI, kR, h, ?_, ?_⟩ <;>
    simp [Receiver.ofKeys, Receiver.start, Receiver.mirrorOf, Sender.ofKeys, *]

/-- **Tie of the model's literals to the source.** The rotation threshold, the Noise constants and
    the buffer / box sizes are literals in peer_channel_encryptor.rs and peer_handler.rs; they are
    re-extracted on every run (tools/gen_noise_consts.py → Generated/NoiseConsts.lean) and must equal
    the literals the model uses (`ROTATE_AT`, `NOISE_CK`, `NOISE_H`, `Receiver.start` = 18-byte
    header, acts of 50 / 50 / 66 bytes, 16-byte tags, `msg_len < 2`). -/
theorem model_constants_match_source :
    ROTATE_AT = NoiseConsts.ROTATE_AT_SEND ∧ ROTATE_AT = NoiseConsts.ROTATE_AT_RECV
    ∧ Noise.NOISE_CK = NoiseConsts.NOISE_CK ∧ Noise.NOISE_H = NoiseConsts.NOISE_H
    ∧ (Receiver.start [] []).need = NoiseConsts.HEADER_BOX_LEN
    ∧ NoiseConsts.PEER_HEADER_READ_LEN = NoiseConsts.HEADER_BOX_LEN
    ∧ NoiseConsts.ACT_ONE_TWO_LEN = 50 ∧ NoiseConsts.PEER_FIRST_READ_LEN = 50
    ∧ NoiseConsts.ACT_THREE_LEN = 66 ∧ NoiseConsts.TAG_LEN = 16 ∧ NoiseConsts.MIN_MSG_LEN = 2 := by
  decide

/-! ### non-vacuity: a toy crypto instance satisfying every hypothesis, and the theorems applied -/

def toyTag (k : Bytes) (n : Nat) (ad m : Bytes) : Bytes :=
  List.replicate 16 (UInt8.ofNat (k.length + 3 * n + ad.length + 7 * m.length + 1))

def toy : Crypto where
  aeadSeal k n ad m := m ++ toyTag k n ad m
  aeadOpen k n ad box :=
    if 16 ≤ box.length ∧ box.drop (box.length - 16) = toyTag k n ad (box.take (box.length - 16))
    then some (box.take (box.length - 16)) else none
  hkdf2 a b := (0 :: a, 1 :: b)
  hash x := x.take 4
  ecdh _ _ := [7]
  pubOf a := List.replicate 33 (a.headD 2)
  validPub _ := true

private theorem toy_aeadOK : AeadOK toy where
  open_seal k n ad m := by
    simp [toy, toyTag]
  seal_len k n ad m := by simp [toy, toyTag]

private theorem toy_authentic : Authentic toy := by
  intro k n ad box m h
  simp only [toy] at h ⊢
  split at h
  · rename_i hcond
    cases h
    conv => lhs; rw [← List.take_append_drop (box.length - 16) box]
    rw [hcond.2]
  · cases h

private theorem toy_handshakeOK : HandshakeOK toy where
  aead := toy_aeadOK
  ecdh_comm _ _ := rfl
  pub_len _ := by simp [toy]
  pub_valid _ := rfl

def s0 : Sender := { sk := [1, 2], sn := 998, sck := [3] }
def m1 : Bytes := [0, 16, 5]
def m2 : Bytes := [128, 1]

example : MsgsOK [m1, m2] := by intro m h; simp [m1, m2] at h; rcases h with h | h <;> subst h <;> decide

-- delivery across a rotation (sn 998 → 1000 → rotate), ciphertext cut at arbitrary points
example (chunks : List Bytes) (h : chunks.flatten = (sendAll toy s0 [m1, m2]).1) :
    recvChunks toy (Receiver.mirrorOf s0) chunks
      = ([m1, m2], some (Receiver.mirrorOf (sendAll toy s0 [m1, m2]).2)) :=
  transport_delivers toy toy_aeadOK s0 [m1, m2]
    (by intro m h; simp [m1, m2] at h; rcases h with h | h <;> subst h <;> decide) chunks h

-- the second frame is sealed under the rotated key
example : (sendAll toy s0 [m1]).2.sn = 1000 ∧ ((sendAll toy s0 [m1]).2.rotate toy).sk = [1, 1, 2] := by
  decide

-- a header box with a wrong tag is not valid under the toy AEAD, so it drops the connection
example (rest : Bytes) (chunks : List Bytes)
    (h : chunks.flatten = (sendAll toy s0 [m1]).1 ++ (List.replicate 18 0 ++ rest)) :
    recvChunks toy (Receiver.mirrorOf s0) chunks = ([m1], none) :=
  tamper_disconnects toy toy_aeadOK toy_authentic s0 [m1] m2
    (by intro m h; simp [m1, m2] at h; rcases h with h | h <;> subst h <;> decide) _
    (Tampered.header _ rest (by simp) (by
      rintro ⟨p, hp⟩
      have hl := congrArg List.length hp
      simp [toy, toyTag] at hl
      have : p.length = 2 := by omega
      have h2 := congrArg List.getLast? hp
      simp [toy, toyTag, this] at h2
      revert h2; decide)) chunks h

-- whatever is delivered was genuinely framed: instantiated on the toy AEAD
example (chunks : List Bytes) (m : Bytes) (r' : Option Receiver)
    (h : recvChunks toy (Receiver.mirrorOf s0) chunks = ([m], r')) :
    ∃ rest, chunks.flatten = (frame toy s0 m).1 ++ rest := by
  obtain ⟨rest, h1, _, _⟩ := delivered_is_genuine toy toy_aeadOK toy_authentic s0 chunks [m] r' h
  exact ⟨rest, by simpa [sendAll] using h1⟩

example : ∃ kI kR, runHandshake toy [1] [2] [3] [4] = some (kI, toy.pubOf [1], kR) ∧ kI.sk = kR.rk :=
  let ⟨kI, kR, h, h1, _⟩ := handshake_keys_match toy toy_handshakeOK [1] [2] [3] [4]
  ⟨kI, kR, h, h1⟩

-- the gate: ping before Init is dropped; Init, then an unknown odd type, then a custom message
example : gateRun (fun t => if t = 16 then .init else if t = 40001 then .known else .unknown)
    (fun _ => true) Gate.start [[0, 18, 0, 0], [0, 16]] = [.disconnect] := by decide
example : gateRun (fun t => if t = 16 then .init else if t = 40001 then .known else .unknown)
    (fun _ => true) Gate.start [[0, 16], [0x40, 0x01], [0x9c, 0x41, 9], [0x40, 0x02], [0x9c, 0x41]]
    = [.initOk, .ignored, .passUp [0x9c, 0x41, 9], .disconnect] := by decide

end Ldk.C15
