/- C17 — The network graph holds only authentic, current gossip, whatever the order.
   Property theorems only. They are stated about `Ldk.Gossip.Impl` — the model of
   lightning/src/routing/gossip.rs (+ lightning-rapid-gossip-sync/src/processing.rs) that the driver runs
   and in which every decision is a call of Generated/Gossip.lean (re-translated from the Rust text on
   every run; `_test_utils` build: the wall-clock freshness test of `update_channel_internal` is compiled
   out). Each theorem is derived from its counterpart over the hand-written specification layer
   (Proofs/GossipSpecThms.lean, Proofs/Gossip.lean) through the refinement `Impl.f = f`
   (Proofs/GossipRefine.lean), which is proved from lemmas about the generated definitions: a changed
   comparison / field / bit in the Rust text breaks every theorem below.
   All statements quantify over every graph (reachable or not), every message / operation and every
   operation list. The definitions used in the statements (`verifyRequested`, `msgVerified`, `dirMono`,
   `annMono`, `mustPrecede`, `conflict`, `Ordered`, `NoConflict`, `noReplace`, `NoReplaceAll`) are in
   Proofs/Gossip.lean. ECDSA is trusted: signatures are validity flags / signer identities. -/
import LdkModel.Proofs.GossipSpecThms
import LdkModel.Proofs.GossipRefine
import LdkModel.Proofs.GossipRgs
namespace Ldk.C17
open Ldk Ldk.Gossip

/-! ## authenticity -/

/-- Along any run, a delivery for which signature verification is requested changes the graph only
    if every signature the library must check is valid (an update: made by the node the graph
    stores for that direction of that channel). -/
theorem accepted_implies_verified (g0 : Graph) (pre : List Op) (m : Msg)
    (hv : verifyRequested m = true) (hch : Impl.run g0 (pre ++ [.msg m]) ≠ Impl.run g0 pre) :
    msgVerified (Impl.run g0 pre) m := by
  simp only [Impl.run_eq] at hch ⊢
  exact Spec.accepted_implies_verified g0 pre m hv hch

example : ∃ g0 pre m, verifyRequested m = true ∧ Impl.run g0 (pre ++ [.msg m]) ≠ Impl.run g0 pre :=
  ⟨Graph.empty, [], .chanAnn ⟨7, 1, 2, false, true, true, true, true, true, true, .noLookup, 100⟩, rfl, by
    intro h
    have : (Impl.run Graph.empty ([] ++ [Op.msg (.chanAnn ⟨7, 1, 2, false, true, true, true, true, true, true, .noLookup, 100⟩)])).channels.get 7
        = (Impl.run Graph.empty []).channels.get 7 := by rw [h]
    revert this; decide⟩

/-- A rejected message leaves the graph exactly as it was (whatever the reject reason). -/
theorem rejected_unchanged (g : Graph) (m : Msg) (r : Reject) (h : (Impl.applyMsg g m).2 = .reject r) :
    (Impl.applyMsg g m).1 = g := by
  rw [Impl.applyMsg_eq] at h ⊢
  exact Spec.rejected_unchanged g m r h

example : ∃ g m r, (Impl.applyMsg g m).2 = .reject r :=
  ⟨Graph.empty, .nodeAnn ⟨1, 5, 0, true, true⟩, .noChannelsForNode, rfl⟩

/-! ## currency -/

/-- One operation (any of the seven kinds) on any graph: if the channel entry is there before and
    after, each direction's stored update — the whole stored PAYLOAD (`UpdInfo`: timestamp, enabled flag,
    cltv delta, htlc min/max, fees, relay flag) — is either untouched, cleared, or replaced by one with a
    strictly larger timestamp; an equal or older timestamp never replaces. Same for the stored node
    announcement (`NodeAnnInfo`: timestamp, payload id, relay flag) of a node entry. -/
theorem never_older_or_equal (g : Graph) (op : Op) :
    (∀ s c c', g.channels.get s = some c → (Impl.step g op).1.channels.get s = some c' →
      dirMono c.d12 c'.d12 ∧ dirMono c.d21 c'.d21) ∧
    (∀ id ni ni', g.nodes.get id = some ni → (Impl.step g op).1.nodes.get id = some ni' →
      annMono ni.ann ni'.ann) := by
  rw [Impl.step_eq]
  exact Spec.never_older_or_equal g op

/-- Along a whole run: as long as the direction stays stored, its `last_update` never decreases and
    the stored update changes only together with a strict increase. -/
theorem never_older_or_equal_run (d : Bool) (ops : List Op) (g : Graph) (s : Nat) (c c' : ChanInfo)
    (h : g.channels.get s = some c) (h' : (Impl.run g ops).channels.get s = some c')
    (hp : ∀ pre, pre <+: ops → ∃ ck uk, (Impl.run g pre).channels.get s = some ck ∧ ck.dir d = some uk) :
    dirMono (c.dir d) (c'.dir d) := by
  simp only [Impl.run_eq] at h' hp
  exact Spec.never_older_or_equal_run d ops g s c c' h h' hp

example : ∃ (g : Graph) (u : ChanUpd) (c c' : ChanInfo) (x x' : UpdInfo), g.channels.get u.scid = some c ∧
    (Impl.step g (.msg (.chanUpd u))).1.channels.get u.scid = some c' ∧ c.d12 = some x ∧ c'.d12 = some x' ∧
    x.lastUpdate < x'.lastUpdate ∧ x.feeBase ≠ x'.feeBase :=
  ⟨(Impl.run Graph.empty [.msg (.chanAnn ⟨7, 1, 2, false, true, true, true, true, true, true, .noLookup, 100⟩),
      .msg (.chanUpd ⟨7, false, false, 10, 40, 1, 1000, 1, 2, true, false, true, 1⟩)]),
    ⟨7, false, false, 11, 41, 1, 1000, 5, 2, true, false, true, 1⟩, _, _, _, _, rfl, rfl, rfl, rfl, by decide, by decide⟩

/-! ## reject rules -/

/-- A channel update for an unknown channel, for the wrong chain, with `htlc_maximum_msat` above
    `MAX_VALUE_MSAT`, or above the known capacity of the channel (or with a bogus capacity on
    record) is rejected and leaves the graph unchanged; likewise a channel announcement for the wrong
    chain. -/
theorem reject_rules (g : Graph) :
    (∀ u : ChanUpd, (g.channels.get u.scid = none ∨ u.chainOk = false ∨ u.htlcMax > MAX_VALUE_MSAT ∨
        (∃ c cap, g.channels.get u.scid = some c ∧ c.capacity = some cap ∧
          (u.htlcMax > cap * 1000 ∨ cap > MAX_VALUE_MSAT / 1000))) →
      (Impl.applyChanUpd g u).1 = g ∧ ∃ r, (Impl.applyChanUpd g u).2 = .reject r) ∧
    (∀ a : ChanAnn, a.chainOk = false → (Impl.applyChanAnn g a).1 = g ∧ ∃ r, (Impl.applyChanAnn g a).2 = .reject r) := by
  simp only [Impl.applyChanUpd_eq, Impl.applyChanAnn_eq]
  exact Spec.reject_rules g

example : (Impl.applyChanUpd Graph.empty ⟨7, false, false, 10, 40, 1, 1000, 1, 2, true, false, true, 1⟩).2
    = .reject .unknownChannel := rfl

/-! ## duplicates -/

/-- Delivering a message a second time right after the first changes nothing — on any graph, for
    any message (valid or not), hence at any point of any run. -/
theorem duplicates_idempotent (g0 : Graph) (pre : List Op) (m : Msg) :
    Impl.run g0 (pre ++ [.msg m, .msg m]) = Impl.run g0 (pre ++ [.msg m]) := by
  simp only [Impl.run_eq]
  exact Spec.duplicates_idempotent g0 pre m

example : Impl.run Graph.empty [.msg (.chanAnn ⟨7, 1, 2, false, true, true, true, true, true, true, .noLookup, 100⟩)]
    ≠ Graph.empty := by
  intro h
  have : (Impl.run Graph.empty [Op.msg (.chanAnn ⟨7, 1, 2, false, true, true, true, true, true, true, .noLookup, 100⟩)]).channels.get 7
      = Graph.empty.channels.get 7 := by rw [h]
  revert this; decide

/-! ## permanent failures -/

/-- `channel_failed_permanent`: the channel is gone; if it was there it is tombstoned with the time
    of the call, and each of its two endpoint entries is either removed or keeps at least one other
    channel and no longer lists this one. -/
theorem failed_permanent_removed (g : Graph) (scid now : Nat) :
    (Impl.step g (.failPermanent scid now)).1.channels.get scid = none ∧
    (∀ c, g.channels.get scid = some c →
      (Impl.step g (.failPermanent scid now)).1.removedChannels.get scid = some now ∧
      ∀ id ni, (id = c.node1 ∨ id = c.node2) → (Impl.step g (.failPermanent scid now)).1.nodes.get id = some ni →
        ni.channels.get scid = none ∧ ni.channels.isEmpty = false) :=
  Spec.failed_permanent_removed g scid now

/-- `node_failed_permanent`: the node entry is gone and tombstoned; every channel it listed is gone,
    and tombstoned if it was there. -/
theorem node_failed_permanent_removed (g : Graph) (id now : Nat) (n : NodeInfo) (h : g.nodes.get id = some n) :
    (Impl.nodeFailPermanent g id now).nodes.get id = none ∧
    (Impl.nodeFailPermanent g id now).removedNodes.get id = some now ∧
    (∀ s, n.channels.get s = some () →
      (Impl.nodeFailPermanent g id now).channels.get s = none ∧
      (g.channels.get s ≠ none → (Impl.nodeFailPermanent g id now).removedChannels.get s = some now)) := by
  rw [Impl.nodeFailPermanent_eq]
  exact Spec.node_failed_permanent_removed g id now n h

example : ∃ g scid now c, g.channels.get scid = some c ∧ (Impl.step g (.failPermanent scid now)).1.removedChannels.get scid = some now :=
  ⟨Impl.run Graph.empty [.msg (.chanAnn ⟨7, 1, 2, false, true, true, true, true, true, true, .noLookup, 100⟩)], 7, 200, _, rfl, rfl⟩

/-! ## pruning -/

/-- `remove_stale_channels_and_tracking_with_time(t)` as coded. Outside `[STALE_LIMIT, u32::MAX]` it
    does nothing. Otherwise, with `minT = t − STALE_CHANNEL_UPDATE_AGE_LIMIT_SECS`:
    a direction survives iff its `last_update ≥ minT`; a channel is removed iff after that a direction
    is missing and its announcement was received before `minT`, and is then tombstoned at `t`; a node
    that loses channels keeps the others and is removed when none is left; tombstones older than
    `REMOVED_ENTRIES_TRACKING_AGE_LIMIT_SECS` (relative to `t`, saturating) are dropped. -/
theorem prune_rules (g : Graph) (t : Nat) :
    ((t > U32_MAX ∨ t < STALE_CHANNEL_UPDATE_AGE_LIMIT_SECS) → Impl.pruneAt g t = g) ∧
    (t ≤ U32_MAX → STALE_CHANNEL_UPDATE_AGE_LIMIT_SECS ≤ t →
      (∀ s, (Impl.pruneAt g t).channels.get s =
          (g.channels.get s).bind (pruneChan (t - STALE_CHANNEL_UPDATE_AGE_LIMIT_SECS))) ∧
      (∀ id, (Impl.pruneAt g t).nodes.get id =
          (g.nodes.get id).bind (pruneNode g (t - STALE_CHANNEL_UPDATE_AGE_LIMIT_SECS))) ∧
      (∀ s, (Impl.pruneAt g t).removedChannels.get s =
          if prunedScid g (t - STALE_CHANNEL_UPDATE_AGE_LIMIT_SECS) s then some t
          else (g.removedChannels.get s).bind (keepTracking t)) ∧
      (∀ id, (Impl.pruneAt g t).removedNodes.get id = (g.removedNodes.get id).bind (keepTracking t))) ∧
    (∀ minT (c : ChanInfo),
      (pruneChan minT c = none ↔
        ((pruneDir minT c.d12 = none ∨ pruneDir minT c.d21 = none) ∧ c.recvTime < minT)) ∧
      (∀ c', pruneChan minT c = some c' →
        c' = { c with d12 := pruneDir minT c.d12, d21 := pruneDir minT c.d21 }) ∧
      (∀ d u, pruneDir minT d = some u ↔ d = some u ∧ minT ≤ u.lastUpdate)) ∧
    (∀ time, keepTracking t time = (if t - time < REMOVED_ENTRIES_TRACKING_AGE_LIMIT_SECS then some time else none)) := by
  rw [Impl.pruneAt_eq]
  exact Spec.prune_rules g t

example : (Impl.pruneAt (Impl.run Graph.empty [.chanPartial 7 none 100 1 2]) 2000000).channels.get 7 = none ∧
    (Impl.pruneAt (Impl.run Graph.empty [.chanPartial 7 none 100 1 2]) 2000000).removedChannels.get 7 = some 2000000 ∧
    (Impl.pruneAt (Impl.run Graph.empty [.chanPartial 7 none 100 1 2]) 2000000).nodes.get 1 = none := by decide

/-! ## order independence -/

/-- HEADLINE. Two deliveries of the same messages (`List.Perm`) give the same graph, from any graph
    `g`, provided that
    * `NoConflict`: no two *different* messages of the list compete for one slot with one timestamp
      (same scid+direction+timestamp updates, same node+timestamp node announcements, two different
      announcements of one scid) — exact duplicates are allowed, any number of times;
    * `Ordered` (both orders): every channel announcement comes before the updates of its scid and
      before the node announcements of its two endpoints (node announcements need the node to have
      a channel);
    * `NoReplaceAll g`: no announcement of the list hits, in the starting graph, the branch of
      `add_channel_between_nodes` that *replaces* an existing entry after a successful UTXO lookup
      (it holds trivially from the empty graph, or when no UTXO lookup is configured); without it the
      statement is FALSE: `replace_branch_order_dependent` below.
    Invalid messages (bad signatures, wrong chain, excessive htlc_maximum, …) may be part of the list. -/
theorem order_independent (g : Graph) (l1 l2 : List Msg) (hp : l1.Perm l2)
    (hc : NoConflict l1) (h1 : Ordered l1) (h2 : Ordered l2) (hnr : NoReplaceAll g l1) :
    Impl.runMsgs g l1 = Impl.runMsgs g l2 := by
  simp only [Impl.runMsgs_eq]
  exact Spec.order_independent g l1 l2 hp hc h1 h2 hnr

/-- From the empty graph (or any graph without channels) the last side condition is automatic. -/
theorem order_independent_from_empty (l1 l2 : List Msg) (hp : l1.Perm l2)
    (hc : NoConflict l1) (h1 : Ordered l1) (h2 : Ordered l2) :
    Impl.runMsgs Graph.empty l1 = Impl.runMsgs Graph.empty l2 := by
  simp only [Impl.runMsgs_eq]
  exact Spec.order_independent_from_empty l1 l2 hp hc h1 h2

/-- The special case asked for first: over a fixed graph (the announced channels), any two orders of
    a set of channel updates and node announcements without conflicting timestamps agree. -/
theorem order_independent_updates (g : Graph) (l1 l2 : List Msg) (hp : l1.Perm l2) (hc : NoConflict l1)
    (hu : ∀ x ∈ l1, ∀ a, x ≠ .chanAnn a) : Impl.runMsgs g l1 = Impl.runMsgs g l2 := by
  simp only [Impl.runMsgs_eq]
  exact Spec.order_independent_updates g l1 l2 hp hc hu

/-- Duplicates anywhere: a second copy of a message delivered later (anywhere after the first) does
    not change the outcome of an admissible delivery. -/
theorem duplicates_anywhere (g : Graph) (l1 l2 l3 : List Msg) (m : Msg)
    (hc : NoConflict (l1 ++ m :: l2 ++ m :: l3)) (h1 : Ordered (l1 ++ m :: l2 ++ m :: l3))
    (hnr : NoReplaceAll g (l1 ++ m :: l2 ++ m :: l3)) :
    Impl.runMsgs g (l1 ++ m :: l2 ++ m :: l3) = Impl.runMsgs g (l1 ++ m :: l2 ++ l3) := by
  simp only [Impl.runMsgs_eq]
  exact Spec.duplicates_anywhere g l1 l2 l3 m hc h1 hnr

/-- non-vacuity: two different admissible orders of a set with an announcement, updates for both
    directions (two with different timestamps on one direction, one wrongly signed), node
    announcements and an exact duplicate; something is accepted. -/
example :
    let a : Msg := .chanAnn ⟨7, 1, 2, false, true, true, true, true, true, true, .value 1000, 100⟩
    let u1 : Msg := .chanUpd ⟨7, false, false, 10, 40, 1, 1000, 1, 2, true, false, true, 1⟩
    let u2 : Msg := .chanUpd ⟨7, false, false, 12, 41, 1, 900, 1, 2, true, false, true, 1⟩
    let u3 : Msg := .chanUpd ⟨7, true, false, 12, 41, 1, 900, 1, 2, true, false, true, 1⟩
    let n1 : Msg := .nodeAnn ⟨1, 5, 77, true, true⟩
    let n2 : Msg := .nodeAnn ⟨1, 6, 78, true, true⟩
    let l1 := [a, u1, u2, u3, n1, n2, u1]
    let l2 := [a, n2, u3, u2, u1, u1, n1]
    l1.Perm l2 ∧ NoConflict l1 ∧ Ordered l1 ∧ Ordered l2 ∧ l1 ≠ l2 ∧
    ((Impl.runMsgs Graph.empty l1).channels.get 7).map (fun c => c.d12.map (·.lastUpdate)) = some (some 12) ∧
    ((Impl.runMsgs Graph.empty l2).nodes.get 1).map (fun n => n.ann.map (·.payload)) = some (some 78) := by
  refine ⟨by decide, by unfold NoConflict; decide, by unfold Ordered; decide, by unfold Ordered; decide, by decide, by decide, by decide⟩

/-- EXACTLY WHERE order independence fails without `NoReplaceAll` (the counter-example the harness replays
    on the real `NetworkGraph`, phase D): the graph holds scid 1 between nodes (1,2), not chain-validated,
    and node 2 has a node announcement. An announcement of scid 2 between (2,3) and a chain-validated
    announcement of scid 1 between (1,3) are `Ordered`, conflict-free permutations of each other, yet the
    two orders give different graphs: replacing scid 1 first drops node 2's entry — and with it its node
    announcement — before scid 2 re-creates it. -/
theorem replace_branch_order_dependent :
    ∃ (g : Graph) (l1 l2 : List Msg), l1.Perm l2 ∧ NoConflict l1 ∧ Ordered l1 ∧ Ordered l2 ∧
      ¬ NoReplaceAll g l1 ∧ Impl.runMsgs g l1 ≠ Impl.runMsgs g l2 ∧
      ((Impl.runMsgs g l1).nodes.get 2).map (fun n => n.ann.isSome) = some true ∧
      ((Impl.runMsgs g l2).nodes.get 2).map (fun n => n.ann.isSome) = some false := by
  let a1 : Msg := .chanAnn ⟨1, 1, 2, false, true, true, true, true, true, true, .noLookup, 100⟩
  let na : Msg := .nodeAnn ⟨2, 50, 4242, true, true⟩
  let a2 : Msg := .chanAnn ⟨2, 2, 3, false, true, true, true, true, true, true, .noLookup, 100⟩
  let a1' : Msg := .chanAnn ⟨1, 1, 3, false, true, true, true, true, true, true, .value 1000, 100⟩
  refine ⟨Impl.runMsgs Graph.empty [a1, na], [a2, a1'], [a1', a2], by decide, by unfold NoConflict; decide,
    by unfold Ordered; decide, by unfold Ordered; decide, ?_, ?_, by decide, by decide⟩
  · intro h
    have h1 : noReplace (Impl.runMsgs Graph.empty [a1, na]) ⟨1, 1, 3, false, true, true, true, true, true, true, .value 1000, 100⟩ :=
      h a1' (by simp)
    have h2 := (h1 ⟨1, 2, none, none, none, 100, true⟩ (by decide) 1000 rfl).1
    revert h2; decide
  · intro h
    have : ((Impl.runMsgs (Impl.runMsgs Graph.empty [a1, na]) [a2, a1']).nodes.get 2).map (fun n => n.ann.isSome)
        = ((Impl.runMsgs (Impl.runMsgs Graph.empty [a1, na]) [a1', a2]).nodes.get 2).map (fun n => n.ann.isSome) := by rw [h]
    revert this; decide

/-! ## rapid gossip sync on top of the graph -/

/-- A snapshot whose data is older than two weeks (relative to the supplied clock) is refused and
    leaves the graph untouched; without a clock no snapshot is refused for its age. -/
theorem rgs_stale_refused (g : Graph) (s : Impl.Snapshot) (t : Nat) (hn : s.now = some t)
    (hs : s.latestSeen < t - 1209600) : Impl.applySnapshot g s = (g, .reject .rgsStale) := by
  have h1 : Gen.rgsSnapshotStale s.latestSeen t = true := by
    have : Gen.STALE_RGS_UPDATE_AGE_LIMIT_SECS = 1209600 := by decide
    simp only [Gen.rgsSnapshotStale, this, decide_eq_true_eq]; exact hs
  unfold Impl.applySnapshot
  rw [hn]
  simp only [h1, if_true]

example : ∃ g s, (Impl.applySnapshot g s).2 = .reject .rgsStale :=
  ⟨Graph.empty, ⟨100, some 2000000, [], [], 0, 0, 0, 0, 0, []⟩, by decide⟩

/-- A rapid-gossip-sync snapshot applied on top of ANY graph — whatever it contains (announcements, node
    reminders, full and incremental updates, with or without the final pruning) — never replaces a stored
    channel update by older or equally old data: for every channel entry that is there before and after, each
    direction's stored `UpdInfo` (timestamp, flags, fees, limits) is untouched, cleared (only by the final
    pruning), or replaced by one with a strictly larger timestamp. In particular a signed P2P update newer
    than (or as old as) the snapshot's backdated timestamp survives it. -/
theorem rgs_never_replaces_newer (g : Graph) (s : Impl.Snapshot) (scid : Nat) (c c' : ChanInfo)
    (h : g.channels.get scid = some c) (h' : (Impl.applySnapshot g s).1.channels.get scid = some c') :
    dirMono c.d12 c'.d12 ∧ dirMono c.d21 c'.d21 :=
  Impl.snapshot_chanMono g s scid c c' h h'

/-- non-vacuity: a snapshot update replaces an older signed update (fee 1 → the snapshot default 10) and the
    same snapshot leaves a newer signed update alone -/
example :
    let g := Impl.run Graph.empty [.msg (.chanAnn ⟨3, 1, 2, false, true, true, true, true, true, true, .noLookup, 100⟩),
      .msg (.chanUpd ⟨3, false, false, 10, 40, 1, 4000, 1, 2, true, false, true, 1⟩),
      .msg (.chanUpd ⟨3, true, false, 99999, 40, 1, 4000, 1, 2, true, false, true, 2⟩)]
    let s : Impl.Snapshot := ⟨700000, none, [], [], 40, 1, 10, 20, 900000, [⟨3, 0, 0, 0, 0, 0, 0⟩, ⟨3, 1, 0, 0, 0, 0, 0⟩]⟩
    ((Impl.applySnapshot g s).1.channels.get 3).bind (fun c => c.d12.map (fun u => (u.lastUpdate, u.feeBase))) = some (95200, 10) ∧
    ((Impl.applySnapshot g s).1.channels.get 3).bind (fun c => c.d21.map (fun u => (u.lastUpdate, u.feeBase))) = some (99999, 1) := by
  decide

/-- COUNTER-EXAMPLE (replayed on the real code by the harness, phase E2): a snapshot DOES resurrect a
    channel that was permanently failed moments ago. `add_channel_from_partial_announcement` has no
    tombstone test: the very announcement the P2P path refuses as `RecentlyRemoved` re-enters the graph
    through a snapshot, while the tombstone is still on record. -/
theorem rgs_resurrects_tombstoned_channel :
    ∃ (g : Graph) (a : ChanAnn) (s : Impl.Snapshot),
      g.channels.get a.scid = none ∧ g.removedChannels.contains a.scid = true ∧
      (Impl.applyChanAnn g a).2 = .reject .recentlyRemoved ∧
      (Impl.applySnapshot g s).2 = .done ∧
      ((Impl.applySnapshot g s).1.channels.get a.scid).isSome = true ∧
      (Impl.applySnapshot g s).1.removedChannels.contains a.scid = true :=
  ⟨Impl.run Graph.empty [.msg (.chanAnn ⟨3, 1, 2, false, true, true, true, true, true, true, .noLookup, 100⟩), .failPermanent 3 100],
   ⟨3, 1, 2, false, true, true, true, true, true, true, .noLookup, 100⟩,
   ⟨700000, none, [], [⟨3, none, 1, 2⟩], 40, 1, 10, 20, 900000, []⟩,
   by decide, by decide, by decide, by decide, by decide, by decide⟩

/-- COUNTER-EXAMPLE (replayed on the real code, phase E3): snapshots and P2P messages do NOT commute even
    when all timestamps differ. An *incremental* snapshot update inherits the unnamed fields from whatever
    the graph stores at that moment: delivered after an older P2P update it keeps that update's fee,
    delivered before it keeps the previous fee (and the P2P update is then refused as older). -/
theorem rgs_incremental_order_dependent :
    ∃ (g : Graph) (u : ChanUpd) (s : Impl.Snapshot),
      ((Impl.applySnapshot (Impl.applyChanUpd g u).1 s).1.channels.get 3).bind (fun c => c.d12.map (·.feeBase)) = some 2 ∧
      ((Impl.applyChanUpd (Impl.applySnapshot g s).1 u).1.channels.get 3).bind (fun c => c.d12.map (·.feeBase)) = some 1 ∧
      u.ts < Gen.rgsBackdated s.latestSeen :=
  ⟨Impl.run Graph.empty [.msg (.chanAnn ⟨3, 1, 2, false, true, true, true, true, true, true, .noLookup, 100⟩),
      .msg (.chanUpd ⟨3, false, false, 10, 40, 1, 4000, 1, 2, true, false, true, 1⟩)],
   ⟨3, false, false, 15, 40, 1, 4000, 2, 2, true, false, true, 1⟩,
   ⟨700000, none, [], [], 40, 1, 10, 20, 900000, [⟨3, 192, 144, 0, 0, 0, 0⟩]⟩,
   by decide, by decide, by decide⟩

end Ldk.C17
