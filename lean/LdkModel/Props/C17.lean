/- C17 — The network graph holds only authentic, current gossip, whatever the order.
   Property theorems only. They are stated about `Ldk.Gossip.Impl` — the model of
   lightning/src/routing/gossip.rs (+ lightning-rapid-gossip-sync/src/processing.rs) that the driver runs
   and in which every decision is a call of Generated/Gossip.lean (re-translated from the Rust text on
   every run; `_test_utils` build: the wall-clock freshness test of `update_channel_internal` is compiled
   out). Each theorem is derived from its counterpart over the hand-written specification layer
   (Proofs/GossipSpecThms.lean, Proofs/Gossip.lean) through the refinement `Impl.f = f`
   (Proofs/GossipRefine.lean), which is proved from lemmas about the generated definitions: a changed
   comparison / field / bit in the Rust text breaks every theorem below.
   All statements quantify over every graph (reachable or not), every message / operation and every
   operation list. The definitions used in the statements (`verifyRequested`, `msgVerified`, `dirMono`,
   `annMono`, `mustPrecede`, `conflict`, `Ordered`, `NoConflict`, `noReplace`, `NoReplaceAll`) are in
   Proofs/Gossip.lean. ECDSA is trusted: signatures are validity flags / signer identities. -/
import LdkModel.Proofs.GossipSpecThms
import LdkModel.Proofs.GossipRefine
import LdkModel.Proofs.GossipRgs
import LdkModel.Proofs.GossipAsync
import LdkModel.Proofs.GossipAsyncEquiv
import LdkModel.Proofs.GossipRgsNodes
import LdkModel.Proofs.GossipRgsIdem
import LdkModel.Proofs.GossipRgsIdem2
import LdkModel.Proofs.GossipPersist
import LdkModel.Model.GossipOrder
import LdkModel.Model.GossipRelay
import LdkModel.Generated.TlvSchemas
namespace Ldk.C17
open Ldk Ldk.Gossip

/-! ## authenticity -/

/-- Along any run, a delivery for which signature verification is requested changes the graph only
    if every signature the library must check is valid (an update: made by the node the graph
    stores for that direction of that channel). -/
theorem accepted_implies_verified (g0 : Graph) (pre : List Op) (m : Msg)
    (hv : verifyRequested m = true) (hch : Impl.run g0 (pre ++ [.msg m]) ≠ Impl.run g0 pre) :
    msgVerified (Impl.run g0 pre) m := by
  simp only [Impl.run_eq] at hch ⊢
  exact Spec.accepted_implies_verified g0 pre m hv hch

example : ∃ g0 pre m, verifyRequested m = true ∧ Impl.run g0 (pre ++ [.msg m]) ≠ Impl.run g0 pre :=
  ⟨Graph.empty, [], .chanAnn ⟨7, 1, 2, false, true, true, true, true, true, true, .noLookup, 100⟩, rfl, by
    intro h
    have : (Impl.run Graph.empty ([] ++ [Op.msg (.chanAnn ⟨7, 1, 2, false, true, true, true, true, true, true, .noLookup, 100⟩)])).channels.get 7
        = (Impl.run Graph.empty []).channels.get 7 := by rw [h]
    revert this; decide⟩

/-- A rejected message leaves the graph exactly as it was (whatever the reject reason). -/
theorem rejected_unchanged (g : Graph) (m : Msg) (r : Reject) (h : (Impl.applyMsg g m).2 = .reject r) :
    (Impl.applyMsg g m).1 = g := by
  rw [Impl.applyMsg_eq] at h ⊢
  exact Spec.rejected_unchanged g m r h

example : ∃ g m r, (Impl.applyMsg g m).2 = .reject r :=
  ⟨Graph.empty, .nodeAnn ⟨1, 5, 0, true, true⟩, .noChannelsForNode, rfl⟩

/-- handle_network_update (the guards are translated from its two match arms): a payment-failure report becomes a
    removal iff it is PERMANENT; a non-permanent report leaves every graph exactly as it was. -/
theorem network_update_acts_iff_permanent (g : Graph) (now : Nat) :
    (∀ scid p, Impl.handleNetworkUpdate g (.channelFailure scid p) now
        = if p then (Impl.step g (.failPermanent scid now)).1 else g) ∧
    (∀ id p, Impl.handleNetworkUpdate g (.nodeFailure id p) now
        = if p then (Impl.step g (.nodeFailPermanent id now)).1 else g) := by
  constructor <;> intro x p <;> cases p <;> rfl

example : ∃ g scid now, Impl.handleNetworkUpdate g (.channelFailure scid true) now ≠ g ∧
    Impl.handleNetworkUpdate g (.channelFailure scid false) now = g :=
  ⟨(Impl.step Graph.empty (.msg (.chanAnn ⟨7, 1, 2, false, true, true, true, true, true, true, .noLookup, 100⟩))).1, 7, 200,
   by intro h
      have : (Impl.handleNetworkUpdate (Impl.step Graph.empty (.msg (.chanAnn ⟨7, 1, 2, false, true, true, true, true, true, true, .noLookup, 100⟩))).1 (.channelFailure 7 true) 200).channels.get 7
          = ((Impl.step Graph.empty (.msg (.chanAnn ⟨7, 1, 2, false, true, true, true, true, true, true, .noLookup, 100⟩))).1).channels.get 7 := by rw [h]
      revert this; decide,
   rfl⟩

/-- utxo.rs check_channel_announcement (the script test is translated): a looked-up TxOut validates an announcement
    iff it pays to the expected script (the 2-of-2 of the announced bitcoin keys); with any other script the
    announcement is refused and every graph stays exactly as it was. -/
theorem utxo_answer_validates_iff_script_matches (value script expected : Nat) :
    (Impl.utxoOfTxOut value script expected = .value value ↔ script = expected) ∧
    (script ≠ expected → ∀ (g : Graph) (a : ChanAnn),
      (Impl.applyChanAnn g { a with utxo := Impl.utxoOfTxOut value script expected }).1 = g) := by
  constructor
  · unfold Impl.utxoOfTxOut Gen.utxoScriptRefused
    by_cases h : script = expected <;> simp [h]
  · intro h g a
    have hu : Impl.utxoOfTxOut value script expected = .unknownTx := by
      unfold Impl.utxoOfTxOut Gen.utxoScriptRefused; simp [h]
    rw [hu, Impl.applyChanAnn_eq]
    unfold Gossip.applyChanAnn
    cases chanAnnPre g { a with utxo := .unknownTx } with
    | some r => rfl
    | none =>
      simp only
      split
      · rfl
      · split <;> rfl

example : Impl.utxoOfTxOut 1000 1 0 = .unknownTx ∧ Impl.utxoOfTxOut 1000 0 0 = .value 1000 := by decide

/-! ### which signature is checked against which key (round 5)
   `Gen.chanAnnSigChecks` / `Gen.nodeAnnSigChecks` (Generated/GossipSig.lean) are the (signature field, key field)
   pairs translated from the secp_verify_sig! statements of gossip.rs::verify_channel_announcement /
   verify_node_announcement on every run; the enumerations CaSig / CaKey come from the `Signature` / `NodeId`
   fields of the message structs in msgs.rs. `verifyChanAnn` evaluates that list and is what `Impl.applyChanAnn`
   and the asynchronous gate `Async.annGate` (= what the driver runs) call. Signatures are identities
   (who signed, over this message's digest or not): the ECDSA assumption. -/

/-- For EVERY wire-level channel_announcement (any holders of the four announced keys, any four signers, each
    signature over this message's digest or over anything else): verify_channel_announcement accepts iff each of
    the four signatures was made over this message by the holder of the key announced for it — node_signature_i
    by node_id_i, bitcoin_signature_i by bitcoin_key_i. A check against the wrong field, a duplicated or a
    dropped check in the Rust text makes this statement false (the build breaks). -/
theorem channel_announcement_signature_checks_exact (w : CaWire) :
    verifyChanAnn w = true ↔ ∀ s : Gen.CaSig, (w.sig s).overThis = true ∧ (w.sig s).signer = w.key s.ownKey := by
  rw [Impl.verifyChanAnn_iff]
  simp only [SigBy.verifies, Bool.and_eq_true, beq_iff_eq]

example : ∃ w : CaWire, verifyChanAnn w = false ∧
    ∀ s : Gen.CaSig, s ≠ .bitcoin_signature_2 → (w.sig s).verifies (w.key s.ownKey) = true :=
  -- only bitcoin_signature_2 is made by somebody else (by the holder of bitcoin_key_1, even)
  ⟨⟨fun | .node_id_1 => .node 1 | .node_id_2 => .node 2 | .bitcoin_key_1 => .btc 0 | .bitcoin_key_2 => .btc 1,
    fun | .node_signature_1 => ⟨.node 1, true⟩ | .node_signature_2 => ⟨.node 2, true⟩
        | .bitcoin_signature_1 => ⟨.btc 0, true⟩ | .bitcoin_signature_2 => ⟨.btc 0, true⟩⟩,
   by decide, by intro s hs; cases s <;> first | rfl | exact absurd rfl hs⟩

/-- node_announcement: accepted by verify_node_announcement iff signed over this message by the announced node_id -/
theorem node_announcement_signature_check_exact (w : NaWire) :
    verifyNodeAnn w = true ↔ ∀ s : Gen.NaSig, (w.sig s).overThis = true ∧ (w.sig s).signer = w.key s.ownKey := by
  rw [Impl.verifyNodeAnn_iff]
  simp only [SigBy.verifies, Bool.and_eq_true, beq_iff_eq]

example : ∃ w : NaWire, verifyNodeAnn w = false :=
  ⟨⟨fun | .node_id => .node 1, fun | .signature => ⟨.node 2, true⟩⟩, by decide⟩

/-- Any graph, any channel_announcement delivered through the verifying entry point in which AT LEAST ONE of the
    four signatures (whichever) is not made by its own announced key: the graph is unchanged and the answer is a
    rejection. (The reject reason is `badSig` unless the pre-check already refused the message.) -/
theorem forged_channel_announcement_rejected (g : Graph) (a : ChanAnn) (s : Gen.CaSig)
    (hv : a.verify = true) (hs : a.flag s = false) :
    (Impl.applyChanAnn g a).1 = g ∧ ∃ r, (Impl.applyChanAnn g a).2 = .reject r := by
  have hno : Impl.chanAnnSigsVerify a = false := by
    cases h : Impl.chanAnnSigsVerify a
    · rfl
    · unfold Impl.chanAnnSigsVerify at h
      have := (Impl.verifyChanAnn_iff a.wire).1 h s
      rw [Impl.ChanAnn.wire_verifies, hs] at this
      exact absurd this (by decide)
  unfold Impl.applyChanAnn
  cases Impl.chanAnnPre g a with
  | some r => simp
  | none => simp [hv, hno]

example : ∃ g a s, a.verify = true ∧ a.flag s = false ∧ (Impl.applyChanAnn g a).2 = .reject .badSig :=
  ⟨Graph.empty, ⟨7, 1, 2, false, true, true, true, true, true, false, .noLookup, 100⟩, .bitcoin_signature_2, rfl, rfl, by decide⟩

/-! ### what is forwarded and what is served to peers (round 5b; decisions: Generated/GossipRelay.lean) -/

/-- P2PGossipSync::handle_*: a message is forwarded to peers ONLY IF it came through the signature-verifying handler,
    the graph accepted it, and the (translated) relay expression on its excess data holds; for a channel_announcement
    that means all four signatures are made by their own announced keys. Nothing delivered through an unsigned entry
    point is ever forwarded. All graphs, all messages, all excess lengths. -/
theorem relayed_only_if_accepted_and_verified (g : Graph) (m : Msg) (e ea : Nat)
    (h : Impl.relayed g m e ea = true) :
    verifyRequested m = true ∧ (Impl.applyMsg g m).2 = .accept ∧ Impl.relayExpr m e ea = true ∧
    (∀ a, m = .chanAnn a → ∀ s, a.flag s = true) := by
  unfold Impl.relayed at h
  simp only [Bool.and_eq_true, decide_eq_true_eq] at h
  refine ⟨?_, h.1.2, h.2, ?_⟩
  · cases m <;> exact h.1.1
  · intro a hm s
    subst hm
    cases hs : a.flag s
    · have hv : a.verify = true := h.1.1
      obtain ⟨_, r, hr⟩ := forged_channel_announcement_rejected g a s hv hs
      have hacc := h.1.2
      simp only [Impl.applyMsg] at hacc
      rw [hr] at hacc
      cases hacc
    · rfl

theorem unsigned_never_relayed (g : Graph) (m : Msg) (e ea : Nat) (h : verifyRequested m = false) :
    Impl.relayed g m e ea = false := by
  unfold Impl.relayed
  cases m <;> simp_all [Impl.msgVerify, verifyRequested]

example : ∃ g m, Impl.relayed g m 0 0 = true ∧ Impl.relayed g m 1025 0 = false :=
  ⟨Graph.empty, .chanAnn ⟨7, 1, 2, false, true, true, true, true, true, true, .noLookup, 100⟩, by decide, by decide⟩

/-- the relay limit (translated): forwarded iff the excess data fit MAX_EXCESS_BYTES_FOR_RELAY = 1024 (node
    announcements: both parts and their sum) -/
theorem relay_limit (e ea : Nat) :
    Impl.relayOfKind .chanAnn e ea = decide (e ≤ 1024) ∧ Impl.relayOfKind .chanUpd e ea = decide (e ≤ 1024) ∧
    Impl.relayOfKind .nodeAnn e ea = decide (e + ea ≤ 1024) := by
  simp only [Impl.relayOfKind, Gen.handleChanAnnRelay, Gen.handleChanUpdRelay, Gen.handleNodeAnnRelay, MAX_EXCESS_BYTES_FOR_RELAY]
  refine ⟨rfl, rfl, ?_⟩
  by_cases h : e + ea ≤ 1024
  · have h1 : e ≤ 1024 := by omega
    have h2 : ea ≤ 1024 := by omega
    simp [h, h1, h2]
  · simp [h]

/-- get_next_channel_announcement, every graph and starting point: what is served is a channel of the graph at or
    after the starting point that HAS its (signed) announcement message, and it is the FIRST such channel: no announced
    channel between the starting point and the served one is skipped. Hence iterating with start := served + 1 serves
    every announced channel exactly once, in ascending order (keys are strictly increasing). -/
theorem served_channel_is_first_announced (g : Graph) (start k : Nat) (c : ChanInfo)
    (h : Impl.nextChanAnn g start = some (k, c)) :
    start ≤ k ∧ c.hasMsg = true ∧ g.channels.get k = some c ∧
    ∀ p ∈ g.channels.l, start ≤ p.1 → p.1 < k → p.2.hasMsg = false := by
  unfold Impl.nextChanAnn at h
  obtain ⟨hp, as, bs, hl, has⟩ := List.find?_eq_some_iff_append.1 h
  simp only [Gen.nextChanInRange, Gen.nextChanServes, Bool.and_eq_true, decide_eq_true_eq] at hp
  have hsorted := g.channels.sorted
  rw [hl] at hsorted
  have hmem : (k, c) ∈ g.channels.l := by rw [hl]; simp
  refine ⟨hp.1, hp.2, Impl.SMap.get_of_mem g.channels hmem, ?_⟩
  intro p hpm hs hlt
  rw [hl] at hpm
  rcases List.mem_append.1 hpm with hin | hin
  · have := has p hin
    simp only [Gen.nextChanInRange, Gen.nextChanServes, Bool.not_eq_true', Bool.and_eq_false_iff, decide_eq_false_iff_not] at this
    rcases this with h1 | h1
    · exact absurd hs h1
    · exact h1
  · rcases List.mem_cons.1 hin with heq | hin'
    · subst heq; exact absurd hlt (Nat.lt_irrefl _)
    · have hp2 := (List.pairwise_append.1 hsorted).2.1
      have := (List.pairwise_cons.1 hp2).1 p hin'
      exact absurd hlt (Nat.lt_asymm this)

/-- … and nothing is served iff no channel at or after the starting point has an announcement message -/
theorem nothing_served_iff (g : Graph) (start : Nat) :
    Impl.nextChanAnn g start = none ↔ ∀ p ∈ g.channels.l, start ≤ p.1 → p.2.hasMsg = false := by
  unfold Impl.nextChanAnn
  rw [List.find?_eq_none]
  simp only [Gen.nextChanInRange, Gen.nextChanServes, Bool.and_eq_true, decide_eq_true_eq, not_and, Bool.not_eq_true]

/-- get_next_node_announcement: the served node is strictly after the starting point and its stored announcement is
    the `Relayed` (signed) variant; none iff there is no such node -/
theorem served_node_is_relayed (g : Graph) (start : Option Nat) :
    (∀ k ni, Impl.nextNodeAnn g start = some (k, ni) →
      (∀ s, start = some s → s < k) ∧ ∃ a, ni.ann = some a ∧ a.relayed = true) ∧
    (Impl.nextNodeAnn g start = none ↔
      ∀ p ∈ g.nodes.l, Gen.nextNodeInRange start p.1 = true → (p.2.ann.map (·.relayed)).getD false = false) := by
  constructor
  · intro k ni h
    unfold Impl.nextNodeAnn at h
    have hp := List.find?_some h
    simp only [Gen.nextNodeServes, Bool.and_eq_true] at hp
    constructor
    · intro s hs; subst hs; simpa [Gen.nextNodeInRange] using hp.1
    · cases ha : ni.ann with
      | none => simp [ha] at hp
      | some a => exact ⟨a, rfl, by simpa [ha] using hp.2⟩
  · unfold Impl.nextNodeAnn
    rw [List.find?_eq_none]
    simp only [Gen.nextNodeServes, Bool.and_eq_true, not_and, Bool.not_eq_true]

example : Impl.nextChanAnn (Impl.step Graph.empty (.msg (.chanAnn ⟨7, 1, 2, false, true, true, true, true, true, true, .noLookup, 100⟩))).1 0
    = some (7, ⟨1, 2, none, none, none, 100, true⟩) := by decide

/-! ## currency -/

/-- One operation (any of the seven kinds) on any graph: if the channel entry is there before and
    after, each direction's stored update — the whole stored PAYLOAD (`UpdInfo`: timestamp, enabled flag,
    cltv delta, htlc min/max, fees, relay flag) — is either untouched, cleared, or replaced by one with a
    strictly larger timestamp; an equal or older timestamp never replaces. Same for the stored node
    announcement (`NodeAnnInfo`: timestamp, payload id, relay flag) of a node entry. -/
theorem never_older_or_equal (g : Graph) (op : Op) :
    (∀ s c c', g.channels.get s = some c → (Impl.step g op).1.channels.get s = some c' →
      dirMono c.d12 c'.d12 ∧ dirMono c.d21 c'.d21) ∧
    (∀ id ni ni', g.nodes.get id = some ni → (Impl.step g op).1.nodes.get id = some ni' →
      annMono ni.ann ni'.ann) := by
  rw [Impl.step_eq]
  exact Spec.never_older_or_equal g op

/-- Along a whole run: as long as the direction stays stored, its `last_update` never decreases and
    the stored update changes only together with a strict increase. -/
theorem never_older_or_equal_run (d : Bool) (ops : List Op) (g : Graph) (s : Nat) (c c' : ChanInfo)
    (h : g.channels.get s = some c) (h' : (Impl.run g ops).channels.get s = some c')
    (hp : ∀ pre, pre <+: ops → ∃ ck uk, (Impl.run g pre).channels.get s = some ck ∧ ck.dir d = some uk) :
    dirMono (c.dir d) (c'.dir d) := by
  simp only [Impl.run_eq] at h' hp
  exact Spec.never_older_or_equal_run d ops g s c c' h h' hp

example : ∃ (g : Graph) (u : ChanUpd) (c c' : ChanInfo) (x x' : UpdInfo), g.channels.get u.scid = some c ∧
    (Impl.step g (.msg (.chanUpd u))).1.channels.get u.scid = some c' ∧ c.d12 = some x ∧ c'.d12 = some x' ∧
    x.lastUpdate < x'.lastUpdate ∧ x.feeBase ≠ x'.feeBase :=
  ⟨(Impl.run Graph.empty [.msg (.chanAnn ⟨7, 1, 2, false, true, true, true, true, true, true, .noLookup, 100⟩),
      .msg (.chanUpd ⟨7, false, false, 10, 40, 1, 1000, 1, 2, true, false, true, 1⟩)]),
    ⟨7, false, false, 11, 41, 1, 1000, 5, 2, true, false, true, 1⟩, _, _, _, _, rfl, rfl, rfl, rfl, by decide, by decide⟩

/-! ## reject rules -/

/-- A channel update for an unknown channel, for the wrong chain, with `htlc_maximum_msat` above
    `MAX_VALUE_MSAT`, or above the known capacity of the channel (or with a bogus capacity on
    record) is rejected and leaves the graph unchanged; likewise a channel announcement for the wrong
    chain. -/
theorem reject_rules (g : Graph) :
    (∀ u : ChanUpd, (g.channels.get u.scid = none ∨ u.chainOk = false ∨ u.htlcMax > MAX_VALUE_MSAT ∨
        (∃ c cap, g.channels.get u.scid = some c ∧ c.capacity = some cap ∧
          (u.htlcMax > cap * 1000 ∨ cap > MAX_VALUE_MSAT / 1000))) →
      (Impl.applyChanUpd g u).1 = g ∧ ∃ r, (Impl.applyChanUpd g u).2 = .reject r) ∧
    (∀ a : ChanAnn, a.chainOk = false → (Impl.applyChanAnn g a).1 = g ∧ ∃ r, (Impl.applyChanAnn g a).2 = .reject r) := by
  simp only [Impl.applyChanUpd_eq, Impl.applyChanAnn_eq]
  exact Spec.reject_rules g

example : (Impl.applyChanUpd Graph.empty ⟨7, false, false, 10, 40, 1, 1000, 1, 2, true, false, true, 1⟩).2
    = .reject .unknownChannel := rfl

/-! ## duplicates -/

/-- Delivering a message a second time right after the first changes nothing — on any graph, for
    any message (valid or not), hence at any point of any run. -/
theorem duplicates_idempotent (g0 : Graph) (pre : List Op) (m : Msg) :
    Impl.run g0 (pre ++ [.msg m, .msg m]) = Impl.run g0 (pre ++ [.msg m]) := by
  simp only [Impl.run_eq]
  exact Spec.duplicates_idempotent g0 pre m

example : Impl.run Graph.empty [.msg (.chanAnn ⟨7, 1, 2, false, true, true, true, true, true, true, .noLookup, 100⟩)]
    ≠ Graph.empty := by
  intro h
  have : (Impl.run Graph.empty [Op.msg (.chanAnn ⟨7, 1, 2, false, true, true, true, true, true, true, .noLookup, 100⟩)]).channels.get 7
      = Graph.empty.channels.get 7 := by rw [h]
  revert this; decide

/-! ## permanent failures -/

/-- `channel_failed_permanent`: the channel is gone; if it was there it is tombstoned with the time
    of the call, and each of its two endpoint entries is either removed or keeps at least one other
    channel and no longer lists this one. -/
theorem failed_permanent_removed (g : Graph) (scid now : Nat) :
    (Impl.step g (.failPermanent scid now)).1.channels.get scid = none ∧
    (∀ c, g.channels.get scid = some c →
      (Impl.step g (.failPermanent scid now)).1.removedChannels.get scid = some now ∧
      ∀ id ni, (id = c.node1 ∨ id = c.node2) → (Impl.step g (.failPermanent scid now)).1.nodes.get id = some ni →
        ni.channels.get scid = none ∧ ni.channels.isEmpty = false) :=
  Spec.failed_permanent_removed g scid now

/-- `node_failed_permanent`: the node entry is gone and tombstoned; every channel it listed is gone,
    and tombstoned if it was there. -/
theorem node_failed_permanent_removed (g : Graph) (id now : Nat) (n : NodeInfo) (h : g.nodes.get id = some n) :
    (Impl.nodeFailPermanent g id now).nodes.get id = none ∧
    (Impl.nodeFailPermanent g id now).removedNodes.get id = some now ∧
    (∀ s, n.channels.get s = some () →
      (Impl.nodeFailPermanent g id now).channels.get s = none ∧
      (g.channels.get s ≠ none → (Impl.nodeFailPermanent g id now).removedChannels.get s = some now)) := by
  rw [Impl.nodeFailPermanent_eq]
  exact Spec.node_failed_permanent_removed g id now n h

example : ∃ g scid now c, g.channels.get scid = some c ∧ (Impl.step g (.failPermanent scid now)).1.removedChannels.get scid = some now :=
  ⟨Impl.run Graph.empty [.msg (.chanAnn ⟨7, 1, 2, false, true, true, true, true, true, true, .noLookup, 100⟩)], 7, 200, _, rfl, rfl⟩

/-! ## pruning -/

/-- `remove_stale_channels_and_tracking_with_time(t)` as coded. Outside `[STALE_LIMIT, u32::MAX]` it
    does nothing. Otherwise, with `minT = t − STALE_CHANNEL_UPDATE_AGE_LIMIT_SECS`:
    a direction survives iff its `last_update ≥ minT`; a channel is removed iff after that a direction
    is missing and its announcement was received before `minT`, and is then tombstoned at `t`; a node
    that loses channels keeps the others and is removed when none is left; tombstones older than
    `REMOVED_ENTRIES_TRACKING_AGE_LIMIT_SECS` (relative to `t`, saturating) are dropped. -/
theorem prune_rules (g : Graph) (t : Nat) :
    ((t > U32_MAX ∨ t < STALE_CHANNEL_UPDATE_AGE_LIMIT_SECS) → Impl.pruneAt g t = g) ∧
    (t ≤ U32_MAX → STALE_CHANNEL_UPDATE_AGE_LIMIT_SECS ≤ t →
      (∀ s, (Impl.pruneAt g t).channels.get s =
          (g.channels.get s).bind (pruneChan (t - STALE_CHANNEL_UPDATE_AGE_LIMIT_SECS))) ∧
      (∀ id, (Impl.pruneAt g t).nodes.get id =
          (g.nodes.get id).bind (pruneNode g (t - STALE_CHANNEL_UPDATE_AGE_LIMIT_SECS))) ∧
      (∀ s, (Impl.pruneAt g t).removedChannels.get s =
          if prunedScid g (t - STALE_CHANNEL_UPDATE_AGE_LIMIT_SECS) s then some t
          else (g.removedChannels.get s).bind (keepTracking t)) ∧
      (∀ id, (Impl.pruneAt g t).removedNodes.get id = (g.removedNodes.get id).bind (keepTracking t))) ∧
    (∀ minT (c : ChanInfo),
      (pruneChan minT c = none ↔
        ((pruneDir minT c.d12 = none ∨ pruneDir minT c.d21 = none) ∧ c.recvTime < minT)) ∧
      (∀ c', pruneChan minT c = some c' →
        c' = { c with d12 := pruneDir minT c.d12, d21 := pruneDir minT c.d21 }) ∧
      (∀ d u, pruneDir minT d = some u ↔ d = some u ∧ minT ≤ u.lastUpdate)) ∧
    (∀ time, keepTracking t time = (if t - time < REMOVED_ENTRIES_TRACKING_AGE_LIMIT_SECS then some time else none)) := by
  rw [Impl.pruneAt_eq]
  exact Spec.prune_rules g t

example : (Impl.pruneAt (Impl.run Graph.empty [.chanPartial 7 none 100 1 2]) 2000000).channels.get 7 = none ∧
    (Impl.pruneAt (Impl.run Graph.empty [.chanPartial 7 none 100 1 2]) 2000000).removedChannels.get 7 = some 2000000 ∧
    (Impl.pruneAt (Impl.run Graph.empty [.chanPartial 7 none 100 1 2]) 2000000).nodes.get 1 = none := by decide

/-! ## order independence -/

/-- HEADLINE. Two deliveries of the same messages (`List.Perm`) give the same graph, from any graph
    `g`, provided that
    * `NoConflict`: no two *different* messages of the list compete for one slot with one timestamp
      (same scid+direction+timestamp updates, same node+timestamp node announcements, two different
      announcements of one scid) — exact duplicates are allowed, any number of times;
    * `Ordered` (both orders): every channel announcement comes before the updates of its scid and
      before the node announcements of its two endpoints (node announcements need the node to have
      a channel);
    * `NoReplaceAll g`: no announcement of the list hits, in the starting graph, the branch of
      `add_channel_between_nodes` that *replaces* an existing entry after a successful UTXO lookup
      (it holds trivially from the empty graph, or when no UTXO lookup is configured); without it the
      statement is FALSE: `replace_branch_order_dependent` below.
    Invalid messages (bad signatures, wrong chain, excessive htlc_maximum, …) may be part of the list. -/
theorem order_independent (g : Graph) (l1 l2 : List Msg) (hp : l1.Perm l2)
    (hc : NoConflict l1) (h1 : Ordered l1) (h2 : Ordered l2) (hnr : NoReplaceAll g l1) :
    Impl.runMsgs g l1 = Impl.runMsgs g l2 := by
  simp only [Impl.runMsgs_eq]
  exact Spec.order_independent g l1 l2 hp hc h1 h2 hnr

/-- From the empty graph (or any graph without channels) the last side condition is automatic. -/
theorem order_independent_from_empty (l1 l2 : List Msg) (hp : l1.Perm l2)
    (hc : NoConflict l1) (h1 : Ordered l1) (h2 : Ordered l2) :
    Impl.runMsgs Graph.empty l1 = Impl.runMsgs Graph.empty l2 := by
  simp only [Impl.runMsgs_eq]
  exact Spec.order_independent_from_empty l1 l2 hp hc h1 h2

/-- The special case asked for first: over a fixed graph (the announced channels), any two orders of
    a set of channel updates and node announcements without conflicting timestamps agree. -/
theorem order_independent_updates (g : Graph) (l1 l2 : List Msg) (hp : l1.Perm l2) (hc : NoConflict l1)
    (hu : ∀ x ∈ l1, ∀ a, x ≠ .chanAnn a) : Impl.runMsgs g l1 = Impl.runMsgs g l2 := by
  simp only [Impl.runMsgs_eq]
  exact Spec.order_independent_updates g l1 l2 hp hc hu

/-- Duplicates anywhere: a second copy of a message delivered later (anywhere after the first) does
    not change the outcome of an admissible delivery. -/
theorem duplicates_anywhere (g : Graph) (l1 l2 l3 : List Msg) (m : Msg)
    (hc : NoConflict (l1 ++ m :: l2 ++ m :: l3)) (h1 : Ordered (l1 ++ m :: l2 ++ m :: l3))
    (hnr : NoReplaceAll g (l1 ++ m :: l2 ++ m :: l3)) :
    Impl.runMsgs g (l1 ++ m :: l2 ++ m :: l3) = Impl.runMsgs g (l1 ++ m :: l2 ++ l3) := by
  simp only [Impl.runMsgs_eq]
  exact Spec.duplicates_anywhere g l1 l2 l3 m hc h1 hnr

/-- non-vacuity: two different admissible orders of a set with an announcement, updates for both
    directions (two with different timestamps on one direction, one wrongly signed), node
    announcements and an exact duplicate; something is accepted. -/
example :
    let a : Msg := .chanAnn ⟨7, 1, 2, false, true, true, true, true, true, true, .value 1000, 100⟩
    let u1 : Msg := .chanUpd ⟨7, false, false, 10, 40, 1, 1000, 1, 2, true, false, true, 1⟩
    let u2 : Msg := .chanUpd ⟨7, false, false, 12, 41, 1, 900, 1, 2, true, false, true, 1⟩
    let u3 : Msg := .chanUpd ⟨7, true, false, 12, 41, 1, 900, 1, 2, true, false, true, 1⟩
    let n1 : Msg := .nodeAnn ⟨1, 5, 77, true, true⟩
    let n2 : Msg := .nodeAnn ⟨1, 6, 78, true, true⟩
    let l1 := [a, u1, u2, u3, n1, n2, u1]
    let l2 := [a, n2, u3, u2, u1, u1, n1]
    l1.Perm l2 ∧ NoConflict l1 ∧ Ordered l1 ∧ Ordered l2 ∧ l1 ≠ l2 ∧
    ((Impl.runMsgs Graph.empty l1).channels.get 7).map (fun c => c.d12.map (·.lastUpdate)) = some (some 12) ∧
    ((Impl.runMsgs Graph.empty l2).nodes.get 1).map (fun n => n.ann.map (·.payload)) = some (some 78) := by
  refine ⟨by decide, by unfold NoConflict; decide, by unfold Ordered; decide, by unfold Ordered; decide, by decide, by decide, by decide⟩

/-- EXACTLY WHERE order independence fails without `NoReplaceAll` (the counter-example the harness replays
    on the real `NetworkGraph`, phase D): the graph holds scid 1 between nodes (1,2), not chain-validated,
    and node 2 has a node announcement. An announcement of scid 2 between (2,3) and a chain-validated
    announcement of scid 1 between (1,3) are `Ordered`, conflict-free permutations of each other, yet the
    two orders give different graphs: replacing scid 1 first drops node 2's entry — and with it its node
    announcement — before scid 2 re-creates it. -/
theorem replace_branch_order_dependent :
    ∃ (g : Graph) (l1 l2 : List Msg), l1.Perm l2 ∧ NoConflict l1 ∧ Ordered l1 ∧ Ordered l2 ∧
      ¬ NoReplaceAll g l1 ∧ Impl.runMsgs g l1 ≠ Impl.runMsgs g l2 ∧
      ((Impl.runMsgs g l1).nodes.get 2).map (fun n => n.ann.isSome) = some true ∧
      ((Impl.runMsgs g l2).nodes.get 2).map (fun n => n.ann.isSome) = some false := by
  let a1 : Msg := .chanAnn ⟨1, 1, 2, false, true, true, true, true, true, true, .noLookup, 100⟩
  let na : Msg := .nodeAnn ⟨2, 50, 4242, true, true⟩
  let a2 : Msg := .chanAnn ⟨2, 2, 3, false, true, true, true, true, true, true, .noLookup, 100⟩
  let a1' : Msg := .chanAnn ⟨1, 1, 3, false, true, true, true, true, true, true, .value 1000, 100⟩
  refine ⟨Impl.runMsgs Graph.empty [a1, na], [a2, a1'], [a1', a2], by decide, by unfold NoConflict; decide,
    by unfold Ordered; decide, by unfold Ordered; decide, ?_, ?_, by decide, by decide⟩
  · intro h
    have h1 : noReplace (Impl.runMsgs Graph.empty [a1, na]) ⟨1, 1, 3, false, true, true, true, true, true, true, .value 1000, 100⟩ :=
      h a1' (by simp)
    have h2 := (h1 ⟨1, 2, none, none, none, 100, true⟩ (by decide) 1000 rfl).1
    revert h2; decide
  · intro h
    have : ((Impl.runMsgs (Impl.runMsgs Graph.empty [a1, na]) [a2, a1']).nodes.get 2).map (fun n => n.ann.isSome)
        = ((Impl.runMsgs (Impl.runMsgs Graph.empty [a1, na]) [a1', a2]).nodes.get 2).map (fun n => n.ann.isSome) := by rw [h]
    revert this; decide

/-! ## rapid gossip sync on top of the graph -/

/-- A snapshot whose data is older than two weeks (relative to the supplied clock) is refused and
    leaves the graph untouched; without a clock no snapshot is refused for its age. -/
theorem rgs_stale_refused (g : Graph) (s : Impl.Snapshot) (t : Nat) (hn : s.now = some t)
    (hs : s.latestSeen < t - 1209600) : Impl.applySnapshot g s = (g, .reject .rgsStale) := by
  have h1 : Gen.rgsSnapshotStale s.latestSeen t = true := by
    have : Gen.STALE_RGS_UPDATE_AGE_LIMIT_SECS = 1209600 := by decide
    simp only [Gen.rgsSnapshotStale, this, decide_eq_true_eq]; exact hs
  unfold Impl.applySnapshot
  rw [hn]
  simp only [h1, if_true]

example : ∃ g s, (Impl.applySnapshot g s).2 = .reject .rgsStale :=
  ⟨Graph.empty, ⟨100, some 2000000, [], [], 0, 0, 0, 0, 0, []⟩, by decide⟩

/-- A rapid-gossip-sync snapshot applied on top of ANY graph — whatever it contains (announcements, node
    reminders, full and incremental updates, with or without the final pruning) — never replaces a stored
    channel update by older or equally old data: for every channel entry that is there before and after, each
    direction's stored `UpdInfo` (timestamp, flags, fees, limits) is untouched, cleared (only by the final
    pruning), or replaced by one with a strictly larger timestamp. In particular a signed P2P update newer
    than (or as old as) the snapshot's backdated timestamp survives it. -/
theorem rgs_never_replaces_newer (g : Graph) (s : Impl.Snapshot) (scid : Nat) (c c' : ChanInfo)
    (h : g.channels.get scid = some c) (h' : (Impl.applySnapshot g s).1.channels.get scid = some c') :
    dirMono c.d12 c'.d12 ∧ dirMono c.d21 c'.d21 :=
  Impl.snapshot_chanMono g s scid c c' h h'

/-- non-vacuity: a snapshot update replaces an older signed update (fee 1 → the snapshot default 10) and the
    same snapshot leaves a newer signed update alone -/
example :
    let g := Impl.run Graph.empty [.msg (.chanAnn ⟨3, 1, 2, false, true, true, true, true, true, true, .noLookup, 100⟩),
      .msg (.chanUpd ⟨3, false, false, 10, 40, 1, 4000, 1, 2, true, false, true, 1⟩),
      .msg (.chanUpd ⟨3, true, false, 99999, 40, 1, 4000, 1, 2, true, false, true, 2⟩)]
    let s : Impl.Snapshot := ⟨700000, none, [], [], 40, 1, 10, 20, 900000, [⟨3, 0, 0, 0, 0, 0, 0⟩, ⟨3, 1, 0, 0, 0, 0, 0⟩]⟩
    ((Impl.applySnapshot g s).1.channels.get 3).bind (fun c => c.d12.map (fun u => (u.lastUpdate, u.feeBase))) = some (95200, 10) ∧
    ((Impl.applySnapshot g s).1.channels.get 3).bind (fun c => c.d21.map (fun u => (u.lastUpdate, u.feeBase))) = some (99999, 1) := by
  decide

/-- COUNTER-EXAMPLE (replayed on the real code by the harness, phase E2): a snapshot DOES resurrect a
    channel that was permanently failed moments ago. `add_channel_from_partial_announcement` has no
    tombstone test: the very announcement the P2P path refuses as `RecentlyRemoved` re-enters the graph
    through a snapshot, while the tombstone is still on record. -/
theorem rgs_resurrects_tombstoned_channel :
    ∃ (g : Graph) (a : ChanAnn) (s : Impl.Snapshot),
      g.channels.get a.scid = none ∧ g.removedChannels.contains a.scid = true ∧
      (Impl.applyChanAnn g a).2 = .reject .recentlyRemoved ∧
      (Impl.applySnapshot g s).2 = .done ∧
      ((Impl.applySnapshot g s).1.channels.get a.scid).isSome = true ∧
      (Impl.applySnapshot g s).1.removedChannels.contains a.scid = true :=
  ⟨Impl.run Graph.empty [.msg (.chanAnn ⟨3, 1, 2, false, true, true, true, true, true, true, .noLookup, 100⟩), .failPermanent 3 100],
   ⟨3, 1, 2, false, true, true, true, true, true, true, .noLookup, 100⟩,
   ⟨700000, none, [], [⟨3, none, 1, 2⟩], 40, 1, 10, 20, 900000, []⟩,
   by decide, by decide, by decide, by decide, by decide, by decide⟩

/-- COUNTER-EXAMPLE (replayed on the real code, phase E3): snapshots and P2P messages do NOT commute even
    when all timestamps differ. An *incremental* snapshot update inherits the unnamed fields from whatever
    the graph stores at that moment: delivered after an older P2P update it keeps that update's fee,
    delivered before it keeps the previous fee (and the P2P update is then refused as older). -/
theorem rgs_incremental_order_dependent :
    ∃ (g : Graph) (u : ChanUpd) (s : Impl.Snapshot),
      ((Impl.applySnapshot (Impl.applyChanUpd g u).1 s).1.channels.get 3).bind (fun c => c.d12.map (·.feeBase)) = some 2 ∧
      ((Impl.applyChanUpd (Impl.applySnapshot g s).1 u).1.channels.get 3).bind (fun c => c.d12.map (·.feeBase)) = some 1 ∧
      u.ts < Gen.rgsBackdated s.latestSeen :=
  ⟨Impl.run Graph.empty [.msg (.chanAnn ⟨3, 1, 2, false, true, true, true, true, true, true, .noLookup, 100⟩),
      .msg (.chanUpd ⟨3, false, false, 10, 40, 1, 4000, 1, 2, true, false, true, 1⟩)],
   ⟨3, false, false, 15, 40, 1, 4000, 2, 2, true, false, true, 1⟩,
   ⟨700000, none, [], [], 40, 1, 10, 20, 900000, [⟨3, 192, 144, 0, 0, 0, 0⟩]⟩,
   by decide, by decide, by decide⟩

/-! ## asynchronous UTXO lookups (routing/utxo.rs: UtxoResult::Async, UtxoFuture, PendingChecks)

`Async.State` = the graph + the pending lookups with what is parked in them; `Async.step` = one delivery (which
first passes the pending-lookup layer: refused, PARKED or handed to the graph handler), one announcement whose
lookup answers `UtxoResult::Async`, one `UtxoFuture::resolve`, or one `check_resolved_futures`
(Model/GossipAsync.lean — what the driver runs in every phase). -/

open Async in
/-- AUTHENTICITY UNDER ANY INTERLEAVING of deliveries (valid, wrongly signed, re-signed, duplicated, …),
    asynchronous lookups, their resolutions (success or failure, in any order, repeated) and
    `check_resolved_futures` calls, from the empty state: the graph is only ever changed by non-message
    operations and by handing a message that WAS DELIVERED — unchanged: same verify request, same signer /
    signature flags; an announcement with the lookup's answer and the receipt time filled in — to the graph
    handler `Impl.applyMsg`, and every such application that was asked to verify and changed the graph had all its
    signatures valid against the graph at that very moment (`Reach`, Proofs/GossipAsync.lean).
    In particular a parked message is replayed through the SIGNATURE-VERIFYING entry point: the proof uses
    `Gen.replayFullUpdVerifies = true`, generated from the text of utxo.rs::resolve_single_future. -/
theorem async_accepted_implies_verified (ops : List AOp) :
    Reach (Delivered (delivered ops)) Graph.empty (Async.run State.empty ops).g :=
  (run_ok ops _ Graph.empty State.empty (fun _ h => h)
    ⟨(by intro p hp; cases hp), Reach.refl _⟩).2

open Async in
/-- One step from ANY state (reachable or not) whose parked messages all satisfy `P`: the graph moves only by
    applications of the step's own message or of parked messages, each verified when verification was requested. -/
theorem async_step_accepted_implies_verified (P : Msg → Prop) (s : State) (op : AOp) (hs : HeldOk P s)
    (hm : ∀ m, op = .base (.msg m) → P m)
    (ha : ∀ a fid, op = .annAsync a fid → ∀ r now, P (.chanAnn (reAnswer a r now))) :
    HeldOk P (Async.step s op).1 ∧ Reach P s.g (Async.step s op).1.g :=
  step_ok op hm ha ⟨hs, Reach.refl _⟩

/-- what `Reach` gives for each single application: the statement of `accepted_implies_verified` -/
theorem async_reach_last_application (P : Msg → Prop) (g g' : Graph) (m : Msg) (_h : Async.Reach P g g')
    (hv : verifyRequested m = true) (hch : (Impl.applyMsg g' m).1 ≠ g') : msgVerified g' m := by
  rw [Impl.applyMsg_eq] at hch
  exact applyMsg_changed_verified g' m hv hch

/-- non-vacuity: an update parked while the lookup was pending lands in the graph when the lookup resolves — and
    the same update signed by the other node does not (the seeded change C17-r4 makes it land) -/
example :
    let a : ChanAnn := ⟨7, 1, 2, false, true, true, true, true, true, true, .unknownTx, 100⟩
    let good : ChanUpd := ⟨7, false, false, 10, 40, 1, 1000, 1, 2, true, false, true, 1⟩
    let forged : ChanUpd := { good with signer := 2 }
    let run := fun (u : ChanUpd) => Async.run Async.State.empty
      [.annAsync a 1, .base (.msg (.chanUpd u)), .resolve 1 (.value 1000), .process 100]
    (Async.step (Async.run Async.State.empty [.annAsync a 1]) (.base (.msg (.chanUpd forged)))).2 = .reject .awaitingChanUpd ∧
    (((run good).g.channels.get 7).bind (fun c => c.d12.map (·.lastUpdate))) = some 10 ∧
    (((run forged).g.channels.get 7).map (fun c => c.d12.isSome)) = some false ∧
    (run good).pend.length = 0 := by decide

/-- Which entry points verify BEFORE a message can be parked (generated from the statement order in gossip.rs):
    a channel_announcement and a node_announcement are parked only after their signatures were checked; a
    channel_update is parked WITHOUT any signature check (its key is not known yet) — the replay is its only check.
    `update_channel` (the replay's entry point) passes the signature on. -/
theorem async_verify_before_parking :
    Gen.parkChanAnnAfterSigCheck = true ∧ Gen.holdNodeAnnAfterSigCheck = true ∧ Gen.holdUpdAfterSigCheck = false ∧
    Gen.replayFullUpdVerifies = true ∧ Gen.replayFullUpdStores = true ∧ Gen.updateChannelVerifies = true := by decide

example : Gen.holdUpdAfterSigCheck = false := by decide

/-- Parking rules as coded: an update goes to slot a iff `channel_flags & 1 = 1`, a node announcement to slot a iff
    the node is `node_id_1` of the parked announcement; a slot keeps the FIRST message with the LARGEST timestamp
    (a later message replaces it only with a strictly larger timestamp) — whoever signed it. -/
theorem async_parking_rules (p : Async.Pending) (u : ChanUpd) (n : NodeAnn) :
    (Async.holdUpd p u = if u.dir then
        (if (match p.cuA.map (·.ts) with | none => true | some t => decide (t < u.ts)) then { p with cuA := some u } else p)
      else (if (match p.cuB.map (·.ts) with | none => true | some t => decide (t < u.ts)) then { p with cuB := some u } else p)) ∧
    (Async.holdNode p n = if p.ann.n1 = n.node then
        (if (match p.naA.map (·.ts) with | none => true | some t => decide (t < n.ts)) then { p with naA := some n } else p)
      else (if (match p.naB.map (·.ts) with | none => true | some t => decide (t < n.ts)) then { p with naB := some n } else p)) := by
  constructor
  · simp only [Async.holdUpd, Async.gen_holdUpdIsA, Async.gen_holdUpdReplaces]
    cases u.dir <;> rfl
  · simp only [Async.holdNode, Async.gen_holdNodeIsA, Async.gen_holdNodeReplaces, decide_eq_true_eq]
    split <;> rfl

example : (Async.holdUpd ⟨1, ⟨7, 1, 2, false, true, true, true, true, true, true, .unknownTx, 100⟩, none, none, none,
      some ⟨7, true, false, 10, 40, 1, 1000, 1, 2, true, false, true, 2⟩, none⟩
    ⟨7, true, false, 10, 41, 1, 1000, 9, 2, true, false, true, 2⟩).cuA.map (·.feeBase) = some 1 := by decide

/-- The pending-lookup limit: back-pressure is signalled exactly when more than 32 SCIDs have a live pending lookup. -/
theorem async_too_many_checks (s : Async.State) : Async.tooMany s = decide (s.chans.length > 32) := rfl

example : Async.tooMany ⟨Graph.empty, [], (List.range 33).map (fun i => (i, i))⟩ = true := by decide

/-- Without a pending lookup the layer is transparent: every delivery is exactly the synchronous model's. -/
theorem async_transparent_without_pending (g : Graph) (cs : List (Nat × Nat)) (m : Msg) :
    Async.deliver ⟨g, [], cs⟩ m = (⟨(Impl.applyMsg g m).1, [], cs⟩, (Impl.applyMsg g m).2) :=
  Async.deliver_nopending g cs m

example : (Async.deliver Async.State.empty (.chanAnn ⟨7, 1, 2, false, true, true, true, true, true, true, .noLookup, 100⟩)).2 = .accept := by
  decide

/-- SYNC vs ASYNC, no message in the window: an announcement whose lookup is answered asynchronously and
    resolved later gives — once `check_resolved_futures` ran — exactly the state the synchronous answer gives,
    with the receipt time being the time of the resolution. From ANY graph, for any announcement (valid or not) and
    any answer. -/
theorem async_equals_sync_empty_window (g : Graph) (a : ChanAnn) (fid : Nat) (r : Utxo) (now : Nat) (hr : r ≠ .noLookup) :
    (Async.run ⟨g, [], []⟩ [.annAsync a fid, .resolve fid r, .process now]).g =
    (Async.run ⟨g, [], []⟩ [.base (.msg (.chanAnn (Async.reAnswer a r now)))]).g ∧
    (Async.run ⟨g, [], []⟩ [.annAsync a fid, .resolve fid r, .process now]).pend = [] := by
  have hpre : ∀ u : Utxo, u ≠ .noLookup → Impl.chanAnnPre g { a with utxo := u } = Impl.chanAnnPre g { a with utxo := .unknownTx } := by
    intro u hu; cases u <;> first | exact absurd rfl hu | rfl
  have hgate : ∀ now', Async.annGate g { a with utxo := r, now := now' } = Async.annGate g { a with utxo := .unknownTx } := by
    intro now'
    have h1 : Impl.chanAnnPre g { a with utxo := r, now := now' } = Impl.chanAnnPre g { a with utxo := .unknownTx } := by
      cases r <;> first | exact absurd rfl hr | rfl
    simp only [Async.annGate, h1]; rfl
  simp only [Async.run, List.foldl_cons, List.foldl_nil, Async.step, Async.deliver, Async.deliverChanAnn, Async.annAsync,
    Async.alreadyChecking, Async.chanPending_nil]
  cases hg : Async.annGate g { a with utxo := .unknownTx } with
  | some rj =>
    have hg' := hgate now
    simp only [Async.reAnswer, hg', hg]
    simp [Async.resolve, Async.process]
  | none =>
    have hg' := hgate now
    simp only [Async.reAnswer, hg', hg]
    simp [Async.resolve, Async.process, Async.setChan, Async.replayOne, Async.replayAnn, Async.replayNodes,
      Async.replayUpds, Async.note, Async.deliverChanAnn, Async.alreadyChecking, Async.chanPending, hg', hg]

example : (Async.run ⟨Graph.empty, [], []⟩ [.annAsync ⟨7, 1, 2, false, true, true, true, true, true, true, .unknownTx, 0⟩ 1,
    .resolve 1 (.value 1000), .process 100]).g.channels.get 7 =
    some ⟨1, 2, some 1000, none, none, 100, true⟩ := by decide

/-- DOCUMENTED DIFFERENCE 1 (the code comment "may cause us to end up dropping valid channel_updates if a peer is
    malicious"): while the lookup is pending a slot keeps only the message with the largest timestamp and nothing is
    verified, so a WRONGLY SIGNED update with a larger timestamp shadows a valid one — in either arrival order.
    With the synchronous answer the valid update is stored; with the asynchronous one the direction stays empty
    (the forged update itself is refused at the replay). -/
theorem async_drops_valid_update_behind_forged_newer :
    ∃ (a : ChanAnn) (good forged : ChanUpd),
      forged.ts > good.ts ∧
      ((Async.run Async.State.empty [.base (.msg (.chanAnn (Async.reAnswer a (.value 1000) 100))), .base (.msg (.chanUpd good)),
          .base (.msg (.chanUpd forged))]).g.channels.get a.scid).bind (fun c => c.d12.map (·.lastUpdate)) = some good.ts ∧
      ((Async.run Async.State.empty [.annAsync a 1, .base (.msg (.chanUpd good)), .base (.msg (.chanUpd forged)),
          .resolve 1 (.value 1000), .process 100]).g.channels.get a.scid).map (fun c => c.d12.isSome) = some false ∧
      ((Async.run Async.State.empty [.annAsync a 1, .base (.msg (.chanUpd forged)), .base (.msg (.chanUpd good)),
          .resolve 1 (.value 1000), .process 100]).g.channels.get a.scid).map (fun c => c.d12.isSome) = some false :=
  ⟨⟨7, 1, 2, false, true, true, true, true, true, true, .unknownTx, 100⟩,
   ⟨7, false, false, 10, 40, 1, 1000, 1, 2, true, false, true, 1⟩,
   ⟨7, false, false, 11, 40, 1, 1000, 1, 2, true, false, true, 2⟩, by decide, by decide, by decide, by decide⟩

/-- DOCUMENTED DIFFERENCE 2: the same for an update whose `htlc_maximum_msat` exceeds the capacity the lookup will
    report (not checkable while pending): it shadows an older acceptable update and is refused at the replay. -/
theorem async_drops_valid_update_behind_oversized_newer :
    ∃ (a : ChanAnn) (good big : ChanUpd),
      ((Async.run Async.State.empty [.base (.msg (.chanAnn (Async.reAnswer a (.value 5) 100))), .base (.msg (.chanUpd good)),
          .base (.msg (.chanUpd big))]).g.channels.get a.scid).bind (fun c => c.d12.map (·.lastUpdate)) = some good.ts ∧
      ((Async.run Async.State.empty [.annAsync a 1, .base (.msg (.chanUpd good)), .base (.msg (.chanUpd big)),
          .resolve 1 (.value 5), .process 100]).g.channels.get a.scid).map (fun c => c.d12.isSome) = some false :=
  ⟨⟨7, 1, 2, false, true, true, true, true, true, true, .unknownTx, 100⟩,
   ⟨7, false, false, 10, 40, 1, 1000, 1, 2, true, false, true, 1⟩,
   ⟨7, false, false, 11, 40, 1, 6000, 1, 2, true, false, true, 1⟩, by decide, by decide⟩

/-- DOCUMENTED DIFFERENCE 3: a second, different announcement of the same SCID takes over the SCID's parking slot:
    updates parked afterwards follow the LATEST pending lookup, and once that one is resolved, updates for the SCID
    are refused as `unknownChannel` again although the first lookup is still pending. -/
theorem async_second_lookup_takes_over_the_scid :
    ∃ (a b : ChanAnn) (u : ChanUpd), a.scid = b.scid ∧
      (Async.step (Async.run Async.State.empty [.annAsync a 1, .annAsync b 2, .resolve 2 .unknownTx, .process 100])
        (.base (.msg (.chanUpd u)))).2 = .reject .unknownChannel ∧
      (Async.run Async.State.empty [.annAsync a 1, .annAsync b 2, .resolve 2 .unknownTx, .process 100]).pend.length = 1 :=
  ⟨⟨7, 1, 2, false, true, true, true, true, true, true, .unknownTx, 100⟩,
   ⟨7, 1, 3, false, true, true, true, true, true, true, .unknownTx, 100⟩,
   ⟨7, false, false, 10, 40, 1, 1000, 1, 2, true, false, true, 1⟩, rfl, by decide, by decide⟩



open Async in
/-- SYNC vs ASYNC, a whole window. One announcement `a` (valid or not) whose lookup is answered asynchronously
    with `r` at any later point; in between, ANY number of messages `ms` arrive:
    channel updates of other channels and node announcements of other nodes (applied at once), updates of the
    pending channel — correctly signed, WRONGLY SIGNED, re-signed, above the capacity the lookup will report — and
    node announcements of its two endpoints (parked, replayed at the resolution). Then the graph after
    `check_resolved_futures` equals the graph obtained when the lookup answers `r` synchronously and the same
    messages follow in the same order (receipt time of the announcement = time of the resolution).
    `_partial`, hypotheses (what is missing for the unrestricted statement):
    * `Fresh a g`: the graph knows neither the SCID nor the two nodes when the lookup starts (otherwise updates /
      node announcements are applied to the existing entries instead of being parked);
    * `WinOk`: no channel announcement inside the window; an update of the pending channel passes the three
      graph-independent checks (dont_forward, chain hash, htlc_maximum ≤ 21M BTC) and a signed node announcement
      of an endpoint verifies — those that do not are refused at once in both runs;
    * `NoContention`: every parked message finds its slot (update: direction; node announcement: endpoint) EMPTY.
      With two messages in one slot only the one with the largest timestamp is kept and the statement is FALSE
      when that one is then refused: `async_drops_valid_update_behind_forged_newer`,
      `async_drops_valid_update_behind_oversized_newer` (the harness compares both runs for all-valid scripts with
      contention, phase G);
    * `NoConflict ms`: no two different window messages with the same slot and timestamp. -/
theorem async_equals_sync_window_partial (g : Graph) (a : ChanAnn) (fid : Nat) (r : Utxo) (now : Nat) (ms : List Msg)
    (hr : r ≠ .noLookup) (hf : Fresh a g) (hw : ∀ m ∈ ms, WinOk a m)
    (hc : NoContention a ⟨fid, a, none, none, none, none, none⟩ ms) (hnc : NoConflict ms) :
    (Async.run ⟨g, [], []⟩ (.annAsync a fid :: (winOps ms ++ [.resolve fid r, .process now]))).g =
    (Async.run ⟨g, [], []⟩ (.base (.msg (.chanAnn (reAnswer a r now))) :: winOps ms)).g :=
  window_equiv g a fid r now ms hr hf hw hc hnc

/-- non-vacuity: a window with a valid update, a wrongly signed update of the other direction, a node
    announcement of an endpoint and an update of another (known) channel; something is parked, something lands -/
example :
    let g := Impl.run Graph.empty [.msg (.chanAnn ⟨3, 4, 5, false, true, true, true, true, true, true, .noLookup, 50⟩)]
    let a : ChanAnn := ⟨7, 1, 2, false, true, true, true, true, true, true, .unknownTx, 100⟩
    let ms : List Msg := [.chanUpd ⟨7, false, false, 10, 40, 1, 1000, 1, 2, true, false, true, 1⟩,
      .chanUpd ⟨3, false, false, 12, 40, 1, 1000, 1, 2, true, false, true, 4⟩,
      .chanUpd ⟨7, true, false, 11, 40, 1, 1000, 1, 2, true, false, true, 1⟩,
      .nodeAnn ⟨2, 9, 77, true, true⟩]
    Async.Fresh a g ∧ (∀ m ∈ ms, Async.WinOk a m) ∧ Async.NoContention a ⟨1, a, none, none, none, none, none⟩ ms ∧ NoConflict ms ∧
    ((Async.run ⟨g, [], []⟩ (.annAsync a 1 :: (Async.winOps ms ++ [.resolve 1 (.value 1000), .process 100]))).g.channels.get 7).map
      (fun c => (c.d12.map (·.lastUpdate), c.d21.isSome)) = some (some 10, false) := by
  refine ⟨⟨by decide, rfl, rfl⟩, ?_, by simp only [Async.NoContention]; decide, by unfold NoConflict; decide, by decide⟩
  intro m hm
  simp only [List.mem_cons, List.mem_nil_iff, or_false] at hm
  rcases hm with rfl | rfl | rfl | rfl <;> simp [Async.WinOk, globalOk, nodeStaticOk] <;> decide



/-- The node-announcement half of `rgs_never_replaces_newer`: a snapshot applied on top of ANY graph never replaces
    a stored node announcement (timestamp, payload, relay flag) by older or equally old data — for every node entry
    that is there before and after, the stored `NodeAnnInfo` is untouched or replaced by one with a strictly larger
    timestamp (the synthetic announcement of a "modified" node carries the backdated snapshot time). -/
theorem rgs_never_replaces_newer_node_announcement (g : Graph) (s : Impl.Snapshot) (id : Nat) (ni ni' : NodeInfo)
    (h : g.nodes.get id = some ni) (h' : (Impl.applySnapshot g s).1.nodes.get id = some ni') :
    annMono ni.ann ni'.ann :=
  Impl.snapshot_annMono g s id ni ni' h h'

/-- non-vacuity: the reminder bit (64) of node 1 replaces an older signed node announcement (keeping its payload) and
    leaves a newer one alone -/
example :
    let mk := fun (ts : Nat) => Impl.run Graph.empty [.msg (.chanAnn ⟨3, 1, 2, false, true, true, true, true, true, true, .noLookup, 100⟩),
      .msg (.nodeAnn ⟨1, ts, 4242, true, true⟩)]
    let s : Impl.Snapshot := ⟨700000, none, [⟨1, 66⟩], [], 40, 1, 10, 20, 900000, []⟩
    (((Impl.applySnapshot (mk 10) s).1.nodes.get 1).bind (fun n => n.ann)) = some ⟨95200, 4242, false⟩ ∧
    (((Impl.applySnapshot (mk 99999) s).1.nodes.get 1).bind (fun n => n.ann)) = some ⟨99999, 4242, true⟩ := by decide

/-! ## persistence (`NetworkGraph::write` / `read`) — Model/GossipPersist.lean -/

/-- THE GRAPH SURVIVES SERIALIZATION: writing any graph and reading it back rebuilds every channel entry
    (endpoints, capacity, both directions with all their fields and the presence of the signed update, receipt
    time, presence of the signed announcement) and every node entry (channel set, announcement with timestamp,
    payload and `Relayed`/`Local`) EXACTLY — and NOTHING of the tombstones `removed_channels` / `removed_nodes`,
    which `write` does not emit and `read` initialises empty. The read fails (`InvalidValue`) exactly when some
    channel endpoint has no node entry. -/
theorem graph_survives_restart (g : Graph) :
    Persist.restart g = if Persist.Consistent g then some (Persist.stripTombstones g) else none :=
  Persist.restart_eq g

theorem graph_survives_restart_fields (g g' : Graph) (h : Persist.restart g = some g') :
    g'.channels = g.channels ∧ g'.nodes = g.nodes ∧ g'.removedChannels = SMap.empty ∧ g'.removedNodes = SMap.empty := by
  rw [graph_survives_restart] at h
  split at h
  · simp only [Option.some.injEq] at h; subst h; exact ⟨rfl, rfl, rfl, rfl⟩
  · cases h

example : ∃ g g', Persist.restart g = some g' ∧ g'.channels.size = 1 ∧ g.removedChannels.size = 1 :=
  ⟨Impl.run Graph.empty [.msg (.chanAnn ⟨7, 1, 2, false, true, true, true, true, true, true, .value 1000, 100⟩),
      .msg (.chanUpd ⟨7, false, false, 10, 40, 1, 1000, 1, 2, true, false, true, 1⟩),
      .msg (.chanAnn ⟨8, 1, 3, false, true, true, true, true, true, true, .noLookup, 100⟩), .failPermanent 8 100], _,
    rfl, by decide, by decide⟩

/-- WHAT THAT MEANS FOR "rejects re-announcement": the refusal of a recently removed channel / node does not survive
    a restart — after `read(write(g))` NO announcement is refused as `recentlyRemoved` any more … -/
theorem tombstones_forgotten_by_restart (g g' : Graph) (h : Persist.restart g = some g') (a : ChanAnn) :
    (Impl.applyChanAnn g' a).2 ≠ .reject .recentlyRemoved := by
  obtain ⟨_, _, h3, h4⟩ := graph_survives_restart_fields g g' h
  rw [Impl.applyChanAnn_eq]
  unfold applyChanAnn
  have hc : ∀ k, g'.removedChannels.contains k = false := by intro k; rw [h3]; rfl
  have hn : ∀ k, g'.removedNodes.contains k = false := by intro k; rw [h4]; rfl
  split
  · rename_i r hr
    intro e
    simp only [Outcome.reject.injEq] at e
    subst e
    unfold chanAnnPre at hr
    repeat' split at hr
    all_goals first | cases hr | skip
  · simp only [hc, hn, Bool.or_self, Bool.false_eq_true, if_false]
    split
    · intro e; cases e
    · split
      · intro e; cases e
      · unfold addChannelBetweenNodes; repeat' split
        all_goals intro e; cases e
      · unfold addChannelBetweenNodes; repeat' split
        all_goals intro e; cases e

/-- … concretely: a channel reported permanently failed is refused before the restart and accepted again right after it. -/
theorem reannouncement_accepted_after_restart :
    ∃ (g g' : Graph) (a : ChanAnn), (Impl.applyChanAnn g a).2 = .reject .recentlyRemoved ∧
      Persist.restart g = some g' ∧ (Impl.applyChanAnn g' a).2 = .accept :=
  ⟨Impl.run Graph.empty [.msg (.chanAnn ⟨8, 1, 3, false, true, true, true, true, true, true, .noLookup, 100⟩), .failPermanent 8 100], _,
   ⟨8, 1, 3, false, true, true, true, true, true, true, .noLookup, 100⟩, by decide, rfl, by decide⟩

/-- the TLV type ↦ struct member map of the five persisted gossip structures, as translated from the
    `write_tlv_fields!` / `read_tlv_fields!` blocks of gossip.rs on every run — the field names of
    Model/GossipPersist.lean (`t<type>_<member>`) follow this table (features, alias, addresses, the
    rapid-gossip-sync timestamp and the legacy `lowest_inbound_channel_fees` are opaque to the model) -/
theorem persisted_fields_exact : Gen.persistedFields = [
    ("ChannelUpdateInfo.write", 0, "self.last_update", "required"), ("ChannelUpdateInfo.write", 2, "self.enabled", "required"),
    ("ChannelUpdateInfo.write", 4, "self.cltv_expiry_delta", "required"), ("ChannelUpdateInfo.write", 6, "self.htlc_minimum_msat", "required"),
    ("ChannelUpdateInfo.write", 8, "Some(self.htlc_maximum_msat)", "required"), ("ChannelUpdateInfo.write", 10, "self.fees", "required"),
    ("ChannelUpdateInfo.write", 12, "self.last_update_message", "required"),
    ("ChannelUpdateInfo.read", 0, "last_update", "required"), ("ChannelUpdateInfo.read", 2, "enabled", "required"),
    ("ChannelUpdateInfo.read", 4, "cltv_expiry_delta", "required"), ("ChannelUpdateInfo.read", 6, "htlc_minimum_msat", "required"),
    ("ChannelUpdateInfo.read", 8, "htlc_maximum_msat", "required"), ("ChannelUpdateInfo.read", 10, "fees", "required"),
    ("ChannelUpdateInfo.read", 12, "last_update_message", "required"),
    ("ChannelInfo.write", 0, "self.features", "required"), ("ChannelInfo.write", 1, "self.announcement_received_time", "(default_value, 0)"),
    ("ChannelInfo.write", 2, "self.node_one", "required"), ("ChannelInfo.write", 4, "self.one_to_two", "required"),
    ("ChannelInfo.write", 6, "self.node_two", "required"), ("ChannelInfo.write", 8, "self.two_to_one", "required"),
    ("ChannelInfo.write", 10, "self.capacity_sats", "required"), ("ChannelInfo.write", 12, "self.announcement_message", "required"),
    ("ChannelInfo.read", 0, "features", "required"), ("ChannelInfo.read", 1, "announcement_received_time", "(default_value, 0)"),
    ("ChannelInfo.read", 2, "node_one", "required"), ("ChannelInfo.read", 4, "one_to_two_wrap", "upgradable_option"),
    ("ChannelInfo.read", 6, "node_two", "required"), ("ChannelInfo.read", 8, "two_to_one_wrap", "upgradable_option"),
    ("ChannelInfo.read", 10, "capacity_sats", "required"), ("ChannelInfo.read", 12, "announcement_message", "required"),
    ("NodeAnnouncementInfo.write", 0, "features", "required"), ("NodeAnnouncementInfo.write", 2, "last_update", "required"),
    ("NodeAnnouncementInfo.write", 4, "rgb", "required"), ("NodeAnnouncementInfo.write", 6, "alias", "required"),
    ("NodeAnnouncementInfo.write", 8, "announcement_message", "option"), ("NodeAnnouncementInfo.write", 10, "*addresses", "required_vec"),
    ("NodeAnnouncementInfo.read", 0, "features", "required"), ("NodeAnnouncementInfo.read", 2, "last_update", "required"),
    ("NodeAnnouncementInfo.read", 4, "rgb", "required"), ("NodeAnnouncementInfo.read", 6, "alias", "required"),
    ("NodeAnnouncementInfo.read", 8, "announcement_message", "option"), ("NodeAnnouncementInfo.read", 10, "addresses", "required_vec"),
    ("NodeInfo.write", 2, "self.announcement_info", "option"), ("NodeInfo.write", 4, "self.channels", "required_vec"),
    ("NodeInfo.read", 0, "_lowest_inbound_channel_fees", "option"), ("NodeInfo.read", 2, "announcement_info_wrap", "upgradable_option"),
    ("NodeInfo.read", 4, "channels", "required_vec"),
    ("NetworkGraph.write", 1, "last_rapid_gossip_sync_timestamp", "option"), ("NetworkGraph.read", 1, "last_rapid_gossip_sync_timestamp", "option")] := by
  decide

/-- the TLV types a block of C12's table (Generated/TlvSchemas.lean, regenerated by tools/gen_tlv_schemas.py) declares -/
def c12Types (n : String) : List Nat :=
  ((Ldk.TlvFrame.Gen.generatedTlvSchemas.find? (fun s => s.name == n)).map (fun s => s.types)).getD []

/-- the types of this vertical's table for one block -/
def c17Types (b : String) : List Nat := (Gen.persistedFields.filter (fun e => e.1 == b)).map (fun e => e.2.1)

/-- TIE TO C12: block by block, the TLV type numbers of this model are those of C12's frame schemas (about which
    C12 proves the byte-level framing theorems: round trip, ordering, unknown even/odd types, missing required) -/
theorem persisted_types_match_c12 :
    c17Types "ChannelUpdateInfo.write" = c12Types "ChannelUpdateInfo.write.w0" ∧ c17Types "ChannelUpdateInfo.read" = c12Types "ChannelUpdateInfo.read.r0" ∧
    c17Types "ChannelInfo.write" = c12Types "ChannelInfo.write.w0" ∧ c17Types "ChannelInfo.read" = c12Types "ChannelInfo.read.r0" ∧
    c17Types "NodeAnnouncementInfo.write" = c12Types "NodeAnnouncementInfo.write.w0" ∧ c17Types "NodeAnnouncementInfo.read" = c12Types "NodeAnnouncementInfo.read.r0" ∧
    c17Types "NodeInfo.write" = c12Types "NodeInfo.write.w0" ∧ c17Types "NodeInfo.read" = c12Types "NodeInfo.read.r0" ∧
    c17Types "NetworkGraph.write" = c12Types "NetworkGraph.write.w0" ∧ c17Types "NetworkGraph.read" = c12Types "NetworkGraph.read.r0" ∧
    c17Types "ChannelInfo.write" = [0, 1, 2, 4, 6, 8, 10, 12] := by
  decide +kernel



/-! ## arrival order of `NodeInfo.channels` (Model/GossipOrder.lean — what the driver prints in the synchronous phases) -/

/-- The ordered list the driver carries for a node always lists exactly the node's channel SET of the graph model
    (whatever the previous list and the replaced SCID): the order is extra information on top of the model, never a
    different set of channels. -/
theorem order_lists_the_channel_set (old : List Nat) (newSet : SMap Unit) (moved : Option Nat) (s : Nat) :
    s ∈ Order.orderNode old newSet moved ↔ newSet.contains s = true := by
  unfold Order.orderNode
  simp only [List.mem_append, List.mem_filter, Bool.and_eq_true, Bool.not_eq_true']
  constructor
  · rintro (⟨_, h, _⟩ | ⟨h, _⟩)
    · exact h
    · exact (SMap.mem_keys_iff newSet s).mp h
  · intro h
    have hk : s ∈ newSet.keys := (SMap.mem_keys_iff newSet s).mpr h
    by_cases hc : (List.filter (fun s => newSet.contains s && !(some s == moved)) old).contains s = true
    · left
      have := List.contains_iff_mem.mp hc
      simpa [List.mem_filter] using this
    · right
      exact ⟨hk, by simpa using hc⟩

/-- a replaced SCID moves to the end of the list of a node that stays an endpoint (`retain`, then `push`) -/
example : Order.orderNode [5, 7, 9] ((SMap.empty.insert 5 ()).insert 7 () |>.insert 9 ()) (some 7) = [5, 9, 7] := by decide



/-- COUNTER-EXAMPLE (replayed on the real code, phase E4): with the final pruning (a clock is supplied) a snapshot
    applied TWICE is NOT idempotent. The graph holds channel 3, announced long ago, both directions stale. The
    snapshot lists the channel and refreshes ONE direction incrementally: the first application prunes the channel
    (the other direction is stale, the announcement old) and tombstones it; the second application re-creates it from
    the snapshot's announcement — `add_channel_from_partial_announcement` has no tombstone test — with the backdated
    receipt time, which is recent enough to survive the pruning: a channel entry without any direction that the
    first application did not leave behind. (Without the final pruning a snapshot IS idempotent:
    `rgs_idempotent_without_pruning`; implementation oracle of phase E1.) -/
theorem rgs_snapshot_with_pruning_not_idempotent :
    ∃ (g : Graph) (s : Impl.Snapshot),
      ((Impl.applySnapshot g s).1.channels.get 3).isNone = true ∧
      (Impl.applySnapshot g s).1.removedChannels.contains 3 = true ∧
      ((Impl.applySnapshot (Impl.applySnapshot g s).1 s).1.channels.get 3).map (fun c => (c.d12.isSome, c.d21.isSome)) = some (false, false) :=
  ⟨Impl.run Graph.empty [.chanPartial 3 none 100 1 2,
      .msg (.chanUpd ⟨3, false, false, 10, 40, 1, 4000, 1, 2, true, false, false, 0⟩),
      .msg (.chanUpd ⟨3, true, false, 10, 40, 1, 4000, 1, 2, true, false, false, 0⟩)],
   ⟨2900000, some 3000000, [], [⟨3, none, 1, 2⟩], 40, 1, 10, 20, 900000, [⟨3, 128, 0, 0, 0, 0, 0⟩]⟩,
   by decide, by decide, by decide⟩



/-- DOCUMENTED DIFFERENCE 4: a lookup that FAILS still replays what was parked in it. A node announcement parked in
    the failed lookup of channel 3 lands in the graph at the resolution because the node became known through
    another channel (2) in the meantime; with the synchronous (failing) answer it was refused on arrival
    (`noChannelsForNode`) and is never seen again. Both graphs hold only authentic data. -/
theorem async_failed_lookup_still_replays_parked :
    ∃ (a b : ChanAnn) (n : NodeAnn),
      (((Async.run Async.State.empty [.annAsync a 3, .base (.msg (.nodeAnn n)), .base (.msg (.chanAnn b)),
          .resolve 3 .unknownTx, .process 100]).g.nodes.get n.node).bind (fun x => x.ann)).isSome = true ∧
      (((Async.run Async.State.empty [.base (.msg (.chanAnn (Async.reAnswer a .unknownTx 100))), .base (.msg (.nodeAnn n)),
          .base (.msg (.chanAnn b))]).g.nodes.get n.node).bind (fun x => x.ann)).isSome = false :=
  ⟨⟨3, 4, 5, false, true, true, true, true, true, true, .unknownTx, 100⟩,
   ⟨2, 4, 5, false, true, true, true, true, true, true, .value 1000, 100⟩,
   ⟨4, 9, 77, true, true⟩, by decide, by decide⟩



/-- SNAPSHOT IDEMPOTENCE, exactly where it holds: whenever the final pruning does not run — no clock is supplied
    (`update_network_graph_no_std(.., None)`), or the snapshot carries no channel updates (processing.rs returns
    before the pruning) — a snapshot applied a second time, on top of ANY graph, changes nothing and answers the same:
    announcements are duplicates, node reminders and channel updates (full and incremental, whatever fields they
    would now inherit) meet the snapshot's own backdated timestamp and are refused as not newer. WITH the final pruning
    idempotence is FALSE: `rgs_snapshot_with_pruning_not_idempotent`. -/
theorem rgs_idempotent_without_pruning (g : Graph) (s : Impl.Snapshot) (h : s.now = none ∨ s.upds = []) :
    Impl.applySnapshot (Impl.applySnapshot g s).1 s = Impl.applySnapshot g s := by
  rcases h with h | h
  · exact Impl.snapshot_idem_no_clock g s h
  · exact Impl.snapshot_idem_no_updates g s h

/-- non-vacuity: an incremental and a full update land; applying the snapshot again changes nothing -/
example :
    let g := Impl.run Graph.empty [.msg (.chanAnn ⟨3, 1, 2, false, true, true, true, true, true, true, .noLookup, 100⟩),
      .msg (.chanUpd ⟨3, false, false, 10, 40, 1, 4000, 7, 2, true, false, true, 1⟩)]
    let s : Impl.Snapshot := ⟨700000, none, [⟨1, 66⟩], [⟨3, none, 1, 2⟩], 40, 1, 10, 20, 900000, [⟨3, 192, 144, 0, 0, 0, 0⟩, ⟨3, 1, 0, 0, 0, 0, 0⟩]⟩
    ((Impl.applySnapshot g s).1.channels.get 3).map (fun c => (c.d12.map (fun u => (u.lastUpdate, u.cltv, u.feeBase)), c.d21.map (·.feeBase)))
      = some (some (95200, 144, 7), some 10) := by decide

example : ∃ (g : Graph) (s : Impl.Snapshot), s.upds = [] ∧ (Impl.applySnapshot g s).1.channels.size = 2 ∧
    ((Impl.applySnapshot g s).1.nodes.get 1).bind (fun n => n.ann.map (·.lastUpdate)) = some 95200 :=
  ⟨Impl.run Graph.empty [.msg (.chanAnn ⟨3, 1, 2, false, true, true, true, true, true, true, .noLookup, 100⟩)],
   ⟨700000, none, [⟨1, 66⟩], [⟨3, none, 1, 2⟩, ⟨4, some 700, 2, 3⟩], 40, 1, 10, 20, 900000, []⟩, rfl, by decide, by decide⟩

end Ldk.C17
