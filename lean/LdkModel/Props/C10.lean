/- C10 — Restarting from persisted state is safe at every crash point.
   Property theorems only.  `reload` (Model/Restart.lean) is composed from predicates that are
   re-translated from `ChannelManager::from_channel_manager_data` on every run
   (Generated/Restart.lean).  Worlds are quantified in two ways: arbitrary `World`s (any numbers at
   all), and the worlds produced by the history generator `run` — every op list, every crash point
   (every prefix), every monitor copy `d` between the last update reported complete and the last one
   handed to chain::Watch, the manager on disk being whatever the last `persistManager` wrote (any lag),
   and crashes may themselves occur inside the run (repeated crashes).

   What is NOT proved here (validated by the scenario harness only): the ChannelManager-internal
   reconstruction of payments / claims / events from the monitors after a resume or a close. -/
import LdkModel.Proofs.Restart
namespace Ldk.C10
open Ldk.Restart

/-- the state reached by a run from a freshly opened channel -/
def reach (baseId : Nat) (base : Nums) (ops : List Op) : St := run (St.init baseId base) ops

/-- `reload_total`, world form: if every update the manager snapshot believes handed to chain::Watch is
    either in the monitor on disk or still listed in-flight in that snapshot, the read does not fail:
    `DecodeError::DangerousValue` is unreachable. -/
theorem reload_total_world (w : World) (h : Admissible w) : reload w ≠ .err := by
  unfold reload
  rw [not_dangerous_of_admissible w h]
  split <;> simp

/-- `reload_total`: for every run — every op list, including preimage updates that jump ahead of blocked
    updates and earlier crashes —, every crash point (the end of any op list), any manager lag and any
    subset of in-flight writes on disk (`durable ≤ d ≤ watch`). -/
theorem reload_total (baseId : Nat) (base : Nums) (ops : List Op) (d : Nat)
    (h1 : (reach baseId base ops).durable ≤ d) (_h2 : d ≤ (reach baseId base ops).watch) :
    reload ((reach baseId base ops).world d) ≠ .err :=
  reload_total_world _ (run_admissible0 _ (inv0_run _ (inv0_of_inv _ (inv_init baseId base)) ops) d h1)

/-- the node-level read (several channels) succeeds when every channel's world is admissible -/
theorem reload_node_total (ws : List World) (h : ∀ w ∈ ws, Admissible w) : reloadNode ws ≠ none := by
  unfold reloadNode
  have : (ws.map reload).any (fun r => r == .err) = false := by
    rw [List.any_eq_false]
    intro r hr
    obtain ⟨w, hw, rfl⟩ := List.mem_map.mp hr
    have := reload_total_world w (h w hw)
    simpa using this
  simp [this]

example : reload ((reach 0 ⟨9, 9, 9⟩ [.update ⟨1, 0, 0⟩ false, .update ⟨0, 1, 0⟩ false, .persistManager]).world 0)
    = .resumed [1, 2] := by decide
/-- the hypothesis is needed: a monitor older than an update the manager saw complete is refused -/
example : reload { mgr := ⟨2, 2, [], ⟨9, 9, 9⟩⟩, mon := ⟨1, ⟨9, 9, 9⟩⟩ } = .err := by decide

/-- `stale_manager_closes`: a monitor ahead of the manager snapshot in ANY of the four senses (holder
    commitment number, revoked counterparty number, counterparty commitment number — all counting down —
    or update id) makes the channel force-closed (OutdatedChannelManager); it is never resumed and the
    read does not fail because of it.  Every world, no hypothesis. -/
theorem stale_manager_closes (w : World)
    (h : w.mgr.nums.holder > w.mon.nums.holder ∨ w.mgr.nums.secret > w.mon.nums.secret ∨
         w.mgr.nums.cp > w.mon.nums.cp ∨ w.mgr.latestId < w.mon.id) :
    (∃ r c, reload w = .closed r c) ∧ (∀ r, reload w ≠ .resumed r) ∧ reload w ≠ .err := by
  have hs := (stale_iff w).mpr h
  refine ⟨(reload_closed_iff w).mpr hs, ?_, ?_⟩ <;> simp [reload, hs]

/-- ... and only then: a manager that is not behind its monitor in any of the four senses is not closed -/
theorem closed_only_if_stale (w : World) (r : List Nat) (c : Nat) (h : reload w = .closed r c) :
    w.mgr.nums.holder > w.mon.nums.holder ∨ w.mgr.nums.secret > w.mon.nums.secret ∨
    w.mgr.nums.cp > w.mon.nums.cp ∨ w.mgr.latestId < w.mon.id :=
  (stale_iff w).mp ((reload_closed_iff w).mp ⟨r, c, h⟩)

/-- PARTIAL (`NoJump`): proved for runs in which no preimage update jumps ahead of blocked updates
    (`Op.jump`: channel.rs renumbers the blocked updates' ids); with a jump between the manager write and the
    crash, manager and monitor can agree on an update id while disagreeing on the update's content, and the
    statement is false for the model and for the real code (KF-C10-3, example at the end of this file).
    In run worlds the channel is closed exactly when the monitor on disk contains an update the manager
    on disk never generated; nothing from the stale manager is replayed onto the newer monitor and the
    ChannelForceClosed update directly follows the monitor's own last update ("closed from the
    monitor's state"). -/
theorem stale_closes_from_monitor_partial (baseId : Nat) (base : Nums) (ops : List Op) (d : Nat)
    (hj : NoJump ops) (h1 : (reach baseId base ops).durable ≤ d) :
    ((∃ r c, reload ((reach baseId base ops).world d) = .closed r c) ↔ (reach baseId base ops).disk.latestId < d) ∧
    (∀ r c, reload ((reach baseId base ops).world d) = .closed r c → r = [] ∧ c = closeUpdateId d) := by
  have hI : Inv (reach baseId base ops) := inv_run _ (inv_init baseId base) ops hj
  generalize reach baseId base ops = st at *
  have hb : st.baseId ≤ d := Nat.le_trans hI.h1 h1
  refine ⟨by rw [reload_closed_iff, run_stale_iff st hI d hb], ?_⟩
  intro r c hr
  have hlt := (run_stale_iff st hI d hb).mp ((reload_closed_iff _).mp ⟨r, c, hr⟩)
  have hnil : replayList (st.world d).mgr.inFlight (st.world d).mon.id = [] := by
    rw [replayList_eq, List.filter_eq_nil_iff]
    intro i hi
    obtain ⟨a, _, hl⟩ := hI.d5
    simp only [St.world] at hi ⊢
    rw [hl, List.mem_range'_1] at hi
    have := hI.d2
    simp; omega
  unfold reload at hr
  rw [(reload_closed_iff _).mp ⟨r, c, hr⟩] at hr
  simp only [if_true, hnil, Outcome.closed.injEq] at hr
  refine ⟨hr.1.symm, ?_⟩
  rw [← hr.2]; simp [closeIdAfter, St.world]

example : reload ((reach 0 ⟨9, 9, 9⟩ [.persistManager, .update ⟨1, 0, 0⟩ false, .complete 1]).world 1)
    = .closed [] 2 := by decide
/-- stale in a commitment-number sense only (ids equal) also closes -/
example : reload { mgr := ⟨3, 3, [], ⟨9, 8, 9⟩⟩, mon := ⟨3, ⟨9, 7, 9⟩⟩ } = .closed [] 4 := by decide

/-- `resume_consistent`, world form: a resumed channel is not behind its monitor in any sense, the replay
    list is exactly the manager's in-flight ids above the monitor's id, in stored order, and the
    manager's released id is covered by the monitor or by a replayed update. -/
theorem resume_consistent_world (w : World) (r : List Nat) (h : reload w = .resumed r) :
    ¬ (w.mgr.nums.holder > w.mon.nums.holder ∨ w.mgr.nums.secret > w.mon.nums.secret ∨
       w.mgr.nums.cp > w.mon.nums.cp ∨ w.mgr.latestId < w.mon.id) ∧
    r = w.mgr.inFlight.filter (fun i => decide (i > w.mon.id)) ∧
    w.mgr.unblockedId ≤ Nat.max w.mon.id (maxInFlight w.mgr.inFlight) := by
  obtain ⟨hs, hd, hr⟩ := reload_resumed w r h
  refine ⟨?_, by rw [hr, replayList_eq], ?_⟩
  · intro hc; rw [(stale_iff w).mpr hc] at hs; cases hs
  · unfold World.dangerous at hd
    cases hx : decide (w.mgr.unblockedId ≤ Nat.max w.mon.id (maxInFlight w.mgr.inFlight)) with
    | true => simpa using hx
    | false =>
      have : isDangerous w.mgr.unblockedId w.mon.id (maxInFlight w.mgr.inFlight) = true := by
        rw [isDangerous_iff]; simp at hx; omega
      rw [this] at hd; cases hd

/-- `resume_consistent`, run form.  PARTIAL (`NoJump`, see `stale_closes_from_monitor_partial`; what is
    missing is exactly KF-C10-3).  In run worlds a resumed channel replays exactly the consecutive ids
    `d+1 .. unblockedId` (all of them in the snapshot's in-flight list, in order); once they are applied
    the monitor's id equals the manager's released id (after the channel dropped the blocked updates the
    monitor already contains), the blocked updates that remain are exactly the consecutive ids above it,
    and the manager is not behind that monitor in any commitment number. -/
theorem resume_consistent_partial (baseId : Nat) (base : Nums) (ops : List Op) (d : Nat) (r : List Nat)
    (hj : NoJump ops) (h1 : (reach baseId base ops).durable ≤ d)
    (h : reload ((reach baseId base ops).world d) = .resumed r) :
    d ≤ (reach baseId base ops).disk.latestId ∧
    r = (reach baseId base ops).disk.inFlight.filter (fun i => decide (i > d)) ∧
    r = List.range' (d + 1) ((reach baseId base ops).disk.unblockedId - d) ∧
    monIdAfter d r = Nat.max d (reach baseId base ops).disk.unblockedId ∧
    blockedAfter (reach baseId base ops).disk d = List.range' (Nat.max d (reach baseId base ops).disk.unblockedId + 1)
      ((reach baseId base ops).disk.latestId - Nat.max d (reach baseId base ops).disk.unblockedId) := by
  have hI : Inv (reach baseId base ops) := inv_run _ (inv_init baseId base) ops hj
  generalize reach baseId base ops = st at *
  have hb : st.baseId ≤ d := Nat.le_trans hI.h1 h1
  obtain ⟨hs, _, hr⟩ := reload_resumed _ r h
  have hle : d ≤ st.disk.latestId := by
    by_cases hlt : st.disk.latestId < d
    · have := (run_stale_iff st hI d hb).mpr hlt; rw [hs] at this; cases this
    · omega
  obtain ⟨a, ha, hl⟩ := hI.d5
  have hr2 : r = st.disk.inFlight.filter (fun i => decide (i > d)) := by rw [hr, replayList_eq]; rfl
  have hr3 : r = List.range' (d + 1) (st.disk.unblockedId - d) := by
    rw [hr2, hl, filter_gt_range']
    have e1 : Nat.max a (d + 1) = d + 1 := Nat.max_eq_right (by omega)
    have e2 : a + (st.disk.unblockedId + 1 - a) - (d + 1) = st.disk.unblockedId - d := by omega
    rw [e1, e2]
  refine ⟨hle, hr2, hr3, ?_, ?_⟩
  · rw [hr3, monIdAfter_range', nmax_eq]; omega
  · unfold blockedAfter
    have hf : (fun id => !blockedDropped id d) = (fun i => decide (i > d)) := by
      funext i
      by_cases hi : i ≤ d
      · have : ¬ (i > d) := by omega
        simp [blockedDropped, hi, this]
      · have : i > d := by omega
        simp [blockedDropped, hi, this]
    rw [hf, filter_gt_range']
    have hd2 := hI.d2
    have e1 : Nat.max (st.disk.unblockedId + 1) (d + 1) = Nat.max d st.disk.unblockedId + 1 := by
      simp only [nmax_eq]; omega
    have e2 : st.disk.unblockedId + 1 + (st.disk.latestId - st.disk.unblockedId) - (Nat.max d st.disk.unblockedId + 1)
        = st.disk.latestId - Nat.max d st.disk.unblockedId := by simp only [nmax_eq]; omega
    rw [e1, e2]

/-- one update completed and one still in flight when the manager was written; the in-flight write did
    not reach the disk: it is replayed -/
example : reload ((reach 5 ⟨9, 9, 9⟩ [.update ⟨1, 0, 0⟩ false, .complete 6, .notify, .update ⟨0, 1, 0⟩ false,
    .persistManager]).world 6) = .resumed [7] := by decide
/-- a blocked update that was released and persisted after the manager was written is dropped, nothing replayed -/
example : (let st := reach 0 ⟨9, 9, 9⟩ [.update ⟨1, 0, 0⟩ false, .update ⟨0, 0, 1⟩ true, .persistManager, .release, .complete 2]
    (reload (st.world 2), blockedAfter st.disk 2, blockedAfter st.disk 1)) = (.resumed [], [], [2]) := by decide

/-- `repeated_crash_idempotent` (resume).  PARTIAL (`NoJump`).  If the node crashes again during recovery — after some or all of
    the replayed updates reached the disk (`d ≤ d' ≤ max d unblockedId`), before the manager was written
    again — the second restart ends in exactly the state a single crash with the monitor at `d'` gives. -/
theorem repeated_crash_idempotent_partial (baseId : Nat) (base : Nums) (ops : List Op) (d d' : Nat) (r : List Nat)
    (hj : NoJump ops) (h1 : (reach baseId base ops).durable ≤ d) (h2 : d ≤ (reach baseId base ops).watch)
    (hr : reload ((reach baseId base ops).world d) = .resumed r)
    (h3 : d ≤ d') (h4 : d' ≤ Nat.max d (reach baseId base ops).disk.unblockedId) :
    step (step (reach baseId base ops) (.crash d)) (.crash d') = step (reach baseId base ops) (.crash d') ∧
    reload ((step (reach baseId base ops) (.crash d)).world d') = .resumed (r.filter (fun i => decide (i > d'))) := by
  have hI : Inv (reach baseId base ops) := inv_run _ (inv_init baseId base) ops hj
  generalize reach baseId base ops = st at *
  have hb : st.baseId ≤ d := Nat.le_trans hI.h1 h1
  obtain ⟨hs, _, hrl⟩ := reload_resumed _ r hr
  have hle : d ≤ st.disk.latestId := by
    by_cases hlt : st.disk.latestId < d
    · have := (run_stale_iff st hI d hb).mpr hlt; rw [hs] at this; cases this
    · omega
  have hnc : st.closed = false := by
    cases hc : st.closed with
    | false => rfl
    | true => have := hI.c1 hc; omega
  have hd2 := hI.d2
  have hd4 := hI.d4 hnc
  have hd'L : d' ≤ st.disk.latestId := by rw [nmax_eq] at h4; omega
  have hd'w : d' ≤ st.watch := by rw [nmax_eq] at h4; omega
  -- the first crash
  have e1 : step st (.crash d) = { st with upds := st.upds.take (st.disk.latestId - st.baseId), watch := Nat.max d st.disk.unblockedId, durable := d, lo := d + 1 } := by
    simp only [step, h1, h2, decide_true, Bool.and_self, if_true, crashStep, hr]
  -- the world of the second crash is the world a single crash at d' would see
  have hw : (step st (.crash d)).world d' = st.world d' := by
    rw [e1]; simp only [St.world]
    rw [numsAt_take _ _ _ _ (by omega)]
  -- which resumes
  have hns : (st.world d').stale = false := by
    cases hx : (st.world d').stale with
    | false => rfl
    | true => have := (run_stale_iff st hI d' (by omega)).mp hx; omega
  have hnd := not_dangerous_of_admissible _ (run_admissible st hI d' (by omega))
  have hr' : reload (st.world d') = .resumed (replayList st.disk.inFlight d') := by
    unfold reload; rw [hns, hnd]; simp [St.world]
  refine ⟨?_, ?_⟩
  · have g1 : step st (.crash d') = { st with upds := st.upds.take (st.disk.latestId - st.baseId), watch := Nat.max d' st.disk.unblockedId, durable := d', lo := d' + 1 } := by
      have : st.durable ≤ d' := by omega
      simp only [step, this, hd'w, decide_true, Bool.and_self, if_true, crashStep, hr']
    rw [g1]
    have hw' := hw
    rw [e1] at hw' ⊢
    simp only [step, h3, h4, decide_true, Bool.and_self, if_true, crashStep, hw', hr', List.take_take, Nat.min_self]
  · rw [hw, hr', hrl]
    simp only [replayList_eq, St.world, List.filter_filter]
    congr 1
    apply List.filter_congr
    intro i _
    by_cases hi : i > d'
    · have : i > d := by omega
      simp [hi, this]
    · simp [hi]

/-- `repeated_crash_idempotent` (close).  PARTIAL (`NoJump`).  Once a crash has closed the channel, every later crash — whatever
    happens in between, as long as the manager on disk still lists the channel — closes it again. -/
theorem repeated_crash_closed_partial (baseId : Nat) (base : Nums) (ops ops' : List Op) (d d' : Nat) (r : List Nat) (c : Nat)
    (hj : NoJump ops) (hj' : NoJump ops') (h1 : (reach baseId base ops).durable ≤ d) (h2 : d ≤ (reach baseId base ops).watch)
    (hr : reload ((reach baseId base ops).world d) = .closed r c)
    (h3 : (run (step (reach baseId base ops) (.crash d)) ops').durable ≤ d') :
    ∃ r' c', reload ((run (step (reach baseId base ops) (.crash d)) ops').world d') = .closed r' c' := by
  have hI : Inv (reach baseId base ops) := inv_run _ (inv_init baseId base) ops hj
  generalize reach baseId base ops = st at *
  have hc1 : (step st (.crash d)).closed = true := by
    simp only [step, h1, h2, decide_true, Bool.and_self, if_true, crashStep, hr]
  have hI1 := inv_step st hI (.crash d) rfl
  have hcl : ∀ (ops' : List Op) (s : St), s.closed = true → (run s ops').closed = true := by
    intro ops'
    induction ops' with
    | nil => intro s h; exact h
    | cons op ops' ih =>
      intro s h
      refine ih _ ?_
      cases op with
      | update u b => simp [step, h]
      | jump u => simp [step, h]
      | release => simp [step, h]
      | complete k => simp only [step]; split <;> exact h
      | notify => simp only [step]; split <;> exact h
      | persistManager => simp [step, h]
      | crash x =>
        simp only [step]
        split
        · unfold crashStep; split <;> simp [h]
        · exact h
  have hc2 := hcl ops' _ hc1
  have hI2 := inv_run _ hI1 ops' hj'
  generalize run (step st (.crash d)) ops' = s2 at *
  rw [reload_closed_iff, stale_iff]
  right; right; right
  have := hI2.c1 hc2
  simp only [St.world]; omega

/-- crash with the in-flight write lost, restart, crash again after the replayed update reached the disk -/
example : (let st := reach 0 ⟨9, 9, 9⟩ [.update ⟨1, 0, 0⟩ false, .update ⟨0, 1, 0⟩ false, .persistManager]
    (reload (st.world 0), reload ((step st (.crash 0)).world 1), (step (step st (.crash 0)) (.crash 1)) == step st (.crash 1)))
    = (.resumed [1, 2], .resumed [2], true) := by decide
example : (let st := reach 0 ⟨9, 9, 9⟩ [.persistManager, .update ⟨1, 0, 0⟩ false, .complete 1]
    (reload (st.world 1), reload ((run (step st (.crash 1)) [.complete 2]).world 2))) = (.closed [] 2, .closed [] 3) := by decide

/-- KF-C10-3 in the model: the manager is written while an RAA update (id 1) is blocked; a preimage update
    then jumps ahead of it (takes id 1, the blocked one becomes id 2) and reaches the disk; crash.  Manager
    and monitor agree on id 1, so the channel is resumed, nothing is replayed, and the blocked update is
    dropped as "already in the monitor" — although the monitor's numbers show it never saw that
    revocation (9 > 8): `resume_consistent` does not hold without `NoJump`. -/
example : (let st := reach 0 ⟨9, 9, 9⟩ [.update ⟨0, 1, 1⟩ true, .persistManager, .jump ⟨0, 0, 0⟩]
    (reload (st.world 1), blockedAfter st.disk 1, (st.world 1).mgr.nums, (st.world 1).mon.nums))
    = (.resumed [], [], ⟨9, 8, 8⟩, ⟨9, 9, 9⟩) := by decide
/-- ... while DangerousValue stays unreachable (`reload_total` needs no `NoJump`) -/
example : reload ((reach 0 ⟨9, 9, 9⟩ [.update ⟨0, 1, 1⟩ true, .persistManager, .jump ⟨0, 0, 0⟩, .release]).world 2)
    ≠ .err := by decide

/-! ### Queued forwards survive the reload unless the SAME inbound HTLC was already forwarded

`reconcile queue mons`: `queue` = the written manager's to-forward queue (forward_htlcs /
pending_intercepted_htlcs entries, each given by its previous hop), `mons` = the previous hops of the outbound
HTLCs listed by the monitors of the channels that are closed at load time.  All queues, all monitor HTLC sets.
HTLC ids are per-channel counters, so equal ids on different inbound channels are the normal case. -/

/-- no cross-channel capture: a queued forward that the reload deletes has the same inbound channel AND the same
    htlc id as an outbound HTLC of a closed channel's monitor (that monitor now resolves it) -/
theorem reconcile_dropped_only_if_forwarded (queue mons : List HtlcRef) (f : HtlcRef)
    (hq : f ∈ queue) (hd : f ∉ reconcile queue mons) : ∃ h ∈ mons, h.chan = f.chan ∧ h.id = f.id := by
  rw [mem_reconcile] at hd
  have : ¬ ∀ h ∈ mons, pendingForwardMatches f.chan f.id h.chan h.id = false := fun hall => hd ⟨hq, hall⟩
  rw [Classical.not_forall] at this
  obtain ⟨h, hh⟩ := this
  rw [Classical.not_imp] at hh
  obtain ⟨hm, hne⟩ := hh
  have ht : pendingForwardMatches f.chan f.id h.chan h.id = true := by
    cases hx : pendingForwardMatches f.chan f.id h.chan h.id with
    | true => rfl
    | false => exact absurd hx hne
  obtain ⟨h1, h2⟩ := (pendingForwardMatches_iff _ _ _ _).mp ht
  exact ⟨h, hm, h1.symm, h2.symm⟩

/-- a queued forward whose (inbound channel, id) no closed channel's monitor lists — it was never forwarded — is
    still queued after the reload, whatever ids other inbound channels use -/
theorem reconcile_never_forwarded_kept (queue mons : List HtlcRef) (f : HtlcRef)
    (hq : f ∈ queue) (hn : ∀ h ∈ mons, ¬ (h.chan = f.chan ∧ h.id = f.id)) : f ∈ reconcile queue mons := by
  rw [mem_reconcile]
  refine ⟨hq, fun h hh => ?_⟩
  cases hx : pendingForwardMatches f.chan f.id h.chan h.id with
  | false => rfl
  | true =>
    obtain ⟨h1, h2⟩ := (pendingForwardMatches_iff _ _ _ _).mp hx
    exact absurd ⟨h1.symm, h2.symm⟩ (hn h hh)

/-- ... and one that a closed channel's monitor does list is removed (it is not forwarded a second time) -/
theorem reconcile_forwarded_dropped (queue mons : List HtlcRef) (h : HtlcRef) (hm : h ∈ mons) :
    h ∉ reconcile queue mons := by
  rw [mem_reconcile]
  rintro ⟨_, hall⟩
  have := hall h hm
  rw [(pendingForwardMatches_iff _ _ _ _).mpr ⟨rfl, rfl⟩] at this
  cases this

/-- the same three facts for HTLCs still waiting to be decoded (decode_update_add_htlcs, keyed by the inbound
    channel; dedup_decode_update_add_htlcs compares ids inside that channel's entry only) -/
theorem dedup_decode_exact (m : List (Nat × List Nat)) (mons : List HtlcRef) (r : HtlcRef) :
    r ∈ decodeRefs (dedupDecode m mons) ↔ r ∈ decodeRefs m ∧ ∀ h ∈ mons, ¬ (h.chan = r.chan ∧ h.id = r.id) := by
  rw [mem_decodeRefs_dedupDecode]
  constructor
  · rintro ⟨h1, h2⟩
    refine ⟨h1, fun h hh hc => h2 h hh ⟨hc.1.symm, (dedupMatches_iff _ _).mpr hc.2.symm⟩⟩
  · rintro ⟨h1, h2⟩
    refine ⟨h1, fun h hh hc => h2 h hh ⟨hc.1.symm, ((dedupMatches_iff _ _).mp hc.2).symm⟩⟩

/-- two inbound channels (7 and 8) both carry htlc id 0; channel 7's was forwarded over a channel that is closed at
    load time, channel 8's is still queued: only the former is removed -/
example : reconcile [⟨7, 0⟩, ⟨8, 0⟩, ⟨8, 1⟩] [⟨7, 0⟩] = [⟨8, 0⟩, ⟨8, 1⟩] := by decide
example : dedupDecode [(7, [0, 1]), (8, [0])] [⟨7, 0⟩, ⟨7, 1⟩] = [(8, [0])] := by decide

/-! ### A reload fails an outbound HTLC of a closed channel only once the closing transaction is buried

`ClosedMon` = what the closed channel's monitor knows when the manager is read; `WellFormed`: the monitor sets
`funding_spend_confirmed` only when the FundingSpendConfirmation entry has matured (pinned by gen_restart.py), i.e.
at `spendHeight + ANTI_REORG_DELAY - 1 ≤ best`.  All heights, all HTLC positions. -/

def WellFormed (m : ClosedMon) : Prop :=
  m.matured = true → ∃ h, m.spendHeight = some h ∧ h + ANTI_REORG_DELAY - 1 ≤ m.best

/-- failed on reload ⇒ the closing transaction has at least ANTI_REORG_DELAY confirmations -/
theorem failed_on_reload_only_if_buried (m : ClosedMon) (hw : WellFormed m) (pos : HtlcPos) (r : Bool)
    (h : failedOnReload m pos r = true) :
    ∃ ht, m.spendHeight = some ht ∧ ht ≤ m.best ∧ m.confirmations ≥ ANTI_REORG_DELAY := by
  have hc : m.confirmedForReload = true := by
    unfold failedOnReload at h
    cases hx : m.confirmedForReload with
    | true => rfl
    | false => simp [hx] at h
  have key : ∃ ht, m.spendHeight = some ht ∧ ht + ANTI_REORG_DELAY - 1 ≤ m.best := by
    unfold ClosedMon.confirmedForReload at hc
    cases hm : m.matured with
    | true => exact hw hm
    | false =>
      rw [hm] at hc
      cases hs : m.spendHeight with
      | none => rw [hs] at hc; simp at hc
      | some ht =>
        rw [hs] at hc
        refine ⟨ht, rfl, ?_⟩
        simpa [fundingSpendBuried] using hc
  obtain ⟨ht, hs, hb⟩ := key
  have : ANTI_REORG_DELAY = 6 := rfl
  refine ⟨ht, hs, by omega, ?_⟩
  unfold ClosedMon.confirmations
  rw [hs]; simp only; omega

/-- fewer than ANTI_REORG_DELAY confirmations (or none) ⇒ no outbound HTLC is failed by the reload: it stays pending -/
theorem not_buried_kept_pending (m : ClosedMon) (hw : WellFormed m) (pos : HtlcPos) (r : Bool)
    (h : m.confirmations < ANTI_REORG_DELAY) : failedOnReload m pos r = false := by
  cases hf : failedOnReload m pos r with
  | false => rfl
  | true =>
    obtain ⟨_, _, _, hc⟩ := failed_on_reload_only_if_buried m hw pos r hf
    omega

/-- ... and once it is buried, an HTLC that is absent from the confirmed commitment (or dust in it) and was not yet
    reported to the user is failed -/
theorem buried_absent_failed (m : ClosedMon) (ht : Nat) (hs : m.spendHeight = some ht)
    (hb : ht + ANTI_REORG_DELAY - 1 ≤ m.best) : failedOnReload m .absent false = true ∧ failedOnReload m .dust false = true := by
  have : m.confirmedForReload = true := by
    unfold ClosedMon.confirmedForReload
    rw [hs]; simp [fundingSpendBuried, hb]
  simp [failedOnReload, this]

example : failedOnReload ⟨false, some 100, 100⟩ .absent false = false := by decide   -- 1 confirmation
example : failedOnReload ⟨false, some 100, 104⟩ .dust false = false := by decide     -- 5 confirmations
example : failedOnReload ⟨false, some 100, 105⟩ .absent false = true := by decide    -- 6 confirmations
example : failedOnReload ⟨true, some 100, 110⟩ (.output false) false = false := by decide

end Ldk.C10
