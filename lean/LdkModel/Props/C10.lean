/- C10 — Restarting from persisted state is safe at every crash point.
   Property theorems only.  `reload` (Model/Restart.lean) is composed from predicates that are
   re-translated from `ChannelManager::from_channel_manager_data` on every run
   (Generated/Restart.lean).  Worlds are quantified in two ways: arbitrary `World`s (any numbers at
   all), and the worlds produced by the history generator `run` — every op list, every crash point
   (every prefix), every monitor copy `d` between the last update reported complete and the last one
   handed to chain::Watch, the manager on disk being whatever the last `persistManager` wrote (any lag),
   and crashes may themselves occur inside the run (repeated crashes).

   What is NOT proved here (validated by the scenario harness only): the ChannelManager-internal
   reconstruction of payments / claims / events from the monitors after a resume or a close. -/
import LdkModel.Proofs.Restart
import LdkModel.Proofs.Reconstruct
import LdkModel.Proofs.EventReplay
import LdkModel.Proofs.InterceptRegen
namespace Ldk.C10
open Ldk.Restart

/-- the state reached by a run from a freshly opened channel -/
def reach (baseId : Nat) (base : Nums) (ops : List Op) : St := run (St.init baseId base) ops

/-- `reload_total`, world form: if every update the manager snapshot believes handed to chain::Watch is
    either in the monitor on disk or still listed in-flight in that snapshot, the read does not fail:
    `DecodeError::DangerousValue` is unreachable. -/
theorem reload_total_world (w : World) (h : Admissible w) : reload w ≠ .err := by
  unfold reload
  rw [not_dangerous_of_admissible w h]
  split <;> simp

/-- `reload_total`: for every run — every op list, including preimage updates that jump ahead of blocked
    updates and earlier crashes —, every crash point (the end of any op list), any manager lag and any
    subset of in-flight writes on disk (`durable ≤ d ≤ watch`). -/
theorem reload_total (baseId : Nat) (base : Nums) (ops : List Op) (d : Nat)
    (h1 : (reach baseId base ops).durable ≤ d) (_h2 : d ≤ (reach baseId base ops).watch) :
    reload ((reach baseId base ops).world d) ≠ .err :=
  reload_total_world _ (run_admissible0 _ (inv0_run _ (inv0_of_inv _ (inv_init baseId base)) ops) d h1)

/-- the node-level read (several channels) succeeds when every channel's world is admissible -/
theorem reload_node_total (ws : List World) (h : ∀ w ∈ ws, Admissible w) : reloadNode ws ≠ none := by
  unfold reloadNode
  have : (ws.map reload).any (fun r => r == .err) = false := by
    rw [List.any_eq_false]
    intro r hr
    obtain ⟨w, hw, rfl⟩ := List.mem_map.mp hr
    have := reload_total_world w (h w hw)
    simpa using this
  simp [this]

example : reload ((reach 0 ⟨9, 9, 9⟩ [.update ⟨1, 0, 0⟩ false, .update ⟨0, 1, 0⟩ false, .persistManager]).world 0)
    = .resumed [1, 2] := by decide
/-- the hypothesis is needed: a monitor older than an update the manager saw complete is refused -/
example : reload { mgr := ⟨2, 2, [], ⟨9, 9, 9⟩⟩, mon := ⟨1, ⟨9, 9, 9⟩⟩ } = .err := by decide

/-- `stale_manager_closes`: a monitor ahead of the manager snapshot in ANY of the four senses (holder
    commitment number, revoked counterparty number, counterparty commitment number — all counting down —
    or update id) makes the channel force-closed (OutdatedChannelManager); it is never resumed and the
    read does not fail because of it.  Every world, no hypothesis. -/
theorem stale_manager_closes (w : World)
    (h : w.mgr.nums.holder > w.mon.nums.holder ∨ w.mgr.nums.secret > w.mon.nums.secret ∨
         w.mgr.nums.cp > w.mon.nums.cp ∨ w.mgr.latestId < w.mon.id) :
    (∃ r c, reload w = .closed r c) ∧ (∀ r, reload w ≠ .resumed r) ∧ reload w ≠ .err := by
  have hs := (stale_iff w).mpr h
  refine ⟨(reload_closed_iff w).mpr hs, ?_, ?_⟩ <;> simp [reload, hs]

/-- ... and only then: a manager that is not behind its monitor in any of the four senses is not closed -/
theorem closed_only_if_stale (w : World) (r : List Nat) (c : Nat) (h : reload w = .closed r c) :
    w.mgr.nums.holder > w.mon.nums.holder ∨ w.mgr.nums.secret > w.mon.nums.secret ∨
    w.mgr.nums.cp > w.mon.nums.cp ∨ w.mgr.latestId < w.mon.id :=
  (stale_iff w).mp ((reload_closed_iff w).mp ⟨r, c, h⟩)

/-- PARTIAL (`NoJump`): proved for runs in which no preimage update jumps ahead of blocked updates
    (`Op.jump`: channel.rs renumbers the blocked updates' ids); with a jump between the manager write and the
    crash, manager and monitor can agree on an update id while disagreeing on the update's content, and the
    statement is false for the model and for the real code (KF-C10-3, example at the end of this file).
    In run worlds the channel is closed exactly when the monitor on disk contains an update the manager
    on disk never generated; nothing from the stale manager is replayed onto the newer monitor and the
    ChannelForceClosed update directly follows the monitor's own last update ("closed from the
    monitor's state"). -/
theorem stale_closes_from_monitor_partial (baseId : Nat) (base : Nums) (ops : List Op) (d : Nat)
    (hj : NoJump ops) (h1 : (reach baseId base ops).durable ≤ d) :
    ((∃ r c, reload ((reach baseId base ops).world d) = .closed r c) ↔ (reach baseId base ops).disk.latestId < d) ∧
    (∀ r c, reload ((reach baseId base ops).world d) = .closed r c → r = [] ∧ c = closeUpdateId d) := by
  have hI : Inv (reach baseId base ops) := inv_run _ (inv_init baseId base) ops hj
  generalize reach baseId base ops = st at *
  have hb : st.baseId ≤ d := Nat.le_trans hI.h1 h1
  refine ⟨by rw [reload_closed_iff, run_stale_iff st hI d hb], ?_⟩
  intro r c hr
  have hlt := (run_stale_iff st hI d hb).mp ((reload_closed_iff _).mp ⟨r, c, hr⟩)
  have hnil : replayList (st.world d).mgr.inFlight (st.world d).mon.id = [] := by
    rw [replayList_eq, List.filter_eq_nil_iff]
    intro i hi
    obtain ⟨a, _, hl⟩ := hI.d5
    simp only [St.world] at hi ⊢
    rw [hl, List.mem_range'_1] at hi
    have := hI.d2
    simp; omega
  unfold reload at hr
  rw [(reload_closed_iff _).mp ⟨r, c, hr⟩] at hr
  simp only [if_true, hnil, Outcome.closed.injEq] at hr
  refine ⟨hr.1.symm, ?_⟩
  rw [← hr.2]; simp [closeIdAfter, St.world]

example : reload ((reach 0 ⟨9, 9, 9⟩ [.persistManager, .update ⟨1, 0, 0⟩ false, .complete 1]).world 1)
    = .closed [] 2 := by decide
/-- stale in a commitment-number sense only (ids equal) also closes -/
example : reload { mgr := ⟨3, 3, [], ⟨9, 8, 9⟩⟩, mon := ⟨3, ⟨9, 7, 9⟩⟩ } = .closed [] 4 := by decide

/-- `resume_consistent`, world form: a resumed channel is not behind its monitor in any sense, the replay
    list is exactly the manager's in-flight ids above the monitor's id, in stored order, and the
    manager's released id is covered by the monitor or by a replayed update. -/
theorem resume_consistent_world (w : World) (r : List Nat) (h : reload w = .resumed r) :
    ¬ (w.mgr.nums.holder > w.mon.nums.holder ∨ w.mgr.nums.secret > w.mon.nums.secret ∨
       w.mgr.nums.cp > w.mon.nums.cp ∨ w.mgr.latestId < w.mon.id) ∧
    r = w.mgr.inFlight.filter (fun i => decide (i > w.mon.id)) ∧
    w.mgr.unblockedId ≤ Nat.max w.mon.id (maxInFlight w.mgr.inFlight) := by
  obtain ⟨hs, hd, hr⟩ := reload_resumed w r h
  refine ⟨?_, by rw [hr, replayList_eq], ?_⟩
  · intro hc; rw [(stale_iff w).mpr hc] at hs; cases hs
  · unfold World.dangerous at hd
    cases hx : decide (w.mgr.unblockedId ≤ Nat.max w.mon.id (maxInFlight w.mgr.inFlight)) with
    | true => simpa using hx
    | false =>
      have : isDangerous w.mgr.unblockedId w.mon.id (maxInFlight w.mgr.inFlight) = true := by
        rw [isDangerous_iff]; simp at hx; omega
      rw [this] at hd; cases hd

/-- `resume_consistent`, run form.  PARTIAL (`NoJump`, see `stale_closes_from_monitor_partial`; what is
    missing is exactly KF-C10-3).  In run worlds a resumed channel replays exactly the consecutive ids
    `d+1 .. unblockedId` (all of them in the snapshot's in-flight list, in order); once they are applied
    the monitor's id equals the manager's released id (after the channel dropped the blocked updates the
    monitor already contains), the blocked updates that remain are exactly the consecutive ids above it,
    and the manager is not behind that monitor in any commitment number. -/
theorem resume_consistent_partial (baseId : Nat) (base : Nums) (ops : List Op) (d : Nat) (r : List Nat)
    (hj : NoJump ops) (h1 : (reach baseId base ops).durable ≤ d)
    (h : reload ((reach baseId base ops).world d) = .resumed r) :
    d ≤ (reach baseId base ops).disk.latestId ∧
    r = (reach baseId base ops).disk.inFlight.filter (fun i => decide (i > d)) ∧
    r = List.range' (d + 1) ((reach baseId base ops).disk.unblockedId - d) ∧
    monIdAfter d r = Nat.max d (reach baseId base ops).disk.unblockedId ∧
    blockedAfter (reach baseId base ops).disk d = List.range' (Nat.max d (reach baseId base ops).disk.unblockedId + 1)
      ((reach baseId base ops).disk.latestId - Nat.max d (reach baseId base ops).disk.unblockedId) := by
  have hI : Inv (reach baseId base ops) := inv_run _ (inv_init baseId base) ops hj
  generalize reach baseId base ops = st at *
  have hb : st.baseId ≤ d := Nat.le_trans hI.h1 h1
  obtain ⟨hs, _, hr⟩ := reload_resumed _ r h
  have hle : d ≤ st.disk.latestId := by
    by_cases hlt : st.disk.latestId < d
    · have := (run_stale_iff st hI d hb).mpr hlt; rw [hs] at this; cases this
    · omega
  obtain ⟨a, ha, hl⟩ := hI.d5
  have hr2 : r = st.disk.inFlight.filter (fun i => decide (i > d)) := by rw [hr, replayList_eq]; rfl
  have hr3 : r = List.range' (d + 1) (st.disk.unblockedId - d) := by
    rw [hr2, hl, filter_gt_range']
    have e1 : Nat.max a (d + 1) = d + 1 := Nat.max_eq_right (by omega)
    have e2 : a + (st.disk.unblockedId + 1 - a) - (d + 1) = st.disk.unblockedId - d := by omega
    rw [e1, e2]
  refine ⟨hle, hr2, hr3, ?_, ?_⟩
  · rw [hr3, monIdAfter_range', nmax_eq]; omega
  · unfold blockedAfter
    have hf : (fun id => !blockedDropped id d) = (fun i => decide (i > d)) := by
      funext i
      by_cases hi : i ≤ d
      · have : ¬ (i > d) := by omega
        simp [blockedDropped, hi, this]
      · have : i > d := by omega
        simp [blockedDropped, hi, this]
    rw [hf, filter_gt_range']
    have hd2 := hI.d2
    have e1 : Nat.max (st.disk.unblockedId + 1) (d + 1) = Nat.max d st.disk.unblockedId + 1 := by
      simp only [nmax_eq]; omega
    have e2 : st.disk.unblockedId + 1 + (st.disk.latestId - st.disk.unblockedId) - (Nat.max d st.disk.unblockedId + 1)
        = st.disk.latestId - Nat.max d st.disk.unblockedId := by simp only [nmax_eq]; omega
    rw [e1, e2]

/-- one update completed and one still in flight when the manager was written; the in-flight write did
    not reach the disk: it is replayed -/
example : reload ((reach 5 ⟨9, 9, 9⟩ [.update ⟨1, 0, 0⟩ false, .complete 6, .notify, .update ⟨0, 1, 0⟩ false,
    .persistManager]).world 6) = .resumed [7] := by decide
/-- a blocked update that was released and persisted after the manager was written is dropped, nothing replayed -/
example : (let st := reach 0 ⟨9, 9, 9⟩ [.update ⟨1, 0, 0⟩ false, .update ⟨0, 0, 1⟩ true, .persistManager, .release, .complete 2]
    (reload (st.world 2), blockedAfter st.disk 2, blockedAfter st.disk 1)) = (.resumed [], [], [2]) := by decide

/-- `repeated_crash_idempotent` (resume).  PARTIAL (`NoJump`).  If the node crashes again during recovery — after some or all of
    the replayed updates reached the disk (`d ≤ d' ≤ max d unblockedId`), before the manager was written
    again — the second restart ends in exactly the state a single crash with the monitor at `d'` gives. -/
theorem repeated_crash_idempotent_partial (baseId : Nat) (base : Nums) (ops : List Op) (d d' : Nat) (r : List Nat)
    (hj : NoJump ops) (h1 : (reach baseId base ops).durable ≤ d) (h2 : d ≤ (reach baseId base ops).watch)
    (hr : reload ((reach baseId base ops).world d) = .resumed r)
    (h3 : d ≤ d') (h4 : d' ≤ Nat.max d (reach baseId base ops).disk.unblockedId) :
    step (step (reach baseId base ops) (.crash d)) (.crash d') = step (reach baseId base ops) (.crash d') ∧
    reload ((step (reach baseId base ops) (.crash d)).world d') = .resumed (r.filter (fun i => decide (i > d'))) := by
  have hI : Inv (reach baseId base ops) := inv_run _ (inv_init baseId base) ops hj
  generalize reach baseId base ops = st at *
  have hb : st.baseId ≤ d := Nat.le_trans hI.h1 h1
  obtain ⟨hs, _, hrl⟩ := reload_resumed _ r hr
  have hle : d ≤ st.disk.latestId := by
    by_cases hlt : st.disk.latestId < d
    · have := (run_stale_iff st hI d hb).mpr hlt; rw [hs] at this; cases this
    · omega
  have hnc : st.closed = false := by
    cases hc : st.closed with
    | false => rfl
    | true => have := hI.c1 hc; omega
  have hd2 := hI.d2
  have hd4 := hI.d4 hnc
  have hd'L : d' ≤ st.disk.latestId := by rw [nmax_eq] at h4; omega
  have hd'w : d' ≤ st.watch := by rw [nmax_eq] at h4; omega
  -- the first crash
  have e1 : step st (.crash d) = { st with upds := st.upds.take (st.disk.latestId - st.baseId), watch := Nat.max d st.disk.unblockedId, durable := d, lo := d + 1 } := by
    simp only [step, h1, h2, decide_true, Bool.and_self, if_true, crashStep, hr]
  -- the world of the second crash is the world a single crash at d' would see
  have hw : (step st (.crash d)).world d' = st.world d' := by
    rw [e1]; simp only [St.world]
    rw [numsAt_take _ _ _ _ (by omega)]
  -- which resumes
  have hns : (st.world d').stale = false := by
    cases hx : (st.world d').stale with
    | false => rfl
    | true => have := (run_stale_iff st hI d' (by omega)).mp hx; omega
  have hnd := not_dangerous_of_admissible _ (run_admissible st hI d' (by omega))
  have hr' : reload (st.world d') = .resumed (replayList st.disk.inFlight d') := by
    unfold reload; rw [hns, hnd]; simp [St.world]
  refine ⟨?_, ?_⟩
  · have g1 : step st (.crash d') = { st with upds := st.upds.take (st.disk.latestId - st.baseId), watch := Nat.max d' st.disk.unblockedId, durable := d', lo := d' + 1 } := by
      have : st.durable ≤ d' := by omega
      simp only [step, this, hd'w, decide_true, Bool.and_self, if_true, crashStep, hr']
    rw [g1]
    have hw' := hw
    rw [e1] at hw' ⊢
    simp only [step, h3, h4, decide_true, Bool.and_self, if_true, crashStep, hw', hr', List.take_take, Nat.min_self]
  · rw [hw, hr', hrl]
    simp only [replayList_eq, St.world, List.filter_filter]
    congr 1
    apply List.filter_congr
    intro i _
    by_cases hi : i > d'
    · have : i > d := by omega
      simp [hi, this]
    · simp [hi]

/-- `repeated_crash_idempotent` (close).  PARTIAL (`NoJump`).  Once a crash has closed the channel, every later crash — whatever
    happens in between, as long as the manager on disk still lists the channel — closes it again. -/
theorem repeated_crash_closed_partial (baseId : Nat) (base : Nums) (ops ops' : List Op) (d d' : Nat) (r : List Nat) (c : Nat)
    (hj : NoJump ops) (hj' : NoJump ops') (h1 : (reach baseId base ops).durable ≤ d) (h2 : d ≤ (reach baseId base ops).watch)
    (hr : reload ((reach baseId base ops).world d) = .closed r c)
    (h3 : (run (step (reach baseId base ops) (.crash d)) ops').durable ≤ d') :
    ∃ r' c', reload ((run (step (reach baseId base ops) (.crash d)) ops').world d') = .closed r' c' := by
  have hI : Inv (reach baseId base ops) := inv_run _ (inv_init baseId base) ops hj
  generalize reach baseId base ops = st at *
  have hc1 : (step st (.crash d)).closed = true := by
    simp only [step, h1, h2, decide_true, Bool.and_self, if_true, crashStep, hr]
  have hI1 := inv_step st hI (.crash d) rfl
  have hcl : ∀ (ops' : List Op) (s : St), s.closed = true → (run s ops').closed = true := by
    intro ops'
    induction ops' with
    | nil => intro s h; exact h
    | cons op ops' ih =>
      intro s h
      refine ih _ ?_
      cases op with
      | update u b => simp [step, h]
      | jump u => simp [step, h]
      | release => simp [step, h]
      | complete k => simp only [step]; split <;> exact h
      | notify => simp only [step]; split <;> exact h
      | persistManager => simp [step, h]
      | crash x =>
        simp only [step]
        split
        · unfold crashStep; split <;> simp [h]
        · exact h
  have hc2 := hcl ops' _ hc1
  have hI2 := inv_run _ hI1 ops' hj'
  generalize run (step st (.crash d)) ops' = s2 at *
  rw [reload_closed_iff, stale_iff]
  right; right; right
  have := hI2.c1 hc2
  simp only [St.world]; omega

/-- crash with the in-flight write lost, restart, crash again after the replayed update reached the disk -/
example : (let st := reach 0 ⟨9, 9, 9⟩ [.update ⟨1, 0, 0⟩ false, .update ⟨0, 1, 0⟩ false, .persistManager]
    (reload (st.world 0), reload ((step st (.crash 0)).world 1), (step (step st (.crash 0)) (.crash 1)) == step st (.crash 1)))
    = (.resumed [1, 2], .resumed [2], true) := by decide
example : (let st := reach 0 ⟨9, 9, 9⟩ [.persistManager, .update ⟨1, 0, 0⟩ false, .complete 1]
    (reload (st.world 1), reload ((run (step st (.crash 1)) [.complete 2]).world 2))) = (.closed [] 2, .closed [] 3) := by decide

/-- KF-C10-3 in the model: the manager is written while an RAA update (id 1) is blocked; a preimage update
    then jumps ahead of it (takes id 1, the blocked one becomes id 2) and reaches the disk; crash.  Manager
    and monitor agree on id 1, so the channel is resumed, nothing is replayed, and the blocked update is
    dropped as "already in the monitor" — although the monitor's numbers show it never saw that
    revocation (9 > 8): `resume_consistent` does not hold without `NoJump`. -/
example : (let st := reach 0 ⟨9, 9, 9⟩ [.update ⟨0, 1, 1⟩ true, .persistManager, .jump ⟨0, 0, 0⟩]
    (reload (st.world 1), blockedAfter st.disk 1, (st.world 1).mgr.nums, (st.world 1).mon.nums))
    = (.resumed [], [], ⟨9, 8, 8⟩, ⟨9, 9, 9⟩) := by decide
/-- ... while DangerousValue stays unreachable (`reload_total` needs no `NoJump`) -/
example : reload ((reach 0 ⟨9, 9, 9⟩ [.update ⟨0, 1, 1⟩ true, .persistManager, .jump ⟨0, 0, 0⟩, .release]).world 2)
    ≠ .err := by decide

/-! ### Queued forwards survive the reload unless the SAME inbound HTLC was already forwarded

`reconcile queue mons`: `queue` = the written manager's to-forward queue (forward_htlcs /
pending_intercepted_htlcs entries, each given by its previous hop), `mons` = the previous hops of the outbound
HTLCs listed by the monitors of the channels that are closed at load time.  All queues, all monitor HTLC sets.
HTLC ids are per-channel counters, so equal ids on different inbound channels are the normal case. -/

/-- no cross-channel capture: a queued forward that the reload deletes has the same inbound channel AND the same
    htlc id as an outbound HTLC of a closed channel's monitor (that monitor now resolves it) -/
theorem reconcile_dropped_only_if_forwarded (queue mons : List HtlcRef) (f : HtlcRef)
    (hq : f ∈ queue) (hd : f ∉ reconcile queue mons) : ∃ h ∈ mons, h.chan = f.chan ∧ h.id = f.id := by
  rw [mem_reconcile] at hd
  have : ¬ ∀ h ∈ mons, pendingForwardMatches f.chan f.id h.chan h.id = false := fun hall => hd ⟨hq, hall⟩
  rw [Classical.not_forall] at this
  obtain ⟨h, hh⟩ := this
  rw [Classical.not_imp] at hh
  obtain ⟨hm, hne⟩ := hh
  have ht : pendingForwardMatches f.chan f.id h.chan h.id = true := by
    cases hx : pendingForwardMatches f.chan f.id h.chan h.id with
    | true => rfl
    | false => exact absurd hx hne
  obtain ⟨h1, h2⟩ := (pendingForwardMatches_iff _ _ _ _).mp ht
  exact ⟨h, hm, h1.symm, h2.symm⟩

/-- a queued forward whose (inbound channel, id) no closed channel's monitor lists — it was never forwarded — is
    still queued after the reload, whatever ids other inbound channels use -/
theorem reconcile_never_forwarded_kept (queue mons : List HtlcRef) (f : HtlcRef)
    (hq : f ∈ queue) (hn : ∀ h ∈ mons, ¬ (h.chan = f.chan ∧ h.id = f.id)) : f ∈ reconcile queue mons := by
  rw [mem_reconcile]
  refine ⟨hq, fun h hh => ?_⟩
  cases hx : pendingForwardMatches f.chan f.id h.chan h.id with
  | false => rfl
  | true =>
    obtain ⟨h1, h2⟩ := (pendingForwardMatches_iff _ _ _ _).mp hx
    exact absurd ⟨h1.symm, h2.symm⟩ (hn h hh)

/-- ... and one that a closed channel's monitor does list is removed (it is not forwarded a second time) -/
theorem reconcile_forwarded_dropped (queue mons : List HtlcRef) (h : HtlcRef) (hm : h ∈ mons) :
    h ∉ reconcile queue mons := by
  rw [mem_reconcile]
  rintro ⟨_, hall⟩
  have := hall h hm
  rw [(pendingForwardMatches_iff _ _ _ _).mpr ⟨rfl, rfl⟩] at this
  cases this

/-- the same three facts for HTLCs still waiting to be decoded (decode_update_add_htlcs, keyed by the inbound
    channel; dedup_decode_update_add_htlcs compares ids inside that channel's entry only) -/
theorem dedup_decode_exact (m : List (Nat × List Nat)) (mons : List HtlcRef) (r : HtlcRef) :
    r ∈ decodeRefs (dedupDecode m mons) ↔ r ∈ decodeRefs m ∧ ∀ h ∈ mons, ¬ (h.chan = r.chan ∧ h.id = r.id) := by
  rw [mem_decodeRefs_dedupDecode]
  constructor
  · rintro ⟨h1, h2⟩
    refine ⟨h1, fun h hh hc => h2 h hh ⟨hc.1.symm, (dedupMatches_iff _ _).mpr hc.2.symm⟩⟩
  · rintro ⟨h1, h2⟩
    refine ⟨h1, fun h hh hc => h2 h hh ⟨hc.1.symm, ((dedupMatches_iff _ _).mp hc.2).symm⟩⟩

/-- two inbound channels (7 and 8) both carry htlc id 0; channel 7's was forwarded over a channel that is closed at
    load time, channel 8's is still queued: only the former is removed -/
example : reconcile [⟨7, 0⟩, ⟨8, 0⟩, ⟨8, 1⟩] [⟨7, 0⟩] = [⟨8, 0⟩, ⟨8, 1⟩] := by decide
example : dedupDecode [(7, [0, 1]), (8, [0])] [⟨7, 0⟩, ⟨7, 1⟩] = [(8, [0])] := by decide

/-! ### A reload fails an outbound HTLC of a closed channel only once the closing transaction is buried

`ClosedMon` = what the closed channel's monitor knows when the manager is read; `WellFormed`: the monitor sets
`funding_spend_confirmed` only when the FundingSpendConfirmation entry has matured (pinned by gen_restart.py), i.e.
at `spendHeight + ANTI_REORG_DELAY - 1 ≤ best`.  All heights, all HTLC positions. -/

def WellFormed (m : ClosedMon) : Prop :=
  m.matured = true → ∃ h, m.spendHeight = some h ∧ h + ANTI_REORG_DELAY - 1 ≤ m.best

/-- failed on reload ⇒ the closing transaction has at least ANTI_REORG_DELAY confirmations -/
theorem failed_on_reload_only_if_buried (m : ClosedMon) (hw : WellFormed m) (pos : HtlcPos) (r : Bool)
    (h : failedOnReload m pos r = true) :
    ∃ ht, m.spendHeight = some ht ∧ ht ≤ m.best ∧ m.confirmations ≥ ANTI_REORG_DELAY := by
  have hc : m.confirmedForReload = true := by
    unfold failedOnReload at h
    cases hx : m.confirmedForReload with
    | true => rfl
    | false => simp [hx] at h
  have key : ∃ ht, m.spendHeight = some ht ∧ ht + ANTI_REORG_DELAY - 1 ≤ m.best := by
    unfold ClosedMon.confirmedForReload at hc
    cases hm : m.matured with
    | true => exact hw hm
    | false =>
      rw [hm] at hc
      cases hs : m.spendHeight with
      | none => rw [hs] at hc; simp at hc
      | some ht =>
        rw [hs] at hc
        refine ⟨ht, rfl, ?_⟩
        simpa [fundingSpendBuried] using hc
  obtain ⟨ht, hs, hb⟩ := key
  have : ANTI_REORG_DELAY = 6 := rfl
  refine ⟨ht, hs, by omega, ?_⟩
  unfold ClosedMon.confirmations
  rw [hs]; simp only; omega

/-- fewer than ANTI_REORG_DELAY confirmations (or none) ⇒ no outbound HTLC is failed by the reload: it stays pending -/
theorem not_buried_kept_pending (m : ClosedMon) (hw : WellFormed m) (pos : HtlcPos) (r : Bool)
    (h : m.confirmations < ANTI_REORG_DELAY) : failedOnReload m pos r = false := by
  cases hf : failedOnReload m pos r with
  | false => rfl
  | true =>
    obtain ⟨_, _, _, hc⟩ := failed_on_reload_only_if_buried m hw pos r hf
    omega

/-- ... and once it is buried, an HTLC that is absent from the confirmed commitment (or dust in it) and was not yet
    reported to the user is failed -/
theorem buried_absent_failed (m : ClosedMon) (ht : Nat) (hs : m.spendHeight = some ht)
    (hb : ht + ANTI_REORG_DELAY - 1 ≤ m.best) : failedOnReload m .absent false = true ∧ failedOnReload m .dust false = true := by
  have : m.confirmedForReload = true := by
    unfold ClosedMon.confirmedForReload
    rw [hs]; simp [fundingSpendBuried, hb]
  simp [failedOnReload, this]

example : failedOnReload ⟨false, some 100, 100⟩ .absent false = false := by decide   -- 1 confirmation
example : failedOnReload ⟨false, some 100, 104⟩ .dust false = false := by decide     -- 5 confirmations
example : failedOnReload ⟨false, some 100, 105⟩ .absent false = true := by decide    -- 6 confirmations
example : failedOnReload ⟨true, some 100, 110⟩ (.output false) false = false := by decide

/-! ### What the read REBUILDS (Model/Reconstruct.lean): claims replayed, HTLCs failed back, payments, wake-up events

A node world `n : NodeW`: per channel the numeric world above (or none: the manager copy no longer has the channel), the
entries of the monitor copy's `get_all_current_outbound_htlcs` / `get_onchain_failed_outbound_htlcs`, whether the monitor has
claimable balances, the HTLC sources of the manager copy's channel; the manager copy's payments and queued forwards.  ALL node
worlds (the manager copy arbitrarily stale, any monitors), no bounds. -/

/-- `claim replay complete`: every forwarded HTLC for which SOME monitor (of an open or a closed channel) holds the preimage is
    claimed upstream by the read, provided the inbound edge's monitor is loaded and still has claimable balances (otherwise there is
    nothing left to claim against). -/
theorem claim_replay_complete (n : NodeW) (c : ChanW) (hc : c ∈ n.chans) (h : MonHtlc) (hh : h ∈ c.monHtlcs)
    (ic id : Nat) (hs : h.src = .prev ic id) (hp : h.preimage = true) (i : ChanW) (hi : n.chan? ic = some i)
    (hb : i.balancesEmpty = false) : ⟨.prev ic id, c.id, c.closed⟩ ∈ claims n := by
  rw [mem_claims]
  refine ⟨c, hc, h, hh, ?_, by rw [hs]⟩
  have : h = ⟨.prev ic id, true⟩ := by cases h; simp_all
  rw [this, claimDecision_prev]
  exact ⟨rfl, i, hi, hb⟩

/-- ... and nothing else is claimed: a replayed claim is backed by a preimage in the monitor of its downstream channel, is for a
    forwarded HTLC (never for an own payment) and its inbound edge's monitor is loaded with claimable balances -/
theorem claim_replay_sound (n : NodeW) (cl : Claim) (h : cl ∈ claims n) :
    ∃ c ∈ n.chans, cl.downstream = c.id ∧ cl.downstreamClosed = c.closed ∧ ⟨cl.src, true⟩ ∈ c.monHtlcs ∧
      ∃ ic id i, cl.src = .prev ic id ∧ n.chan? ic = some i ∧ i.balancesEmpty = false := by
  obtain ⟨c, hc, m, hm, hd, rfl⟩ := (mem_claims n cl).mp h
  refine ⟨c, hc, rfl, rfl, ?_⟩
  cases m with
  | mk src pre =>
    cases src with
    | route p k => rw [claimDecision_route] at hd; cases hd
    | prev ic id =>
      obtain ⟨hp, i, hi, hb⟩ := (claimDecision_prev n ic id pre).mp hd
      subst hp
      exact ⟨hm, ic, id, i, rfl, hi, hb⟩

example : claims { chans := [⟨1, none, [⟨.prev 0 5, true⟩, ⟨.prev 0 6, false⟩, ⟨.route 9 1, true⟩], [], false, [], []⟩,
                            ⟨0, some { mgr := ⟨3, 3, [], ⟨9, 9, 9⟩⟩, mon := ⟨3, ⟨9, 9, 9⟩⟩ }, [], [], false, [], []⟩],
                   queue := [], pays := fun _ => none } = [⟨.prev 0 5, 1, true⟩] := by decide

/-- `no HTLC is both claimed upstream and failed upstream`: a fail-back that takes effect is never for an HTLC whose claim was
    replayed.  (The raw lists CAN overlap in the model — a source one stale channel knows and its monitor forgot while another monitor
    holds its preimage, last example below; before the repair of KF-C10-6 also an HTLC of the stale manager's holding cell that the
    newer monitor committed and saw claimed — the read queues the fail, applies the claim, and FundedChannel::fail_htlc then refuses:
    pinned textually by gen_reconstruct.py, `claimWinsOverQueuedFail`.) -/
theorem never_claimed_and_failed (n : NodeW) (f : Src × FailReason) (hf : f ∈ effectiveFails n) :
    ∀ cl ∈ claims n, cl.src ≠ f.1 := by
  unfold effectiveFails at hf
  rw [List.mem_filter] at hf
  have h2 : (claims n).any (fun cl => cl.src == f.1) = false := by simpa [claimWinsOverQueuedFail] using hf.2
  rw [List.any_eq_false] at h2
  intro cl hcl he
  exact h2 cl hcl (by simp [he])

/-- a channel closed as OutdatedChannelManager fails back only sources of its own (stale) channel — what its force-shutdown dropped
    (holding-cell adds, LocalAnnounced HTLCs of a blocked commitment) or its pending HTLCs — and ONLY those the newer monitor does NOT
    list; an HTLC the monitor lists is never failed by the stale branch, whichever of the two lists it came from.
    (Restated after the repair of KF-C10-6: before it the `dropped` disjunct carried no monitor condition.) -/
theorem stale_fail_only_if_dropped_or_missing (c : ChanW) (s : Src) (r : FailReason) (h : (s, r) ∈ staleFailsOf c) :
    c.stale = true ∧ r = .channelClosed ∧ (s ∈ c.mgrDropped ∨ s ∈ c.mgrPending) ∧ ∀ m ∈ c.monHtlcs, m.src ≠ s := by
  obtain ⟨h1, h2, h3⟩ := (mem_staleFailsOf c s r).mp h
  refine ⟨h1, h2, ?_⟩
  rcases h3 with ⟨hd, hf⟩ | ⟨hp, hm⟩
  · exact ⟨Or.inl hd, (monLists_eq_false c s).mp (by simpa [droppedHtlcFailed] using hf)⟩
  · exact ⟨Or.inr hp, hm⟩

/-- ... and every such source IS failed: an HTLC the stale manager copy knows (pending or dropped by force_shutdown) and the newer
    monitor has forgotten is failed back so that it is not lost -/
theorem stale_missing_htlc_failed (c : ChanW) (s : Src) (hst : c.stale = true) (hp : s ∈ c.mgrPending ∨ s ∈ c.mgrDropped)
    (hm : ∀ m ∈ c.monHtlcs, m.src ≠ s) : (s, .channelClosed) ∈ staleFailsOf c := by
  refine (mem_staleFailsOf c s _).mpr ⟨hst, rfl, ?_⟩
  rcases hp with hp | hd
  · exact Or.inr ⟨hp, hm⟩
  · exact Or.inl ⟨hd, by simp [droppedHtlcFailed, (monLists_eq_false c s).mpr hm]⟩

/-- stale channel 1: HTLC (0,5) is pending in the manager copy and gone from the monitor: failed; (0,6) is listed by the monitor: kept -/
example : fails { chans := [⟨1, some { mgr := ⟨3, 3, [], ⟨9, 9, 9⟩⟩, mon := ⟨5, ⟨9, 9, 9⟩⟩ }, [⟨.prev 0 6, false⟩], [], false, [.prev 0 5, .prev 0 6], []⟩],
                  queue := [], pays := fun _ => none } = [(.prev 0 5, .channelClosed)] := by decide
/-- the same for what force_shutdown dropped: (0,5) sat in the holding cell and the monitor never saw it: failed; (0,6) sat in the holding
    cell when the manager was written and was committed afterwards (the monitor lists it): NOT failed -/
example : fails { chans := [⟨1, some { mgr := ⟨3, 3, [], ⟨9, 9, 9⟩⟩, mon := ⟨5, ⟨9, 9, 9⟩⟩ }, [⟨.prev 0 6, false⟩], [], false, [], [.prev 0 5, .prev 0 6]⟩],
                  queue := [], pays := fun _ => none } = [(.prev 0 5, .channelClosed)] := by decide

/-- KF-C10-6 REPAIRED (`dropped_htlc_failed_only_if_monitor_forgot_it`), every node world: an outbound HTLC that `force_shutdown` drops
    from a channel closed as OutdatedChannelManager (holding-cell add, LocalAnnounced HTLC of a blocked commitment) is failed back by
    that channel's stale branch IFF the channel's newer monitor does not list it — the same `found`-style test the pending HTLCs get.
    Consequently (second part) when the monitor forgot it the fail-back is among the read's decisions and takes effect upstream unless a
    claim of the same source is replayed; (third part) when the monitor lists it — committed to the counterparty after the manager copy
    was written, still claimable on chain — NO ChannelClosed fail-back of the whole read names it unless ANOTHER stale channel of the
    node, whose own monitor does not list it, knows the same source. -/
theorem dropped_htlc_failed_only_if_monitor_forgot_it (n : NodeW) (c : ChanW) (hc : c ∈ n.chans) (hst : c.stale = true)
    (s : Src) (hd : s ∈ c.mgrDropped) :
    ((s, .channelClosed) ∈ staleFailsOf c ↔ ∀ m ∈ c.monHtlcs, m.src ≠ s) ∧
    ((∀ m ∈ c.monHtlcs, m.src ≠ s) →
      (s, .channelClosed) ∈ fails n ∧ ((∀ cl ∈ claims n, cl.src ≠ s) → (s, .channelClosed) ∈ effectiveFails n)) ∧
    ((∃ m ∈ c.monHtlcs, m.src = s) → (s, .channelClosed) ∈ fails n →
      ∃ c' ∈ n.chans, c' ≠ c ∧ c'.stale = true ∧ (s ∈ c'.mgrDropped ∨ s ∈ c'.mgrPending) ∧ ∀ m ∈ c'.monHtlcs, m.src ≠ s) := by
  refine ⟨⟨fun h => (stale_fail_only_if_dropped_or_missing c s _ h).2.2.2,
           fun hm => stale_missing_htlc_failed c s hst (Or.inr hd) hm⟩, fun hm => ?_, fun hl hf => ?_⟩
  · have hf : (s, FailReason.channelClosed) ∈ fails n :=
      (mem_fails_channelClosed n s).mpr ⟨c, hc, stale_missing_htlc_failed c s hst (Or.inr hd) hm⟩
    refine ⟨hf, fun hn => ?_⟩
    unfold effectiveFails
    refine List.mem_filter.mpr ⟨hf, ?_⟩
    simp only [Bool.not_eq_true', Bool.and_eq_false_iff, List.any_eq_false, beq_iff_eq]
    exact Or.inr (fun cl hcl => by simpa using hn cl hcl)
  · obtain ⟨c', hc', hf'⟩ := (mem_fails_channelClosed n s).mp hf
    obtain ⟨h1, _, h3, h4⟩ := stale_fail_only_if_dropped_or_missing c' s _ hf'
    refine ⟨c', hc', ?_, h1, h3, h4⟩
    rintro rfl
    obtain ⟨m, hm, he⟩ := hl
    exact h4 m hm he

/-- the model-side counterpart of the harness' world oracle: EVERY ChannelClosed fail decision of the read (all node worlds) is for a
    source some stale channel of the manager copy knows while that channel's own newer monitor does not list it.  In particular, with
    sources unique to one channel, an HTLC its channel's monitor still lists as committed is never failed back at start-up. -/
theorem channel_closed_fail_names_a_forgetting_monitor (n : NodeW) (s : Src) (h : (s, .channelClosed) ∈ fails n) :
    ∃ c ∈ n.chans, c.stale = true ∧ (s ∈ c.mgrDropped ∨ s ∈ c.mgrPending) ∧ ∀ m ∈ c.monHtlcs, m.src ≠ s := by
  obtain ⟨c, hc, hf⟩ := (mem_fails_channelClosed n s).mp h
  obtain ⟨h1, _, h3, h4⟩ := stale_fail_only_if_dropped_or_missing c s _ hf
  exact ⟨c, hc, h1, h3, h4⟩

/-- (0,7) sat in the stale manager's holding cell, the newer monitor lists it WITH its preimage: it is claimed upstream and no longer
    failed at all (before the repair: raw fail + claim, the claim won) -/
example : (let n : NodeW := { chans := [⟨1, some { mgr := ⟨3, 3, [], ⟨9, 9, 9⟩⟩, mon := ⟨5, ⟨9, 9, 9⟩⟩ }, [⟨.prev 0 7, true⟩], [], false, [], [.prev 0 7]⟩,
                                       ⟨0, none, [], [], false, [], []⟩], queue := [], pays := fun _ => none }
    (fails n, (claims n).map (·.src), effectiveFails n)) = ([], [.prev 0 7], []) := by decide
/-- raw overlap (model level): stale channel 1 knows (0,7) and its monitor forgot it, channel 3's monitor holds the preimage: claim wins -/
example : (let n : NodeW := { chans := [⟨1, some { mgr := ⟨3, 3, [], ⟨9, 9, 9⟩⟩, mon := ⟨5, ⟨9, 9, 9⟩⟩ }, [], [], false, [.prev 0 7], []⟩,
                                       ⟨3, none, [⟨.prev 0 7, true⟩], [], false, [], []⟩,
                                       ⟨0, none, [], [], false, [], []⟩], queue := [], pays := fun _ => none }
    (fails n, (claims n).map (·.src), effectiveFails n)) = ([(.prev 0 7, .channelClosed)], [.prev 0 7], []) := by decide

/-- the world that WAS KF-C10-6 (scenario 1, seed 7862637804313477842, manager of q=34, channel 2's monitor of point 37 / 46): the forward
    of inbound HTLC (1,0) sat in channel 2's holding cell when the manager was written; the newer monitor lists it as committed and
    pending (no preimage).  The read no longer fails it upstream: it stays committed on the inbound channel and is resolved through the
    monitor (the harness' end-to-end probe lets the downstream peer claim it on chain: the forwarder claims upstream). -/
example : (let n : NodeW := { chans := [⟨2, some { mgr := ⟨4, 4, [], ⟨9, 9, 9⟩⟩, mon := ⟨7, ⟨9, 9, 9⟩⟩ }, [⟨.prev 1 0, false⟩], [], false, [], [.prev 1 0]⟩,
                                       ⟨1, some { mgr := ⟨2, 2, [], ⟨9, 9, 9⟩⟩, mon := ⟨2, ⟨9, 9, 9⟩⟩ }, [], [], false, [], []⟩], queue := [], pays := fun _ => none }
    (fails n, effectiveFails n, (n.chans.head!).monHtlcs)) = ([], [], [⟨.prev 1 0, false⟩]) := by decide
/-- the same manager copy against a monitor that never received the HTLC (crash before the holding cell was freed): failed back, as it must -/
example : (let n : NodeW := { chans := [⟨2, some { mgr := ⟨4, 4, [], ⟨9, 9, 9⟩⟩, mon := ⟨5, ⟨9, 9, 9⟩⟩ }, [], [], false, [], [.prev 1 0]⟩,
                                       ⟨1, some { mgr := ⟨2, 2, [], ⟨9, 9, 9⟩⟩, mon := ⟨2, ⟨9, 9, 9⟩⟩ }, [], [], false, [], []⟩], queue := [], pays := fun _ => none }
    effectiveFails n) = [(.prev 1 0, .channelClosed)] := by decide

/-- `reconcile soundness` at node level: a queued forward disappears in the read only if the monitor of a channel that is closed at
    load time lists that very inbound HTLC as forwarded -/
theorem queued_forward_dropped_only_if_forwarded (n : NodeW) (f : HtlcRef) (hq : f ∈ n.queue) (hd : f ∉ queueAfter n) :
    ∃ c ∈ n.chans, c.closed = true ∧ ∃ m ∈ c.monHtlcs, m.src = .prev f.chan f.id := by
  obtain ⟨r, hr, h1, h2⟩ := reconcile_dropped_only_if_forwarded _ _ f hq hd
  obtain ⟨c, hc, hrc⟩ := List.mem_flatMap.mp hr
  obtain ⟨hc1, hc2⟩ := List.mem_filter.mp hc
  obtain ⟨m, hm, hs⟩ := (mem_prevHops c r).mp hrc
  exact ⟨c, hc1, by simpa [closedBlock] using hc2, m, hm, by rw [hs, h1, h2]⟩

theorem queued_forward_kept_unless_forwarded (n : NodeW) (f : HtlcRef) (hq : f ∈ n.queue)
    (hn : ∀ c ∈ n.chans, c.closed = true → ∀ m ∈ c.monHtlcs, m.src ≠ .prev f.chan f.id) : f ∈ queueAfter n := by
  apply reconcile_never_forwarded_kept _ _ f hq
  intro r hr hc
  obtain ⟨c, hcm, hrc⟩ := List.mem_flatMap.mp hr
  obtain ⟨hc1, hc2⟩ := List.mem_filter.mp hcm
  obtain ⟨m, hm, hs⟩ := (mem_prevHops c r).mp hrc
  exact hn c hc1 (by simpa [closedBlock] using hc2) m hm (by rw [hs, hc.1, hc.2])

/-- `an outbound payment with a claimed part is never failed`.  PARTIAL: proved when the claimed part is still LISTED, with its
    preimage, by the monitor of a channel that is closed at load time (then `insert_from_monitor_on_startup` + `claim_htlc` make the
    entry Fulfilled before any `fail_htlc` of the read runs, whatever the stale manager copy believed and whatever else is failed).
    What is missing is exactly KF-C10-2: once the monitor has dropped the resolved part (`htlcs_resolved_to_user` / removed from both
    counterparty commitments) a manager copy written before the claim still lists it, `!found_htlc` fails it and PaymentFailed
    is emitted (example below).  This is the C10-side half of the coupling that Props/C03 `restart_never_contradicts_partial`
    assumes (`Good` after restore + insert). -/
theorem claimed_part_never_failed_partial (n : NodeW) (c : ChanW) (hc : c ∈ n.chans) (hcl : c.closed = true)
    (P k : Nat) (hm : ⟨.route P k, true⟩ ∈ c.monHtlcs) :
    PEv.failed P ∉ (paysAfter n).evs ∧ ∃ p, (paysAfter n).get P = some p ∧ p.state = .fulfilled := by
  have hins : (P, k) ∈ routeInserts n := by
    unfold routeInserts
    refine List.mem_flatMap.mpr ⟨c, List.mem_filter.mpr ⟨hc, by simp [insertOnStartup, hcl]⟩, ?_⟩
    rw [mem_routesOf]; exact List.mem_map.mpr ⟨_, hm, rfl⟩
  have hclm : (P, k) ∈ routeClaims n := by
    unfold routeClaims
    refine List.mem_flatMap.mpr ⟨c, List.mem_filter.mpr ⟨hc, by simp [closedBlock, hcl]⟩, ?_⟩
    rw [mem_routesOf]; exact List.mem_map.mpr ⟨_, List.mem_filter.mpr ⟨hm, rfl⟩, rfl⟩
  obtain ⟨e1, p1⟩ := foldl_insertPay (routeInserts n) ⟨n.pays, []⟩ P
  have hpres := p1 (Or.inr ⟨k, hins⟩)
  have hnf1 : NoFail ((routeInserts n).foldl insertPay ⟨n.pays, []⟩) P := by unfold NoFail; rw [e1]; simp
  obtain ⟨a, _, _, d⟩ := foldl_claimPay (routeClaims n) ((routeInserts n).foldl insertPay ⟨n.pays, []⟩) P
  obtain ⟨hful, hnf⟩ := foldl_failPay (routeFails n) _ P (d hpres ⟨k, hclm⟩) (a hnf1)
  exact ⟨hnf, hful⟩

/-- a claim the stale manager never saw, a sibling part failed as missing: PaymentSent is generated, PaymentFailed is not -/
example : (paysAfter { chans := [⟨1, none, [⟨.route 7 1, true⟩], [], false, [], []⟩,
                                 ⟨2, some { mgr := ⟨3, 3, [], ⟨9, 9, 9⟩⟩, mon := ⟨5, ⟨9, 9, 9⟩⟩ }, [], [], false, [.route 7 2], []⟩],
                       queue := [], pays := fun i => if i = 7 then some ⟨.retryable, [1, 2], false⟩ else none }).evs = [.sent 7] := by decide
/-- KF-C10-2 in the model: the payment's only part was claimed and the newer monitor no longer lists it; the manager copy (written
    before the claim) still does; the channel is closed as stale: `!found_htlc` fails the part and PaymentFailed is emitted -/
example : (paysAfter { chans := [⟨2, some { mgr := ⟨3, 3, [], ⟨9, 9, 9⟩⟩, mon := ⟨5, ⟨9, 9, 9⟩⟩ }, [], [], false, [.route 7 1], []⟩],
                       queue := [], pays := fun i => if i = 7 then some ⟨.retryable, [1], false⟩ else none }).evs = [.failed 7] := by decide

/-- wake-up events of a RESUMED channel (MonitorUpdatesComplete / MonitorUpdateRegeneratedOnStartup / AttemptUnblockMonitorUpdates):
    the read queues none of them iff the manager copy lists nothing in flight AND no blocked update survives
    `on_startup_drop_completed_blocked_mon_updates_through`.  Every world. -/
theorem no_wakeup_event_iff (w : World) :
    bgEvents w = [] ↔ w.mgr.inFlight = [] ∧ blockedAfter w.mgr w.mon.id = [] := bgEvents_eq_nil_iff w

/-- `a channel written while waiting for a monitor update is woken by the read`.  PARTIAL: holds unless the manager copy has blocked
    updates, nothing in flight, and the monitor copy already contains every blocked update — the KF-C10-1 world, in which the channel
    keeps MONITOR_UPDATE_IN_PROGRESS with no event queued (example below, also as a run of the history generator). -/
theorem paused_channel_woken_partial (w : World)
    (hkf1 : ¬ (w.mgr.inFlight = [] ∧ w.mgr.unblockedId < w.mgr.latestId ∧ w.mgr.latestId ≤ w.mon.id))
    (hp : w.mgr.paused = true) : bgEvents w ≠ [] := by
  intro h
  obtain ⟨h1, h2⟩ := (bgEvents_eq_nil_iff w).mp h
  have hlt : w.mgr.unblockedId < w.mgr.latestId := by
    simpa [Mgr.paused, h1] using hp
  apply hkf1
  refine ⟨h1, hlt, ?_⟩
  -- the last blocked id would survive the drop if it were above the monitor's id
  by_cases hle : w.mgr.latestId ≤ w.mon.id
  · exact hle
  · exfalso
    have hmem : w.mgr.latestId ∈ blockedAfter w.mgr w.mon.id := by
      unfold blockedAfter
      rw [List.mem_filter, List.mem_range'_1]
      refine ⟨by omega, ?_⟩
      simp [blockedDropped]; omega
    rw [h2] at hmem; cases hmem

/-- KF-C10-1 in the model: written with update 2 blocked and nothing in flight (update 1 completed and was notified); update 2 is then
    released and persisted; crash.  The channel is resumed, the blocked update is dropped as completed, and NO background event
    is queued although the channel was written paused. -/
example : (let st := reach 0 ⟨9, 9, 9⟩ [.update ⟨1, 0, 0⟩ false, .complete 1, .notify, .update ⟨0, 0, 1⟩ true, .persistManager, .release, .complete 2]
    (reload (st.world 2), st.disk.paused, bgEvents (st.world 2), blockedAfter st.disk 2)) = (.resumed [], true, [], []) := by decide
/-- the same manager copy with the monitor one update behind: the blocked update survives and AttemptUnblockMonitorUpdates is queued -/
example : (let st := reach 0 ⟨9, 9, 9⟩ [.update ⟨1, 0, 0⟩ false, .complete 1, .notify, .update ⟨0, 0, 1⟩ true, .persistManager, .release]
    bgEvents (st.world 1)) = [.attemptUnblock] := by decide
/-- all in-flight updates reached the disk: MonitorUpdatesComplete with the highest in-flight id; one missing: it is replayed -/
example : (bgEvents { mgr := ⟨4, 4, [3, 4], ⟨9, 9, 9⟩⟩, mon := ⟨4, ⟨9, 9, 9⟩⟩ }, bgEvents { mgr := ⟨4, 4, [3, 4], ⟨9, 9, 9⟩⟩, mon := ⟨3, ⟨9, 9, 9⟩⟩ })
    = ([.updatesComplete 4], [.regenerated 4]) := by decide

/-! ### Persistent events are re-delivered until handled (Model/EventReplay.lean)

An outbound HTLC of a closed channel times out on chain; `OutboundPayments::fail_htlc` queues `PaymentPathFailed` and
`PaymentFailed` and attaches the `ReleasePaymentComplete` completion action to one of them (GENERATED `failHtlcPushes`,
translated from the Rust text on every run).  The handler may accept any prefix of the pending events and have the rest replayed,
the manager may be written at any point, the node may crash at any point, any number of times (`erun`: every op list). -/

/-- after ANY run and a crash at its end: if the HTLC's timeout is buried, `Event::PaymentFailed` has been handled by the
    application or is pending again in the restarted manager (where it stays until handled) -/
theorem terminal_event_redelivered (ops : List EOp) :
    let s := erun failHtlcPushes ops
    s.failedOnchain = true →
      s.handledTerminal = true ∨ (reloadE failHtlcPushes s.disk s.closed s.failedOnchain s.resolved).terminalPending = true := by
  intro s h
  have hd := (run_inv failHtlcPushes_good (ops ++ [.crash])).d
  have hs : erun failHtlcPushes (ops ++ [.crash]) = estep failHtlcPushes s .crash := by
    simp [erun, List.foldl_append, s]
  rw [hs] at hd
  exact hd h

/-- without a crash at the end as well: the terminal event is handled or still pending in the live manager -/
theorem terminal_event_pending_until_handled (ops : List EOp) :
    let s := erun failHtlcPushes ops
    s.failedOnchain = true → s.handledTerminal = true ∨ s.live.terminalPending = true :=
  (run_inv failHtlcPushes_good ops).d

/-- the monitor stops reporting the HTLC (`htlcs_resolved_to_user`) only after `Event::PaymentFailed` itself was handled -/
theorem monitor_forgets_only_after_terminal_handled (ops : List EOp) :
    (erun failHtlcPushes ops).resolved = true → (erun failHtlcPushes ops).handledTerminal = true :=
  (run_inv failHtlcPushes_good ops).a

/-- the same for ANY attachment of the completion action that puts it on the terminal event only -/
theorem terminal_event_redelivered_of_good_attachment (T : Pushes) (hT : GoodPushes T) (ops : List EOp) :
    (erun T (ops ++ [.crash])).failedOnchain = true →
      (erun T (ops ++ [.crash])).handledTerminal = true ∨ (erun T (ops ++ [.crash])).live.terminalPending = true :=
  (run_inv hT (ops ++ [.crash])).d

/-- non-vacuity: PaymentPathFailed handled, PaymentFailed replayed, crash, manager written before the timeout: PaymentFailed is back -/
example : (let s := erun failHtlcPushes [.close, .persist, .timeout, .handle 1, .crash]
    (s.failedOnchain, s.handledTerminal, s.resolved, s.live.terminalPending, s.live.part)) = (true, false, false, true, false) := by decide
/-- with the completion action on PaymentPathFailed instead (the table the translator produces for seeded change C10-r4) the very
    same run loses the terminal event for good: the monitor no longer reports the HTLC, the manager copy still has the part in flight -/
example : (let s := erun (fun full => if full then [(false, true), (true, false)] else [(false, true)]) [.close, .persist, .timeout, .handle 1, .crash]
    (s.failedOnchain, s.handledTerminal, s.resolved, s.live.terminalPending, s.live.part)) = (true, false, true, false, true) := by decide
/-- a manager copy written before the closure (stale): the HTLC is failed through the OutdatedChannelManager path once it is resolved -/
example : (let s := erun failHtlcPushes [.persist, .close, .timeout, .handle 2, .crash]
    (s.handledTerminal, s.resolved, s.live.queue)) = (true, true, [⟨false, false⟩, ⟨true, false⟩]) := by decide

/-! ## Re-delivery of `Event::HTLCIntercepted` for the HTLCs held in `pending_intercepted_htlcs` (Model/InterceptRegen.lean)

Every op list over intercept / handle k (any handled prefix) / resolve (forward_, fail_intercepted_htlc, expiry) / persist / crash, any
number of HTLCs held at once, any manager write points, any number of crashes; production (legacy) reload path.  All of it rests on the
lemmas of Proofs/InterceptRegen about the GENERATED `eventIsFor` (the test of the regeneration loop, translated with Rust's scoping),
`regenWhen`, `mkInterceptedEvent` and `interceptsFromDisk`. -/

/-- after a restart EVERY intercepted HTLC the node still holds has an `Event::HTLCIntercepted` naming it pending again — whether its
    event was still in the written queue or had been handled before the manager was written (seeded C10-r5: the generated test no
    longer depends on the loop key and `eventIsFor_iff`, on which this rests, is false) -/
theorem intercepted_event_redelivered_after_restart (ops : List IOp) :
    ∀ kv ∈ (irun (ops ++ [.crash])).live.held, (irun (ops ++ [.crash])).live.eventPending kv.1 = true := by
  intro kv hkv
  have hs : irun (ops ++ [.crash]) = istep (irun ops) .crash := by simp [irun, List.foldl_append]
  rcases (irun_inv (ops ++ [.crash])).k kv hkv with h | h
  · exact h
  · rw [hs] at h; simp [istep] at h

/-- at every point of every run: a held intercepted HTLC has its event pending, or the handler of the RUNNING process accepted it
    (since the last restart) — the application is never left without the intercept id of an HTLC the node holds -/
theorem intercepted_event_pending_until_handled (ops : List IOp) :
    ∀ kv ∈ (irun ops).live.held, (irun ops).live.eventPending kv.1 = true ∨ kv.1 ∈ (irun ops).told :=
  (irun_inv ops).k

/-- the restart neither drops nor invents a held HTLC, and the events of the written queue are all delivered again, first and in order -/
theorem restart_keeps_held_and_written_events (ops : List IOp) :
    (irun (ops ++ [.crash])).live.held = (irun ops).disk.held ∧ ∃ r, (irun (ops ++ [.crash])).live.queue = (irun ops).disk.queue ++ r := by
  have hs : irun (ops ++ [.crash]) = istep (irun ops) .crash := by simp [irun, List.foldl_append]
  rw [hs]
  refine ⟨by simp [istep, reloadI, interceptsFromDisk_legacy], ?_⟩
  simp only [istep, reloadI, interceptsFromDisk_legacy, if_true]
  exact regen_prefix _ _

/-- no second event is created for an HTLC whose event is in the written queue: if all held HTLCs have one, the queue is unchanged -/
theorem restart_adds_no_duplicate (d : IcMgr) (h : ∀ kv ∈ d.held, d.eventPending kv.1 = true) : (reloadI false d).queue = d.queue := by
  simp only [reloadI, interceptsFromDisk_legacy, if_true]
  have H : ∀ (held : List (Nat × IcHtlc)) (q : List IcEv), (∀ kv ∈ held, q.any (fun e => e.interceptId == kv.1) = true) → regen held q = q := by
    intro held
    induction held with
    | nil => intro q _; rfl
    | cons a t ih =>
      intro q hq
      have h1 := regenStep_noop_of_pending q a (hq a (List.mem_cons_self ..))
      simp only [regen, List.foldl_cons, h1]
      exact ih q (fun kv hkv => hq kv (List.mem_cons_of_mem _ hkv))
  exact H d.held d.queue h

/-- non-vacuity (the scenario of seeded C10-r5): two HTLCs held, the first event handled, the second replayed, manager written, crash:
    both are pending after the restart — the written one first, the handled one regenerated -/
example : (let h1 : IcHtlc := ⟨11, some 6000, 5000, 130, some 77⟩; let h2 : IcHtlc := ⟨22, some 8000, 7000, 131, some 77⟩
    let s := irun [.intercept 1 h1, .intercept 2 h2, .handle 1, .persist, .crash]
    (heldIds s.live, s.live.queue.map (·.interceptId), s.live.eventPending 1, s.live.eventPending 2, s.told)) = ([1, 2], [2, 1], true, true, []) := by decide
/-- with the test the translator produces for seeded C10-r5 (`e.interceptId = e.interceptId`: "is there ANY HTLCIntercepted event") the
    handled HTLC's event is NOT regenerated in the same world -/
example : (let h1 : IcHtlc := ⟨11, some 6000, 5000, 130, some 77⟩; let h2 : IcHtlc := ⟨22, some 8000, 7000, 131, some 77⟩
    let held := [(1, h1), (2, h2)]; let q := (mkInterceptedEvent 2 h2).toList
    (held.foldl (fun q kv => if !(q.any (fun e => decide (e.interceptId = e.interceptId))) then q ++ (mkInterceptedEvent kv.1 kv.2).toList else q) q).map (·.interceptId)) = [2] := by decide
/-- a resolved (forwarded / failed) HTLC is not held after the restart although its stale event may still be delivered -/
example : (let h1 : IcHtlc := ⟨11, some 6000, 5000, 130, some 77⟩
    let s := irun [.intercept 1 h1, .persist, .resolve 1, .persist, .crash]
    (heldIds s.live, s.live.queue.map (·.interceptId))) = ([], [1]) := by decide

/-- the (re)generated event describes the held HTLC truthfully: its own intercept id, the HTLC's payment hash, the amount that came in,
    the amount the onion asks to send out, the outgoing expiry and the requested next-hop SCID (over the GENERATED `mkInterceptedEvent`) -/
theorem intercepted_event_truthful (id : Nat) (h : IcHtlc) (e : IcEv) (he : mkInterceptedEvent id h = some e) :
    e.interceptId = id ∧ e.paymentHash = h.paymentHash ∧ some e.inboundAmountMsat = h.incomingAmt ∧
    e.expectedOutboundAmountMsat = h.outgoingAmt ∧ e.outgoingHtlcExpiry = some h.outgoingCltv ∧ some e.requestedNextHopScid = h.fwdScid := by
  unfold mkInterceptedEvent at he
  cases ha : h.incomingAmt <;> cases hs : h.fwdScid <;> simp [ha, hs] at he
  subst he
  simp

/-- non-vacuity -/
example : mkInterceptedEvent 1 ⟨11, some 6000, 5000, 130, some 77⟩ = some ⟨77, 11, 6000, 5000, 1, some 130⟩ := by decide

/-- the expiry sweep (GENERATED `interceptTimedOut`): once the best block is `height`, exactly the held HTLCs whose outgoing expiry is more than
    HTLC_FAIL_BACK_BUFFER blocks away stay held — none is kept past the fail-back deadline (the inbound HTLC is failed back in time even when its
    event was never acted on), none is dropped early; its event is still pending or known to the running application (invariant above) -/
theorem held_intercept_swept_exactly_at_deadline (s : ISt) (height : Nat) (kv : Nat × IcHtlc) :
    kv ∈ (istep s (.blocks height)).live.held ↔ (kv ∈ s.live.held ∧ height + Ldk.HTLC_FAIL_BACK_BUFFER < kv.2.outgoingCltv) := by
  simp only [istep, List.mem_filter]
  have := interceptTimedOut_iff height kv.2
  cases hto : interceptTimedOut height kv.2
  · have h2 : ¬ kv.2.outgoingCltv ≤ height + Ldk.HTLC_FAIL_BACK_BUFFER := fun hh => by rw [this.2 hh] at hto; cases hto
    simp; intro _; omega
  · have h2 := this.1 hto
    simp; intro _; omega

/-- non-vacuity: outgoing expiry 130, buffer 39: held at height 90, failed back at height 91 -/
example : (let h1 : IcHtlc := ⟨11, some 6000, 5000, 130, some 77⟩
    (heldIds (irun [.intercept 1 h1, .blocks 90]).live, heldIds (irun [.intercept 1 h1, .blocks 91]).live)) = ([1], []) := by decide

/-- reconstruct-from-monitors reload path: the restarted manager holds NO intercepted HTLC yet and keeps exactly the written events; the committed
    inbound HTLCs are decoded again afterwards (`intercept` ops), and `intercepted_event_pending_until_handled` — which quantifies over op lists
    containing `crashRebuild` as well — gives every re-intercepted HTLC its pending event -/
theorem reconstruct_restart_starts_empty (ops : List IOp) :
    (irun (ops ++ [.crashRebuild])).live = { held := [], queue := (irun ops).disk.queue } := by
  have hs : irun (ops ++ [.crashRebuild]) = istep (irun ops) .crashRebuild := by simp [irun, List.foldl_append]
  rw [hs]; simp [istep, reloadI_reconstruct]

/-- decoding an HTLC again after such a restart does not duplicate its event: the equal written event is retained out before the push -/
theorem reintercept_adds_no_duplicate (s : ISt) (id : Nat) (h : IcHtlc) (e : IcEv) (hn : (heldIds s.live).contains id = false)
    (he : mkInterceptedEvent id h = some e) : (istep s (.intercept id h)).live.queue.count e = 1 := by
  simp only [istep, hn, he]
  simp [List.count_append, List.count_eq_zero]

/-- non-vacuity: two HTLCs held, first event handled, manager written, restart on the reconstruct path, both decoded again: both pending once -/
example : (let h1 : IcHtlc := ⟨11, some 6000, 5000, 130, some 77⟩; let h2 : IcHtlc := ⟨22, some 8000, 7000, 131, some 77⟩
    let s := irun [.intercept 1 h1, .intercept 2 h2, .handle 1, .persist, .crashRebuild]
    let s' := irun [.intercept 1 h1, .intercept 2 h2, .handle 1, .persist, .crashRebuild, .intercept 1 h1, .intercept 2 h2]
    (heldIds s.live, s.live.queue.map (·.interceptId), heldIds s'.live, s'.live.queue.map (·.interceptId))) = ([], [2], [1, 2], [1, 2]) := by decide

end Ldk.C10
