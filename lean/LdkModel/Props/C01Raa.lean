/- C01 — revoke_and_ack (census row `revoke_and_ack`): property theorems only.  `Node.onRaaG` (Model/ChanRaa.lean) applies the tables
   GENERATED from FundedChannel::revoke_and_ack (tools/gen_raa.py → Generated/RaaRewrites.lean) to the node of the two-party
   protocol model; `Node.onRaa` (Model/Channel.lean) is the hand mirror every protocol theorem (agreement, balances, counters,
   retransmission, persistence) is stated about. -/
import LdkModel.Model.ChanRaa

namespace Ldk.C01Raa
open Ldk Ldk.Chan

theorem filterMap_eq_filter_map {α β : Type} (f : α → Option β) (p : α → Bool) (g : α → β)
    (h : ∀ a, f a = if p a then some (g a) else none) (l : List α) : l.filterMap f = (l.filter p).map g := by
  induction l with
  | nil => rfl
  | cons a t ih =>
    rw [List.filterMap_cons, h a, List.filter_cons]
    cases p a <;> simp [ih]

/-- THE GENERATED revoke_and_ack IS THE MODEL'S revoke_and_ack, for ALL node states (reachable or not): the HTLCs the two retain
    passes remove, the amounts that enter value_to_self_msat_diff with their signs and the i64 application, the promotions of the
    two iter_mut passes (run after the retain passes), the promotion of pending_update_fee per FeeUpdateState and the
    AwaitingRemoteRevoke guard — as translated from the source text — give exactly the node `Node.onRaa` gives.  A flipped sign, a
    promotion to another state, a removal of another state, a fee arm that stops (or starts) committing the feerate changes a
    generated table and this proof fails. -/
theorem raa_generated_eq (n : Node) : n.onRaaG = n.onRaa := by
  have hin : n.inb.filterMap (fun (h : InHtlc) => h.st.onRaa.map (fun st => ({ h with st := st } : InHtlc))) =
      (n.inb.filter (fun h => match h.st with | .localRemoved _ => false | _ => true)).map (fun (h : InHtlc) =>
        match h.st with
        | .awaitingRemoteRevokeToAnnounce => { h with st := .awaitingAnnouncedRemoteRevoke }
        | .awaitingAnnouncedRemoteRevoke => { h with st := .committed }
        | _ => h) := by
    apply filterMap_eq_filter_map
    intro a; obtain ⟨i, am, st⟩ := a; cases st <;> rfl
  have hout : n.outb.filterMap (fun (h : OutHtlc) => h.st.onRaa.map (fun st => ({ h with st := st } : OutHtlc))) =
      (n.outb.filter (fun h => match h.st with | .awaitingRemovedRemoteRevoke _ => false | _ => true)).map (fun (h : OutHtlc) =>
        match h.st with
        | .localAnnounced => { h with st := .committed }
        | .awaitingRemoteRevokeToRemove ok => { h with st := .awaitingRemovedRemoteRevoke ok }
        | _ => h) := by
    apply filterMap_eq_filter_map
    intro a; obtain ⟨i, am, st⟩ := a; cases st <;> rfl
  have hci : (fun (h : InHtlc) => h.st.raaCounted) = (fun (h : InHtlc) => h.st == .localRemoved true) := by
    funext h; obtain ⟨i, am, st⟩ := h; cases st <;> first | rfl | (rename_i b; cases b <;> rfl)
  have hco : (fun (h : OutHtlc) => h.st.raaCounted) = (fun (h : OutHtlc) => h.st == .awaitingRemovedRemoteRevoke true) := by
    funext h; obtain ⟨i, am, st⟩ := h; cases st <;> first | rfl | (rename_i b; cases b <;> rfl)
  have hv : ∀ v g l : Nat, raaValueToSelf v g l = v + g - l := by
    intro v g l; unfold raaValueToSelf; omega
  unfold Node.onRaaG Node.onRaa
  cases n.awaitingRaa
  · rfl
  · simp only [Bool.not_true, Bool.false_eq_true, if_false]
    rw [hin, hout, hci, hco, hv]
    rcases hp : n.pendingFee with _ | ⟨f, st⟩
    · rfl
    · cases st <;> rfl

/-- ... hence every revoke_and_ack processed in any run is processed by the generated tables -/
theorem raa_message_generated (n : Node) (total : Nat) :
    n.onMsg total .raa = (n.onRaaG).map (fun n' => (n', true)) := by
  rw [raa_generated_eq]; rfl

/-- WHAT THE GENERATED revoke_and_ack DOES TO THE FUNDS (all nodes): the holder's balance moves by exactly the inbound HTLCs it
    fulfilled minus the outbound HTLCs the peer fulfilled that this revoke_and_ack removes; HTLCs failed back move nothing; the
    sum `value_to_self + Σ removed-and-counted outbound` = old value + Σ removed-and-counted inbound whenever the node could afford
    what it had offered (`hl`: the i64 intermediate is not negative). -/
theorem raa_generated_moves_claimed_funds (n n' : Node) (h : n.onRaaG = some n')
    (hl : ((n.outb.filter (fun h => h.st == .awaitingRemovedRemoteRevoke true)).map (·.amt)).sum ≤
          n.valueToSelf + ((n.inb.filter (fun h => h.st == .localRemoved true)).map (·.amt)).sum) :
    n'.valueToSelf + ((n.outb.filter (fun h => h.st == .awaitingRemovedRemoteRevoke true)).map (·.amt)).sum =
      n.valueToSelf + ((n.inb.filter (fun h => h.st == .localRemoved true)).map (·.amt)).sum ∧
    n'.awaitingRaa = false ∧ n'.raaRecv = n.raaRecv + 1 ∧
    (∀ x ∈ n'.inb, ∀ b, x.st ≠ .localRemoved b) ∧ (∀ x ∈ n'.outb, x.st ≠ .localAnnounced) := by
  rw [raa_generated_eq] at h
  unfold Node.onRaa at h
  cases ha : n.awaitingRaa
  · simp [ha] at h
  · simp only [ha, Bool.not_true, Bool.false_eq_true, if_false, Option.some.injEq] at h
    subst h
    refine ⟨by simp only []; omega, rfl, rfl, ?_, ?_⟩
    · intro x hx b
      simp only [List.mem_map, List.mem_filter] at hx
      obtain ⟨y, ⟨_, hy⟩, rfl⟩ := hx
      obtain ⟨i, am, st⟩ := y
      cases st <;> simp_all
    · intro x hx
      simp only [List.mem_map, List.mem_filter] at hx
      obtain ⟨y, ⟨_, hy⟩, rfl⟩ := hx
      obtain ⟨i, am, st⟩ := y
      cases st <;> simp_all

-- non-vacuity: a node awaiting a revoke_and_ack with a fulfilled inbound HTLC (credited), a failed one (not credited), an outbound
-- HTLC the peer fulfilled (debited), a fresh outbound add (promoted) and an Outbound fee update (committed)
def exNode : Node :=
  { Node.init 500000 true 253 with
    awaitingRaa := true
    inb := [⟨0, 7000, .localRemoved true⟩, ⟨1, 900, .localRemoved false⟩, ⟨2, 50, .awaitingRemoteRevokeToAnnounce⟩, ⟨3, 60, .awaitingAnnouncedRemoteRevoke⟩]
    outb := [⟨0, 30000, .awaitingRemovedRemoteRevoke true⟩, ⟨1, 20, .awaitingRemoteRevokeToRemove true⟩, ⟨2, 10, .localAnnounced⟩]
    pendingFee := some (1000, .outbound) }
example : (exNode.onRaaG).map (fun n => (n.valueToSelf, n.inb.map (·.st), n.outb.map (·.st))) =
    some (477000, [.awaitingAnnouncedRemoteRevoke, .committed], [.awaitingRemovedRemoteRevoke true, .committed]) := by decide
example : (exNode.onRaaG).map (fun n => (n.feerate, n.pendingFee, n.awaitingRaa)) = some (1000, none, false) := by decide
example : (Node.init 5 true 0).onRaaG = none := by decide

end Ldk.C01Raa
