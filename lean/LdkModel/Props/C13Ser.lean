import LdkModel.Generated.SerPrims
import LdkModel.Proofs.SerPrims
/-!
  C13 (shared with C12) — the length / integer primitives of the wire codec are the ones util/ser.rs states TODAY.

  `Generated/SerPrims.lean` is re-translated from `impl Writeable / Readable for CollectionLength`, `for BigSize` and the
  HighZeroBytesDroppedBigSize reader of `impl_writeable_primitive!` on every check (tools/gen_ser_prims.py).  The theorems below
  identify those functions with the hand-written `CollLen` / `BigSize` / `hzd` mirrors of Model/Codec.lean for ALL inputs, which
  ties `collection_length_roundtrip`, `bigsize_roundtrip`, `bigsize_minimal`, `hzd_accepts_only_canonical` … of Props/C13.lean to
  the comparisons and constants of the current source (seeded C12-r4: `self.0 < 0xffff` -> `<= u16::MAX` breaks the first one).
-/
namespace Ldk.C13
open Ldk.Codec Ldk

/-- the CollectionLength writer / reader of the current source are `CollLen.encode` / `CollLen.decode` -/
theorem collection_length_is_source :
    (∀ n, CollLen.encode n = SerPrims.collLenEncode n) ∧ (∀ b, CollLen.decode b = SerPrims.collLenDecode b) :=
  ⟨fun n => (SerPrims.collLenEncode_eq n).symm, fun b => (SerPrims.collLenDecode_eq b).symm⟩
example : SerPrims.collLenEncode 65535 = [0xff, 0xff, 0, 0, 0, 0, 0, 0, 0, 0] ∧ SerPrims.collLenEncode 65534 = [0xff, 0xfe] := by decide

/-- the BigSize writer / reader of the current source are `BigSize.encode` / `BigSize.decode` -/
theorem bigsize_is_source :
    (∀ n, BigSize.encode n = SerPrims.bigSizeEncode n) ∧ (∀ b, BigSize.decode b = SerPrims.bigSizeDecode b) :=
  ⟨fun n => (SerPrims.bigSizeEncode_eq n).symm, fun b => (SerPrims.bigSizeDecode_eq b).symm⟩
example : SerPrims.bigSizeEncode 0xfd = [0xfd, 0, 0xfd] ∧ SerPrims.bigSizeDecode [0xfd, 0, 0xfc] = .error .InvalidValue := by decide

/-- the HighZeroBytesDroppedBigSize reader of the current source is the `hzd` case of `FieldTy.decode` -/
theorem hzd_read_is_source (len : Nat) (b : Bytes) :
    (FieldTy.hzd len).decode b = (SerPrims.hzdDecode len b).map (fun p => (Val.nat p.1, p.2)) :=
  SerPrims.hzdDecode_eq len b
example : SerPrims.hzdDecode 8 [0, 1] = .error .InvalidValue ∧ SerPrims.hzdDecode 4 [1, 0] = .ok (256, []) := by decide

end Ldk.C13
