/- C16 — Returned routes are valid for the graph and for the caller's constraints.
   Property theorems only.  `compute_fees`, `compute_fees_saturating`, `max_htlc_from_capacity` are
   GENERATED from routing/router.rs on every run (Generated/RouterFees.lean); `recompute` mirrors
   PaymentPath::update_value_and_recompute_fees (Model/RouteFees.lean, tied by the `c16fees`
   differential through a hook that runs the real function; the
   function was repaired in /repo commit 2ea5edc after this vertical found KF-C16-1); `RouteOK` / `routeValid` are the
   specification and the checker the driver runs on every route the real `find_route` returns
   (Model/RouteValid.lean).  The router's search is not modelled (translation validation). -/
import LdkModel.Proofs.Route
namespace Ldk.C16
open Ldk Ldk.Router Ldk.RouteFees Ldk.RouteValid Ldk.RouteProofs

/-! ## the checker is the specification -/

/-- Running the checker on a route IS checking the specification, for every graph, request, route. -/
theorem route_checker_correct (g : Graph) (p : Params) (r : Route) :
    routeValid g p r = true ↔ RouteOK g p r :=
  routeValid_iff g p r

/-- a two-path route over a small graph, sharing the payer's channel, that satisfies the spec -/
def exGraph : Graph :=
  [ { scid := 1, src := 0, dst := 1, enabled := true, htlcMin := 1, htlcMax := 10000, cap := some 20000, base := 7, prop := 0, cltv := 40 },
    { scid := 1, src := 1, dst := 0, enabled := true, htlcMin := 1, htlcMax := 10000, cap := some 20000, base := 1, prop := 1, cltv := 40 },
    { scid := 2, src := 1, dst := 2, enabled := true, htlcMin := 1, htlcMax := 3000, cap := none, base := 10, prop := 10000, cltv := 40 },
    { scid := 2, src := 2, dst := 1, enabled := true, htlcMin := 1, htlcMax := 3000, cap := none, base := 0, prop := 0, cltv := 40 },
    { scid := 3, src := 1, dst := 2, enabled := true, htlcMin := 1, htlcMax := 3000, cap := some 2500, base := 0, prop := 0, cltv := 18 },
    { scid := 3, src := 2, dst := 1, enabled := false, htlcMin := 1, htlcMax := 3000, cap := some 2500, base := 0, prop := 0, cltv := 18 } ]
def exParams : Params :=
  { payer := 0, payee := 2, amount := 4000, maxFee := some 100, maxCltv := 200, maxPaths := 2, maxLen := 3, finalCltv := 18, excluded := [9] }
def exRoute : Route :=
  [ [ { scid := 1, node := 1, fee := 30, cltv := 40 }, { scid := 2, node := 2, fee := 2000, cltv := 18 } ],
    [ { scid := 1, node := 1, fee := 0, cltv := 18 }, { scid := 3, node := 2, fee := 2000, cltv := 18 } ] ]
example : RouteOK exGraph exParams exRoute := (route_checker_correct _ _ _).mp (by decide)
-- … and the checker refuses the same route when a node is paid one msat less than its policy fee
example : ¬ RouteOK exGraph exParams
    [ [ { scid := 1, node := 1, fee := 29, cltv := 40 }, { scid := 2, node := 2, fee := 2000, cltv := 18 } ],
      [ { scid := 1, node := 1, fee := 0, cltv := 18 }, { scid := 3, node := 2, fee := 2000, cltv := 18 } ] ] :=
  fun h => absurd ((route_checker_correct _ _ _).mpr h) (by decide)
-- … or when the two parts together exceed a shared channel's limit
example : ¬ RouteOK exGraph { exParams with amount := 10001, maxFee := none }
    [ [ { scid := 1, node := 1, fee := 30, cltv := 40 }, { scid := 2, node := 2, fee := 2000, cltv := 18 } ],
      [ { scid := 1, node := 1, fee := 5501, cltv := 18 }, { scid := 3, node := 2, fee := 2500, cltv := 18 } ] ] :=
  fun h => absurd ((route_checker_correct _ _ _).mpr h) (by decide)

/-- The driver's one-line answer is `valid` exactly for routes that meet the specification. -/
theorem driver_verdict_correct (g : Graph) (p : Params) (r : Route) :
    verdict g p r = "valid" ↔ RouteOK g p r :=
  (verdict_valid_iff g p r).trans (routeValid_iff g p r)

example : verdict exGraph exParams exRoute = "valid" := by decide

/-- The limit the capacity clause uses — the generated `max_htlc_from_capacity` at saturation power 0
    applied to `DirectedChannelInfo::effective_capacity` — is min(htlc_maximum, capacity). -/
theorem limit_is_min_of_max_and_capacity (c : Chan) :
    c.limit = match c.cap with
              | some k => min c.htlcMax k
              | none => c.htlcMax := by
  unfold Chan.limit Chan.effectiveCapacity max_htlc_from_capacity chkShr64
  cases c.cap with
  | none => simp
  | some k =>
    simp only [Nat.pow_zero, Nat.div_one, Option.getD_some, if_true,
      show (0 : Nat) < 64 from by decide]
    show Nat.min k (Nat.min c.htlcMax k) = min c.htlcMax k
    have h1 : Nat.min c.htlcMax k = min c.htlcMax k := rfl
    have h2 : ∀ x, Nat.min k x = min k x := fun _ => rfl
    rw [h1, h2]; omega

example : (exGraph.map Chan.limit) = [10000, 10000, 3000, 3000, 2500, 2500] := by decide

/-! ## fee arithmetic -/

/-- closed form of the generated `compute_fees` -/
theorem compute_fees_value (a b p f : Nat) :
    compute_fees a b p = some f ↔ (a * p < 2 ^ 64 ∧ b + a * p / 1000000 < 2 ^ 64 ∧ f = b + a * p / 1000000) :=
  compute_fees_eq_some_iff a b p f

example : compute_fees 1000000 1000 100 = some 1100 := by decide

/-- `compute_fees` fails exactly on u64 overflow of the product or of the sum -/
theorem compute_fees_none_iff_overflow (a b p : Nat) :
    compute_fees a b p = none ↔ (2 ^ 64 ≤ a * p ∨ 2 ^ 64 ≤ b + a * p / 1000000) :=
  compute_fees_eq_none_iff a b p

example : compute_fees (2 ^ 63) 0 2 = none := by decide
example : compute_fees (2 ^ 63) 0 1 ≠ none := by decide

/-- the fee is monotone in the amount (and defined for every smaller amount) -/
theorem compute_fees_monotone (a a' b p f' : Nat) (hle : a ≤ a') (h : compute_fees a' b p = some f') :
    ∃ f, compute_fees a b p = some f ∧ f ≤ f' :=
  compute_fees_mono hle h

example : ∃ f, compute_fees 5 1 500000 = some f ∧ f ≤ 6 := ⟨3, by decide, by decide⟩

/-- the saturating variant agrees with the checked one and is `u64::MAX` exactly when that overflows -/
theorem compute_fees_saturating_agrees (a b p : Nat) :
    compute_fees_saturating a b p = (compute_fees a b p).getD U64_MAX := by
  unfold compute_fees_saturating compute_fees chkMul64 chkAdd64 satAdd64 U64_MAX
  by_cases h1 : a * p < 2 ^ 64
  · by_cases h2 : b + a * p / 1000000 < 2 ^ 64
    · have h3 : a * p / 1000000 + b < 2 ^ 64 := by omega
      simp [h1, h2, Nat.add_comm]
    · have h3 : ¬ a * p / 1000000 + b < 2 ^ 64 := by omega
      simp [h1, h2, h3]
  · simp only [h1, if_false, Option.map_none, Option.getD_none, Option.bind_none]
    split <;> omega

example : compute_fees_saturating (2 ^ 63) 5 2 = U64_MAX := by decide

/-! ## the fee recurrence (update_value_and_recompute_fees, as repaired in /repo commit 2ea5edc) -/

/-- For every hop list and value, after the recurrence (`A` = the HTLC amount over each hop as the
    resulting `fee_msat`s encode it): one `fee_msat` per hop; every hop carries at least its
    `htlc_minimum_msat`; EVERY forwarding node's margin covers `compute_fees` of the amount it
    actually forwards (also after a final-hop raise); the amounts the code computed the fees on are
    exactly the amounts the route encodes; the return value is the value delivered by the final hop
    and at least `value`; the first hop carries the sum of all `fee_msat`s (delivered value + fees). -/
theorem recompute_fees_sound (value : Nat) (hops : List FeeHop) (res : Result)
    (h : recompute value hops = some res) :
    res.fees.length = hops.length ∧
    MinsOK hops (htlcAmounts res.fees) ∧
    MarginsOK hops (htlcAmounts res.fees) ∧
    res.amts = htlcAmounts res.fees ∧
    value ≤ res.ret ∧
    (hops ≠ [] → res.fees.getLast? = some res.ret) ∧
    (htlcAmounts res.fees).headD 0 = res.fees.sum := by
  have inv := recompute_inv value hops res h
  exact ⟨inv.len, inv.mins, inv.margins, inv.tracked, inv.retGe, inv.last, htlcAmounts_head_eq_sum _⟩

def exHops : List FeeHop :=
  [ { base := 1000, prop := 100, htlcMin := 1 }, { base := 7, prop := 10000, htlcMin := 150000 },
    { base := 10, prop := 1000, htlcMin := 1000 } ]
-- 100000 msat over three hops: the middle hop is raised to its minimum (150000), booked as fee
example : recompute 100000 exHops = some { fees := [1507, 50000, 100000], amts := [151507, 150000, 100000], ret := 100000 } := by decide
example : htlcAmounts [1507, 50000, 100000] = [151507, 150000, 100000] := by decide
example : MarginsOK exHops (htlcAmounts [1507, 50000, 100000]) := by
  refine ⟨⟨1507, by decide, by decide⟩, ⟨110, by decide, by decide⟩, trivial⟩

/-- Regression for finding KF-C16-1 (repaired by /repo 2ea5edc): 1000 msat over three hops whose final
    hop has `htlc_minimum_msat = 2000`. The final hop is raised to 2000, the middle node (10 % fee)
    forwards 2010 msat and is now paid its full policy fee 201 (before the repair: 101). -/
theorem final_raise_pays_policy_fee :
    recompute 1000 [⟨0, 0, 0⟩, ⟨0, 100000, 0⟩, ⟨10, 0, 2000⟩] =
      some { fees := [201, 10, 2000], amts := [2211, 2010, 2000], ret := 2000 } ∧
    compute_fees 2010 0 100000 = some 201 ∧
    MarginsOK [⟨0, 0, 0⟩, ⟨0, 100000, 0⟩, ⟨10, 0, 2000⟩] (htlcAmounts [201, 10, 2000]) := by
  refine ⟨by decide, by decide, ⟨201, by decide, by decide⟩, ⟨10, by decide, by decide⟩, trivial⟩

example : htlcAmounts [201, 10, 2000] = [2211, 2010, 2000] := by decide

/-- Raises are reported: the value returned (and delivered by the final hop) is the larger of `value`
    and the final hop's minimum — callers add the surplus to the route's total fees — and every other
    amount is EXACTLY the larger of the hop's own minimum and what the next hop receives plus its
    policy fee, so an amount raised to a minimum sits inside that hop's `fee_msat`. -/
theorem raise_is_reported_as_fee (value : Nat) (hops : List FeeHop) (res : Result)
    (h : recompute value hops = some res) :
    (∀ l, hops.getLast? = some l → res.ret = max value l.htlcMin) ∧
    ExactOK hops (htlcAmounts res.fees) := by
  have inv := recompute_inv value hops res h
  exact ⟨inv.lastMin, inv.exact⟩

example : (recompute 1000 [⟨0, 0, 0⟩, ⟨10, 0, 2000⟩]).map (·.ret) = some 2000 := by decide

/-! ## path count (get_route's fragmentation bound, translated from the source each run) -/

/-- `max_path_count` minimal contributions always cover the payment (⌈v/n⌉·n ≥ v); without MPP the
    single path must carry everything. -/
theorem min_contribution_covers (allow_mpp : Bool) (v n : Nat) (hn : 0 < n) :
    v ≤ n * minimal_value_contribution_msat allow_mpp v n ∧
    (allow_mpp = false → minimal_value_contribution_msat allow_mpp v n = v) := by
  unfold minimal_value_contribution_msat
  cases allow_mpp
  · simp; exact Nat.le_mul_of_pos_left v hn
  · simp
    have h := Nat.div_add_mod (v + n - 1) n
    have hm := Nat.mod_lt (v + n - 1) hn
    have : n * ((v + n - 1) / n) = v + n - 1 - (v + n - 1) % n := by omega
    omega

private theorem sum_ge_length_mul (m : Nat) (ps : List Nat) (h : ∀ p ∈ ps, m ≤ p) : ps.length * m ≤ ps.sum := by
  induction ps with
  | nil => simp
  | cons a t ih =>
    have h1 : m ≤ a := h a (by simp)
    have h2 := ih (fun p hp => h p (by simp [hp]))
    simp [List.sum_cons, Nat.add_mul]; omega

/-- "A returned route has at most `max_path_count` paths": for ANY payment value, any `max_path_count > 0`
    and any multiset of collected paths each contributing at least the translated bound, a selection in
    which the last path was still needed (the others do not reach the value) has at most `max_path_count`
    paths.  With a floor instead of the ceiling the statement is false (v = 100000, n = 3: four paths of
    33333 are all needed). -/
theorem path_count_bounded (allow_mpp : Bool) (v n : Nat) (hn : 0 < n) (q : Nat) (rest : List Nat)
    (hge : ∀ p ∈ rest, minimal_value_contribution_msat allow_mpp v n ≤ p)
    (hneeded : rest.sum < v) :
    (q :: rest).length ≤ n := by
  have hc := (min_contribution_covers allow_mpp v n hn).1
  have hs := sum_ge_length_mul _ rest hge
  have : rest.length * minimal_value_contribution_msat allow_mpp v n < n * minimal_value_contribution_msat allow_mpp v n := by omega
  have := Nat.lt_of_mul_lt_mul_right this
  simp; omega

example : minimal_value_contribution_msat true 100000 3 = 33334 := by decide
example : ¬ (100000 ≤ 3 * (100000 / 3)) := by decide   -- the floor would not cover
example : ([33334, 33334] : List Nat).sum < 100000 ∧ ∀ p ∈ [33334, 33334], minimal_value_contribution_msat true 100000 3 ≤ p := by decide

/-- The recurrence fails (the Rust `unreachable!()` arm) only if some policy fee overflows u64. -/
theorem recompute_none_only_on_fee_overflow (value : Nat) (hops : List FeeHop)
    (hno : ∀ h ∈ hops, ∀ a, compute_fees a h.base h.prop ≠ none) : recompute value hops ≠ none := by
  have hgo : ∀ hs : List FeeHop, (∀ h ∈ hs, ∀ a, compute_fees a h.base h.prop ≠ none) → go value hs ≠ none := by
    intro hs
    induction hs with
    | nil => intro _; simp [go]
    | cons h t ih =>
      intro hn
      have ht := ih (fun x hx => hn x (List.mem_cons_of_mem _ hx))
      rw [go]
      cases hg : go value t with
      | none => exact absurd hg ht
      | some st =>
        have hc := hn h (List.mem_cons_self ..) (hopStep value h t.isEmpty st).amt
        cases hf : compute_fees (hopStep value h t.isEmpty st).amt h.base h.prop with
        | none => exact absurd hf hc
        | some nf => simp [hf]
  cases hops with
  | nil => simp [recompute]
  | cons h t =>
    have ht := hgo t (fun x hx => hno x (List.mem_cons_of_mem _ hx))
    rw [recompute]
    cases hg : go value t with
    | none => exact absurd hg ht
    | some st => simp

example : recompute (2 ^ 63) [⟨0, 0, 0⟩, ⟨0, 2, 0⟩] = none := by decide

end Ldk.C16
