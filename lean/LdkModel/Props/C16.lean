/- C16 — Returned routes are valid for the graph and for the caller's constraints.
   Property theorems only.  `compute_fees`, `compute_fees_saturating`, `max_htlc_from_capacity` are
   GENERATED from routing/router.rs on every run (Generated/RouterFees.lean); `recompute` mirrors
   PaymentPath::update_value_and_recompute_fees (Model/RouteFees.lean, tied by the `c16fees`
   differential through a hook that runs the real function; the
   function was repaired in /repo commit 2ea5edc after this vertical found KF-C16-1); `RouteOK` / `routeValid` are the
   specification and the checker the driver runs on every route the real `find_route` returns
   (Model/RouteValid.lean).  The router's search is not modelled (translation validation).
   v2: the candidates are the router's `CandidateRouteHop`s — public channel directions, the caller's
   first hops (known under alias AND real scid), route-hint hops, blinded payment paths (one candidate,
   the path's BlindedTail) — and what the router reads of each variant is the GENERATED `candidate_*`
   tables. -/
import LdkModel.Proofs.Route
import LdkModel.Proofs.RouteSelect
namespace Ldk.C16
open Ldk Ldk.Router Ldk.RouteFees Ldk.RouteValid Ldk.RouteProofs Ldk.RouteSelect Ldk.RouteSelectProofs

/-! ## the checker is the specification -/

/-- Running the checker on a route IS checking the specification, for every graph, request, route. -/
theorem route_checker_correct (g : Graph) (p : Params) (r : Route) :
    routeValid g p r = true ↔ RouteOK g p r :=
  routeValid_iff g p r

/-- a two-path route over a small graph, sharing the payer's channel, that satisfies the spec -/
def exGraph : Graph :=
  [ { scid := 1, src := 0, dst := 1, enabled := true, htlcMin := 1, htlcMax := 10000, cap := some 20000, base := 7, prop := 0, cltv := 40 },
    { scid := 1, src := 1, dst := 0, enabled := true, htlcMin := 1, htlcMax := 10000, cap := some 20000, base := 1, prop := 1, cltv := 40 },
    { scid := 2, src := 1, dst := 2, enabled := true, htlcMin := 1, htlcMax := 3000, cap := none, base := 10, prop := 10000, cltv := 40 },
    { scid := 2, src := 2, dst := 1, enabled := true, htlcMin := 1, htlcMax := 3000, cap := none, base := 0, prop := 0, cltv := 40 },
    { scid := 3, src := 1, dst := 2, enabled := true, htlcMin := 1, htlcMax := 3000, cap := some 2500, base := 0, prop := 0, cltv := 18 },
    { scid := 3, src := 2, dst := 1, enabled := false, htlcMin := 1, htlcMax := 3000, cap := some 2500, base := 0, prop := 0, cltv := 18 } ]
def exParams : Params :=
  { payer := 0, payee := 2, amount := 4000, maxFee := some 100, maxCltv := 200, maxPaths := 2, maxLen := 3, finalCltv := 18, excluded := [9] }
def exRoute : Route :=
  [ [ { scid := 1, node := 1, fee := 30, cltv := 40 }, { scid := 2, node := 2, fee := 2000, cltv := 18 } ],
    [ { scid := 1, node := 1, fee := 0, cltv := 18 }, { scid := 3, node := 2, fee := 2000, cltv := 18 } ] ]
example : RouteOK exGraph exParams exRoute := (route_checker_correct _ _ _).mp (by decide)
-- … and the checker refuses the same route when a node is paid one msat less than its policy fee
example : ¬ RouteOK exGraph exParams
    [ [ { scid := 1, node := 1, fee := 29, cltv := 40 }, { scid := 2, node := 2, fee := 2000, cltv := 18 } ],
      [ { scid := 1, node := 1, fee := 0, cltv := 18 }, { scid := 3, node := 2, fee := 2000, cltv := 18 } ] ] :=
  fun h => absurd ((route_checker_correct _ _ _).mpr h) (by decide)
-- … or when the two parts together exceed a shared channel's limit
example : ¬ RouteOK exGraph { exParams with amount := 10001, maxFee := none }
    [ [ { scid := 1, node := 1, fee := 30, cltv := 40 }, { scid := 2, node := 2, fee := 2000, cltv := 18 } ],
      [ { scid := 1, node := 1, fee := 5501, cltv := 18 }, { scid := 3, node := 2, fee := 2500, cltv := 18 } ] ] :=
  fun h => absurd ((route_checker_correct _ _ _).mpr h) (by decide)

/-- The driver's one-line answer is `valid` exactly for routes that meet the specification. -/
theorem driver_verdict_correct (g : Graph) (p : Params) (r : Route) :
    verdict g p r = "valid" ↔ RouteOK g p r :=
  (verdict_valid_iff g p r).trans (routeValid_iff g p r)

example : verdict exGraph exParams exRoute = "valid" := by decide

private theorem pub_limit (c : Chan) :
    max_htlc_from_capacity c.pubCapacity 0 = match c.cap with
              | some k => min c.htlcMax k
              | none => c.htlcMax := by
  unfold Chan.pubCapacity max_htlc_from_capacity chkShr64
  cases c.cap with
  | none => simp
  | some k =>
    simp only [Nat.pow_zero, Nat.div_one, Option.getD_some, if_true,
      show (0 : Nat) < 64 from by decide]
    show Nat.min k (Nat.min c.htlcMax k) = min c.htlcMax k
    have h1 : Nat.min c.htlcMax k = min c.htlcMax k := rfl
    have h2 : ∀ x, Nat.min k x = min k x := fun _ => rfl
    rw [h1, h2]; omega

/-- The limit the capacity clause uses — the generated `max_htlc_from_capacity` at saturation power 0
    applied to the generated `candidate_capacity` (CandidateRouteHop::effective_capacity) — is, per kind of
    candidate: min(htlc_maximum, capacity) of a public channel direction, next_outbound_htlc_limit_msat of a
    first hop, the hint's / payinfo's htlc_maximum_msat (unbounded without one / for a one-hop blinded path). -/
theorem limit_is_min_of_max_and_capacity (c : Chan) :
    c.limit = match c.kind with
              | .publicHop => (match c.cap with
                               | some k => min c.htlcMax k
                               | none => c.htlcMax)
              | .firstHop => c.htlcMax
              | .privateHop => if c.unbounded then U64_MAX else c.htlcMax
              | .blinded => c.htlcMax
              | .oneHopBlinded => U64_MAX := by
  unfold Chan.limit Chan.effectiveCapacity candidate_capacity
  cases hk : c.kind with
  | publicHop => simpa using pub_limit c
  | firstHop => simp [max_htlc_from_capacity]
  | privateHop => cases c.unbounded <;> simp [max_htlc_from_capacity]
  | blinded => simp [max_htlc_from_capacity]
  | oneHopBlinded => simp [max_htlc_from_capacity]

example : (exGraph.map Chan.limit) = [10000, 10000, 3000, 3000, 2500, 2500] := by decide
example : ({ (default : Chan) with kind := .firstHop, htlcMax := 500000, cap := some 7 } : Chan).limit = 500000 := by decide
example : ({ (default : Chan) with kind := .privateHop, unbounded := true } : Chan).limit = U64_MAX := by decide

/-- … and it is the translated per-hop bound of PaymentPath::max_final_value_msat (`hop_max_msat`) for an unused
    candidate at saturation power 0 (the power get_route falls back to before it gives up). -/
theorem limit_is_translated_hop_max (c : Chan) : c.limit = hop_max_msat c.effectiveCapacity 0 0 := by
  unfold Chan.limit hop_max_msat; omega

example : hop_max_msat (.exactLiquidity 500000) 2 100000 = 400000 := by decide

/-! ## first hops, route hints, blinded tails -/

/-- get_route step (1), as translated from the source on this run: a route-hint hop names a direct channel of
    ours iff its scid is the channel's outbound alias OR its real short_channel_id.  (Seeded C16-r4 compares
    only `get_outbound_payment_scid()`: this theorem no longer compiles then.) -/
theorem hint_naming_own_channel_is_recognised (alias scid : Option Nat) (h : Nat) :
    matches_an_scid alias scid h = true ↔ (alias = some h ∨ scid = some h) := by
  unfold matches_an_scid; simp

example : matches_an_scid (some 44) (some 1) 1 = true := by decide
example : matches_an_scid (some 44) (some 1) 7 = false := by decide

/-- The checker identifies a first-hop channel exactly as the router does: with the ids the driver derives
    from the raw ChannelDetails fields (`firstHopIds`, through the generated get_outbound_payment_scid), a
    scid names the channel (`Chan.named`) iff the translated `matches_an_scid` accepts it. -/
theorem checker_names_first_hop_as_router (alias scid : Option Nat) (out : Nat) (alt : Option Nat) (c : Chan) (h : Nat)
    (hid : firstHopIds alias scid = some (out, alt)) (hs : c.scid = out) (ha : c.alt = alt) :
    c.named h = matches_an_scid alias scid h := by
  have hm := hint_naming_own_channel_is_recognised alias scid h
  unfold firstHopIds get_outbound_payment_scid at hid
  have hn : c.named h = true ↔ (alias = some h ∨ scid = some h) := by
    unfold Chan.named
    cases alias with
    | none =>
      cases scid with
      | none => simp at hid
      | some s =>
        simp at hid; obtain ⟨h1, h2⟩ := hid
        rw [hs, ha, ← h1, ← h2]; simp
    | some a =>
      simp at hid; obtain ⟨h1, h2⟩ := hid
      rw [hs, ha, ← h1, ← h2]
      cases scid with
      | none => simp
      | some s => simp
  cases h1 : c.named h <;> cases h2 : matches_an_scid alias scid h <;> simp_all

example : firstHopIds (some 44) (some 1) = some (44, some 1) := by decide
example : firstHopIds none (some 1) = some (1, none) := by decide

/-- a request with first hops (two channels to node 1, both with an alias different from the real scid), a
    two-hop route hint 1 → 3 → 2, a public channel 1 → 2 -/
def exGraph2 : Graph :=
  [ { scid := 44, alt := some 1, kind := .firstHop, src := 0, dst := 1, enabled := true, htlcMin := 0, htlcMax := 500000, cap := none, base := 9, prop := 9, cltv := 9 },
    { scid := 45, alt := some 2, kind := .firstHop, src := 0, dst := 1, enabled := true, htlcMin := 0, htlcMax := 400000, cap := none, base := 0, prop := 0, cltv := 0 },
    { scid := 1, src := 0, dst := 1, enabled := true, htlcMin := 1, htlcMax := 100, cap := none, base := 7, prop := 0, cltv := 40 },
    { scid := 1, src := 1, dst := 0, enabled := true, htlcMin := 1, htlcMax := 100, cap := none, base := 1, prop := 1, cltv := 40 },
    { scid := 5, src := 1, dst := 2, enabled := true, htlcMin := 1, htlcMax := 300000, cap := none, base := 10, prop := 0, cltv := 40 },
    { scid := 5, src := 2, dst := 1, enabled := true, htlcMin := 1, htlcMax := 300000, cap := none, base := 0, prop := 0, cltv := 40 },
    { scid := 77, kind := .privateHop, src := 1, dst := 3, enabled := true, htlcMin := 0, htlcMax := 0, unbounded := true, cap := none, base := 100, prop := 0, cltv := 30 },
    { scid := 78, kind := .privateHop, src := 3, dst := 2, enabled := true, htlcMin := 0, htlcMax := 450000, cap := none, base := 50, prop := 0, cltv := 20 } ]
def exParams2 : Params :=
  { payer := 0, payee := 2, amount := 600000, maxFee := none, maxCltv := 300, maxPaths := 3, maxLen := 4, finalCltv := 18, excluded := [], hasFirst := true }
/-- 300000 over first hop 44 and the public channel, 300000 over first hop 45 (named by its REAL scid 2) and the hint -/
def exRoute2 : Route :=
  [ [ { scid := 44, node := 1, fee := 10, cltv := 40 }, { scid := 5, node := 2, fee := 300000, cltv := 18 } ],
    [ { scid := 2, node := 1, fee := 100, cltv := 30 }, { scid := 77, node := 3, fee := 50, cltv := 20 }, { scid := 78, node := 2, fee := 300000, cltv := 18 } ] ]
example : RouteOK exGraph2 exParams2 exRoute2 := (route_checker_correct _ _ _).mp (by decide)
-- the payer's own PUBLIC channel (scid 1, limit 100) plays no role: the first hop named `1` is first-hop channel 44
example : resolve exGraph2 exParams2 0 { scid := 1, node := 1, fee := 0, cltv := 0 } = exGraph2.head? := by decide
-- C16-r4's symptom: the same first-hop channel (limit 500000) used under its alias 44 by one path and under its
-- real scid 1 by the other is ONE channel: 300010 + 300150 msat exceed it
def exRoute2bad : Route :=
  [ [ { scid := 44, node := 1, fee := 10, cltv := 40 }, { scid := 5, node := 2, fee := 300000, cltv := 18 } ],
    [ { scid := 1, node := 1, fee := 100, cltv := 30 }, { scid := 77, node := 3, fee := 50, cltv := 20 }, { scid := 78, node := 2, fee := 300000, cltv := 18 } ] ]
example : ¬ RouteOK exGraph2 exParams2 exRoute2bad :=
  fun h => absurd ((route_checker_correct _ _ _).mpr h) (by decide)
example : verdict exGraph2 exParams2 exRoute2bad = "invalid capacity" := by decide
-- with first hops supplied a first hop over a channel of the GRAPH (the payer's public channel 98 to node 1, not among
-- first_hops) is refused, whatever the graph says
def exGraph2pub : Graph := exGraph2 ++
  [ { scid := 98, src := 0, dst := 1, enabled := true, htlcMin := 0, htlcMax := 900000, cap := none, base := 0, prop := 0, cltv := 0 },
    { scid := 98, src := 1, dst := 0, enabled := true, htlcMin := 0, htlcMax := 900000, cap := none, base := 0, prop := 0, cltv := 0 } ]
example : verdict exGraph2pub { exParams2 with amount := 300000 }
    [ [ { scid := 98, node := 1, fee := 10, cltv := 40 }, { scid := 5, node := 2, fee := 300000, cltv := 18 } ] ] = "invalid chain" := by decide
example : verdict exGraph2pub { exParams2 with amount := 300000, hasFirst := false }
    [ [ { scid := 98, node := 1, fee := 10, cltv := 40 }, { scid := 5, node := 2, fee := 300000, cltv := 18 } ] ] = "valid" := by decide
-- … but a ROUTE HINT hop that starts at the payer is a way out of the payer the property names ("through the supplied first
-- hops, route hints or blinded tails"; router tests allow_us_being_first_hint / first_hop_preferred_over_hint): accepted
example : verdict (exGraph2 ++ [{ scid := 99, kind := .privateHop, src := 0, dst := 1, enabled := true, htlcMin := 0, htlcMax := 0, unbounded := true, cap := none, base := 0, prop := 0, cltv := 0 }])
    { exParams2 with amount := 300000 }
    [ [ { scid := 99, node := 1, fee := 10, cltv := 40 }, { scid := 5, node := 2, fee := 300000, cltv := 18 } ] ] = "valid" := by decide

/-- Through the supplied first hops or a route hint: in a route that meets the specification of a request WITH first hops,
    every path starts with an unblinded hop that stands for one of the supplied, usable first-hop candidates to that peer
    (named by its alias or by its real scid) or for the hop of a ROUTE HINT whose source is the payer — never a channel of
    the graph.  (Until C16b the statement allowed first-hop candidates only; that demanded more than the property, which
    names route hints as a way from the payer to the payee, and than the router's documented behaviour — KF-C16-7/A was a
    false alarm, DESIGN 9.2.) -/
theorem route_starts_at_supplied_first_hop (g : Graph) (p : Params) (r : Route) (h : RouteOK g p r)
    (hf : p.hasFirst = true) : ∀ path ∈ r, ∃ hd tl c, path = hd :: tl ∧ hd.blinded = false ∧ c ∈ g ∧
      ((c.kind = .firstHop ∧ c.named hd.scid = true) ∨ (c.kind = .privateHop ∧ c.scid = hd.scid)) ∧
      c.src = p.payer ∧ c.dst = hd.node ∧ c.enabled = true := by
  have key : ∀ hd c, resolve g p p.payer hd = some c →
      hd.blinded = false ∧ c ∈ g ∧ ((c.kind = .firstHop ∧ c.named hd.scid = true) ∨ (c.kind = .privateHop ∧ c.scid = hd.scid)) ∧
        c.src = p.payer ∧ c.dst = hd.node := by
    intro hd c hr
    unfold resolve public_candidate_considered at hr
    cases hb : hd.blinded with
    | true => simp [hb] at hr
    | false =>
      simp only [hb, hf, Bool.false_eq_true, if_false, Bool.not_true, Bool.false_or, beq_self_eq_true,
        Bool.not_false, if_true] at hr
      cases hfst : g.find? (fun c => c.kind == .firstHop && c.named hd.scid && c.src == p.payer && c.dst == hd.node) with
      | some c1 =>
        rw [hfst] at hr
        have hc : c1 = c := by simpa using hr
        subst hc
        have hm := List.mem_of_find?_eq_some hfst
        have hpred := List.find?_some hfst
        simp only [Bool.and_eq_true, beq_iff_eq] at hpred
        exact ⟨rfl, hm, Or.inl ⟨hpred.1.1.1, hpred.1.1.2⟩, hpred.1.2, hpred.2⟩
      | none =>
        rw [hfst] at hr
        simp only at hr
        have hm := List.mem_of_find?_eq_some hr
        have hpred := List.find?_some hr
        simp only [Bool.and_eq_true, beq_iff_eq] at hpred
        exact ⟨rfl, hm, Or.inr ⟨hpred.1.1.1, hpred.1.1.2⟩, hpred.1.2, hpred.2⟩
  intro path hp
  have hc := h.chain path hp
  cases hc with
  | last _ hd c hl hok _ _ =>
    obtain ⟨k0, k1, k2, k3, k4⟩ := key hd c hl
    exact ⟨hd, [], c, rfl, k0, k1, k2, k3, k4, hok.2.1⟩
  | cons _ hd h' t c c' f _ hl hok hl' hf' hfee hcl hrest =>
    obtain ⟨k0, k1, k2, k3, k4⟩ := key hd c hl
    exact ⟨hd, h' :: t, c, rfl, k0, k1, k2, k3, k4, hok.2.1⟩

/-- … and in particular never over a channel of the graph: with first hops supplied the candidate a path's first hop
    stands for is not a `publicHop` (the clause KF-C16-7/B violates: a hint NAMING the payer's public channel makes
    get_route leave the payer over that graph channel). -/
theorem first_hop_is_never_a_graph_channel (g : Graph) (p : Params) (r : Route) (h : RouteOK g p r)
    (hf : p.hasFirst = true) : ∀ path ∈ r, ∀ hd tl, path = hd :: tl → ∀ c, resolve g p p.payer hd = some c → c.kind ≠ .publicHop := by
  intro path hp hd tl he c hr
  obtain ⟨hd', tl', c', he', _, _, hk, _⟩ := route_starts_at_supplied_first_hop g p r h hf path hp
  have hhd : hd' = hd := by rw [he] at he'; exact (List.cons.inj he').1.symm
  subst hhd
  -- the resolved candidate is the one of the theorem above: re-derive its kind from `resolve`
  unfold resolve public_candidate_considered at hr
  cases hb : hd'.blinded with
  | true => simp [hb] at hr
  | false =>
    simp only [hb, hf, Bool.false_eq_true, if_false, Bool.not_true, Bool.false_or, beq_self_eq_true,
      Bool.not_false, if_true] at hr
    cases hfst : g.find? (fun c => c.kind == .firstHop && c.named hd'.scid && c.src == p.payer && c.dst == hd'.node) with
    | some c1 =>
      rw [hfst] at hr
      have hc : c1 = c := by simpa using hr
      subst hc
      have hpred := List.find?_some hfst
      simp only [Bool.and_eq_true, beq_iff_eq] at hpred
      rw [hpred.1.1.1]; decide
    | none =>
      rw [hfst] at hr
      simp only at hr
      have hpred := List.find?_some hr
      simp only [Bool.and_eq_true, beq_iff_eq] at hpred
      rw [hpred.1.1.1]; decide

example : (resolve exGraph2pub exParams2 0 { scid := 98, node := 1, fee := 10, cltv := 40 }) = none := by decide

example : ∃ hd tl c, exRoute2.head! = hd :: tl ∧ c ∈ exGraph2 ∧ c.kind = .firstHop ∧ c.named hd.scid = true :=
  ⟨_, _, exGraph2.head!, rfl, by decide, by decide, by decide⟩

/-- a request to a BLINDED payee (virtual node 9): two blinded paths with introduction nodes 1 and 2 -/
def exGraph3 : Graph :=
  [ { scid := 44, alt := some 1, kind := .firstHop, src := 0, dst := 1, enabled := true, htlcMin := 0, htlcMax := 500000, cap := none, base := 0, prop := 0, cltv := 0 },
    { scid := 5, src := 1, dst := 2, enabled := true, htlcMin := 1, htlcMax := 300000, cap := none, base := 10, prop := 0, cltv := 40 },
    { scid := 5, src := 2, dst := 1, enabled := true, htlcMin := 1, htlcMax := 300000, cap := none, base := 0, prop := 0, cltv := 40 },
    { scid := 0, kind := .blinded, src := 2, dst := 9, enabled := true, htlcMin := 1000, htlcMax := 150000, cap := none, base := 500, prop := 10000, cltv := 100 },
    { scid := 1, kind := .oneHopBlinded, src := 1, dst := 9, enabled := true, htlcMin := 7777777, htlcMax := 1, cap := none, base := 999, prop := 999, cltv := 999 } ]
def exParams3 : Params :=
  { payer := 0, payee := 9, amount := 200000, maxFee := some 5000, maxCltv := 200, maxPaths := 2, maxLen := 2, finalCltv := 0, excluded := [], hasFirst := true }
/-- 100000 through blinded path 0 (fee 500 + 1 % = 1500 kept by its introduction node 2, CLTV delta 100) and 100000
    through the one-hop blinded path 1 at node 1 (its payinfo is ignored: no fee, no minimum, no maximum) -/
def exRoute3 : Route :=
  [ [ { scid := 44, node := 1, fee := 10, cltv := 40 }, { scid := 5, node := 2, fee := 1500, cltv := 100 }, { scid := 0, node := 9, fee := 100000, cltv := 0, blinded := true } ],
    [ { scid := 1, node := 1, fee := 0, cltv := 0 }, { scid := 1, node := 9, fee := 100000, cltv := 0, blinded := true } ] ]
example : RouteOK exGraph3 exParams3 exRoute3 := (route_checker_correct _ _ _).mp (by decide)
example : (exRoute3.map pathLen, delivered exRoute3, totalFees exParams3 exRoute3, exRoute3.map totalCltv) = ([2, 1], 200000, 1510, [140, 0]) := by decide
-- the introduction node keeps one msat less than the BlindedPayInfo fee: refused
example : verdict exGraph3 exParams3
  [ [ { scid := 44, node := 1, fee := 10, cltv := 40 }, { scid := 5, node := 2, fee := 1499, cltv := 100 }, { scid := 0, node := 9, fee := 100000, cltv := 0, blinded := true } ],
    [ { scid := 1, node := 1, fee := 0, cltv := 0 }, { scid := 1, node := 9, fee := 100000, cltv := 0, blinded := true } ] ] = "invalid chain" := by decide
-- a previously failed blinded path is excluded by its index
example : verdict exGraph3 { exParams3 with excludedBlinded := [0] } exRoute3 = "invalid chain" := by decide
-- both parts through blinded path 0 exceed its htlc_maximum_msat jointly
example : verdict exGraph3 { exParams3 with maxFee := none }
  [ [ { scid := 44, node := 1, fee := 10, cltv := 40 }, { scid := 5, node := 2, fee := 1500, cltv := 100 }, { scid := 0, node := 9, fee := 100000, cltv := 0, blinded := true } ],
    [ { scid := 1, node := 1, fee := 10, cltv := 40 }, { scid := 5, node := 2, fee := 1500, cltv := 100 }, { scid := 0, node := 9, fee := 100000, cltv := 0, blinded := true } ] ] = "invalid capacity" := by decide

private theorem chain_blinded_only_last (g : Graph) (p : Params) : ∀ (path : RPath) (src : Nat),
    ChainOK g p src path → ∀ h ∈ path.dropLast, h.blinded = false := by
  intro path
  induction path with
  | nil => intro src hc; cases hc
  | cons a t ih =>
    intro src hc h hm
    cases hc with
    | last _ _ _ _ _ _ _ => simp at hm
    | cons _ _ h' t' c c' f hnb hl hok hl' hf hfee hcl hrest =>
      simp only [List.dropLast_cons_cons, List.mem_cons] at hm
      rcases hm with rfl | hm
      · exact hnb
      · exact ih a.node hrest h hm

/-- A blinded tail ends its path and is reached by a valid unblinded chain: in a route that meets the specification,
    a blinded element can only be the LAST element of a path, and never the only one (the introduction node is reached
    by at least one RouteHop, every one of which satisfies the chain rules above). -/
theorem blinded_tail_is_last_and_reached (g : Graph) (p : Params) (r : Route) (h : RouteOK g p r) :
    ∀ path ∈ r, ∀ hop ∈ path, hop.blinded = true → path.getLast? = some hop ∧ 1 ≤ pathLen path := by
  intro path hp hop hm hb
  have hc := h.chain path hp
  have hdl := chain_blinded_only_last g p path p.payer hc
  have hne : path ≠ [] := by intro he; rw [he] at hm; cases hm
  have hsplit := List.dropLast_concat_getLast hne
  have hlast : hop = path.getLast hne := by
    rw [← hsplit] at hm
    rcases List.mem_append.mp hm with h1 | h1
    · have := hdl hop h1; rw [hb] at this; cases this
    · simpa using h1
  refine ⟨by rw [List.getLast?_eq_some_getLast hne, hlast], ?_⟩
  -- not the only element: a blinded candidate is never resolved at the payer
  cases hc with
  | last _ a c hl _ _ _ =>
    exfalso
    have ha : a = hop := by simpa using hlast.symm
    subst ha
    unfold resolve at hl
    simp [hb] at hl
  | cons _ a h' t c c' f hnb _ _ _ _ _ _ _ =>
    unfold pathLen
    simp [hnb]

example : (exRoute3.map fun path => path.map (·.blinded)) = [[false, false, true], [false, true]] := by decide

/-- What the router reads of a candidate, per variant (statements about the GENERATED tables): our own channel
    is free and adds no CLTV delta; the BlindedPayInfo of a one-hop blinded path is ignored altogether; exactly
    the two blinded variants are not RouteHops (they become the path's BlindedTail). -/
theorem candidate_tables (b pr cl mn mx : Nat) (nm : Bool) (ic : EffectiveCapacity) :
    candidate_fees .firstHop b pr = (0, 0) ∧ candidate_cltv_expiry_delta .firstHop cl = 0 ∧
    candidate_htlc_minimum_msat .firstHop mn = mn ∧ candidate_capacity .firstHop ic mx nm = .exactLiquidity mx ∧
    candidate_fees .oneHopBlinded b pr = (0, 0) ∧ candidate_cltv_expiry_delta .oneHopBlinded cl = 0 ∧
    candidate_htlc_minimum_msat .oneHopBlinded mn = 0 ∧ candidate_capacity .oneHopBlinded ic mx nm = .infinite ∧
    candidate_fees .blinded b pr = (b, pr) ∧ candidate_cltv_expiry_delta .blinded cl = cl ∧
    candidate_htlc_minimum_msat .blinded mn = mn ∧ candidate_capacity .blinded ic mx nm = .hintMaxHTLC mx ∧
    candidate_fees .privateHop b pr = (b, pr) ∧ candidate_fees .publicHop b pr = (b, pr) ∧
    candidate_capacity .publicHop ic mx nm = ic ∧
    (∀ k, candidate_has_scid k = false ↔ (k = .blinded ∨ k = .oneHopBlinded)) := by
  refine ⟨rfl, rfl, rfl, rfl, rfl, rfl, rfl, rfl, rfl, rfl, rfl, rfl, rfl, rfl, rfl, ?_⟩
  intro k; cases k <;> simp [candidate_has_scid]

example : (exGraph3.map Chan.feeBase, exGraph3.map Chan.minMsat) = ([0, 10, 0, 500, 0], [0, 1, 1, 1000, 0]) := by decide

/-! ## the router's own bounds (translated / pinned statements of get_route and PaymentPath) -/

/-- PaymentPath::max_final_value_msat, the per-hop contribution bound as it stands in the source: a value `v` within
    the bound, plus the aggregated fee `B + v·P/10⁶` of the hops after it, exceeds the hop's maximum `M` by at most
    ⌊P/10⁶⌋ msat — by nothing when the aggregated proportional fee is below 100 %.  (The `+ P` in the numerator
    rounds up; it is what allows the excess for P ≥ 10⁶.) -/
theorem max_contribution_within_hop_max (M B P f v : Nat)
    (hf : hop_max_final_value_contribution M B P = some f) (hv : v ≤ f) :
    v + (B + v * P / 1000000) ≤ M + P / 1000000 := by
  unfold hop_max_final_value_contribution at hf
  by_cases hB : B ≤ M
  · simp only [hB, if_true, Option.some.injEq] at hf
    subst hf
    have h1 : v * (P + 1000000) ≤ (M - B) * 1000000 + P :=
      (Nat.le_div_iff_mul_le (by omega)).mp hv
    have h2 : v * P / 1000000 * 1000000 ≤ v * P := Nat.div_mul_le_self _ _
    have h3 : P < (P / 1000000 + 1) * 1000000 := by
      have := Nat.div_add_mod P 1000000
      have := Nat.mod_lt P (show 0 < 1000000 by omega)
      omega
    have h4 : v * (P + 1000000) = v * P + v * 1000000 := Nat.mul_add _ _ _
    generalize v * P / 1000000 = t at *
    generalize v * P = vp at *
    generalize P / 1000000 = u at *
    omega
  · simp [hB] at hf

example : hop_max_final_value_contribution 1000000 1000 10000 = some 989108 := by decide
example : 989108 + (1000 + 989108 * 10000 / 1000000) ≤ 1000000 := by decide
-- the excess is real for P ≥ 10⁶: bound 1 on a hop that can carry 1 msat with a 200 % fee after it (1 + 2 > 1)
example : hop_max_final_value_contribution 1 0 2000000 = some 1 ∧ ¬ (1 + (0 + 1 * 2000000 / 1000000) ≤ 1) := by decide

/-- loop invariant of PaymentPath::max_final_value_msat (model `maxFinalGo`, tied to the real function by the
    `maxfinal` differential): the value it returns is within the running minimum and within the generated
    per-hop bound of every hop it visited -/
private theorem maxFinalGo_bound (pow : Nat) : ∀ (hops : List MHop) (idx : Nat) (best : Nat × Nat) (i v : Nat),
    maxFinalGo pow idx hops best = .ok i v →
    v ≤ best.2 ∧ ∀ pre hp rest, hops = pre ++ hp :: rest →
      ∃ B P c, aggregateFees (rest.map fun r => (r.base, r.prop)) = some (B, P) ∧
        hop_max_final_value_contribution (hop_max_msat hp.cap pow hp.used) B P = some c ∧ v ≤ c := by
  intro hops
  induction hops with
  | nil =>
    intro idx best i v h
    simp only [maxFinalGo, MaxFinal.ok.injEq] at h
    refine ⟨by omega, ?_⟩
    intro pre hp rest he
    cases pre <;> simp at he
  | cons h t ih =>
    intro idx best i v hgo
    rw [maxFinalGo] at hgo
    cases hc : hopContribution pow h t with
    | none => simp [hc] at hgo
    | some oc =>
      cases oc with
      | none => simp [hc] at hgo
      | some c =>
        simp only [hc] at hgo
        obtain ⟨hv, hrest⟩ := ih _ _ i v hgo
        have hb : (if c ≤ best.2 then (idx, c) else best).2 ≤ best.2 ∧ (if c ≤ best.2 then (idx, c) else best).2 ≤ c := by
          by_cases hle : c ≤ best.2
          · simp [hle]
          · simp [hle]; omega
        refine ⟨by omega, ?_⟩
        intro pre hp rest he
        cases pre with
        | nil =>
          simp only [List.nil_append, List.cons.injEq] at he
          obtain ⟨rfl, rfl⟩ := he
          unfold hopContribution at hc
          cases ha : aggregateFees (t.map fun r => (r.base, r.prop)) with
          | none => simp [ha] at hc
          | some bp =>
            obtain ⟨B, P⟩ := bp
            simp only [ha, Option.some.injEq] at hc
            cases hm : hop_max_final_value_contribution (hop_max_msat h.cap pow h.used) B P with
            | none => simp [hm] at hc
            | some c0 =>
              simp only [hm, Option.map_some, Option.some.injEq] at hc
              have : c ≤ c0 := by rw [← hc]; exact Nat.min_le_left _ _
              exact ⟨B, P, c0, rfl, hm, by omega⟩
        | cons x pre' =>
          simp only [List.cons_append, List.cons.injEq] at he
          exact hrest pre' hp rest he.2

/-- PaymentPath::max_final_value_msat: the contribution it returns, plus the AGGREGATED fee of the hops after a
    hop (compute_aggregated_base_prop_fee, both update statements translated), fits under that hop's remaining
    maximum (generated `hop_max_msat`: max_htlc_from_capacity less the liquidity already used) — up to ⌊P/10⁶⌋
    msat, i.e. exactly when the aggregated proportional fee is below 100 %.  For every hop of every path. -/
theorem max_final_value_sound (pow : Nat) (hops : List MHop) (i v : Nat)
    (h : maxFinalValue pow hops = .ok i v) :
    ∀ pre hp rest, hops = pre ++ hp :: rest →
      ∃ B P, aggregateFees (rest.map fun r => (r.base, r.prop)) = some (B, P) ∧
        v + (B + v * P / 1000000) ≤ hop_max_msat hp.cap pow hp.used + P / 1000000 := by
  intro pre hp rest he
  obtain ⟨_, hall⟩ := maxFinalGo_bound pow hops 0 (0, U64_MAX) i v h
  obtain ⟨B, P, c, ha, hm, hv⟩ := hall pre hp rest he
  exact ⟨B, P, ha, max_contribution_within_hop_max _ B P c v hm hv⟩

def exMHops : List MHop :=
  [ { base := 0, prop := 0, cap := .exactLiquidity 5, used := 0 }, { base := 1, prop := 1, cap := .infinite, used := 0 } ]
-- the hop that can carry 5 msat before a hop charging 1 msat + 1 ppm is credited with 3 msat, although 4 + fee(4) = 5
-- fits: the rounding behind the candidate finding "max_path_count exceeded" (⌈8/2⌉ = 4 is the minimal contribution)
example : maxFinalValue 0 exMHops = .ok 0 3 := by decide
example : compute_fees 4 1 1 = some 1 ∧ 4 + 1 ≤ 5 := by decide
example : aggregateFees [(1000, 10000), (500, 20000)] = some (1505, 30200) := by decide

example : aggregateFees [(7, 250000)] = some (7, 250000) := by decide


/-- get_route's CLTV budget for the hops before the final one (pinned statement): whatever passes the search's
    `exceeds_cltv_delta_limit` test leaves room for the final delta within max_total_cltv_expiry_delta (get_route
    refuses `max_total_cltv_expiry_delta <= final_cltv_expiry_delta` beforehand).  The C16-r3 site. -/
theorem search_cltv_budget_sound (maxTotal final hops : Nat) (h : hops ≤ search_cltv_budget maxTotal final) :
    hops + final ≤ max maxTotal final := by
  unfold search_cltv_budget MEDIAN_HOP_CLTV_EXPIRY_DELTA at h
  simp only [] at h
  have h' := Nat.le_trans h (Nat.min_le_left _ _)
  split at h' <;> omega

example : search_cltv_budget 1008 144 = 784 ∧ search_cltv_budget 100 40 = 60 ∧ search_cltv_budget 40 40 = 0 := by decide

/-! ## fee arithmetic -/

/-- closed form of the generated `compute_fees` -/
theorem compute_fees_value (a b p f : Nat) :
    compute_fees a b p = some f ↔ (a * p < 2 ^ 64 ∧ b + a * p / 1000000 < 2 ^ 64 ∧ f = b + a * p / 1000000) :=
  compute_fees_eq_some_iff a b p f

example : compute_fees 1000000 1000 100 = some 1100 := by decide

/-- `compute_fees` fails exactly on u64 overflow of the product or of the sum -/
theorem compute_fees_none_iff_overflow (a b p : Nat) :
    compute_fees a b p = none ↔ (2 ^ 64 ≤ a * p ∨ 2 ^ 64 ≤ b + a * p / 1000000) :=
  compute_fees_eq_none_iff a b p

example : compute_fees (2 ^ 63) 0 2 = none := by decide
example : compute_fees (2 ^ 63) 0 1 ≠ none := by decide

/-- the fee is monotone in the amount (and defined for every smaller amount) -/
theorem compute_fees_monotone (a a' b p f' : Nat) (hle : a ≤ a') (h : compute_fees a' b p = some f') :
    ∃ f, compute_fees a b p = some f ∧ f ≤ f' :=
  compute_fees_mono hle h

example : ∃ f, compute_fees 5 1 500000 = some f ∧ f ≤ 6 := ⟨3, by decide, by decide⟩

/-- the saturating variant agrees with the checked one and is `u64::MAX` exactly when that overflows -/
theorem compute_fees_saturating_agrees (a b p : Nat) :
    compute_fees_saturating a b p = (compute_fees a b p).getD U64_MAX := by
  unfold compute_fees_saturating compute_fees chkMul64 chkAdd64 satAdd64 U64_MAX
  by_cases h1 : a * p < 2 ^ 64
  · by_cases h2 : b + a * p / 1000000 < 2 ^ 64
    · have h3 : a * p / 1000000 + b < 2 ^ 64 := by omega
      simp [h1, h2, Nat.add_comm]
    · have h3 : ¬ a * p / 1000000 + b < 2 ^ 64 := by omega
      simp [h1, h2, h3]
  · simp only [h1, if_false, Option.map_none, Option.getD_none, Option.bind_none]
    split <;> omega

example : compute_fees_saturating (2 ^ 63) 5 2 = U64_MAX := by decide

/-! ## the fee recurrence (update_value_and_recompute_fees, as repaired in /repo commit 2ea5edc) -/

/-- For every hop list and value, after the recurrence (`A` = the HTLC amount over each hop as the
    resulting `fee_msat`s encode it): one `fee_msat` per hop; every hop carries at least its
    `htlc_minimum_msat`; EVERY forwarding node's margin covers `compute_fees` of the amount it
    actually forwards (also after a final-hop raise); the amounts the code computed the fees on are
    exactly the amounts the route encodes; the return value is the value delivered by the final hop
    and at least `value`; the first hop carries the sum of all `fee_msat`s (delivered value + fees). -/
theorem recompute_fees_sound (value : Nat) (hops : List FeeHop) (res : Result)
    (h : recompute value hops = some res) :
    res.fees.length = hops.length ∧
    MinsOK hops (htlcAmounts res.fees) ∧
    MarginsOK hops (htlcAmounts res.fees) ∧
    res.amts = htlcAmounts res.fees ∧
    value ≤ res.ret ∧
    (hops ≠ [] → res.fees.getLast? = some res.ret) ∧
    (htlcAmounts res.fees).headD 0 = res.fees.sum := by
  have inv := recompute_inv value hops res h
  exact ⟨inv.len, inv.mins, inv.margins, inv.tracked, inv.retGe, inv.last, htlcAmounts_head_eq_sum _⟩

def exHops : List FeeHop :=
  [ { base := 1000, prop := 100, htlcMin := 1 }, { base := 7, prop := 10000, htlcMin := 150000 },
    { base := 10, prop := 1000, htlcMin := 1000 } ]
-- 100000 msat over three hops: the middle hop is raised to its minimum (150000), booked as fee
example : recompute 100000 exHops = some { fees := [1507, 50000, 100000], amts := [151507, 150000, 100000], ret := 100000 } := by decide
example : htlcAmounts [1507, 50000, 100000] = [151507, 150000, 100000] := by decide
example : MarginsOK exHops (htlcAmounts [1507, 50000, 100000]) := by
  refine ⟨⟨1507, by decide, by decide⟩, ⟨110, by decide, by decide⟩, trivial⟩

/-- Regression for finding KF-C16-1 (repaired by /repo 2ea5edc): 1000 msat over three hops whose final
    hop has `htlc_minimum_msat = 2000`. The final hop is raised to 2000, the middle node (10 % fee)
    forwards 2010 msat and is now paid its full policy fee 201 (before the repair: 101). -/
theorem final_raise_pays_policy_fee :
    recompute 1000 [⟨0, 0, 0⟩, ⟨0, 100000, 0⟩, ⟨10, 0, 2000⟩] =
      some { fees := [201, 10, 2000], amts := [2211, 2010, 2000], ret := 2000 } ∧
    compute_fees 2010 0 100000 = some 201 ∧
    MarginsOK [⟨0, 0, 0⟩, ⟨0, 100000, 0⟩, ⟨10, 0, 2000⟩] (htlcAmounts [201, 10, 2000]) := by
  refine ⟨by decide, by decide, ⟨201, by decide, by decide⟩, ⟨10, by decide, by decide⟩, trivial⟩

example : htlcAmounts [201, 10, 2000] = [2211, 2010, 2000] := by decide

/-- Raises are reported: the value returned (and delivered by the final hop) is the larger of `value`
    and the final hop's minimum — callers add the surplus to the route's total fees — and every other
    amount is EXACTLY the larger of the hop's own minimum and what the next hop receives plus its
    policy fee, so an amount raised to a minimum sits inside that hop's `fee_msat`. -/
theorem raise_is_reported_as_fee (value : Nat) (hops : List FeeHop) (res : Result)
    (h : recompute value hops = some res) :
    (∀ l, hops.getLast? = some l → res.ret = max value l.htlcMin) ∧
    ExactOK hops (htlcAmounts res.fees) := by
  have inv := recompute_inv value hops res h
  exact ⟨inv.lastMin, inv.exact⟩

example : (recompute 1000 [⟨0, 0, 0⟩, ⟨10, 0, 2000⟩]).map (·.ret) = some 2000 := by decide

/-! ## path count (get_route's fragmentation bound, translated from the source each run) -/

/-- `max_path_count` minimal contributions always cover the payment (⌈v/n⌉·n ≥ v); without MPP the
    single path must carry everything. -/
theorem min_contribution_covers (allow_mpp : Bool) (v n : Nat) (hn : 0 < n) :
    v ≤ n * minimal_value_contribution_msat allow_mpp v n ∧
    (allow_mpp = false → minimal_value_contribution_msat allow_mpp v n = v) := by
  unfold minimal_value_contribution_msat
  cases allow_mpp
  · simp; exact Nat.le_mul_of_pos_left v hn
  · simp
    have h := Nat.div_add_mod (v + n - 1) n
    have hm := Nat.mod_lt (v + n - 1) hn
    have : n * ((v + n - 1) / n) = v + n - 1 - (v + n - 1) % n := by omega
    omega

private theorem sum_ge_length_mul (m : Nat) (ps : List Nat) (h : ∀ p ∈ ps, m ≤ p) : ps.length * m ≤ ps.sum := by
  induction ps with
  | nil => simp
  | cons a t ih =>
    have h1 : m ≤ a := h a (by simp)
    have h2 := ih (fun p hp => h p (by simp [hp]))
    simp [List.sum_cons, Nat.add_mul]; omega

/-- "A returned route has at most `max_path_count` paths": for ANY payment value, any `max_path_count > 0`
    and any multiset of collected paths each contributing at least the translated bound, a selection in
    which the last path was still needed (the others do not reach the value) has at most `max_path_count`
    paths.  With a floor instead of the ceiling the statement is false (v = 100000, n = 3: four paths of
    33333 are all needed). -/
theorem path_count_bounded (allow_mpp : Bool) (v n : Nat) (hn : 0 < n) (q : Nat) (rest : List Nat)
    (hge : ∀ p ∈ rest, minimal_value_contribution_msat allow_mpp v n ≤ p)
    (hneeded : rest.sum < v) :
    (q :: rest).length ≤ n := by
  have hc := (min_contribution_covers allow_mpp v n hn).1
  have hs := sum_ge_length_mul _ rest hge
  have : rest.length * minimal_value_contribution_msat allow_mpp v n < n * minimal_value_contribution_msat allow_mpp v n := by omega
  have := Nat.lt_of_mul_lt_mul_right this
  simp; omega

example : minimal_value_contribution_msat true 100000 3 = 33334 := by decide
example : ¬ (100000 ≤ 3 * (100000 / 3)) := by decide   -- the floor would not cover
example : ([33334, 33334] : List Nat).sum < 100000 ∧ ∀ p ∈ [33334, 33334], minimal_value_contribution_msat true 100000 3 ≤ p := by decide

/-- The recurrence fails (the Rust `unreachable!()` arm) only if some policy fee overflows u64. -/
theorem recompute_none_only_on_fee_overflow (value : Nat) (hops : List FeeHop)
    (hno : ∀ h ∈ hops, ∀ a, compute_fees a h.base h.prop ≠ none) : recompute value hops ≠ none := by
  have hgo : ∀ hs : List FeeHop, (∀ h ∈ hs, ∀ a, compute_fees a h.base h.prop ≠ none) → go value hs ≠ none := by
    intro hs
    induction hs with
    | nil => intro _; simp [go]
    | cons h t ih =>
      intro hn
      have ht := ih (fun x hx => hn x (List.mem_cons_of_mem _ hx))
      rw [go]
      cases hg : go value t with
      | none => exact absurd hg ht
      | some st =>
        have hc := hn h (List.mem_cons_self ..) (hopStep value h t.isEmpty st).amt
        cases hf : compute_fees (hopStep value h t.isEmpty st).amt h.base h.prop with
        | none => exact absurd hf hc
        | some nf => simp [hf]
  cases hops with
  | nil => simp [recompute]
  | cons h t =>
    have ht := hgo t (fun x hx => hno x (List.mem_cons_of_mem _ hx))
    rw [recompute]
    cases hg : go value t with
    | none => exact absurd hg ht
    | some st => simp

example : recompute (2 ^ 63) [⟨0, 0, 0⟩, ⟨0, 2, 0⟩] = none := by decide


/-! ## C16b — the judged findings KF-C16-7 … 11 (DESIGN 9.3): the deviation on the translated definitions, and the
    statement the proposed repair (/verif/run/fixes/C16-*.diff) makes true -/

/-- KF-C16-7/B, /C on the checker: the routes find_route returns on the two probes (harness `PROBES`) violate the chain
    clause — the payer's public channel 3 although first_hops was supplied; the disabled direction 1 → 2 of channel 2. -/
def kf7Graph : Graph :=
  [ { scid := 1, src := 0, dst := 1, enabled := true, htlcMin := 0, htlcMax := 1000000, cap := none, base := 0, prop := 0, cltv := 40 },
    { scid := 1, src := 1, dst := 0, enabled := true, htlcMin := 0, htlcMax := 1000000, cap := none, base := 0, prop := 0, cltv := 40 },
    { scid := 2, src := 1, dst := 2, enabled := false, htlcMin := 0, htlcMax := 1000000, cap := none, base := 0, prop := 0, cltv := 40 },
    { scid := 2, src := 2, dst := 1, enabled := true, htlcMin := 0, htlcMax := 1000000, cap := none, base := 0, prop := 0, cltv := 40 },
    { scid := 3, src := 0, dst := 2, enabled := true, htlcMin := 0, htlcMax := 1000000, cap := none, base := 0, prop := 0, cltv := 40 },
    { scid := 3, src := 2, dst := 0, enabled := true, htlcMin := 0, htlcMax := 1000000, cap := none, base := 0, prop := 0, cltv := 40 },
    { scid := 2000001, alt := some 1000001, kind := .firstHop, src := 0, dst := 1, enabled := true, htlcMin := 0, htlcMax := 1000000, cap := none, base := 0, prop := 0, cltv := 0 } ]
def kf7Params : Params :=
  { payer := 0, payee := 2, amount := 1000, maxFee := none, maxCltv := 1008, maxPaths := 1, maxLen := 19, finalCltv := 40, excluded := [], hasFirst := true }
theorem kf7_hint_named_graph_channel_violates_chain :
    verdict kf7Graph kf7Params [ [ { scid := 3, node := 2, fee := 1000, cltv := 120 } ] ] = "invalid chain" ∧
    verdict kf7Graph { kf7Params with hasFirst := false }
      [ [ { scid := 1, node := 1, fee := 0, cltv := 40 }, { scid := 2, node := 2, fee := 1000, cltv := 120 } ] ] = "invalid chain" := by
  constructor <;> decide
-- the same first route is fine for a caller who did not supply first_hops, the second once the direction is enabled
example : verdict kf7Graph { kf7Params with hasFirst := false } [ [ { scid := 3, node := 2, fee := 1000, cltv := 120 } ] ] = "valid" := by decide

/-- KF-C16-8 on the translated definitions: hop maximum 5, then a hop charging 1 msat + 1 ppm. `add_entry!` admits a
    contribution of 4 (4 + fee 1 = 5 fits, and 4 is the minimal contribution for 8 msat in 2 paths), the GENERATED
    `hop_max_final_value_contribution` returns 3: three such paths are needed for 8 msat where max_path_count is 2. -/
theorem kf8_contribution_rounded_below_minimum :
    minimal_value_contribution_msat true 8 2 = 4 ∧
    compute_fees 4 1 1 = some 1 ∧ 4 + 1 ≤ 5 ∧
    hop_max_final_value_contribution 5 1 1 = some 3 ∧
    3 < minimal_value_contribution_msat true 8 2 ∧
    ([3, 3] : List Nat).sum < 8 ∧ 8 ≤ ([3, 3, 3] : List Nat).sum := by
  refine ⟨by decide, by decide, by decide, by decide, by decide, by decide, by decide⟩
/-- … and what the repair (drop a collected path whose recomputed contribution is below the minimal contribution)
    re-establishes is exactly the hypothesis of `path_count_bounded`: when every collected path contributes at least
    `minimal_value_contribution_msat`, any `max_path_count` of them already cover the amount. -/
theorem kf8_repair_restores_count_bound (v n : Nat) (hn : 0 < n) (paths : List Nat) (hl : paths.length = n)
    (hmin : ∀ q ∈ paths, minimal_value_contribution_msat true v n ≤ q) : v ≤ paths.sum := by
  have hc := (min_contribution_covers true v n hn).1
  have hs := sum_ge_length_mul _ paths hmin
  rw [hl] at hs
  omega
example : ¬ (8 ≤ ([3, 3] : List Nat).sum) := by decide

/-- KF-C16-9 on the checker: the route a release build returns on the probe (first hop to node 1, made for blinded path 0
    which starts there, stitched to channel 5 → node 2 → blinded path 1) has 2 `Path::hops` where max_path_length is 1. -/
def kf9Graph : Graph :=
  [ { scid := 5, src := 1, dst := 2, enabled := true, htlcMin := 0, htlcMax := 1000000, cap := none, base := 1, prop := 0, cltv := 40 },
    { scid := 5, src := 2, dst := 1, enabled := true, htlcMin := 0, htlcMax := 1000000, cap := none, base := 1, prop := 0, cltv := 40 },
    { scid := 2000001, alt := some 1000001, kind := .firstHop, src := 0, dst := 1, enabled := true, htlcMin := 0, htlcMax := 1000000, cap := none, base := 0, prop := 0, cltv := 0 },
    { scid := 0, kind := .blinded, src := 1, dst := 999, enabled := true, htlcMin := 0, htlcMax := 1000000, cap := none, base := 5000, prop := 0, cltv := 40 },
    { scid := 1, kind := .blinded, src := 2, dst := 999, enabled := true, htlcMin := 0, htlcMax := 1000000, cap := none, base := 0, prop := 0, cltv := 40 } ]
def kf9Params : Params :=
  { payer := 0, payee := 999, amount := 1000, maxFee := none, maxCltv := 1008, maxPaths := 1, maxLen := 1, finalCltv := 0, excluded := [], hasFirst := true }
theorem kf9_stitched_route_exceeds_max_path_length :
    verdict kf9Graph kf9Params
      [ [ { scid := 2000001, node := 1, fee := 1, cltv := 40 }, { scid := 5, node := 2, fee := 0, cltv := 40 }, { scid := 1, node := 999, fee := 1000, cltv := 0, blinded := true } ] ] = "invalid length" ∧
    -- the path the payer's entry was made for is within the limit
    verdict kf9Graph kf9Params
      [ [ { scid := 2000001, node := 1, fee := 5000, cltv := 40 }, { scid := 0, node := 999, fee := 1000, cltv := 0, blinded := true } ] ] = "valid" := by
  constructor <;> decide

example : pathLen [ { scid := 2000001, node := 1, fee := 1, cltv := 40 }, { scid := 5, node := 2, fee := 0, cltv := 40 }, { scid := 1, node := 999, fee := 1000, cltv := 0, blinded := true } ] = 2 := by decide

/-- KF-C16-10, the general bound on the translated `compute_fees`: the fee on a merged amount exceeds the sum of the parts'
    fees by AT MOST ONE msat per hop (and is below it by the base fee saved) — the 1–2 msat by which get_route step (8)
    pushes a hop over a limit both parts respected. -/
theorem kf10_merged_fee_exceeds_parts_by_at_most_one (a b B P fa fb fab : Nat)
    (ha : compute_fees a B P = some fa) (hb : compute_fees b B P = some fb) (hab : compute_fees (a + b) B P = some fab) :
    fab ≤ fa + fb + 1 ∧ fa + fb ≤ fab + B + 1 := by
  unfold compute_fees chkMul64 chkAdd64 at ha hb hab
  have e : (a + b) * P = a * P + b * P := Nat.add_mul a b P
  generalize a * P = x at ha e
  generalize b * P = y at hb e
  rw [e] at hab
  by_cases h1 : x < 2 ^ 64 <;> by_cases h2 : y < 2 ^ 64 <;> by_cases h3 : x + y < 2 ^ 64 <;>
    simp only [h1, h2, h3, if_true, if_false, Option.bind_some, Option.bind_none, reduceCtorEq] at ha hb hab
  · split at ha <;> split at hb <;> split at hab <;> simp only [Option.some.injEq, reduceCtorEq] at ha hb hab
    omega
example : ∃ fa fb fab, compute_fees 1 0 918132 = some fa ∧ compute_fees 1 0 918132 = some fb ∧ compute_fees (1 + 1) 0 918132 = some fab ∧ fab = fa + fb + 1 :=
  ⟨0, 0, 1, by decide, by decide, by decide, by decide⟩

/-- … and it does exceed it: two parts of 1 msat over a 91.8132 % hop cost 0 each, merged they cost 1; on the probe the
    merged path puts 3 msat on channel 1 whose htlc_maximum is 2 (each part alone: 1). -/
theorem kf10_merge_pushes_hop_over_limit :
    compute_fees 1 0 918132 = some 0 ∧ compute_fees 2 0 918132 = some 1 ∧
    verdict
      [ { scid := 1, src := 0, dst := 1, enabled := true, htlcMin := 0, htlcMax := 2, cap := none, base := 0, prop := 0, cltv := 40 },
        { scid := 1, src := 1, dst := 0, enabled := true, htlcMin := 0, htlcMax := 2, cap := none, base := 0, prop := 0, cltv := 40 },
        { scid := 2, src := 1, dst := 2, enabled := true, htlcMin := 0, htlcMax := 2, cap := none, base := 0, prop := 918132, cltv := 40 },
        { scid := 2, src := 2, dst := 1, enabled := true, htlcMin := 0, htlcMax := 2, cap := none, base := 0, prop := 0, cltv := 40 } ]
      { payer := 0, payee := 2, amount := 2, maxFee := none, maxCltv := 1008, maxPaths := 2, maxLen := 19, finalCltv := 40, excluded := [] }
      [ [ { scid := 1, node := 1, fee := 1, cltv := 40 }, { scid := 2, node := 2, fee := 2, cltv := 120 } ] ] = "invalid capacity" := by
  refine ⟨by decide, by decide, by decide⟩

/-- KF-C16-11, on the translated loop body of update_value_and_recompute_fees: the amount a hop carries after the
    recurrence is EXACTLY the larger of its own `htlc_minimum_msat` and `total_fee_paid_msat + value_msat +
    extra_contribution_msat` (= `value_contribution_msat + hop.next_hops_fee_msat`, what get_route books as used liquidity).
    So the booking undercounts precisely when the hop was raised to its own minimum, and the repaired booking
    `max(value_contribution_msat + next_hops_fee_msat, htlc_minimum_msat)` is the amount carried. -/
theorem kf11_hop_amount_is_max_of_minimum_and_booking (value : Nat) (h : FeeHop) (lastHop : Bool) (st : St) :
    (hopStep value h lastHop st).amt = max h.htlcMin (cur_hop_transferred_amount_msat st.totalFeePaid value st.extra) := by
  unfold hopStep chkSub
  by_cases hle : cur_hop_transferred_amount_msat st.totalFeePaid value st.extra ≤ h.htlcMin
  · simp only [hle, if_true]
    cases lastHop <;> simp only [Bool.false_eq_true, if_false, if_true] <;> omega
  · simp only [hle, if_false]
    omega
example : (hopStep 3 ⟨0, 0, 5⟩ false { totalFeePaid := 1, extra := 0, nextUseFee := 0, fees := [], amts := [] }).amt = 5 := by decide

/-- … on the probe path (first hop with minimum 5, a hop of maximum 5, a hop charging 1 msat + 1 ppm; value 3 after the
    rounding of KF-C16-8): the first hop carries 5, the booking `3 + 1` says 4. -/
theorem kf11_own_minimum_raise_undercounted :
    recompute 3 [⟨0, 0, 5⟩, ⟨0, 0, 0⟩, ⟨1, 1, 0⟩] = some { fees := [1, 1, 3], amts := [5, 4, 3], ret := 3 } ∧
    cur_hop_transferred_amount_msat 1 3 0 = 4 ∧ 4 < 5 ∧ 5 + 5 > 9 ∧ 4 + 4 ≤ 9 := by
  refine ⟨by decide, by decide, by decide, by decide, by decide⟩

/-! ### C16-r5: what a supplied first hop may carry — the CURRENT bounds of its `ChannelDetails`
    (`first_hop_htlc_minimum_msat`, `first_hop_effective_capacity`, … are TRANSLATED from the FirstHop arms of
    router.rs `CandidateRouteHop::{htlc_minimum_msat, effective_capacity, …}` over a record of the ChannelDetails /
    ChannelCounterparty fields — Generated/RouterFirstHop.lean; an arm reading another field still translates and
    these theorems stop checking) -/

/-- the minimum the router requires on a first hop is the channel's CURRENT minimum
    (`ChannelDetails::next_outbound_htlc_minimum_msat`), whatever the counterparty's static minimum, the capacities
    and the inbound bounds say -/
theorem first_hop_minimum_is_current_minimum (d : FirstHopDetails) :
    first_hop_htlc_minimum_msat d = d.next_outbound_htlc_minimum_msat := by
  unfold first_hop_htlc_minimum_msat
  rfl

/-- a channel whose current minimum (dust exposure nearly used) is far above the peer's static one / whose static one is unknown -/
def exDetails : FirstHopDetails :=
  { next_outbound_htlc_minimum_msat := 1000000, next_outbound_htlc_limit_msat := 10000000, outbound_capacity_msat := 20000007,
    inbound_capacity_msat := 42, channel_value_satoshis := 20008, inbound_htlc_minimum_msat := some 1, inbound_htlc_maximum_msat := none,
    is_announced := false, short_channel_id := some 1000001, outbound_scid_alias := some 2000001,
    counterparty_outbound_htlc_minimum_msat := some 1000, counterparty_outbound_htlc_maximum_msat := some 30000011 }
example : first_hop_htlc_minimum_msat exDetails = 1000000 := by decide
example : first_hop_htlc_minimum_msat { exDetails with counterparty_outbound_htlc_minimum_msat := none } = 1000000 := by decide

/-- … and the maximum is the CURRENT limit (`next_outbound_htlc_limit_msat`), at every saturation power -/
theorem first_hop_limit_is_current_limit (d : FirstHopDetails) (pow : Nat) :
    first_hop_effective_capacity d = .exactLiquidity d.next_outbound_htlc_limit_msat ∧
    max_htlc_from_capacity (first_hop_effective_capacity d) pow = d.next_outbound_htlc_limit_msat := by
  unfold first_hop_effective_capacity max_htlc_from_capacity
  exact ⟨rfl, rfl⟩
example : max_htlc_from_capacity (first_hop_effective_capacity exDetails) 2 = 10000000 := by decide

/-- the first hop is known to scorers under a globally unique scid only if the channel is announced, and to the route under
    the outbound payment scid -/
theorem first_hop_ids_are_the_details_ids (d : FirstHopDetails) :
    first_hop_globally_unique_scid d = (if d.is_announced then d.short_channel_id else none) ∧
    first_hop_short_channel_id d = get_outbound_payment_scid d.outbound_scid_alias d.short_channel_id := by
  unfold first_hop_globally_unique_scid first_hop_short_channel_id
  exact ⟨rfl, rfl⟩
example : first_hop_globally_unique_scid exDetails = none ∧ first_hop_short_channel_id exDetails = some 2000001 := by decide

/-- the candidate the model (and the driver, for every `f` entry of an op line) builds from a `ChannelDetails`: what it requires
    and allows are the current bounds; no fee, no CLTV delta -/
theorem first_hop_candidate_bounds (d : FirstHopDetails) (src dst : Nat) (u : Bool) (c : Chan)
    (h : firstHopChan d src dst u = some c) :
    c.kind = .firstHop ∧ c.minMsat = d.next_outbound_htlc_minimum_msat ∧ c.limit = d.next_outbound_htlc_limit_msat ∧
    c.feeBase = 0 ∧ c.feeProp = 0 ∧ c.cltvDelta = 0 ∧ c.src = src ∧ c.dst = dst ∧ c.enabled = u := by
  unfold firstHopChan at h
  cases hi : firstHopIds d.outbound_scid_alias d.short_channel_id with
  | none => simp [hi] at h
  | some ids =>
    obtain ⟨scid, alt⟩ := ids
    simp only [hi, Option.some.injEq] at h
    subst h
    exact ⟨rfl, rfl, rfl, rfl, rfl, rfl, rfl, rfl, rfl⟩
example : (firstHopChan exDetails 0 1 true).map (fun c => (c.scid, c.alt, c.minMsat, c.limit)) = some (2000001, some 1000001, 1000000, 10000000) := by decide

/-- THE CLAUSE "every hop carries at least that channel's minimum", for the supplied first hops, on the ChannelDetails:
    in a valid route every path whose first hop stands for the candidate of a supplied `ChannelDetails` carries at least that
    channel's CURRENT minimum over it (the amount over the first channel = all `fee_msat`s of the path), and the channel is usable -/
theorem valid_route_first_hop_meets_current_minimum (g : Graph) (p : Params) (r : Route) (h : RouteOK g p r)
    (d : FirstHopDetails) (src dst : Nat) (u : Bool) (c : Chan) (hc : firstHopChan d src dst u = some c) :
    ∀ path ∈ r, ∀ hd tl, path = hd :: tl → resolve g p p.payer hd = some c →
      d.next_outbound_htlc_minimum_msat ≤ pathAmount path ∧ u = true := by
  obtain ⟨_, hmin, _, _, _, _, _, _, hen⟩ := first_hop_candidate_bounds d src dst u c hc
  intro path hp hd tl hpath hres
  have hch := h.chain path hp
  subst hpath
  cases hch with
  | last _ _ c0 hl hok _ _ =>
    rw [hres] at hl
    have : c = c0 := by simpa using hl
    subst this
    refine ⟨?_, ?_⟩
    · have := hok.2.2.1
      rw [hmin] at this
      simpa [pathAmount] using this
    · rw [← hen]; exact hok.2.1
  | cons _ _ h' t c0 c' f _ hl hok _ _ _ _ _ =>
    rw [hres] at hl
    have : c = c0 := by simpa using hl
    subst this
    refine ⟨?_, ?_⟩
    · have := hok.2.2.1
      rw [hmin] at this
      exact this
    · rw [← hen]; exact hok.2.1

/-- … and jointly over all paths no more than its CURRENT limit (apart from the deliberate raises the route reports as fees) -/
theorem valid_route_first_hop_within_current_limit (g : Graph) (p : Params) (r : Route) (h : RouteOK g p r)
    (d : FirstHopDetails) (src dst : Nat) (u : Bool) (c : Chan) (hc : firstHopChan d src dst u = some c) (hg : c ∈ g) :
    usageOn g p r c ≤ d.next_outbound_htlc_limit_msat := by
  obtain ⟨_, _, hlim, _⟩ := first_hop_candidate_bounds d src dst u c hc
  rw [← hlim]; exact h.capacity c hg

/-- demo of the seeded change C16-r5 on the model: 100000 msat over the channel `exDetails` (current minimum 1000000, peer's static
    minimum 1000) is NOT a valid route … -/
def exR5Graph : Graph :=
  (firstHopChan exDetails 0 1 true).toList ++
  [ { scid := 2, src := 1, dst := 2, enabled := true, htlcMin := 0, htlcMax := 1000000000, cap := none, base := 0, prop := 0, cltv := 40 },
    { scid := 2, src := 2, dst := 1, enabled := true, htlcMin := 0, htlcMax := 1000000000, cap := none, base := 0, prop := 0, cltv := 40 } ]
def exR5Params : Params :=
  { payer := 0, payee := 2, amount := 100000, maxFee := none, maxCltv := 1008, maxPaths := 1, maxLen := 19, finalCltv := 40, excluded := [],
    hasFirst := true, excludedBlinded := [] }
example : verdict exR5Graph exR5Params [ [ { scid := 2000001, node := 1, fee := 0, cltv := 40 }, { scid := 2, node := 2, fee := 100000, cltv := 40 } ] ] = "invalid chain" := by decide
/-- … while 1000000 msat is -/
example : verdict exR5Graph { exR5Params with amount := 1000000 } [ [ { scid := 2000001, node := 1, fee := 0, cltv := 40 }, { scid := 2, node := 2, fee := 1000000, cltv := 40 } ] ] = "valid" := by decide

/-! ### C16-r5: the htlc-minimum gate of `add_entry!` (translated `over_path_minimum_msat` /
    `may_overpay_to_meet_path_minimum_msat`, pinned guard chain) -/

/-- a candidate that passes the minimum guards of add_entry! for the amount it would carry meets its own htlc_minimum AND the
    minimum the following hops need (`path_htlc_minimum_msat` of the next entry) -/
theorem add_entry_gate_meets_minimums (amt hmin nextmin rec : Nat) (h : add_entry_minimum_gate amt hmin nextmin rec = true) :
    hmin ≤ amt ∧ nextmin ≤ amt := by
  unfold add_entry_minimum_gate over_path_minimum_msat at h
  simp only [Bool.and_eq_true, decide_eq_true_eq, ge_iff_le] at h
  exact h.2

/-- … and nothing more: every candidate whose amount meets both minimums passes (the "may overpay" guard never fires then) -/
theorem add_entry_gate_complete (amt hmin nextmin rec : Nat) (h1 : hmin ≤ amt) (h2 : nextmin ≤ amt) :
    add_entry_minimum_gate amt hmin nextmin rec = true := by
  unfold add_entry_minimum_gate over_path_minimum_msat may_overpay_to_meet_path_minimum_msat
  have n1 : ¬ amt < hmin := Nat.not_lt.mpr h1
  have n2 : ¬ amt < nextmin := Nat.not_lt.mpr h2
  simp [h1, h2, n1, n2]

/-- a candidate below a minimum is either retried with the recommended value (`hit_minimum_limit`) or silently skipped, never used -/
theorem add_entry_below_minimum_never_admitted (amt hmin nextmin rec : Nat) (h : amt < hmin ∨ amt < nextmin) :
    add_entry_minimum_gate amt hmin nextmin rec = false := by
  cases hg : add_entry_minimum_gate amt hmin nextmin rec with
  | false => rfl
  | true =>
    have := add_entry_gate_meets_minimums amt hmin nextmin rec hg
    omega
example : add_entry_minimum_gate 100000 1000000 0 300000 = false ∧ may_overpay_to_meet_path_minimum_msat 100000 1000000 0 300000 = false := by decide
example : add_entry_minimum_gate 400000 1000000 0 1200000 = false ∧ may_overpay_to_meet_path_minimum_msat 400000 1000000 0 1200000 = true := by decide
example : add_entry_minimum_gate 1000000 1000000 5 1200000 = true := by decide

/-! ### C16-r5: the liquidity side of `add_entry!` (statements translated one by one, order pinned) -/

/-- a candidate that add_entry! lets contribute (its value contribution reaches the positive minimal contribution) would carry the
    contribution plus the fees of the following hops, and — together with what earlier paths already booked on it
    (`used_liquidities`) — at most `htlc_maximum_msat = max_htlc_from_capacity(effective_capacity, saturation)`; the contribution
    is at most what the following hops can take -/
theorem add_entry_amount_within_remaining_limit (hmax fee used nvc v a minimal : Nat)
    (h : add_entry_amounts hmax fee used nvc = some (v, a))
    (hs : contributes_sufficient_value v minimal = true) (hm : 0 < minimal) :
    a = v + fee ∧ a + used ≤ hmax ∧ v ≤ nvc := by
  unfold add_entry_amounts chkSub chkAdd64 at h
  unfold contributes_sufficient_value at hs
  have hs' : minimal ≤ v := by simpa using hs
  by_cases h1 : fee ≤ hmax
  · by_cases h2 : Nat.min (hmax - fee - used) nvc + fee < 2 ^ 64
    · simp only [h1, h2, if_true, Option.bind_some, Option.map_some, Option.some.injEq, Prod.mk.injEq] at h
      obtain ⟨hv, ha⟩ := h
      have l1 : Nat.min (hmax - fee - used) nvc ≤ hmax - fee - used := Nat.min_le_left _ _
      have l2 : Nat.min (hmax - fee - used) nvc ≤ nvc := Nat.min_le_right _ _
      omega
    · simp [h1, h2] at h
  · simp [h1] at h

/-- the amounts, in closed form (u64 inputs; `none` only when the following hops' fees alone exceed the maximum) -/
theorem add_entry_amounts_value (hmax fee used nvc : Nat) (h1 : fee ≤ hmax) (h2 : hmax < 2 ^ 64) :
    add_entry_amounts hmax fee used nvc = some (Nat.min (hmax - fee - used) nvc, Nat.min (hmax - fee - used) nvc + fee) := by
  unfold add_entry_amounts chkSub chkAdd64
  have l1 : Nat.min (hmax - fee - used) nvc ≤ hmax - fee - used := Nat.min_le_left _ _
  have h3 : Nat.min (hmax - fee - used) nvc + fee < 2 ^ 64 := by omega
  simp [h1, h3]
example : add_entry_amounts 9 1 4 100 = some (4, 5) := by decide
example : add_entry_amounts 9 10 0 100 = none := by decide

/-! ### C16-r5b: DirectedChannelInfo::effective_capacity translated -/

/-- the model's capacity of a public channel direction (`Chan.pubCapacity`, which `routeValid` uses) IS the translated
    routing/gossip.rs DirectedChannelInfo::effective_capacity on the direction's htlc_maximum_msat and the channel's
    capacity_sats (`cap` holds capacity_sats * 1000, as the harness dumps it) -/
theorem pub_capacity_is_translated (c : Chan) (sats : Option Nat) (h : c.cap = sats.map (· * 1000)) :
    c.pubCapacity = directed_channel_effective_capacity c.htlcMax sats := by
  unfold Chan.pubCapacity directed_channel_effective_capacity
  cases sats with
  | none => simp [h]
  | some s => simp [h]
example : directed_channel_effective_capacity 5000 (some 3) = .total 3000 3000 := by decide
example : directed_channel_effective_capacity 5000 none = .advertisedMaxHTLC 5000 := by decide

/-- every public channel direction of a valid route carries, jointly over all paths, at most the TRANSLATED effective maximum:
    max_htlc_from_capacity (translated) of DirectedChannelInfo::effective_capacity (translated) = min(htlc_maximum_msat,
    capacity_sats * 1000) -/
theorem valid_route_hop_within_translated_maximum (g : Graph) (p : Params) (r : Route) (h : RouteOK g p r)
    (c : Chan) (hc : c ∈ g) (hk : c.kind = .publicHop) (sats : Option Nat) (hs : c.cap = sats.map (· * 1000)) :
    usageOn g p r c ≤ max_htlc_from_capacity (directed_channel_effective_capacity c.htlcMax sats) 0 ∧
    max_htlc_from_capacity (directed_channel_effective_capacity c.htlcMax sats) 0 =
      (match sats with | some s => min c.htlcMax (s * 1000) | none => c.htlcMax) := by
  have hl : c.limit = max_htlc_from_capacity (directed_channel_effective_capacity c.htlcMax sats) 0 := by
    unfold Chan.limit Chan.effectiveCapacity candidate_capacity
    rw [hk, pub_capacity_is_translated c sats hs]
  refine ⟨hl ▸ h.capacity c hc, ?_⟩
  rw [← hl, limit_is_min_of_max_and_capacity c, hk]
  cases sats with
  | none => simp [hs]
  | some s => simp [hs]
example : max_htlc_from_capacity (directed_channel_effective_capacity 5000 (some 3)) 0 = 3000 := by decide

/-! ### C16-r5b: booking of selected paths in `used_liquidities` (get_route, after update_value_and_recompute_fees) -/

/-- one booking step stays within the maximum -/
theorem book_one_within (hmax : Nat) (u : Option Nat) (s : Sel) (h : s.ok hmax u) :
    book_used_liquidity u (spent_on_hop_msat s.w s.fee') ≤ hmax := by
  obtain ⟨v, a, ha, hs, hm, hw, hf⟩ := h
  obtain ⟨h1, h2, _⟩ := add_entry_amount_within_remaining_limit hmax s.fee (u.getD 0) s.nvc v a s.minimal ha hs hm
  cases u with
  | none =>
    simp only [Option.getD_none] at h2
    simp only [book_used_liquidity, spent_on_hop_msat]
    omega
  | some x =>
    simp only [Option.getD_some] at h2
    simp only [book_used_liquidity, spent_on_hop_msat]
    omega
example : book_used_liquidity (some 5) (spent_on_hop_msat 3 1) = 9 := by decide

/-- THE AGGREGATE BOUND ON WHAT IS BOOKED, for every list of selected paths (induction over the selection order): if every path
    was admitted by add_entry! against the entry as it stood and built with at most the admitted amounts, the candidate's
    used_liquidities entry never exceeds htlc_maximum_msat — get_route's `debug_assert!(*used_liquidity_msat <= hop_max_msat)` -/
theorem booked_liquidity_within_maximum (hmax : Nat) (l : List Sel) (u : Option Nat) (hu : u.getD 0 ≤ hmax)
    (h : AllOK hmax u l) : (bookAll u l).getD 0 ≤ hmax := by
  induction l generalizing u with
  | nil => simpa [bookAll] using hu
  | cons s t ih =>
    cases h with
    | cons _ _ _ hs ht =>
      simp only [bookAll]
      exact ih _ (by simpa using book_one_within hmax u s hs) ht
example : AllOK 9 none [⟨1, 100, 3, 4, 1⟩, ⟨1, 100, 3, 3, 1⟩] ∧ bookAll none [⟨1, 100, 3, 4, 1⟩, ⟨1, 100, 3, 3, 1⟩] = some 9 := by
  refine ⟨.cons _ _ _ ⟨8, 9, by decide, by decide, by decide, by decide, by decide⟩
    (.cons _ _ _ ⟨3, 4, by decide, by decide, by decide, by decide, by decide⟩ (.nil _)), by decide⟩

/-- the entry is the sum of what was booked -/
theorem bookAll_sum (l : List Sel) (x : Nat) :
    (bookAll (some x) l).getD 0 = x + (l.map fun s => spent_on_hop_msat s.w s.fee').sum := by
  induction l generalizing x with
  | nil => simp [bookAll]
  | cons s t ih => simp only [bookAll, book_used_liquidity, List.map_cons, List.sum_cons]; rw [ih]; omega
example : (bookAll (some 2) [⟨0, 0, 0, 3, 1⟩, ⟨0, 0, 0, 1, 0⟩]).getD 0 = 7 := by decide

/-- Σ over the selected paths of the amount CARRIED over one candidate ≤ its maximum — PARTIAL: needs `carried = booked` for
    every path. That hypothesis is exactly what the known findings falsify: KF-C16-11 (a hop raised to its OWN htlc_minimum
    carries max(htlc_minimum, booked), kf11_hop_amount_is_max_of_minimum_and_booking) and KF-C16-10 (step (8) merges identical
    paths and recomputes the fee on the sum: carried ≤ Σ booked + 1 per merged pair, kf10_merged_fee_exceeds_parts_by_at_most_one) -/
theorem carried_liquidity_within_maximum_partial (hmax : Nat) (l : List Sel) (carried : Sel → Nat)
    (h : AllOK hmax none l) (hc : ∀ s ∈ l, carried s = spent_on_hop_msat s.w s.fee') :
    (l.map carried).sum ≤ hmax := by
  have hb := booked_liquidity_within_maximum hmax l none (by simp) h
  cases l with
  | nil => simp
  | cons s t =>
    simp only [bookAll, book_used_liquidity] at hb
    rw [bookAll_sum] at hb
    have e : ((s :: t).map carried) = ((s :: t).map fun s => spent_on_hop_msat s.w s.fee') :=
      List.map_congr_left hc
    rw [e]; simpa using hb
/-- the KF-C16-11 probe: two paths admitted and booked with 4 + 4 ≤ 9, each CARRYING 5 (raised to the first hop's minimum): 10 > 9 -/
example : bookAll none [⟨1, 100, 3, 3, 1⟩, ⟨1, 100, 3, 3, 1⟩] = some 8 ∧ ¬ (([5, 5] : List Nat).sum ≤ 9) := by decide

/-! ## C16-r6: get_route steps (5)–(8) on the translated statements (Generated/RouterSelect.lean), sort_first_hop_channels -/

/-- get_route steps (5)–(7), for EVERY list of collected path values and every positive payment amount they cover: step (5) does not
    fail; the retain loop of step (6) (translated closure) keeps at least one path, drops only whole paths covered by the
    overpayment, and every path it keeps is worth MORE than what is still overpaid (the source's comment "We already dropped all
    the paths with value below `overpaid_value_msat` above, thus this can't go negative"); so whichever kept path step (7)'s sort
    puts first (any permutation of the kept paths), the translated subtraction does not underflow, the values handed on sum to
    EXACTLY final_value_msat, and no path of value 0 remains -/
theorem overpay_removal_exact (final : Nat) (vals : List Nat) (hf : 0 < final) (hs : final ≤ vals.sum) :
    ∃ kept over, selectPaths final vals = .ok (kept, over) ∧ kept ≠ [] ∧ over ≤ vals.sum - final ∧
      (∀ v ∈ kept, over < v) ∧ kept.sum = final + over ∧
      ∀ kept', kept'.Perm kept → ∃ out, reduceFirst kept' over = some out ∧ out.sum = final ∧ out.length = kept.length ∧ ∀ v ∈ out, 0 < v := by
  have hne : vals.length ≠ 0 := by
    intro h; have : vals = [] := List.length_eq_zero_iff.mp h; subst this; simp at hs; omega
  have hsel : selectPaths final vals = .ok (retainOverpaid vals.length (vals.sum - final) vals) := by
    unfold selectPaths no_path_found insufficient_value_collected initial_overpaid_value_msat
    rw [if_neg (by simpa using hne), if_neg (by simp; omega)]
  obtain ⟨a, b, c, d⟩ := retain_invariant vals vals.length (vals.sum - final) 0 (by simp) (by intro _; omega)
  refine ⟨_, _, hsel, d rfl, a, c, by omega, ?_⟩
  intro kept' hp
  have hsum : kept'.sum = (retainOverpaid vals.length (vals.sum - final) vals).1.sum := hp.sum_nat
  unfold reduceFirst has_remaining_overpayment
  by_cases h0 : (retainOverpaid vals.length (vals.sum - final) vals).2 = 0
  · rw [if_neg (by simp [h0])]
    refine ⟨kept', rfl, by omega, hp.length_eq, ?_⟩
    intro v hv; have := c v (hp.mem_iff.mp hv); omega
  · rw [if_pos (by simp [h0])]
    cases kept' with
    | nil => exact absurd (hp.symm.eq_nil) (d rfl)
    | cons v vs =>
      have hv := c v (hp.mem_iff.mp (by simp))
      simp only [List.sum_cons] at hsum
      have hlt : ¬ v < (retainOverpaid vals.length (vals.sum - final) vals).2 := by omega
      simp only [hlt, if_false]
      refine ⟨_, rfl, ?_, by simpa using hp.length_eq, ?_⟩
      · simp only [List.sum_cons, expensive_path_new_value_msat]; omega
      · intro x hx
        rcases List.mem_cons.mp hx with hx | hx
        · subst hx; simp only [expensive_path_new_value_msat]; omega
        · have := c x (hp.mem_iff.mp (List.mem_cons_of_mem _ hx)); omega
/-- collected 5 + 3 + 4 for a payment of 6: the 5 is dropped (covered by the overpayment 6), 1 is still overpaid, and is taken off
    the first remaining path -/
example : selectPaths 6 [5, 3, 4] = .ok ([3, 4], 1) ∧ reduceFirst [4, 3] 1 = some [3, 3] := ⟨rfl, rfl⟩

/-- steps (5)–(6) never drop a path that the overpayment does not cover, and fail exactly when nothing / too little was collected -/
theorem select_fails_iff (final : Nat) (vals : List Nat) :
    (∃ e, selectPaths final vals = .error e) ↔ vals = [] ∨ vals.sum < final := by
  unfold selectPaths no_path_found insufficient_value_collected
  by_cases h1 : vals.length = 0
  · have : vals = [] := List.length_eq_zero_iff.mp h1
    subst this; simp
  · have hne : vals ≠ [] := fun h => h1 (by simp [h])
    by_cases h2 : vals.sum < final
    · simp [h1, h2]
    · simp [h1, h2, hne]
example : selectPaths 6 [2, 3] = .error "insufficient" ∧ selectPaths 6 [] = .error "no-path" := ⟨rfl, rfl⟩

/-- get_route step (8), for every list of (path key, value): merging identical neighbours (translated `new_value`) keeps the total
    value and never adds a path — so the amount clause established by steps (6)–(7) and the max_path_count bound survive the merge.
    (What the merge does NOT keep is the per-hop limit: the fee is recomputed on the sum, kf10_merged_fee_exceeds_parts_by_at_most_one.) -/
theorem merge_preserves_total {κ : Type} [DecidableEq κ] (l : List (κ × Nat)) :
    ((mergeAdjacent l).map Prod.snd).sum = (l.map Prod.snd).sum ∧ (mergeAdjacent l).length ≤ l.length :=
  ⟨merge_sum l, merge_length l⟩
/-- three identical paths: the loop merges the first two and moves on — two identical paths remain (as in the source) -/
example : mergeAdjacent [(7, 1), (7, 2), (7, 4), (9, 5)] = [(7, 3), (7, 4), (9, 5)] := by decide

/-- sort_first_hop_channels: the TRANSLATED comparator is a consistent total preorder (what `sort_unstable_by` requires — an
    inconsistent comparator may panic or leave the slice in unspecified order), and it says: channels whose remaining limit covers
    recommended_value_msat come first, smallest first; then the others, largest first -/
theorem first_hop_order_is_total_preorder (r : Nat) :
    (∀ a b, firstHopLe r a b || firstHopLe r b a) ∧ (∀ a b c, firstHopLe r a b → firstHopLe r b c → firstHopLe r a c) ∧
    (∀ a b, first_hop_channel_order b a r = (first_hop_channel_order a b r).swap) ∧
    (∀ a b, firstHopLe r a b = true ↔ (r ≤ a ∧ r ≤ b ∧ a ≤ b) ∨ (r ≤ a ∧ b < r) ∨ (a < r ∧ b < r ∧ b ≤ a)) := by
  refine ⟨?_, ?_, ?_, firstHopLe_iff r⟩
  · intro a b
    rw [Bool.or_eq_true, firstHopLe_iff, firstHopLe_iff]; omega
  · intro a b c h1 h2
    rw [firstHopLe_iff] at h1 h2 ⊢; omega
  · intro a b
    unfold first_hop_channel_order
    by_cases h : (decide (b < r) || decide (a < r)) = true
    · have h' : (decide (a < r) || decide (b < r)) = true := by rw [Bool.or_comm]; exact h
      rw [if_pos h, if_pos h', Nat.compare_swap]
    · have h' : ¬ (decide (a < r) || decide (b < r)) = true := by rw [Bool.or_comm]; exact h
      rw [if_neg h, if_neg h', Nat.compare_swap]
example : firstHopLe 10 12 15 = true ∧ firstHopLe 10 15 3 = true ∧ firstHopLe 10 7 3 = true ∧ firstHopLe 10 3 7 = false := by decide

/-- sort_first_hop_channels, for every set of channels to a peer and every used_liquidities: the model's result (the remaining
    limits, translated, in the translated comparator's order) is a permutation of the remaining limits, ordered; and if ANY channel
    still covers recommended_value_msat the FIRST one does, with the smallest such limit -/
theorem sorted_first_hops_prefer_smallest_sufficient (r : Nat) (used chans : List (Nat × Bool × Nat)) :
    (sortFirstHops r used chans).Perm (chans.map fun c => first_hop_outbound_limit_msat c.2.2 (usedOf used c.1 c.2.1)) ∧
    (sortFirstHops r used chans).Pairwise (fun a b => firstHopLe r a b) ∧
    ∀ x ∈ sortFirstHops r used chans, r ≤ x → ∃ h t, sortFirstHops r used chans = h :: t ∧ r ≤ h ∧ h ≤ x := by
  have hpw : (sortFirstHops r used chans).Pairwise (fun a b => firstHopLe r a b) :=
    List.pairwise_mergeSort (le := firstHopLe r) (fun a b c => (first_hop_order_is_total_preorder r).2.1 a b c)
      (fun a b => (first_hop_order_is_total_preorder r).1 a b) _
  refine ⟨List.mergeSort_perm _ _, hpw, ?_⟩
  intro x hx hr
  cases hl : sortFirstHops r used chans with
  | nil => rw [hl] at hx; simp at hx
  | cons h t =>
    refine ⟨h, t, rfl, ?_⟩
    rw [hl] at hx hpw
    rcases List.mem_cons.mp hx with hx | hx
    · subst hx; exact ⟨hr, Nat.le_refl _⟩
    · have := (List.pairwise_cons.mp hpw).1 x hx
      rw [firstHopLe_iff] at this; omega
/-- channels with remaining limits 30, 16 - 4 = 12, 3, 9 for a recommended value of 10: the first channel offered covers it with at most 12 -/
example : ∃ h t, sortFirstHops 10 [(5, true, 4)] [(1, true, 30), (5, true, 16), (5, false, 3), (9, true, 9)] = h :: t ∧ 10 ≤ h ∧ h ≤ 12 :=
  (sorted_first_hops_prefer_smallest_sufficient 10 _ _).2.2 12
    (by simp [sortFirstHops, first_hop_outbound_limit_msat, usedOf]) (by decide)

end Ldk.C16
