/- C19 — Stored channel state is never lost or torn by the storage layer.
   Property theorems only (helper lemmas: Proofs/MonPersister.lean; models: Model/KvStore.lean,
   Model/MonPersister.lean; the decision expressions of the persister are GENERATED from persist.rs
   into Generated/PersistConsts.lean on every run).

   Quantification: every theorem about the persister is over EVERY `maximum_pending_updates`
   (`cfg.maxPending`), EVERY history of `ChainMonitor` calls `evs` (updates with arbitrary ids — the
   run itself stops, like the real node, at an out-of-order id —, updates persisted as full monitors,
   chain-sync persists, `cleanup_stale_updates` calls), and EVERY fault schedule `sc : Sched`
   (`ok i`/`eff i` arbitrary functions of the op sequence number): this contains every crash prefix
   (`crashSched c ..`: nothing at or after op `c` has an effect), every subset of lazy deletes having
   happened, any number of failing ops, failing ops that did or did not reach the disk. -/
import LdkModel.Proofs.MonPersister
import LdkModel.Proofs.FsStore
import LdkModel.Proofs.FsFault
import LdkModel.Proofs.FsFaultEv
import LdkModel.Proofs.FsFaultK
import LdkModel.Proofs.MonPersisterMulti
namespace Ldk.C19
open Ldk Ldk.Kv Ldk.MonP Ldk.Persist Ldk.Fs

/-! ## 1. the sequential store semantics is a finite map -/

/-- `store_is_map`: after ANY history `hist` of write/read/remove/list operations (valid or invalid
    keys) on the empty store,
    (1) every key holds exactly the value of the last completed write that no completed remove
        followed (`lastWrite` is a specification over the history, it does not mention the store):
        read-after-write, last write wins, remove, and no interference between different keys;
    (2) `list` returns exactly the keys whose last completed operation is a write, each once;
    (3) the answer to a `read` is that value / NotFound / the validity error;
    (4) an operation on key `k'` leaves every other key `k` untouched; reads and lists and rejected
        operations change nothing. -/
theorem store_is_map {ν : Type} (hist : List (KvOp ν)) :
    (∀ k, (run [] hist).get k = lastWrite hist k) ∧
    (∀ p sn n, n ∈ (run [] hist).names p sn ↔ (lastWrite hist (p, sn, n)).isSome = true) ∧
    (∀ p sn, ((run [] hist).names p sn).Nodup) ∧
    (∀ k, (KvOp.apply (run [] hist) (.read k)).2 =
        match checkKey k with
        | .error e => .err e
        | .ok _ => match lastWrite hist k with
                   | some v => .value v
                   | none => .err .notFound) ∧
    (∀ op k, (match op with
              | .write k' _ => k' ≠ k ∨ validKey k' = false
              | .remove k' _ => k' ≠ k ∨ validKey k' = false
              | _ => True) →
        (run [] (hist ++ [op])).get k = (run [] hist).get k) := by
  refine ⟨get_run hist, ?_, ?_, ?_, ?_⟩
  · intro p sn n; rw [Store.mem_names_iff, get_run]
  · intro p sn; exact Store.nodup_names (run_wf hist [] List.nodup_nil) p sn
  · intro k
    simp only [KvOp.apply]
    cases checkKey k with
    | error e => rfl
    | ok u => simp only [get_run]; cases lastWrite hist k <;> rfl
  · intro op k h
    rw [run_append]
    show ((KvOp.apply (run [] hist) op).1).get k = _
    rw [get_apply]
    cases op with
    | write k' v =>
      simp only at h ⊢
      rcases h with h | h
      · simp [h]
      · simp [h]
    | remove k' lz =>
      simp only at h ⊢
      rcases h with h | h
      · simp [h]
      · simp [h]
    | read k' => rfl
    | list p sn => rfl

/-- non-vacuity: an overwrite, a rejected write (empty key), a remove and an unrelated key -/
example : let hist : List (KvOp Nat) := [.write ("n", "", "k") 1, .write ("n", "", "k") 2, .write ("n", "", "") 9,
                                         .write ("n", "s", "k") 3, .remove ("n", "s", "k") true]
    (run [] hist).get ("n", "", "k") = some 2 ∧ (run [] hist).get ("n", "s", "k") = none ∧
    lastWrite hist ("n", "", "k") = some 2 ∧ (run [] hist).names "n" "" = ["k"] := by decide

/-! ## 2. crash recovery of the monitor-updating persister -/

/-- `persister_recovers`. Start from a store `s0` (any contents in other namespaces; in this
    monitor's update namespace only stale numeric keys `≤ m0.id` — e.g. empty, or what an earlier life
    of the same monitor left behind), persist the new monitor `m0`, then run ANY history `evs` under
    ANY fault/crash schedule `sc`. If `persist_new_channel` was reported Completed, then reading the
    monitor back from the resulting store with a healthy store (`rsc` never fails) returns EXACTLY the
    in-memory monitor as it was after the first `n` applied updates (`snapAt`, a left fold of `apply`
    over the first `n` updates in order: none skipped, none applied twice, none out of order), for
    some `n` at least the number of updates reported Completed. Moreover the recovered store again
    satisfies the start condition (so the statement composes over restarts).

    Hypotheses: `hname`/`hid` are typing facts (the key is a valid MonitorName; update ids are u64);
    `hwf` is the representation invariant of the association list; `hfresh` is the initial condition. -/
theorem persister_recovers {St Upd : Type} (cfg : Cfg St Upd) (sc : Sched) (name : String)
    (s0 : Store (PVal St Upd)) (m0 : Mon St) (evs : List (Ev Upd))
    (hname : cfg.nameOk name = true) (hid : m0.id ≤ LEGACY_CLOSED_CHANNEL_UPDATE_ID) (hwf : s0.WF)
    (hfresh : ∀ nm, (s0.get (CHANNEL_MONITOR_UPDATE_PERSISTENCE_PRIMARY_NAMESPACE, name, nm)).isSome = true →
        ∃ id, nm = Nat.repr id ∧ id ≤ m0.id)
    (rsc : Sched) (hr : ∀ i, rsc.ok i = true) (w' : World St Upd)
    (hw' : w'.store = (runHistory cfg sc name s0 m0 evs).w.store)
    (hstarted : (runHistory cfg sc name s0 m0 evs).started = true) :
    ∃ n, (runHistory cfg sc name s0 m0 evs).completed ≤ n ∧ n ≤ (runHistory cfg sc name s0 m0 evs).applied.length ∧
      (readWithUpdates cfg rsc w' name).2 = .ok (snapAt cfg m0 (runHistory cfg sc name s0 m0 evs).applied n) ∧
      (∀ nm, (w'.store.get (CHANNEL_MONITOR_UPDATE_PERSISTENCE_PRIMARY_NAMESPACE, name, nm)).isSome = true →
        ∃ id, nm = Nat.repr id ∧ id ≤ (snapAt cfg m0 (runHistory cfg sc name s0 m0 evs).applied n).id) := by
  obtain ⟨pre, mid, post, happ, hst, hcomp, _⟩ := inv_runHistory cfg sc name s0 m0 evs hwf hid hfresh hstarted
  obtain ⟨sent, h1, h2, h3, h4, h5, _⟩ := hst
  rw [← hw'] at h1 h2 h3 h4
  have hsnap : snapAt cfg m0 (runHistory cfg sc name s0 m0 evs).applied (pre ++ mid).length = fold cfg (fold cfg m0 pre) mid := by
    rw [snapAt_eq, happ, List.take_left', fold_append]; rfl
  refine ⟨(pre ++ mid).length, hcomp, by rw [happ]; simp only [List.length_append]; omega, ?_, ?_⟩
  · rw [hsnap]
    exact recover_of_store cfg rsc hr w' name hname (fold cfg m0 pre) mid sent h1 h2 h3 h4 h5
  · intro nm hs
    obtain ⟨id, h6, h7⟩ := h3 nm hs
    refine ⟨id, h6, ?_⟩
    rw [hsnap, files_fold_id cfg h2]; exact h7

section NonVacuity
/-- a concrete model instance: state = the list of update payloads applied -/
def exCfg (n : Nat) : Cfg (List Nat) Nat := { maxPending := n, apply := fun st u => st ++ [u], nameOk := fun _ => true }
def exEvs : List (Ev Nat) := [.update 1 10 false, .update 2 20 false, .full, .update 3 30 false, .update 4 40 true,
  .cleanupStale true, .update 5 50 false, .update 6 60 false]

/-- crash after 7 store ops with `maximum_pending_updates = 3`, no lazy delete ever landing: the
    persister had reported 3 of the 4 applied updates; the store holds the monitor written at update
    3 and the stale files 1, 2 -/
example : let r := runHistory (exCfg 3) (crashSched 7 none false (fun _ => false)) "m" [] ⟨0, []⟩ exEvs
    r.started = true ∧ r.completed = 3 ∧ r.applied.length = 4 ∧ r.alive = false ∧
    r.w.store.keys = [("monitors", "", "m"), ("monitor_updates", "m", "2"), ("monitor_updates", "m", "1")] := by decide

/-- ... and every hypothesis of `persister_recovers` holds on that run (the theorem then yields a
    recovered monitor equal to the in-memory one after 3 or 4 updates) -/
example := persister_recovers (exCfg 3) (crashSched 7 none false (fun _ => false)) "m" [] ⟨0, []⟩ exEvs rfl
  (by decide) List.nodup_nil (by intro nm h; simp [Store.get] at h) okSched (fun _ => rfl) { store := _ } rfl (by decide)

/-- no crash, but the write of update 2 (store op 2) fails after reaching the disk: 1 reported, the
    node stops, the file of update 2 is there (recovery returns the monitor after 2 updates) -/
example : let r := runHistory (exCfg 10) (crashSched 100 (some 2) true (fun _ => true)) "m" [] ⟨0, []⟩ (exEvs.take 2)
    r.completed = 1 ∧ r.applied.length = 2 ∧ r.alive = false ∧
    r.w.store.names CHANNEL_MONITOR_UPDATE_PERSISTENCE_PRIMARY_NAMESPACE "m" = ["2", "1"] := by decide
end NonVacuity

/-! ## 3. clean-up never removes an update recovery still needs -/

/-- `cleanup_never_needed`: in the store-op sequence emitted by ANY history under ANY schedule
    (optionally followed by `archive_persisted_channel`), the store at every point is the replay of the
    effective ops emitted so far, and whenever a removal of an update key `monitor_updates/<nm>/<id>`
    is issued — by `cleanup_in_range`, by the legacy branch, by `cleanup_stale_updates`, lazily or not,
    for ANY monitor name `nm` in the store —, the full monitor stored for `nm` at that very point (the
    replay of the trace prefix, i.e. also at every crash point) has `update_id ≥ id`; recovery only
    loads ids strictly above the stored monitor's. -/
theorem cleanup_never_needed {St Upd : Type} (cfg : Cfg St Upd) (sc : Sched) (name : String)
    (s0 : Store (PVal St Upd)) (m0 : Mon St) (evs : List (Ev Upd)) (thenArchive : Bool) :
    let r := runHistory cfg sc name s0 m0 evs
    let w := if thenArchive then archive cfg sc r.w name else r.w
    w.store = replay s0 w.trace ∧
    ∀ pre e post, w.trace = pre ++ e :: post → ∀ nm id lz, e.op = .remove (updKey nm id) lz →
      ∃ sent k m, (replay s0 pre).get (monKey nm) = some (.mon sent k m) ∧ id ≤ m.id := by
  intro r w
  have hext : Ext { store := s0 } w := by
    have h1 := ext_runHistory cfg sc name s0 m0 evs
    show Ext _ (if thenArchive then archive cfg sc r.w name else r.w)
    cases thenArchive
    · exact h1
    · exact h1.trans (ext_archive cfg sc r.w name)
  obtain ⟨tr, ⟨ht, hs⟩, hsafe⟩ := hext
  simp only [List.nil_append] at ht
  refine ⟨by rw [hs, ht], ?_⟩
  intro pre e post hsplit nm id lz hop
  rw [ht] at hsplit
  rw [hsplit, traceSafe_append] at hsafe
  exact hsafe.2.1 nm id lz hop

/-- non-vacuity: the example run issues 8 removals of update keys (consolidations at 3 and 6, one
    `cleanup_stale_updates`), and `cleanup_never_needed` applies to it -/
example : let r := runHistory (exCfg 3) okSched "m" [] ⟨0, []⟩ exEvs
    (r.w.trace.filter (fun e => match e.op with | .remove _ _ => true | _ => false)).length = 8 := by decide
example := cleanup_never_needed (exCfg 3) okSched "m" [] ⟨0, []⟩ exEvs true

/-! ## 4. the window of pending updates -/

/-- `window_bound`: at every point of every history under every schedule (so: after each completed
    full-monitor write, and also at every crash point in between), once the monitor was persisted,
    the update files recovery will load — the keys with id above the stored full monitor's id — are
    at most `maximum_pending_updates - 1` (none when it is 0 or 1), whatever subset of lazy deletes
    has landed. (Keys at or below the stored id may linger: exactly those whose lazy delete has not
    landed yet, or that a chain-sync persist superseded before the next consolidation; they are
    never loaded — see `persister_recovers` — and `cleanup_stale_updates` removes them.) -/
theorem window_bound {St Upd : Type} (cfg : Cfg St Upd) (sc : Sched) (name : String)
    (s0 : Store (PVal St Upd)) (m0 : Mon St) (evs : List (Ev Upd))
    (hid : m0.id ≤ LEGACY_CLOSED_CHANNEL_UPDATE_ID) (hwf : s0.WF)
    (hfresh : ∀ nm, (s0.get (CHANNEL_MONITOR_UPDATE_PERSISTENCE_PRIMARY_NAMESPACE, name, nm)).isSome = true →
        ∃ id, nm = Nat.repr id ∧ id ≤ m0.id)
    (hstarted : (runHistory cfg sc name s0 m0 evs).started = true) :
    ∃ sent M ids, (runHistory cfg sc name s0 m0 evs).w.store.get (monKey name) = some (.mon sent name M) ∧
      idsToLoad ((runHistory cfg sc name s0 m0 evs).w.store.names CHANNEL_MONITOR_UPDATE_PERSISTENCE_PRIMARY_NAMESPACE name) M.id = some ids ∧
      ids.length ≤ cfg.maxPending - 1 := by
  obtain ⟨pre, mid, post, _, hst, _, _⟩ := inv_runHistory cfg sc name s0 m0 evs hwf hid hfresh hstarted
  obtain ⟨sent, h1, h2, h3, h4, _, h6⟩ := hst
  refine ⟨sent, fold cfg m0 pre, _, h1, idsToLoad_of_store _ name _ mid h2 h3 h4, ?_⟩
  rw [List.length_range']
  exact window_le h2 h6

/-- non-vacuity: with `maximum_pending_updates = 3`, after 8 updates (the 6th persisted as a full
    monitor) the store holds the files 7, 8 above the monitor at 6 — exactly 3 - 1 — and a stale 5 -/
example : let r := runHistory (exCfg 3) okSched "m" [] ⟨0, []⟩ (exEvs.take 7 ++ [.update 6 60 true, .update 7 70 false, .update 8 80 false])
    r.completed = 8 ∧ r.w.store.names CHANNEL_MONITOR_UPDATE_PERSISTENCE_PRIMARY_NAMESPACE "m" = ["8", "7", "5"] := by decide
example := window_bound (exCfg 3) okSched "m" [] ⟨0, []⟩ (exEvs.take 7 ++ [.update 6 60 true, .update 7 70 false, .update 8 80 false])
  (by decide) List.nodup_nil (by intro nm h; simp [Store.get] at h) (by decide)

/-! ## 5. the file-level store (lightning-persister fs_store, v1 and v2 layouts) refines the map

   Model/FsStore.lean: a directory is a finite map `location ↦ torn | data v`; every API call is a list of
   file operations (create tmp, write_all, fsync, ATOMIC rename, unlink, directory fsync) plus the
   version/lock bookkeeping. `ue` is the `use_empty_ns_dir` flag: `layoutOf false` = FilesystemStore,
   `layoutOf true` = FilesystemStoreV2; every theorem below is for BOTH (all `ue`). -/

/-- `fs_refines_map` (REFINEMENT). Let the directory `fs0` — holding any number of leftover `*.tmp` /
    `*.trash` artifacts — represent the abstract store `s0` (`Rel`: each valid key's destination file
    holds exactly its value, completely written; every other file is an artifact). Then after ANY
    sequence of sync API calls (valid or invalid keys) on a store (re)started over `fs0`, the directory
    represents `run s0 ops` — the very `run`/`KvOp.apply` of `store_is_map` and of the persister
    theorems —, and every answer (values, NotFound, validity errors, listings as duplicate-free sets)
    is the abstract store's answer. In particular `list` never returns an artifact or a torn entry, and
    a leftover artifact never shadows or resurrects a key. -/
theorem fs_refines_map {ν : Type} (ue : Bool) (fs0 : FS ν) (s0 : Store ν) (h0 : Rel ue fs0 s0) (ops : List (KvOp ν)) :
    Rel ue (runSeq ue (fresh fs0) ops).fs (run s0 ops) ∧
    ansAllEq (answersSeq ue (fresh fs0) ops) (answers s0 ops) :=
  rel_runSeq ue ops (quiescent_fresh fs0) h0

/-- ... so `store_is_map` holds for the real layouts: on an empty data directory, in the v1 and in the
    v2 layout, every valid key's file holds exactly the value of the last completed write that no
    completed remove followed (`lastWrite` is the history-only specification of `store_is_map`). -/
theorem fs_store_is_map {ν : Type} (v2 : Bool) (ops : List (KvOp ν)) (k : Key) (hk : validKey k = true) :
    readKey (layoutOf v2) (runSeq (layoutOf v2) (fresh []) ops).fs k = (lastWrite ops k).map Content.data := by
  have h0 : Rel (layoutOf v2) ([] : FS ν) ([] : Store ν) :=
    ⟨List.nodup_nil, fun _ _ => rfl, fun _ _ => rfl, fun p c h _ => by simp [Store.get] at h⟩
  have := (fs_refines_map (layoutOf v2) [] [] h0 ops).1.get k hk
  rw [get_run] at this
  exact this

/-- non-vacuity: v2 layout, a leftover artifact `k.7.tmp` next to key `k`, then overwrite / rejected
    write / remove: the files, the listing (artifact skipped) and the tmp counter -/
example : let fs0 : FS Nat := [(("n", "[empty]", "k.7.tmp"), .torn), (("n", "[empty]", "k"), .data 1)]
    let st := runSeq true (fresh fs0) [.write ("n", "", "k") 2, .write ("n", "", "") 9, .write ("n", "s", "k") 3, .remove ("n", "s", "k") false]
    readKey true st.fs ("n", "", "k") = some (.data 2) ∧ readKey true st.fs ("n", "s", "k") = none ∧
    listDir true st.fs "n" "" = ["k"] ∧ st.fs.keys = [("n", "[empty]", "k"), ("n", "[empty]", "k.7.tmp")] ∧
    st.tmpCounter = 2 ∧ st.locks = [] ∧ st.nextVersion = 4 := by decide

/-- v1 layout: the empty secondary namespace is no directory level -/
example : (runSeq false (fresh ([] : FS Nat)) [.write ("n", "", "k") 2, .write ("", "", "k") 3]).fs.keys =
    [("", "", "k"), ("n", "", "k")] := by decide

/-! ## 6. no torn value, at any crash point -/

/-- `crash_never_tears` (NO TORN VALUE). Let `fs0` represent `s0`, run ANY sequence `ops` of API calls
    to completion, then start ANY call `op` and crash after ANY number `j` of its file operations
    (`crashFs`: between create-tmp / write_all / fsync / rename / unlink / directory fsync). Then the
    directory left behind represents EXACTLY the abstract store before `op` or EXACTLY the abstract
    store after `op` — as a whole, for all keys at once. Hence: a read of any key returns its value
    before or its value after the interrupted call and never a half-written file; `list` returns only
    genuine keys (no tmp/trash artifact, each listed key is readable); and (by `fs_refines_map`, whose
    hypothesis this conclusion is) a store restarted on that directory behaves for EVERY continuation
    `ops2` like the map holding the before- or the after-state: a leftover artifact never shadows or
    resurrects a key. `rename` being atomic is the model's assumption (`FOp.rename`). -/
theorem crash_never_tears {ν : Type} (ue : Bool) (fs0 : FS ν) (s0 : Store ν) (h0 : Rel ue fs0 s0)
    (ops : List (KvOp ν)) (op : KvOp ν) (j : Nat) :
    let st := runSeq ue (fresh fs0) ops
    let fsC := crashFs ue st op j
    (∃ s, (s = run s0 ops ∨ s = run s0 (ops ++ [op])) ∧ Rel ue fsC s ∧
       ∀ ops2, Rel ue (runSeq ue (fresh fsC) ops2).fs (run s ops2) ∧
               ansAllEq (answersSeq ue (fresh fsC) ops2) (answers s ops2)) ∧
    (∀ k, validKey k = true →
       readKey ue fsC k ≠ some .torn ∧
       (readKey ue fsC k = readKey ue st.fs k ∨ readKey ue fsC k = readKey ue (step ue st op).1.fs k)) ∧
    (∀ p sn n, validStr p = true → validStr sn = true → n ∈ listDir ue fsC p sn →
       isArtifact n = false ∧ ∃ v, readKey ue fsC (p, sn, n) = some (.data v)) := by
  intro st fsC
  have hq : Quiescent st := quiescent_runSeq ue ops (quiescent_fresh fs0)
  have hrel : Rel ue st.fs (run s0 ops) := (fs_refines_map ue fs0 s0 h0 ops).1
  have hrel' : Rel ue (step ue st op).1.fs (run s0 (ops ++ [op])) := by
    rw [run_append]; exact rel_step ue hq hrel op
  have hwf : fsC.WF := wf_crashFs ue hrel.wf op j
  have hcases := crash_prefix ue hq op j
  have hex : ∃ s, (s = run s0 ops ∨ s = run s0 (ops ++ [op])) ∧ Rel ue fsC s := by
    rcases hcases with h | h
    · exact ⟨_, Or.inl rfl, rel_congr hrel hwf h⟩
    · exact ⟨_, Or.inr rfl, rel_congr hrel' hwf h⟩
  obtain ⟨s, hs, hR⟩ := hex
  refine ⟨⟨s, hs, hR, fun ops2 => fs_refines_map ue fsC s hR ops2⟩, ?_, ?_⟩
  · intro k hk
    refine ⟨?_, ?_⟩
    · unfold readKey; rw [hR.get k hk]; cases s.get k <;> simp
    · rcases hcases with h | h
      · left; exact h _ (dest_not_artifact hk)
      · right; exact h _ (dest_not_artifact hk)
  · intro p sn n hp hsn hn
    obtain ⟨_, _, h3⟩ := listDir_rel hR hp hsn
    have hmem := (h3 n).mp hn
    rw [Store.mem_names_iff] at hmem
    have hk : validKey (p, sn, n) = true := by
      cases hv : validKey (p, sn, n) with
      | true => rfl
      | false => rw [hR.inval _ hv] at hmem; exact Bool.noConfusion hmem
    refine ⟨isArtifact_valid (validKey_strs hk).2.2, ?_⟩
    unfold readKey; rw [hR.get _ hk]
    cases hg : s.get (p, sn, n) with
    | none => rw [hg] at hmem; exact Bool.noConfusion hmem
    | some v => exact ⟨v, rfl⟩

/-- non-vacuity: overwrite of `k` (old value 1) interrupted after 2 file operations: the tmp file is
    there, fully written, the key still reads 1; after 4 (the rename) it reads 2 and no tmp is left;
    after 1 the tmp file is torn — and is not listed -/
example : let st := runSeq true (fresh ([] : FS Nat)) [.write ("n", "", "k") 1]
    (crashFs true st (.write ("n", "", "k") 2) 2) = [(("n", "[empty]", "k.1.tmp"), .data 2), (("n", "[empty]", "k"), .data 1)] ∧
    (crashFs true st (.write ("n", "", "k") 2) 4) = [(("n", "[empty]", "k"), .data 2)] ∧
    (crashFs true st (.write ("n", "", "k") 2) 1).get ("n", "[empty]", "k.1.tmp") = some .torn ∧
    listDir true (crashFs true st (.write ("n", "", "k") 2) 1) "n" "" = ["k"] := by decide

/-! ## 7. order under concurrency -/

/-- `async_last_issued_wins` (ORDER UNDER CONCURRENCY). Issue ANY list `ops` of async API calls (write /
    remove / read / list, any keys, valid or not) on a store started over any directory: each valid
    write/remove takes its version and its lock reference at ISSUE time (`issueAll`, mirrors
    `get_new_version_and_lock_ref` being called before the `async move` block). Let their bodies then
    run to completion in ANY order `π` (any permutation of the issued operations — async tasks
    complete in any order). Then for EVERY valid key the destination file finally holds the result of
    the LAST ISSUED operation on that key (its value for a write, nothing for a remove; the initial
    contents if no operation was issued on it) — whatever `π` was. All keys at once: operations on
    different keys commute. The bodies are atomic in this model (the real ones hold the per-path lock
    for the version check + rename/unlink, and touch only their own tmp file before that). -/
theorem async_last_issued_wins {ν : Type} (ue : Bool) (fs0 : FS ν) (ops : List (KvOp ν))
    (π : List (Pending ν)) (hπ : π.Perm (issueAll ue (fresh fs0) ops).2) (k : Key) (hk : validKey k = true) :
    readKey ue (execAll (issueAll ue (fresh fs0) ops).1 π).fs k =
      (match (onDest (destPath ue k) (issueAll ue (fresh fs0) ops).2).getLast? with
       | none => readKey ue fs0 k
       | some x => x.result) ∧
    (lockOf (execAll (issueAll ue (fresh fs0) ops).1 π) (destPath ue k)).refs = 0 := by
  obtain ⟨h1, _, h3, _, _⟩ := issueAll_spec ue ops (fresh fs0)
  have hl0 : ∀ d, lockOf (fresh fs0) d = ⟨0, 0⟩ := fun d => by simp [lockOf, fresh, Store.get]
  have hlocks : LocksOk (issueAll ue (fresh fs0) ops).1 π := by
    intro d
    have hperm : (onDest d π).Perm (onDest d (issueAll ue (fresh fs0) ops).2) := hπ.filter _
    rw [h3 d, hl0 d, hperm.length_eq]; simp
  obtain ⟨hget, hrefs⟩ := execAll_reg π _ hlocks (destPath ue k) (dest_not_artifact hk)
  refine ⟨?_, hrefs⟩
  unfold readKey
  rw [hget, h3, hl0, h1]
  exact reg_perm_last ue fs0 ops π hπ (destPath ue k) _

/-- non-vacuity: three operations on `k` (write 1, remove, write 3) and one on `k2`, bodies completing
    in the order 3rd, 4th, 1st, 2nd: `k` ends with 3 (the two older bodies are skipped as stale and
    the tmp file of the stale write is removed), `k2` with 7, the lock table is empty again -/
example : let t := issueAll true (fresh ([] : FS Nat)) [.write ("n", "", "k") 1, .remove ("n", "", "k") true, .write ("n", "", "k") 3, .write ("n", "", "k2") 7]
    let fin := execAll t.1 (t.2.drop 2 ++ t.2.take 2)
    t.2.map (·.version) = [1, 2, 3, 4] ∧ (t.1.locks.get ("n", "[empty]", "k")) = some ⟨0, 3⟩ ∧
    fin.fs = [(("n", "[empty]", "k2"), .data 7), (("n", "[empty]", "k"), .data 3)] ∧ fin.locks = [] ∧ fin.tmpCounter = 3 := by decide

/-- `async_any_interleaving` (ORDER UNDER CONCURRENCY, finer grain; NO TORN READ under concurrency).
    The body of a write is really two steps: `prep` — create, fill and sync the operation's own tmp
    file, OUTSIDE the per-path lock — and `commit` — the critical section of `execute_locked_write`
    (version check, rename over the destination / unlink, version bookkeeping, `clean_locks`) plus the
    removal of the tmp file of a stale write. Take ANY schedule `steps` of prep/commit steps of the
    issued operations — preps of different operations arbitrarily early, late, interleaved with other
    operations' commits, or missing (then commit runs the whole body) — in which every issued operation
    is committed exactly once, in ANY order (`commitsOf steps` is a permutation of the issued list).
    Then (1) for EVERY valid key the destination finally holds the result of the LAST ISSUED operation
    on it and all lock references are released; and (2) at EVERY point of EVERY such schedule (any
    `steps'` over the issued operations, complete or not) no valid key's file is ever half-written: a
    concurrent reader sees, for each key, a completely written value or nothing (given that the
    directory started that way). The critical sections being atomic (the RwLock) and `rename` being
    atomic are the assumptions. -/
theorem async_any_interleaving {ν : Type} (ue : Bool) (fs0 : FS ν) (ops : List (KvOp ν)) (steps : List (Step2 ν))
    (hp : ∀ x ∈ pendsOf steps, x ∈ (issueAll ue (fresh fs0) ops).2)
    (hc : (commitsOf steps).Perm (issueAll ue (fresh fs0) ops).2) :
    (∀ k, validKey k = true →
      readKey ue (run2 ⟨(issueAll ue (fresh fs0) ops).1, []⟩ steps).st.fs k =
        (match (onDest (destPath ue k) (issueAll ue (fresh fs0) ops).2).getLast? with
         | none => readKey ue fs0 k
         | some x => x.result) ∧
      (lockOf (run2 ⟨(issueAll ue (fresh fs0) ops).1, []⟩ steps).st (destPath ue k)).refs = 0) ∧
    ((∀ k, validKey k = true → readKey ue fs0 k ≠ some .torn) →
      ∀ steps' : List (Step2 ν), (∀ x ∈ pendsOf steps', x ∈ (issueAll ue (fresh fs0) ops).2) →
        ∀ k, validKey k = true → readKey ue (run2 ⟨(issueAll ue (fresh fs0) ops).1, []⟩ steps').st.fs k ≠ some .torn) := by
  obtain ⟨h1, _, h3, _, _⟩ := issueAll_spec ue ops (fresh fs0)
  have hg := goodPends_issueAll ue fs0 ops
  have hinv : Inv2 (issueAll ue (fresh fs0) ops).2 (⟨(issueAll ue (fresh fs0) ops).1, []⟩ : St2 ν) :=
    ⟨fun e he => by simp at he, List.Pairwise.nil⟩
  have hl0 : ∀ d, lockOf (fresh fs0) d = ⟨0, 0⟩ := fun d => by simp [lockOf, fresh, Store.get]
  refine ⟨?_, ?_⟩
  · intro k hk
    have hlocks : LocksOk (issueAll ue (fresh fs0) ops).1 (commitsOf steps) := by
      intro d
      have hperm : (onDest d (commitsOf steps)).Perm (onDest d (issueAll ue (fresh fs0) ops).2) := hc.filter _
      rw [h3 d, hl0 d, hperm.length_eq]; simp
    obtain ⟨hget, hrefs⟩ := run2_reg hg steps _ hinv hp hlocks (destPath ue k) (dest_not_artifact hk)
    refine ⟨?_, hrefs⟩
    unfold readKey
    rw [hget]
    simp only [h3, hl0, h1]
    exact reg_perm_last ue fs0 ops (commitsOf steps) hc (destPath ue k) _
  · intro h0 steps' hp' k hk
    exact run2_no_torn_key hg steps' _ hinv hp' (destPath ue k) (dest_not_artifact hk)
      (by rw [h1]; exact h0 k hk)

/-- non-vacuity: two writes to `k` (1 then 2) and a remove of `k2`; schedule: prep of the 2nd write, prep
    of the 1st, commit of the 2nd, commit of the remove, commit of the 1st (stale: its tmp file is
    unlinked): `k` holds 2, no tmp file is left, the tmp counter advanced twice -/
example : let t := issueAll true (fresh ([(("n", "[empty]", "k2"), .data 5)] : FS Nat)) [.write ("n", "", "k") 1, .write ("n", "", "k") 2, .remove ("n", "", "k2") false]
    let steps : List (Step2 Nat) := match t.2 with
      | [a, b, c] => [.prep b, .prep a, .commit b, .commit c, .commit a]
      | _ => []
    (run2 ⟨t.1, []⟩ steps).st.fs = [(("n", "[empty]", "k"), .data 2)] ∧ (run2 ⟨t.1, []⟩ steps).st.locks = [] ∧
    (run2 ⟨t.1, []⟩ steps).st.tmpCounter = 2 ∧ (run2 ⟨t.1, []⟩ steps).prepared.length = 0 ∧
    (run2 ⟨t.1, []⟩ (steps.take 2)).st.fs.keys = [("n", "[empty]", "k.1.tmp"), ("n", "[empty]", "k.0.tmp"), ("n", "[empty]", "k2")] := by decide

/-- `async_equals_sequential` (linearisation in ISSUE order). Whatever the completion order `π` of the
    bodies (and whatever the prep/commit schedule `steps` committing every issued operation once), every
    valid key ends up exactly as if the same calls had been made one after the other through the sync
    API in the order they were ISSUED — the run `runSeq` of `fs_refines_map`, i.e. (for a directory
    representing an abstract store) the abstract map `run s0 ops` of `store_is_map`. -/
theorem async_equals_sequential {ν : Type} (ue : Bool) (fs0 : FS ν) (ops : List (KvOp ν))
    (π : List (Pending ν)) (hπ : π.Perm (issueAll ue (fresh fs0) ops).2)
    (steps : List (Step2 ν)) (hp : ∀ x ∈ pendsOf steps, x ∈ (issueAll ue (fresh fs0) ops).2)
    (hc : (commitsOf steps).Perm (issueAll ue (fresh fs0) ops).2) (k : Key) (hk : validKey k = true) :
    readKey ue (execAll (issueAll ue (fresh fs0) ops).1 π).fs k = readKey ue (runSeq ue (fresh fs0) ops).fs k ∧
    readKey ue (run2 ⟨(issueAll ue (fresh fs0) ops).1, []⟩ steps).st.fs k = readKey ue (runSeq ue (fresh fs0) ops).fs k := by
  have hseq := runSeq_last ue (destPath ue k) (dest_not_artifact hk) ops (fresh fs0) (fresh fs0) (quiescent_fresh fs0)
  refine ⟨?_, ?_⟩
  · rw [(async_last_issued_wins ue fs0 ops π hπ k hk).1]; unfold readKey; rw [hseq]; rfl
  · rw [((async_any_interleaving ue fs0 ops steps hp hc).1 k hk).1]; unfold readKey; rw [hseq]; rfl

/-- non-vacuity: the example of `async_last_issued_wins` run through the sync API gives the same files -/
example : (runSeq true (fresh ([] : FS Nat)) [.write ("n", "", "k") 1, .remove ("n", "", "k") true, .write ("n", "", "k") 3, .write ("n", "", "k2") 7]).fs =
    [(("n", "[empty]", "k2"), .data 7), (("n", "[empty]", "k"), .data 3)] := by decide

/-- `async_faulty_last_ok_wins` (ORDER UNDER CONCURRENCY **with failing store operations**). Issue ANY list
    `ops` of async API calls on a store started over any directory, and let their bodies run to completion in
    ANY order, each one with or without an I/O FAULT (`πf`: any permutation of the issued operations, each
    paired with an arbitrary fault flag; a fault makes the first mutating file operation of the callback
    that `execute_locked_write` runs — the `rename` of a write, the `remove_file` of a remove of a present
    key — fail without effect, so the call returns `Err`). `fin.2` is the list of operations whose call
    returned `Ok`. Then for EVERY valid key: either no operation on it returned `Ok` and it holds what it held
    at the start; or it holds the result of `m`, the LAST ISSUED operation among those on this key that
    RETURNED Ok (greatest version among them; versions are strictly increasing in issue order — third
    conjunct). So an operation reported `Ok` is never lost to a FAILED later-issued one, and a failed
    operation never makes an earlier-issued one that executes afterwards be skipped as stale. All lock
    references are released. The result and the version bookkeeping of the locked block are the TRANSLATED
    `FsConsts.lockedWrite` (tools/gen_fslocked.py, statement order included): recording the version before the
    callback ran / regardless of its success (seeded C19-r5) makes `Fs.regF_cases` and hence this theorem
    fail to compile. -/
theorem async_faulty_last_ok_wins {ν : Type} (ue : Bool) (fs0 : FS ν) (ops : List (KvOp ν))
    (πf : List (Pending ν × Bool)) (hπ : (πf.map (·.1)).Perm (issueAll ue (fresh fs0) ops).2) (k : Key) (hk : validKey k = true) :
    (((∀ y ∈ (execAllF ((issueAll ue (fresh fs0) ops).1, []) πf).2, y.dest ≠ destPath ue k) ∧
        readKey ue (execAllF ((issueAll ue (fresh fs0) ops).1, []) πf).1.fs k = readKey ue fs0 k) ∨
      (∃ m ∈ (execAllF ((issueAll ue (fresh fs0) ops).1, []) πf).2, m ∈ (issueAll ue (fresh fs0) ops).2 ∧ m.dest = destPath ue k ∧
        (∀ y ∈ (execAllF ((issueAll ue (fresh fs0) ops).1, []) πf).2, y.dest = destPath ue k → y.version ≤ m.version) ∧
        readKey ue (execAllF ((issueAll ue (fresh fs0) ops).1, []) πf).1.fs k = m.result)) ∧
    (lockOf (execAllF ((issueAll ue (fresh fs0) ops).1, []) πf).1 (destPath ue k)).refs = 0 ∧
    (issueAll ue (fresh fs0) ops).2.Pairwise (fun a b => a.version < b.version) := by
  obtain ⟨h1, _, h3, h4, h5⟩ := issueAll_spec ue ops (fresh fs0)
  have hl0 : ∀ d, lockOf (fresh fs0) d = ⟨0, 0⟩ := fun d => by simp [lockOf, fresh, Store.get]
  have hlocks : LocksOk (issueAll ue (fresh fs0) ops).1 (πf.map (·.1)) := by
    intro d
    have hperm : (onDest d (πf.map (·.1))).Perm (onDest d (issueAll ue (fresh fs0) ops).2) := hπ.filter _
    rw [h3 d, hl0 d, hperm.length_eq]; simp
  have hmem : ∀ e ∈ πf, e.1 ∈ (issueAll ue (fresh fs0) ops).2 := fun e he => hπ.subset (List.mem_map_of_mem he)
  have hver : ∀ e ∈ πf, 0 < e.1.version := by
    intro e he
    have := (h4 e.1 (hmem e he)).1
    have h1v : (fresh fs0).nextVersion = 1 := rfl
    omega
  have hinit : OkInv (destPath ue k) (readKey ue fs0 k) (πf.map (·.1)) ((issueAll ue (fresh fs0) ops).1, []) := by
    left
    refine ⟨fun y hy => by simp at hy, ?_, fun _ => ?_⟩
    · show (issueAll ue (fresh fs0) ops).1.fs.get _ = _; rw [h1]; rfl
    · show (lockOf (issueAll ue (fresh fs0) ops).1 _).lastWritten = 0; rw [h3, hl0]
  obtain ⟨hinv, hrefs⟩ := execAllF_inv (destPath ue k) (dest_not_artifact hk) (readKey ue fs0 k) πf ((issueAll ue (fresh fs0) ops).1, []) hlocks hver hinit
  refine ⟨?_, hrefs, h5⟩
  rcases hinv with ⟨ha, hb, _⟩ | ⟨m, hm, hmd, hmax, hc, _⟩
  · left; exact ⟨ha, hb⟩
  · right
    refine ⟨m, hm, ?_, hmd, hmax, hc⟩
    rcases execAllF_oks_sub πf ((issueAll ue (fresh fs0) ops).1, []) m hm with h | h
    · simp at h
    · exact hπ.subset h

/-- non-vacuity (the schedule of seeded C19-r5): two writes to `k` (1, then 2); the body of the 2nd runs first
    and its rename FAILS (tmp file removed, call returns Err, NO version recorded), then the 1st runs: it
    is not stale, takes effect and returns Ok — `k` holds 1, the Ok list is exactly the 1st write -/
example : let t := issueAll true (fresh ([] : FS Nat)) [.write ("n", "", "k") 1, .write ("n", "", "k") 2]
    let fin := execAllF (t.1, []) ((t.2.drop 1).map (fun x => (x, true)) ++ (t.2.take 1).map (fun x => (x, false)))
    fin.1.fs = [(("n", "[empty]", "k"), .data 1)] ∧ fin.2.map (·.version) = [1] ∧ fin.1.locks = [] ∧
    (execF t.1 (t.2.getD 1 ⟨("", "", ""), 0, .remove true⟩) true).2 = false := by decide

/-- `async_faulty_any_history` (ORDER UNDER CONCURRENCY with failing store operations, ANY history). Take ANY
    list of events on a store started over any directory: `call op` — an async API call is made (a valid
    write/remove takes the next version and a reference to the per-path lock entry NOW, `Fs.issue`) — and
    `complete v fault` — the body of the pending operation with version `v` runs to completion, with or
    without an I/O fault (`Fs.execF`: result and version bookkeeping by the translated `lockedWrite`, then
    `clean_locks`: the lock entry — and the version it records — is dropped exactly when no other issued
    operation holds a reference). Calls and completions interleave ARBITRARILY: bodies may complete before
    later operations are issued, operations may stay pending. Then at the end — hence, `evs` being arbitrary,
    at EVERY point of every history — for EVERY valid key: either no operation on it has returned `Ok` and it
    holds its initial contents, or it holds the result of the operation with the GREATEST VERSION (versions
    are handed out in call order: the LAST ISSUED) among those on this key that have RETURNED Ok.
    Generalises `async_faulty_last_ok_wins` (issue all, then complete all) to every history. -/
theorem async_faulty_any_history {ν : Type} (ue : Bool) (fs0 : FS ν) (evs : List (AEv ν)) (k : Key) (hk : validKey k = true) :
    ((∀ y ∈ (runA ue { st := fresh fs0 } evs).oks, y.dest ≠ destPath ue k) ∧
      readKey ue (runA ue { st := fresh fs0 } evs).st.fs k = readKey ue fs0 k) ∨
    (∃ m ∈ (runA ue { st := fresh fs0 } evs).oks, m.dest = destPath ue k ∧
      (∀ y ∈ (runA ue { st := fresh fs0 } evs).oks, y.dest = destPath ue k → y.version ≤ m.version) ∧
      readKey ue (runA ue { st := fresh fs0 } evs).st.fs k = m.result) := by
  have hl0 : ∀ d, lockOf (fresh fs0) d = ⟨0, 0⟩ := fun d => by simp [lockOf, fresh, Store.get]
  have hinit : AInv (destPath ue k) (readKey ue fs0 k) ({ st := fresh fs0 } : ASt ν) := by
    refine ⟨fun d => by rw [hl0 d]; simp [onDest], by show 0 < Ldk.FsConsts.FIRST_VERSION; decide, fun x hx => by simp at hx, 0, ?_, ?_, ?_, ?_⟩
    · left; exact ⟨rfl, fun y hy => by simp at hy, rfl⟩
    · rw [hl0]; exact Nat.le_refl _
    · show 0 < Ldk.FsConsts.FIRST_VERSION; decide
    · intro x hx; simp at hx
  obtain ⟨_, _, _, M, hM, _, _, _⟩ := ainv_run ue (destPath ue k) (dest_not_artifact hk) (readKey ue fs0 k) evs _ hinit
  rcases hM with ⟨_, h1, h2⟩ | ⟨m, hm, hmd, hmv, hmax, hc⟩
  · left; exact ⟨h1, h2⟩
  · right; exact ⟨m, hm, hmd, fun y hy hyd => by rw [hmv]; exact hmax y hy hyd, hc⟩

/-- non-vacuity: write 1 is called and completes (the lock entry is dropped: nobody else holds it); write 2 and
    write 3 are called; 3 completes but its rename FAILS; 2 completes: `k` holds 2 — the last issued
    operation that returned Ok — and the Ok list is [2, 1] (versions) -/
def exHist : List (AEv Nat) :=
  [.call (.write ("n", "", "k") 1), .complete 1 false, .call (.write ("n", "", "k") 2), .call (.write ("n", "", "k") 3),
   .complete 3 true, .complete 2 false]
example : (runA true { st := fresh ([] : FS Nat) } exHist).st.fs = [(("n", "[empty]", "k"), .data 2)] ∧
    (runA true { st := fresh ([] : FS Nat) } exHist).oks.map (·.version) = [2, 1] ∧
    (runA true { st := fresh ([] : FS Nat) } exHist).pend.length = 0 ∧
    (runA true { st := fresh ([] : FS Nat) } exHist).st.locks = [] := by decide

/-- `faulty_history_old_or_new` (NO TORN / MIXED VALUE under failing operations; `crash_never_tears` for faults).
    Take ANY history of `call` / `complete version kind` events, every completion with ANY fault kind
    (`Fs.execK`): none; `cb` — the callback's rename / unlink fails without effect; `early` — write_version
    fails BEFORE the lock (tmp create / write_all / sync_all); `dirSync` — the directory fsync AFTER the
    rename / unlink fails, so the call returns Err although the effect IS on disk. Then at every point of
    every history every valid key holds its initial contents or the COMPLETE result of ONE operation issued
    on this key (its whole value for a write, nothing for a remove): a failed write leaves the old or the
    new value, never a half-written or mixed one, and never a value nobody wrote to this key. -/
theorem faulty_history_old_or_new {ν : Type} (ue : Bool) (fs0 : FS ν) (evs : List (KEv ν)) (k : Key) (hk : validKey k = true) :
    (readKey ue (runK ue { st := fresh fs0 } evs).st.fs k = readKey ue fs0 k ∨
      ∃ x ∈ (runK ue { st := fresh fs0 } evs).all, x.dest = destPath ue k ∧
        readKey ue (runK ue { st := fresh fs0 } evs).st.fs k = x.result) ∧
    (readKey ue fs0 k ≠ some .torn → readKey ue (runK ue { st := fresh fs0 } evs).st.fs k ≠ some .torn) := by
  have hinit : KInv (destPath ue k) (readKey ue fs0 k) ({ st := fresh fs0 } : KSt ν) :=
    ⟨Or.inl rfl, fun x hx => by simp at hx⟩
  obtain ⟨h1, _⟩ := kinv_run ue (destPath ue k) (dest_not_artifact hk) (readKey ue fs0 k) evs _ hinit
  refine ⟨h1, fun h0 => ?_⟩
  unfold readKey at h1 h0 ⊢
  rcases h1 with h1 | ⟨x, _, _, hx⟩
  · rw [h1]; exact h0
  · rw [hx]; unfold Pending.result; cases x.body <;> simp

/-- non-vacuity: write 1 completes; write 2's directory fsync fails (Err, but 2 is on disk); write 3 fails
    before the lock (nothing changes); a remove's unlink fails (nothing changes): `k` holds 2, no tmp file -/
def exHistK : List (KEv Nat) :=
  [.call (.write ("n", "", "k") 1), .complete 1 .none, .call (.write ("n", "", "k") 2), .complete 2 .dirSync,
   .call (.write ("n", "", "k") 3), .complete 3 .early, .call (.remove ("n", "", "k") false), .complete 4 .cb]
example : (runK true { st := fresh ([] : FS Nat) } exHistK).st.fs = [(("n", "[empty]", "k"), .data 2)] ∧
    (runK true { st := fresh ([] : FS Nat) } exHistK).pend.length = 0 := by decide

/-- `failed_operation_bookkeeping`. (1) A write that fails BEFORE the lock returns Err and changes NOTHING: the
    file system is exactly as before (no tmp file left), the version counter and the version its lock entry
    records are untouched, only its lock reference is released. (2) A body whose directory fsync fails
    (Err with the effect on disk) never records its version — over the translated `lockedWrite` — so
    operations issued earlier that complete later are NOT skipped: they win, as they returned Ok. -/
theorem failed_operation_bookkeeping {ν : Type} (st : St ν) (x : Pending ν) :
    (∀ v, x.body = .write v →
      (execK st x .early).2 = false ∧ (execK st x .early).1.fs = st.fs ∧ (execK st x .early).1.nextVersion = st.nextVersion ∧
      lockOf (execK st x .early).1 x.dest = ⟨(lockOf st x.dest).lastWritten, (lockOf st x.dest).refs - 1⟩) ∧
    ((execK st x .dirSync).2 = false →
      (Ldk.FsConsts.lockedWrite x.version (lockOf st x.dest).lastWritten (!(bodyOps st x).any isDirSync)).2 = (lockOf st x.dest).lastWritten) :=
  ⟨fun v hb => execE_write st x v hb, fun h => execD_failed_version st x h⟩

/-- non-vacuity: a dirSync-failed write from a fresh lock returns Err and the lock keeps version 0 while an older
    operation is pending -/
example : let t := issueAll true (fresh ([] : FS Nat)) [.write ("n", "", "k") 1, .write ("n", "", "k") 2]
    (execK t.1 (t.2.getD 1 ⟨("", "", ""), 0, .remove true⟩) .dirSync).2 = false ∧
    (lockOf (execK t.1 (t.2.getD 1 ⟨("", "", ""), 0, .remove true⟩) .dirSync).1 ("n", "[empty]", "k")) = ⟨0, 1⟩ := by decide

/-- `faulty_model_conservative`. With no fault injected the fault model IS the model of sections 6-7: for every
    state and every list of issued operations, `execAllF` without faults ends in exactly the state of
    `execAll` (file system, tmp counter, lock table) and every call returns Ok. So the hand-mirrored
    version bookkeeping `Fs.finishLocks`, which `async_last_issued_wins` / `async_any_interleaving` /
    `async_equals_sequential` are about, agrees with the TRANSLATED `FsConsts.lockedWrite` on every
    fault-free run — those theorems are about the translated locked block too. -/
theorem faulty_model_conservative {ν : Type} (st : St ν) (l : List (Pending ν)) (acc : List (Pending ν)) :
    execAllF (st, acc) (l.map (fun x => (x, false))) = (execAll st l, l.reverse ++ acc) ∧
    ∀ x : Pending ν, execF st x false = (exec st x, true) :=
  ⟨execAllF_nofault l st acc, execF_nofault st⟩

/-- non-vacuity: the example of `async_last_issued_wins` through the fault model without faults -/
example : let t := issueAll true (fresh ([] : FS Nat)) [.write ("n", "", "k") 1, .remove ("n", "", "k") true, .write ("n", "", "k") 3]
    (execAllF (t.1, []) ((t.2.drop 2 ++ t.2.take 2).map (fun x => (x, false)))).1.fs = [(("n", "[empty]", "k"), .data 3)] ∧
    (execAllF (t.1, []) ((t.2.drop 2 ++ t.2.take 2).map (fun x => (x, false)))).2.map (·.version) = [2, 1, 3] := by decide

/-! ## 8. several monitors, archiving, reading everything back -/

/-- `monitor_isolation`. Take ANY interleaving `l1 ++ l2` of persister calls (`persist_new_channel`,
    `update_persisted_channel` with or without an update, `archive_persisted_channel`, the per-monitor
    stale clean-up) on ANY monitors under ANY fault schedule. If no call of `l2` is on monitor `b`, then
    `l2` changed nothing of what `b` owns and nothing of what recovery returns for `b`: the stored
    monitor, the archive copy, every update file, the listing of `b`'s update namespace (as a list),
    and `recover cfg · b` (= `maybe_read_channel_monitor_with_updates` on a healthy store, see
    `read_all_is_map_of_recover`) are the same after `l1 ++ l2` as after `l1`. So in every interleaving
    the recoverable state of a monitor changes only at its own calls. -/
theorem monitor_isolation {St Upd : Type} (cfg : Cfg St Upd) (sc : Sched) (w : World St Upd)
    (l1 l2 : List (String × Call St Upd)) (b : String) (h : ∀ c ∈ l2, c.1 ≠ b) :
    let s := (runCalls cfg sc w l1).store
    let s' := (runCalls cfg sc w (l1 ++ l2)).store
    recover cfg s' b = recover cfg s b ∧ s'.get (monKey b) = s.get (monKey b) ∧ s'.get (archKey b) = s.get (archKey b) ∧
    (∀ id, s'.get (updKey b id) = s.get (updKey b id)) ∧
    s'.names CHANNEL_MONITOR_UPDATE_PERSISTENCE_PRIMARY_NAMESPACE b = s.names CHANNEL_MONITOR_UPDATE_PERSISTENCE_PRIMARY_NAMESPACE b := by
  intro s s'
  have aux : ∀ (l : List (String × Call St Upd)) (w0 : World St Upd), (∀ c ∈ l, c.1 ≠ b) →
      recover cfg (runCalls cfg sc w0 l).store b = recover cfg w0.store b ∧
      (runCalls cfg sc w0 l).store.get (monKey b) = w0.store.get (monKey b) ∧
      (runCalls cfg sc w0 l).store.get (archKey b) = w0.store.get (archKey b) ∧
      (∀ id, (runCalls cfg sc w0 l).store.get (updKey b id) = w0.store.get (updKey b id)) ∧
      (runCalls cfg sc w0 l).store.names UPD b = w0.store.names UPD b := by
    intro l
    induction l with
    | nil => intro w0 _; exact ⟨rfl, rfl, rfl, fun _ => rfl, rfl⟩
    | cons c r ih =>
      intro w0 hc
      obtain ⟨a1, a2, a3, a4, a5⟩ := ih (applyCall cfg sc w0 c) (fun c' hc' => hc c' (List.mem_cons_of_mem _ hc'))
      obtain ⟨b1, b2, b3, b4, b5⟩ := frame_other (name := c.1) (b := b) (fun h2 => hc c (List.mem_cons_self ..) h2.symm) (frame_applyCall cfg sc w0 c) cfg
      show recover cfg (runCalls cfg sc (applyCall cfg sc w0 c) r).store b = _ ∧ _
      exact ⟨a1.trans b1, a2.trans b2, a3.trans b3, fun id => (a4 id).trans (b4 id), a5.trans b5⟩
  have := aux l2 (runCalls cfg sc w l1) h
  rw [← runCalls_append] at this
  exact this

/-- non-vacuity: monitor "b" with update file 1; then "a" is created, updated past a consolidation and
    a third monitor "c" appears ("a"'s update file 1 was written and cleaned up again): the theorem applies and "b"'s files are as before -/
def exL1 : List (String × Call (List Nat) Nat) := [("b", .persistNew ⟨0, []⟩), ("b", .updatePersisted (some (1, 7)) ⟨1, [7]⟩)]
def exL2 : List (String × Call (List Nat) Nat) := [("a", .persistNew ⟨0, []⟩), ("a", .updatePersisted (some (1, 5)) ⟨1, [5]⟩),
  ("a", .updatePersisted (some (2, 6)) ⟨2, [5, 6]⟩), ("c", .persistNew ⟨9, []⟩)]
example : (runCalls (exCfg 2) okSched { store := [] } (exL1 ++ exL2)).store.keys =
      [("monitors", "", "c"), ("monitors", "", "a"), ("monitor_updates", "b", "1"), ("monitors", "", "b")] ∧
    (runCalls (exCfg 2) okSched { store := [] } exL1).store.keys = [("monitor_updates", "b", "1"), ("monitors", "", "b")] := by decide
example := monitor_isolation (exCfg 2) okSched { store := [] } exL1 exL2 "b" (by decide)

/-- `archive_correct`. For every fault schedule, `archive_persisted_channel(name)` changes at most the
    archive key and the live monitor key of `name`, and
    * the archive key is either untouched or holds (without sentinel) EXACTLY the monitor that
      `read_channel_monitor_with_updates` returns at that moment — the stored monitor WITH its pending
      updates applied (by `persister_recovers` that is the in-memory monitor), not the bare stored one;
    * the live monitor key is removed ONLY IF the archive write took effect: whenever it is gone, the
      archive key holds that monitor.
    Which read the function uses and that a failed archive write returns before the removal are
    TRANSLATED from persist.rs (`archiveAppliesUpdates`, `archiveRemoveAfterWriteOk`): if the source
    archives the bare stored monitor, or removes the live key regardless, this theorem no longer compiles. -/
theorem archive_correct {St Upd : Type} (cfg : Cfg St Upd) (sc : Sched) (w : World St Upd) (name : String) :
    (∀ k, k ≠ archKey name → k ≠ monKey name → (archive cfg sc w name).store.get k = w.store.get k) ∧
    ((archive cfg sc w name).store.get (archKey name) = w.store.get (archKey name) ∨
      ∃ m, (readWithUpdates cfg sc w name).2 = .ok m ∧ (archive cfg sc w name).store.get (archKey name) = some (.mon false name m)) ∧
    ((archive cfg sc w name).store.get (monKey name) = w.store.get (monKey name) ∨
      ((archive cfg sc w name).store.get (monKey name) = none ∧
       ∃ m, (readWithUpdates cfg sc w name).2 = .ok m ∧ (archive cfg sc w name).store.get (archKey name) = some (.mon false name m))) := by
  have hread : archiveRead cfg sc w name = readWithUpdates cfg sc w name := rfl
  have hafter : archiveRemoveAfterWriteOk = true := rfl
  have hst := readWithUpdates_store cfg sc w name
  have ham : archKey name ≠ monKey name := archKey_ne_monKey name name
  unfold archive
  simp only [hread, hafter, Bool.not_true, Bool.or_false]
  cases hres : (readWithUpdates cfg sc w name).2 with
  | error e => simp [hst]
  | ok m =>
    simp only
    cases hb : (kWrite sc (readWithUpdates cfg sc w name).1 (archKey name) (.mon false name m)).2 with
    | false =>
      simp only [Bool.false_eq_true, if_false]
      rcases kWrite_cases sc (readWithUpdates cfg sc w name).1 (archKey name) (.mon false name m) with h | ⟨h, _⟩
      · rw [h, hst]
        refine ⟨fun k h1 _ => Store.get_put_ne _ _ h1, Or.inr ⟨m, rfl, Store.get_put_same _ _ _⟩, Or.inl (Store.get_put_ne _ _ ham.symm)⟩
      · rw [h, hst]; exact ⟨fun _ _ _ => rfl, Or.inl rfl, Or.inl rfl⟩
    | true =>
      simp only [if_true]
      have hput := kWrite_ok_store hb
      have hrm : ∀ (w1 : World St Upd), (kRemove sc w1 (monKey name) archiveRemoveLazy).1.store = w1.store.del (monKey name) ∨
          (kRemove sc w1 (monKey name) archiveRemoveLazy).1.store = w1.store := by
        intro w1
        simp only [kRemove]
        by_cases h : (if archiveRemoveLazy = true then sc.eff w1.n else sc.ok w1.n || sc.eff w1.n) = true
        · left; simp [h]
        · right; simp [h]
      rcases hrm (kWrite sc (readWithUpdates cfg sc w name).1 (archKey name) (.mon false name m)).1 with h | h
      · rw [h, hput, hst]
        have harch : ((w.store.put (archKey name) (.mon false name m)).del (monKey name)).get (archKey name) = some (.mon false name m) := by
          rw [Store.get_del_ne _ ham, Store.get_put_same]
        refine ⟨fun k h1 h2 => by rw [Store.get_del_ne _ h2, Store.get_put_ne _ _ h1], Or.inr ⟨m, rfl, harch⟩,
          Or.inr ⟨Store.get_del_same _ _, m, rfl, harch⟩⟩
      · rw [h, hput, hst]
        refine ⟨fun k h1 _ => Store.get_put_ne _ _ h1, Or.inr ⟨m, rfl, Store.get_put_same _ _ _⟩, Or.inl (Store.get_put_ne _ _ ham.symm)⟩

/-- `archive_holds_memory_monitor`: `persister_recovers` and `archive_correct` together. After ANY
    history under ANY fault schedule (hypotheses of `persister_recovers`), archiving on a store that
    answers every operation leaves in the archive namespace EXACTLY the in-memory monitor as of an
    update at or after the last one reported Completed — pending update files included —, and the
    live monitor key is gone. -/
theorem archive_holds_memory_monitor {St Upd : Type} (cfg : Cfg St Upd) (sc : Sched) (name : String)
    (s0 : Store (PVal St Upd)) (m0 : Mon St) (evs : List (Ev Upd))
    (hname : cfg.nameOk name = true) (hid : m0.id ≤ LEGACY_CLOSED_CHANNEL_UPDATE_ID) (hwf : s0.WF)
    (hfresh : ∀ nm, (s0.get (CHANNEL_MONITOR_UPDATE_PERSISTENCE_PRIMARY_NAMESPACE, name, nm)).isSome = true →
        ∃ id, nm = Nat.repr id ∧ id ≤ m0.id)
    (rsc : Sched) (hr : ∀ i, rsc.ok i = true) (he : ∀ i, rsc.eff i = true) (w' : World St Upd)
    (hw' : w'.store = (runHistory cfg sc name s0 m0 evs).w.store)
    (hstarted : (runHistory cfg sc name s0 m0 evs).started = true) :
    ∃ n, (runHistory cfg sc name s0 m0 evs).completed ≤ n ∧ n ≤ (runHistory cfg sc name s0 m0 evs).applied.length ∧
      (archive cfg rsc w' name).store.get (archKey name) =
        some (.mon false name (snapAt cfg m0 (runHistory cfg sc name s0 m0 evs).applied n)) ∧
      (archive cfg rsc w' name).store.get (monKey name) = none := by
  obtain ⟨n, h1, h2, h3, _⟩ := persister_recovers cfg sc name s0 m0 evs hname hid hwf hfresh rsc hr w' hw' hstarted
  refine ⟨n, h1, h2, ?_⟩
  obtain ⟨_, hA, hM⟩ := archive_correct cfg rsc w' name
  have hread : archiveRead cfg rsc w' name = readWithUpdates cfg rsc w' name := rfl
  have hlazy : archiveRemoveLazy = true := rfl
  have hgone : (archive cfg rsc w' name).store.get (monKey name) = none := by
    unfold archive
    simp only [hread, h3, kWrite, hr, Bool.true_or, if_true, kRemove, hlazy, he]
    exact Store.get_del_same _ _
  rcases hM with hM | ⟨_, m, hm, hA'⟩
  · -- the live key cannot be unchanged: it was there (recovery read it) and is gone now
    exfalso
    rw [hgone] at hM
    have : (readWithUpdates cfg rsc w' name).2 = .error .io := by
      rw [readWithUpdates_ok cfg rsc hr]
      unfold recover recoverPure
      simp [hname, ← hM]
    rw [h3] at this; cases this
  · rw [h3] at hm
    injection hm with hm
    rw [hm]
    exact ⟨hA', hgone⟩

/-- non-vacuity: the run of section 2 (crash schedule irrelevant here: healthy run, maximum_pending_updates
    5, the second update persisted as a full monitor, updates 3 and 4 pending as files): the archive
    holds the monitor at id 4 with all four payloads -/
example : let evs : List (Ev Nat) := [.update 1 10 false, .update 2 20 true, .update 3 30 false, .update 4 40 false]
    let r := runHistory (exCfg 5) okSched "m" [] ⟨0, []⟩ evs
    r.completed = 4 ∧ r.applied.length = 4 ∧ (snapAt (exCfg 5) ⟨0, []⟩ r.applied 4).st = [10, 20, 30, 40] ∧
    r.w.store.keys = [("monitor_updates", "m", "4"), ("monitor_updates", "m", "3"), ("monitors", "", "m"), ("monitor_updates", "m", "1")] := by decide
example := archive_holds_memory_monitor (exCfg 5) okSched "m" [] ⟨0, []⟩ [.update 1 10 false, .update 2 20 true, .update 3 30 false, .update 4 40 false]
  rfl (by decide) List.nodup_nil (by intro nm h; simp [Store.get] at h) okSched (fun _ => rfl) (fun _ => rfl) { store := _ } rfl (by decide)

/-- `read_all_is_map_of_recover`. On a store that answers every operation, at any point of its life,
    `maybe_read_channel_monitor_with_updates(name)` is the pure function `recover` of the store
    contents, and `read_all_channel_monitors_with_updates` is `recover` mapped over the listing of the
    monitor namespace: all results in listing order, or the first error in that order (`collect`).
    Together with `persister_recovers` (each `recover` is the in-memory monitor) and
    `monitor_isolation` (each is independent of the other monitors' calls): restart recovers EVERY
    monitor exactly. -/
theorem read_all_is_map_of_recover {St Upd : Type} (cfg : Cfg St Upd) (sc : Sched) (hok : ∀ i, sc.ok i = true)
    (w : World St Upd) :
    (readAll cfg sc w).2 =
      collect ((w.store.names CHANNEL_MONITOR_PERSISTENCE_PRIMARY_NAMESPACE CHANNEL_MONITOR_PERSISTENCE_SECONDARY_NAMESPACE).map
        (fun nm => (nm, recover cfg w.store nm))) ∧
    (∀ name, (readWithUpdates cfg sc w name).2 = recover cfg w.store name) ∧
    (readAll cfg sc w).1.store = w.store := by
  refine ⟨?_, fun name => readWithUpdates_ok cfg sc hok w name, ?_⟩
  · unfold readAll
    have h2 : (kList sc w CHANNEL_MONITOR_PERSISTENCE_PRIMARY_NAMESPACE CHANNEL_MONITOR_PERSISTENCE_SECONDARY_NAMESPACE).2 =
        some (w.store.names CHANNEL_MONITOR_PERSISTENCE_PRIMARY_NAMESPACE CHANNEL_MONITOR_PERSISTENCE_SECONDARY_NAMESPACE) := by
      simp [kList, hok]
    simp only [h2]
    exact (readAllLoop_ok cfg sc hok _ _).1
  · unfold readAll
    simp only
    split
    · rfl
    · rw [(readAllLoop_ok cfg sc hok _ _).2]; rfl

/-- non-vacuity: on the store of the isolation example (three monitors) -/
example := read_all_is_map_of_recover (exCfg 2) okSched (fun _ => rfl) (runCalls (exCfg 2) okSched { store := [] } (exL1 ++ exL2))
example : (runCalls (exCfg 2) okSched { store := [] } (exL1 ++ exL2)).store.names
    CHANNEL_MONITOR_PERSISTENCE_PRIMARY_NAMESPACE CHANNEL_MONITOR_PERSISTENCE_SECONDARY_NAMESPACE = ["c", "a", "b"] := by decide

/-- `cleanup_idempotent`. On a store that answers every operation and on which every (lazy or
    non-lazy) removal lands, a successful run of `cleanup_stale_updates_for_monitor_to(name, latest, lazy)`
    — the per-monitor body of `cleanup_stale_updates` and the legacy branch of
    `update_persisted_channel` — leaves nothing to do: every update file it meant to remove (a listed,
    parseable name with id ≤ latest) is gone, and running it AGAIN succeeds and leaves the store exactly
    as it is (the same association list, not just the same map), for every monitor name, bound and
    laziness, whatever else the store holds. -/
theorem cleanup_idempotent {St Upd : Type} (sc : Sched) (hok : ∀ i, sc.ok i = true) (heff : ∀ i, sc.eff i = true)
    (w : World St Upd) (name : String) (latest : Nat) (lazy : Bool)
    (h1 : (cleanupTo sc w name latest lazy).2 = true) :
    (∀ nm id, nm ∈ w.store.names CHANNEL_MONITOR_UPDATE_PERSISTENCE_PRIMARY_NAMESPACE name → nm.toNat? = some id →
       staleFilter id latest = true → (cleanupTo sc w name latest lazy).1.store.get (updKey name id) = none) ∧
    (cleanupTo sc (cleanupTo sc w name latest lazy).1 name latest lazy).2 = true ∧
    (cleanupTo sc (cleanupTo sc w name latest lazy).1 name latest lazy).1.store = (cleanupTo sc w name latest lazy).1.store := by
  have hlist : ∀ (w0 : World St Upd), (kList sc w0 UPD name).2 = some (w0.store.names UPD name) ∧ (kList sc w0 UPD name).1.store = w0.store :=
    fun w0 => ⟨by simp [kList, hok], rfl⟩
  have hct : ∀ (w0 : World St Upd), cleanupTo sc w0 name latest lazy =
      cleanupLoop sc name latest lazy (w0.store.names UPD name) (kList sc w0 UPD name).1 := by
    intro w0; unfold cleanupTo; simp only [(hlist w0).1]
  rw [hct w] at h1
  have hparse := cleanupLoop_true_parses sc name latest lazy _ _ h1
  obtain ⟨_, hstore⟩ := cleanupLoop_healthy sc hok heff name latest lazy _ (kList sc w UPD name).1 hparse
  rw [(hlist w).2] at hstore
  have hw1 : (cleanupTo sc w name latest lazy).1.store = delStale name latest (w.store.names UPD name) w.store := by
    rw [hct w]; exact hstore
  have hgone : ∀ nm id, nm ∈ w.store.names UPD name → nm.toNat? = some id → staleFilter id latest = true →
      (cleanupTo sc w name latest lazy).1.store.get (updKey name id) = none := by
    intro nm id hnm hp hs
    rw [hw1]; exact delStale_removed name latest _ _ nm id hnm hp hs
  have hsub : ∀ nm, nm ∈ (cleanupTo sc w name latest lazy).1.store.names UPD name → nm ∈ w.store.names UPD name := by
    intro nm hnm; rw [hw1] at hnm; exact delStale_names_sub name latest nm _ _ hnm
  have hparse2 : ∀ nm ∈ (cleanupTo sc w name latest lazy).1.store.names UPD name, (nm.toNat?).isSome = true :=
    fun nm hnm => hparse nm (hsub nm hnm)
  obtain ⟨h2, hstore2⟩ := cleanupLoop_healthy sc hok heff name latest lazy _ (kList sc (cleanupTo sc w name latest lazy).1 UPD name).1 hparse2
  refine ⟨hgone, ?_, ?_⟩
  · rw [hct (cleanupTo sc w name latest lazy).1]; exact h2
  · rw [hct (cleanupTo sc w name latest lazy).1, hstore2, (hlist _).2]
    exact delStale_fixed name latest _ _ (fun nm hnm id hp hs => hgone nm id (hsub nm hnm) hp hs)

/-- non-vacuity: the store of section 2's example after 8 updates has stale files; the theorem applies
    to the clean-up of monitor "m" up to its stored id -/
example := cleanup_idempotent (St := List Nat) (Upd := Nat) okSched (fun _ => rfl) (fun _ => rfl)
  { store := [(("monitor_updates", "m", "2"), .upd 2 20), (("monitor_updates", "m", "9"), .upd 9 90), (("monitors", "", "m"), .mon true "m" ⟨5, []⟩)] } "m" 5 true
/-- ... whose hypothesis holds there (a stale file 2 and a pending file 9 next to the monitor at id 5) -/
example : (cleanupTo (St := List Nat) (Upd := Nat) okSched
    { store := [(("monitor_updates", "m", "2"), .upd 2 20), (("monitor_updates", "m", "9"), .upd 9 90), (("monitors", "", "m"), .mon true "m" ⟨5, []⟩)] }
    "m" 5 true).2 = true := by
  have hn : ∀ nm ∈ [Nat.repr 2, Nat.repr 9], (nm.toNat?).isSome = true := by
    intro nm h
    simp only [List.mem_cons, List.not_mem_nil, or_false] at h
    rcases h with rfl | rfl <;> rw [Nat.toNat?_repr] <;> rfl
  exact (cleanupLoop_healthy okSched (fun _ => rfl) (fun _ => rfl) "m" 5 true [Nat.repr 2, Nat.repr 9] _ hn).1

/-- `cleanup_all_idempotent`: the same for the user-facing `cleanup_stale_updates(lazy)` over ALL
    monitors: on a store that answers every operation and on which removals land, after a successful
    run every listed monitor is `Done` (its key decodes, every listed update name parses, every stale
    one is gone), and a second run succeeds and leaves the store — the association list itself — unchanged. -/
theorem cleanup_all_idempotent {St Upd : Type} (cfg : Cfg St Upd) (sc : Sched) (hok : ∀ i, sc.ok i = true)
    (heff : ∀ i, sc.eff i = true) (w : World St Upd) (lazy : Bool) (h1 : (cleanupStale cfg sc lazy w).2 = true) :
    (∀ nm ∈ w.store.names CHANNEL_MONITOR_PERSISTENCE_PRIMARY_NAMESPACE CHANNEL_MONITOR_PERSISTENCE_SECONDARY_NAMESPACE,
       Done cfg nm (cleanupStale cfg sc lazy w).1.store) ∧
    (cleanupStale cfg sc lazy (cleanupStale cfg sc lazy w).1).2 = true ∧
    (cleanupStale cfg sc lazy (cleanupStale cfg sc lazy w).1).1.store = (cleanupStale cfg sc lazy w).1.store := by
  have hl : ∀ (w0 : World St Upd), cleanupStale cfg sc lazy w0 =
      cleanupStaleLoop cfg sc lazy (w0.store.names MONP MONS) (kList sc w0 MONP MONS).1 := by
    intro w0
    unfold cleanupStale
    have : (kList sc w0 MONP MONS).2 = some (w0.store.names MONP MONS) := by simp [kList, hok]
    simp only [this]
  rw [hl w] at h1
  obtain ⟨hsh, hdone⟩ := cleanupStaleLoop_done cfg sc hok heff lazy _ (kList sc w MONP MONS).1 h1
  have hsh' : Shrink w.store (cleanupStale cfg sc lazy w).1.store := by rw [hl w]; exact hsh
  have hdone' : ∀ nm ∈ w.store.names MONP MONS, Done cfg nm (cleanupStale cfg sc lazy w).1.store := by
    rw [hl w]; exact hdone
  refine ⟨hdone', ?_⟩
  rw [hl (cleanupStale cfg sc lazy w).1]
  exact cleanupStaleLoop_noop cfg sc hok heff lazy _ (kList sc (cleanupStale cfg sc lazy w).1 MONP MONS).1
    (fun nm hnm => hdone' nm (hsh'.2.1 _ _ _ hnm))

example := cleanup_all_idempotent (exCfg 2) okSched (fun _ => rfl) (fun _ => rfl) (runCalls (exCfg 2) okSched { store := [] } (exL1 ++ exL2)) true

/-! ### round 6: recovery does not depend on the READER's maximum_pending_updates -/

private theorem applyAll_reader {St Upd : Type} (cfg : Cfg St Upd) (m' : Nat) (l : List (Option (PVal St Upd))) :
    ∀ m : Mon St, applyAll { cfg with maxPending := m' } m l = applyAll cfg m l := by
  induction l with
  | nil => intro m; rfl
  | cons a r ih =>
    intro m
    cases a with
    | none => rfl
    | some v =>
      cases v with
      | upd uid u =>
        have hu : applyUpd { cfg with maxPending := m' } m uid u = applyUpd cfg m uid u := rfl
        simp only [applyAll, hu]
        cases applyUpd cfg m uid u with
        | none => rfl
        | some m2 => exact ih m2
      | mon a b c => rfl
      | junk a => rfl

private theorem readWithUpdates_reader {St Upd : Type} (cfg : Cfg St Upd) (m' : Nat) (sc : Sched) (w : World St Upd) (name : String) :
    readWithUpdates { cfg with maxPending := m' } sc w name = readWithUpdates cfg sc w name := by
  unfold readWithUpdates
  simp only [applyAll_reader]

private theorem readAllLoop_reader {St Upd : Type} (cfg : Cfg St Upd) (m' : Nat) (sc : Sched) (names : List String) :
    ∀ w : World St Upd, readAllLoop { cfg with maxPending := m' } sc names w = readAllLoop cfg sc names w := by
  induction names with
  | nil => intro w; rfl
  | cons nm rest ih => intro w; simp only [readAllLoop, readWithUpdates_reader, ih]

/-- `recovery_independent_of_reader_max_pending`. `maximum_pending_updates` is a constructor argument of the
    persister, not something stored: the persister that RECOVERS may have been built with another value than
    the one that wrote the store (0 = "update writing disabled" included). For every configuration `cfg`
    (the writer's), EVERY reader value `m'`, every fault schedule, world / store and monitor name, recovery
    through a persister built with `m'` — `maybe_read_channel_monitor_with_updates`, `read_all_channel_monitors_with_updates`,
    and the pure reading `recover` that `persister_recovers` is about — is EXACTLY recovery with the writer's
    value (same store operations, same answer), so `persister_recovers` holds for every reader value; and a
    successful recovery is the stored full monitor with EVERY listed update above its id applied in order
    (`applyAll` over all of `idsToLoad`), whatever `m'` is. Tie to the code: `recoveryReadsMaxPending` is
    TRANSLATED from persist.rs (does the read path mention `maximum_pending_updates` at all): if the read path
    consults the field (seeded C19-r6: a fast path for 0 that skips listing the updates), this theorem no
    longer compiles. -/
theorem recovery_independent_of_reader_max_pending {St Upd : Type} (cfg : Cfg St Upd) (m' : Nat) :
    recoveryReadsMaxPending = false ∧
    (∀ (sc : Sched) (w : World St Upd) (name : String),
      readWithUpdates { cfg with maxPending := m' } sc w name = readWithUpdates cfg sc w name) ∧
    (∀ (sc : Sched) (w : World St Upd), readAll { cfg with maxPending := m' } sc w = readAll cfg sc w) ∧
    (∀ (s : Store (PVal St Upd)) (name : String),
      recover { cfg with maxPending := m' } s name = recover cfg s name ∧
      ∀ mr, recover { cfg with maxPending := m' } s name = .ok mr →
        ∃ v m ids, s.get (monKey name) = some v ∧ decodeMon name v = .ok m ∧
          idsToLoad (s.names CHANNEL_MONITOR_UPDATE_PERSISTENCE_PRIMARY_NAMESPACE name) m.id = some ids ∧
          applyAll cfg m (ids.map (fun id => s.get (updKey name id))) = .ok mr) := by
  refine ⟨rfl, fun sc w name => readWithUpdates_reader cfg m' sc w name, ?_, ?_⟩
  · intro sc w
    unfold readAll
    simp only [readAllLoop_reader]
  · intro s name
    have hrec : recover { cfg with maxPending := m' } s name = recover cfg s name := by
      unfold recover recoverPure
      simp only [applyAll_reader]
    refine ⟨hrec, ?_⟩
    intro mr h
    rw [hrec] at h
    unfold recover recoverPure at h
    split at h
    · cases h
    · cases hv : s.get (monKey name) with
      | none => rw [hv] at h; cases h
      | some v =>
        rw [hv] at h
        simp only at h
        cases hd : decodeMon name v with
        | error e => rw [hd] at h; cases h
        | ok m =>
          rw [hd] at h
          simp only at h
          cases hi : idsToLoad (s.names CHANNEL_MONITOR_UPDATE_PERSISTENCE_PRIMARY_NAMESPACE name) m.id with
          | none => rw [hi] at h; cases h
          | some ids =>
            rw [hi] at h
            exact ⟨v, m, ids, rfl, hd, hi, h⟩

/-- non-vacuity: a store written with maximum_pending_updates = 3 and stopped at update 2 (full monitor at 0,
    update files 1 and 2 above it) is a store the theorem applies to with reader value 0 (recovery = the writer's recovery: full monitor 0 + updates 1, 2) -/
def exStoreR6 : Store (PVal (List Nat) Nat) :=
  (runHistory (exCfg 3) okSched "a" [] ⟨0, []⟩ [.update 1 10 false, .update 2 20 false]).w.store
example : exStoreR6.keys = [("monitor_updates", "a", "2"), ("monitor_updates", "a", "1"), ("monitors", "", "a")] := by decide
example := (recovery_independent_of_reader_max_pending (St := List Nat) (Upd := Nat) (exCfg 3) 0).2.2.2 exStoreR6 "a"

end Ldk.C19
