/- C19 — Stored channel state is never lost or torn by the storage layer.
   Property theorems only (helper lemmas: Proofs/MonPersister.lean; models: Model/KvStore.lean,
   Model/MonPersister.lean; the decision expressions of the persister are GENERATED from persist.rs
   into Generated/PersistConsts.lean on every run).

   Quantification: every theorem about the persister is over EVERY `maximum_pending_updates`
   (`cfg.maxPending`), EVERY history of `ChainMonitor` calls `evs` (updates with arbitrary ids — the
   run itself stops, like the real node, at an out-of-order id —, updates persisted as full monitors,
   chain-sync persists, `cleanup_stale_updates` calls), and EVERY fault schedule `sc : Sched`
   (`ok i`/`eff i` arbitrary functions of the op sequence number): this contains every crash prefix
   (`crashSched c ..`: nothing at or after op `c` has an effect), every subset of lazy deletes having
   happened, any number of failing ops, failing ops that did or did not reach the disk. -/
import LdkModel.Proofs.MonPersister
namespace Ldk.C19
open Ldk Ldk.Kv Ldk.MonP Ldk.Persist

/-! ## 1. the sequential store semantics is a finite map -/

/-- `store_is_map`: after ANY history `hist` of write/read/remove/list operations (valid or invalid
    keys) on the empty store,
    (1) every key holds exactly the value of the last completed write that no completed remove
        followed (`lastWrite` is a specification over the history, it does not mention the store):
        read-after-write, last write wins, remove, and no interference between different keys;
    (2) `list` returns exactly the keys whose last completed operation is a write, each once;
    (3) the answer to a `read` is that value / NotFound / the validity error;
    (4) an operation on key `k'` leaves every other key `k` untouched; reads and lists and rejected
        operations change nothing. -/
theorem store_is_map {ν : Type} (hist : List (KvOp ν)) :
    (∀ k, (run [] hist).get k = lastWrite hist k) ∧
    (∀ p sn n, n ∈ (run [] hist).names p sn ↔ (lastWrite hist (p, sn, n)).isSome = true) ∧
    (∀ p sn, ((run [] hist).names p sn).Nodup) ∧
    (∀ k, (KvOp.apply (run [] hist) (.read k)).2 =
        match checkKey k with
        | .error e => .err e
        | .ok _ => match lastWrite hist k with
                   | some v => .value v
                   | none => .err .notFound) ∧
    (∀ op k, (match op with
              | .write k' _ => k' ≠ k ∨ validKey k' = false
              | .remove k' _ => k' ≠ k ∨ validKey k' = false
              | _ => True) →
        (run [] (hist ++ [op])).get k = (run [] hist).get k) := by
  refine ⟨get_run hist, ?_, ?_, ?_, ?_⟩
  · intro p sn n; rw [Store.mem_names_iff, get_run]
  · intro p sn; exact Store.nodup_names (run_wf hist [] List.nodup_nil) p sn
  · intro k
    simp only [KvOp.apply]
    cases checkKey k with
    | error e => rfl
    | ok u => simp only [get_run]; cases lastWrite hist k <;> rfl
  · intro op k h
    rw [run_append]
    show ((KvOp.apply (run [] hist) op).1).get k = _
    rw [get_apply]
    cases op with
    | write k' v =>
      simp only at h ⊢
      rcases h with h | h
      · simp [h]
      · simp [h]
    | remove k' lz =>
      simp only at h ⊢
      rcases h with h | h
      · simp [h]
      · simp [h]
    | read k' => rfl
    | list p sn => rfl

/-- non-vacuity: an overwrite, a rejected write (empty key), a remove and an unrelated key -/
example : let hist : List (KvOp Nat) := [.write ("n", "", "k") 1, .write ("n", "", "k") 2, .write ("n", "", "") 9,
                                         .write ("n", "s", "k") 3, .remove ("n", "s", "k") true]
    (run [] hist).get ("n", "", "k") = some 2 ∧ (run [] hist).get ("n", "s", "k") = none ∧
    lastWrite hist ("n", "", "k") = some 2 ∧ (run [] hist).names "n" "" = ["k"] := by decide

/-! ## 2. crash recovery of the monitor-updating persister -/

/-- `persister_recovers`. Start from a store `s0` (any contents in other namespaces; in this
    monitor's update namespace only stale numeric keys `≤ m0.id` — e.g. empty, or what an earlier life
    of the same monitor left behind), persist the new monitor `m0`, then run ANY history `evs` under
    ANY fault/crash schedule `sc`. If `persist_new_channel` was reported Completed, then reading the
    monitor back from the resulting store with a healthy store (`rsc` never fails) returns EXACTLY the
    in-memory monitor as it was after the first `n` applied updates (`snapAt`, a left fold of `apply`
    over the first `n` updates in order: none skipped, none applied twice, none out of order), for
    some `n` at least the number of updates reported Completed. Moreover the recovered store again
    satisfies the start condition (so the statement composes over restarts).

    Hypotheses: `hname`/`hid` are typing facts (the key is a valid MonitorName; update ids are u64);
    `hwf` is the representation invariant of the association list; `hfresh` is the initial condition. -/
theorem persister_recovers {St Upd : Type} (cfg : Cfg St Upd) (sc : Sched) (name : String)
    (s0 : Store (PVal St Upd)) (m0 : Mon St) (evs : List (Ev Upd))
    (hname : cfg.nameOk name = true) (hid : m0.id ≤ LEGACY_CLOSED_CHANNEL_UPDATE_ID) (hwf : s0.WF)
    (hfresh : ∀ nm, (s0.get (CHANNEL_MONITOR_UPDATE_PERSISTENCE_PRIMARY_NAMESPACE, name, nm)).isSome = true →
        ∃ id, nm = Nat.repr id ∧ id ≤ m0.id)
    (rsc : Sched) (hr : ∀ i, rsc.ok i = true) (w' : World St Upd)
    (hw' : w'.store = (runHistory cfg sc name s0 m0 evs).w.store)
    (hstarted : (runHistory cfg sc name s0 m0 evs).started = true) :
    ∃ n, (runHistory cfg sc name s0 m0 evs).completed ≤ n ∧ n ≤ (runHistory cfg sc name s0 m0 evs).applied.length ∧
      (readWithUpdates cfg rsc w' name).2 = .ok (snapAt cfg m0 (runHistory cfg sc name s0 m0 evs).applied n) ∧
      (∀ nm, (w'.store.get (CHANNEL_MONITOR_UPDATE_PERSISTENCE_PRIMARY_NAMESPACE, name, nm)).isSome = true →
        ∃ id, nm = Nat.repr id ∧ id ≤ (snapAt cfg m0 (runHistory cfg sc name s0 m0 evs).applied n).id) := by
  obtain ⟨pre, mid, post, happ, hst, hcomp, _⟩ := inv_runHistory cfg sc name s0 m0 evs hwf hid hfresh hstarted
  obtain ⟨sent, h1, h2, h3, h4, h5, _⟩ := hst
  rw [← hw'] at h1 h2 h3 h4
  have hsnap : snapAt cfg m0 (runHistory cfg sc name s0 m0 evs).applied (pre ++ mid).length = fold cfg (fold cfg m0 pre) mid := by
    rw [snapAt_eq, happ, List.take_left', fold_append]; rfl
  refine ⟨(pre ++ mid).length, hcomp, by rw [happ]; simp only [List.length_append]; omega, ?_, ?_⟩
  · rw [hsnap]
    exact recover_of_store cfg rsc hr w' name hname (fold cfg m0 pre) mid sent h1 h2 h3 h4 h5
  · intro nm hs
    obtain ⟨id, h6, h7⟩ := h3 nm hs
    refine ⟨id, h6, ?_⟩
    rw [hsnap, files_fold_id cfg h2]; exact h7

section NonVacuity
/-- a concrete model instance: state = the list of update payloads applied -/
def exCfg (n : Nat) : Cfg (List Nat) Nat := { maxPending := n, apply := fun st u => st ++ [u], nameOk := fun _ => true }
def exEvs : List (Ev Nat) := [.update 1 10 false, .update 2 20 false, .full, .update 3 30 false, .update 4 40 true,
  .cleanupStale true, .update 5 50 false, .update 6 60 false]

/-- crash after 7 store ops with `maximum_pending_updates = 3`, no lazy delete ever landing: the
    persister had reported 3 of the 4 applied updates; the store holds the monitor written at update
    3 and the stale files 1, 2 -/
example : let r := runHistory (exCfg 3) (crashSched 7 none false (fun _ => false)) "m" [] ⟨0, []⟩ exEvs
    r.started = true ∧ r.completed = 3 ∧ r.applied.length = 4 ∧ r.alive = false ∧
    r.w.store.keys = [("monitors", "", "m"), ("monitor_updates", "m", "2"), ("monitor_updates", "m", "1")] := by decide

/-- ... and every hypothesis of `persister_recovers` holds on that run (the theorem then yields a
    recovered monitor equal to the in-memory one after 3 or 4 updates) -/
example := persister_recovers (exCfg 3) (crashSched 7 none false (fun _ => false)) "m" [] ⟨0, []⟩ exEvs rfl
  (by decide) List.nodup_nil (by intro nm h; simp [Store.get] at h) okSched (fun _ => rfl) { store := _ } rfl (by decide)

/-- no crash, but the write of update 2 (store op 2) fails after reaching the disk: 1 reported, the
    node stops, the file of update 2 is there (recovery returns the monitor after 2 updates) -/
example : let r := runHistory (exCfg 10) (crashSched 100 (some 2) true (fun _ => true)) "m" [] ⟨0, []⟩ (exEvs.take 2)
    r.completed = 1 ∧ r.applied.length = 2 ∧ r.alive = false ∧
    r.w.store.names CHANNEL_MONITOR_UPDATE_PERSISTENCE_PRIMARY_NAMESPACE "m" = ["2", "1"] := by decide
end NonVacuity

/-! ## 3. clean-up never removes an update recovery still needs -/

/-- `cleanup_never_needed`: in the store-op sequence emitted by ANY history under ANY schedule
    (optionally followed by `archive_persisted_channel`), the store at every point is the replay of the
    effective ops emitted so far, and whenever a removal of an update key `monitor_updates/<nm>/<id>`
    is issued — by `cleanup_in_range`, by the legacy branch, by `cleanup_stale_updates`, lazily or not,
    for ANY monitor name `nm` in the store —, the full monitor stored for `nm` at that very point (the
    replay of the trace prefix, i.e. also at every crash point) has `update_id ≥ id`; recovery only
    loads ids strictly above the stored monitor's. -/
theorem cleanup_never_needed {St Upd : Type} (cfg : Cfg St Upd) (sc : Sched) (name : String)
    (s0 : Store (PVal St Upd)) (m0 : Mon St) (evs : List (Ev Upd)) (thenArchive : Bool) :
    let r := runHistory cfg sc name s0 m0 evs
    let w := if thenArchive then archive cfg sc r.w name else r.w
    w.store = replay s0 w.trace ∧
    ∀ pre e post, w.trace = pre ++ e :: post → ∀ nm id lz, e.op = .remove (updKey nm id) lz →
      ∃ sent k m, (replay s0 pre).get (monKey nm) = some (.mon sent k m) ∧ id ≤ m.id := by
  intro r w
  have hext : Ext { store := s0 } w := by
    have h1 := ext_runHistory cfg sc name s0 m0 evs
    show Ext _ (if thenArchive then archive cfg sc r.w name else r.w)
    cases thenArchive
    · exact h1
    · exact h1.trans (ext_archive cfg sc r.w name)
  obtain ⟨tr, ⟨ht, hs⟩, hsafe⟩ := hext
  simp only [List.nil_append] at ht
  refine ⟨by rw [hs, ht], ?_⟩
  intro pre e post hsplit nm id lz hop
  rw [ht] at hsplit
  rw [hsplit, traceSafe_append] at hsafe
  exact hsafe.2.1 nm id lz hop

/-- non-vacuity: the example run issues 8 removals of update keys (consolidations at 3 and 6, one
    `cleanup_stale_updates`), and `cleanup_never_needed` applies to it -/
example : let r := runHistory (exCfg 3) okSched "m" [] ⟨0, []⟩ exEvs
    (r.w.trace.filter (fun e => match e.op with | .remove _ _ => true | _ => false)).length = 8 := by decide
example := cleanup_never_needed (exCfg 3) okSched "m" [] ⟨0, []⟩ exEvs true

/-! ## 4. the window of pending updates -/

/-- `window_bound`: at every point of every history under every schedule (so: after each completed
    full-monitor write, and also at every crash point in between), once the monitor was persisted,
    the update files recovery will load — the keys with id above the stored full monitor's id — are
    at most `maximum_pending_updates - 1` (none when it is 0 or 1), whatever subset of lazy deletes
    has landed. (Keys at or below the stored id may linger: exactly those whose lazy delete has not
    landed yet, or that a chain-sync persist superseded before the next consolidation; they are
    never loaded — see `persister_recovers` — and `cleanup_stale_updates` removes them.) -/
theorem window_bound {St Upd : Type} (cfg : Cfg St Upd) (sc : Sched) (name : String)
    (s0 : Store (PVal St Upd)) (m0 : Mon St) (evs : List (Ev Upd))
    (hid : m0.id ≤ LEGACY_CLOSED_CHANNEL_UPDATE_ID) (hwf : s0.WF)
    (hfresh : ∀ nm, (s0.get (CHANNEL_MONITOR_UPDATE_PERSISTENCE_PRIMARY_NAMESPACE, name, nm)).isSome = true →
        ∃ id, nm = Nat.repr id ∧ id ≤ m0.id)
    (hstarted : (runHistory cfg sc name s0 m0 evs).started = true) :
    ∃ sent M ids, (runHistory cfg sc name s0 m0 evs).w.store.get (monKey name) = some (.mon sent name M) ∧
      idsToLoad ((runHistory cfg sc name s0 m0 evs).w.store.names CHANNEL_MONITOR_UPDATE_PERSISTENCE_PRIMARY_NAMESPACE name) M.id = some ids ∧
      ids.length ≤ cfg.maxPending - 1 := by
  obtain ⟨pre, mid, post, _, hst, _, _⟩ := inv_runHistory cfg sc name s0 m0 evs hwf hid hfresh hstarted
  obtain ⟨sent, h1, h2, h3, h4, _, h6⟩ := hst
  refine ⟨sent, fold cfg m0 pre, _, h1, idsToLoad_of_store _ name _ mid h2 h3 h4, ?_⟩
  rw [List.length_range']
  exact window_le h2 h6

/-- non-vacuity: with `maximum_pending_updates = 3`, after 8 updates (the 6th persisted as a full
    monitor) the store holds the files 7, 8 above the monitor at 6 — exactly 3 - 1 — and a stale 5 -/
example : let r := runHistory (exCfg 3) okSched "m" [] ⟨0, []⟩ (exEvs.take 7 ++ [.update 6 60 true, .update 7 70 false, .update 8 80 false])
    r.completed = 8 ∧ r.w.store.names CHANNEL_MONITOR_UPDATE_PERSISTENCE_PRIMARY_NAMESPACE "m" = ["8", "7", "5"] := by decide
example := window_bound (exCfg 3) okSched "m" [] ⟨0, []⟩ (exEvs.take 7 ++ [.update 6 60 true, .update 7 70 false, .update 8 80 false])
  (by decide) List.nodup_nil (by intro nm h; simp [Store.get] at h) (by decide)

end Ldk.C19
