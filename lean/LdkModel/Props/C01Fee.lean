/- C01 — fee updates: property theorems only (the definitions are regenerated from channel.rs by tools/gen_feeupd.py). -/
import LdkModel.Generated.FeeUpdate

namespace Ldk.C01Fee
open Ldk.FeeUpdate

/-- The two nodes of a channel see the SAME two reserves with the roles exchanged: what the funder knows as the reserve its
    counterparty selected (for the funder to keep) is what the fundee knows as the reserve it selected itself. -/
def Mirrored (funder fundee : Reserves) : Prop :=
  fundee.holder_selected_channel_reserve_satoshis = funder.counterparty_selected_channel_reserve_satoshis ∧
  fundee.counterparty_selected_channel_reserve_satoshis = funder.holder_selected_channel_reserve_satoshis

/-- "An `update_fee` the funder is willing to send is never refused by the peer for the reserve": for ALL reserve pairs
    (symmetric or not) and all balances, if the funder's own test passes on the balance IT computes (the more pessimistic
    one: unknown HTLCs and the concurrent-HTLC fee buffer included) and the fundee's statistics give the funder at least
    that balance, the fundee's `validate_update_fee` reserve test passes — so honest operation does not end in
    "Funding remote cannot afford proposed new fee". -/
theorem update_fee_reserve_accepted (funder fundee : Reserves) (hm : Mirrored funder fundee)
    (bal_sender bal_receiver : Nat) (hle : bal_sender ≤ bal_receiver)
    (hs : senderReserveOk funder bal_sender = true) :
    receiverReserveOk fundee bal_receiver = true := by
  unfold senderReserveOk at hs
  unfold receiverReserveOk
  simp only [Bool.not_eq_true', decide_eq_false_iff_not, Nat.not_lt, decide_eq_true_eq] at *
  rw [hm.1]; omega

/-- The sender's test is exactly "stays at or above the reserve the PEER demands" (not the one it demands of the peer). -/
theorem sender_test_is_peer_reserve (f : Reserves) (b : Nat) :
    senderReserveOk f b = true ↔ f.counterparty_selected_channel_reserve_satoshis * 1000 ≤ b := by
  unfold senderReserveOk; simp

/-! ### which HTLCs each side prices

`signed` = the HTLCs in the commitment the funder signs together with its update_fee (everything both know, plus the
funder's own announced adds); `held` = further adds the funder still holds back; `buffer` = CONCURRENT_INBOUND_HTLC_FEE_BUFFER;
`crossing` = adds of the FUNDEE that the funder has not seen yet (they cross the update_fee on the wire): they are not part
of the commitment being signed. -/

def senderCount (signed held buffer : Nat) : Nat := signed + (if senderIncludesUnknownHtlcs then held else 0) + buffer
def receiverCount (signed crossing : Nat) : Nat := signed + (if receiverIncludesUnknownHtlcs then crossing else 0)

/-- However many fundee adds cross the update_fee, the fundee prices no more HTLCs than the funder did (so, the commitment
    fee being monotone in the number of HTLCs, the funder's balance as the fundee computes it is at least the one the funder
    tested: the hypothesis `bal_sender ≤ bal_receiver` of `update_fee_reserve_accepted`), and exactly the signed ones. -/
theorem receiver_prices_only_the_signed_commitment (signed held buffer crossing : Nat) :
    receiverCount signed crossing = signed ∧ receiverCount signed crossing ≤ senderCount signed held buffer := by
  unfold receiverCount senderCount
  have hr : receiverIncludesUnknownHtlcs = false := by decide
  simp only [hr]
  constructor
  · simp
  · simp only [Bool.false_eq_true, if_false, Nat.add_zero]; omega

example : receiverCount 4 3 = 4 ∧ senderCount 4 1 2 = 7 := by decide

-- non-vacuity, with asymmetric reserves (the peer demands 10 %, we demand 1 % of a 1 000 000 sat channel)
example : Mirrored ⟨10000, 100000⟩ ⟨100000, 10000⟩ := ⟨rfl, rfl⟩
example : senderReserveOk ⟨10000, 100000⟩ 100000000 = true ∧ receiverReserveOk ⟨100000, 10000⟩ 100000000 = true := by decide
-- between the two reserves the funder must NOT send: 50 000 sat is above its own 1 % but below the peer's 10 %
example : senderReserveOk ⟨10000, 100000⟩ 50000000 = false ∧ receiverReserveOk ⟨100000, 10000⟩ 50000000 = false := by decide

end Ldk.C01Fee
