/- C01 — fee updates: property theorems only (the definitions are regenerated from channel.rs by tools/gen_feeupd.py). -/
import LdkModel.Generated.FeeUpdate
import LdkModel.Proofs.HoldingCell

namespace Ldk.C01Fee
open Ldk.FeeUpdate

/-- The two nodes of a channel see the SAME two reserves with the roles exchanged: what the funder knows as the reserve its
    counterparty selected (for the funder to keep) is what the fundee knows as the reserve it selected itself. -/
def Mirrored (funder fundee : Reserves) : Prop :=
  fundee.holder_selected_channel_reserve_satoshis = funder.counterparty_selected_channel_reserve_satoshis ∧
  fundee.counterparty_selected_channel_reserve_satoshis = funder.holder_selected_channel_reserve_satoshis

/-- "An `update_fee` the funder is willing to send is never refused by the peer for the reserve": for ALL reserve pairs
    (symmetric or not) and all balances, if the funder's own test passes on the balance IT computes (the more pessimistic
    one: unknown HTLCs and the concurrent-HTLC fee buffer included) and the fundee's statistics give the funder at least
    that balance, the fundee's `validate_update_fee` reserve test passes — so honest operation does not end in
    "Funding remote cannot afford proposed new fee". -/
theorem update_fee_reserve_accepted (funder fundee : Reserves) (hm : Mirrored funder fundee)
    (bal_sender bal_receiver : Nat) (hle : bal_sender ≤ bal_receiver)
    (hs : senderReserveOk funder bal_sender = true) :
    receiverReserveOk fundee bal_receiver = true := by
  unfold senderReserveOk at hs
  unfold receiverReserveOk
  simp only [Bool.not_eq_true', decide_eq_false_iff_not, Nat.not_lt, decide_eq_true_eq] at *
  rw [hm.1]; omega

/-- The sender's test is exactly "stays at or above the reserve the PEER demands" (not the one it demands of the peer). -/
theorem sender_test_is_peer_reserve (f : Reserves) (b : Nat) :
    senderReserveOk f b = true ↔ f.counterparty_selected_channel_reserve_satoshis * 1000 ≤ b := by
  unfold senderReserveOk; simp

/-! ### which HTLCs each side prices

`signed` = the HTLCs in the commitment the funder signs together with its update_fee (everything both know, plus the
funder's own announced adds); `held` = further adds the funder still holds back; `buffer` = CONCURRENT_INBOUND_HTLC_FEE_BUFFER;
`crossing` = adds of the FUNDEE that the funder has not seen yet (they cross the update_fee on the wire): they are not part
of the commitment being signed. -/

def senderCount (signed held buffer : Nat) : Nat := signed + (if senderIncludesUnknownHtlcs then held else 0) + buffer
def receiverCount (signed crossing : Nat) : Nat := signed + (if receiverIncludesUnknownHtlcs then crossing else 0)

/-- However many fundee adds cross the update_fee, the fundee prices no more HTLCs than the funder did (so, the commitment
    fee being monotone in the number of HTLCs, the funder's balance as the fundee computes it is at least the one the funder
    tested: the hypothesis `bal_sender ≤ bal_receiver` of `update_fee_reserve_accepted`), and exactly the signed ones. -/
theorem receiver_prices_only_the_signed_commitment (signed held buffer crossing : Nat) :
    receiverCount signed crossing = signed ∧ receiverCount signed crossing ≤ senderCount signed held buffer := by
  unfold receiverCount senderCount
  have hr : receiverIncludesUnknownHtlcs = false := by decide
  simp only [hr]
  constructor
  · simp
  · simp only [Bool.false_eq_true, if_false, Nat.add_zero]; omega

example : receiverCount 4 3 = 4 ∧ senderCount 4 1 2 = 7 := by decide

-- non-vacuity, with asymmetric reserves (the peer demands 10 %, we demand 1 % of a 1 000 000 sat channel)
example : Mirrored ⟨10000, 100000⟩ ⟨100000, 10000⟩ := ⟨rfl, rfl⟩
example : senderReserveOk ⟨10000, 100000⟩ 100000000 = true ∧ receiverReserveOk ⟨100000, 10000⟩ 100000000 = true := by decide
-- between the two reserves the funder must NOT send: 50 000 sat is above its own 1 % but below the peer's 10 %
example : senderReserveOk ⟨10000, 100000⟩ 50000000 = false ∧ receiverReserveOk ⟨100000, 10000⟩ 50000000 = false := by decide

/-! ### releasing the holding cell: which check sees what (seeded change C01-r4)

`free_holding_cell_htlcs` releases queued adds (`send_htlc`), queued removals and a queued fee update (`send_update_fee` →
`can_send_update_fee`) in ONE batch.  The order of these steps is TRANSLATED from the source (`holdingCellReleaseOrder`:
positions of the statements).  The two checks are blind to each other's pending effect — `send_htlc` sizes an add at the committed
`feerate_per_kw`, `can_send_update_fee` prices the HTLCs `get_next_commitment_htlcs` returns — so the order is what makes the batch
affordable for the peer (`validate_update_fee` prices exactly the signed commitment: `receiver_prices_only_the_signed_commitment`). -/

/-- For EVERY content of the holding cell: (1) the HTLC view `can_send_update_fee` prices when the queued fee update is released
    contains every add released in the same batch (so the view the peer's `validate_update_fee` prices is contained in the
    sender's); (2) no released add was sized by `send_htlc` while a fee update of ours was already pending; (3) nothing stays
    swapped out.  Moving the fee-update release before the HTLC loop (C01-r4) breaks (1) and (2). -/
theorem holding_cell_fee_sees_released_adds (announced cell : List Nat) (fee : Option Nat) :
    let s := ({ announced := announced, cell := cell, cellFee := fee } : HC).free
    (∀ v, s.feeView = some v → ∀ a ∈ s.batchAdds, a ∈ v) ∧ (∀ b ∈ s.addSawPendingFee, b = false) ∧
    s.taken = [] ∧ s.batchAdds = cell ∧ s.pendingFee = fee := by
  cases fee with
  | none => simp [HC.free, holdingCellReleaseOrder, HC.step, List.foldl]
  | some f =>
    simp only [HC.free, holdingCellReleaseOrder, HC.step, List.foldl, HC.view, List.nil_append]
    refine ⟨?_, ?_, by trivial, by trivial, by trivial⟩
    · intro v hv a ha
      injection hv with hv
      subst hv
      simp [ha]
    · intro b hb
      simp at hb
      exact hb.2

-- non-vacuity: two adds and a fee update queued behind one announced HTLC: the fee check prices all three
example : (({ announced := [7], cell := [3, 5], cellFee := some 2000 } : HC).free).feeView = some [7, 3, 5] ∧
    (({ announced := [7], cell := [3, 5], cellFee := some 2000 } : HC).free).batchAdds = [3, 5] ∧
    (({ announced := [7], cell := [3, 5], cellFee := some 2000 } : HC).free).addSawPendingFee = [false, false] := by decide
-- the order matters: fee update first (the seeded order) prices only the announced HTLC and the adds are sized under a pending fee
example : (([HoldStep.swapOut, .releaseFee, .releaseHtlcs, .buildCommitment].foldl HC.step
    ({ announced := [7], cell := [3, 5], cellFee := some 2000 } : HC)).feeView, ([HoldStep.swapOut, .releaseFee, .releaseHtlcs, .buildCommitment].foldl HC.step
    ({ announced := [7], cell := [3, 5], cellFee := some 2000 } : HC)).addSawPendingFee) = (some [7], [true, true]) := by decide
-- the KF-C01-2 repair is part of the generated order: adds are released before removals
example : holdingCellAddsBeforeRemovals = true := by decide

end Ldk.C01Fee
