/- C18 — payment requests round-trip and cannot be forged or altered: property theorems.
   Models: Prim/Bech32, Model/Bolt11, Model/Merkle, Model/OfferMeta (hand-written mirrors, tied to the
   Rust by the c18b11 / c18b12 differentials).  ECDSA / Schnorr and the `bech32` crate are trusted
   dependencies: nothing below is about them. -/
import LdkModel.Proofs.Bech32
namespace Ldk.C18
open Ldk.Prim.Bech32

/-- BOLT-11 checksum, any length: if a string verifies, every string that differs from it in exactly
    one 5-bit symbol — anywhere in the data part or in the checksum itself — fails to verify.
    (`pre`/`post` are arbitrary, so no length bound; the BCH design bound of 1023 symbols is not
    needed for a single error.) -/
theorem bech32_single_symbol_detected (hrp : List UInt8) (pre post : List U5) (a b : U5)
    (hab : a ≠ b) (h : verifyChecksum hrp (pre ++ a :: post) = true) :
    verifyChecksum hrp (pre ++ b :: post) = false := by
  unfold verifyChecksum at h ⊢
  simp only [Bool.and_eq_true, beq_iff_eq] at h
  obtain ⟨hvalid, hpm⟩ := h
  have hall : ∀ x ∈ pre ++ a :: post, x < 32 := by
    intro x hx
    have := List.all_eq_true.mp hvalid x hx
    simpa using this
  have hpre : ∀ x ∈ pre, x < 32 := fun x hx => hall x (by simp [hx])
  have ha : a < 32 := hall a (by simp)
  have hpost : ∀ x ∈ post, x < 32 := fun x hx => hall x (by simp [hx])
  by_cases hb : b < 32
  · -- valid symbol: the residues differ
    have hne : polymod (hrpExpand hrp ++ (pre ++ b :: post)) ≠ 1 := by
      intro hpm'
      unfold polymod at hpm hpm'
      rw [List.foldl_append, List.foldl_append, List.foldl_cons] at hpm hpm'
      have hs : (List.foldl polymodStep (List.foldl polymodStep 1 (hrpExpand hrp)) pre).toNat < 2 ^ 30 := by
        apply foldl_lt _ hpre
        apply foldl_lt _ (hrpExpand_valid hrp)
        decide
      have := foldl_inj post hpost _ _ (step_lt _ a ha) (step_lt _ b hb) (hpm.trans hpm'.symm)
      exact hab (step_inj_sym ha hb this)
    simp [hne]
  · -- not a symbol at all
    have : validSyms (pre ++ b :: post) = false := by
      unfold validSyms
      rw [List.all_eq_false]
      exact ⟨b, by simp, by simpa using hb⟩
    simp [this]

/-- non-vacuity: BIP-173's `a12uel5l` verifies, and changing its last symbol does not -/
example : verifyChecksum [0x61] [10, 28, 25, 31, 20, 31] = true := by decide
example : verifyChecksum [0x61] [10, 28, 25, 31, 20, 30] = false :=
  bech32_single_symbol_detected [0x61] [10, 28, 25, 31, 20] [] 31 30 (by decide) (by decide)

end Ldk.C18
