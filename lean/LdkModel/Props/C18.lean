/- C18 — payment requests round-trip and cannot be forged or altered: property theorems.
   Models: Prim/Bech32, Model/Bolt11, Model/Merkle, Model/OfferMeta (hand-written mirrors, tied to the
   Rust by the c18b11 / c18b12 differentials).  ECDSA / Schnorr and the `bech32` crate are trusted
   dependencies: nothing below is about them. -/
import LdkModel.Proofs.Bech32
import LdkModel.Generated.C18Consts
import LdkModel.Proofs.Merkle
import LdkModel.Proofs.Bolt11
import LdkModel.Proofs.Bolt11Bounds
import LdkModel.Proofs.Bits
import LdkModel.Proofs.OfferMeta
import LdkModel.Model.OfferMirror
import LdkModel.Proofs.OfferMirror
import LdkModel.Proofs.OfferReaders
namespace Ldk.C18
open Ldk.Prim.Bech32

/-- BOLT-11 checksum, any length: if a string verifies, every string that differs from it in exactly
    one 5-bit symbol — anywhere in the data part or in the checksum itself — fails to verify.
    (`pre`/`post` are arbitrary, so no length bound; the BCH design bound of 1023 symbols is not
    needed for a single error.) -/
theorem bech32_single_symbol_detected (hrp : List UInt8) (pre post : List U5) (a b : U5)
    (hab : a ≠ b) (h : verifyChecksum hrp (pre ++ a :: post) = true) :
    verifyChecksum hrp (pre ++ b :: post) = false := by
  unfold verifyChecksum at h ⊢
  simp only [Bool.and_eq_true, beq_iff_eq] at h
  obtain ⟨hvalid, hpm⟩ := h
  have hall : ∀ x ∈ pre ++ a :: post, x < 32 := by
    intro x hx
    have := List.all_eq_true.mp hvalid x hx
    simpa using this
  have hpre : ∀ x ∈ pre, x < 32 := fun x hx => hall x (by simp [hx])
  have ha : a < 32 := hall a (by simp)
  have hpost : ∀ x ∈ post, x < 32 := fun x hx => hall x (by simp [hx])
  by_cases hb : b < 32
  · -- valid symbol: the residues differ
    have hne : polymod (hrpExpand hrp ++ (pre ++ b :: post)) ≠ 1 := by
      intro hpm'
      rw [← List.append_assoc] at hpm hpm'
      refine polymod_single_change (hrpExpand hrp ++ pre) post a b ?_ hpost ha hb hab (hpm.trans hpm'.symm)
      intro x hx
      rcases List.mem_append.mp hx with h | h
      · exact hrpExpand_valid hrp x h
      · exact hpre x h
    simp [hne]
  · -- not a symbol at all
    have : validSyms (pre ++ b :: post) = false := by
      unfold validSyms
      rw [List.all_eq_false]
      exact ⟨b, by simp, by simpa using hb⟩
    simp [this]

/-- non-vacuity: BIP-173's `a12uel5l` verifies, and changing its last symbol does not -/
example : verifyChecksum [0x61] [10, 28, 25, 31, 20, 31] = true := by decide
example : verifyChecksum [0x61] [10, 28, 25, 31, 20, 30] = false :=
  bech32_single_symbol_detected [0x61] [10, 28, 25, 31, 20] [] 31 30 (by decide) (by decide)

/-- Human-readable part, partial: a changed HRP character that keeps its upper three bits (digit ↔
    digit — every amount digit change —, lower-case letter ↔ lower-case letter — `m/u/n/p` swaps,
    `bc`/`tb` confusions) alters exactly one symbol of the expanded HRP and is detected at any length.
    MISSING for the general statement: a character change that also alters the upper three bits
    (letter ↔ digit) changes TWO checksum symbols; that case is covered by the c18b11 differential
    (every single-character mutant is rejected by the real parser and the model), not by a theorem. -/
theorem bech32_hrp_char_partial (hpre hpost : List UInt8) (c c' : UInt8) (data : List U5)
    (hhigh : c >>> 5 = c' >>> 5) (hne : c ≠ c')
    (h : verifyChecksum (hpre ++ c :: hpost) data = true) :
    verifyChecksum (hpre ++ c' :: hpost) data = false := by
  unfold verifyChecksum at h ⊢
  simp only [Bool.and_eq_true, beq_iff_eq] at h
  obtain ⟨hvalid, hpm⟩ := h
  have hdata : ∀ x ∈ data, x < 32 := by
    intro x hx
    have := List.all_eq_true.mp hvalid x hx
    simpa using this
  have hlow : c &&& 31 ≠ c' &&& 31 := fun e => hne (byte_split hhigh e)
  have e1 : ∀ z : UInt8, hrpExpand (hpre ++ z :: hpost) ++ data =
      (hpre.map (fun (x : UInt8) => x >>> 5) ++ (z >>> 5) :: hpost.map (fun (x : UInt8) => x >>> 5) ++ [0] ++
        hpre.map (fun (x : UInt8) => x &&& 31)) ++ (z &&& 31) :: (hpost.map (fun (x : UInt8) => x &&& 31) ++ data) := by
    intro z; simp [hrpExpand]
  have hne' : polymod (hrpExpand (hpre ++ c' :: hpost) ++ data) ≠ 1 := by
    intro hpm'
    rw [e1] at hpm hpm'
    rw [← hhigh] at hpm'
    have hv : ∀ z : UInt8, ∀ x ∈ hrpExpand (hpre ++ z :: hpost), x < 32 := fun z => hrpExpand_valid _
    refine polymod_single_change _ _ (c &&& 31) (c' &&& 31) ?_ ?_ ?_ ?_ hlow (hpm.trans hpm'.symm)
    · intro x hx
      apply hv c x
      simp only [hrpExpand, List.map_append, List.map_cons, List.mem_append, List.mem_cons] at hx ⊢
      simp only [List.mem_singleton, List.not_mem_nil, or_false] at hx ⊢
      rcases hx with ((h | h | h) | h) | h
      · exact Or.inl (Or.inl (Or.inl h))
      · exact Or.inl (Or.inl (Or.inr (Or.inl h)))
      · exact Or.inl (Or.inl (Or.inr (Or.inr h)))
      · exact Or.inl (Or.inr h)
      · exact Or.inr (Or.inl h)
    · intro x hx
      rcases List.mem_append.mp hx with h | h
      · apply hv c x
        simp only [hrpExpand, List.map_append, List.map_cons, List.mem_append, List.mem_cons]
        exact Or.inr (Or.inr (Or.inr h))
      · exact hdata x h
    · exact hv c _ (by simp [hrpExpand])
    · exact hv c' _ (by simp [hrpExpand])
  simp [hne']

/-- non-vacuity: `a12uel5l` verifies; `b12uel5l` (same upper bits, one letter changed) does not -/
example : verifyChecksum [0x62] [10, 28, 25, 31, 20, 31] = false :=
  bech32_hrp_char_partial [] [] 0x61 0x62 _ (by decide) (by decide) (by decide)

/-! ## BOLT-11: data part -/
section bolt11
open Ldk.Bolt11

/-- Amount ↔ human-readable part, for every currency and every amount the builder accepts
    (`amount_msat * 10` fits u64) and for "no amount": the HRP text the builder produces (biggest SI
    prefix m/u/n/p that divides the pico-BTC amount) parses back to the same `RawHrp`, reads back as
    exactly `amount_msat`, and passes the whole-millisatoshi rule (`p` amounts end in 0). -/
theorem amount_hrp_roundtrip (cur : Currency) (msat : Option Nat) (h : RawHrp)
    (hb : hrpOfAmount cur msat = some h) :
    parseHrp h.toChars = .ok h ∧ h.amountMsat = msat ∧ h.amountOk = true := by
  cases msat with
  | none =>
    simp only [hrpOfAmount, Option.some.injEq] at hb
    subst hb
    exact ⟨parseHrp_toChars_none cur, rfl, rfl⟩
  | some m =>
    simp only [hrpOfAmount] at hb
    split at hb
    · simp at hb
    · rename_i hmax
      simp only [Option.some.injEq] at hb
      subst hb
      -- the chosen prefix divides the pico amount
      have key : ∀ p : SiPrefix, (m * 10) % p.multiplier = 0 →
          parseHrp (RawHrp.toChars ⟨cur, some (m * 10 / p.multiplier), some p⟩)
            = .ok ⟨cur, some (m * 10 / p.multiplier), some p⟩ ∧
          RawHrp.amountMsat ⟨cur, some (m * 10 / p.multiplier), some p⟩ = some m ∧
          RawHrp.amountOk ⟨cur, some (m * 10 / p.multiplier), some p⟩ = true := by
        intro p hp
        have hpos : 0 < p.multiplier := by cases p <;> decide
        have hmul : m * 10 / p.multiplier * p.multiplier = m * 10 := Nat.div_mul_cancel (Nat.dvd_of_mod_eq_zero hp)
        have hle : m * 10 / p.multiplier ≤ m * 10 := Nat.div_le_self _ _
        have hmax' : m * 10 ≤ u64Max := by omega
        refine ⟨parseHrp_toChars_some cur _ p (by omega) (by rw [hmul]; exact hmax'), ?_, ?_⟩
        · simp only [RawHrp.amountMsat, RawHrp.amountPico, hmul]
          have : ¬ m * 10 > u64Max := by omega
          simp [this]
        · simp only [RawHrp.amountOk, RawHrp.amountPico, hmul]
          have : ¬ m * 10 > u64Max := by omega
          simp [this]
      by_cases h1 : m * 10 % 1000000000 = 0
      · simpa [h1] using key .milli (by simpa [SiPrefix.multiplier] using h1)
      · by_cases h2 : m * 10 % 1000000 = 0
        · simpa [h1, h2] using key .micro (by simpa [SiPrefix.multiplier] using h2)
        · by_cases h3 : m * 10 % 1000 = 0
          · simpa [h1, h2, h3] using key .nano (by simpa [SiPrefix.multiplier] using h3)
          · simpa [h1, h2, h3] using key .pico (by simp [SiPrefix.multiplier, Nat.mod_one])

/-- non-vacuity: 250 000 msat is `2500n` (not `2500000p`), the largest accepted amount is a `p` amount -/
example : (hrpOfAmount .bitcoin (some 250000)).map RawHrp.toChars = some "lnbc2500n".toList := by decide
example : (hrpOfAmount .signet (some 1844674407370955161)).map RawHrp.toChars
    = some "lntbs18446744073709551610p".toList := by decide
example : hrpOfAmount .bitcoin (some 1844674407370955162) = none := by decide
/-- the rule the parser enforces on hand-written HRPs: a pico amount not ending in 0 is rejected -/
example : (parseHrp "lnbc2501p".toList).map RawHrp.amountOk = .ok false := rfl

/-- Tagged-field framing round trip: for a 35-bit timestamp and fields whose payloads fit the 10-bit
    length (what `write_tagged_field` asserts), parsing the serialised data part gives back exactly
    the timestamp and the (tag, payload) list — no field is merged, split, dropped or reordered. -/
theorem bolt11_data_roundtrip (ts : Nat) (fs : List (U5 × List U5)) (hts : ts < 2 ^ 35)
    (hw : ∀ f ∈ fs, f.2.length < 1024) : parseData (serializeData ts fs) = .ok (ts, fs) := by
  unfold parseData serializeData
  have h7 := encodeTimestamp_length ts hts
  have hlen : ¬ (encodeTimestamp ts ++ encodeFields fs).length < 7 := by simp [h7]
  simp only [hlen, ↓reduceIte, List.drop_left' h7, List.take_left' h7]
  rw [splitTagged_encodeFields fs _ hw (by simp)]
  simp [parseIntBe_encodeTimestamp]

/-- 8 → 5 → 8 bit regrouping is the identity: a byte payload (payment hash, description, public key,
    route hint, …) written as symbols with the zero padding rule reads back as the same bytes. -/
theorem fes_bytes_roundtrip (b : List UInt8) : fesToBytes (bytesToFes b) = b :=
  fesToBytes_bytesToFes b

example : fesToBytes (bytesToFes [0xff, 0x01, 0x7a]) = [0xff, 0x01, 0x7a] := fes_bytes_roundtrip _

/-- What the signature covers: the signed preimage is `hrp ‖ bytes(data without signature)`, and for
    a fixed HRP length and a fixed number of data symbols it determines the HRP and EVERY data symbol
    (timestamp, every tag, length and payload symbol) — so a substituted symbol or HRP character with
    a recomputed checksum changes the signed hash unless SHA-256 collides, which leaves exactly the
    three outcomes of the property (parse/semantic error, another recovered key, or — when the parsed
    content re-serialises to the same symbols — identical signed content).  The converse direction
    (same HRP and data ⇒ same preimage) is `rfl`.  Both length hypotheses are needed, see below. -/
theorem bolt11_sig_covers (h h' : Bytes) (d d' : List U5) (hl : h.length = h'.length)
    (dl : d.length = d'.length) (hv : ∀ x ∈ d, x < 32) (hv' : ∀ x ∈ d', x < 32) :
    signedPreimage h d = signedPreimage h' d' ↔ h = h' ∧ d = d' := by
  constructor
  · intro he
    unfold signedPreimage at he
    rw [← dl] at he
    obtain ⟨e1, e2⟩ := List.append_inj he hl
    refine ⟨e1, ?_⟩
    -- the padded symbol lists have equal byte images, hence equal bits up to the byte boundary
    have key : ∀ (z : List U5), z.length = (if d.length * 5 % 8 = 0 then 0 else if d.length * 5 % 8 < 3 then 2 else 1) →
        (∀ e : List U5, e.length = d.length →
          ((fesToBytes (e ++ z)).flatMap (fun x => bitsOf 8 x.toNat)).take (5 * d.length)
            = e.flatMap (fun x => bitsOf 5 x.toNat)) := by
      intro z hz e hel
      rw [bits_of_fesToBytes, List.flatMap_append, List.take_take]
      have l1 := flatMap_bits_length 5 e
      have l2 := flatMap_bits_length 5 z
      have hle : 5 * d.length ≤ (List.flatMap (fun x => bitsOf 5 x.toNat) e ++ List.flatMap (fun x => bitsOf 5 x.toNat) z).length / 8 * 8 := by
        rw [List.length_append, l1, l2, hz, hel]
        have hdm := Nat.div_add_mod (d.length * 5) 8
        by_cases c0 : d.length * 5 % 8 = 0
        · simp only [c0, ↓reduceIte]; omega
        · by_cases c3 : d.length * 5 % 8 < 3
          · simp only [c0, c3, ↓reduceIte]
            have : d.length * 5 / 8 + 1 ≤ (5 * d.length + 5 * 2) / 8 :=
              (Nat.le_div_iff_mul_le (by decide)).mpr (by omega)
            have := Nat.mul_le_mul_right 8 this
            omega
          · simp only [c0, c3, ↓reduceIte]
            have : d.length * 5 / 8 + 1 ≤ (5 * d.length + 5 * 1) / 8 :=
              (Nat.le_div_iff_mul_le (by decide)).mpr (by omega)
            have := Nat.mul_le_mul_right 8 this
            omega
      have := Nat.min_eq_left hle
      rw [this, List.take_left' (by rw [l1, hel])]
    have pad : ∀ e : List U5, e.length = d.length →
        (if e.length * 5 % 8 = 0 then e else if e.length * 5 % 8 < 3 then e ++ [0, 0] else e ++ [0])
          = e ++ (if d.length * 5 % 8 = 0 then [] else if d.length * 5 % 8 < 3 then [0, 0] else [0]) := by
      intro e hel
      rw [hel]
      split
      · simp
      · split <;> rfl
    have pd := pad d rfl
    have pd' := pad d' dl.symm
    rw [← dl] at pd'
    rw [pd, pd'] at e2
    have hz : (if d.length * 5 % 8 = 0 then ([] : List U5) else if d.length * 5 % 8 < 3 then [0, 0] else [0]).length
        = (if d.length * 5 % 8 = 0 then 0 else if d.length * 5 % 8 < 3 then 2 else 1) := by
      split
      · rfl
      · split <;> rfl
    have k1 := key _ hz d rfl
    have k2 := key _ hz d' dl.symm
    rw [e2] at k1
    exact flatMap_bits5_inj d d' hv hv' dl (k1.symm.trans k2)
  · rintro ⟨rfl, rfl⟩; rfl

/-- Across lengths the preimage is NOT injective (a property of the BOLT-11 format, not of LDK): the
    HRP is concatenated with the data bytes without a separator, so `lnbc1` + data and `lnbc` + data'
    with data' = 0x31-prefixed data collide; and a trailing all-zero symbol can vanish in the padding.
    Both mutants change the number of symbols, which the tagged-field framing then has to reject. -/
example : signedPreimage [108, 110, 98, 99] [6, 4] = signedPreimage [108, 110, 98, 99, 49] [0] := by decide
example : signedPreimage [] [1, 2] = signedPreimage [] [1, 2, 0] := by decide

/-- The parser the driver runs (`parseTagged`, which interprets each field before looking at the
    next, like de.rs) agrees with framing-then-interpretation whenever it succeeds. -/
theorem parseTagged_eq_split_interp (fuel : Nat) (d : List U5) (fs : List Field)
    (h : parseTagged fuel d = .ok fs) :
    ∃ raw, splitTagged fuel d = .ok raw ∧ interpFields raw = .ok fs :=
  parseTagged_ok fuel d fs h

/-- non-vacuity: a `p` field of 52 symbols and an empty `d` field after timestamp 1 -/
example : parseData (serializeData 1 [(1, List.replicate 52 3), (13, [])])
    = .ok (1, [(1, List.replicate 52 3), (13, [])]) :=
  bolt11_data_roundtrip 1 _ (by decide) (by decide)

/-- An invoice accepted by `Bolt11Invoice::from_signed` has exactly one payment hash, one description
    (or description hash), one payment secret, a positive signature verdict and an amount that is a
    whole number of millisatoshi. -/
theorem from_signed_ok_fields (v : Bool) (i : SignedRaw) (h : fromSigned v i = .ok ()) :
    countKnown i.fields [tagPaymentHash] = 1 ∧ countKnown i.fields [tagDescription, tagDescriptionHash] = 1 ∧
      countKnown i.fields [tagPaymentSecret] = 1 ∧
      v = true ∧ i.hrp.amountOk = true := by
  unfold fromSigned at h
  by_cases a1 : countKnown i.fields [tagPaymentHash] < 1
  · simp [a1] at h
  by_cases a2 : countKnown i.fields [tagPaymentHash] > 1
  · simp [a1, a2] at h
  by_cases a3 : countKnown i.fields [tagDescription, tagDescriptionHash] < 1
  · simp [a1, a2, a3] at h
  by_cases a4 : countKnown i.fields [tagDescription, tagDescriptionHash] > 1
  · simp [a1, a2, a3, a4] at h
  simp only [a1, a2, a3, a4, ↓reduceIte, checkPaymentSecret] at h
  by_cases a5 : countKnown i.fields [tagPaymentSecret] < 1
  · simp [a5] at h
  by_cases a6 : countKnown i.fields [tagPaymentSecret] > 1
  · simp [a5, a6] at h
  simp only [a5, a6, ↓reduceIte] at h
  split at h
  · simp at h
  · cases v
    · exfalso
      revert h
      simp only [Bool.not_false, ↓reduceIte]
      split
      · simp
      · split <;> simp
    · cases hA : i.hrp.amountOk
      · exfalso
        revert h
        simp only [hA, Bool.not_false, Bool.not_true, ↓reduceIte]
        split
        · simp
        · split <;> simp
      · exact ⟨by omega, by omega, by omega, rfl, rfl⟩

/-- Acceptance needs the signature check to pass, whatever the fields are.  Together with
    `bolt11_sig_covers` this is the model-level content of "cannot be altered and keep the holder's
    name": the verdict is about the hash of HRP + all data symbols (ECDSA itself is trusted). -/
theorem from_signed_requires_signature (i : SignedRaw) : fromSigned false i ≠ .ok () := by
  intro h
  have := (from_signed_ok_fields false i h).2.2.2.1
  simp at this

/-- non-vacuity: a minimal well-formed field set is accepted when the signature verdict is positive -/
def sampleAccepted : SignedRaw :=
  { hrp := ⟨.bitcoin, some 10, some .pico⟩, timestamp := 0,
    fields := [⟨1, true, []⟩, ⟨13, true, []⟩, ⟨16, true, []⟩, ⟨5, true, [16, 0, 0]⟩], sig := [] }
example : fromSigned true sampleAccepted = .ok () := rfl

end bolt11

/-! ## BOLT-12: merkle root binding -/
section merkle
open Ldk.Merkle

/-- Binding of the BOLT-12 merkle root: two TLV streams with strictly ascending types (what every
    offers parser enforces) and equal roots have the same non-signature records — same type bytes,
    same record bytes, same order — provided the tagged hash has no collision among the queries the
    two root computations actually make.  (Signature records 240..=1000 are not covered by the root:
    that is what is signed.) -/
theorem merkle_binding (H : Tag → Bytes → Bytes) (rs₁ rs₂ : List Rec)
    (hcf : CollisionFreeOn H (queriesOf H rs₁ ++ queriesOf H rs₂))
    (h₁ : rs₁.Pairwise (fun a b => a.ty < b.ty)) (h₂ : rs₂.Pairwise (fun a b => a.ty < b.ty))
    (he : rootHash H rs₁ = rootHash H rs₂) : nonSig rs₁ = nonSig rs₂ := by
  by_cases e₁ : nonSig rs₁ = [] <;> by_cases e₂ : nonSig rs₂ = []
  · rw [e₁, e₂]
  · have := rootHash_length H hcf.len rs₂ e₂
    rw [← he, rootHash_nil_of_nonSig_nil H rs₁ e₁] at this
    simp at this
  · have := rootHash_length H hcf.len rs₁ e₁
    rw [he, rootHash_nil_of_nonSig_nil H rs₂ e₂] at this
    simp at this
  · match rs₁, rs₂, e₁, e₂ with
    | f₁ :: r₁, f₂ :: r₂, e₁, e₂ =>
      obtain ⟨t₁, ht₁, hl₁, hh₁⟩ := rootHash_tree H _ f₁ r₁ rfl e₁
      obtain ⟨t₂, ht₂, hl₂, hh₂⟩ := rootHash_tree H _ f₂ r₂ rfl e₂
      have hq : queriesOf H (f₁ :: r₁) ++ queriesOf H (f₂ :: r₂)
          = t₁.queries H f₁.recordBytes ++ t₂.queries H f₂.recordBytes := by
        simp only [queriesOf, ht₁, ht₂]
      rw [hq] at hcf
      have hp := T.leaves_perm_of_hash_eq H _ _ t₁ t₂ hcf (by rw [← hh₁, ← hh₂]; exact he)
      rw [hl₁, hl₂] at hp
      refine List.Perm.eq_of_pairwise ?_ (List.Pairwise.filter _ h₁) (List.Pairwise.filter _ h₂) hp
      intro a b _ _ hab hba
      exact absurd hab (Nat.lt_asymm hba)

/-- the same under the textbook idealisation "H is injective with 32-byte outputs" (kept because
    the design names it; `CollisionFree` is unsatisfiable by counting, `merkle_binding` is the
    meaningful statement) -/
theorem merkle_binding_ideal (H : Tag → Bytes → Bytes) (hH : CollisionFree H) (rs₁ rs₂ : List Rec)
    (h₁ : rs₁.Pairwise (fun a b => a.ty < b.ty)) (h₂ : rs₂.Pairwise (fun a b => a.ty < b.ty))
    (he : rootHash H rs₁ = rootHash H rs₂) : nonSig rs₁ = nonSig rs₂ :=
  merkle_binding H rs₁ rs₂ (hH.on _) h₁ h₂ he

/-- Converse (what the signature does NOT cover): the root depends on the stream only through its
    first record and its non-signature records.  Holds for EVERY record list — invoice requests,
    invoices, static invoices all sign `TaggedHash::from_valid_tlv_stream_bytes` of their whole byte
    string, i.e. this one `root_hash`; every such message starts with a record below 240. -/
theorem merkle_root_ignores_signature_records (H : Tag → Bytes → Bytes) (rs₁ rs₂ : List Rec)
    (hf₁ : ∀ r ∈ rs₁.head?, isSig r = false) (hf₂ : ∀ r ∈ rs₂.head?, isSig r = false)
    (hn : nonSig rs₁ = nonSig rs₂) : rootHash H rs₁ = rootHash H rs₂ := by
  match rs₁, rs₂, hf₁, hf₂, hn with
  | [], [], _, _, _ => rfl
  | [], f₂ :: r₂, _, hf₂, hn =>
    have h2 : isSig f₂ = false := hf₂ f₂ (by simp)
    simp [nonSig, List.filter_cons, h2] at hn
  | f₁ :: r₁, [], hf₁, _, hn =>
    have h1 : isSig f₁ = false := hf₁ f₁ (by simp)
    simp [nonSig, List.filter_cons, h1] at hn
  | f₁ :: r₁, f₂ :: r₂, hf₁, hf₂, hn =>
    have h1 : isSig f₁ = false := hf₁ f₁ (by simp)
    have h2 : isSig f₂ = false := hf₂ f₂ (by simp)
    have hff : f₁ = f₂ := by
      have := hn
      simp only [nonSig, List.filter_cons, h1, h2, Bool.not_false, ↓reduceIte, List.cons.injEq] at this
      exact this.1
    subst hff
    simp only [rootHash, hn]

/-- Signature coverage, both directions, for ALL record sets: on ascending streams that start with a
    non-signature record, two streams have the same merkle root (hence the same signed digest) IF AND
    ONLY IF they have the same non-signature records — the root covers exactly those.  (⇒ needs the
    tagged hash to be collision free on the queries made, as in `merkle_binding`.) -/
theorem signature_covers_exactly_non_signature_records (H : Tag → Bytes → Bytes) (rs₁ rs₂ : List Rec)
    (hcf : CollisionFreeOn H (queriesOf H rs₁ ++ queriesOf H rs₂))
    (h₁ : rs₁.Pairwise (fun a b => a.ty < b.ty)) (h₂ : rs₂.Pairwise (fun a b => a.ty < b.ty))
    (hf₁ : ∀ r ∈ rs₁.head?, isSig r = false) (hf₂ : ∀ r ∈ rs₂.head?, isSig r = false) :
    rootHash H rs₁ = rootHash H rs₂ ↔ nonSig rs₁ = nonSig rs₂ :=
  ⟨merkle_binding H rs₁ rs₂ hcf h₁ h₂, merkle_root_ignores_signature_records H rs₁ rs₂ hf₁ hf₂⟩

/-- non-vacuity: a signature record (type 240) appended or changed leaves the root alone -/
example (H : Tag → Bytes → Bytes) : rootHash H [⟨[1], [1, 1, 7]⟩, ⟨[240], [240, 1, 5]⟩] = rootHash H [⟨[1], [1, 1, 7]⟩, ⟨[240], [240, 1, 6]⟩] :=
  merkle_root_ignores_signature_records H _ _ (by decide) (by decide) (by decide)

/-- The list formulation the binding theorem is about IS the in-place loop of `root_hash`
    (`leaves[i] = branch(leaves[i], leaves[i + offset])` for `i = 0, step, 2·step, …`, level after
    level, result in slot 0) — for every record list and every tagged hash. -/
theorem merkle_in_place_eq (H : Tag → Bytes → Bytes) (rs : List Rec) :
    rootHashInPlace H rs = rootHash H rs :=
  rootHashInPlace_eq H rs

/-- non-vacuity: a toy 32-byte tagged hash (tag byte, then the byte sum repeated) is collision free
    on the queries of two different one-record streams, so the theorem separates their roots -/
def toyH : Tag → Bytes → Bytes
  | .leaf, m => 0 :: List.replicate 31 (m.foldl (· + ·) 0)
  | .nonce f, m => 1 :: List.replicate 31 (m.foldl (· + ·) (f.foldl (· + ·) 0))
  | .branch, m => 2 :: List.replicate 31 (m.foldl (· + ·) 0)

def toyRec (v : UInt8) : Rec := ⟨[1], [1, 1, v]⟩

set_option maxRecDepth 8000 in
theorem merkle_binding_hypothesis_satisfiable : CollisionFreeOn toyH (queriesOf toyH [toyRec 7] ++ queriesOf toyH [toyRec 9]) :=
  ⟨by decide, by intro t m; cases t <;> simp [toyH]⟩

example : rootHash toyH [toyRec 7] ≠ rootHash toyH [toyRec 9] := fun he =>
  absurd (merkle_binding toyH [toyRec 7] [toyRec 9] merkle_binding_hypothesis_satisfiable (by simp) (by simp) he) (by decide)

end merkle

/-! ## BOLT-12: stateless metadata -/
section metadata
open Ldk.OfferMeta

variable (mac : Bytes → Bytes → Bytes) (pubOf : Bytes → Bytes)

/-- Recipient metadata (an offer's `metadata`) verifies without key derivation exactly when it IS
    the metadata derived from this key, this IV, its own 16-byte nonce and these TLV records. -/
theorem metadata_verify_iff (hlen : ∀ k m, (mac k m).length = 32) (key iv pk tlvs md : Bytes) :
    verifyRecipient mac pubOf key iv pk tlvs md = .okNoKeys ↔
      ∃ nonce, nonce.length = 16 ∧ md = deriveMetadata mac key iv nonce none tlvs := by
  unfold verifyRecipient
  by_cases hl : md.length < 16
  · have : verifyHmac mac key iv md none tlvs = none := by simp [verifyHmac, NONCE_LEN, hl]
    simp only [this]
    constructor
    · intro h; simp at h
    · rintro ⟨nonce, hn, rfl⟩
      simp only [deriveMetadata, Option.getD_none, List.nil_append, List.length_append, hn] at hl
      omega
  · rw [verifyHmac_eq mac key iv md none tlvs hl]
    simp only [verifyTail_noKeys]
    constructor
    · rintro ⟨h48, hd⟩
      refine ⟨md.take 16, by simp; omega, ?_⟩
      have h16 : ¬ md.length = 16 := by omega
      simp only [h16, ↓reduceIte] at hd
      unfold deriveMetadata
      simp only [Option.getD_none, List.nil_append]
      rw [← hd, List.take_append_drop]
    · rintro ⟨nonce, hn, rfl⟩
      have hm := hlen key (iv ++ nonce ++ tlvs ++ DERIVED_METADATA_HMAC_INPUT ++ pidInput none)
      unfold deriveMetadata
      simp only [Option.getD_none, List.nil_append]
      have hlen' : (nonce ++ mac key (iv ++ nonce ++ tlvs ++ DERIVED_METADATA_HMAC_INPUT ++ pidInput none)).length = 48 := by
        rw [List.length_append, hn, hm]
      have h16 : ¬ (nonce ++ mac key (iv ++ nonce ++ tlvs ++ DERIVED_METADATA_HMAC_INPUT ++ pidInput none)).length = 16 := by omega
      refine ⟨hlen', ?_⟩
      simp only [h16, ↓reduceIte]
      rw [List.take_left' hn, List.drop_left' hn]

/-- WHICH representation of the two public keys `verify_metadata` compares.  `C18Meta.keysEq` is
    translated from the Rust text of signer.rs on every run (tools/gen_c18_meta.py): the comparison is
    equality of the FULL 33-byte compressed keys, parity byte included.  (Were the source to compare
    BIP-340 x-only keys, the generated definition would drop the first byte of both operands and this
    theorem — and with it `metadata_verify_keys_iff` — would no longer check.) -/
theorem metadata_key_comparison_is_full_key (a b : Bytes) : C18Meta.keysEq a b = true ↔ a = b :=
  keysEq_iff a b

example : C18Meta.keysEq (2 :: List.replicate 32 7) (2 :: List.replicate 32 7) = true := by decide
example : C18Meta.keysEq (2 :: List.replicate 32 7) (3 :: List.replicate 32 7) = false := by decide

/-- …and with key derivation (16-byte metadata = nonce only): the verdict carries the HMAC as the
    signing secret, accepted exactly when its public key IS the signing key of the message — as a
    full compressed key (the proof goes through the generated comparison, `verifyTail_keys` /
    `keysEq_iff`). -/
theorem metadata_verify_keys_iff (key iv pk tlvs md sk : Bytes) :
    verifyRecipient mac pubOf key iv pk tlvs md = .okKeys sk ↔
      md.length = 16 ∧ sk = (deriveMetadataAndKey mac key iv md none tlvs).2 ∧ pubOf sk = pk := by
  unfold verifyRecipient
  by_cases hl : md.length < 16
  · have : verifyHmac mac key iv md none tlvs = none := by simp [verifyHmac, NONCE_LEN, hl]
    simp only [this]
    constructor
    · intro h; simp at h
    · rintro ⟨h16, _⟩; omega
  · rw [verifyHmac_eq mac key iv md none tlvs hl]
    simp only [verifyTail_keys, deriveMetadataAndKey, Option.getD_none, List.nil_append]
    constructor
    · rintro ⟨h16, rfl, hp⟩
      have ht : List.take 16 md = md := List.take_of_length_le (by omega)
      simp only [h16, ↓reduceIte, ht] at hp ⊢
      exact ⟨trivial, trivial, hp⟩
    · rintro ⟨h16, rfl, hp⟩
      have ht : List.take 16 md = md := List.take_of_length_le (by omega)
      simp only [h16, ↓reduceIte, ht]
      exact ⟨trivial, trivial, hp⟩

example : verifyRecipient (fun _ _ => List.replicate 32 7) (fun _ => 2 :: List.replicate 32 9) [] [] (2 :: List.replicate 32 9) []
    (List.replicate 16 1) = .okKeys (List.replicate 32 7) := by decide

/-- The alteration the issuer id / payer id is protected against ONLY by the key comparison (those
    records are excluded from the MAC input when the key is derived): the same message with the PARITY
    byte of its signing key flipped (0x02 <-> 0x03 — a different valid key, the negated point) is
    refused whenever the original verifies with derived keys. -/
theorem metadata_verify_refuses_parity_flip (key iv pk tlvs md sk : Bytes) (hpk : pk ≠ [])
    (h : verifyRecipient mac pubOf key iv pk tlvs md = .okKeys sk) :
    verifyRecipient mac pubOf key iv (SecpKey.PublicKey.flipParity pk) tlvs md = .err := by
  have hk := (metadata_verify_keys_iff mac pubOf key iv pk tlvs md sk).mp h
  have hne : SecpKey.PublicKey.flipParity pk ≠ pk := flipParity_ne pk hpk
  cases hv : verifyRecipient mac pubOf key iv (SecpKey.PublicKey.flipParity pk) tlvs md with
  | err => rfl
  | okNoKeys =>
    have := (verifyRecipient_noKeys_len mac pubOf key iv _ tlvs md).mp hv
    omega
  | okKeys sk' =>
    have hk' := (metadata_verify_keys_iff mac pubOf key iv _ tlvs md sk').mp hv
    obtain ⟨_, rfl, hp⟩ := hk
    obtain ⟨_, rfl, hp'⟩ := hk'
    exact absurd (hp'.symm.trans hp) hne

example : verifyRecipient (fun _ _ => List.replicate 32 7) (fun _ => 2 :: List.replicate 32 9) [] [] (3 :: List.replicate 32 9) []
    (List.replicate 16 1) = .err := by decide

/-- Payer side with key derivation (48-byte payer metadata = encrypted payment id ‖ nonce): accepted
    exactly when the public key of the HMAC IS the payer signing key, again as a full compressed key. -/
theorem payer_metadata_verify_keys_iff (key iv pk tlvs md sk : Bytes) :
    verifyPayer mac pubOf key iv pk tlvs md = .okKeys sk ↔
      md.length = 48 ∧ sk = (deriveMetadataAndKey mac key iv (md.drop 32) (some (md.take 32)) tlvs).2 ∧ pubOf sk = pk := by
  unfold verifyPayer
  simp only [PAYMENT_ID_LEN]
  by_cases hl32 : md.length < 32
  · simp only [hl32, ↓reduceIte]
    constructor
    · intro h; simp at h
    · rintro ⟨h, _⟩; omega
  · simp only [hl32, ↓reduceIte]
    by_cases hl : (md.drop 32).length < 16
    · have : verifyHmac mac key iv (md.drop 32) (some (md.take 32)) tlvs = none := by
        have hl' := hl
        simp only [List.length_drop] at hl'
        simp [verifyHmac, NONCE_LEN, hl']
      simp only [this]
      constructor
      · intro h; simp at h
      · rintro ⟨h, _⟩; simp only [List.length_drop] at hl; omega
    · rw [verifyHmac_eq mac key iv _ _ tlvs hl]
      simp only [verifyTail_keys, deriveMetadataAndKey, List.length_drop]
      constructor
      · rintro ⟨h16, rfl, hp⟩
        have ht : List.take 16 (md.drop 32) = md.drop 32 := List.take_of_length_le (by simp only [List.length_drop]; omega)
        simp only [h16, ↓reduceIte, ht] at hp ⊢
        exact ⟨by omega, trivial, hp⟩
      · rintro ⟨h48, rfl, hp⟩
        have h16 : md.length - 32 = 16 := by omega
        have ht : List.take 16 (md.drop 32) = md.drop 32 := List.take_of_length_le (by simp only [List.length_drop]; omega)
        simp only [h16, ↓reduceIte, ht]
        exact ⟨trivial, trivial, hp⟩

theorem payer_metadata_verify_refuses_parity_flip (key iv pk tlvs md sk : Bytes) (hpk : pk ≠ [])
    (h : verifyPayer mac pubOf key iv pk tlvs md = .okKeys sk) :
    verifyPayer mac pubOf key iv (SecpKey.PublicKey.flipParity pk) tlvs md ≠ .okKeys sk := by
  intro hv
  obtain ⟨_, _, hp⟩ := (payer_metadata_verify_keys_iff mac pubOf key iv pk tlvs md sk).mp h
  obtain ⟨_, _, hp'⟩ := (payer_metadata_verify_keys_iff mac pubOf key iv _ tlvs md sk).mp hv
  exact flipParity_ne pk hpk (hp'.symm.trans hp)

example : verifyPayer (fun _ _ => List.replicate 32 7) (fun _ => 2 :: List.replicate 32 9) [] [] (2 :: List.replicate 32 9) []
    (List.replicate 48 1) = .okKeys (List.replicate 32 7) := by decide
example : verifyPayer (fun _ _ => List.replicate 32 7) (fun _ => 2 :: List.replicate 32 9) [] [] (3 :: List.replicate 32 9) []
    (List.replicate 48 1) = .err := by decide

/-- Payer metadata (an invoice request's / refund's `payer_metadata`): a 32-byte encrypted payment
    id, then the recipient layout; same statement with the id bound into the MAC. -/
theorem payer_metadata_verify_iff (hlen : ∀ k m, (mac k m).length = 32) (key iv pk tlvs md : Bytes) :
    verifyPayer mac pubOf key iv pk tlvs md = .okNoKeys ↔
      ∃ pid nonce, pid.length = 32 ∧ nonce.length = 16 ∧
        md = deriveMetadata mac key iv nonce (some pid) tlvs := by
  unfold verifyPayer
  simp only [PAYMENT_ID_LEN]
  by_cases hl32 : md.length < 32
  · simp only [hl32, ↓reduceIte]
    constructor
    · intro h; simp at h
    · rintro ⟨pid, nonce, hp, hn, rfl⟩
      simp only [deriveMetadata, Option.getD_some, List.length_append, hp] at hl32
      omega
  · simp only [hl32, ↓reduceIte]
    by_cases hl : (md.drop 32).length < 16
    · have : verifyHmac mac key iv (md.drop 32) (some (md.take 32)) tlvs = none := by
        have hl' := hl
        simp only [List.length_drop] at hl'
        simp [verifyHmac, NONCE_LEN, hl']
      simp only [this]
      constructor
      · intro h; simp at h
      · rintro ⟨pid, nonce, hp, hn, rfl⟩
        simp only [deriveMetadata, Option.getD_some, List.append_assoc, List.drop_left' hp,
          List.length_append, hn] at hl
        omega
    · rw [verifyHmac_eq mac key iv _ _ tlvs hl]
      simp only [verifyTail_noKeys]
      constructor
      · rintro ⟨h48, hd⟩
        refine ⟨md.take 32, (md.drop 32).take 16, by simp; omega, by simp at hl ⊢; omega, ?_⟩
        have h16 : ¬ (md.drop 32).length = 16 := by omega
        simp only [h16, ↓reduceIte] at hd
        unfold deriveMetadata
        simp only [Option.getD_some]
        rw [← hd, List.append_assoc, List.take_append_drop, List.take_append_drop]
      · rintro ⟨pid, nonce, hp, hn, rfl⟩
        have hm := hlen key (iv ++ nonce ++ tlvs ++ DERIVED_METADATA_HMAC_INPUT ++ pidInput (some pid))
        unfold deriveMetadata
        simp only [Option.getD_some, List.append_assoc, List.drop_left' hp, List.take_left' hp]
        have hlen' : (nonce ++ mac key (iv ++ (nonce ++ (tlvs ++ (DERIVED_METADATA_HMAC_INPUT ++ pidInput (some pid)))))).length = 48 := by
          simp only [List.append_assoc] at hm
          rw [List.length_append, hn, hm]
        have h16 : ¬ (nonce ++ mac key (iv ++ (nonce ++ (tlvs ++ (DERIVED_METADATA_HMAC_INPUT ++ pidInput (some pid)))))).length = 16 := by omega
        refine ⟨hlen', ?_⟩
        simp only [h16, ↓reduceIte]
        rw [List.take_left' hn, List.drop_left' hn]

/-- non-vacuity: with a constant 32-byte "mac", derived metadata verifies and a changed byte does not -/
example : verifyRecipient (fun _ _ => List.replicate 32 7) id [] [] [] []
    (deriveMetadata (fun _ _ => List.replicate 32 7) [] [] (List.replicate 16 1) none []) = .okNoKeys := by decide
example : verifyRecipient (fun _ _ => List.replicate 32 7) id [] [] [] []
    (List.replicate 16 1 ++ List.replicate 32 8) = .err := by decide

/-! ### which offer records the check covers -/
open Ldk.Merkle (Rec)

/-- Coverage, positive half: on an ascending offer stream every record of the offer range 1..80
    other than the metadata record itself (and the issuer id when the signing key is derived), and
    every experimental offer record, is part of the MAC input — so by `metadata_verify_iff` altering,
    adding or removing any of them changes the metadata that verifies (unless the MAC collides). -/
theorem offer_covered_complete (rd d : Bool) (rs : List Rec) (hasc : rs.Pairwise (fun a b => a.ty < b.ty))
    (r : Rec) (hr : r ∈ rs)
    (hin : (1 ≤ r.ty ∧ r.ty < 80 ∧ r.ty ≠ 4 ∧ (r.ty ≠ 22 ∨ d = false)) ∨
           (1000000000 ≤ r.ty ∧ r.ty < 2000000000)) :
    r ∈ offerCovered rd d rs := by
  unfold offerCovered
  rcases hin with ⟨h1, h2, h3, h4⟩ | ⟨h1, h2⟩
  · apply List.mem_append_left
    rw [List.mem_filter]
    refine ⟨mem_rangeRecs _ _ rs r hasc hr h1 h2, ?_⟩
    unfold C18Meta.offerRecordCovered
    simp only [C18Meta.OFFER_METADATA_TYPE, C18Meta.OFFER_ISSUER_ID_TYPE]
    rcases h4 with h4 | h4
    · simp [h3, h4]
    · subst h4; simp [h3]
  · exact List.mem_append_right _ (mem_rangeRecs _ _ rs r hasc hr h1 h2)

/-- Coverage, negative half (the model-level content of KNOWN FINDING KF-C18-1): the metadata
    record (type 4) is never part of the MAC input … -/
theorem offer_metadata_record_not_covered (rd d : Bool) (rs : List Rec) :
    ∀ r ∈ offerCovered rd d rs, r.ty ≠ 4 := by
  intro r hr
  unfold offerCovered at hr
  rcases List.mem_append.mp hr with h | h
  · have := (List.mem_filter.mp h).2
    unfold C18Meta.offerRecordCovered at this
    simp only [C18Meta.OFFER_METADATA_TYPE] at this
    intro h4
    simp [h4] at this
  · have := (rangeRecs_in_range _ _ rs r h).1
    simp only [EXPERIMENTAL_OFFER_TYPES_LO] at this
    omega

/-- … and with recipient data (signing key derived from a blinded-path nonce) it is not read either:
    the verdict depends on the stream only through the covered records and the issuer id.  Hence a
    copy of such an offer with a metadata record ADDED (or changed) still verifies. -/
theorem offer_recipient_data_ignores_metadata_record (pubOf : Bytes → Bytes) (key nonce : Bytes)
    (rs rs' : List Rec) (hc : offerCovered true true rs = offerCovered true true rs')
    (hk : rs.find? (fun r => r.ty == OFFER_ISSUER_ID_TYPE) = rs'.find? (fun r => r.ty == OFFER_ISSUER_ID_TYPE)) :
    offerVerify mac pubOf key (some nonce) rs = offerVerify mac pubOf key (some nonce) rs' := by
  unfold offerVerify
  simp only [Option.isSome_some, C18Meta.derivesRecipientKeys, if_true, hc, hk]

/-- concrete instance: issuer id record alone vs. the same with a 2-byte metadata record in front -/
example : offerCovered true true [⟨[22], [22, 1, 9]⟩] = offerCovered true true [⟨[4], [4, 2, 7, 7]⟩, ⟨[22], [22, 1, 9]⟩] := by
  decide

/-- Payer side: on an ascending invoice stream every record of the offer range 1..80, of the
    invoice-request range 80..160 (minus the payer id when the payer key is derived) and of the
    experimental offer/invoice-request ranges is part of the MAC input of the payer metadata; the
    invoice's own records (160..240, 3·10⁹…) are the recipient's and are not. -/
theorem invoice_covered_complete (d : Bool) (rs : List Rec) (hasc : rs.Pairwise (fun a b => a.ty < b.ty))
    (r : Rec) (hr : r ∈ rs)
    (hin : (1 ≤ r.ty ∧ r.ty < 80) ∨ (80 ≤ r.ty ∧ r.ty < 160 ∧ (r.ty ≠ 88 ∨ d = false)) ∨
           (1000000000 ≤ r.ty ∧ r.ty < 3000000000)) :
    r ∈ invoiceCovered d rs := by
  unfold invoiceCovered
  rcases hin with ⟨h1, h2⟩ | ⟨h1, h2, h3⟩ | ⟨h1, h2⟩
  · exact List.mem_append_left _ (List.mem_append_left _ (mem_rangeRecs _ _ rs r hasc hr h1 h2))
  · apply List.mem_append_left
    apply List.mem_append_right
    rw [List.mem_filter]
    refine ⟨mem_rangeRecs _ _ rs r hasc hr h1 h2, ?_⟩
    simp only [PAYER_METADATA_TYPE, INVOICE_REQUEST_PAYER_ID_TYPE, bne_iff_ne, ne_eq, Bool.and_eq_true,
      Bool.or_eq_true, Bool.not_eq_true']
    exact ⟨by omega, h3⟩
  · exact List.mem_append_right _ (mem_rangeRecs _ _ rs r hasc hr h1 h2)

theorem invoice_own_records_not_covered (d : Bool) (rs : List Rec) :
    ∀ r ∈ invoiceCovered d rs, ¬ (160 ≤ r.ty ∧ r.ty < 1000000000) ∧ r.ty ≠ 0 := by
  intro r hr
  unfold invoiceCovered at hr
  rcases List.mem_append.mp hr with h | h
  · rcases List.mem_append.mp h with h | h
    · have := rangeRecs_in_range _ _ rs r h
      simp only [OFFER_TYPES_LO, OFFER_TYPES_HI] at this
      omega
    · have := rangeRecs_in_range _ _ rs r (List.mem_filter.mp h).1
      simp only [INVOICE_REQUEST_TYPES_LO, INVOICE_REQUEST_TYPES_HI] at this
      omega
  · have := rangeRecs_in_range _ _ rs r h
    simp only [EXPERIMENTAL_OFFER_TYPES_LO, EXPERIMENTAL_INVOICE_REQUEST_TYPES_HI] at this
    omega

example : invoiceCovered true [⟨[0], [0, 1, 5]⟩, ⟨[88], [88, 1, 9]⟩, ⟨[160], [160, 0]⟩] = [] := by decide
example : invoiceCovered false [⟨[0], [0, 1, 5]⟩, ⟨[88], [88, 1, 9]⟩, ⟨[160], [160, 0]⟩] = [⟨[88], [88, 1, 9]⟩] := by decide

end metadata

/-! ## BOLT-12: an invoice request carries the offer's records, an invoice the request's — as bytes
    The write plans `invreqPlan` / `invoicePlan` are translated from UnsignedInvoiceRequest::new /
    UnsignedBolt12Invoice::new (+ sign) on every run (tools/gen_c18_mirror.py). -/
section mirror
open Ldk.OfferMirror Ldk.C18Mirror
open Ldk.OfferMeta (rangeRecs mem_rangeRecs)
open Ldk.Merkle (Rec parseStream)

/-- what is copied is a contiguous piece of the source, records untouched (a `Rec` carries its raw bytes) -/
theorem mirror_copy_sublist (lo hi : Nat) (rs : List Rec) : (rangeRecs lo hi rs).Sublist rs :=
  (List.takeWhile_sublist _).trans (List.dropWhile_sublist _)

/-- "Cannot be altered", offer → invoice request: for EVERY well-formed ascending offer byte string
    and every content of the request's own streams, the signed invoice request is
    `payer ‖ (offer records 1..80, copied) ‖ own records ‖ signature ‖ (experimental offer records of the
    remaining offer bytes, copied) ‖ own experimental records`, and EVERY offer record of the range
    1..80 is among the copied ones, byte for byte (unknown odd records included). -/
theorem invreq_mirrors_offer (src : List UInt8) (rs : List Rec) (o : Own) (out : List UInt8)
    (hp : parseStream src = some rs) (hasc : rs.Pairwise (fun a b => a.ty < b.ty))
    (hb : build invreqPlan src o = some out) :
    (∃ rest, parseStream (src.drop (recsBytes (rangeRecs OFFER_TYPES_LO OFFER_TYPES_HI rs)).length) = some rest ∧
      out = o.payer ++ recsBytes (rangeRecs OFFER_TYPES_LO OFFER_TYPES_HI rs) ++ o.own ++ o.sig ++
        recsBytes (rangeRecs EXPERIMENTAL_OFFER_TYPES_LO EXPERIMENTAL_OFFER_TYPES_HI rest) ++ o.expOwn) ∧
    (∀ r ∈ rs, 1 ≤ r.ty → r.ty < 80 → r ∈ rangeRecs OFFER_TYPES_LO OFFER_TYPES_HI rs) := by
  refine ⟨?_, fun r hr h1 h2 => mem_rangeRecs _ _ rs r hasc hr h1 h2⟩
  simp only [build, invreqPlan, runPlan, stepSeg, hp, Own.get, List.nil_append, Nat.zero_add] at hb
  cases hrest : parseStream (src.drop (recsBytes (rangeRecs 1 80 rs)).length) with
  | none => simp [hrest] at hb
  | some rest =>
    simp only [hrest, Option.map_some, Option.some.injEq] at hb
    exact ⟨rest, hrest, by rw [← hb]; simp [OFFER_TYPES_LO, OFFER_TYPES_HI, EXPERIMENTAL_OFFER_TYPES_LO, EXPERIMENTAL_OFFER_TYPES_HI]⟩

/-- invoice request (or refund) → invoice: the same with the ranges 0..160 and 10⁹..3·10⁹: payer
    metadata, mirrored offer records and the request's own records all reappear as the bytes received. -/
theorem invoice_mirrors_request (src : List UInt8) (rs : List Rec) (o : Own) (out : List UInt8)
    (hp : parseStream src = some rs) (hasc : rs.Pairwise (fun a b => a.ty < b.ty))
    (hb : build invoicePlan src o = some out) :
    (∃ rest, parseStream (src.drop (recsBytes (rangeRecs 0 INVOICE_REQUEST_TYPES_HI rs)).length) = some rest ∧
      out = recsBytes (rangeRecs 0 INVOICE_REQUEST_TYPES_HI rs) ++ o.own ++ o.sig ++
        recsBytes (rangeRecs EXPERIMENTAL_OFFER_TYPES_LO EXPERIMENTAL_INVOICE_REQUEST_TYPES_HI rest) ++ o.expOwn) ∧
    (∀ r ∈ rs, r.ty < 160 → r ∈ rangeRecs 0 INVOICE_REQUEST_TYPES_HI rs) := by
  refine ⟨?_, fun r hr h2 => mem_rangeRecs _ _ rs r hasc hr (Nat.zero_le _) h2⟩
  simp only [build, invoicePlan, runPlan, stepSeg, hp, Own.get, List.nil_append, Nat.zero_add] at hb
  cases hrest : parseStream (src.drop (recsBytes (rangeRecs 0 160 rs)).length) with
  | none => simp [hrest] at hb
  | some rest =>
    simp only [hrest, Option.map_some, Option.some.injEq] at hb
    exact ⟨rest, hrest, by rw [← hb]; simp [INVOICE_REQUEST_TYPES_HI, EXPERIMENTAL_OFFER_TYPES_LO, EXPERIMENTAL_INVOICE_REQUEST_TYPES_HI]⟩

/-- non-vacuity: an offer with a known record (10), an unknown odd record (77) and an experimental one -/
example : build invreqPlan [10, 1, 65, 77, 2, 1, 2, 0xfe, 0x3b, 0x9a, 0xca, 0x01, 1, 9] ⟨[0, 1, 5], [88, 1, 3], [], [240, 1, 7]⟩
    = some [0, 1, 5, 10, 1, 65, 77, 2, 1, 2, 88, 1, 3, 240, 1, 7, 0xfe, 0x3b, 0x9a, 0xca, 0x01, 1, 9] := by decide

/-! ### Remote signing: an unsigned message re-parsed from its bytes and then signed
    `TryFrom<Vec<u8>> for UnsignedInvoiceRequest / UnsignedBolt12Invoice` cut the received bytes into
    `bytes` / `experimental_bytes` after the last record of a RANGE; `sign()` writes
    `bytes ‖ signature(240) ‖ experimental_bytes`.  `invreqSplitIn` / `invoiceSplitIn` are those ranges,
    translated from the two impls on every run (gen_c18_mirror.py); the sign step and the fact that the
    tagged hash is taken over the whole bytes BEFORE the cut are pinned by the same translator. -/

/-- the split range of the re-parsed unsigned INVOICE REQUEST holds exactly for the record types that
    must precede the signature, on every type an invoice request can carry (payer 0, offer 1..80,
    invoice request 80..160 — payer note 89 and offer_from_hrn 91 included —, experimental ≥ 10⁹) -/
theorem invreq_split_range_is_below_signature (t : Nat)
    (ht : t < INVOICE_REQUEST_TYPES_HI ∨ EXPERIMENTAL_OFFER_TYPES_LO ≤ t) :
    invreqSplitIn t = true ↔ t < Ldk.Merkle.sigTypesLo := by
  simp only [invreqSplitIn, INVOICE_REQUEST_TYPES_HI, EXPERIMENTAL_OFFER_TYPES_LO, Ldk.Merkle.sigTypesLo,
    Bool.and_eq_true, decide_eq_true_eq] at *
  omega

/-- the same for the re-parsed unsigned INVOICE (adds the invoice records 160..240) -/
theorem invoice_split_range_is_below_signature (t : Nat)
    (ht : t < INVOICE_TYPES_HI ∨ EXPERIMENTAL_OFFER_TYPES_LO ≤ t) :
    invoiceSplitIn t = true ↔ t < Ldk.Merkle.sigTypesLo := by
  simp only [invoiceSplitIn, INVOICE_TYPES_HI, EXPERIMENTAL_OFFER_TYPES_LO, Ldk.Merkle.sigTypesLo,
    Bool.and_eq_true, decide_eq_true_eq] at *
  omega

example : invreqSplitIn 89 = true ∧ invreqSplitIn 91 = true ∧ invreqSplitIn 159 = true ∧ invreqSplitIn 2000000001 = false := by decide

/-- sign(reparse(unsigned invoice request bytes)), for EVERY record set: whatever ascending stream of
    invoice-request records `b` is (any subset of chain, amount, features, quantity, payer id, payer note,
    hrn, unknown odd records, experimental offer / request records), the signed bytes are the
    concatenation of a STRICTLY ASCENDING record list `A ++ sig :: B` with `A ++ B` = the unsigned
    records, and dropping the signature record gives back exactly the unsigned records. -/
theorem reparsed_invreq_signs_to_ascending_stream (b : List UInt8) (rs : List Rec) (sr : Rec)
    (hparse : parseStream b = some rs) (hasc : rs.Pairwise (fun a b => a.ty < b.ty))
    (hty : ∀ r ∈ rs, r.ty < INVOICE_REQUEST_TYPES_HI ∨ EXPERIMENTAL_OFFER_TYPES_LO ≤ r.ty)
    (hsig : Ldk.Merkle.isSig sr = true) :
    ∃ A B, rs = A ++ B ∧
      signReparsed invreqSplitIn b sr.recordBytes = some (recsBytes (A ++ sr :: B)) ∧
      (A ++ sr :: B).Pairwise (fun a b => a.ty < b.ty) ∧
      Ldk.Merkle.nonSig (A ++ sr :: B) = rs := by
  refine signReparsed_general invreqSplitIn b rs sr hparse hasc
    (fun r hr => invreq_split_range_is_below_signature r.ty (hty r hr)) (fun r hr => ?_) hsig
  have h := hty r hr
  simp only [INVOICE_REQUEST_TYPES_HI, EXPERIMENTAL_OFFER_TYPES_LO] at h
  rcases h with h | h
  · have h' : ¬ (Ldk.Merkle.sigTypesLo ≤ r.ty) := by simp only [Ldk.Merkle.sigTypesLo]; omega
    simp [Ldk.Merkle.isSig, h']
  · have h' : ¬ (r.ty ≤ Ldk.Merkle.sigTypesHi) := by simp only [Ldk.Merkle.sigTypesHi]; omega
    simp [Ldk.Merkle.isSig, h']

/-- the same for sign(reparse(unsigned invoice bytes)) -/
theorem reparsed_invoice_signs_to_ascending_stream (b : List UInt8) (rs : List Rec) (sr : Rec)
    (hparse : parseStream b = some rs) (hasc : rs.Pairwise (fun a b => a.ty < b.ty))
    (hty : ∀ r ∈ rs, r.ty < INVOICE_TYPES_HI ∨ EXPERIMENTAL_OFFER_TYPES_LO ≤ r.ty)
    (hsig : Ldk.Merkle.isSig sr = true) :
    ∃ A B, rs = A ++ B ∧
      signReparsed invoiceSplitIn b sr.recordBytes = some (recsBytes (A ++ sr :: B)) ∧
      (A ++ sr :: B).Pairwise (fun a b => a.ty < b.ty) ∧
      Ldk.Merkle.nonSig (A ++ sr :: B) = rs := by
  refine signReparsed_general invoiceSplitIn b rs sr hparse hasc
    (fun r hr => invoice_split_range_is_below_signature r.ty (hty r hr)) (fun r hr => ?_) hsig
  have h := hty r hr
  simp only [INVOICE_TYPES_HI, EXPERIMENTAL_OFFER_TYPES_LO] at h
  rcases h with h | h
  · have h' : ¬ (Ldk.Merkle.sigTypesLo ≤ r.ty) := by simp only [Ldk.Merkle.sigTypesLo]; omega
    simp [Ldk.Merkle.isSig, h']
  · have h' : ¬ (r.ty ≤ Ldk.Merkle.sigTypesHi) := by simp only [Ldk.Merkle.sigTypesHi]; omega
    simp [Ldk.Merkle.isSig, h']

/-- PARSES BACK (composition with the parser round trip `parseStream_recsBytes`): for every ascending
    record set of an invoice request and every well-formed signature record, the bytes returned by
    sign(try_from(unsigned bytes)) PARSE, the parsed stream is strictly ascending, and its
    non-signature records are exactly the unsigned records; the driver verdict of op `resign` is "ok". -/
theorem reparsed_invreq_parses_back (b : List UInt8) (rs : List Rec) (sr : Rec)
    (hparse : parseStream b = some rs) (hasc : rs.Pairwise (fun a b => a.ty < b.ty))
    (hty : ∀ r ∈ rs, r.ty < INVOICE_REQUEST_TYPES_HI ∨ EXPERIMENTAL_OFFER_TYPES_LO ≤ r.ty)
    (hsig : Ldk.Merkle.isSig sr = true) (hsr : WF sr) :
    (∃ out rs', signReparsed invreqSplitIn b sr.recordBytes = some out ∧ parseStream out = some rs' ∧
      rs'.Pairwise (fun a b => a.ty < b.ty) ∧ Ldk.Merkle.nonSig rs' = rs) ∧
    resignVerdict invreqSplitIn b sr.recordBytes = "ok" := by
  obtain ⟨A, B, hAB, hs, hpw, hns⟩ := reparsed_invreq_signs_to_ascending_stream b rs sr hparse hasc hty hsig
  have hwf : ∀ r ∈ A ++ sr :: B, WF r := by
    intro r hr
    rcases List.mem_append.mp hr with h | h
    · exact parseStream_wf b rs hparse r (by rw [hAB]; exact List.mem_append_left _ h)
    · rcases List.mem_cons.mp h with rfl | h'
      · exact hsr
      · exact parseStream_wf b rs hparse r (by rw [hAB]; exact List.mem_append_right _ h')
  have hpb := parseStream_recsBytes _ hwf
  refine ⟨⟨_, _, hs, hpb, hpw, hns⟩, ?_⟩
  simp [resignVerdict, hs, hparse, hpb, ascendingB_of_pairwise _ hpw, hns]

/-- the same for invoices -/
theorem reparsed_invoice_parses_back (b : List UInt8) (rs : List Rec) (sr : Rec)
    (hparse : parseStream b = some rs) (hasc : rs.Pairwise (fun a b => a.ty < b.ty))
    (hty : ∀ r ∈ rs, r.ty < INVOICE_TYPES_HI ∨ EXPERIMENTAL_OFFER_TYPES_LO ≤ r.ty)
    (hsig : Ldk.Merkle.isSig sr = true) (hsr : WF sr) :
    (∃ out rs', signReparsed invoiceSplitIn b sr.recordBytes = some out ∧ parseStream out = some rs' ∧
      rs'.Pairwise (fun a b => a.ty < b.ty) ∧ Ldk.Merkle.nonSig rs' = rs) ∧
    resignVerdict invoiceSplitIn b sr.recordBytes = "ok" := by
  obtain ⟨A, B, hAB, hs, hpw, hns⟩ := reparsed_invoice_signs_to_ascending_stream b rs sr hparse hasc hty hsig
  have hwf : ∀ r ∈ A ++ sr :: B, WF r := by
    intro r hr
    rcases List.mem_append.mp hr with h | h
    · exact parseStream_wf b rs hparse r (by rw [hAB]; exact List.mem_append_left _ h)
    · rcases List.mem_cons.mp h with rfl | h'
      · exact hsr
      · exact parseStream_wf b rs hparse r (by rw [hAB]; exact List.mem_append_right _ h')
  have hpb := parseStream_recsBytes _ hwf
  refine ⟨⟨_, _, hs, hpb, hpw, hns⟩, ?_⟩
  simp [resignVerdict, hs, hparse, hpb, ascendingB_of_pairwise _ hpw, hns]

/-- non-vacuity of the hypotheses: a well-formed signature record -/
example : WF ⟨[240], [240, 1, 7]⟩ := ⟨240, 1, 1, 1, by decide, by decide, by decide, by decide⟩

/-- the parser round trip itself, for every list of well-formed records (ascending or not) -/
theorem parse_roundtrip (rs : List Rec) (h : ∀ r ∈ rs, WF r) : parseStream (recsBytes rs) = some rs :=
  parseStream_recsBytes rs h

example : parseStream (recsBytes [⟨[88], [88, 1, 3]⟩, ⟨[0xfd, 0x01, 0x00], [0xfd, 0x01, 0x00, 0]⟩]) = some [⟨[88], [88, 1, 3]⟩, ⟨[0xfd, 0x01, 0x00], [0xfd, 0x01, 0x00, 0]⟩] := by decide

/-- `Unsigned*::write ∘ Unsigned*::try_from = id` (KF-C18-2, fixed in f3513c1): whatever the split
    range cuts, the translated write plan of `impl Writeable for UnsignedInvoiceRequest` writes both
    halves in order, so a re-parsed unsigned request serialises to exactly the bytes it was parsed from
    (the bytes the tagged hash covers) — for EVERY well-formed stream.  With the old one-statement
    `write` the plan is `[.bytes]` and this does not hold. -/
theorem unsigned_invreq_write_is_parsed_bytes (b : List UInt8) (rs : List Rec) (hparse : parseStream b = some rs) :
    rewriteUnsigned invreqSplitIn invreqUnsignedWrite b = some b := by
  simp [rewriteUnsigned, reparseSplit, hparse, writeUnsigned, invreqUnsignedWrite]

/-- the same for `impl Writeable for UnsignedBolt12Invoice` -/
theorem unsigned_invoice_write_is_parsed_bytes (b : List UInt8) (rs : List Rec) (hparse : parseStream b = some rs) :
    rewriteUnsigned invoiceSplitIn invoiceUnsignedWrite b = some b := by
  simp [rewriteUnsigned, reparseSplit, hparse, writeUnsigned, invoiceUnsignedWrite]

example : rewriteUnsigned invreqSplitIn invreqUnsignedWrite [88, 1, 3, 89, 1, 66, 0xfe, 0x77, 0x35, 0x94, 0x01, 1, 9]
    = some [88, 1, 3, 89, 1, 66, 0xfe, 0x77, 0x35, 0x94, 0x01, 1, 9] := by decide

/-- the unsigned bytes a remote signer receives are the stream `try_from` split: written = `bytes ‖ experimental_bytes` -/
theorem unsigned_write_is_both_halves (p : Nat → Bool) (b x e : List UInt8) (h : reparseSplit p b = some (x, e)) :
    writeUnsigned invreqUnsignedWrite (x, e) = x ++ e ∧ writeUnsigned invoiceUnsignedWrite (x, e) = x ++ e ∧ x ++ e = b := by
  refine ⟨by simp [writeUnsigned, invreqUnsignedWrite], by simp [writeUnsigned, invoiceUnsignedWrite], ?_⟩
  unfold reparseSplit at h
  split at h
  · cases h
  · cases h; exact List.take_append_drop _ _

/-- non-vacuity: payer metadata, payer id 88, PAYER NOTE 89, an experimental record; signature 240 -/
example : signReparsed invreqSplitIn [0, 1, 5, 88, 1, 3, 89, 1, 66, 0xfe, 0x77, 0x35, 0x94, 0x01, 1, 9] [240, 1, 7]
    = some [0, 1, 5, 88, 1, 3, 89, 1, 66, 240, 1, 7, 0xfe, 0x77, 0x35, 0x94, 0x01, 1, 9] := by decide
example : resignVerdict invreqSplitIn [0, 1, 5, 88, 1, 3, 89, 1, 66, 0xfe, 0x77, 0x35, 0x94, 0x01, 1, 9] [240, 1, 7] = "ok" := by decide
example : signReparsed invoiceSplitIn [88, 1, 3, 89, 1, 66, 176, 1, 4, 0xfe, 0xb2, 0xd0, 0x5e, 0x01, 0] [240, 1, 7]
    = some [88, 1, 3, 89, 1, 66, 176, 1, 4, 240, 1, 7, 0xfe, 0xb2, 0xd0, 0x5e, 0x01, 0] := by decide

/-- static invoices have no TryFrom for the unsigned type; their write plan (UnsignedStaticInvoice::new +
    sign, translated) puts the signature between the non-experimental and the experimental writes, and
    copies the offer's records like an invoice request does -/
theorem static_invoice_mirrors_offer (src : List UInt8) (rs : List Rec) (o : Own) (out : List UInt8)
    (hp : parseStream src = some rs) (hasc : rs.Pairwise (fun a b => a.ty < b.ty))
    (hb : build staticInvoicePlan src o = some out) :
    (∃ rest, parseStream (src.drop (recsBytes (rangeRecs OFFER_TYPES_LO OFFER_TYPES_HI rs)).length) = some rest ∧
      out = recsBytes (rangeRecs OFFER_TYPES_LO OFFER_TYPES_HI rs) ++ o.own ++ o.sig ++
        recsBytes (rangeRecs EXPERIMENTAL_OFFER_TYPES_LO EXPERIMENTAL_OFFER_TYPES_HI rest) ++ o.expOwn) ∧
    (∀ r ∈ rs, 1 ≤ r.ty → r.ty < 80 → r ∈ rangeRecs OFFER_TYPES_LO OFFER_TYPES_HI rs) := by
  refine ⟨?_, fun r hr h1 h2 => mem_rangeRecs _ _ rs r hasc hr h1 h2⟩
  simp only [build, staticInvoicePlan, runPlan, stepSeg, hp, Own.get, List.nil_append, Nat.zero_add] at hb
  cases hrest : parseStream (src.drop (recsBytes (rangeRecs 1 80 rs)).length) with
  | none => simp [hrest] at hb
  | some rest =>
    simp only [hrest, Option.map_some, Option.some.injEq] at hb
    exact ⟨rest, hrest, by rw [← hb]; simp [OFFER_TYPES_LO, OFFER_TYPES_HI, EXPERIMENTAL_OFFER_TYPES_LO, EXPERIMENTAL_OFFER_TYPES_HI]⟩

example : build staticInvoicePlan [10, 1, 65, 0xfe, 0x3b, 0x9a, 0xca, 0x01, 1, 9] ⟨[], [176, 1, 3], [], [240, 1, 7]⟩
    = some [10, 1, 65, 176, 1, 3, 240, 1, 7, 0xfe, 0x3b, 0x9a, 0xca, 0x01, 1, 9] := by decide

/-! ### round 6: `remaining_bytes` IS the tail of the source — the experimental half of the mirror
    `UnsignedInvoiceRequest::new` / `UnsignedBolt12Invoice::new` / `UnsignedStaticInvoice::new` take the
    experimental records from `remaining_bytes = &src[copied_len..]`.  These theorems remove the `rest`
    and the `build … = some out` hypothesis of the three theorems above: the construction SUCCEEDS on
    every well-formed ascending source without a record below the copied range, the experimental part
    of the output is the experimental range of the SOURCE record list, and every experimental source
    record reappears byte for byte. -/

/-- offer → invoice request, complete: (hoffer: an offer has no record of type 0 — the reader chain
    `(OfferTlvStream 1..80, ExperimentalOfferTlvStream)` refuses it; with one, `remaining_bytes` is
    misaligned, see the example below) -/
theorem invreq_mirrors_offer_experimental (src : List UInt8) (rs : List Rec) (o : Own)
    (hp : parseStream src = some rs) (hasc : rs.Pairwise (fun a b => a.ty < b.ty))
    (hoffer : ∀ r ∈ rs, OFFER_TYPES_LO ≤ r.ty) :
    build invreqPlan src o = some (o.payer ++ recsBytes (rangeRecs OFFER_TYPES_LO OFFER_TYPES_HI rs) ++ o.own ++ o.sig ++
        recsBytes (rangeRecs EXPERIMENTAL_OFFER_TYPES_LO EXPERIMENTAL_OFFER_TYPES_HI rs) ++ o.expOwn) ∧
    (∀ r ∈ rs, EXPERIMENTAL_OFFER_TYPES_LO ≤ r.ty → r.ty < EXPERIMENTAL_OFFER_TYPES_HI →
      r ∈ rangeRecs EXPERIMENTAL_OFFER_TYPES_LO EXPERIMENTAL_OFFER_TYPES_HI rs) := by
  refine ⟨?_, fun r hr h1 h2 => mem_rangeRecs _ _ rs r hasc hr h1 h2⟩
  have htail := copyRest_is_tail 1 80 src rs hp hasc hoffer
  have hexp := rangeRecs_tail 1 80 1000000000 2000000000 rs (by decide)
  simp only [build, invreqPlan, runPlan, stepSeg, hp, Own.get, List.nil_append, Nat.zero_add, htail, hexp,
    Option.map_some, OFFER_TYPES_LO, OFFER_TYPES_HI, EXPERIMENTAL_OFFER_TYPES_LO, EXPERIMENTAL_OFFER_TYPES_HI]

/-- invoice request / refund → invoice, complete; the copied range starts at 0, no side condition -/
theorem invoice_mirrors_request_experimental (src : List UInt8) (rs : List Rec) (o : Own)
    (hp : parseStream src = some rs) (hasc : rs.Pairwise (fun a b => a.ty < b.ty)) :
    build invoicePlan src o = some (recsBytes (rangeRecs 0 INVOICE_REQUEST_TYPES_HI rs) ++ o.own ++ o.sig ++
        recsBytes (rangeRecs EXPERIMENTAL_OFFER_TYPES_LO EXPERIMENTAL_INVOICE_REQUEST_TYPES_HI rs) ++ o.expOwn) ∧
    (∀ r ∈ rs, EXPERIMENTAL_OFFER_TYPES_LO ≤ r.ty → r.ty < EXPERIMENTAL_INVOICE_REQUEST_TYPES_HI →
      r ∈ rangeRecs EXPERIMENTAL_OFFER_TYPES_LO EXPERIMENTAL_INVOICE_REQUEST_TYPES_HI rs) := by
  refine ⟨?_, fun r hr h1 h2 => mem_rangeRecs _ _ rs r hasc hr h1 h2⟩
  have htail := copyRest_is_tail 0 160 src rs hp hasc (fun _ _ => Nat.zero_le _)
  have hexp := rangeRecs_tail 0 160 1000000000 3000000000 rs (by decide)
  simp only [build, invoicePlan, runPlan, stepSeg, hp, Own.get, List.nil_append, Nat.zero_add, htail, hexp,
    Option.map_some, INVOICE_REQUEST_TYPES_HI, EXPERIMENTAL_OFFER_TYPES_LO, EXPERIMENTAL_INVOICE_REQUEST_TYPES_HI]

/-- offer → static invoice, complete -/
theorem static_invoice_mirrors_offer_experimental (src : List UInt8) (rs : List Rec) (o : Own)
    (hp : parseStream src = some rs) (hasc : rs.Pairwise (fun a b => a.ty < b.ty))
    (hoffer : ∀ r ∈ rs, OFFER_TYPES_LO ≤ r.ty) :
    build staticInvoicePlan src o = some (recsBytes (rangeRecs OFFER_TYPES_LO OFFER_TYPES_HI rs) ++ o.own ++ o.sig ++
        recsBytes (rangeRecs EXPERIMENTAL_OFFER_TYPES_LO EXPERIMENTAL_OFFER_TYPES_HI rs) ++ o.expOwn) ∧
    (∀ r ∈ rs, EXPERIMENTAL_OFFER_TYPES_LO ≤ r.ty → r.ty < EXPERIMENTAL_OFFER_TYPES_HI →
      r ∈ rangeRecs EXPERIMENTAL_OFFER_TYPES_LO EXPERIMENTAL_OFFER_TYPES_HI rs) := by
  refine ⟨?_, fun r hr h1 h2 => mem_rangeRecs _ _ rs r hasc hr h1 h2⟩
  have htail := copyRest_is_tail 1 80 src rs hp hasc hoffer
  have hexp := rangeRecs_tail 1 80 1000000000 2000000000 rs (by decide)
  simp only [build, staticInvoicePlan, runPlan, stepSeg, hp, Own.get, List.nil_append, Nat.zero_add, htail, hexp,
    Option.map_some, OFFER_TYPES_LO, OFFER_TYPES_HI, EXPERIMENTAL_OFFER_TYPES_LO, EXPERIMENTAL_OFFER_TYPES_HI]

/-- the parse of `remaining_bytes` is the tail of the source record list (`parseStream`-append lemma) -/
theorem remaining_bytes_is_tail (src : List UInt8) (A B : List Rec) (h : parseStream src = some (A ++ B)) :
    parseStream (src.drop (recsBytes A).length) = some B :=
  parseStream_drop_prefix src A B h

/-- non-vacuity + why `hoffer` is there (the code that exists): a source with a 4-byte record of type 0
    in front makes `remaining_bytes` start inside a record — the construction has no answer -/
example : build invreqPlan [10, 1, 65, 0xfe, 0x3b, 0x9a, 0xca, 0x01, 1, 9] ⟨[0, 1, 5], [88, 1, 3], [], [240, 1, 7]⟩
    = some [0, 1, 5, 10, 1, 65, 88, 1, 3, 240, 1, 7, 0xfe, 0x3b, 0x9a, 0xca, 0x01, 1, 9] := by decide
example : build invreqPlan [0, 2, 5, 5, 10, 1, 65, 0xfe, 0x3b, 0x9a, 0xca, 0x01, 1, 9] ⟨[0, 1, 5], [88, 1, 3], [], [240, 1, 7]⟩
    = none := by decide

/-- the record ranges the hand-written coverage model (Model/OfferMeta.lean: `offerCovered`,
    `invoiceCovered`) uses ARE the range constants of the source (translated by gen_c18_mirror.py) -/
theorem coverage_ranges_match_source :
    OfferMeta.OFFER_TYPES_LO = OFFER_TYPES_LO ∧ OfferMeta.OFFER_TYPES_HI = OFFER_TYPES_HI ∧
    OfferMeta.EXPERIMENTAL_OFFER_TYPES_LO = EXPERIMENTAL_OFFER_TYPES_LO ∧
    OfferMeta.EXPERIMENTAL_OFFER_TYPES_HI = EXPERIMENTAL_OFFER_TYPES_HI ∧
    OfferMeta.INVOICE_REQUEST_TYPES_LO = INVOICE_REQUEST_TYPES_LO ∧
    OfferMeta.INVOICE_REQUEST_TYPES_HI = INVOICE_REQUEST_TYPES_HI ∧
    OfferMeta.EXPERIMENTAL_INVOICE_REQUEST_TYPES_HI = EXPERIMENTAL_INVOICE_REQUEST_TYPES_HI := by decide

example : OfferMeta.OFFER_TYPES_HI = 80 := rfl

end mirror

/-! ## BOLT-12: which record types the parsers admit (round 6)
    `ParsedMessage::<T>::try_from` = the `tlv_stream!` range readers of the tuple `T`, one after the
    other over one cursor, then "the cursor must be exhausted".  The chains (which readers, the ORDER of
    the `CursorReadable::read` statements, every range, every field type) are translated from the Rust
    text on every run (tools/gen_c18_readers.py -> Generated/C18Readers.lean); the loop of one reader is
    Model/OfferReaders.lean::readOne (shape pinned by the translator); driver op `readers`. -/
section readers
open Ldk.OfferReaders Ldk.C18Readers
open Ldk.OfferMirror Ldk.C18Mirror
open Ldk.OfferMeta (rangeRecs)
open Ldk.Merkle (Rec parseStream)

/-- ranges of consecutive readers do not overlap and are in ascending order -/
def chainSorted : List Reader → Bool
  | a :: b :: rest => decide (a.hi ≤ b.lo) && chainSorted (b :: rest)
  | _ => true

theorem chainSorted_pairwise : ∀ (c : List Reader), (∀ rd ∈ c, rd.lo ≤ rd.hi) → chainSorted c = true →
    c.Pairwise (fun a b => a.hi ≤ b.lo)
  | [], _, _ => List.Pairwise.nil
  | [_], _, _ => List.pairwise_singleton _ _
  | a :: b :: rest, hne, h => by
    simp only [chainSorted, Bool.and_eq_true, decide_eq_true_eq] at h
    have ih := chainSorted_pairwise (b :: rest) (fun rd hrd => hne rd (List.mem_cons_of_mem _ hrd)) h.2
    refine List.pairwise_cons.mpr ⟨?_, ih⟩
    intro x hx
    rcases List.mem_cons.mp hx with rfl | hx'
    · exact h.1
    · have h1 := (List.pairwise_cons.mp ih).1 x hx'
      have h2 := hne b (List.mem_cons_of_mem _ (List.mem_cons_self ..))
      have h3 := h.1
      omega

/-- THE TRANSLATED CHAINS ARE WELL FORMED: in every message tuple the readers run in ascending,
    non-overlapping range order (a reader moved in the tuple / in the `impl CursorReadable`, or a range
    constant that reaches into its neighbour, breaks this), every reader has a non-empty range and a
    field type list inside its own range -/
theorem reader_chains_sorted :
    ∀ c ∈ [offerChain, invreqChain, invreqPartialChain, invoiceChain, invoicePartialChain, staticInvoiceChain, refundChain],
      chainSorted c = true ∧ c.all (fun rd => decide (rd.lo < rd.hi) && rd.known.all (inRange rd)) = true := by
  decide

/-- NOTHING OUTSIDE THE RANGES IS ADMITTED (any chain): if the readers consume the whole stream (the
    exhausted-cursor check of ParsedMessage::try_from passes) then every record type lies in the range
    of one of the chain's readers and is a field type of that reader or odd -/
theorem readers_admit_only_range_types (c : List Reader) (ts : List Nat) (h : chainAccepts c ts = true) :
    ∀ t ∈ ts, ∃ rd ∈ c, rd.lo ≤ t ∧ t < rd.hi ∧ (rd.known.contains t = true ∨ t % 2 = 1) := by
  have h' := (chainAccepts_iff c ts).mp h
  obtain ⟨pre, hpre, hall, _⟩ := runChain_sound c ts [] h'
  intro t ht
  rw [hpre, List.append_nil] at ht
  obtain ⟨rd, hrd, hin, htol⟩ := hall t ht
  simp only [inRange, Bool.and_eq_true, decide_eq_true_eq] at hin
  refine ⟨rd, hrd, hin.1, hin.2, ?_⟩
  simpa [tolerates] using htol

/-- AN ADMITTED STREAM IS STRICTLY ASCENDING as a whole (not only inside each reader), for every chain
    whose ranges are in ascending order — in particular for the seven translated ones -/
theorem readers_admit_only_ascending (c : List Reader) (ts : List Nat)
    (hne : ∀ rd ∈ c, rd.lo ≤ rd.hi) (hs : chainSorted c = true) (h : chainAccepts c ts = true) :
    ts.Pairwise (fun a b => a < b) := by
  have h' := (chainAccepts_iff c ts).mp h
  obtain ⟨pre, hpre, _, hpw⟩ := runChain_sound c ts [] h'
  rw [hpre, List.append_nil]
  exact hpw (chainSorted_pairwise c hne hs)

/-- what `Offer::try_from` admits: offer records 1..80 and experimental offer records only — never a
    payer-metadata record (type 0), never a signature, never anything in a gap -/
theorem accepted_offer_types (ts : List Nat) (h : chainAccepts offerChain ts = true) :
    ∀ t ∈ ts, (OFFER_TYPES_LO ≤ t ∧ t < OFFER_TYPES_HI) ∨ (EXPERIMENTAL_OFFER_TYPES_LO ≤ t ∧ t < EXPERIMENTAL_OFFER_TYPES_HI) := by
  intro t ht
  obtain ⟨rd, hrd, h1, h2, _⟩ := readers_admit_only_range_types _ _ h t ht
  simp only [offerChain, List.mem_cons, List.not_mem_nil, or_false] at hrd
  rcases hrd with rfl | rfl
  · exact Or.inl ⟨h1, h2⟩
  · exact Or.inr ⟨h1, h2⟩

/-- the unsigned invoice request a remote signer re-parses carries no signature-range record and nothing
    in the gaps 160..10⁹ / above 3·10⁹: exactly the hypothesis `hty` of reparsed_invreq_signs_to_ascending_stream -/
theorem accepted_unsigned_invreq_types (ts : List Nat) (h : chainAccepts invreqPartialChain ts = true) :
    ∀ t ∈ ts, t < INVOICE_REQUEST_TYPES_HI ∨ EXPERIMENTAL_OFFER_TYPES_LO ≤ t := by
  intro t ht
  obtain ⟨rd, hrd, h1, h2, _⟩ := readers_admit_only_range_types _ _ h t ht
  simp only [invreqPartialChain, List.mem_cons, List.not_mem_nil, or_false] at hrd
  have e1 : rPayerTlvStream.hi = 1 := rfl
  have e2 : rOfferTlvStream.hi = 80 := rfl
  have e3 : rInvoiceRequestTlvStream.hi = 160 := rfl
  have e4 : rExperimentalOfferTlvStream.lo = 1000000000 := rfl
  have e5 : rExperimentalInvoiceRequestTlvStream.lo = 2000000000 := rfl
  simp only [INVOICE_REQUEST_TYPES_HI, EXPERIMENTAL_OFFER_TYPES_LO]
  rcases hrd with rfl | rfl | rfl | rfl | rfl <;> omega

/-- COMPOSITION parser ∘ builder: an offer that `Offer::try_from` admits (reader chain accepts the types
    of its records) can always be answered — `UnsignedInvoiceRequest::new` + sign succeeds on its bytes,
    `remaining_bytes` is aligned (no record below the copied range: the chain refuses type 0), and the
    request mirrors every offer record, experimental ones included.  No ascending / no-type-0 hypothesis
    is left: both follow from the acceptance by the translated chain. -/
theorem accepted_offer_is_mirrored (src : List UInt8) (rs : List Rec) (o : Own)
    (hp : parseStream src = some rs) (hacc : chainAccepts offerChain (rs.map (·.ty)) = true) :
    build invreqPlan src o = some (o.payer ++ recsBytes (rangeRecs OFFER_TYPES_LO OFFER_TYPES_HI rs) ++ o.own ++ o.sig ++
        recsBytes (rangeRecs EXPERIMENTAL_OFFER_TYPES_LO EXPERIMENTAL_OFFER_TYPES_HI rs) ++ o.expOwn) ∧
    (∀ r ∈ rs, r ∈ rangeRecs OFFER_TYPES_LO OFFER_TYPES_HI rs ∨ r ∈ rangeRecs EXPERIMENTAL_OFFER_TYPES_LO EXPERIMENTAL_OFFER_TYPES_HI rs) := by
  have hsorted := (reader_chains_sorted offerChain (by simp)).1
  have hne : ∀ rd ∈ offerChain, rd.lo ≤ rd.hi := by decide
  have hasc' := readers_admit_only_ascending offerChain _ hne hsorted hacc
  have hasc : rs.Pairwise (fun a b => a.ty < b.ty) := by
    simpa [List.pairwise_map] using hasc'
  have hty := accepted_offer_types _ hacc
  have hoffer : ∀ r ∈ rs, OFFER_TYPES_LO ≤ r.ty := by
    intro r hr
    have := hty r.ty (List.mem_map.mpr ⟨r, hr, rfl⟩)
    simp only [OFFER_TYPES_LO, OFFER_TYPES_HI, EXPERIMENTAL_OFFER_TYPES_LO, EXPERIMENTAL_OFFER_TYPES_HI] at this ⊢
    omega
  have hm := invreq_mirrors_offer_experimental src rs o hp hasc hoffer
  have hm0 := invreq_mirrors_offer src rs o
  refine ⟨hm.1, ?_⟩
  intro r hr
  rcases hty r.ty (List.mem_map.mpr ⟨r, hr, rfl⟩) with h | h
  · exact Or.inl (Ldk.OfferMeta.mem_rangeRecs _ _ rs r hasc hr h.1 h.2)
  · exact Or.inr (hm.2 r hr h.1 h.2)

/-- non-vacuity: a request with payer metadata, an unknown odd offer record, payer id, an experimental
    record is admitted; the same with a record in the gap (1001), an unknown EVEN record, a record out of
    order, or a signature-range record in the UNSIGNED chain is refused; an offer with a type-0 record is refused -/
example : chainAccepts invreqChain [0, 10, 77, 88, 240, 1000000001, 2999999999] = true := by decide
example : chainAccepts invreqChain [0, 10, 88, 240, 1001] = false := by decide
example : chainAccepts invreqChain [0, 10, 78, 88, 240] = false := by decide
example : chainAccepts invreqChain [0, 88, 10, 240] = false := by decide
example : chainAccepts invreqPartialChain [0, 10, 88, 241] = false := by decide
example : chainAccepts invreqChain [0, 10, 88, 241, 999] = true := by decide
example : chainAccepts offerChain [0, 10, 22] = false := by decide
example : chainAccepts offerChain [10, 22, 1999999999] = true := by decide
example : chainAccepts invoiceChain [0, 22, 88, 160, 239, 240, 3999999999] = true ∧ chainAccepts invoiceChain [0, 22, 88, 160, 240, 4000000001] = false := by decide

end readers

/-! ## BOLT-11: numeric bounds and field widths
    Every comparison, literal and panic site below is a definition of `Generated/C18Bounds.lean`,
    translated from lightning-invoice's lib.rs / de.rs / ser.rs on every run (gen_c18_bounds.py): a
    flipped comparison or changed width in the source changes those definitions and breaks the
    theorem that states what the bound is FOR. -/
section bounds
open Ldk Ldk.Bolt11 Ldk.C18Consts

/-- The constructor accepts exactly what the wire format can carry: `from_unix_timestamp` (and with it
    `from_duration_since_epoch`, `from_system_time`, `InvoiceBuilder::duration_since_epoch`) accepts
    `t` iff `t` fits the `TIMESTAMP_BITS` = 35-bit field. -/
theorem timestamp_constructor_range (t : Nat) : positiveTimestamp t = some t ↔ t < 2 ^ TIMESTAMP_BITS := by
  have key : C18Bounds.fromUnixTimestampOk t = true ↔ t < 2 ^ 35 := by
    unfold C18Bounds.fromUnixTimestampOk C18Bounds.MAX_TIMESTAMP TIMESTAMP_BITS
    rw [decide_eq_true_iff]
    omega
  unfold positiveTimestamp
  by_cases h : C18Bounds.fromUnixTimestampOk t = true
  · simpa [h, TIMESTAMP_BITS] using key.mp h
  · simp only [h, Bool.false_eq_true, ↓reduceIte, reduceCtorEq, false_iff]
    exact fun hc => h (key.mpr hc)

/-- … in the form the parser relies on (`Err(_) => unreachable!()`): range of the 35-bit decoder ⊆
    range accepted by the constructor. -/
theorem timestamp_field_accepted : ∀ t, t < 2 ^ 35 → C18Bounds.fromUnixTimestampOk t = true := by
  intro t ht
  have := (timestamp_constructor_range t).mpr (by simpa [TIMESTAMP_BITS] using ht)
  unfold positiveTimestamp at this
  split at this
  · assumption
  · simp at this

/-- what the builder must refuse: a timestamp that does not fit is rejected
    (`CreationError::TimestampOutOfBounds`) — and it is exactly those the serialiser could not write
    (`to_pad = 7 - fes.len()` would underflow). -/
theorem timestamp_rejected_iff_unserializable (t : Nat) :
    positiveTimestamp t = none ↔ timestampSerializable t = false := by
  have h1 := timestamp_constructor_range t
  have h2 : timestampSerializable t = true ↔ t < 2 ^ TIMESTAMP_BITS := by
    unfold timestampSerializable
    exact decide_eq_true_iff.trans (encodeIntBe_length_le_iff t 7)
  unfold positiveTimestamp at h1 ⊢
  split
  · rename_i hc
    simp only [hc, ↓reduceIte, true_iff] at h1
    simp [h2.mpr h1]
  · rename_i hc
    simp only [hc, Bool.false_eq_true, ↓reduceIte, reduceCtorEq, false_iff, Nat.not_lt] at h1
    have : ¬ timestampSerializable t = true := fun h => by have := h2.mp h; omega
    simp [this]

/-- `parse_u64_be` (checked multiply-by-32 / add fold in u64) in closed form, for every symbol list. -/
theorem parseU64Be_eq (d : List U5) :
    parseU64Be d = if parseIntBe d < 2 ^ C18Bounds.PARSE_U64_BITS then some (parseIntBe d) else none := by
  rw [parseU64Be_closed]; rfl

/-- The 35-bit decoder: any `TIMESTAMP_LEN` = 7 symbols decode without overflow
    (`.expect("7*5bit < 64bit, no overflow possible")`) to a value below `2 ^ TIMESTAMP_BITS`, and
    every such value is reached. -/
theorem timestamp_decoder_range :
    (∀ b : List U5, (∀ x ∈ b, x < 32) → b.length = TIMESTAMP_LEN →
        parseU64Be b = some (parseIntBe b) ∧ parseIntBe b < 2 ^ TIMESTAMP_BITS) ∧
    (∀ t, t < 2 ^ TIMESTAMP_BITS → (∀ x ∈ encodeTimestamp t, x < 32) ∧
        (encodeTimestamp t).length = TIMESTAMP_LEN ∧ parseIntBe (encodeTimestamp t) = t) := by
  constructor
  · intro b hv hl
    have hlt := parseIntBe_lt b hv
    rw [hl] at hlt
    have h35 : parseIntBe b < 2 ^ 35 := hlt
    refine ⟨?_, h35⟩
    rw [parseU64Be_closed]
    have : parseIntBe b < 2 ^ 64 := Nat.lt_trans h35 (by decide)
    simp [this]
  · intro t ht
    refine ⟨?_, encodeTimestamp_length t ht, parseIntBe_encodeTimestamp t⟩
    intro x hx
    unfold encodeTimestamp at hx
    rcases List.mem_append.mp hx with h | h
    · have := (List.mem_replicate.mp h).2; subst this; decide
    · exact encodeIntBe_valid t x h

/-- TOTALITY of the timestamp parser: on valid symbols `PositiveTimestamp::from_base32` returns the
    value or `InvalidSliceLength` (wrong number of symbols) — it never reaches
    `.expect(..)` / `unreachable!()`. -/
theorem timestamp_decode_never_panics (b : List U5) (hv : ∀ x ∈ b, x < 32) :
    (b.length = TIMESTAMP_LEN ∧ timestampFromBase32 b = .ok (parseIntBe b)) ∨
    (b.length ≠ TIMESTAMP_LEN ∧ timestampFromBase32 b = .invalidSliceLength) := by
  by_cases hl : b.length = 7
  · exact Or.inl ⟨hl, timestampFromBase32_ok b hv hl timestamp_field_accepted⟩
  · refine Or.inr ⟨hl, ?_⟩
    simp [timestampFromBase32, C18Bounds.timestampWrongLen, hl]

/-- Round trip for ALL values of the field: every `t < 2^35` is accepted by the constructor, is
    written as exactly seven symbols without underflow, and reads back as `t`. -/
theorem timestamp_roundtrip (t : Nat) (ht : t < 2 ^ TIMESTAMP_BITS) :
    positiveTimestamp t = some t ∧ timestampSerializable t = true ∧
      timestampFromBase32 (encodeTimestamp t) = .ok t := by
  obtain ⟨hv, hl, hp⟩ := timestamp_decoder_range.2 t ht
  refine ⟨(timestamp_constructor_range t).mpr ht, ?_, ?_⟩
  · unfold timestampSerializable
    exact decide_eq_true_iff.mpr ((encodeIntBe_length_le_iff t 7).mpr ht)
  · have := timestampFromBase32_ok _ hv hl timestamp_field_accepted
    rw [hp] at this
    exact this

/-- non-vacuity: the boundary values -/
example : positiveTimestamp 0 = some 0 ∧ positiveTimestamp 34359738367 = some 34359738367 ∧
    positiveTimestamp 34359738368 = none := by decide
example : timestampFromBase32 [31, 31, 31, 31, 31, 31, 31] = .ok 34359738367 := by decide
example : encodeTimestamp 34359738367 = [31, 31, 31, 31, 31, 31, 31] ∧ encodeTimestamp 1 = [0, 0, 0, 0, 0, 0, 1] := by decide

/-- TOTALITY of the BOLT-11 parser (model of `FromStr for SignedRawBolt11Invoice`): for EVERY input
    string the result is `Ok` or a `Bolt11ParseError` — no panic site (`expect`, `unreachable!()`,
    the `Description::new(..).expect(..)`) is reachable.  Rests on: bech32 hands over 5-bit symbols
    only; seven symbols stay below `2^35`, which the constructor accepts
    (`timestamp_field_accepted`); a 10-bit length carries at most 1023 symbols = 639 bytes, which
    `Description::new` accepts. -/
theorem parser_never_panics (s : Bytes) : parseSigned s ≠ .error .panicked :=
  parseSigned_not_panicked timestamp_field_accepted s

/-- … and what it returns can be serialised again without tripping an assertion: the timestamp fits
    seven symbols, every field (known fields in the form `ser.rs` writes) fits the 10-bit length
    (`assert!(len < 1024)` in `write_tagged_field`). -/
theorem parsed_invoice_reserializable (s : Bytes) (i : SignedRaw) (h : parseSigned s = .ok i) :
    positiveTimestamp i.timestamp = some i.timestamp ∧ timestampSerializable i.timestamp = true ∧
      ∀ f ∈ i.fields, C18Bounds.writeTaggedFieldLenOk f.payload.length = true := by
  obtain ⟨ht, hf⟩ := parseSigned_ok_bounds timestamp_field_accepted s i h
  have hr := timestamp_roundtrip i.timestamp ht
  refine ⟨hr.1, hr.2.1, ?_⟩
  intro f hfm
  simpa [C18Bounds.writeTaggedFieldLenOk] using hf f hfm

/-- Expiry (`x`) and min-final-CLTV (`c`) fields, for ALL u64 values: the value is written with the
    minimal number of base-32 digits — at most `ENCODE_INT_BUF` = 13, so the fixed output buffer of
    `encode_int_be_base32` is never overrun and the 10-bit length is never exceeded —, the length
    `encoded_int_be_base32_size` announces is the number of digits written, and the field parses
    back to the same value in the same canonical form. -/
theorem expiry_cltv_roundtrip (tag : U5) (htag : tag = tagExpiryTime ∨ tag = tagMinFinalCltvExpiryDelta)
    (v : Nat) (hv : v < 2 ^ C18Bounds.ENCODED_INT_BITS) :
    (encodeIntBe v).length ≤ C18Bounds.ENCODE_INT_BUF ∧
    C18Bounds.writeTaggedFieldLenOk (encodeIntBe v).length = true ∧
    encodedIntBeBase32Size v = (encodeIntBe v).length ∧
    parseU64Be (encodeIntBe v) = some v ∧
    interpField tag (encodeIntBe v) = .ok (.known (encodeIntBe v)) := by
  have h64 : v < 2 ^ 64 := hv
  have hlen : (encodeIntBe v).length ≤ 13 :=
    (encodeIntBe_length_le_iff v 13).mpr (Nat.lt_trans h64 (by decide))
  have hp : parseU64Be (encodeIntBe v) = some v := by
    rw [parseU64Be_closed, parseIntBe_encodeIntBe]; simp [h64]
  refine ⟨hlen, ?_, encodedIntBeBase32Size_eq v, hp, ?_⟩
  · simp only [C18Bounds.writeTaggedFieldLenOk, decide_eq_true_eq]; omega
  · rcases htag with rfl | rfl <;> simp [interpField, interpU64, hp, tagExpiryTime, tagMinFinalCltvExpiryDelta,
      tagPaymentHash, tagDescription, tagPayeePubKey, tagDescriptionHash]

/-- … and a value that does not fit a u64 is refused (`IntegerOverflowError`), never wrapped. -/
theorem expiry_cltv_overflow_rejected (tag : U5) (htag : tag = tagExpiryTime ∨ tag = tagMinFinalCltvExpiryDelta)
    (p : List U5) (h : 2 ^ C18Bounds.PARSE_U64_BITS ≤ parseIntBe p) :
    interpField tag p = .error .integerOverflowError := by
  have h64 : ¬ parseIntBe p < 2 ^ 64 := Nat.not_lt.mpr h
  have hp : parseU64Be p = none := by rw [parseU64Be_closed]; simp [h64]
  rcases htag with rfl | rfl <;> simp [interpField, interpU64, hp, tagExpiryTime, tagMinFinalCltvExpiryDelta,
      tagPaymentHash, tagDescription, tagPayeePubKey, tagDescriptionHash]

/-- non-vacuity: 0 is the empty payload, `u64::MAX` takes thirteen symbols, `2^64` is refused -/
example : encodeIntBe 0 = [] ∧ (encodeIntBe (2 ^ 64 - 1)).length = 13 ∧
    interpField tagExpiryTime (encodeIntBe (2 ^ 64 - 1)) = .ok (.known (encodeIntBe (2 ^ 64 - 1))) :=
  ⟨by decide, by decide, (expiry_cltv_roundtrip _ (Or.inl rfl) _ (by decide)).2.2.2.2⟩
example : interpField tagMinFinalCltvExpiryDelta (encodeIntBe (2 ^ 64)) = .error .integerOverflowError :=
  expiry_cltv_overflow_rejected _ (Or.inr rfl) _ (by rw [parseIntBe_encodeIntBe]; decide)

/-- Tagged-field length limits.  (1) `Description::new` / `payment_metadata` accept EXACTLY the byte
    lengths whose base-32 form fits the 10-bit length field, so nothing a builder accepts trips
    `assert!(len < 1024)` and nothing the field can carry is refused by the constructor the parser
    `expect`s to succeed; (2) `PrivateRoute::new` accepts exactly the hop counts (≤ 12) whose 51-byte hops fit; (3) conversely every
    payload length the 10-bit field can announce decodes to an accepted description length;
    (4) `bytes_size_to_base32_size` is the number of symbols actually written. -/
theorem tagged_field_length_limits :
    (∀ n, descriptionLenOk n = C18Bounds.writeTaggedFieldLenOk (C18Bounds.bytesSizeToBase32Size n)) ∧
    (∀ n, paymentMetadataLenOk n = C18Bounds.writeTaggedFieldLenOk (C18Bounds.bytesSizeToBase32Size n)) ∧
    (∀ hops, C18Bounds.privateRouteHopsOk hops =
        C18Bounds.writeTaggedFieldLenOk (C18Bounds.bytesSizeToBase32Size (hops * C18Bounds.ROUTE_HOP_BYTES_SER))) ∧
    (∀ p : List U5, C18Bounds.writeTaggedFieldLenOk p.length = true → descriptionLenOk (fesToBytes p).length = true) ∧
    (∀ b : List UInt8, C18Bounds.bytesSizeToBase32Size b.length = (bytesToFes b).length) := by
  have hw : ∀ len, C18Bounds.writeTaggedFieldLenOk len = true ↔ len < 1024 := by
    intro len; unfold C18Bounds.writeTaggedFieldLenOk; exact decide_eq_true_iff
  have hs : ∀ n, C18Bounds.bytesSizeToBase32Size n = (n * 8 + 4) / 5 := by
    intro n; unfold C18Bounds.bytesSizeToBase32Size
    simp only
    split <;> rename_i h <;> simp only [decide_eq_true_eq] at h <;> omega
  have hd : ∀ n, descriptionLenOk n = true ↔ n ≤ 639 := by
    intro n; unfold descriptionLenOk C18Bounds.descriptionTooLong C18Bounds.MAX_TAGGED_FIELD_DATA_BYTES
    rw [Bool.not_eq_true', decide_eq_false_iff_not]; omega
  have hm : ∀ n, paymentMetadataLenOk n = true ↔ n ≤ 639 := by
    intro n; unfold paymentMetadataLenOk C18Bounds.paymentMetadataTooLong C18Bounds.MAX_TAGGED_FIELD_DATA_BYTES
    rw [Bool.not_eq_true', decide_eq_false_iff_not]; omega
  have hh : ∀ hops, C18Bounds.privateRouteHopsOk hops = true ↔ hops ≤ 12 := by
    intro hops; unfold C18Bounds.privateRouteHopsOk; exact decide_eq_true_iff
  refine ⟨?_, ?_, ?_, ?_, bytesSizeToBase32Size_eq⟩
  · intro n; rw [Bool.eq_iff_iff, hd, hw, hs]; omega
  · intro n; rw [Bool.eq_iff_iff, hm, hw, hs]; omega
  · intro hops
    rw [Bool.eq_iff_iff, hh, hw, hs]; unfold C18Bounds.ROUTE_HOP_BYTES_SER; omega
  · intro p h
    rw [hw] at h
    exact descriptionLenOk_of_syms p h

example : descriptionLenOk 639 = true ∧ descriptionLenOk 640 = false ∧
    C18Bounds.bytesSizeToBase32Size 639 = 1023 ∧ C18Bounds.bytesSizeToBase32Size 640 = 1024 := by decide

/-- The 10-bit length itself: what `write_tagged_field` accepts is split into two symbols `< 32` that
    `parse_tagged_parts` reads back as the same number, and any two symbols give a length that fits
    the `u16` of `parse_u16_be(..).expect("can't overflow")` and the bound of the writer. -/
theorem tagged_length_field (len : Nat) (l1 l2 : U5) :
    (C18Bounds.writeTaggedFieldLenOk len = true →
      len / C18Bounds.TAGGED_LEN_RADIX < 32 ∧ len % C18Bounds.TAGGED_LEN_RADIX < 32 ∧
      parseIntBe [UInt8.ofNat (len / C18Bounds.TAGGED_LEN_RADIX), UInt8.ofNat (len % C18Bounds.TAGGED_LEN_RADIX)] = len) ∧
    (l1 < 32 → l2 < 32 → parseIntBe [l1, l2] < 2 ^ C18Bounds.PARSE_U16_BITS ∧
      C18Bounds.writeTaggedFieldLenOk (parseIntBe [l1, l2]) = true) := by
  constructor
  · intro h
    simp only [C18Bounds.writeTaggedFieldLenOk, decide_eq_true_eq] at h
    simp only [C18Bounds.TAGGED_LEN_RADIX]
    refine ⟨by omega, by omega, ?_⟩
    have := len_syms len h
    simpa [parseIntBe] using this
  · intro h1 h2
    have := len10_lt h1 h2
    simp only [parseIntBe, List.foldl_cons, List.foldl_nil, Nat.zero_mul, Nat.zero_add,
      C18Bounds.writeTaggedFieldLenOk, C18Bounds.PARSE_U16_BITS, decide_eq_true_eq]
    omega

/-- Amounts: the builder accepts an amount iff its pico-BTC value (`amount_msat * 10`, the translated
    `checked_mul`) fits a u64 — from 0 to the maximum — and every accepted amount round-trips through
    the human-readable part (`amount_hrp_roundtrip`). -/
theorem amount_builder_range (cur : Currency) (m : Nat) :
    ((hrpOfAmount cur (some m)).isSome ↔ m * 10 < 2 ^ 64) ∧
    (hrpOfAmount cur (some m)).isSome = (C18Bounds.amountPicoOfMsat m).isSome := by
  have h1 : (hrpOfAmount cur (some m)).isSome ↔ m * 10 < 2 ^ 64 := by
    unfold hrpOfAmount
    simp only [Bolt11.u64Max]
    by_cases h : m * 10 > 2 ^ 64 - 1
    · have : ¬ m * 10 < 2 ^ 64 := by omega
      simp [h, this]
    · have : m * 10 < 2 ^ 64 := by omega
      simp [h, this]
  refine ⟨h1, ?_⟩
  rw [Bool.eq_iff_iff, h1]
  unfold C18Bounds.amountPicoOfMsat chkMul64
  by_cases h : m * 10 < 2 ^ 64 <;> simp [h]

example : (hrpOfAmount .bitcoin (some 0)).isSome = true ∧ (hrpOfAmount .bitcoin (some 1844674407370955161)).isSome = true ∧
    (hrpOfAmount .bitcoin (some 1844674407370955162)).isSome = false := by decide

open Ldk.C18Bounds in
/-- Every translated bound that the hand-written model does NOT call directly (framing of the data
    part and of tagged fields, integer bases, amount arithmetic) equals the literal the model uses —
    for all arguments; and the fixed lengths the serialiser announces are the only lengths the parser
    accepts for those fields.  A changed comparison / literal in lib.rs, de.rs or ser.rs breaks this. -/
theorem model_bounds_match_source :
    -- data part: signature and timestamp split
    ((∀ n, dataTooShortForSignature n = decide (n < Bolt11.sigLen5)) ∧
     (∀ n, signatureWrongLen n = decide (n ≠ Bolt11.sigLen5)) ∧
     (∀ n, dataTooShortForTimestamp n = decide (n < 7)) ∧
     (∀ n, timestampWrongLen n = decide (n ≠ 7)) ∧ TIMESTAMP_PAD_TO = 7 ∧ 5 * TIMESTAMP_PAD_TO = TIMESTAMP_BITS) ∧
    -- integers
    (PARSE_INT_BASE = 32 ∧ ENCODE_INT_BASE = 32 ∧ TAGGED_LEN_RADIX = 32 ∧ PARSE_U64_BITS = 64 ∧
     ENCODED_INT_BITS = 64 ∧ PARSE_U16_BITS = 16 ∧ 32 ^ ENCODE_INT_BUF ≥ 2 ^ ENCODED_INT_BITS) ∧
    -- tagged-field framing
    ((∀ n, taggedHeaderTooShort n = decide (n < 3)) ∧ (∀ n, taggedFieldTooShort n = decide (n < 3)) ∧
     TAGGED_LEN_FROM = 1 ∧ TAGGED_LEN_TO = 3 ∧ TAGGED_DATA_FROM = 3 ∧
     (∀ len, taggedLastElement len = 3 + len) ∧ (∀ a b, taggedTruncated a b = decide (a < b))) ∧
    -- per-tag lengths: what ser.rs announces is the one length de.rs accepts
    ((∀ n, paymentHashWrongLen n = decide (n ≠ PAYMENT_HASH_BASE32_LEN)) ∧
     (∀ n, paymentSecretWrongLen n = decide (n ≠ PAYMENT_SECRET_BASE32_LEN)) ∧
     (∀ n, sha256WrongLen n = decide (n ≠ bytesSizeToBase32Size 32)) ∧
     (∀ n, payeePubKeyWrongLen n = decide (n ≠ bytesSizeToBase32Size 33)) ∧
     FALLBACK_HASH_BASE32_LEN = 1 + bytesSizeToBase32Size 20 ∧ ROUTE_HOP_BYTES = ROUTE_HOP_BYTES_SER ∧
     (∀ n, fallbackProgramLenBad n = (decide (n < 2) || decide (n > 40))) ∧
     (∀ n, fallbackProgramLenBad n = false → writeTaggedFieldLenOk (1 + bytesSizeToBase32Size n) = true) ∧
     FALLBACK_SEGWIT_VERSION_HI < FALLBACK_P2PKH_VERSION ∧ FALLBACK_P2PKH_VERSION < FALLBACK_P2SH_VERSION ∧
     FALLBACK_P2SH_VERSION < 32) ∧
    -- amounts
    ((∀ m, amountPicoOfMsat m = if m * 10 > Bolt11.u64Max then none else some (m * 10)) ∧
     (∀ a mult, hrpAmountTimesPrefix a mult = if a * mult > Bolt11.u64Max then none else some (a * mult)) ∧
     (∀ h : RawHrp, h.amountPico = h.rawAmount.bind fun v =>
        amountPicoBtc v (match h.si with | some s => s.multiplier | none => NO_PREFIX_UNIT)) ∧
     (∀ p, amountImprecise p = !(p % 10 == 0))) ∧
    -- panic sites and "accepts every u64" shapes
    (timestampOverflowPanics = true ∧ timestampRejectedPanics = true ∧ descriptionRejectedPanics = true ∧
     expiryAcceptsEveryU64 = true ∧ minFinalCltvAcceptsEveryU64 = true) := by
  have hchk : ∀ a b, chkMul64 a b = if a * b > Bolt11.u64Max then none else some (a * b) := by
    intro a b
    unfold chkMul64 Bolt11.u64Max
    by_cases h : a * b < 2 ^ 64
    · have : ¬ a * b > 2 ^ 64 - 1 := by omega
      simp [h, this]
    · have : a * b > 2 ^ 64 - 1 := by omega
      simp [h, this]
  refine ⟨⟨fun _ => rfl, fun _ => rfl, fun _ => rfl, fun _ => rfl, rfl, rfl⟩,
    ⟨rfl, rfl, rfl, rfl, rfl, rfl, by decide⟩,
    ⟨fun _ => rfl, fun _ => rfl, rfl, rfl, rfl, fun _ => rfl, fun _ _ => rfl⟩,
    ⟨fun _ => rfl, fun _ => rfl, fun _ => rfl, fun _ => rfl, by decide, rfl, fun _ => rfl, ?_, by decide, by decide, by decide⟩,
    ⟨fun m => hchk m 10, fun a m => hchk a m, ?_, ?_⟩,
    ⟨rfl, rfl, rfl, rfl, rfl⟩⟩
  · intro n h
    unfold fallbackProgramLenBad at h
    simp only [Bool.or_eq_false_iff, decide_eq_false_iff_not] at h
    unfold writeTaggedFieldLenOk bytesSizeToBase32Size
    simp only [decide_eq_true_eq]
    split <;> omega
  · intro h
    cases h with
    | mk cur raw si =>
      cases raw with
      | none => rfl
      | some v =>
        simp only [RawHrp.amountPico, Option.bind_some, amountPicoBtc, hchk]
        cases si <;> simp [Bolt11.noPrefixUnit, NO_PREFIX_UNIT]
  · intro p
    unfold amountImprecise
    by_cases h : p % 10 = 0 <;> simp [h]

end bounds

/-! ## constants: the literals the models use are the ones in the Rust source (regenerated each run) -/
section constants
open Ldk.C18Consts

/-- every constant of `Generated/C18Consts.lean` (extracted from lightning-invoice lib.rs/de.rs,
    offers/merkle.rs, offers/signer.rs, offers/nonce.rs, channelmanager.rs on every run) equals the
    value the models use; a changed tag number, multiplier, length, range or HMAC marker in the source
    breaks this theorem. -/
theorem model_constants_match_source :
    (Bolt11.tagPaymentHash = TAG_PAYMENT_HASH ∧ Bolt11.tagDescription = TAG_DESCRIPTION ∧
     Bolt11.tagPayeePubKey = TAG_PAYEE_PUB_KEY ∧ Bolt11.tagDescriptionHash = TAG_DESCRIPTION_HASH ∧
     Bolt11.tagExpiryTime = TAG_EXPIRY_TIME ∧ Bolt11.tagMinFinalCltvExpiryDelta = TAG_MIN_FINAL_CLTV_EXPIRY_DELTA ∧
     Bolt11.tagFallback = TAG_FALLBACK ∧ Bolt11.tagPrivateRoute = TAG_PRIVATE_ROUTE ∧
     Bolt11.tagPaymentSecret = TAG_PAYMENT_SECRET ∧ Bolt11.tagPaymentMetadata = TAG_PAYMENT_METADATA ∧
     Bolt11.tagFeatures = TAG_FEATURES) ∧
    (Bolt11.sigLen5 = SIGNATURE_LEN_5 ∧ Bolt11.maxLength = MAX_LENGTH ∧ TIMESTAMP_LEN = 7 ∧ TIMESTAMP_BITS = 35 ∧
     Bolt11.noPrefixUnit = NO_PREFIX_UNIT) ∧
    (Bolt11.SiPrefix.milli.multiplier = MULT_MILLI ∧ Bolt11.SiPrefix.micro.multiplier = MULT_MICRO ∧
     Bolt11.SiPrefix.nano.multiplier = MULT_NANO ∧ Bolt11.SiPrefix.pico.multiplier = MULT_PICO ∧
     Bolt11.SiPrefix.milli.letter = LETTER_MILLI ∧ Bolt11.SiPrefix.micro.letter = LETTER_MICRO ∧
     Bolt11.SiPrefix.nano.letter = LETTER_NANO ∧ Bolt11.SiPrefix.pico.letter = LETTER_PICO) ∧
    (Bolt11.Currency.bitcoin.code = CODE_BITCOIN ∧ Bolt11.Currency.testnet.code = CODE_BITCOINTESTNET ∧
     Bolt11.Currency.regtest.code = CODE_REGTEST ∧ Bolt11.Currency.simnet.code = CODE_SIMNET ∧
     Bolt11.Currency.signet.code = CODE_SIGNET) ∧
    (Merkle.sigTypesLo = SIGNATURE_TYPES_LO ∧ Merkle.sigTypesHi = SIGNATURE_TYPES_HI) ∧
    (OfferMeta.NONCE_LEN = NONCE_LENGTH ∧ OfferMeta.PAYMENT_ID_LEN = PAYMENT_ID_LENGTH ∧
     OfferMeta.DERIVED_METADATA_HMAC_INPUT = Ldk.C18Consts.DERIVED_METADATA_HMAC_INPUT ∧
     OfferMeta.DERIVED_METADATA_AND_KEYS_HMAC_INPUT = Ldk.C18Consts.DERIVED_METADATA_AND_KEYS_HMAC_INPUT ∧
     OfferMeta.WITHOUT_ENCRYPTED_PAYMENT_ID_HMAC_INPUT = Ldk.C18Consts.WITHOUT_ENCRYPTED_PAYMENT_ID_HMAC_INPUT ∧
     OfferMeta.WITH_ENCRYPTED_PAYMENT_ID_HMAC_INPUT = Ldk.C18Consts.WITH_ENCRYPTED_PAYMENT_ID_HMAC_INPUT) := by
  decide

end constants

end Ldk.C18
