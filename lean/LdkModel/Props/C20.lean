/- C20 — The chain-sync client keeps listeners on one consistent chain at the best tip.
   Property theorems only; the model is Model/ChainSync.lean (the functions the driver runs), helper
   lemmas are in Proofs/ChainSync.lean.  Every statement quantifies over ALL block trees `t`
   (`wfTree t`: hashes are keys, parent one lower with strictly less cumulative work, height-0 blocks
   have no parent in the tree), all failure schedules / hidden-block sets of the source, all caches
   consistent with the tree, all request offsets.  Chains are written tip first:
   `anc t b = [b, parent b, …, genesis]`; the ascending path is its reverse. -/
import LdkModel.Proofs.ChainSync
namespace Ldk.C20
open Ldk Ldk.ChainSync

/-! ## the hypothesis is satisfiable: a concrete forked tree (1 ← 2 ← 3 and 1 ← 4 ← 5 ← 6) -/

def exTree : Tree :=
  [⟨1, 0, 0, 2⟩, ⟨2, 1, 1, 4⟩, ⟨3, 2, 2, 6⟩, ⟨4, 1, 1, 4⟩, ⟨5, 4, 2, 6⟩, ⟨6, 5, 3, 8⟩]
def exSrc (best : Nat) (failing : List Nat) : Source :=
  { tree := exTree, best := best, fails := fun k => failing.contains k, hidden := fun _ => false }
def b1 : Hdr := ⟨1, 0, 0, 2⟩
def b3 : Hdr := ⟨3, 2, 2, 6⟩
def b5 : Hdr := ⟨5, 4, 2, 6⟩
def b6 : Hdr := ⟨6, 5, 3, 8⟩

example : wfTree exTree = true ∧ oneGenesis exTree = true := by decide
example : InTree exTree b3 ∧ InTree exTree b6 ∧ anc exTree b6 = [b6, b5, ⟨4, 1, 1, 4⟩, b1] := by decide
example : (exSrc 6 []).Healthy := ⟨fun _ => rfl, fun _ => rfl⟩

/-! ## find_difference returns the lowest common ancestor and the path above it -/

/-- Whenever `find_difference_from_header` succeeds — whatever the cache holds, whichever requests
    were answered from the cache or by the source, whatever the schedule — `common` is a common
    ancestor of both tips, every common ancestor is an ancestor of `common` (lowest), and
    `connected` is exactly the part of the new tip's chain above `common` (new tip first; reversed =
    ascending heights, the order in which `connect_blocks` walks it). -/
theorem find_difference_lca (s : Source) (c : Cache) (cur prev : Hdr) (req : Nat) (d : Diff) (r : Nat)
    (hw : wfTree s.tree = true) (hc : CacheOk s.tree c)
    (hcur : InTree s.tree cur) (hprev : InTree s.tree prev)
    (h : findDiff s c cur prev req = .ok (d, r)) :
    d.common ∈ anc s.tree cur ∧ d.common ∈ anc s.tree prev ∧
    (∀ x, x ∈ anc s.tree cur → x ∈ anc s.tree prev → x ∈ anc s.tree d.common) ∧
    anc s.tree cur = d.connected ++ anc s.tree d.common ∧
    d.connected.reverse.Pairwise (fun a b => a.height < b.height) ∧
    (∀ x ∈ d.connected, d.common.height < x.height) := by
  have hL := findDiff_spec hw hc hcur hprev h
  refine ⟨hL.onCur, hL.onPrev, hL.lowest, hL.path, ?_, above_of_split hw hcur hL.path⟩
  have hs := anc_sorted hw _ cur rfl hcur
  rw [hL.path] at hs
  exact List.pairwise_reverse.mpr (List.pairwise_append.mp hs).1

example : (findDiff (exSrc 6 []) [] b6 b3 0).toOption.map (·.1) = some ⟨b1, [b6, b5, ⟨4, 1, 1, 4⟩]⟩ := by decide

/-- With a source that answers, the walk always finds the difference (the theorem above is not
    vacuous, and fuel `height + height + 1` is enough). -/
theorem find_difference_complete (s : Source) (c : Cache) (cur prev : Hdr) (req : Nat)
    (hw : wfTree s.tree = true) (hg : oneGenesis s.tree = true) (hs : s.Healthy) (hc : CacheOk s.tree c)
    (hcur : InTree s.tree cur) (hprev : InTree s.tree prev) :
    ∃ d r, findDiff s c cur prev req = .ok (d, r) :=
  findDiff_complete hw hg hs hc req hcur hprev

example : ∃ d r, findDiff (exSrc 6 []) [b5] b6 b3 7 = .ok (d, r) :=
  find_difference_complete _ _ _ _ _ (by decide) (by decide) ⟨fun _ => rfl, fun _ => rfl⟩
    (by intro x hx; simp at hx; subst hx; decide) (by decide) (by decide)

/-! ## the notifications always describe one chain of the tree -/

/-- What it means for a `connected` notification to fit (unfolding `applyNotif`): the block is in
    the tree, its parent is the listener's current tip and its height is exactly one more. -/
theorem connected_step_sound (t : Tree) (chain chain' : List Hdr) (h ht : Nat)
    (e : applyNotif t chain (.connected h ht) = some chain') :
    ∃ tip rest b, chain = tip :: rest ∧ hdrOf t h = some b ∧ b.parent = tip.hash ∧
      b.height = tip.height + 1 ∧ ht = b.height ∧ chain' = b :: chain := by
  cases chain with
  | nil => simp [applyNotif] at e
  | cons tip rest =>
    cases hb : hdrOf t h with
    | none => simp [applyNotif, hb] at e
    | some b =>
      simp only [applyNotif, hb] at e
      split at e
      · rename_i hcond
        simp only [Bool.and_eq_true, beq_iff_eq] at hcond
        cases e
        exact ⟨tip, rest, b, rfl, rfl, hcond.1.1, hcond.1.2, hcond.2, rfl⟩
      · cases e

/-- … and for a `disconnected` one: the target is a proper ancestor on the listener's chain, reported
    with its own height, and the chain is cut back to it. -/
theorem disconnected_step_sound (t : Tree) (chain chain' : List Hdr) (h ht : Nat)
    (e : applyNotif t chain (.disconnected h ht) = some chain') :
    ∃ tip b r, chain.head? = some tip ∧ tip.hash ≠ h ∧ chain' = b :: r ∧ b.hash = h ∧ b.height = ht ∧
      chain'.IsSuffix chain := by
  cases chain with
  | nil => simp [applyNotif] at e
  | cons tip rest =>
    simp only [applyNotif] at e
    split at e
    · cases e
    · rename_i hne
      split at e
      · cases e
      · rename_i b r hdw
        split at e
        · rename_i hht
          cases e
          have hsuf : (b :: r).IsSuffix rest := by rw [← hdw]; exact List.dropWhile_suffix _
          have hb : (fun x : Hdr => x.hash != h) b = false := dropWhile_head_false _ rest b r hdw
          refine ⟨tip, b, r, rfl, by simpa using hne, rfl, by simpa using hb, by simpa using hht, ?_⟩
          exact hsuf.trans (List.suffix_cons tip rest)
        · cases e

/-- One poll: whatever the source does, folding the emitted notifications over the listener's previous
    chain (genesis … old tip) succeeds — every `connected` block is a child of the tip before it, one
    higher; a `disconnected` goes to a proper ancestor — and yields exactly the chain
    genesis … `chain_tip` of the client after the poll. The cache stays consistent. -/
theorem notifications_single_chain_poll (s : Source) (cl : Client)
    (hw : wfTree s.tree = true) (hc : CacheOk s.tree cl.cache) (ht : InTree s.tree cl.tip) :
    applyNotifs s.tree (anc s.tree cl.tip) (pollBestTip s cl).notifs
        = some (anc s.tree (pollBestTip s cl).client.tip) ∧
    InTree s.tree (pollBestTip s cl).client.tip ∧ CacheOk s.tree (pollBestTip s cl).client.cache := by
  obtain ⟨h1, h2, h3, _⟩ := poll_spec hw hc ht _ rfl
  exact ⟨h1, h2, h3⟩

/-- Any history of polls (any sequence of best tips, failure schedules, forgotten blocks): the
    concatenation of all notifications, folded over the listener's initial chain, is the chain of the
    client's final `chain_tip`. In particular no block is ever skipped or delivered twice, across
    polls that were interrupted by source errors as well. -/
theorem notifications_single_chain (t : Tree) (cl : Client) (ss : List Source)
    (hw : wfTree t = true) (hs : ∀ s ∈ ss, s.tree = t) (hc : CacheOk t cl.cache) (ht : InTree t cl.tip) :
    applyNotifs t (anc t cl.tip) (runPolls cl ss).2 = some (anc t (runPolls cl ss).1.tip) :=
  (runPolls_spec hw ss cl hs hc ht).1

example : (pollBestTip (exSrc 6 []) ⟨b3, []⟩).notifs
    = [.disconnected 1 0, .connected 4 1, .connected 5 2, .connected 6 3] := by decide
example : applyNotifs exTree (anc exTree b3) (pollBestTip (exSrc 6 []) ⟨b3, []⟩).notifs
    = some (anc exTree b6) := by decide
-- two polls, the first one interrupted after one block (request 8 = the fetch of block 5 fails)
example : (runPolls ⟨b3, []⟩ [exSrc 6 [8], exSrc 6 []]).2
    = [.disconnected 1 0, .connected 4 1, .connected 5 2, .connected 6 3] ∧
    (runPolls ⟨b3, []⟩ [exSrc 6 [8]]).1.tip = ⟨4, 1, 1, 4⟩ := by decide

/-! ## the tip only improves; Worse / Common leave everything untouched -/

/-- `Common`, `Worse` (less **or equal** work) and a failed tip look-up: no notification, client state
    (chain_tip and cache) unchanged, and `blocks_connected = false`. -/
theorem worse_common_untouched (s : Source) (cl : Client) :
    (match (pollBestTip s cl).result with
      | .ok (.better _, _) => True
      | .ok (.worse w, conn) => conn = false ∧ w.work ≤ cl.tip.work ∧
          (pollBestTip s cl).notifs = [] ∧ (pollBestTip s cl).client = cl
      | .ok (.common, conn) => conn = false ∧ (pollBestTip s cl).notifs = [] ∧ (pollBestTip s cl).client = cl
      | .error _ => (pollBestTip s cl).notifs = [] ∧ (pollBestTip s cl).client = cl) := by
  unfold pollBestTip
  cases h : pollChainTip s 0 cl.tip with
  | error e => rcases e with ⟨e, r⟩; simp
  | ok v =>
    rcases v with ⟨k, r⟩
    cases k with
    | common => simp
    | worse w => simp [pollChainTip_worse h]
    | better b => simp

/-- `chain_tip` moves only on `Better`, i.e. towards a tip with strictly more work, and then only to
    a block on that better tip's chain; if the poll reports `blocks_connected = false` nothing was
    notified and `chain_tip` did not move. (No extra hypothesis: holds under every failure schedule.) -/
theorem tip_moves_toward_better (s : Source) (cl : Client)
    (hw : wfTree s.tree = true) (hc : CacheOk s.tree cl.cache) (ht : InTree s.tree cl.tip) :
    (pollBestTip s cl).client.tip = cl.tip ∨
    ∃ b conn, (pollBestTip s cl).result = .ok (.better b, conn) ∧ cl.tip.work < b.work ∧
      (pollBestTip s cl).client.tip ∈ anc s.tree b ∧
      (conn = false → (pollBestTip s cl).notifs = [] ∧ (pollBestTip s cl).client.tip = cl.tip) := by
  obtain ⟨_, _, _, h4⟩ := poll_spec hw hc ht _ rfl
  generalize pollBestTip s cl = o at *
  rcases o with ⟨res, cl', ns, r⟩
  cases res with
  | error e => simp only at h4; exact Or.inl (by rw [h4.2])
  | ok v =>
    rcases v with ⟨k, conn⟩
    cases k with
    | common => simp only at h4; exact Or.inl (by rw [h4.2.2])
    | worse w => simp only at h4; exact Or.inl (by rw [h4.2.2.2])
    | better b =>
      simp only at h4
      obtain ⟨_, hwk, hor, hconn⟩ := h4
      rcases hor with h | h
      · exact Or.inl h
      · exact Or.inr ⟨b, conn, rfl, hwk, h, hconn⟩

/-- PARTIAL (extra hypothesis: the source answers every request of this poll). Then a `Better` tip is
    reached: `chain_tip` becomes that tip, which has strictly more work, and `blocks_connected = true`;
    otherwise the client is unchanged.
    What is missing without the hypothesis: a reorg interrupted by a failed block fetch leaves
    `chain_tip` (and the listeners) at the last block delivered on the better chain — possibly the fork
    point itself, which has LESS work than the old tip (`interrupted_reorg_example` below; the real
    SpvClient does exactly this, see update_chain_tip's `Err((_, Some(chain_tip)))` arm). By
    `tip_moves_toward_better` that block is on the better tip's chain and by
    `notifications_single_chain` the listeners are exactly there, so the next poll resumes from it. -/
theorem tip_only_improves_partial (s : Source) (cl : Client)
    (hw : wfTree s.tree = true) (hg : oneGenesis s.tree = true) (hs : s.Healthy)
    (hc : CacheOk s.tree cl.cache) (ht : InTree s.tree cl.tip) :
    (match (pollBestTip s cl).result with
      | .ok (.better b, conn) => conn = true ∧ (pollBestTip s cl).client.tip = b ∧ cl.tip.work < b.work
      | _ => (pollBestTip s cl).client = cl) := by
  unfold pollBestTip
  cases h : pollChainTip s 0 cl.tip with
  | error e => rcases e with ⟨e, r⟩; simp
  | ok v =>
    rcases v with ⟨k, req⟩
    cases k with
    | common => simp
    | worse w => simp
    | better b =>
      obtain ⟨hbt, hwk⟩ := pollChainTip_better hw h
      have hres := sync_healthy hw hg hs hc req hbt ht
      simp [updateChainTip, hres, hwk]

/-- the missing part of `tip_only_improves_partial`, concretely: listener on 1←2←3 (work 6), better
    tip 6 (work 8); the first block fetch (request 7) fails: disconnected to the fork point 1 (work 2) -/
theorem interrupted_reorg_example :
    (pollBestTip (exSrc 6 [7]) ⟨b3, []⟩).notifs = [.disconnected 1 0] ∧
    (pollBestTip (exSrc 6 [7]) ⟨b3, []⟩).client.tip = b1 ∧
    (pollBestTip (exSrc 6 [7]) ⟨b3, []⟩).result = .ok (.better b6, true) ∧ b1.work < b3.work :=
  ⟨by decide, by decide, rfl, by decide⟩

example : (pollBestTip (exSrc 5 []) ⟨b3, []⟩).result = .ok (.worse b5, false) := rfl  -- equal work
example : (pollBestTip (exSrc 6 []) ⟨b3, []⟩).client.tip = b6 := by decide

/-! ## the result does not depend on the cache -/

/-- Two runs of find_difference on the same pair of tips with ANY two caches consistent with the tree
    and ANY two sources serving that tree (different schedules, different request offsets — a cache
    hit shifts every later request index) return the same difference whenever both succeed. A fork
    deeper than the cache is therefore resolved through the source with the same result. -/
theorem cache_miss_safe (s1 s2 : Source) (c1 c2 : Cache) (cur prev : Hdr) (r1 r2 : Nat)
    (d1 d2 : Diff) (q1 q2 : Nat)
    (hw : wfTree s1.tree = true) (ht : s2.tree = s1.tree)
    (hc1 : CacheOk s1.tree c1) (hc2 : CacheOk s1.tree c2)
    (hcur : InTree s1.tree cur) (hprev : InTree s1.tree prev)
    (h1 : findDiff s1 c1 cur prev r1 = .ok (d1, q1)) (h2 : findDiff s2 c2 cur prev r2 = .ok (d2, q2)) :
    d1 = d2 := by
  have hL1 := findDiff_spec hw hc1 hcur hprev h1
  have hL2 := findDiff_spec (s := s2) (by rw [ht]; exact hw) (by rw [ht]; exact hc2)
    (by rw [ht]; exact hcur) (by rw [ht]; exact hprev) h2
  rw [ht] at hL2
  exact hL1.unique hw hcur hL2

/-- … and with a source that answers, the whole poll (notifications, resulting tip, result) is the
    same for any two consistent caches. -/
theorem cache_miss_safe_poll (s : Source) (tip : Hdr) (c1 c2 : Cache)
    (hw : wfTree s.tree = true) (hg : oneGenesis s.tree = true) (hs : s.Healthy)
    (hc1 : CacheOk s.tree c1) (hc2 : CacheOk s.tree c2) (ht : InTree s.tree tip) :
    (pollBestTip s ⟨tip, c1⟩).notifs = (pollBestTip s ⟨tip, c2⟩).notifs ∧
    (pollBestTip s ⟨tip, c1⟩).client.tip = (pollBestTip s ⟨tip, c2⟩).client.tip ∧
    (pollBestTip s ⟨tip, c1⟩).result = (pollBestTip s ⟨tip, c2⟩).result := by
  unfold pollBestTip
  simp only
  cases hp : pollChainTip s 0 tip with
  | error e => rcases e with ⟨e, r⟩; simp
  | ok v =>
    rcases v with ⟨k, req⟩
    cases k with
    | common => simp
    | worse w => simp
    | better b =>
      obtain ⟨hbt, _⟩ := pollChainTip_better hw hp
      obtain ⟨d1, q1, e1⟩ := findDiff_complete hw hg hs hc1 req hbt ht
      obtain ⟨d2, q2, e2⟩ := findDiff_complete hw hg hs hc2 req hbt ht
      have hd : d1 = d2 := cache_miss_safe s s c1 c2 b tip req req d1 d2 q1 q2 hw rfl hc1 hc2 hbt ht e1 e2
      subst hd
      have hL := findDiff_spec hw hc1 hbt ht e1
      have hall : ∀ x ∈ d1.connected.reverse, InTree s.tree x := by
        intro x hx
        apply anc_inTree hw hbt
        rw [hL.path]; exact List.mem_append_left _ (List.mem_reverse.mp hx)
      have hp1 := fun tip c' req' => connectBlocks_prefix s d1.connected.reverse tip c' req'
      simp only [updateChainTip, synchronizeListener, e1, e2, hp1, fetchPrefix_healthy hs _ _ hall,
        beq_self_eq_true, if_true]
      simp

example : (pollBestTip (exSrc 6 []) ⟨b3, [b1, ⟨2, 1, 1, 4⟩]⟩).notifs = (pollBestTip (exSrc 6 []) ⟨b3, []⟩).notifs := by
  decide

/-! ## a source failure keeps exactly the delivered prefix -/

/-- Let the walk have succeeded with difference `d`, and let `j` be the number of block fetches that
    succeed before the first failure (`j = length` if none fails). Then the listener received the
    disconnect (iff the common ancestor differs from its old tip) followed by exactly the first `j`
    blocks of the ascending path, nothing else; `synchronize_listener` reports — and `update_chain_tip`
    stores as `chain_tip` — exactly the `j`-th block (the common ancestor if `j = 0`); and the listener's
    chain is the chain of that block. So `chain_tip` and the listeners agree after every error, and the
    next poll starts from where this one stopped (see `notifications_single_chain` for the history). -/
theorem error_keeps_prefix (s : Source) (c : Cache) (req : Nat) (new old : Hdr) (d : Diff) (req1 : Nat)
    (hw : wfTree s.tree = true) (hc : CacheOk s.tree c) (hn : InTree s.tree new) (ho : InTree s.tree old)
    (hfd : findDiff s c new old req = .ok (d, req1))
    (asc : List Hdr) (hasc : asc = d.connected.reverse)
    (j : Nat) (hj : j = fetchPrefix s req1 asc)
    (tip' : Hdr) (htip' : tip' = lastOr d.common (asc.take j)) :
    (synchronizeListener s c req new old).notifs =
        (if d.common ≠ old then [Notif.disconnected d.common.hash d.common.height] else [])
          ++ (asc.take j).map connNotif ∧
    (j < asc.length → (synchronizeListener s c req new old).res = .errAt tip') ∧
    (j = asc.length → (synchronizeListener s c req new old).res = .ok ∧ tip' = new) ∧
    (updateChainTip s ⟨old, c⟩ req new).1.tip = tip' ∧
    applyNotifs s.tree (anc s.tree old) (synchronizeListener s c req new old).notifs
        = some (anc s.tree tip') := by
  subst hasc hj htip'
  have hL := findDiff_spec hw hc hn ho hfd
  have hpath : anc s.tree new = d.connected.reverse.reverse ++ anc s.tree d.common := by simp [hL.path]
  have hpre := fun c' => connectBlocks_prefix s d.connected.reverse d.common c' req1
  have hsync := sync_chain hw hc hn ho _ (rfl : synchronizeListener s c req new old = _)
  have hupd : (updateChainTip s ⟨old, c⟩ req new).1.tip
      = syncTip (synchronizeListener s c req new old).res new old := by
    rcases hu : updateChainTip s ⟨old, c⟩ req new with ⟨cl', conn, ns, r⟩
    exact (update_spec hw (cl := ⟨old, c⟩) hc ho hn cl' conn ns r hu).2.2.2.2.2
  -- the reported tip
  have htip : syncTip (synchronizeListener s c req new old).res new old
      = lastOr d.common (d.connected.reverse.take (fetchPrefix s req1 d.connected.reverse)) := by
    unfold synchronizeListener
    simp only [hfd]
    by_cases hok : fetchPrefix s req1 d.connected.reverse = d.connected.reverse.length
    · have hc1 : CacheOk s.tree (if decide (d.common ≠ old) = true then cacheBlocksDisconnected c false d.common else c) := by
        split
        · exact cacheOk_blocksDisconnected hc _ _
        · exact hc
      have hf := (connectBlocks_fold hw hn d.connected.reverse d.common _ req1 hc1 hpath).2.2.2.1
      simp only [hpre, hok, beq_self_eq_true, if_true, syncTip] at hf ⊢
      exact (hf trivial).symm
    · have : (fetchPrefix s req1 d.connected.reverse == d.connected.reverse.length) = false := by simpa using hok
      simp only [hpre, this, Bool.false_eq_true, if_false, syncTip]
  refine ⟨?_, ?_, ?_, ?_, ?_⟩
  · unfold synchronizeListener
    simp only [hfd, hpre]
    by_cases hd : d.common = old <;> simp [hd]
  · intro hlt
    unfold synchronizeListener
    have : (fetchPrefix s req1 d.connected.reverse == d.connected.reverse.length) = false := by
      have : fetchPrefix s req1 d.connected.reverse ≠ d.connected.reverse.length := by omega
      simpa using this
    simp only [hfd, hpre, this, Bool.false_eq_true, if_false]
  · intro heq
    have hres : (synchronizeListener s c req new old).res = .ok := by
      unfold synchronizeListener
      simp only [hfd, hpre]
      simp [heq]
    refine ⟨hres, ?_⟩
    rw [← htip, hres]; rfl
  · rw [hupd, htip]
  · rw [← htip]; exact hsync.1

example : (synchronizeListener (exSrc 6 [8]) [] 2 b6 b3).res = .errAt ⟨4, 1, 1, 4⟩ ∧
    (synchronizeListener (exSrc 6 [8]) [] 2 b6 b3).notifs = [.disconnected 1 0, .connected 4 1] := by decide

/-- … and nothing is skipped or repeated on the next poll: if the source then answers (same tree, same
    best tip), the next poll delivers exactly the blocks that were still missing, in order, with no
    disconnect, and ends at the tip. -/
theorem error_then_resume (s s2 : Source) (c : Cache) (req : Nat) (new old : Hdr) (d : Diff) (req1 : Nat)
    (hw : wfTree s.tree = true) (hg : oneGenesis s.tree = true) (hc : CacheOk s.tree c)
    (hn : InTree s.tree new) (ho : InTree s.tree old)
    (hfd : findDiff s c new old req = .ok (d, req1))
    (asc : List Hdr) (hasc : asc = d.connected.reverse) (j : Nat) (hj : j = fetchPrefix s req1 asc)
    (hs2 : s2.Healthy) (ht2 : s2.tree = s.tree) (hb2 : s2.best = new.hash) :
    (pollBestTip s2 (updateChainTip s ⟨old, c⟩ req new).1).notifs = (asc.drop j).map connNotif ∧
    (pollBestTip s2 (updateChainTip s ⟨old, c⟩ req new).1).client.tip = new := by
  subst hasc hj
  have hk := error_keeps_prefix s c req new old d req1 hw hc hn ho hfd _ rfl _ rfl _ rfl
  rcases hu : updateChainTip s ⟨old, c⟩ req new with ⟨cl', conn, ns, r⟩
  obtain ⟨_, u2, u3, _, _, _⟩ := update_spec hw (cl := ⟨old, c⟩) hc ho hn cl' conn ns r hu
  have htip : cl'.tip = lastOr d.common (d.connected.reverse.take (fetchPrefix s req1 d.connected.reverse)) := by
    have := hk.2.2.2.1; rw [hu] at this; exact this
  simp only
  have hL := findDiff_spec hw hc hn ho hfd
  obtain ⟨k1, _⟩ := anc_lastOr hw (common := d.common) hn (d.connected.reverse.take (fetchPrefix s req1 d.connected.reverse))
    (d.connected.reverse.drop (fetchPrefix s req1 d.connected.reverse))
    (by rw [List.take_append_drop]; simp [hL.path])
  rw [← htip] at k1
  rcases s2 with ⟨tree2, best2, fails2, hidden2⟩
  simp only at ht2 hb2
  subst ht2 hb2
  have hf0 : ∀ k, fails2 k = false := hs2.1
  have hh0 : ∀ h, hidden2 h = false := hs2.2
  have hnew : hdrOf s.tree new.hash = some new := hn
  rcases Nat.lt_or_ge (fetchPrefix s req1 d.connected.reverse) d.connected.reverse.length with hlt | hge
  · -- interrupted: the remaining blocks are delivered
    have hne : d.connected.reverse.drop (fetchPrefix s req1 d.connected.reverse) ≠ [] := by
      intro h; have := congrArg List.length h
      simp only [List.length_drop, List.length_nil] at this; omega
    have hwk := anc_work_lt hw _ new hn k1 (by simpa using hne)
    have hhash : (new.hash == cl'.tip.hash) = false := by
      cases hq : new.hash == cl'.tip.hash with
      | false => rfl
      | true =>
        have : new = cl'.tip := inTree_hash_inj hn u2 (by simpa using hq)
        rw [← this] at hwk; omega
    have hpoll : pollChainTip ⟨s.tree, new.hash, fails2, hidden2⟩ 0 cl'.tip = .ok (.better new, 2) := by
      simp [pollChainTip, Source.getBestBlock, Source.getHeader, hf0, hh0, hhash, hnew, hwk]
    have hs2' : (Source.mk s.tree new.hash fails2 hidden2).Healthy := hs2
    obtain ⟨d2, q, e2⟩ := findDiff_complete (s := ⟨s.tree, new.hash, fails2, hidden2⟩) hw hg hs2' u3 2 hn u2
    have hL2 := findDiff_spec (s := ⟨s.tree, new.hash, fails2, hidden2⟩) hw u3 hn u2 e2
    have hcand : IsLca s.tree new cl'.tip
        ⟨cl'.tip, (d.connected.reverse.drop (fetchPrefix s req1 d.connected.reverse)).reverse⟩ :=
      ⟨k1, mem_anc_self _ _, fun x _ hx => hx⟩
    have hd2 : d2 = ⟨cl'.tip, (d.connected.reverse.drop (fetchPrefix s req1 d.connected.reverse)).reverse⟩ :=
      hL2.unique hw hn hcand
    subst hd2
    have hall : ∀ x ∈ d.connected.reverse.drop (fetchPrefix s req1 d.connected.reverse), InTree s.tree x := by
      intro x hx
      apply anc_inTree hw hn
      rw [hL.path]; exact List.mem_append_left _ (List.mem_reverse.mp (List.mem_of_mem_drop hx))
    have hp1 := fun tip c' req' => connectBlocks_prefix ⟨s.tree, new.hash, fails2, hidden2⟩
      (d.connected.reverse.drop (fetchPrefix s req1 d.connected.reverse)) tip c' req'
    have hfp := fun req' => fetchPrefix_healthy (s := ⟨s.tree, new.hash, fails2, hidden2⟩) hs2'
      (d.connected.reverse.drop (fetchPrefix s req1 d.connected.reverse)) req' hall
    simp only [pollBestTip, hpoll, updateChainTip, synchronizeListener, e2, List.reverse_reverse, hp1, hfp,
      beq_self_eq_true, if_true]
    simp
    apply List.take_of_length_le
    simp
  · -- everything had been delivered: the next poll sees a common tip
    have hj : fetchPrefix s req1 d.connected.reverse = d.connected.reverse.length := by
      have := fetchPrefix_le s d.connected.reverse req1; omega
    have htn : cl'.tip = new := by rw [htip]; exact (hk.2.2.1 hj).2
    have hpoll : pollChainTip ⟨s.tree, new.hash, fails2, hidden2⟩ 0 new = .ok (.common, 1) := by
      simp [pollChainTip, Source.getBestBlock, hf0]
    simp [pollBestTip, hpoll, htn, hj]

example : (pollBestTip (exSrc 6 []) (updateChainTip (exSrc 6 [8]) ⟨b3, []⟩ 2 b6).1).notifs
    = [.connected 5 2, .connected 6 3] := by decide

/-! ## start-up synchronisation brings every listener to the same tip -/

/-- Listeners last synced to different, possibly stale, blocks `p.1` (described by locators `p.2`
    whose `previous_blocks` are ancestors): if `synchronize_listeners` returns `Ok((cache, best))` —
    under any failure schedule that it survives, e.g. failed look-ups of forgotten stale tips that the
    locator fallback absorbs — then EVERY listener's notifications, folded over its own old chain, end
    at the chain of the same block `best`, which is the source's best block; the returned cache is
    consistent, so the `SpvClient` built from `(best, cache)` satisfies the hypotheses of the poll
    theorems above. -/
theorem listeners_converge (s : Source) (pairs : List (Hdr × Locator)) (best : Hdr) (cache : Cache)
    (hw : wfTree s.tree = true) (hl : ∀ p ∈ pairs, LocatorOk s.tree p.2 p.1)
    (h : (synchronizeListeners s (pairs.map (·.2))).result = .ok (best, cache)) :
    Forall2 (fun p ns => applyNotifs s.tree (anc s.tree p.1) ns = some (anc s.tree best)) pairs
      (synchronizeListeners s (pairs.map (·.2))).notifs ∧
    InTree s.tree best ∧ best.hash = s.best ∧ CacheOk s.tree cache := by
  unfold synchronizeListeners at h ⊢
  cases hbb : s.getBestBlock 0 with
  | error e => simp [hbb] at h
  | ok bh =>
    cases hgh : s.getHeader 1 bh with
    | error e => simp [hbb, hgh] at h
    | ok best' =>
      have hbh : bh = s.best := by
        unfold Source.getBestBlock at hbb
        split at hbb
        · cases hbb
        · cases hbb; rfl
      have hhd := getHeader_ok hgh
      have hbt : InTree s.tree best' := inTree_of_hdrOf hw hhd
      simp only [hbb, hgh] at h ⊢
      by_cases hok1 : (phase1 s best' (pairs.map (·.2)) [] 2 []).ok = true
      · obtain ⟨q1, q2, q3⟩ := phase1_spec hw hbt pairs [] 2 [] hl (cacheOk_nil _) ⟨best', by simp⟩ hok1
        obtain ⟨cm, hcm⟩ := q3
        have hall : ∀ b ∈ (phase1 s best' (pairs.map (·.2)) [] 2 []).most.reverse, InTree s.tree b := by
          intro b hb
          apply anc_inTree hw hbt
          rw [hcm]; exact List.mem_append_left _ (List.mem_reverse.mp hb)
        obtain ⟨r1, r2⟩ := phase2_spec s (t := s.tree) MAX_BLOCKS_AT_ONCE (by decide) _ _
          (phase1 s best' (pairs.map (·.2)) [] 2 []).cache (phase1 s best' (pairs.map (·.2)) [] 2 []).req
          (Nat.le_refl _) q2 hall
        simp only [hok1, Bool.not_true, Bool.false_eq_true, if_false] at h ⊢
        generalize phase2 s MAX_BLOCKS_AT_ONCE (phase1 s best' (pairs.map (·.2)) [] 2 []).most.reverse.length
          (phase1 s best' (pairs.map (·.2)) [] 2 []).most.reverse
          (phase1 s best' (pairs.map (·.2)) [] 2 []).cache (phase1 s best' (pairs.map (·.2)) [] 2 []).req = p2 at *
        rcases p2 with ⟨ok, c, r, delivered⟩
        cases ok with
        | false => simp at h
        | true =>
          simp only [if_true, Except.ok.injEq, Prod.mk.injEq] at h ⊢
          obtain ⟨hb', hc'⟩ := h
          subst hb' hc'
          simp only at r1 r2
          have hdel := r1 trivial
          subst hdel
          refine ⟨?_, hbt, ?_, r2⟩
          · apply forall2_map_right _ q1
            intro bl p hp
            obtain ⟨common, dconn, e1, hct, e3, e4, e5⟩ := hp
            rw [e1]
            simp only
            rw [applyNotifs_append, e5]
            simp only [Option.bind]
            rw [connectedFor_most hw hbt e3 hcm hct e4]
            exact apply_connect_path hw hbt dconn.reverse common (by simp [e3])
          · rw [(hdrOf_some hhd).2, hbh]
      · simp [hok1] at h

-- stale listener on 3, another already on the best chain at 5, a fresh one at genesis
example : (synchronizeListeners (exSrc 6 []) [⟨3, 2, [some 2, some 1]⟩, ⟨5, 2, []⟩, ⟨1, 0, []⟩]).notifs =
    [[.disconnected 1 0, .connected 4 1, .connected 5 2, .connected 6 3], [.connected 6 3],
     [.connected 4 1, .connected 5 2, .connected 6 3]] := by decide
example : LocatorOk exTree ⟨3, 2, [some 2, some 1]⟩ b3 := by
  refine ⟨by decide, rfl, ?_⟩
  intro d h x hm hx
  simp [Locator.candidates, prevCandidates] at hm
  rcases hm with ⟨_, rfl⟩ | ⟨_, rfl⟩ | ⟨_, rfl⟩ <;> (cases hx; decide)

end Ldk.C20
