/- C20 — The chain-sync client keeps listeners on one consistent chain at the best tip.
   Property theorems only; the model is Model/ChainSync.lean (the functions the driver runs), helper
   lemmas are in Proofs/ChainSync.lean.  Every statement quantifies over ALL block trees `t`
   (`wfTree t`: hashes are keys, parent one lower with strictly less cumulative work, height-0 blocks
   have no parent in the tree), all failure schedules / hidden-block sets of the source, all caches
   consistent with the tree, all request offsets.  Chains are written tip first:
   `anc t b = [b, parent b, …, genesis]`; the ascending path is its reverse. -/
import LdkModel.Proofs.ChainSync
import LdkModel.Proofs.ChainSyncErrKind
namespace Ldk.C20
open Ldk Ldk.ChainSync

/-! ## the hypothesis is satisfiable: a concrete forked tree (1 ← 2 ← 3 and 1 ← 4 ← 5 ← 6) -/

/-- header `hash ← parent` at `height` with cumulative work `work`, every block of work 2 at bits 7 -/
def hd (hash parent height work : Nat) : Hdr := ⟨hash, parent, height, work, 7, 2⟩
def exTree : Tree :=
  [hd 1 0 0 2, hd 2 1 1 4, hd 3 2 2 6, hd 4 1 1 4, hd 5 4 2 6, hd 6 5 3 8]
/-- index of a request within its operation -/
def Req.idx : Req → Nat
  | .best k => k
  | .header k _ => k
  | .block k _ => k
def exSrc (best : Nat) (failing : List Nat) : Source :=
  { tree := exTree, best := best, fails := fun r => failing.contains (Req.idx r), hidden := fun _ => false }
def b1 : Hdr := hd 1 0 0 2
def b3 : Hdr := hd 3 2 2 6
def b4 : Hdr := hd 4 1 1 4
def b5 : Hdr := hd 5 4 2 6
def b6 : Hdr := hd 6 5 3 8

example : wfTree exTree = true ∧ oneGenesis exTree = true := by decide
example : InTree exTree b3 ∧ InTree exTree b6 ∧ anc exTree b6 = [b6, b5, b4, b1] := by decide
example : (exSrc 6 []).Healthy := ⟨fun _ => rfl, fun _ => rfl, fun h => by cases h⟩

/-! ## find_difference returns the lowest common ancestor and the path above it -/

/-- Whenever `find_difference_from_header` succeeds — whatever the cache holds, whichever requests
    were answered from the cache or by the source, whatever the schedule — `common` is a common
    ancestor of both tips, every common ancestor is an ancestor of `common` (lowest), and
    `connected` is exactly the part of the new tip's chain above `common` (new tip first; reversed =
    ascending heights, the order in which `connect_blocks` walks it). -/
theorem find_difference_lca (s : Source) (c : Cache) (cur prev : Hdr) (req : Nat) (d : Diff) (r : Nat)
    (hw : wfTree s.tree = true) (hc : CacheOk s.tree c)
    (hcur : InTree s.tree cur) (hprev : InTree s.tree prev)
    (h : findDiff s c cur prev req = .ok (d, r)) :
    d.common ∈ anc s.tree cur ∧ d.common ∈ anc s.tree prev ∧
    (∀ x, x ∈ anc s.tree cur → x ∈ anc s.tree prev → x ∈ anc s.tree d.common) ∧
    anc s.tree cur = d.connected ++ anc s.tree d.common ∧
    d.connected.reverse.Pairwise (fun a b => a.height < b.height) ∧
    (∀ x ∈ d.connected, d.common.height < x.height) := by
  have hL := findDiff_spec hw hc hcur hprev h
  refine ⟨hL.onCur, hL.onPrev, hL.lowest, hL.path, ?_, above_of_split hw hcur hL.path⟩
  have hs := anc_sorted hw _ cur rfl hcur
  rw [hL.path] at hs
  exact List.pairwise_reverse.mpr (List.pairwise_append.mp hs).1

example : (findDiff (exSrc 6 []) [] b6 b3 0).toOption.map (·.1) = some ⟨b1, [b6, b5, b4]⟩ := by decide

/-- With a source that answers, the walk always finds the difference (the theorem above is not
    vacuous, and fuel `height + height + 1` is enough). -/
theorem find_difference_complete (s : Source) (c : Cache) (cur prev : Hdr) (req : Nat)
    (hw : wfTree s.tree = true) (hg : oneGenesis s.tree = true) (hs : s.Healthy) (hc : CacheOk s.tree c)
    (hcur : InTree s.tree cur) (hprev : InTree s.tree prev) :
    ∃ d r, findDiff s c cur prev req = .ok (d, r) :=
  findDiff_complete hw hg hs hc req hcur hprev

example : ∃ d r, findDiff (exSrc 6 []) [b5] b6 b3 7 = .ok (d, r) :=
  find_difference_complete _ _ _ _ _ (by decide) (by decide) ⟨fun _ => rfl, fun _ => rfl, fun h => by cases h⟩
    (by intro x hx; simp at hx; subst hx; decide) (by decide) (by decide)

/-! ## the notifications always describe one chain of the tree -/

/-- What it means for a `connected` notification to fit (unfolding `applyNotif`): the block is in
    the tree, its parent is the listener's current tip and its height is exactly one more. -/
theorem connected_step_sound (t : Tree) (chain chain' : List Hdr) (h ht : Nat)
    (e : applyNotif t chain (.connected h ht) = some chain') :
    ∃ tip rest b, chain = tip :: rest ∧ hdrOf t h = some b ∧ b.parent = tip.hash ∧
      b.height = tip.height + 1 ∧ ht = b.height ∧ chain' = b :: chain := by
  cases chain with
  | nil => simp [applyNotif] at e
  | cons tip rest =>
    cases hb : hdrOf t h with
    | none => simp [applyNotif, hb] at e
    | some b =>
      simp only [applyNotif, hb] at e
      split at e
      · rename_i hcond
        simp only [Bool.and_eq_true, beq_iff_eq] at hcond
        cases e
        exact ⟨tip, rest, b, rfl, rfl, hcond.1.1, hcond.1.2, hcond.2, rfl⟩
      · cases e

/-- … and for a `disconnected` one: the target is a proper ancestor on the listener's chain, reported
    with its own height, and the chain is cut back to it. -/
theorem disconnected_step_sound (t : Tree) (chain chain' : List Hdr) (h ht : Nat)
    (e : applyNotif t chain (.disconnected h ht) = some chain') :
    ∃ tip b r, chain.head? = some tip ∧ tip.hash ≠ h ∧ chain' = b :: r ∧ b.hash = h ∧ b.height = ht ∧
      chain'.IsSuffix chain := by
  cases chain with
  | nil => simp [applyNotif] at e
  | cons tip rest =>
    simp only [applyNotif] at e
    split at e
    · cases e
    · rename_i hne
      split at e
      · cases e
      · rename_i b r hdw
        split at e
        · rename_i hht
          cases e
          have hsuf : (b :: r).IsSuffix rest := by rw [← hdw]; exact List.dropWhile_suffix _
          have hb : (fun x : Hdr => x.hash != h) b = false := dropWhile_head_false _ rest b r hdw
          refine ⟨tip, b, r, rfl, by simpa using hne, rfl, by simpa using hb, by simpa using hht, ?_⟩
          exact hsuf.trans (List.suffix_cons tip rest)
        · cases e

/-- One poll: whatever the source does, folding the emitted notifications over the listener's previous
    chain (genesis … old tip) succeeds — every `connected` block is a child of the tip before it, one
    higher; a `disconnected` goes to a proper ancestor — and yields exactly the chain
    genesis … `chain_tip` of the client after the poll. The cache stays consistent. -/
theorem notifications_single_chain_poll (s : Source) (cl : Client)
    (hw : wfTree s.tree = true) (hc : CacheOk s.tree cl.cache) (ht : InTree s.tree cl.tip) :
    applyNotifs s.tree (anc s.tree cl.tip) (pollBestTip s cl).notifs
        = some (anc s.tree (pollBestTip s cl).client.tip) ∧
    InTree s.tree (pollBestTip s cl).client.tip ∧ CacheOk s.tree (pollBestTip s cl).client.cache := by
  obtain ⟨h1, h2, h3, _⟩ := poll_spec hw hc ht _ rfl
  exact ⟨h1, h2, h3⟩

/-- Any history of polls (any sequence of best tips, failure schedules, forgotten blocks): the
    concatenation of all notifications, folded over the listener's initial chain, is the chain of the
    client's final `chain_tip`. In particular no block is ever skipped or delivered twice, across
    polls that were interrupted by source errors as well. -/
theorem notifications_single_chain (t : Tree) (cl : Client) (ss : List Source)
    (hw : wfTree t = true) (hs : ∀ s ∈ ss, s.tree = t) (hc : CacheOk t cl.cache) (ht : InTree t cl.tip) :
    applyNotifs t (anc t cl.tip) (runPolls cl ss).2 = some (anc t (runPolls cl ss).1.tip) :=
  (runPolls_spec hw ss cl hs hc ht).1

example : (pollBestTip (exSrc 6 []) ⟨b3, []⟩).notifs
    = [.disconnected 1 0, .connected 4 1, .connected 5 2, .connected 6 3] := by decide
example : applyNotifs exTree (anc exTree b3) (pollBestTip (exSrc 6 []) ⟨b3, []⟩).notifs
    = some (anc exTree b6) := by decide
-- two polls, the first one interrupted after one block (request 8 = the fetch of block 5 fails)
example : (runPolls ⟨b3, []⟩ [exSrc 6 [8], exSrc 6 []]).2
    = [.disconnected 1 0, .connected 4 1, .connected 5 2, .connected 6 3] ∧
    (runPolls ⟨b3, []⟩ [exSrc 6 [8]]).1.tip = b4 := by decide

/-! ## the tip only improves; Worse / Common leave everything untouched -/

/-- `Common`, `Worse` (less **or equal** work) and a failed tip look-up: no notification, client state
    (chain_tip and cache) unchanged, and `blocks_connected = false`. -/
theorem worse_common_untouched (s : Source) (cl : Client) :
    (match (pollBestTip s cl).result with
      | .ok (.better _, _) => True
      | .ok (.worse w, conn) => conn = false ∧ w.work ≤ cl.tip.work ∧
          (pollBestTip s cl).notifs = [] ∧ (pollBestTip s cl).client = cl
      | .ok (.common, conn) => conn = false ∧ (pollBestTip s cl).notifs = [] ∧ (pollBestTip s cl).client = cl
      | .error _ => (pollBestTip s cl).notifs = [] ∧ (pollBestTip s cl).client = cl) := by
  unfold pollBestTip
  cases h : pollChainTip s 0 cl.tip with
  | error e => rcases e with ⟨e, r⟩; simp
  | ok v =>
    rcases v with ⟨k, r⟩
    cases k with
    | common => simp
    | worse w => simp [pollChainTip_worse h]
    | better b => simp

/-- `chain_tip` moves only on `Better`, i.e. towards a tip with strictly more work, and then only to
    a block on that better tip's chain; if the poll reports `blocks_connected = false` nothing was
    notified and `chain_tip` did not move. (No extra hypothesis: holds under every failure schedule.) -/
theorem tip_moves_toward_better (s : Source) (cl : Client)
    (hw : wfTree s.tree = true) (hc : CacheOk s.tree cl.cache) (ht : InTree s.tree cl.tip) :
    (pollBestTip s cl).client.tip = cl.tip ∨
    ∃ b conn, (pollBestTip s cl).result = .ok (.better b, conn) ∧ cl.tip.work < b.work ∧
      (pollBestTip s cl).client.tip ∈ anc s.tree b ∧
      (conn = false → (pollBestTip s cl).notifs = [] ∧ (pollBestTip s cl).client.tip = cl.tip) := by
  obtain ⟨_, _, _, h4⟩ := poll_spec hw hc ht _ rfl
  generalize pollBestTip s cl = o at *
  rcases o with ⟨res, cl', ns, r⟩
  cases res with
  | error e => simp only at h4; exact Or.inl (by rw [h4.2])
  | ok v =>
    rcases v with ⟨k, conn⟩
    cases k with
    | common => simp only at h4; exact Or.inl (by rw [h4.2.2])
    | worse w => simp only at h4; exact Or.inl (by rw [h4.2.2.2])
    | better b =>
      simp only at h4
      obtain ⟨_, hwk, hor, hconn⟩ := h4
      rcases hor with h | h
      · exact Or.inl h
      · exact Or.inr ⟨b, conn, rfl, hwk, h, hconn⟩

/-- PARTIAL (extra hypothesis: the source answers every request of this poll). Then a `Better` tip is
    reached: `chain_tip` becomes that tip, which has strictly more work, and `blocks_connected = true`;
    otherwise the client is unchanged.
    What is missing without the hypothesis: a reorg interrupted by a failed block fetch leaves
    `chain_tip` (and the listeners) at the last block delivered on the better chain — possibly the fork
    point itself, which has LESS work than the old tip (`interrupted_reorg_example` below; the real
    SpvClient does exactly this, see update_chain_tip's `Err((_, Some(chain_tip)))` arm). By
    `tip_moves_toward_better` that block is on the better tip's chain and by
    `notifications_single_chain` the listeners are exactly there, so the next poll resumes from it. -/
theorem tip_only_improves_partial (s : Source) (cl : Client)
    (hw : wfTree s.tree = true) (hg : oneGenesis s.tree = true) (hs : s.Healthy)
    (hc : CacheOk s.tree cl.cache) (ht : InTree s.tree cl.tip) :
    (match (pollBestTip s cl).result with
      | .ok (.better b, conn) => conn = true ∧ (pollBestTip s cl).client.tip = b ∧ cl.tip.work < b.work
      | _ => (pollBestTip s cl).client = cl) := by
  unfold pollBestTip
  cases h : pollChainTip s 0 cl.tip with
  | error e => rcases e with ⟨e, r⟩; simp
  | ok v =>
    rcases v with ⟨k, req⟩
    cases k with
    | common => simp
    | worse w => simp
    | better b =>
      obtain ⟨hbt, hwk⟩ := pollChainTip_better hw h
      have hres := sync_healthy hw hg hs hc req hbt ht
      simp [updateChainTip, hres, hwk]

/-- the missing part of `tip_only_improves_partial`, concretely: listener on 1←2←3 (work 6), better
    tip 6 (work 8); the first block fetch (request 7) fails: disconnected to the fork point 1 (work 2) -/
theorem interrupted_reorg_example :
    (pollBestTip (exSrc 6 [7]) ⟨b3, []⟩).notifs = [.disconnected 1 0] ∧
    (pollBestTip (exSrc 6 [7]) ⟨b3, []⟩).client.tip = b1 ∧
    (pollBestTip (exSrc 6 [7]) ⟨b3, []⟩).result = .ok (.better b6, true) ∧ b1.work < b3.work :=
  ⟨by decide, by decide, rfl, by decide⟩

example : (pollBestTip (exSrc 5 []) ⟨b3, []⟩).result = .ok (.worse b5, false) := rfl  -- equal work
example : (pollBestTip (exSrc 6 []) ⟨b3, []⟩).client.tip = b6 := by decide

/-! ## the result does not depend on the cache -/

/-- Two runs of find_difference on the same pair of tips with ANY two caches consistent with the tree
    and ANY two sources serving that tree (different schedules, different request offsets — a cache
    hit shifts every later request index) return the same difference whenever both succeed. A fork
    deeper than the cache is therefore resolved through the source with the same result. -/
theorem cache_miss_safe (s1 s2 : Source) (c1 c2 : Cache) (cur prev : Hdr) (r1 r2 : Nat)
    (d1 d2 : Diff) (q1 q2 : Nat)
    (hw : wfTree s1.tree = true) (ht : s2.tree = s1.tree)
    (hc1 : CacheOk s1.tree c1) (hc2 : CacheOk s1.tree c2)
    (hcur : InTree s1.tree cur) (hprev : InTree s1.tree prev)
    (h1 : findDiff s1 c1 cur prev r1 = .ok (d1, q1)) (h2 : findDiff s2 c2 cur prev r2 = .ok (d2, q2)) :
    d1 = d2 := by
  have hL1 := findDiff_spec hw hc1 hcur hprev h1
  have hL2 := findDiff_spec (s := s2) (by rw [ht]; exact hw) (by rw [ht]; exact hc2)
    (by rw [ht]; exact hcur) (by rw [ht]; exact hprev) h2
  rw [ht] at hL2
  exact hL1.unique hw hcur hL2

/-- … and with a source that answers, the whole poll (notifications, resulting tip, result) is the
    same for any two consistent caches. -/
theorem cache_miss_safe_poll (s : Source) (tip : Hdr) (c1 c2 : Cache)
    (hw : wfTree s.tree = true) (hg : oneGenesis s.tree = true) (hs : s.Healthy)
    (hc1 : CacheOk s.tree c1) (hc2 : CacheOk s.tree c2) (ht : InTree s.tree tip) :
    (pollBestTip s ⟨tip, c1⟩).notifs = (pollBestTip s ⟨tip, c2⟩).notifs ∧
    (pollBestTip s ⟨tip, c1⟩).client.tip = (pollBestTip s ⟨tip, c2⟩).client.tip ∧
    (pollBestTip s ⟨tip, c1⟩).result = (pollBestTip s ⟨tip, c2⟩).result := by
  unfold pollBestTip
  simp only
  cases hp : pollChainTip s 0 tip with
  | error e => rcases e with ⟨e, r⟩; simp
  | ok v =>
    rcases v with ⟨k, req⟩
    cases k with
    | common => simp
    | worse w => simp
    | better b =>
      obtain ⟨hbt, _⟩ := pollChainTip_better hw hp
      obtain ⟨d1, q1, e1⟩ := findDiff_complete hw hg hs hc1 req hbt ht
      obtain ⟨d2, q2, e2⟩ := findDiff_complete hw hg hs hc2 req hbt ht
      have hd : d1 = d2 := cache_miss_safe s s c1 c2 b tip req req d1 d2 q1 q2 hw rfl hc1 hc2 hbt ht e1 e2
      subst hd
      have hL := findDiff_spec hw hc1 hbt ht e1
      have hall : ∀ x ∈ d1.connected.reverse, InTree s.tree x := by
        intro x hx
        apply anc_inTree hw hbt
        rw [hL.path]; exact List.mem_append_left _ (List.mem_reverse.mp hx)
      have hp1 := fun tip c' req' => connectBlocks_prefix s d1.connected.reverse tip c' req'
      simp only [updateChainTip, synchronizeListener, e1, e2, hp1, fetchPrefix_healthy hs _ _ hall,
        beq_self_eq_true, if_true]
      simp

example : (pollBestTip (exSrc 6 []) ⟨b3, [b1, hd 2 1 1 4]⟩).notifs = (pollBestTip (exSrc 6 []) ⟨b3, []⟩).notifs := by
  decide

/-! ## a source failure keeps exactly the delivered prefix -/

/-- Let the walk have succeeded with difference `d`, and let `j` be the number of block fetches that
    succeed before the first failure (`j = length` if none fails). Then the listener received the
    disconnect (iff the common ancestor differs from its old tip) followed by exactly the first `j`
    blocks of the ascending path, nothing else; `synchronize_listener` reports — and `update_chain_tip`
    stores as `chain_tip` — exactly the `j`-th block (the common ancestor if `j = 0`); and the listener's
    chain is the chain of that block. So `chain_tip` and the listeners agree after every error, and the
    next poll starts from where this one stopped (see `notifications_single_chain` for the history). -/
theorem error_keeps_prefix (s : Source) (c : Cache) (req : Nat) (new old : Hdr) (d : Diff) (req1 : Nat)
    (hw : wfTree s.tree = true) (hc : CacheOk s.tree c) (hn : InTree s.tree new) (ho : InTree s.tree old)
    (hfd : findDiff s c new old req = .ok (d, req1))
    (asc : List Hdr) (hasc : asc = d.connected.reverse)
    (j : Nat) (hj : j = fetchPrefix s req1 asc)
    (tip' : Hdr) (htip' : tip' = lastOr d.common (asc.take j)) :
    (synchronizeListener s c req new old).notifs =
        (if d.common ≠ old then [Notif.disconnected d.common.hash d.common.height] else [])
          ++ (asc.take j).map connNotif ∧
    (j < asc.length → (synchronizeListener s c req new old).res = .errAt tip') ∧
    (j = asc.length → (synchronizeListener s c req new old).res = .ok ∧ tip' = new) ∧
    (updateChainTip s ⟨old, c⟩ req new).1.tip = tip' ∧
    applyNotifs s.tree (anc s.tree old) (synchronizeListener s c req new old).notifs
        = some (anc s.tree tip') := by
  subst hasc hj htip'
  have hL := findDiff_spec hw hc hn ho hfd
  have hpath : anc s.tree new = d.connected.reverse.reverse ++ anc s.tree d.common := by simp [hL.path]
  have hpre := fun c' => connectBlocks_prefix s d.connected.reverse d.common c' req1
  have hsync := sync_chain hw hc hn ho _ (rfl : synchronizeListener s c req new old = _)
  have hupd : (updateChainTip s ⟨old, c⟩ req new).1.tip
      = syncTip (synchronizeListener s c req new old).res new old := by
    rcases hu : updateChainTip s ⟨old, c⟩ req new with ⟨cl', conn, ns, r⟩
    exact (update_spec hw (cl := ⟨old, c⟩) hc ho hn cl' conn ns r hu).2.2.2.2.2
  -- the reported tip
  have htip : syncTip (synchronizeListener s c req new old).res new old
      = lastOr d.common (d.connected.reverse.take (fetchPrefix s req1 d.connected.reverse)) := by
    unfold synchronizeListener
    simp only [hfd, syncDisconnects]
    by_cases hok : fetchPrefix s req1 d.connected.reverse = d.connected.reverse.length
    · have hc1 : CacheOk s.tree (if decide (d.common ≠ old) = true then cacheBlocksDisconnected c false d.common else c) := by
        split
        · exact cacheOk_blocksDisconnected hc _ _
        · exact hc
      have hf := (connectBlocks_fold hw hn d.connected.reverse d.common _ req1 hc1 hpath).2.2.2.1
      simp only [hpre, hok, beq_self_eq_true, if_true, syncTip] at hf ⊢
      exact (hf trivial).symm
    · have : (fetchPrefix s req1 d.connected.reverse == d.connected.reverse.length) = false := by simpa using hok
      simp only [hpre, this, Bool.false_eq_true, if_false, syncTip]
  refine ⟨?_, ?_, ?_, ?_, ?_⟩
  · unfold synchronizeListener
    simp only [hfd, hpre, syncDisconnects]
    by_cases hd : d.common = old <;> simp [hd, discNotif, disconnectLocator]
  · intro hlt
    unfold synchronizeListener
    have : (fetchPrefix s req1 d.connected.reverse == d.connected.reverse.length) = false := by
      have : fetchPrefix s req1 d.connected.reverse ≠ d.connected.reverse.length := by omega
      simpa using this
    simp only [hfd, hpre, this, Bool.false_eq_true, if_false]
  · intro heq
    have hres : (synchronizeListener s c req new old).res = .ok := by
      unfold synchronizeListener
      simp only [hfd, hpre]
      simp [heq]
    refine ⟨hres, ?_⟩
    rw [← htip, hres]; rfl
  · rw [hupd, htip]
  · rw [← htip]; exact hsync.1

example : (synchronizeListener (exSrc 6 [8]) [] 2 b6 b3).res = .errAt b4 ∧
    (synchronizeListener (exSrc 6 [8]) [] 2 b6 b3).notifs = [.disconnected 1 0, .connected 4 1] := by decide

/-- … and nothing is skipped or repeated on the next poll: if the source then answers (same tree, same
    best tip), the next poll delivers exactly the blocks that were still missing, in order, with no
    disconnect, and ends at the tip. -/
theorem error_then_resume (s s2 : Source) (c : Cache) (req : Nat) (new old : Hdr) (d : Diff) (req1 : Nat)
    (hw : wfTree s.tree = true) (hg : oneGenesis s.tree = true) (hc : CacheOk s.tree c)
    (hn : InTree s.tree new) (ho : InTree s.tree old)
    (hfd : findDiff s c new old req = .ok (d, req1))
    (asc : List Hdr) (hasc : asc = d.connected.reverse) (j : Nat) (hj : j = fetchPrefix s req1 asc)
    (hs2 : s2.Healthy) (ht2 : s2.tree = s.tree) (hb2 : s2.best = new.hash) :
    (pollBestTip s2 (updateChainTip s ⟨old, c⟩ req new).1).notifs = (asc.drop j).map connNotif ∧
    (pollBestTip s2 (updateChainTip s ⟨old, c⟩ req new).1).client.tip = new := by
  subst hasc hj
  have hk := error_keeps_prefix s c req new old d req1 hw hc hn ho hfd _ rfl _ rfl _ rfl
  rcases hu : updateChainTip s ⟨old, c⟩ req new with ⟨cl', conn, ns, r⟩
  obtain ⟨_, u2, u3, _, _, _⟩ := update_spec hw (cl := ⟨old, c⟩) hc ho hn cl' conn ns r hu
  have htip : cl'.tip = lastOr d.common (d.connected.reverse.take (fetchPrefix s req1 d.connected.reverse)) := by
    have := hk.2.2.2.1; rw [hu] at this; exact this
  simp only
  have hL := findDiff_spec hw hc hn ho hfd
  obtain ⟨k1, _⟩ := anc_lastOr hw (common := d.common) hn (d.connected.reverse.take (fetchPrefix s req1 d.connected.reverse))
    (d.connected.reverse.drop (fetchPrefix s req1 d.connected.reverse))
    (by rw [List.take_append_drop]; simp [hL.path])
  rw [← htip] at k1
  rcases s2 with ⟨tree2, best2, fails2, hidden2, bitcoin2, transient2⟩
  simp only at ht2 hb2
  subst ht2 hb2
  have hf0 : ∀ k, fails2 k = false := hs2.1
  have hh0 : ∀ h, hidden2 h = false := hs2.2.1
  have hnew : hdrOf s.tree new.hash = some new := hn
  rcases Nat.lt_or_ge (fetchPrefix s req1 d.connected.reverse) d.connected.reverse.length with hlt | hge
  · -- interrupted: the remaining blocks are delivered
    have hne : d.connected.reverse.drop (fetchPrefix s req1 d.connected.reverse) ≠ [] := by
      intro h; have := congrArg List.length h
      simp only [List.length_drop, List.length_nil] at this; omega
    have hwk := anc_work_lt hw _ new hn k1 (by simpa using hne)
    have hhash : (new.hash == cl'.tip.hash) = false := by
      cases hq : new.hash == cl'.tip.hash with
      | false => rfl
      | true =>
        have : new = cl'.tip := inTree_hash_inj hn u2 (by simpa using hq)
        rw [← this] at hwk; omega
    have hpoll : pollChainTip ⟨s.tree, new.hash, fails2, hidden2, bitcoin2, transient2⟩ 0 cl'.tip = .ok (.better new, 2) := by
      have hhash' : ¬ new.hash = cl'.tip.hash := by simpa using hhash
      simp [pollChainTip, Source.getBestBlock, Source.getHeader, hf0, hh0, hhash', hnew, hwk, tipIsCommon, tipIsBetter]
    have hs2' : (Source.mk s.tree new.hash fails2 hidden2 bitcoin2 transient2).Healthy := hs2
    obtain ⟨d2, q, e2⟩ := findDiff_complete (s := ⟨s.tree, new.hash, fails2, hidden2, bitcoin2, transient2⟩) hw hg hs2' u3 2 hn u2
    have hL2 := findDiff_spec (s := ⟨s.tree, new.hash, fails2, hidden2, bitcoin2, transient2⟩) hw u3 hn u2 e2
    have hcand : IsLca s.tree new cl'.tip
        ⟨cl'.tip, (d.connected.reverse.drop (fetchPrefix s req1 d.connected.reverse)).reverse⟩ :=
      ⟨k1, mem_anc_self _ _, fun x _ hx => hx⟩
    have hd2 : d2 = ⟨cl'.tip, (d.connected.reverse.drop (fetchPrefix s req1 d.connected.reverse)).reverse⟩ :=
      hL2.unique hw hn hcand
    subst hd2
    have hall : ∀ x ∈ d.connected.reverse.drop (fetchPrefix s req1 d.connected.reverse), InTree s.tree x := by
      intro x hx
      apply anc_inTree hw hn
      rw [hL.path]; exact List.mem_append_left _ (List.mem_reverse.mp (List.mem_of_mem_drop hx))
    have hp1 := fun tip c' req' => connectBlocks_prefix ⟨s.tree, new.hash, fails2, hidden2, bitcoin2, transient2⟩
      (d.connected.reverse.drop (fetchPrefix s req1 d.connected.reverse)) tip c' req'
    have hfp := fun req' => fetchPrefix_healthy (s := ⟨s.tree, new.hash, fails2, hidden2, bitcoin2, transient2⟩) hs2'
      (d.connected.reverse.drop (fetchPrefix s req1 d.connected.reverse)) req' hall
    simp only [pollBestTip, hpoll, updateChainTip, synchronizeListener, syncDisconnects, e2, List.reverse_reverse, hp1, hfp,
      beq_self_eq_true, if_true]
    simp
    apply List.take_of_length_le
    simp
  · -- everything had been delivered: the next poll sees a common tip
    have hj : fetchPrefix s req1 d.connected.reverse = d.connected.reverse.length := by
      have := fetchPrefix_le s d.connected.reverse req1; omega
    have htn : cl'.tip = new := by rw [htip]; exact (hk.2.2.1 hj).2
    have hpoll : pollChainTip ⟨s.tree, new.hash, fails2, hidden2, bitcoin2, transient2⟩ 0 new = .ok (.common, 1) := by
      simp [pollChainTip, Source.getBestBlock, hf0, tipIsCommon]
    simp [pollBestTip, hpoll, htn, hj]

example : (pollBestTip (exSrc 6 []) (updateChainTip (exSrc 6 [8]) ⟨b3, []⟩ 2 b6).1).notifs
    = [.connected 5 2, .connected 6 3] := by decide

/-! ## start-up synchronisation brings every listener to the same tip -/

/-- Listeners last synced to different, possibly stale, blocks `p.1` (described by locators `p.2`
    whose `previous_blocks` are ancestors): if `synchronize_listeners` returns `Ok((cache, best))` —
    under any failure schedule that it survives, e.g. failed look-ups of forgotten stale tips that the
    locator fallback absorbs — then EVERY listener's notifications, folded over its own old chain, end
    at the chain of the same block `best`, which is the source's best block; the returned cache is
    consistent, so the `SpvClient` built from `(best, cache)` satisfies the hypotheses of the poll
    theorems above. -/
theorem listeners_converge (s : Source) (pairs : List (Hdr × Locator)) (best : Hdr) (cache : Cache)
    (hw : wfTree s.tree = true) (hl : ∀ p ∈ pairs, LocatorOk s.tree p.2 p.1)
    (h : (synchronizeListeners s (pairs.map (·.2))).result = .ok (best, cache)) :
    Forall2 (fun p ns => applyNotifs s.tree (anc s.tree p.1) ns = some (anc s.tree best)) pairs
      (synchronizeListeners s (pairs.map (·.2))).notifs ∧
    InTree s.tree best ∧ best.hash = s.best ∧ CacheOk s.tree cache := by
  unfold synchronizeListeners at h ⊢
  cases hbb : s.getBestBlock 0 with
  | error e => simp [hbb] at h
  | ok bh =>
    cases hgh : s.getHeader 1 bh with
    | error e => simp [hbb, hgh] at h
    | ok best' =>
      have hbh : bh = s.best := by
        unfold Source.getBestBlock at hbb
        split at hbb
        · cases hbb
        · cases hbb; rfl
      have hhd := getHeader_ok hgh
      have hbt : InTree s.tree best' := inTree_of_hdrOf hw hhd
      simp only [hbb, hgh] at h ⊢
      by_cases hok1 : (phase1 s best' (pairs.map (·.2)) [] 2 []).ok = true
      · obtain ⟨q1, q2, q3⟩ := phase1_spec hw hbt pairs [] 2 [] hl (cacheOk_nil _) ⟨best', by simp⟩ hok1
        obtain ⟨cm, hcm⟩ := q3
        have hall : ∀ b ∈ (phase1 s best' (pairs.map (·.2)) [] 2 []).most.reverse, InTree s.tree b := by
          intro b hb
          apply anc_inTree hw hbt
          rw [hcm]; exact List.mem_append_left _ (List.mem_reverse.mp hb)
        obtain ⟨r1, r2⟩ := phase2_spec s (t := s.tree) MAX_BLOCKS_AT_ONCE (by decide) _ _
          (phase1 s best' (pairs.map (·.2)) [] 2 []).cache (phase1 s best' (pairs.map (·.2)) [] 2 []).req
          (Nat.le_refl _) q2 hall
        simp only [hok1, Bool.not_true, Bool.false_eq_true, if_false] at h ⊢
        generalize phase2 s MAX_BLOCKS_AT_ONCE (phase1 s best' (pairs.map (·.2)) [] 2 []).most.reverse.length
          (phase1 s best' (pairs.map (·.2)) [] 2 []).most.reverse
          (phase1 s best' (pairs.map (·.2)) [] 2 []).cache (phase1 s best' (pairs.map (·.2)) [] 2 []).req = p2 at *
        rcases p2 with ⟨ok, c, r, delivered⟩
        cases ok with
        | false => simp at h
        | true =>
          simp only [if_true, Except.ok.injEq, Prod.mk.injEq] at h ⊢
          obtain ⟨hb', hc'⟩ := h
          subst hb' hc'
          simp only at r1 r2
          have hdel := r1 trivial
          subst hdel
          refine ⟨?_, hbt, ?_, r2⟩
          · apply forall2_map_right _ q1
            intro bl p hp
            obtain ⟨common, dconn, e1, hct, e3, e4, e5, _, _⟩ := hp
            rw [e1]
            simp only [List.flatMap_cons, List.flatMap_nil, List.append_nil]
            rw [applyNotifs_append, e5]
            simp only [Option.bind]
            rw [connectedFor_most hw hbt e3 hcm hct e4]
            exact apply_connect_path hw hbt dconn.reverse common (by simp [e3])
          · rw [(hdrOf_some hhd).2, hbh]
      · simp [hok1] at h

-- stale listener on 3, another already on the best chain at 5, a fresh one at genesis
example : (synchronizeListeners (exSrc 6 []) [⟨3, 2, [some 2, some 1]⟩, ⟨5, 2, []⟩, ⟨1, 0, []⟩]).notifs =
    [[.disconnected 1 0, .connected 4 1, .connected 5 2, .connected 6 3], [.connected 6 3],
     [.connected 4 1, .connected 5 2, .connected 6 3]] := by decide
example : LocatorOk exTree ⟨3, 2, [some 2, some 1]⟩ b3 := by
  refine ⟨by decide, rfl, ?_⟩
  intro d h x hm hx
  simp [Locator.candidates, prevCandidates] at hm
  rcases hm with ⟨_, rfl⟩ | ⟨_, rfl⟩ | ⟨_, rfl⟩ <;> (cases hx; decide)

/-! ## per-listener shape of the start-up synchronisation -/

/-- Strengthening of `listeners_converge`: after a successful `synchronize_listeners` the returned tip IS
    the source's best block (`best.hash = s.best`), and every listener — wherever it was: on the best chain,
    on a stale fork, on a fork whose blocks the source has forgotten (resolved through its `BlockLocator`
    fallbacks) — received exactly: one `blocks_disconnected(common)` to a common ancestor `common` of its
    own block and `best` (none if `common` is its own block), followed by the blocks of `best`'s chain above
    `common` in ascending order, nothing else. -/
theorem listeners_converge_shape (s : Source) (pairs : List (Hdr × Locator)) (best : Hdr) (cache : Cache)
    (hw : wfTree s.tree = true) (hl : ∀ p ∈ pairs, LocatorOk s.tree p.2 p.1)
    (h : (synchronizeListeners s (pairs.map (·.2))).result = .ok (best, cache)) :
    best.hash = s.best ∧
    Forall2 (fun p ns => ∃ common above, common ∈ anc s.tree p.1 ∧ anc s.tree best = above ++ anc s.tree common ∧
        ns = (if common = p.1 then [] else [Notif.disconnected common.hash common.height]) ++ above.reverse.map connNotif ∧
        above.reverse.Pairwise (fun a b => a.height < b.height))
      pairs (synchronizeListeners s (pairs.map (·.2))).notifs := by
  refine ⟨(listeners_converge s pairs best cache hw hl h).2.2.1, ?_⟩
  unfold synchronizeListeners at h ⊢
  cases hbb : s.getBestBlock 0 with
  | error e => simp [hbb] at h
  | ok bh =>
    cases hgh : s.getHeader 1 bh with
    | error e => simp [hbb, hgh] at h
    | ok best' =>
      have hhd := getHeader_ok hgh
      have hbt : InTree s.tree best' := inTree_of_hdrOf hw hhd
      simp only [hbb, hgh] at h ⊢
      by_cases hok1 : (phase1 s best' (pairs.map (·.2)) [] 2 []).ok = true
      · obtain ⟨q1, q2, q3⟩ := phase1_spec hw hbt pairs [] 2 [] hl (cacheOk_nil _) ⟨best', by simp⟩ hok1
        obtain ⟨cm, hcm⟩ := q3
        have hall : ∀ b ∈ (phase1 s best' (pairs.map (·.2)) [] 2 []).most.reverse, InTree s.tree b := by
          intro b hb
          apply anc_inTree hw hbt
          rw [hcm]; exact List.mem_append_left _ (List.mem_reverse.mp hb)
        obtain ⟨r1, r2⟩ := phase2_spec s (t := s.tree) MAX_BLOCKS_AT_ONCE (by decide) _ _
          (phase1 s best' (pairs.map (·.2)) [] 2 []).cache (phase1 s best' (pairs.map (·.2)) [] 2 []).req
          (Nat.le_refl _) q2 hall
        simp only [hok1, Bool.not_true, Bool.false_eq_true, if_false] at h ⊢
        generalize phase2 s MAX_BLOCKS_AT_ONCE (phase1 s best' (pairs.map (·.2)) [] 2 []).most.reverse.length
          (phase1 s best' (pairs.map (·.2)) [] 2 []).most.reverse
          (phase1 s best' (pairs.map (·.2)) [] 2 []).cache (phase1 s best' (pairs.map (·.2)) [] 2 []).req = p2 at *
        rcases p2 with ⟨ok, c, r, delivered⟩
        cases ok with
        | false => simp at h
        | true =>
          simp only [if_true, Except.ok.injEq, Prod.mk.injEq] at h ⊢
          obtain ⟨hb', hc'⟩ := h
          subst hb' hc'
          simp only at r1 r2
          have hdel := r1 trivial
          subst hdel
          apply forall2_map_right _ q1
          intro bl p hp
          obtain ⟨common, dconn, e1, hct, e3, e4, _, e6, e7⟩ := hp
          refine ⟨common, dconn, e6, e3, ?_, ?_⟩
          · rw [e1]
            simp only [List.flatMap_cons, List.flatMap_nil, List.append_nil]
            rw [connectedFor_most hw hbt e3 hcm hct e4, e7]
          · have hs := anc_sorted hw _ best' rfl hbt
            rw [e3] at hs
            exact List.pairwise_reverse.mpr (List.pairwise_append.mp hs).1
      · simp [hok1] at h

example : (synchronizeListeners (exSrc 6 []) [⟨3, 2, [some 2, some 1]⟩]).notifs =
    [[.disconnected 1 0] ++ [b6, b5, b4].reverse.map connNotif] := by decide

/-! ## the per-listener body of the start-up loop, translated from the Rust statements -/

/-- One iteration of the first loop of `synchronize_listeners`, over the TRANSLATED statement sequence
    `initListenerStep` (Generated/ChainSync.lean: the `if`s, `continue`s, `disconnect_blocks`, the height pushed to
    `chain_listeners_at_height`, the `most_connected_blocks` update — regenerated from init.rs on every run).
    For a listener last synced to ANY block `b` of the tree and ANY difference (`common`, `conn`) that
    `find_difference_from_best_block` can return (`find_difference_lca`: `common` an ancestor of `b`, `conn` the part of
    `best`'s chain above it) — that is for EVERY position of the listener: behind the source tip (`common = b`,
    `conn ≠ []`), exactly at it (`common = b = best`, `conn = []`), on a fork (`common ≠ b`, `conn ≠ []`) and AHEAD of the
    source tip on the same branch (`common = best ≠ b`, `conn = []`: nothing to connect, but a disconnect is due) —
    what the step tells the listener (its `disconnect_blocks` calls) followed by what the second loop delivers to it
    (every block of the longest connected list `most` above the height the step RECORDED for it) takes the listener
    from `b`'s chain exactly to `best`'s chain, the tip `synchronize_listeners` returns. -/
theorem startup_step_brings_listener_to_tip (t : Tree) (hw : wfTree t = true) (best b common cm : Hdr)
    (conn most0 most : List Hdr) (hb : InTree t best) (hbt : InTree t b) (hcb : common ∈ anc t b)
    (hpath : anc t best = conn ++ anc t common)
    (hmost : anc t best = most ++ anc t cm) (hlen : conn.length ≤ most.length) :
    applyNotifs t (anc t b)
      ((initListenerStep best b.hash b.height common conn most0).disc.map discNotif ++
       (initListenerStep best b.hash b.height common conn most0).recd.flatMap (fun lh => connectedFor lh most.reverse))
      = some (anc t best) := by
  have hct : InTree t common := anc_inTree hw hbt hcb
  rw [initListenerStep_eq]
  simp only [List.flatMap_cons, List.flatMap_nil, List.append_nil]
  rw [applyNotifs_append, connectedFor_most hw hb hpath hmost hct hlen]
  have hconn := apply_connect_path hw hb conn.reverse common (by simp [hpath])
  by_cases hh : common.hash = b.hash
  · have : common = b := inTree_hash_inj hct hbt hh
    subst this
    simpa [applyNotifs] using hconn
  · have hne : common ≠ b := by intro e; rw [e] at hh; exact hh rfl
    have hbn : (common.hash != b.hash) = true := by simp [bne, hh]
    simp only [hbn, if_true, List.map_cons, List.map_nil, discNotif, disconnectLocator, applyNotifs,
      apply_disconnected hw hbt hcb hne, Option.bind]
    exact hconn

-- behind (b1 → b6), on a fork (b3 → b6 via b1), equal (b6), ahead of the source tip on the same branch (b6, source at b4)
example : (initListenerStep b6 b1.hash 0 b1 [b6, b5, b4] []) = ⟨[], [0], [b6, b5, b4]⟩ ∧
    (initListenerStep b6 b3.hash 2 b1 [b6, b5, b4] []) = ⟨[b1], [0], [b6, b5, b4]⟩ ∧
    (initListenerStep b6 b6.hash 3 b6 [] [b6]) = ⟨[], [3], [b6]⟩ ∧
    (initListenerStep b4 b6.hash 3 b4 [] []) = ⟨[b4], [1], []⟩ := by decide

/-- The listener AHEAD of the source (the source's best block `best` is a strict ancestor of the listener's block
    `b`: the source is still catching up, was rolled back, or is another node): `find_difference_from_best_block`
    returns `(best, [])` — nothing to connect — and the translated step must still disconnect the listener down to
    `best` and record `best`'s height: the listener is told exactly `blocks_disconnected(best)` and ends on
    `best`'s chain. (An early exit on `connected_blocks.is_empty()` that skips the disconnect makes this false.) -/
theorem startup_listener_ahead_is_disconnected (t : Tree) (hw : wfTree t = true) (best b : Hdr) (most0 : List Hdr)
    (hbt : InTree t b) (hanc : best ∈ anc t b) (hne : best ≠ b) :
    (initListenerStep best b.hash b.height best [] most0).disc.map discNotif = [Notif.disconnected best.hash best.height] ∧
    (initListenerStep best b.hash b.height best [] most0).recd = [best.height] ∧
    applyNotifs t (anc t b) ((initListenerStep best b.hash b.height best [] most0).disc.map discNotif) = some (anc t best) := by
  have hct : InTree t best := anc_inTree hw hbt hanc
  have hh : ¬ best.hash = b.hash := fun e => hne (inTree_hash_inj hct hbt e)
  have hbn : (best.hash != b.hash) = true := by simp [bne, hh]
  rw [initListenerStep_eq]
  simp only [hbn, if_true, List.map_cons, List.map_nil, discNotif, disconnectLocator, applyNotifs, apply_disconnected hw hbt hanc hne]
  exact ⟨trivial, trivial, trivial⟩

-- the whole function on that shape: listeners at b6 (ahead) and b1 (behind), source tip b4
example : ((synchronizeListeners (exSrc 4 []) [⟨6, 3, [some 5, some 4]⟩, ⟨1, 0, []⟩]).notifs =
    [[.disconnected 4 1], [.connected 4 1]]) ∧
    ((synchronizeListeners (exSrc 4 []) [⟨6, 3, [some 5, some 4]⟩, ⟨1, 0, []⟩]).result.toOption.map (·.1.hash) = some 4) := by decide

/-! ## a FAILED start-up synchronisation never leaves a listener on a chain that skips or repeats a block -/

/-- `synchronize_listeners` under ANY outcome — `Ok`, or `Err` at any request: the best-block look-up, a locator that
    cannot be resolved, a header walk that fails for the third listener after the first two were already disconnected,
    a block fetch that fails in the fourth batch after three batches were delivered —: what EVERY listener has been
    told, folded over its own old chain, is a valid sequence (one rewind to an ancestor, then blocks each building on
    the previous one, one height up) ending on the chain of some block `x` of the tree. (`listeners_converge` adds, for
    `Ok`, that `x` is the returned tip for all of them.) -/
theorem startup_any_outcome_single_chain (s : Source) (pairs : List (Hdr × Locator))
    (hw : wfTree s.tree = true) (hl : ∀ p ∈ pairs, LocatorOk s.tree p.2 p.1) :
    Forall2 (fun p ns => ∃ x, applyNotifs s.tree (anc s.tree p.1) ns = some (anc s.tree x)) pairs
      (synchronizeListeners s (pairs.map (·.2))).notifs := by
  have hempty : Forall2 (fun (p : Hdr × Locator) ns => ∃ x, applyNotifs s.tree (anc s.tree p.1) ns = some (anc s.tree x)) pairs
      ((pairs.map (·.2)).map (fun _ => ([] : List Notif))) :=
    forall2_map_const _ _ _ (by simp) (fun a _ => ⟨a.1, by simp [applyNotifs]⟩)
  unfold synchronizeListeners
  cases hbb : s.getBestBlock 0 with
  | error e => dsimp only; exact hempty
  | ok bh =>
    dsimp only
    cases hgh : s.getHeader 1 bh with
    | error e => dsimp only; exact hempty
    | ok best' =>
      have hhd := getHeader_ok hgh
      have hbt : InTree s.tree best' := inTree_of_hdrOf hw hhd
      dsimp only
      have hv := phase1_notifs_valid hw hbt pairs [] 2 [] hl (cacheOk_nil _)
      by_cases hok1 : (phase1 s best' (pairs.map (·.2)) [] 2 []).ok = true
      · obtain ⟨q1, q2, q3⟩ := phase1_spec hw hbt pairs [] 2 [] hl (cacheOk_nil _) ⟨best', by simp⟩ hok1
        obtain ⟨cm, hcm⟩ := q3
        obtain ⟨rest, hrest⟩ := phase2_prefix s MAX_BLOCKS_AT_ONCE (phase1 s best' (pairs.map (·.2)) [] 2 []).most.reverse.length
          (phase1 s best' (pairs.map (·.2)) [] 2 []).most.reverse
          (phase1 s best' (pairs.map (·.2)) [] 2 []).cache (phase1 s best' (pairs.map (·.2)) [] 2 []).req
        simp only [hok1, Bool.not_true, Bool.false_eq_true, if_false]
        generalize phase2 s MAX_BLOCKS_AT_ONCE (phase1 s best' (pairs.map (·.2)) [] 2 []).most.reverse.length
          (phase1 s best' (pairs.map (·.2)) [] 2 []).most.reverse
          (phase1 s best' (pairs.map (·.2)) [] 2 []).cache (phase1 s best' (pairs.map (·.2)) [] 2 []).req = p2 at *
        rcases p2 with ⟨ok, c, r, delivered⟩
        dsimp only at hrest
        have key : Forall2 (fun (p : Hdr × Locator) ns => ∃ x, applyNotifs s.tree (anc s.tree p.1) ns = some (anc s.tree x)) pairs
            ((phase1 s best' (pairs.map (·.2)) [] 2 []).per.map
              (fun p => p.2 ++ p.1.flatMap (fun lh => connectedFor lh delivered))) := by
          apply forall2_map_right _ q1
          intro bl p hp
          obtain ⟨common, dconn, e1, hct, e3, e4, e5, _, _⟩ := hp
          rw [e1]
          simp only [List.flatMap_cons, List.flatMap_nil, List.append_nil]
          rw [applyNotifs_append, e5]
          simp only [Option.bind]
          exact connectedFor_prefix_valid hw hbt e3 hcm hct e4 hrest
        cases ok <;> exact key
      · simp only [hok1, Bool.not_false, if_true]
        refine forall2_map_right (f := fun p => p.2) ?_ hv
        intro a b h; exact h

-- the second listener's locator look-up fails (request 8) after the first listener was already disconnected
example : ((synchronizeListeners (exSrc 6 [8]) [⟨3, 2, []⟩, ⟨1, 0, []⟩]).result.toOption.isNone = true) ∧
    (synchronizeListeners (exSrc 6 [8]) [⟨3, 2, []⟩, ⟨1, 0, []⟩]).notifs = [[.disconnected 1 0], []] := by decide

/-! ## the tuple listener adapter: both components see the same single chain -/

/-- `impl Listen for (T, U)` (lightning/src/chain/mod.rs, delivery orders translated from the Rust text): whatever
    the SpvClient tells the tuple — any notification sequence `ns`, in particular those of `poll_best_tip` and
    `synchronize_listeners`, which the theorems above show to describe one valid chain — EACH of the two components
    receives exactly `ns`, in the same order, nothing dropped or doubled. Hence both components are on the same
    single chain after every poll. -/
theorem tuple_components_see_same_chain (ns : List Notif) :
    componentView 0 (tupleDeliver ns) = ns ∧ componentView 1 (tupleDeliver ns) = ns := by
  induction ns with
  | nil => exact ⟨rfl, rfl⟩
  | cons n ns ih =>
    obtain ⟨i0, i1⟩ := ih
    unfold tupleDeliver componentView at *
    cases n <;>
      simp [tupleConnectOrder, tupleDisconnectOrder, List.flatMap_cons, List.filter_append, List.map_append] <;>
      exact ⟨i0, i1⟩

example : tupleDeliver [.disconnected 1 0, .connected 4 1] =
    [(0, .disconnected 1 0), (1, .disconnected 1 0), (0, .connected 4 1), (1, .connected 4 1)] := by decide

/-! ## headers that fail proof-of-work or do not connect are refused — for EVERY source behaviour -/

/-- `BlockHeaderData::validate(hash)` (translated): whatever raw header a source answers, it becomes a
    `ValidatedBlockHeader` only if its proof of work is valid AND it hashes to the REQUESTED hash; the
    validated header then carries that hash (and the source's claimed height / chainwork). -/
theorem validate_header_sound (raw : RawHdr) (h : Nat) (b : Hdr) (e : validateHeader raw h = some b) :
    raw.powOk = true ∧ raw.hash = h ∧ b = raw.toHdr ∧ b.hash = h := by
  unfold validateHeader at e
  split at e
  · cases e
  · rename_i hp
    split at e
    · cases e
    · rename_i hh
      cases e
      have hh' : raw.hash = h := by simpa [headerHashBad] using hh
      exact ⟨by simpa using hp, hh', rfl, by simp [RawHdr.toHdr, hh']⟩

/-- … conversely a header that fails PoW, or hashes to anything but the requested hash, is refused. -/
theorem bad_header_refused (raw : RawHdr) (h : Nat) (hbad : raw.powOk = false ∨ raw.hash ≠ h) :
    validateHeader raw h = none := by
  cases hv : validateHeader raw h with
  | none => rfl
  | some b =>
    obtain ⟨h1, h2, _, _⟩ := validate_header_sound raw h b hv
    rcases hbad with hb | hb
    · rw [h1] at hb; cases hb
    · exact absurd h2 hb

example : validateHeader ⟨5, 4, 2, 6, 7, 2, true⟩ 5 = some b5 ∧ validateHeader ⟨5, 4, 2, 6, 7, 2, false⟩ 5 = none ∧
    validateHeader ⟨5, 4, 2, 6, 7, 2, true⟩ 6 = none := by decide

/-- `BlockData::validate(hash)` (translated; the C20-b site): a block — full or header-only — is accepted
    only with valid PoW and a header hashing to the requested hash, a full block only with a correct merkle
    root and witness commitment. -/
theorem validate_block_sound (raw : RawBlk) (h : Nat) (e : validateBlock raw h = true) :
    raw.powOk = true ∧ raw.hash = h ∧ (raw.full = true → raw.merkleOk = true ∧ raw.witnessOk = true) := by
  rcases raw with ⟨full, hash, pow, mk, wt⟩
  unfold validateBlock at e
  simp only [blockHashBad, blockMerkleBad, blockWitnessBad] at e
  cases pow <;> cases full <;> cases mk <;> cases wt <;> simp_all

example : validateBlock ⟨false, 5, true, true, true⟩ 5 = true ∧ validateBlock ⟨false, 4, true, true, true⟩ 5 = false ∧
    validateBlock ⟨true, 5, true, false, true⟩ 5 = false := by decide

/-- `check_builds_on` (translated, whole body): a header is accepted as building on `p` only if its
    prev_blockhash is `p`'s hash, its height is `p`'s plus one and its chainwork is `p`'s plus the header's own
    work; with Network::Bitcoin additionally the difficulty may change only at a multiple of 2016 and there
    only within the 4x window. -/
theorem check_builds_on_sound (net : Bool) (h p : Hdr) (e : checkBuildsOn net h p = true) :
    h.parent = p.hash ∧ h.height = p.height + 1 ∧ h.work = p.work + h.bwork ∧
    (net = true → if h.height % 2016 = 0
      then minTransitionThreshold (targetOf p.bits) ≤ targetOf h.bits ∧ targetOf h.bits ≤ maxTransitionThresholdUnchecked (targetOf p.bits)
      else h.bits = p.bits) := by
  unfold checkBuildsOn checkBuildsOnErr at e
  split at e
  · simp at e
  · rename_i h1
    split at e
    · simp at e
    · rename_i h2
      split at e
      · simp at e
      · rename_i h3
        simp only [buildsOnBadPrevHash, buildsOnBadHeight, buildsOnBadChainwork, decide_eq_true_eq, ne_eq, Decidable.not_not] at h1 h2 h3
        refine ⟨h1, h2, h3, ?_⟩
        intro hn
        subst hn
        simp only [if_true] at e
        split at e
        · rename_i hr
          have hr' : h.height % 2016 = 0 := by simpa [isRetargetHeight] using hr
          simp only [hr', if_true]
          split at e
          · simp at e
          · rename_i hb
            simp only [badTransition, Bool.or_eq_true, decide_eq_true_eq, not_or, gt_iff_lt, Nat.not_lt] at hb
            exact ⟨hb.2, hb.1⟩
        · rename_i hr
          have hr' : ¬ h.height % 2016 = 0 := by simpa [isRetargetHeight] using hr
          simp only [hr', if_false]
          split at e
          · simp at e
          · rename_i hb
            simpa [badDifficulty] using hb

example : checkBuildsOn false b5 b4 = true ∧ checkBuildsOn false b5 b3 = false ∧
    checkBuildsOn false { b5 with height := 3 } b4 = false ∧ checkBuildsOn false { b5 with work := 7 } b4 = false ∧
    checkBuildsOn true { b5 with bits := 8 } b4 = false := by decide

/-- The trust boundary, closed for every previous-header look-up: let `h` be a block of the universe `t`
    and let an ARBITRARY source answer the request for `h`'s predecessor with any raw header. If the answer
    passes `validate(prev_blockhash)` and `check_builds_on` (i.e. `look_up_previous_header` returns it), then
    it IS `t`'s header of the predecessor — including the claimed height and chainwork. (`hcf` = hashes are
    collision-free: a header hashing to the predecessor's hash has the predecessor's contents.) So lying
    about height / chainwork anywhere below a truthful tip is always refused. -/
theorem prev_lookup_accepts_only_the_parent (t : Tree) (net : Bool) (h p0 p : Hdr) (raw : RawHdr)
    (hw : wfTree t = true) (hh : InTree t h) (h0 : h.height ≠ 0) (hp0 : hdrOf t h.parent = some p0)
    (hcf : raw.hash = p0.hash → raw.parent = p0.parent ∧ raw.bits = p0.bits ∧ raw.bwork = p0.bwork)
    (hv : validateHeader raw h.parent = some p) (hb : checkBuildsOn net h p = true) : p = p0 := by
  obtain ⟨_, v2, v3, _⟩ := validate_header_sound raw h.parent p hv
  obtain ⟨c1, c2, c3, _⟩ := check_builds_on_sound net h p hb
  obtain ⟨p', hp', hh1, _, _⟩ := parent_of hw hh h0
  rw [hp0] at hp'; cases hp'
  obtain ⟨hwk, _⟩ := parent_work hw hh h0 hp0
  have hph : p0.hash = h.parent := (hdrOf_some hp0).2
  obtain ⟨f1, f2, f3⟩ := hcf (by rw [v2, hph])
  have a1 : p.hash = p0.hash := by rw [v3]; show raw.hash = p0.hash; rw [v2, hph]
  have a2 : p.parent = p0.parent := by rw [v3]; exact f1
  have a3 : p.height = p0.height := by omega
  have a4 : p.work = p0.work := by omega
  have a5 : p.bits = p0.bits := by rw [v3]; exact f2
  have a6 : p.bwork = p0.bwork := by rw [v3]; exact f3
  rcases p with ⟨⟩
  rcases p0 with ⟨⟩
  simp only at a1 a2 a3 a4 a5 a6
  simp only [Hdr.mk.injEq]
  exact ⟨a1, a2, a3, a4, a5, a6⟩

/-- the Validate layer in front of an arbitrary source, seen as a failure schedule: a request of
    `a.toSource t` is answered with `b` iff the raw answer passes the translated `validate(hash)` as `b`
    and `b` is the universe's header for that hash -/
theorem toSource_getHeader (a : Adv) (t : Tree) (k h : Nat) (b : Hdr) :
    (a.toSource t).getHeader k h = .ok b ↔ a.getHeader k h = .ok b ∧ hdrOf t h = some b := by
  unfold Source.getHeader Adv.toSource
  simp only
  cases hg : a.getHeader k h with
  | error e => simp
  | ok b' =>
    cases ht : hdrOf t h with
    | none => simp
    | some b'' =>
      by_cases hbb : b'' = b'
      · subst hbb; simp
      · have : ¬ b' = b'' := fun e => hbb e.symm
        simp [hbb, this]
        intro e1 e2; exact this (e1.trans e2.symm)

/-- FIDELITY of `Adv.toSource`: for a source whose ACCEPTED answers carry true height / chainwork claims
    (`a.TruthfulOn t`), the failure-scheduled view answers every header request exactly like the real
    pipeline `get_header(..).validate(hash)` — nothing is assumed about refused answers, errors, order or
    consistency between requests. -/
theorem toSource_faithful (a : Adv) (t : Tree) (htr : a.TruthfulOn t) (k h : Nat) :
    (a.toSource t).getHeader k h = a.getHeader k h := by
  cases hg : a.getHeader k h with
  | ok b => exact (toSource_getHeader a t k h b).mpr ⟨hg, htr.1 k h b hg⟩
  | error e =>
    have hf : (a.toSource t).getHeader k h = .error ((a.toSource t).err (.header k h)) := by
      unfold Source.getHeader; simp [Adv.toSource, hg]
    rw [hf]
    unfold Adv.getHeader at hg
    cases hr : a.header k h with
    | none =>
      simp only [hr] at hg
      cases hg
      simp [Source.err, Adv.toSource, Adv.err, hr]
    | some raw =>
      simp only [hr] at hg
      cases hv : validateHeader raw h with
      | none => simp only [hv] at hg; cases hg; simp [Source.err, Adv.toSource, hr]
      | some b => simp [hv] at hg

/-- The failure-scheduled view is EXACT at every previous-header look-up, with no truthfulness assumption:
    for a block `h` of the universe, the REAL `look_up_previous_header` over an arbitrary collision-free
    source (`Adv.pollerPrev`: translated validate + check_builds_on, no tree) returns `p` iff the model's
    `pollerPrev` over `a.toSource t` does. A lie about the predecessor's height or chainwork is refused by
    the real code itself. (What remains trusted is only the claimed height / chainwork of headers that are
    never compared with a successor: the polled tip and the locator look-ups.) -/
theorem prev_lookup_exact (a : Adv) (t : Tree) (req : Nat) (h p : Hdr)
    (hw : wfTree t = true) (hcf : a.CollisionFree t) (hh : InTree t h) :
    a.pollerPrev req h = .ok (p, req + 1) ↔ pollerPrev (a.toSource t) req h = .ok (p, req + 1) := by
  unfold Adv.pollerPrev pollerPrev
  by_cases hg : isGenesisHeader h = true
  · simp [hg]
  · have h0 : h.height ≠ 0 := by simpa [isGenesisHeader] using hg
    obtain ⟨p0, hp0, _, _, _⟩ := parent_of hw hh h0
    simp only [hg, Bool.false_eq_true, if_false]
    have hbit : (a.toSource t).bitcoin = a.bitcoin := rfl
    rw [hbit]
    constructor
    · intro e
      cases hga : a.getHeader req h.parent with
      | error er => simp [hga] at e
      | ok q =>
        simp only [hga] at e
        split at e
        · rename_i hcb
          cases e
          -- the accepted answer is the true parent
          have hq : p = p0 := by
            unfold Adv.getHeader at hga
            cases hr : a.header req h.parent with
            | none => simp [hr] at hga
            | some raw =>
              simp only [hr] at hga
              cases hv : validateHeader raw h.parent with
              | none => simp [hv] at hga
              | some q' =>
                simp only [hv] at hga
                cases hga
                obtain ⟨v1, v2, _, _⟩ := validate_header_sound raw h.parent p hv
                have hph : p0.hash = h.parent := (hdrOf_some hp0).2
                exact prev_lookup_accepts_only_the_parent t a.bitcoin h p0 p raw hw hh h0 hp0
                  (fun _ => hcf req h.parent raw p0 hr v1 (by rw [v2]; exact hp0)) hv hcb
          subst hq
          have : (a.toSource t).getHeader req h.parent = .ok p :=
            (toSource_getHeader a t req h.parent p).mpr ⟨hga, hp0⟩
          simp [this, hcb]
        · cases e
    · intro e
      cases hgs : (a.toSource t).getHeader req h.parent with
      | error er => simp [hgs] at e
      | ok q =>
        simp only [hgs] at e
        split at e
        · rename_i hcb
          cases e
          have := ((toSource_getHeader a t req h.parent p).mp hgs).1
          simp [this, hcb]
        · cases e

/-- a `connected` notification of any operation comes from `connect_blocks`, after a successful
    `fetch_block` of exactly that header -/
theorem connectBlocks_connected (s : Source) : ∀ (bs : List Hdr) (tip : Hdr) (c : Cache) (req : Nat) (h ht : Nat),
    Notif.connected h ht ∈ (connectBlocks s bs tip c req).notifs →
    ∃ k b, b.hash = h ∧ b.height = ht ∧ s.getBlock k b = .ok () := by
  intro bs
  induction bs with
  | nil => intro tip c req h ht hm; simp [connectBlocks] at hm
  | cons b rest ih =>
    intro tip c req h ht hm
    unfold connectBlocks at hm
    cases hg : s.getBlock req b with
    | error e => simp [hg] at hm
    | ok u =>
      simp only [hg] at hm
      rcases List.mem_cons.mp hm with e | hm'
      · cases e; exact ⟨req, b, rfl, rfl, hg⟩
      · exact ih _ _ _ _ _ hm'

/-- "Headers that fail proof-of-work or do not connect are refused", end to end and for EVERY source
    behaviour (`a : Adv` is an arbitrary function from requests to raw answers): every block a poll hands to
    the listener (`block_connected` / `filtered_block_connected` of hash `h` at height `ht`) was answered by
    the source to a request for exactly that hash and passed the translated `BlockData::validate` — valid
    PoW, header hash = requested hash, for a full block correct merkle root and witness commitment — and is
    the universe's block `h`, a child of the listener's previous tip at height + 1
    (`notifications_single_chain_adversarial`). A block whose hash differs from the requested one, or with
    invalid PoW, therefore never reaches a listener. -/
theorem only_validated_blocks_reach_the_listener (a : Adv) (t : Tree) (cl : Client) (h ht : Nat)
    (hm : Notif.connected h ht ∈ (pollBestTip (a.toSource t) cl).notifs) :
    ∃ k raw, a.block k h = some raw ∧ validateBlock raw h = true ∧ raw.powOk = true ∧ raw.hash = h := by
  have key : ∃ k b, b.hash = h ∧ b.height = ht ∧ (a.toSource t).getBlock k b = .ok () := by
    unfold pollBestTip at hm
    split at hm
    · simp at hm
    · simp at hm
    · simp at hm
    · rename_i tp req hp
      simp only [updateChainTip] at hm
      have hsync : Notif.connected h ht ∈ (synchronizeListener (a.toSource t) cl.cache req tp cl.tip).notifs := by
        generalize synchronizeListener (a.toSource t) cl.cache req tp cl.tip = o at hm
        cases hr : o.res <;> simp only [hr] at hm
        · exact hm
        · exact hm
        · split at hm <;> exact hm
      unfold synchronizeListener at hsync
      split at hsync
      · simp at hsync
      · rename_i d req1 _
        simp only at hsync
        rcases List.mem_append.mp hsync with h1 | h2
        · split at h1 <;> simp [discNotif] at h1
        · exact connectBlocks_connected _ _ _ _ _ _ _ h2
  obtain ⟨k, b, hbh, _, hg⟩ := key
  subst hbh
  unfold Source.getBlock Adv.toSource at hg
  simp only at hg
  cases hgb : a.getBlock k b.hash with
  | error e => simp [hgb] at hg
  | ok u =>
    unfold Adv.getBlock at hgb
    cases hr : a.block k b.hash with
    | none => simp [hr] at hgb
    | some raw =>
      simp only [hr] at hgb
      split at hgb
      · rename_i hv
        obtain ⟨v1, v2, _⟩ := validate_block_sound raw b.hash hv
        exact ⟨k, raw, hr, hv, v1, v2⟩
      · cases hgb

/-- `notifications_single_chain` under an ADVERSARIAL source: let the client be polled any number of
    times against ARBITRARY sources (each `a ∈ advs` any function from requests to raw answers — wrong
    blocks, invalid PoW, unrelated headers, errors, inconsistent answers between requests), seen through the
    translated Validate layer over the universe `t` of headers that exist. Whatever they answer, the
    listener-visible sequence is one valid chain of `t`: every `connected` block is a child of the tip
    before it at height + 1, every `disconnected` goes to a proper ancestor, and the result is the chain of
    the client's `chain_tip`. (Trust boundary: an accepted header whose CLAIMED height / chainwork are untrue
    is treated as refused by `Adv.toSource`; `prev_lookup_accepts_only_the_parent` proves the real code does
    refuse it at every previous-header look-up, `toSource_faithful` that nothing else is assumed. For the tip
    header and locator look-ups the real code trusts the claims — see the candidate finding in DESIGN 9.1.) -/
theorem notifications_single_chain_adversarial (t : Tree) (cl : Client) (advs : List Adv)
    (hw : wfTree t = true) (hc : CacheOk t cl.cache) (ht : InTree t cl.tip) :
    applyNotifs t (anc t cl.tip) (runPolls cl (advs.map (·.toSource t))).2
      = some (anc t (runPolls cl (advs.map (·.toSource t))).1.tip) :=
  notifications_single_chain t cl _ hw
    (by intro s hs; obtain ⟨a, _, rfl⟩ := List.mem_map.mp hs; rfl) hc ht

/-- an adversary over `exTree`: asked for the tip 6 it first serves block 5's header (wrong hash), on the
    next poll a header failing PoW, then the truth but block 4's data for block 5; the listener only ever
    sees the chain 1 ← 4 ← 5 ← 6 -/
def exAdv (hdrLie : Nat → Nat → Option RawHdr) (blkLie : Nat → Nat → Option RawBlk) : Adv :=
  { best := fun _ => some 6,
    header := fun k h => match hdrLie k h with
      | some r => some r
      | none => (hdrOf exTree h).map (fun b => ⟨b.hash, b.parent, b.height, b.work, b.bits, b.bwork, true⟩),
    block := fun k h => match blkLie k h with
      | some r => some r
      | none => some ⟨false, h, true, true, true⟩ }
example : (runPolls ⟨b1, []⟩ [
      (exAdv (fun k _ => if k = 1 then some ⟨5, 4, 2, 6, 7, 2, true⟩ else none) (fun _ _ => none)).toSource exTree,
      (exAdv (fun k _ => if k = 1 then some ⟨6, 5, 3, 8, 7, 2, false⟩ else none) (fun _ _ => none)).toSource exTree,
      (exAdv (fun _ _ => none) (fun k _ => if k = 6 then some ⟨false, 4, true, true, true⟩ else none)).toSource exTree,
      (exAdv (fun _ _ => none) (fun _ _ => none)).toSource exTree]).2
    = [.connected 4 1, .connected 5 2, .connected 6 3] := by decide

-- `prev_lookup_exact` is not vacuous:
example : (exAdv (fun _ _ => none) (fun _ _ => none)).pollerPrev 3 b6 = .ok (b5, 4) ∧
    -- the predecessor served with height + 1 / chainwork + 1: refused by check_builds_on itself
    (exAdv (fun _ _ => some ⟨5, 4, 3, 6, 7, 2, true⟩) (fun _ _ => none)).pollerPrev 3 b6 = .error (.buildsOn, 4) ∧
    (exAdv (fun _ _ => some ⟨5, 4, 2, 7, 7, 2, true⟩) (fun _ _ => none)).pollerPrev 3 b6 = .error (.buildsOn, 4) := ⟨rfl, rfl, rfl⟩

/-! ## exactly when the tip work decreases (KF-C20-1 as a theorem) -/

/-- EXACT characterisation of the triples (tree, client state, source behaviour) in which a poll lowers
    the work of `chain_tip` (and of the listeners' tip, which is the same block by
    `notifications_single_chain_poll`): the poll saw a Better tip `b`, the walk found the difference `d`,
    and the connects were interrupted — `j` = number of block fetches that succeeded — at a block
    (`d.common` itself if `j = 0`) that still has less work than the old tip. That is: a REORG
    (`d.common ≠ old tip`, so `blocks_disconnected` was delivered) whose first failing fetch falls after the
    disconnection and before the new branch has caught up with the old tip's work. In every other case —
    no failure, failure before the disconnection (during the walk), failure after catching up, pure
    extension, Worse / Common / error — the tip work does not decrease. -/
theorem tip_work_decreases_iff (s : Source) (cl : Client)
    (hw : wfTree s.tree = true) (hc : CacheOk s.tree cl.cache) (ht : InTree s.tree cl.tip) :
    (pollBestTip s cl).client.tip.work < cl.tip.work ↔
    ∃ b req d req1, pollChainTip s 0 cl.tip = .ok (.better b, req) ∧
      findDiff s cl.cache b cl.tip req = .ok (d, req1) ∧
      d.common ≠ cl.tip ∧
      fetchPrefix s req1 d.connected.reverse < d.connected.length ∧
      (pollBestTip s cl).client.tip = lastOr d.common (d.connected.reverse.take (fetchPrefix s req1 d.connected.reverse)) ∧
      (lastOr d.common (d.connected.reverse.take (fetchPrefix s req1 d.connected.reverse))).work < cl.tip.work := by
  constructor
  · intro hlt
    cases hp : pollChainTip s 0 cl.tip with
    | error e =>
      rcases e with ⟨e, r⟩
      simp [pollBestTip, hp] at hlt
    | ok v =>
      rcases v with ⟨k, req⟩
      cases k with
      | common => simp [pollBestTip, hp] at hlt
      | worse w => simp [pollBestTip, hp] at hlt
      | better b =>
        obtain ⟨hbt, hwk⟩ := pollChainTip_better hw hp
        have hcl : (pollBestTip s cl).client = (updateChainTip s cl req b).1 := by
          simp [pollBestTip, hp]
        cases hfd : findDiff s cl.cache b cl.tip req with
        | error e =>
          rcases e with ⟨e, r⟩
          have : (updateChainTip s cl req b).1.tip = cl.tip := by
            simp [updateChainTip, synchronizeListener, hfd]
          rw [hcl, this] at hlt; omega
        | ok v =>
          rcases v with ⟨d, req1⟩
          have hk := error_keeps_prefix s cl.cache req b cl.tip d req1 hw hc hbt ht hfd _ rfl _ rfl _ rfl
          have htip : (pollBestTip s cl).client.tip
              = lastOr d.common (d.connected.reverse.take (fetchPrefix s req1 d.connected.reverse)) := by
            rw [hcl]; exact hk.2.2.2.1
          rw [htip] at hlt
          refine ⟨b, req, d, req1, rfl, hfd, ?_, ?_, htip, hlt⟩
          · -- pure extension never loses work
            intro hd
            have hL := findDiff_spec hw hc hbt ht hfd
            obtain ⟨_, k2⟩ := anc_lastOr hw (common := d.common) hbt
              (d.connected.reverse.take (fetchPrefix s req1 d.connected.reverse))
              (d.connected.reverse.drop (fetchPrefix s req1 d.connected.reverse))
              (by rw [List.take_append_drop]; simp [hL.path])
            have hin : InTree s.tree (lastOr d.common (d.connected.reverse.take (fetchPrefix s req1 d.connected.reverse))) := by
              rw [← htip]; exact (notifications_single_chain_poll s cl hw hc ht).2.1
            by_cases hnil : (d.connected.reverse.take (fetchPrefix s req1 d.connected.reverse)).reverse = []
            · have : d.connected.reverse.take (fetchPrefix s req1 d.connected.reverse) = [] := by simpa using hnil
              rw [this, lastOr, hd] at hlt; omega
            · have := anc_work_lt hw _ _ hin k2 hnil
              have hdw : d.common.work = cl.tip.work := by rw [hd]
              omega
          · -- all fetched: the tip is `b`, which has more work
            have hle := fetchPrefix_le s d.connected.reverse req1
            simp only [List.length_reverse] at hle
            rcases Nat.lt_or_ge (fetchPrefix s req1 d.connected.reverse) d.connected.length with h | h
            · exact h
            · have heq : fetchPrefix s req1 d.connected.reverse = d.connected.reverse.length := by
                simp only [List.length_reverse]; omega
              have := (hk.2.2.1 heq).2
              rw [this] at hlt; omega
  · rintro ⟨b, req, d, req1, _, _, _, _, htip, hlt⟩
    rw [htip]; exact hlt

/-- consequence: unless the poll is such an interrupted reorg, the tip work never decreases — without any
    hypothesis on the source (compare `tip_only_improves_partial`, which needs a healthy source to conclude
    that the Better tip is reached) -/
theorem tip_only_improves (s : Source) (cl : Client)
    (hw : wfTree s.tree = true) (hc : CacheOk s.tree cl.cache) (ht : InTree s.tree cl.tip)
    (hno : ¬ ∃ b req d req1, pollChainTip s 0 cl.tip = .ok (.better b, req) ∧
      findDiff s cl.cache b cl.tip req = .ok (d, req1) ∧ d.common ≠ cl.tip ∧
      fetchPrefix s req1 d.connected.reverse < d.connected.length) :
    cl.tip.work ≤ (pollBestTip s cl).client.tip.work := by
  rcases Nat.lt_or_ge (pollBestTip s cl).client.tip.work cl.tip.work with h | h
  · obtain ⟨b, req, d, req1, h1, h2, h3, h4, _, _⟩ := (tip_work_decreases_iff s cl hw hc ht).mp h
    exact absurd ⟨b, req, d, req1, h1, h2, h3, h4⟩ hno
  · exact h

-- the witness of the characterisation on `interrupted_reorg_example`, and a failure AFTER catching up (request 9:
-- blocks 4 and 5 delivered, work 6 = old work) that does not lower the tip
example : (pollBestTip (exSrc 6 [7]) ⟨b3, []⟩).client.tip.work < b3.work := by decide
example : ¬ (pollBestTip (exSrc 6 [9]) ⟨b3, []⟩).client.tip.work < b3.work := by decide
example : ¬ (pollBestTip (exSrc 6 [4]) ⟨b3, []⟩).client.tip.work < b3.work := by decide  -- failure during the walk

/-! ## … over whole poll histories -/

/-- the poll of `cl` against `s` is an interrupted reorg (the right-hand side of `tip_work_decreases_iff`; KF-C20-1) -/
def InterruptedReorg (s : Source) (cl : Client) : Prop :=
  ∃ b req d req1, pollChainTip s 0 cl.tip = .ok (.better b, req) ∧
    findDiff s cl.cache b cl.tip req = .ok (d, req1) ∧
    d.common ≠ cl.tip ∧
    fetchPrefix s req1 d.connected.reverse < d.connected.length ∧
    (pollBestTip s cl).client.tip = lastOr d.common (d.connected.reverse.take (fetchPrefix s req1 d.connected.reverse)) ∧
    (lastOr d.common (d.connected.reverse.take (fetchPrefix s req1 d.connected.reverse))).work < cl.tip.work

/-- some poll of the history lowers the work of `chain_tip` -/
def SomeWorkDecrease : Client → List Source → Prop
  | _, [] => False
  | cl, s :: ss => (pollBestTip s cl).client.tip.work < cl.tip.work ∨ SomeWorkDecrease (pollBestTip s cl).client ss

/-- some poll of the history is an interrupted reorg -/
def SomeInterruptedReorg : Client → List Source → Prop
  | _, [] => False
  | cl, s :: ss => InterruptedReorg s cl ∨ SomeInterruptedReorg (pollBestTip s cl).client ss

/-- EXACT characterisation over whole histories (any sequence of best tips, failure schedules, forgotten blocks, by
    induction over the history with the cache / tip invariants of `notifications_single_chain_poll`): the work of
    `chain_tip` goes down at some poll of the history IF AND ONLY IF some poll of it is an interrupted reorg. -/
theorem tip_work_decreases_history_iff (t : Tree) (hw : wfTree t = true) : ∀ (ss : List Source) (cl : Client),
    (∀ s ∈ ss, s.tree = t) → CacheOk t cl.cache → InTree t cl.tip →
    (SomeWorkDecrease cl ss ↔ SomeInterruptedReorg cl ss) := by
  intro ss
  induction ss with
  | nil => intro cl _ _ _; exact Iff.rfl
  | cons s ss ih =>
    intro cl hs hc ht
    have hst : s.tree = t := hs s List.mem_cons_self
    subst hst
    obtain ⟨_, ht', hc'⟩ := notifications_single_chain_poll s cl hw hc ht
    have hstep := tip_work_decreases_iff s cl hw hc ht
    have hrest := ih (pollBestTip s cl).client (fun x hx => hs x (List.mem_cons_of_mem _ hx)) hc' ht'
    unfold SomeWorkDecrease SomeInterruptedReorg InterruptedReorg
    exact or_congr hstep hrest

/-- … hence, without ANY hypothesis on the sources: over a history none of whose polls is an interrupted reorg the
    work of `chain_tip` never decreases — `tip_only_improves` lifted from one poll to whole histories. -/
theorem tip_only_improves_history (t : Tree) (hw : wfTree t = true) : ∀ (ss : List Source) (cl : Client),
    (∀ s ∈ ss, s.tree = t) → CacheOk t cl.cache → InTree t cl.tip → ¬ SomeInterruptedReorg cl ss →
    cl.tip.work ≤ (runPolls cl ss).1.tip.work := by
  intro ss
  induction ss with
  | nil => intro cl _ _ _ _; exact Nat.le_refl _
  | cons s ss ih =>
    intro cl hs hc ht hno
    have hst : s.tree = t := hs s List.mem_cons_self
    subst hst
    obtain ⟨_, ht', hc'⟩ := notifications_single_chain_poll s cl hw hc ht
    unfold SomeInterruptedReorg at hno
    have h1 : cl.tip.work ≤ (pollBestTip s cl).client.tip.work := by
      rcases Nat.lt_or_ge (pollBestTip s cl).client.tip.work cl.tip.work with h | h
      · exact absurd (Or.inl ((tip_work_decreases_iff s cl hw hc ht).mp h)) hno
      · exact h
    have h2 := ih (pollBestTip s cl).client (fun x hx => hs x (List.mem_cons_of_mem _ hx)) hc' ht'
      (fun h => hno (Or.inr h))
    have : (runPolls cl (s :: ss)).1 = (runPolls (pollBestTip s cl).client ss).1 := by simp [runPolls]
    rw [this]; omega

-- an interrupted reorg (request 7) followed by a clean poll: the first poll lowers the work, the history recovers
example : SomeWorkDecrease ⟨b3, []⟩ [exSrc 6 [7], exSrc 6 []] := Or.inl (by decide)
example : (runPolls ⟨b3, []⟩ [exSrc 6 [7], exSrc 6 []]).1.tip = b6 := by decide
example : b3.work ≤ (runPolls ⟨b3, []⟩ [exSrc 6 [9], exSrc 6 []]).1.tip.work := by decide

/-! ## the header cache after a poll holds the block the listener was told last -/

/-- Whatever the source does during a poll (any failure schedule, any cache before): if the last notification of the
    poll is `block_connected(h, ht)`, the header cache of the client afterwards — what the NEXT poll's
    `look_up_previous_header` answers from without `check_builds_on` — holds a header under `h`, with hash `h` and the
    height the listener was told. (With `notifications_single_chain_poll`: `CacheOk`, every entry is a real header of the
    tree under its own hash; the harness compares the whole cache content after every poll.) -/
theorem last_connected_block_is_cached (s : Source) (cl : Client) (h ht : Nat)
    (e : (pollBestTip s cl).notifs.getLast? = some (.connected h ht)) :
    ∃ b, cacheLookUp (pollBestTip s cl).client.cache h = some b ∧ b.hash = h ∧ b.height = ht := by
  unfold pollBestTip at e ⊢
  split at e
  · simp at e
  · simp at e
  · simp at e
  · rename_i tp req hp
    simp only [updateChainTip] at e ⊢
    have key : (synchronizeListener s cl.cache req tp cl.tip).notifs.getLast? = some (.connected h ht) →
        ∃ b, cacheLookUp (synchronizeListener s cl.cache req tp cl.tip).cache h = some b ∧ b.hash = h ∧ b.height = ht := by
      intro e
      unfold synchronizeListener at e ⊢
      split at e
      · simp at e
      · rename_i d req1 hfd
        simp only at e ⊢
        by_cases hn : (connectBlocks s d.connected.reverse d.common
            (if syncDisconnects d.common cl.tip = true then cacheBlocksDisconnected cl.cache false d.common else cl.cache) req1).notifs = []
        · rw [hn] at e
          split at e <;> simp [discNotif] at e
        · rw [getLast?_append_ne_nil _ _ hn] at e
          exact connectBlocks_last_cached s _ _ _ _ h ht e
    generalize synchronizeListener s cl.cache req tp cl.tip = o at e key ⊢
    cases hr : o.res with
    | ok => simp only [hr] at e ⊢; exact key e
    | errNone => simp only [hr] at e ⊢; exact key e
    | errAt t =>
      simp only [hr] at e ⊢
      by_cases hpa : partialAdvance t cl.tip = true
      · rw [if_pos hpa] at e ⊢; exact key e
      · rw [if_neg hpa] at e ⊢; exact key e

example : cacheLookUp (pollBestTip (exSrc 6 [8]) ⟨b3, []⟩).client.cache 4 = some b4 := by decide

/-! ## BlockSourceError kinds through poll_best_tip -/

/-- `poll_best_tip` returns `Err` only out of `poll_chain_tip` (every error during `update_chain_tip` is
    folded into the returned `bool`, see `error_keeps_prefix`); the error is that of the FIRST failing
    request among `get_best_block` (request 0) and the tip's `get_header` (request 1), with the source's
    own kind — Transient iff that request was a transient source error — and a tip header the source does
    not know is a Persistent error. -/
theorem poll_error_kind (s : Source) (cl : Client) (e : Err) (h : (pollBestTip s cl).result = .error e) :
    (s.fails (.best 0) = true ∧ e = s.err (.best 0)) ∨
    (s.fails (.best 0) = false ∧ s.fails (.header 1 s.best) = true ∧ e = s.err (.header 1 s.best)) ∨
    (s.fails (.best 0) = false ∧ s.fails (.header 1 s.best) = false ∧ e = .source) := by
  unfold pollBestTip at h
  cases hp : pollChainTip s 0 cl.tip with
  | ok v =>
    rcases v with ⟨k, r⟩
    cases k <;> simp [hp] at h
  | error er =>
    rcases er with ⟨e', r⟩
    simp only [hp] at h
    cases h
    unfold pollChainTip Source.getBestBlock at hp
    cases hb : s.fails (.best 0) with
    | true =>
      simp only [hb, if_true] at hp
      cases hp
      exact Or.inl ⟨rfl, rfl⟩
    | false =>
      simp only [hb, Bool.false_eq_true, if_false] at hp
      split at hp
      · cases hp
      · unfold Source.getHeader at hp
        cases hf : s.fails (.header 1 s.best) with
        | true =>
          simp only [Nat.zero_add, hf, if_true] at hp
          cases hp
          exact Or.inr (Or.inl ⟨rfl, rfl, rfl⟩)
        | false =>
          simp only [Nat.zero_add, hf, Bool.false_eq_true, if_false] at hp
          refine Or.inr (Or.inr ⟨rfl, rfl, ?_⟩)
          split at hp
          · rename_i e' hq
            cases hp
            split at hq
            · cases hq; rfl
            · split at hq
              · cases hq
              · cases hq; rfl
          · split at hp <;> cases hp

/-- … and whatever an arbitrary source ANSWERS (as opposed to erring) can only yield a Persistent error:
    a refusal by the Validate layer is never reported as Transient. -/
theorem refusal_is_persistent (a : Adv) (t : Tree) (k h : Nat) (raw : RawHdr) (hr : a.header k h = some raw) :
    (a.toSource t).err (.header k h) = .source := by
  simp [Source.err, Adv.toSource, hr]

example : (pollBestTip { exSrc 6 [0] with transient := fun _ => true } ⟨b3, []⟩).result = .error .transient ∧
    (pollBestTip (exSrc 6 [1]) ⟨b3, []⟩).result = .error .source ∧
    (pollBestTip { exSrc 6 [7] with transient := fun _ => true } ⟨b3, []⟩).result = .ok (.better b6, true) :=
  ⟨rfl, rfl, rfl⟩

/-! ## the header cache keeps exactly the last HEADER_CACHE_LIMIT heights -/

/-- `HeaderCache::block_connected` (translated cutoff and retain predicate): afterwards the cache holds the
    connected header and every earlier entry with another hash, restricted to exactly the heights
    `≥ height - HEADER_CACHE_LIMIT`; `blocks_disconnected` (outside the start-up sync) keeps exactly the
    entries at or below the fork point. Together with `cache_miss_safe` (the result never depends on the
    cache) this is all the property needs from the cache; the window itself is what bounds memory. -/
theorem cache_window (c : Cache) (b f x : Hdr) :
    (x ∈ cacheBlockConnected c b ↔ (x = b ∨ (x ∈ c ∧ x.hash ≠ b.hash)) ∧ b.height - HEADER_CACHE_LIMIT ≤ x.height) ∧
    (x ∈ cacheBlocksDisconnected c false f ↔ x ∈ c ∧ x.height ≤ f.height) ∧
    (cacheBlocksDisconnected c true f = c) := by
  refine ⟨?_, ?_, ?_⟩
  · simp [cacheBlockConnected, cacheInsert, cacheKeeps, cacheCutoff, List.mem_filter]
    constructor
    · rintro (rfl | ⟨h1, h2, h3⟩)
      · exact ⟨Or.inl rfl, by omega⟩
      · exact ⟨Or.inr ⟨h1, h3⟩, h2⟩
    · rintro ⟨rfl | ⟨h1, h3⟩, h2⟩
      · exact Or.inl rfl
      · exact Or.inr ⟨h1, h2, h3⟩
  · simp [cacheBlocksDisconnected, disconnectKeeps, List.mem_filter]
  · simp [cacheBlocksDisconnected]

example : (cacheBlockConnected [hd 1 0 0 2, hd 2 1 1 4] (hd 9 8 1009 9)).map (·.hash) = [9, 2] := by decide

/-! ## round 6: the BlockSourceErrorKind of a failed start-up sync -/

/-- `init::synchronize_listeners` returns a TRANSIENT error (the kind that invites the caller to simply try again) only
    if the block source itself answered a transient error to some request of this sync: everything the library refuses
    on its own — a header / block `Validate` rejects, a header that does not build on its child, "header not found",
    "genesis block reached", a locator with more previous_blocks than its height, a locator none of whose blocks
    resolves (the source errors of the resolution loop are SWALLOWED by `if let Ok(..)`) — comes back persistent.
    The kinds of the three errors the library constructs itself are translated from the Rust text
    (`genesisErrTransient`, `locatorHeightErrTransient`, `noLocatorErrTransient`): were one of them `transient`, this
    proof would fail. All sources, all failure schedules, all locators, no bound. -/
theorem init_transient_error_needs_transient_answer (s : Source) (ls : List Locator) (e : Err)
    (h : (synchronizeListeners s ls).result = .error e) (ht : e.isTransient = true) :
    ∃ r, s.fails r = true ∧ s.transient r = true := by
  unfold synchronizeListeners at h
  cases hb : s.getBestBlock 0 with
  | error e0 =>
    rw [hb] at h; simp only at h; cases h
    obtain ⟨hf, rfl⟩ := getBestBlock_error_cases s 0 _ hb
    exact ⟨_, hf, s.err_isTransient _ ht⟩
  | ok bh =>
    rw [hb] at h; simp only at h
    cases hh : s.getHeader 1 bh with
    | error e1 => rw [hh] at h; simp only at h; cases h; exact getHeader_transient s _ _ _ hh ht
    | ok best =>
      rw [hh] at h; simp only at h
      cases hok : (phase1 s best ls [] 2 []).ok with
      | false =>
        rw [hok] at h; simp only [Bool.not_false, if_true] at h
        cases h
        obtain ⟨e', he', ht'⟩ := getD_transient ht
        exact phase1_transient s best ls [] 2 [] e' he' ht'
      | true =>
        rw [hok] at h; simp only [Bool.not_true, Bool.false_eq_true, if_false] at h
        generalize phase2 s MAX_BLOCKS_AT_ONCE (batchOrder (phase1 s best ls [] 2 []).most).length
          (batchOrder (phase1 s best ls [] 2 []).most) (phase1 s best ls [] 2 []).cache (phase1 s best ls [] 2 []).req = p2 at h
        obtain ⟨ok, c, r, delivered⟩ := p2
        simp only at h
        cases ok with
        | true => simp at h
        | false =>
          simp only [Bool.false_eq_true, if_false] at h
          cases h
          obtain ⟨e', he', ht'⟩ := getD_transient ht
          exact phase2Err_transient s _ _ _ _ e' he' ht'

/-- the example source whose request `k` fails, every failure being a TRANSIENT source error -/
def exTr (k : Nat) : Source := { exSrc 6 [k] with transient := fun _ => true }

/-- non-vacuity: a transient answer to get_best_block (request 0), to the best header (1), to a previous-header look-up of
    the difference walk (3) and to a block fetch of the batch (8) each come back transient; a persistent answer at the same
    requests, an unknown locator and an overlong locator come back persistent — and a TRANSIENT answer to the locator
    look-up (request 2) is swallowed: the sync fails with the persistent "could not resolve any block from BlockLocator" -/
example : (synchronizeListeners (exTr 0) [⟨3, 2, []⟩]).result = .error .transient ∧
    (synchronizeListeners (exTr 1) [⟨3, 2, []⟩]).result = .error .transient ∧
    (synchronizeListeners (exTr 3) [⟨3, 2, []⟩]).result = .error .transient ∧
    (synchronizeListeners (exTr 8) [⟨3, 2, []⟩]).result = .error .transient ∧
    (synchronizeListeners (exSrc 6 [8]) [⟨3, 2, []⟩]).result = .error .source ∧
    (synchronizeListeners (exTr 2) [⟨3, 2, []⟩]).result = .error .noLocator ∧
    (synchronizeListeners (exSrc 6 []) [⟨3, 2, [some 2, some 1, some 1]⟩]).result.toOption.isSome = true ∧
    (synchronizeListeners (exSrc 6 [2, 3, 4]) [⟨3, 2, [some 2, some 1, some 1]⟩]).result = .error .locatorHeight :=
  ⟨rfl, rfl, rfl, rfl, rfl, rfl, rfl, rfl⟩

/-- WHICH error a failed batch loop reports: `phase2` (the model of the second loop of synchronize_listeners) fails exactly
    when `phase2Err` names an error; a batch (all of whose fetches are issued before any result is looked at) fails
    exactly when one of its fetches does, and the error `block_res?` returns is that of the FIRST failing fetch in fetch
    order (oldest block first): the fetch at position `fetchPrefix` = number of leading successful fetches — also when a
    later fetch of the same batch failed with another kind. -/
theorem init_batch_failure_reports_first_failed_fetch (s : Source) (k n : Nat) (asc : List Hdr) (c : Cache) (req : Nat) :
    ((phase2 s k n asc c req).1 = false ↔ (phase2Err s k n asc req).isSome = true) ∧
    (∀ bs r, (fetchAll s bs r).1 = false ↔ (firstFetchErr s bs r).isSome = true) ∧
    (∀ bs r e, firstFetchErr s bs r = some e →
      ∃ b, bs[fetchPrefix s r bs]? = some b ∧ s.getBlock (r + fetchPrefix s r bs) b = .error e) := by
  refine ⟨?_, ?_, firstFetchErr_is_first s⟩
  · rw [phase2_fails_iff s k n asc c req]; cases (phase2Err s k n asc req).isSome <;> simp
  · intro bs r; rw [fetchAll_fails_iff s bs r]; cases (firstFetchErr s bs r).isSome <;> simp

/-- non-vacuity: with block fetches 8 (persistent) and 7 (transient) of one batch failing, the transient one — the older
    block, fetched first — is reported -/
example : (synchronizeListeners { exSrc 6 [7, 8] with transient := fun r => Req.idx r == 7 } [⟨1, 0, []⟩]).result = .error .transient ∧
    (synchronizeListeners { exSrc 6 [7, 8] with transient := fun r => Req.idx r == 8 } [⟨1, 0, []⟩]).result = .error .source :=
  ⟨rfl, rfl⟩

end Ldk.C20
