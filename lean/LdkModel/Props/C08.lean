/- C08 — HTLC deadlines: the node acts before money can be lost to a timeout.
   Property theorems only. Every definition unfolded here is GENERATED from the Rust source
   (Generated/Consts.lean, Generated/Timing.lean) on every run, or is a timeline in Model/Timing.lean
   composed from those. All statements quantify over every `Nat` height / expiry / delta. -/
import LdkModel.Model.Timing
import LdkModel.Proofs.NodeStep
import LdkModel.Proofs.NodeRun
import LdkModel.Proofs.NodeSafe
import LdkModel.Proofs.NodeSafeAny
namespace Ldk.C08
open Ldk Ldk.Timing Ldk.NodeStep

/-- unfold the generated predicates and timelines, turn constants into numerals, close by `omega` -/
macro "timing_omega" : tactic => `(tactic| (
  try simp only [finalExpiryTooSoon, claimDeadline, mppOnchainTimeout, shouldBroadcastFor,
    confirmationThreshold, hasReachedConfirmationThreshold, holdingCellTimedOut, inboundTrigger,
    outboundTrigger, earliestTimeoutConf, successConfHeight, timeoutConfHeight, upstreamFailHeight,
    lastMomentFulfil] at *
  consts_facts
  try simp only [decide_eq_true_eq, decide_eq_false_iff_not, Bool.and_eq_true, Bool.or_eq_true,
    Bool.not_eq_true', Bool.and_true, Bool.and_false, Bool.or_false, Bool.true_and, Bool.false_and,
    Bool.false_or, Bool.true_or, Bool.not_true, Bool.not_false, Bool.and_eq_false_imp, Bool.or_eq_false_iff,
    Nat.max_def, ge_iff_le, gt_iff_lt, Nat.not_le, Nat.not_lt, true_and, and_true, false_and, and_false,
    false_or, or_false, Bool.false_eq_true, reduceCtorEq] at *
  try split at *
  all_goals try omega))

/-- The three relations the Rust code asserts statically, plus the definitional ones. -/
theorem static_asserts :
    MIN_CLTV_EXPIRY_DELTA ≥ 2 * LATENCY_GRACE_PERIOD_BLOCKS + 2 * MAX_BLOCKS_FOR_CONF + ANTI_REORG_DELAY ∧
    _ASSUMED_COUNTERPARTY_CLTV_CLAIM_BUFFER ≥ CLTV_CLAIM_BUFFER ∧
    MIN_CLTV_EXPIRY_DELTA ≥ 2 * LATENCY_GRACE_PERIOD_BLOCKS - 1 + _ASSUMED_COUNTERPARTY_CLTV_CLAIM_BUFFER ∧
    CLTV_CLAIM_BUFFER = 2 * MAX_BLOCKS_FOR_CONF ∧
    HTLC_FAIL_BACK_BUFFER = CLTV_CLAIM_BUFFER + LATENCY_GRACE_PERIOD_BLOCKS ∧
    MIN_FINAL_CLTV_EXPIRY_DELTA ≥ HTLC_FAIL_BACK_BUFFER + 3 := by decide

/-- A received HTLC that passes the final-hop expiry test has a claim deadline strictly more than one
    block away: it is never shown as claimable with no time to claim. -/
theorem never_claimable_too_soon (h cltv : Nat) (hok : finalExpiryTooSoon h cltv = false) :
    h + 1 < claimDeadline cltv := by
  timing_omega

/-- ... and it is refused exactly when fewer than that remain (the boundary is exact). -/
theorem final_reject_iff (h cltv : Nat) :
    finalExpiryTooSoon h cltv = true ↔ cltv ≤ h + HTLC_FAIL_BACK_BUFFER + 1 := by
  timing_omega

/-- Claim window: below the advertised deadline the node does not fail the HTLC back; from the
    deadline on it does (for the part with the minimal expiry, which defines the deadline). -/
theorem claim_window (h cltv : Nat) (_hc : HTLC_FAIL_BACK_BUFFER ≤ cltv) :
    (h < claimDeadline cltv ↔ mppOnchainTimeout h cltv = false) := by
  timing_omega

/-- Parts with a later expiry are not failed before the deadline either (all-or-nothing support). -/
theorem claim_window_other_parts (h cltvMin cltv : Nat) (hle : cltvMin ≤ cltv)
    (hb : h < claimDeadline cltvMin) : mppOnchainTimeout h cltv = false := by
  timing_omega

/-- A forward that passes `check_incoming_htlc_cltv` leaves all the margins. -/
theorem never_forward_too_soon (h out inc delta : Nat)
    (hok : checkIncomingHtlcCltv h out inc delta = .ok ()) :
    out > h + LATENCY_GRACE_PERIOD_BLOCKS ∧ inc > h + HTLC_FAIL_BACK_BUFFER ∧ inc ≥ out + delta ∧
    inc ≤ h + CLTV_FAR_FAR_AWAY := by
  unfold checkIncomingHtlcCltv at hok
  repeat' split at hok
  all_goals (first | contradiction | timing_omega)

/-- Exact characterisation (nothing admissible is refused): the four tests are the only ones. -/
theorem forward_cltv_ok_iff (h out inc delta : Nat) :
    checkIncomingHtlcCltv h out inc delta = .ok () ↔
      (out + delta ≤ inc ∧ h + HTLC_FAIL_BACK_BUFFER < inc ∧ inc ≤ h + CLTV_FAR_FAR_AWAY ∧
       h + LATENCY_GRACE_PERIOD_BLOCKS < out) := by
  unfold checkIncomingHtlcCltv
  repeat' split
  all_goals (timing_omega; try (constructor <;> intro _ <;> first | trivial | contradiction | omega | exact ⟨by omega, by omega, by omega, by omega⟩))

/-- The on-chain trigger for an inbound HTLC with a known preimage fires exactly from
    `inboundTrigger` on, and never without the preimage. -/
theorem inbound_trigger_iff (h cltv : Nat) (pre : Bool) :
    shouldBroadcastFor h cltv false pre = true ↔ (pre = true ∧ inboundTrigger cltv ≤ h) := by
  cases pre <;> timing_omega

/-- The trigger for an outbound HTLC fires exactly from `expiry + grace` on. -/
theorem outbound_trigger_iff (h cltv : Nat) (pre : Bool) :
    shouldBroadcastFor h cltv true pre = true ↔ outboundTrigger cltv ≤ h := by
  cases pre <;> timing_omega

/-- Claiming strictly below the deadline leaves the peer at least the grace period to complete the
    update before the monitor's own on-chain trigger, and the trigger leaves two confirmation
    windows before the expiry. -/
theorem claim_then_safe (h cltv : Nat) (hb : h < claimDeadline cltv) :
    (∀ h', h' ≤ h + LATENCY_GRACE_PERIOD_BLOCKS → shouldBroadcastFor h' cltv false true = false) ∧
    inboundTrigger cltv + 2 * MAX_BLOCKS_FOR_CONF ≤ cltv := by
  refine ⟨fun h' hh => ?_, ?_⟩ <;> timing_omega

/-- Preimage race: with each of the two transactions confirming within MAX_BLOCKS_FOR_CONF, the
    HTLC-success is confirmed strictly before the first block that could contain the payer's timeout. -/
theorem preimage_race_won (cltv d1 d2 : Nat) (hc : CLTV_CLAIM_BUFFER ≤ cltv)
    (h1 : d1 ≤ MAX_BLOCKS_FOR_CONF) (h2 : d2 ≤ MAX_BLOCKS_FOR_CONF) :
    successConfHeight cltv d1 d2 < earliestTimeoutConf cltv := by
  timing_omega

/-- Forward race, silent downstream: for every delta ≥ MIN_CLTV_EXPIRY_DELTA the upstream HTLC is
    failed back — after the downstream timeout is buried — with the grace period to spare before the
    upstream expiry, hence before the upstream peer's own on-chain trigger `inCltv + grace`. -/
theorem forward_race_won (outCltv inCltv delta d1 d2 : Nat) (hd : MIN_CLTV_EXPIRY_DELTA ≤ delta)
    (hin : outCltv + delta ≤ inCltv) (h1 : d1 ≤ MAX_BLOCKS_FOR_CONF) (h2 : d2 ≤ MAX_BLOCKS_FOR_CONF) :
    upstreamFailHeight outCltv d1 d2 + LATENCY_GRACE_PERIOD_BLOCKS < inCltv ∧
    upstreamFailHeight outCltv d1 d2 + LATENCY_GRACE_PERIOD_BLOCKS < outboundTrigger inCltv ∧
    upstreamFailHeight outCltv d1 d2 + 1 ≥ timeoutConfHeight outCltv d1 d2 + ANTI_REORG_DELAY := by
  refine ⟨?_, ?_, ?_⟩ <;> timing_omega

/-- Last-moment preimage (off-chain): a downstream fulfil arriving in the last block before the node
    would go on chain still leaves the assumed counterparty claim buffer on the upstream HTLC after the
    node has passed the preimage back (one grace period). -/
theorem last_moment_preimage_ok (outCltv inCltv delta : Nat) (hd : MIN_CLTV_EXPIRY_DELTA ≤ delta)
    (hin : outCltv + delta ≤ inCltv) :
    lastMomentFulfil outCltv + LATENCY_GRACE_PERIOD_BLOCKS + _ASSUMED_COUNTERPARTY_CLTV_CLAIM_BUFFER ≤ inCltv := by
  timing_omega

/-- Last-moment preimage (on-chain): a downstream peer that claims on chain as late as the block in
    which the node's own HTLC-timeout would have confirmed is learned about by
    `timeoutConfHeight`; passing the preimage back off-chain (one grace period) completes before the
    upstream expiry.  PARTIAL: if the *upstream* peer is also unresponsive the node must go on chain
    upstream with fewer than 2·MAX_BLOCKS_FOR_CONF blocks left (`inCltv − timeoutConfHeight ≥ 9`
    only); that two-faulty-peers case is outside what the constants guarantee — see DESIGN §6 C08. -/
theorem last_moment_onchain_claim_partial (outCltv inCltv delta d1 d2 : Nat)
    (hd : MIN_CLTV_EXPIRY_DELTA ≤ delta) (hin : outCltv + delta ≤ inCltv)
    (h1 : d1 ≤ MAX_BLOCKS_FOR_CONF) (h2 : d2 ≤ MAX_BLOCKS_FOR_CONF) :
    timeoutConfHeight outCltv d1 d2 + LATENCY_GRACE_PERIOD_BLOCKS < inCltv := by
  timing_omega

/-- Irrevocable conclusions only when buried: an on-chain event matures only with at least
    ANTI_REORG_DELAY confirmations, and (for CSV-encumbered outputs) only when spendable. -/
theorem failback_only_when_buried (best h : Nat) (csv : Option Nat)
    (hm : hasReachedConfirmationThreshold best h csv = true) :
    best + 1 ≥ h + ANTI_REORG_DELAY ∧ (∀ c, csv = some c → best + 1 ≥ h + c) := by
  cases csv with
  | none => exact ⟨by timing_omega, fun c' hc => by cases hc⟩
  | some c => exact ⟨by timing_omega, fun c' hc => by cases hc; timing_omega⟩

/-- An HTLC the node has not yet committed downstream (holding cell) is given up exactly when
    forwarding it would be refused by `check_incoming_htlc_cltv`'s outgoing test. -/
theorem holding_cell_timeout_matches_forward_rule (h out inc delta : Nat)
    (hok : checkIncomingHtlcCltv h out inc delta = .ok ()) : holdingCellTimedOut h out = false := by
  have := never_forward_too_soon h out inc delta hok
  timing_omega

/-- A forward accepted at height `h` is not immediately in its own on-chain window upstream:
    the inbound trigger (with preimage) is still ≥ grace blocks away. -/
theorem accepted_forward_not_in_onchain_window (h out inc delta : Nat)
    (hok : checkIncomingHtlcCltv h out inc delta = .ok ()) :
    ∀ h', h' ≤ h + LATENCY_GRACE_PERIOD_BLOCKS → shouldBroadcastFor h' inc false true = false := by
  have := never_forward_too_soon h out inc delta hok
  intro h' hh
  timing_omega

/-- The monitor's pre-emptive upstream fail-back (downstream channel closed, forward still unresolved)
    fires only once the downstream timeout has been buried under the library's stated bounds: for every
    delta ≥ MIN_CLTV_EXPIRY_DELTA and confirmation delays within MAX_BLOCKS_FOR_CONF, any height at which
    `earlyFailBack` holds is at or after `upstreamFailHeight`; so it can never give up an upstream HTLC that
    the downstream peer could still claim. -/
theorem early_failback_only_when_buried (h outCltv inCltv delta d1 d2 : Nat) (hd : MIN_CLTV_EXPIRY_DELTA ≤ delta)
    (hin : outCltv + delta ≤ inCltv) (h1 : d1 ≤ MAX_BLOCKS_FOR_CONF) (h2 : d2 ≤ MAX_BLOCKS_FOR_CONF)
    (hh : h < 2 ^ 31) (he : earlyFailBack h inCltv = true) :
    upstreamFailHeight outCltv d1 d2 ≤ h := by
  simp only [earlyFailBack, satAdd32] at he
  split at he <;> timing_omega

/-- ... and it fires no later than one grace period before the upstream expiry, so the upstream peer has
    no reason to close. -/
theorem early_failback_in_time (inCltv : Nat) (hh : inCltv < 2 ^ 31) (hc : LATENCY_GRACE_PERIOD_BLOCKS ≤ inCltv) :
    earlyFailBack (inCltv - LATENCY_GRACE_PERIOD_BLOCKS) inCltv = true := by
  simp only [earlyFailBack, satAdd32]
  split <;> timing_omega

/-! ## The height-driven glue (`Model/NodeStep.lean`): manager + monitor actions per delivered block -/

/-- Census of FundedChannel::do_best_block_updated (regenerated per exit from the Rust text): every `Ok` exit taken after
    the holding-cell scan returns the scanned-out list itself in the timed-out-HTLC position. -/
theorem ok_exit_returns_timed_out (x : BbuExit) (hok : x.isOk = true) : x.returnsTimedOut = true := by
  cases x <;> first | rfl | exact absurd hok (by decide)

/-- Whatever else happens in the block (channel_ready, splice_locked, nothing): an HTLC that leaves the holding cell by
    timeout is failed backwards in the same call — for every height, every expiry, every `Ok` exit. -/
theorem holding_cell_timeout_always_failed_back (s : St) (h : Nat) (x : BbuExit) (hok : x.isOk = true)
    (hp : s.up = .pending) (hc : Act.cellTimeout ∈ (mgrBlock s h x).2) :
    Act.failBack ∈ (mgrBlock s h x).2 ∧ (mgrBlock s h x).1.up = .failed ∧ (mgrBlock s h x).1.inCell = false := by
  have hr := ok_exit_returns_timed_out x hok
  have hcc := (mgr_cell_iff s h x).1 hc
  unfold mgrBlock
  simp only [hcc.1, hcc.2, Bool.and_self, if_true, hr, hok]
  refine ⟨?_, ?_, ?_⟩
  · rw [failUp_acts]; simp [hp]
  · exact failUp_up _ hp
  · exact (failUp_rest _).1

/-- The same for a whole holding cell: every entry that does not survive the scan is in the list the exit hands to
    do_chain_event (which fails each of its entries backwards with `chainEventHoldingCellReason`). -/
theorem holding_cell_scan_loses_nothing (h : Nat) (x : BbuExit) (hok : x.isOk = true) (cell : List (Nat × Nat))
    (e : Nat × Nat) (he : e ∈ cell) (hgone : e ∉ cellKept h cell) : e ∈ bbuReturn x (cellTimedOut h cell) := by
  simp only [bbuReturn, ok_exit_returns_timed_out x hok, if_true, cellTimedOut, cellKept, List.mem_filter] at *
  refine ⟨he, ?_⟩
  cases hto : holdingCellTimedOut h e.2
  · exact absurd ⟨he, by simp [hto]⟩ hgone
  · rfl

/-- The scan fires exactly on the translated test, at the delivered height (whatever height was delivered before). -/
theorem holding_cell_timeout_iff (s : St) (h : Nat) (x : BbuExit) :
    Act.cellTimeout ∈ (mgrBlock s h x).2 ↔ (s.inCell = true ∧ s.outCltv ≤ h + LATENCY_GRACE_PERIOD_BLOCKS) := by
  rw [mgr_cell_iff]
  simp [holdingCellTimedOut]

/-- The `Err` exit "funding transaction was un-confirmed" is only taken at a height below the one at which the HTLC
    was admitted for forwarding (the funding had its confirmations then): nothing can be scanned out in that call, so
    the list it drops is empty. -/
theorem unconfirm_exit_has_nothing_timed_out (h0 h out inc delta : Nat)
    (hok : checkIncomingHtlcCltv h0 out inc delta = .ok ()) (hle : h ≤ h0) : holdingCellTimedOut h out = false := by
  have := never_forward_too_soon h0 out inc delta hok
  timing_omega

/-- the reason with which do_chain_event fails holding-cell timeouts backwards is the forwarding rule's own -/
theorem holding_cell_fail_reason : chainEventHoldingCellReason = .cLTVExpiryTooSoon := by decide

/-- (c) The downstream monitor fails the upstream HTLC back ONLY when the confirmed HTLC-timeout is buried
    (`ANTI_REORG_DELAY` confirmations at the delivered height) or when the pre-emptive rule fires on a channel that no longer
    accepts updates (closed before, or by this very block's broadcast) — never earlier, at any delivered height, from any state. -/
theorem failback_only_when_buried_or_preemptive (s : St) (h : Nat) (c t : Bool)
    (hf : Act.failBack ∈ (monDown s h c t).2) :
    (∃ tc, (monTxs s h c t).timeoutConf = some tc ∧ h + 1 ≥ tc + ANTI_REORG_DELAY) ∨
    (earlyFailBack h s.inCltv = true ∧ (s.downOpen = false ∨ Act.broadcastDown ∈ (monDown s h c t).2)) := by
  rcases monDown_failback s h c t hf with ⟨tc, h1, h2⟩ | ⟨h1, h2⟩
  · exact Or.inl ⟨tc, h1, (failback_only_when_buried h tc none h2).1⟩
  · exact Or.inr ⟨h1, by rw [← (monTxs_fields s h c t).1]; exact h2⟩

/-- (d) Jumps: from ANY state (so whatever height was delivered before, however far below), the first processed height
    at or above `expiry + grace` broadcasts the holder commitment in that very step, and no processed height below does. -/
theorem jump_fires_at_first_delivered_height (s : St) (h : Nat) (hl : s.outLive = true) (hn : s.downBroadcast = none) :
    Act.broadcastDown ∈ (monScan s h).2 ↔ outboundTrigger s.outCltv ≤ h := by
  rw [monScan_fires_iff s h hl hn, outbound_trigger_iff]

/-- (b) The node never sits past `cltv_expiry − CLTV_CLAIM_BUFFER` on an unclaimed inbound HTLC whose preimage it knows:
    any processed height at or above that trigger (jump or not) leaves the upstream commitment broadcast. -/
theorem never_waits_past_claim_buffer (s : St) (h : Nat) (hp : s.preimage = true) (hu : s.up = .pending)
    (hh : inboundTrigger s.inCltv ≤ h) : (monUp s h).1.upBroadcast.isSome = true :=
  monUp_fires s h hp hu ((inbound_trigger_iff h s.inCltv true).2 ⟨rfl, hh⟩)

/-- (a) A preimage that arrives while the downstream HTLC is still claimable off-chain (before the node's own on-chain
    trigger `outCltv + grace`) is passed upstream at once if the upstream peer answers; otherwise the block after its
    arrival is still at or below the upstream on-chain trigger (nothing has been missed, for every delta ≥ the minimum),
    and the trigger leaves both confirmation windows before the upstream expiry. -/
theorem preimage_in_time_claims_upstream (s : St) (p delta : Nat) (hd : MIN_CLTV_EXPIRY_DELTA ≤ delta)
    (hin : s.outCltv + delta ≤ s.inCltv) (harr : p < outboundTrigger s.outCltv)
    (hnew : s.preimage = false) (hcell : s.inCell = false) (hu : s.up = .pending) :
    (s.upResponsive = true → Act.claimOffchain ∈ (onPreimage s).2 ∧ (onPreimage s).1.up = .claimed) ∧
    (onPreimage s).1.preimage = true ∧
    p + 1 ≤ inboundTrigger s.inCltv ∧ inboundTrigger s.inCltv + 2 * MAX_BLOCKS_FOR_CONF ≤ s.inCltv := by
  refine ⟨fun hr => ?_, ?_, ?_, ?_⟩
  · simp [onPreimage, hnew, hcell, hu, hr]
  · unfold onPreimage; simp only [hnew, hcell, Bool.or_self, Bool.false_eq_true, if_false]; split <;> rfl
  · timing_omega
  · timing_omega

/-- Restart: re-announcing the current best height changes nothing and emits nothing (the monitor ignores it, the
    manager's scan is idempotent). -/
theorem reannounce_is_noop (s : St) (h : Nat) (x : BbuExit) (c t : Bool) (hb : s.monBest = h)
    (hc : (s.inCell && holdingCellTimedOut h s.outCltv) = false)
    (hi : (s.intercepted && interceptTimedOut h s.outCltv) = false) : nodeStep s (.block h x c t) = (s, []) :=
  reannounce_noop s h x c t hb hc hi

/-- WHOLE HISTORIES (induction over `run`, any start state, any list of blocks / jumps / re-announced heights / preimage
    arrivals / holding-cell releases, any exits): the upstream HTLC is resolved off chain AT MOST ONCE — never failed
    back twice, never failed back and claimed — not at all when it was already resolved, and whenever the log shows no
    resolution the upstream state is unchanged in that respect (resolutions logged + resolved before = resolved after). -/
theorem upstream_resolved_at_most_once (s : St) (es : List Ev) :
    logRes (run s es).2 ≤ 1 ∧ (s.up ≠ .pending → logRes (run s es).2 = 0) ∧
    ((run s es).1.up = .pending → logRes (run s es).2 = 0 ∧ s.up = .pending) ∧
    (s.up = .pending → logRes (run s es).2 = 1 → (run s es).1.up ≠ .pending) := by
  have hb := run_bal es s
  have h1 := resolved_le_one (run s es).1
  refine ⟨by omega, ?_, ?_, ?_⟩
  · intro hp
    have : resolved s = 1 := by simp [resolved, hp]
    omega
  · intro hp
    have h0 : resolved (run s es).1 = 0 := by simp [resolved, hp]
    refine ⟨by omega, ?_⟩
    have : resolved s = 0 := by omega
    unfold resolved at this
    split at this
    · assumption
    · omega
  · intro hp hl hf
    have h0 : resolved (run s es).1 = 0 := by simp [resolved, hf]
    omega
example : logRes (run { inCltv := 188, outCltv := 140, monBest := 100, inCell := false, outLive := true }
    [.block 142 .plain false false, .block 150 .plain false false, .block 151 .plain true false,
     .block 152 .plain false true, .block 157 .plain false false, .preimage, .block 190 .plain false false]).2 = 1 := by decide

/-- WHOLE HISTORIES: in no history (any start state, any delivered heights incl. jumps and re-announcements, any exits,
    preimage arrivals, holding-cell releases) does the node put its downstream commitment on the wire before the outbound
    HTLC's `expiry + grace` — a slow downstream peer always gets the whole grace period, however the blocks arrive. -/
theorem never_onchain_downstream_before_grace (s : St) (es : List Ev) (h : Nat)
    (hm : (h, Act.broadcastDown) ∈ (run s es).2) : outboundTrigger s.outCltv ≤ h := by
  obtain ⟨p, hp⟩ := run_down es s h hm
  exact (outbound_trigger_iff h s.outCltv p).1 hp
example : (150, Act.broadcastDown) ∈ (run { inCltv := 188, outCltv := 140, monBest := 100, inCell := false, outLive := true }
    [.block 142 .plain false false, .block 150 .plain false false]).2 := by decide

/-- WHOLE HISTORIES — the property itself. In EVERY history in which blocks are delivered one height at a time (any exits,
    any confirmations, holding-cell releases, releases of a held intercepted forward, and a downstream preimage that comes off
    chain, i.e. before the node's own downstream trigger), starting from any state that is itself in time, after every
    event the node has acted before the height at which money could be lost:
    * downstream: an outbound HTLC that is live and whose commitment is not on the wire ⇒ best height < `outCltv + LATENCY_GRACE_PERIOD_BLOCKS`
      (by `outCltv + 3` the node HAS gone on chain downstream);
    * a forward still in the holding cell ⇒ best height + `LATENCY_GRACE_PERIOD_BLOCKS` < `outCltv` (else it HAS been failed back);
    * a forward still held as intercepted ⇒ best height + `HTLC_FAIL_BACK_BUFFER` (39) < `outCltv` (else it HAS been failed back);
    * upstream: preimage known, upstream HTLC neither claimed off chain nor taken on chain ⇒ best height + `CLTV_CLAIM_BUFFER` (36)
      < `inCltv`: both confirmation windows (2·MAX_BLOCKS_FOR_CONF) are still ahead, the payer's timeout cannot win;
    and the admitted delta `inCltv ≥ outCltv + MIN_CLTV_EXPIRY_DELTA` (48) is never lost. (`Safe`/`OneAtATime`: Proofs/NodeSafe.lean) -/
theorem acted_before_money_could_be_lost (s : St) (es : List Ev) (hs : Safe s) (ho : OneAtATime s es) :
    ((run s es).1.outLive = true → (run s es).1.downBroadcast = none →
        (run s es).1.monBest < (run s es).1.outCltv + LATENCY_GRACE_PERIOD_BLOCKS) ∧
    ((run s es).1.inCell = true → (run s es).1.monBest + LATENCY_GRACE_PERIOD_BLOCKS < (run s es).1.outCltv) ∧
    ((run s es).1.intercepted = true → (run s es).1.monBest + HTLC_FAIL_BACK_BUFFER < (run s es).1.outCltv) ∧
    ((run s es).1.preimage = true → (run s es).1.up = .pending → (run s es).1.upBroadcast = none →
        (run s es).1.monBest + CLTV_CLAIM_BUFFER < (run s es).1.inCltv) ∧
    (run s es).1.outCltv + MIN_CLTV_EXPIRY_DELTA ≤ (run s es).1.inCltv := by
  obtain ⟨⟨c1, c2, c3, c4⟩, wf⟩ := run_safe es s hs ho
  generalize (run s es).1 = q at *
  refine ⟨fun a b => ?_, fun a => ?_, fun a => ?_, fun a b d => ?_, wf⟩
  · have h1 := c1 a b
    cases hp : q.preimage <;> rw [hp] at h1 <;> timing_omega
  · have h1 := c2 a
    timing_omega
  · have h1 := c4 a
    simp only [interceptTimedOut] at h1
    timing_omega
  · have h1 := c3 a b d
    timing_omega
example : Safe { inCltv := 188, outCltv := 140, monBest := 100, inCell := false, outLive := true } := by
  unfold Safe SafeAt C1 C2 C3 C4 Wf; decide
example : OneAtATime { inCltv := 188, outCltv := 140, monBest := 100, inCell := false, outLive := true }
    [.block 101 .plain false false, .preimage, .block 102 .plain false false] := by
  unfold OneAtATime; refine ⟨rfl, ?_⟩; unfold OneAtATime; refine ⟨by decide, ?_⟩; unfold OneAtATime; exact ⟨by decide, trivial⟩

/-! ### Round 6: the property for ANY delivered heights (jumps, re-announced and lower heights) -/

/-- WHOLE HISTORIES, ANY HEIGHTS — the property itself without the one-height-at-a-time hypothesis. In EVERY history (blocks at
    any heights: the next one, jumps of any size as Confirm clients deliver them, heights announced again after a restart, lower
    heights; any exits, confirmations, holding-cell releases, releases of a held intercepted forward) in which the downstream
    preimage — if it comes — comes while the upstream HTLC is not yet inside its own on-chain window at the node's best height,
    starting from any state that is itself in time, after every event the node has acted before the height (as far as it has
    been told heights) at which money could be lost: the same five clauses as `acted_before_money_could_be_lost`, which is the
    special case `OneAtATime` (`one_at_a_time_is_special_case`). -/
theorem acted_before_money_could_be_lost_any_heights (s : St) (es : List Ev) (hs : Safe s) (ho : PreimageInTime s es) :
    ((run s es).1.outLive = true → (run s es).1.downBroadcast = none →
        (run s es).1.monBest < (run s es).1.outCltv + LATENCY_GRACE_PERIOD_BLOCKS) ∧
    ((run s es).1.inCell = true → (run s es).1.monBest + LATENCY_GRACE_PERIOD_BLOCKS < (run s es).1.outCltv) ∧
    ((run s es).1.intercepted = true → (run s es).1.monBest + HTLC_FAIL_BACK_BUFFER < (run s es).1.outCltv) ∧
    ((run s es).1.preimage = true → (run s es).1.up = .pending → (run s es).1.upBroadcast = none →
        (run s es).1.monBest + CLTV_CLAIM_BUFFER < (run s es).1.inCltv) ∧
    (run s es).1.outCltv + MIN_CLTV_EXPIRY_DELTA ≤ (run s es).1.inCltv := by
  obtain ⟨⟨c1, c2, c3, c4⟩, wf⟩ := run_safe_any es s hs ho
  generalize (run s es).1 = q at *
  refine ⟨fun a b => ?_, fun a => ?_, fun a => ?_, fun a b d => ?_, wf⟩
  · have h1 := c1 a b
    cases hp : q.preimage <;> rw [hp] at h1 <;> timing_omega
  · have h1 := c2 a
    timing_omega
  · have h1 := c4 a
    simp only [interceptTimedOut] at h1
    timing_omega
  · have h1 := c3 a b d
    timing_omega
example : PreimageInTime { inCltv := 188, outCltv := 140, monBest := 100, inCell := false, outLive := true }
    [.block 120 .plain false false, .block 120 .plain false false, .block 90 .plain false false, .preimage,
     .block 150 .plain false false] := by
  unfold PreimageInTime; refine ⟨trivial, ?_⟩; unfold PreimageInTime; refine ⟨trivial, ?_⟩
  unfold PreimageInTime; refine ⟨trivial, ?_⟩; unfold PreimageInTime; refine ⟨by decide, ?_⟩
  unfold PreimageInTime; exact ⟨trivial, trivial⟩

/-- the hypothesis of `acted_before_money_could_be_lost` implies the one of `…_any_heights` -/
theorem one_at_a_time_is_special_case (s : St) (es : List Ev) (hs : Safe s) (ho : OneAtATime s es) : PreimageInTime s es :=
  oneAtATime_preimageInTime es s hs ho

/-- WHOLE HISTORIES, NO HYPOTHESIS ON THE HISTORY AT ALL (any heights, a preimage arriving whenever and however late): the
    downstream-facing clauses hold after every event — a live outbound HTLC whose commitment is not on the wire, a forward in
    the holding cell, a held intercepted forward are never past their deadlines at the node's best height. -/
theorem acted_downstream_in_every_history (s : St) (es : List Ev) (hs : SafeDown s) :
    ((run s es).1.outLive = true → (run s es).1.downBroadcast = none →
        (run s es).1.monBest < (run s es).1.outCltv + LATENCY_GRACE_PERIOD_BLOCKS) ∧
    ((run s es).1.inCell = true → (run s es).1.monBest + LATENCY_GRACE_PERIOD_BLOCKS < (run s es).1.outCltv) ∧
    ((run s es).1.intercepted = true → (run s es).1.monBest + HTLC_FAIL_BACK_BUFFER < (run s es).1.outCltv) := by
  obtain ⟨c1, c2, c4⟩ := run_safeDown es s hs
  generalize (run s es).1 = q at *
  refine ⟨fun a b => ?_, fun a => ?_, fun a => ?_⟩
  · have h1 := c1 a b
    cases hp : q.preimage <;> rw [hp] at h1 <;> timing_omega
  · have h1 := c2 a
    timing_omega
  · have h1 := c4 a
    simp only [interceptTimedOut] at h1
    timing_omega
example : SafeDown { inCltv := 188, outCltv := 140, monBest := 100, inCell := false, outLive := true } := by
  unfold SafeDown C1 C2 C4; decide

/-- FROM ANY STATE (no invariant assumed: a preimage that came late, a node that was offline for days): ONE block at any height
    the monitors process puts the node back in time at that height in every respect — whatever should have happened by then
    (downstream commitment broadcast, holding-cell / intercepted fail-back, upstream commitment broadcast) HAS happened in
    that very step. -/
theorem every_processed_block_restores_safety (s : St) (h : Nat) (x : BbuExit) (c t : Bool) (hp : s.monBest < h) :
    (nodeStep s (.block h x c t)).1.monBest = h ∧
    ((nodeStep s (.block h x c t)).1.outLive = true → (nodeStep s (.block h x c t)).1.downBroadcast = none →
        h < (nodeStep s (.block h x c t)).1.outCltv + LATENCY_GRACE_PERIOD_BLOCKS) ∧
    ((nodeStep s (.block h x c t)).1.inCell = true → h + LATENCY_GRACE_PERIOD_BLOCKS < (nodeStep s (.block h x c t)).1.outCltv) ∧
    ((nodeStep s (.block h x c t)).1.intercepted = true → h + HTLC_FAIL_BACK_BUFFER < (nodeStep s (.block h x c t)).1.outCltv) ∧
    ((nodeStep s (.block h x c t)).1.preimage = true → (nodeStep s (.block h x c t)).1.up = .pending →
        (nodeStep s (.block h x c t)).1.upBroadcast = none → h + CLTV_CLAIM_BUFFER < (nodeStep s (.block h x c t)).1.inCltv) := by
  have hproc : monitorProcessesHeight h s.monBest = true := by simp [monitorProcessesHeight, hp]
  obtain ⟨⟨c1, c2, c3, c4⟩, hb, _⟩ := block_processed s h x c t hproc
  generalize (nodeStep s (.block h x c t)).1 = q at *
  refine ⟨hb, fun a b => ?_, fun a => ?_, fun a => ?_, fun a b d => ?_⟩
  · have h1 := c1 a b
    cases hq : q.preimage <;> rw [hq] at h1 <;> timing_omega
  · have h1 := c2 a
    timing_omega
  · have h1 := c4 a
    simp only [interceptTimedOut] at h1
    timing_omega
  · have h1 := c3 a b d
    timing_omega
example : (nodeStep { inCltv := 188, outCltv := 140, monBest := 100, inCell := false, outLive := true, preimage := true, upResponsive := false } (.block 170 .plain false false)).2 = [.broadcastDown, .broadcastTimeout, .broadcastUp] := by decide

/-- (round 5b) The trampoline-forward timeout arm of `do_chain_event`: a trampoline forward still waiting for parts is given up
    exactly when SOME part is within `HTLC_FAIL_BACK_BUFFER` of its expiry (the earliest part decides: all parts are failed
    together, pinned by the translator), so while it is held EVERY part has more than the fail-back buffer left. -/
theorem trampoline_timeout_iff (h : Nat) (cltvs : List Nat) :
    trampolineTimedOut h cltvs = true ↔ ∃ c ∈ cltvs, c ≤ h + HTLC_FAIL_BACK_BUFFER := by
  unfold trampolineTimedOut
  rw [List.any_eq_true]
  constructor
  · rintro ⟨c, hc, ht⟩; exact ⟨c, hc, by timing_omega⟩
  · rintro ⟨c, hc, ht⟩; exact ⟨c, hc, by timing_omega⟩
theorem trampoline_held_all_parts_safe (h : Nat) (cltvs : List Nat) (hh : trampolineTimedOut h cltvs = false) :
    ∀ c ∈ cltvs, h + HTLC_FAIL_BACK_BUFFER < c ∧ mppOnchainTimeout h c = false := by
  intro c hc
  have : ¬ (c ≤ h + HTLC_FAIL_BACK_BUFFER) := fun hle => by
    have := (trampoline_timeout_iff h cltvs).2 ⟨c, hc, hle⟩; rw [hh] at this; cases this
  constructor <;> timing_omega
theorem trampoline_timeout_reason : trampolineTimeoutReason = .cLTVExpiryTooSoon := by decide
example : trampolineTimedOut 100 [200, 139, 180] = true ∧ trampolineTimedOut 100 [200, 140, 180] = false := by decide

/-- (round 5b) No forwarded HTLC is outside every sweep: wherever a forward with a downstream counterpart sits — held as
    intercepted, awaiting trampoline parts, in the outbound holding cell, or in ANY of the three commitments of the outbound
    channel — a timeout sweep translated from the current source visits that place (manager: `chainEventSweeps`; monitor: both
    the on-chain trigger's `scanList` and the pre-emptive fail-back loop's `preemptiveSweepList`). -/
theorem no_forwarded_htlc_outside_every_sweep (l : FwdLoc) : sweptBy l = true := by
  cases l with
  | commitment s => cases s <;> decide
  | _ => decide
example : FwdLoc.all.all sweptBy = true := by decide
/-- the pre-emptive loop visits exactly the sets the on-chain trigger scans -/
theorem preemptive_sweep_matches_trigger_scan (s : ScanSet) : s ∈ preemptiveSweepList ↔ ∃ f, (s, f) ∈ scanList := by
  cases s <;> decide
/-- the loop skips an entry ONLY for one of these five reasons (pin of the translated `continue`s; no break / return):
    not a forward (no source), no inbound expiry, not yet due (`earlyFailBack` false), the same failure already pending,
    already failed back -/
theorem preemptive_loop_skips :
    preemptiveSkips = [.noSource, .noInboundExpiry, .notYetDue, .eventAlreadyPending, .alreadyFailedBack] := by decide

/-! ### Round 5: intercepted HTLCs held by the node; which commitments the on-chain trigger scans -/

/-- The intercepted-HTLC timeout of `do_chain_event` fires exactly from `out − HTLC_FAIL_BACK_BUFFER` on. -/
theorem intercept_timeout_iff (h out : Nat) :
    interceptTimedOut h out = true ↔ out ≤ h + HTLC_FAIL_BACK_BUFFER := by
  simp only [interceptTimedOut]; timing_omega
example : interceptTimedOut 101 140 = true ∧ interceptTimedOut 100 140 = false := by decide

/-- An intercepted HTLC that the node still holds after block `h` can be released (`forward_intercepted_htlc`) at any
    height up to `h + CLTV_CLAIM_BUFFER` without the outgoing HTLC being in the holding-cell timeout window or in the
    monitor's outbound on-chain window, and the upstream HTLC then still has more than the fail-back buffer plus its
    delta left. -/
theorem held_intercept_release_is_safe (h h' out inc delta : Nat) (hheld : interceptTimedOut h out = false)
    (hin : out + delta ≤ inc) (hh : h' ≤ h + CLTV_CLAIM_BUFFER) :
    holdingCellTimedOut h' out = false ∧ shouldBroadcastFor h' out true false = false ∧
    h + HTLC_FAIL_BACK_BUFFER + delta < inc := by
  simp only [interceptTimedOut] at hheld
  refine ⟨?_, ?_, ?_⟩ <;> timing_omega
example : interceptTimedOut 100 141 = false ∧ (141 + 48 ≤ 189) ∧ 136 ≤ 100 + CLTV_CLAIM_BUFFER := by decide

/-- Whole histories (any list of delivered heights: single blocks, jumps, re-announced heights): the intercepted HTLC
    is failed back at the FIRST delivered height that is within the fail-back buffer of its outgoing expiry … -/
theorem intercept_hold_some (out : Nat) (hs : List Nat) (h : Nat) (hf : interceptHold out hs = some h) :
    ∃ pre suf, hs = pre ++ h :: suf ∧ out ≤ h + HTLC_FAIL_BACK_BUFFER ∧ ∀ a ∈ pre, a + HTLC_FAIL_BACK_BUFFER < out := by
  induction hs with
  | nil => simp [interceptHold] at hf
  | cons a t ih =>
    unfold interceptHold at hf ih
    rw [List.find?_cons] at hf
    cases hp : interceptTimedOut a out with
    | true =>
      rw [hp] at hf
      have ha : a = h := by simpa using hf
      subst ha
      exact ⟨[], t, rfl, (intercept_timeout_iff a out).1 hp, by simp⟩
    | false =>
      rw [hp] at hf
      obtain ⟨pre, suf, he, hle, hall⟩ := ih hf
      refine ⟨a :: pre, suf, by rw [he]; rfl, hle, ?_⟩
      intro b hb
      rcases List.mem_cons.1 hb with hb | hb
      · subst hb
        have : ¬ (out ≤ b + HTLC_FAIL_BACK_BUFFER) := fun hc => by
          have := (intercept_timeout_iff b out).2 hc; rw [hp] at this; cases this
        omega
      · exact hall b hb

/-- … and is still held exactly when no delivered height reached that point. -/
theorem intercept_hold_none (out : Nat) (hs : List Nat) :
    interceptHold out hs = none ↔ ∀ a ∈ hs, a + HTLC_FAIL_BACK_BUFFER < out := by
  unfold interceptHold
  rw [List.find?_eq_none]
  constructor
  · intro hh a ha
    have h1 := hh a ha
    have : ¬ (out ≤ a + HTLC_FAIL_BACK_BUFFER) := fun hc => h1 ((intercept_timeout_iff a out).2 hc)
    omega
  · intro hh a ha hc
    have := (intercept_timeout_iff a out).1 hc
    have := hh a ha
    omega
example : interceptHold 140 [99, 100, 101, 102] = some 101 ∧ interceptHold 140 [99, 100] = none ∧
    interceptHold 140 [90, 120, 121] = some 120 := by decide

/-- The automatic fail-back of an intercepted HTLC comes in time for the upstream channel: if the HTLC was still held
    at the previously delivered height and the next delivered height is at most `k ≤ MIN_CLTV_EXPIRY_DELTA` blocks
    later, then at that height the upstream HTLC is more than a grace period plus a claim buffer from its expiry (so the
    fail-back completes off chain and the node's own inbound on-chain trigger is not reached), for every delta at or
    above the minimum. -/
theorem intercept_failback_in_time (hprev h out inc delta k : Nat) (hheld : interceptTimedOut hprev out = false)
    (hk : h ≤ hprev + k) (hkk : k ≤ MIN_CLTV_EXPIRY_DELTA) (hd : MIN_CLTV_EXPIRY_DELTA ≤ delta) (hin : out + delta ≤ inc) :
    h + LATENCY_GRACE_PERIOD_BLOCKS + CLTV_CLAIM_BUFFER < inc ∧ shouldBroadcastFor h inc false true = false := by
  simp only [interceptTimedOut] at hheld
  refine ⟨?_, ?_⟩ <;> timing_omega
example : interceptTimedOut 100 140 = false ∧ 101 ≤ 100 + 1 ∧ 1 ≤ MIN_CLTV_EXPIRY_DELTA ∧ 140 + 48 ≤ 188 := by decide

/-- Every commitment whose HTLCs can still reach the chain (our current one, the counterparty's current and previous
    ones) is scanned by `should_broadcast_holder_commitment_txn`, each under its own side's flag. -/
theorem scan_covers_every_commitment (s : ScanSet) : (s, decide (s = .holderCurrent)) ∈ scanList := by
  cases s <;> decide

/-- In every scan the direction derived from the flag is the true one: an HTLC we offered is treated as outbound and
    an HTLC offered to us as inbound, whichever commitment it is found in. -/
theorem scan_direction_correct : ∀ p ∈ scanList, ∀ w : Bool, scanHtlcOutbound p.2 (offeredIn p.1 w) = w := by
  decide

/-- The monitor's on-chain trigger as a whole: it fires iff no funding spend is confirmed / awaiting confirmation and
    SOME HTLC in ANY of the three commitments meets the per-HTLC test in its true direction — so `outbound_trigger_iff`
    / `inbound_trigger_iff` hold for HTLCs that are (so far) only in the counterparty's commitment as well. -/
theorem mon_broadcast_iff (c a : Bool) (h : Nat) (htlcs : List MonHtlc) :
    monShouldBroadcast c a h htlcs = true ↔
      (c = false ∧ a = false ∧ ∃ x ∈ htlcs, shouldBroadcastFor h x.cltv x.weOffered x.preimage = true) := by
  unfold monShouldBroadcast broadcastGateClosed
  cases c <;> cases a <;> simp only [Bool.or_false, Bool.or_true, if_true, if_false, Bool.false_eq_true,
    true_and, false_and, and_false, reduceCtorEq]
  constructor
  · intro hh
    obtain ⟨⟨s, f⟩, hmem, hx⟩ := List.any_eq_true.1 hh
    obtain ⟨x, hxm, hx2⟩ := List.any_eq_true.1 hx
    refine ⟨x, hxm, ?_⟩
    have hdir := scan_direction_correct (s, f) hmem x.weOffered
    simp only [Bool.and_eq_true, beq_iff_eq] at hx2
    obtain ⟨hs, hb⟩ := hx2
    subst hs
    simp only at hdir
    rw [hdir] at hb
    exact hb
  · rintro ⟨x, hxm, hb⟩
    refine List.any_eq_true.2 ⟨(x.set, decide (x.set = .holderCurrent)), scan_covers_every_commitment x.set, ?_⟩
    refine List.any_eq_true.2 ⟨x, hxm, ?_⟩
    have hdir := scan_direction_correct _ (scan_covers_every_commitment x.set) x.weOffered
    simp only at hdir
    simp only [Bool.and_eq_true, beq_iff_eq, true_and]
    rw [hdir]
    exact hb
example : monShouldBroadcast false false 143 [⟨.counterpartyCurrent, true, 140, false⟩] = true ∧
    monShouldBroadcast false false 142 [⟨.counterpartyCurrent, true, 140, false⟩] = false ∧
    monShouldBroadcast true false 143 [⟨.holderCurrent, true, 140, false⟩] = false := by decide

/-- An outbound HTLC that is in ANY unrevoked commitment makes the monitor go on chain exactly from `expiry + grace` on
    (as long as no funding spend is confirmed). -/
theorem outbound_trigger_any_commitment (h cltv : Nat) (s : ScanSet) (pre : Bool) :
    monShouldBroadcast false false h [⟨s, true, cltv, pre⟩] = true ↔ outboundTrigger cltv ≤ h := by
  rw [mon_broadcast_iff]
  simp only [List.mem_singleton, exists_eq_left, true_and]
  exact outbound_trigger_iff h cltv pre
example : outboundTrigger 140 ≤ 143 := by decide

example : (run { inCltv := 188, outCltv := 140, monBest := 100, inCell := false, outLive := true }
    [.block 142 .plain false false, .block 150 .plain false false, .block 151 .plain true false,
     .block 152 .plain false true, .block 157 .plain false false]).2
    = [(150, .broadcastDown), (150, .broadcastTimeout), (157, .failBack)] := by decide
example : (run { inCltv := 188, outCltv := 140, monBest := 100, inCell := false, outLive := true, upResponsive := false }
    [.preimage, .block 151 .plain false false, .block 153 .plain false false]).2 = [(153, .broadcastUp)] := by decide

example : BbuExit.splice.isOk = true ∧ BbuExit.splice.returnsTimedOut = true := by decide
example : (mgrBlock { inCltv := 200, outCltv := 103, monBest := 99, inCell := true, outLive := false } 100 .splice).2
    = [.cellTimeout, .failBack] := by decide
example : (mgrBlock { inCltv := 200, outCltv := 104, monBest := 99, inCell := true, outLive := false } 100 .splice).2 = [] := by decide
example : holdingCellTimedOut 100 103 = true ∧ holdingCellTimedOut 100 104 = false := by decide

-- Non-vacuity: concrete heights meeting every hypothesis used above.
example : finalExpiryTooSoon 100 141 = false ∧ claimDeadline 141 = 102 := by decide
example : checkIncomingHtlcCltv 100 140 188 48 = .ok () := by rfl
example : checkIncomingHtlcCltv 100 103 188 48 = .error .outgoingCLTVTooSoon := by rfl
example : shouldBroadcastFor 104 140 false true = true ∧ shouldBroadcastFor 103 140 false true = false := by decide
example : earlyFailBack 137 140 = true ∧ earlyFailBack 136 140 = false := by decide
example : hasReachedConfirmationThreshold 105 100 none = true ∧ hasReachedConfirmationThreshold 104 100 none = false := by decide

end Ldk.C08
