/- C14 — Onions deliver exactly each hop's instructions; failures name the right hop.
   Property theorems only, over an ARBITRARY stream cipher / MAC (`OnionCrypto`), arbitrary packet
   length `L = noise.length`, arbitrary hop count, keys, payloads, associated data.
   The model (Model/Onion.lean) mirrors construct_onion_packet_with_init_noise / decode_next_hop /
   build_failure_packet / crypt_failure_packet / process_onion_failure_inner; the c14 correspondence
   runs the same definitions (instantiated with ChaCha20 / HMAC-SHA256) against the real code.
   Cryptographic facts appear only as explicit hypotheses (never axioms):
     * `hnz`  — the HMACs `build` puts in front of inner packets are not the all-zero string
                (the protocol reserves all-zero for "final"; a real HMAC hits it with probability 2⁻²⁵⁶);
     * `NoEarlyMatch` — no relaying hop's `um` HMAC verifies by accident on the packet it relayed;
     * collisions: accepting a modified packet is shown to EXHIBIT a MAC collision.
   Failure relaying with attribution data (section "failures with attribution data"): the procedures
   build_failure_packet / process_failure_packet (with its LN_MAX_MSG_LEN guard) / crypt_failure_packet /
   update_fail_htlc_wire_len are TRANSLATED from the Rust source on every run (Generated/OnionFail.lean); the
   theorems state the exact size bound (a message of exactly LN_MAX_MSG_LEN keeps its attribution data),
   length preservation, and that the sender reads the failing hop, code, data AND every hop's hold time.
   Hop payload ENCODERS (section "hop payload encoders"): the TLV records every arm of `impl Writeable for
   OutboundOnionPayload / OutboundTrampolinePayload` emits, and the statements that order the extra TLVs (chain +
   sort_unstable_by_key), RecipientCustomTlvs::new, and the reader's known types / custom closure / kind decision are
   extracted from msgs.rs on every run (Generated/OnionPayloads.lean); theorems: strictly increasing types for every
   payload kind and custom TLV set, decode(write) = what was asked, kind recognised.
   Fulfil direction of attribution data (section "fulfil attribution data"): process_fulfill_attribution_data /
   decode_fulfill_attribution_data translated; hold times of every path length, cut at the first affected hop.
   The index arithmetic of ALL AttributionData helpers is translated (Generated/AttrIdx.lean) and proved to be what the
   mirrors compute (`attribution_helpers_use_translated_indices`).
   Hop payloads as VALUES and BYTES (section "hop payloads as VALUES and BYTES"): generated value encodings,
   decode(encode i) = i for every instruction kind, end to end through build / peel (`hops_read_their_instructions`).
   Blinded-path failures (section "failures in and around blinded payment paths"): get_htlc_forward_failure and the
   blinded branches of the sender's loop translated; never attributed inside / after the blinded section.
   Route blinding at forwarding hops (section "route blinding at forwarding hops, concatenated blinded paths"): the blinding
   part of create_fwd_pending_htlc_info and channelmanager's outgoing blinding point translated; every hop of a
   (concatenated) blinded tail is handed the path key its creators intended, overrides (TLV 8) kept whatever the role.
   Not covered here: ECDH / ephemeral-key blinding and blinding-point derivation (shared secrets are inputs; what a
   blinded hop's encrypted_tlvs decrypt to is a parameter), trampoline onions. -/
import LdkModel.Proofs.Onion
import LdkModel.Proofs.OnionAttr
import LdkModel.Proofs.OnionFulfil
import LdkModel.Proofs.OnionAttrIdx
import LdkModel.Proofs.OnionInstr
import LdkModel.Proofs.OnionBlinded
import LdkModel.Proofs.OnionPayload
import LdkModel.Model.OnionFwdInfo
import LdkModel.Generated.OnionBlame
import LdkModel.Generated.OnionInbFail
namespace Ldk.C14
open Ldk Ldk.Onion Ldk.OnionPayload

/-! ## building -/

/-- A route whose payloads (+32-byte HMAC each) exceed the packet is refused — as is an empty one —
    and nothing else is. -/
theorem build_rejects_oversize (C : OnionCrypto) (ad noise : Bytes) (hops : List Hop) :
    (build C ad noise hops = none ↔ (hops = [] ∨ totalSize hops > noise.length)) := by
  unfold build
  cases hops with
  | nil => simp
  | cons h t =>
    by_cases hs : totalSize (h :: t) > noise.length <;> simp [hs]

example : build ldk [] (zeros 100) [⟨[1], [2], zeros 40⟩, ⟨[3], [4], zeros 40⟩] = none := by
  rw [build_rejects_oversize]; right; decide

/-- Whatever is built has the packet length of the initial noise and a 32-byte HMAC. -/
theorem build_length (C : OnionCrypto) (ad noise : Bytes) (hops : List Hop) (d hm : Bytes)
    (hb : build C ad noise hops = some (d, hm)) : d.length = noise.length ∧ hm.length = 32 := by
  unfold build at hb
  split at hb
  · cases hb
  · split at hb
    · cases hb
    · rename_i hne hfit
      have hne' : hops ≠ [] := by intro h; simp [h] at hne
      have := wrapAll_tail C ad noise hops [] hne' (by simpa using Nat.le_of_not_gt hfit)
      simp only [Option.some.injEq] at hb
      have h2 := wrapAll_snd_length C ad noise (filler C noise.length hops) hops
      unfold filler at hb h2
      rw [hb] at this h2
      exact ⟨this.1, h2⟩

/-! ## peeling what was built -/

/-- **peel_build.** For every route of `n ≥ 1` hops that fits (`Σ (|pᵢ| + 32) ≤ L`), every key,
    payload (self-delimiting for the hop's reader), associated data and initial noise:
    `build` succeeds; the packet hop `i` receives has length `L`; hop `i`, peeling with its own
    keys, obtains exactly its payload `pᵢ`; every hop but the last forwards exactly the
    (hop_data, HMAC) pair `build` computed for the next hop — in particular a packet of length `L`
    again and the non-zero HMAC — and the last hop sees the all-zero HMAC (final).
    Consequently the whole chain of peels yields exactly the payload list. -/
theorem peel_build (C : OnionCrypto) (plen : Bytes → Option Nat) (ad noise : Bytes) (hops : List Hop)
    (hne : hops ≠ []) (hfit : totalSize hops ≤ noise.length)
    (hframe : ∀ h ∈ hops, WellFramed plen h.payload)
    (hnz : ∀ i, 0 < i → i < hops.length → (packetAt C ad noise hops i).2 ≠ zeros 32) :
    build C ad noise hops = some (packetAt C ad noise hops 0) ∧
    (∀ i (hi : i < hops.length),
      (packetAt C ad noise hops i).1.length = noise.length ∧
      peel C plen hops[i].keys ad (packetAt C ad noise hops i).1 (packetAt C ad noise hops i).2 =
        if i + 1 = hops.length then .ok (.final hops[i].payload)
        else .ok (.forward hops[i].payload (packetAt C ad noise hops (i + 1)).2
                    (packetAt C ad noise hops (i + 1)).1)) ∧
    peelChain C plen ad (hops.map Hop.keys) (packetAt C ad noise hops 0) = some (hops.map (·.payload)) := by
  refine ⟨?_, ?_, ?_⟩
  · have : ¬ totalSize hops > noise.length := by omega
    cases hops with
    | nil => exact absurd rfl hne
    | cons h t => simp [build, this, packetAt]
  · intro i hi
    constructor
    · rw [packetAt_eq C ad noise hops i hi]
      have hne' : hops.drop i ≠ [] := by simp [List.drop_eq_nil_iff]; omega
      have hsz : totalSize hops = totalSize (hops.take i) + totalSize (hops.drop i) := by
        rw [← totalSize_append, List.take_append_drop]
      exact (wrapAll_tail C ad noise (hops.drop i) _ hne'
        (by rw [foldl_fillerStep_length]; simp; omega)).1
    · rw [peel_packetAt C plen ad noise hops i hi hfit (hframe _ (List.getElem_mem hi))]
      by_cases hl : i + 1 = hops.length
      · simp [hl]
      · simp [hl, hnz (i + 1) (by omega) (by omega)]
  · have := peelChain_wrapAll C plen ad noise hops [] hne (by simpa using hfit) hframe
      (fun pre t hpre ht heq => by
        have hi := hnz pre.length
          (by cases pre with | nil => exact absurd rfl hpre | cons _ _ => simp)
          (by rw [← heq, List.length_append]; cases t with | nil => exact absurd rfl ht | cons _ _ => simp)
        have : hops.drop pre.length = t := by rw [← heq]; exact List.drop_left' rfl
        simpa [packetAt, this, filler] using hi)
    simpa [packetAt, filler] using this

/-- the same per-hop fact WITHOUT the cryptographic hypothesis `hnz`, as an exact case analysis:
    hop `i` always obtains exactly its payload; it forwards exactly the next packet `build` computed
    unless it is the last hop — or the next packet's HMAC happens to be the all-zero string, the one
    (2⁻²⁵⁶) event in which BOLT 4's "all-zero HMAC = final" convention misfires. -/
theorem peel_build_unconditional (C : OnionCrypto) (plen : Bytes → Option Nat) (ad noise : Bytes)
    (hops : List Hop) (i : Nat) (hi : i < hops.length) (hfit : totalSize hops ≤ noise.length)
    (hframe : WellFramed plen hops[i].payload) :
    peel C plen hops[i].keys ad (packetAt C ad noise hops i).1 (packetAt C ad noise hops i).2 =
      if i + 1 = hops.length ∨ (packetAt C ad noise hops (i + 1)).2 = zeros 32
      then .ok (.final hops[i].payload)
      else .ok (.forward hops[i].payload (packetAt C ad noise hops (i + 1)).2
                  (packetAt C ad noise hops (i + 1)).1) := by
  rw [peel_packetAt C plen ad noise hops i hi hfit hframe]
  by_cases h1 : i + 1 = hops.length
  · simp [h1]
  · by_cases h2 : (packetAt C ad noise hops (i + 1)).2 = zeros 32 <;> simp [h1, h2]

/-- the one-hop instance, free of the non-zero-HMAC hypothesis: a single hop always recognises
    itself as final and reads exactly its payload -/
theorem peel_build_one_hop (C : OnionCrypto) (plen : Bytes → Option Nat) (ad noise : Bytes) (h : Hop)
    (hfit : h.payload.length + 32 ≤ noise.length) (hframe : WellFramed plen h.payload) :
    ∃ d hm, build C ad noise [h] = some (d, hm) ∧ d.length = noise.length ∧
      peel C plen h.keys ad d hm = .ok (.final h.payload) := by
  have hfit' : totalSize [h] ≤ noise.length := by simpa [totalSize, Hop.size] using hfit
  have := peel_build C plen ad noise [h] (by simp) hfit'
    (by intro x hx; simp at hx; subst hx; exact hframe)
    (by intro i h0 h1; simp at h1; omega)
  obtain ⟨hb, hp, _⟩ := this
  have h0 := hp 0 (by simp)
  exact ⟨(packetAt C ad noise [h] 0).1, (packetAt C ad noise [h] 0).2, by simpa using hb, h0.1,
    by simpa using h0.2⟩

/-- BigSize-length-prefixed payloads shorter than 253 bytes (every `amt/cltv/scid` forwarding
    payload) are self-delimiting for LDK's reader -/
theorem bigSizeFrame_wellFramed (n : Nat) (body : Bytes) (hn : n < 0xfd) (hb : body.length = n) :
    WellFramed bigSizeFrame (UInt8.ofNat n :: body) := by
  intro rest
  have h1 : (UInt8.ofNat n).toNat = n := by simp; omega
  simp [bigSizeFrame, h1, hn, hb]; omega

/-- ... and so are the longer ones with the 3-byte `0xfd` BigSize prefix (253 … 65535 bytes: final-hop
    payloads with payment metadata / custom TLVs) -/
theorem bigSizeFrame_wellFramed_u16 (hi lo : UInt8) (body : Bytes)
    (hv : 0xfd ≤ hi.toNat * 256 + lo.toNat) (hb : body.length = hi.toNat * 256 + lo.toNat) :
    WellFramed bigSizeFrame (0xfd :: hi :: lo :: body) := by
  intro rest
  simp [bigSizeFrame, hb]
  omega

example : WellFramed bigSizeFrame (0xfd :: 1 :: 4 :: zeros 260) :=
  bigSizeFrame_wellFramed_u16 1 4 _ (by decide) (by simp)

/-! ## integrity -/

/-- **MAC first.** Anything `peel` accepts satisfies the HMAC equation under the hop's `mu` over
    hop_data ‖ associated data (payment hash); otherwise the answer is `badHmac` before any byte
    is decrypted or parsed. -/
theorem peel_checks_mac_first (C : OnionCrypto) (plen : Bytes → Option Nat) (k : HopKeys)
    (ad data hmac : Bytes) :
    (∀ r, peel C plen k ad data hmac = .ok r → hmac = hmacOf C k.mu data ad) ∧
    (hmac ≠ hmacOf C k.mu data ad → peel C plen k ad data hmac = .error .badHmac) ∧
    (∀ e, peel C plen k ad data hmac = .error e → e ≠ .badHmac → hmac = hmacOf C k.mu data ad) := by
  by_cases h : hmacOf C k.mu data ad = hmac
  · exact ⟨fun _ _ => h.symm, fun hne => absurd h.symm hne, fun _ _ _ => h.symm⟩
  · have : peel C plen k ad data hmac = .error .badHmac := by unfold peel; simp [h]
    refine ⟨fun r hr => (by rw [this] at hr; cases hr), fun _ => this, fun e he hne => ?_⟩
    rw [this] at he; cases he; exact absurd rfl hne

/-- **Any accepted modification is a MAC forgery.** Suppose a hop accepted `(hop_data, payment
    hash, hmac)`. If it does not answer `badHmac` to a packet that differs in hop_data (same
    length), in the associated payment hash or in the HMAC, then the modified packet carries a VALID
    tag under that hop's `mu` for a (message, tag) pair different from the one the sender produced —
    an existential forgery by a party that does not know `mu`. (A changed ephemeral key changes the
    shared secret and with it `mu`; `peel_checks_mac_first` then says the same for the other key.) -/
theorem peel_modified_is_forgery (C : OnionCrypto) (plen : Bytes → Option Nat) (k : HopKeys)
    (ad data hmac ad' data' hmac' : Bytes) (r : Peeled)
    (hok : peel C plen k ad data hmac = .ok r) (hlen : data'.length = data.length)
    (hmod : (data', ad', hmac') ≠ (data, ad, hmac))
    (hacc : peel C plen k ad' data' hmac' ≠ .error .badHmac) :
    hmac' = hmacOf C k.mu data' ad' ∧ hmac = hmacOf C k.mu data ad ∧
      (data' ++ ad', hmac') ≠ (data ++ ad, hmac) := by
  have h1 := (peel_checks_mac_first C plen k ad data hmac).1 r hok
  have h2 : hmac' = hmacOf C k.mu data' ad' := by
    apply Classical.byContradiction; intro hne
    exact hacc ((peel_checks_mac_first C plen k ad' data' hmac').2.1 hne)
  refine ⟨h2, h1, ?_⟩
  intro heq
  simp only [Prod.mk.injEq] at heq
  obtain ⟨hd, ha⟩ := List.append_inj heq.1 hlen
  exact hmod (by rw [hd, ha, heq.2])

/-- ... hence, if the MAC under that `mu` has no collisions (injective on its inputs), every
    change of hop_data or payment hash that keeps the HMAC is rejected with `badHmac`; and a changed
    HMAC on unchanged data is rejected unconditionally. -/
theorem peel_rejects_modified (C : OnionCrypto) (plen : Bytes → Option Nat) (k : HopKeys)
    (ad data hmac : Bytes) (r : Peeled) (hok : peel C plen k ad data hmac = .ok r) :
    (∀ hmac', hmac' ≠ hmac → peel C plen k ad data hmac' = .error .badHmac) ∧
    ((∀ m m', norm32 (C.mac k.mu m) = norm32 (C.mac k.mu m') → m = m') →
      ∀ ad' data', data'.length = data.length → (data', ad') ≠ (data, ad) →
        peel C plen k ad' data' hmac = .error .badHmac) := by
  have h1 := (peel_checks_mac_first C plen k ad data hmac).1 r hok
  constructor
  · intro hmac' hne
    exact (peel_checks_mac_first C plen k ad data hmac').2.1 (by rw [← h1]; exact hne)
  · intro hinj ad' data' hlen hmod
    apply (peel_checks_mac_first C plen k ad' data' hmac).2.1
    intro heq
    have := hinj _ _ (by simpa [hmacOf] using (h1.symm.trans heq))
    obtain ⟨hd, ha⟩ := List.append_inj this hlen.symm
    exact hmod (by rw [hd, ha])

/-! ## failures -/

/-- **failure_roundtrip.** For every path (hops `pre` before the failing hop, `fk` the failing hop,
    `post` after it — so every length `n = |pre| + 1 + |post|` and every failing position
    `k = |pre| < n`), every failure code (u16) and failure data (≤ 65533 bytes): the packet built by
    hop `k` (`build_failure_packet`) and re-wrapped by hops `k−1 … 0` (`crypt_failure_packet`) is
    decoded by the sender as coming from hop `k` with exactly the original code and data — provided
    no earlier hop's `um` HMAC verifies by accident on the packet that hop relayed (`NoEarlyMatch`,
    stated explicitly: `|pre|` MAC-forgery events). -/
theorem failure_roundtrip (C : OnionCrypto) (pre : List FailKeys) (fk : FailKeys) (post : List FailKeys)
    (code : Nat) (data : Bytes) (hc : code < 65536) (hd : data.length ≤ 65533)
    (hno : NoEarlyMatch C pre (buildFailure C fk code data)) :
    decodeFailure C (pre ++ fk :: post) (relayFailure C pre (buildFailure C fk code data)) =
      .attributed pre.length code data := by
  unfold decodeFailure
  have hlen : ¬ (relayFailure C pre (buildFailure C fk code data)).length < 32 := by
    simp [buildFailure, buildUnencryptedFailure]
  rw [if_neg hlen]
  unfold buildFailure at hno ⊢
  rw [decodeGo_relay C fk post _ (failMacOk_unencrypted C fk _ code data) pre 0 hno]
  rw [parseFailure_unencrypted C fk _ code _ data hc (by omega)
    (by simp [Ldk.DEFAULT_MIN_FAILURE_PACKET_LEN]; omega)]
  simp

/-- the first hop failing needs no hypothesis at all -/
theorem failure_roundtrip_first_hop (C : OnionCrypto) (fk : FailKeys) (post : List FailKeys)
    (code : Nat) (data : Bytes) (hc : code < 65536) (hd : data.length ≤ 65533) :
    decodeFailure C (fk :: post) (buildFailure C fk code data) = .attributed 0 code data := by
  simpa [relayFailure] using failure_roundtrip C [] fk post code data hc hd trivial

/-- **failure_foreign_rejected.** A packet on which no hop's HMAC verifies (after removing the
    layers of hops `0..j`, hop `j`'s `um` HMAC does not match, for every `j`) — e.g. one made or
    altered by someone who knows none of the `um` keys — is reported as unattributable, never as
    some hop. -/
theorem failure_foreign_rejected (C : OnionCrypto) (keys : List FailKeys) (pkt : Bytes)
    (h : ∀ j (hj : j < keys.length), failMacOk C keys[j] (unwrapped C keys pkt j) = false) :
    decodeFailure C keys pkt = .unattributable := by
  unfold decodeFailure
  split
  · rfl
  · rcases decodeGo_spec C keys 0 pkt with ⟨h1, _⟩ | ⟨j, hj, h1, _, _⟩
    · exact h1
    · rw [h j hj] at h1; cases h1

/-- ... and conversely, whenever the sender names a hop (attributed / unreadable / no code), that
    hop's `um` HMAC verified on the packet with layers `0..hop` removed, it is the FIRST hop for
    which this holds, and what is reported is the parse of exactly that authenticated packet. -/
theorem failure_attribution_sound (C : OnionCrypto) (keys : List FailKeys) (pkt : Bytes)
    (hne : decodeFailure C keys pkt ≠ .unattributable) :
    ∃ hop, ∃ hh : hop < keys.length,
      failMacOk C keys[hop] (unwrapped C keys pkt hop) = true ∧
      (∀ j (hj : j < keys.length), j < hop → failMacOk C keys[j] (unwrapped C keys pkt j) = false) ∧
      decodeFailure C keys pkt = parseFailure hop (unwrapped C keys pkt hop) := by
  unfold decodeFailure at hne ⊢
  split at hne
  · exact absurd rfl hne
  · rename_i hlen
    rw [if_neg hlen]
    rcases decodeGo_spec C keys 0 pkt with ⟨h1, _⟩ | ⟨j, hj, h1, h2, h3⟩
    · exact absurd h1 hne
    · exact ⟨j, hj, h1, h2, by simpa using h3⟩

/-! ## failures with attribution data (hold times), relayed by `process_failure_packet` -/

/-- **Wire length.** `update_fail_htlc_wire_len` (translated from the Rust source together with the message
    layout of msgs.rs / ser.rs / wire.rs) is: 2 bytes message type, 32 + 8 + 2 bytes fixed fields and length
    prefix, the reason bytes, and — when attribution data is present — a TLV of 1 + 3 + 920 bytes. -/
theorem update_fail_htlc_wire_len_exact (p : FailPkt) :
    updateFailHtlcWireLen p = p.data.length + 44 + (if p.attr.isSome then 924 else 0) := by
  rw [updateFailHtlcWireLen_eq]; split <;> omega

/-- **The size guard of a relaying hop, exactly.** For every relaying hop (any keys, any hold time), and every
    failure it receives from downstream (any reason length, with or without attribution data):
    the reason keeps its length; the relayed failure carries attribution data IF AND ONLY IF the resulting
    `update_fail_htlc` (with attribution data) fits in `LN_MAX_MSG_LEN` — a message of EXACTLY `LN_MAX_MSG_LEN`
    bytes is legal and keeps it; and what is sent fits whenever what was received (without attribution data) did. -/
theorem relay_keeps_attribution_iff_fits (C : OnionCrypto) (k : FailKeysX) (p : FailPkt) (hold : Nat) :
    let r := relayFailurePacket C k none p (some hold)
    r.data.length = p.data.length ∧
    (r.attr.isSome ↔ updateFailHtlcWireLen ⟨r.data, some Attr.new⟩ ≤ LN_MAX_MSG_LEN) ∧
    (r.attr.isSome ↔ p.data.length + 968 ≤ LN_MAX_MSG_LEN) ∧
    (updateFailHtlcWireLen r ≤ LN_MAX_MSG_LEN ↔ p.data.length + 44 ≤ LN_MAX_MSG_LEN) := by
  intro r
  have hr : r = ⟨wrapFailure C k.base p.data,
      if attrFits p.data.length then some ((relayAttr C k p hold).crypt C k.ammagext) else none⟩ :=
    relayFailurePacket_eq C k p hold
  have hM : LN_MAX_MSG_LEN = 65535 := rfl
  have hfit := attrFits_iff p.data.length
  rw [hr]
  by_cases h : attrFits p.data.length
  · have h' := hfit.mp h
    simp only [if_pos h, update_fail_htlc_wire_len_exact, Option.isSome_some, wrapFailure_length, if_true, true_iff]
    exact ⟨trivial, by omega, by omega, fun _ => by omega, fun _ => by omega⟩
  · have h' : ¬ p.data.length + 968 ≤ 65535 := fun x => h (hfit.mpr x)
    simp only [if_neg h, update_fail_htlc_wire_len_exact, Option.isSome_some, Option.isSome_none, wrapFailure_length,
      if_true, Bool.false_eq_true, if_false, false_iff, true_and]
    exact ⟨by omega, by omega, trivial⟩

/-- the boundary case spelled out: a relayed `update_fail_htlc` of exactly `LN_MAX_MSG_LEN` bytes keeps its
    attribution data; one byte more and it is stripped (and the message then has 924 bytes less) -/
theorem relay_boundary (C : OnionCrypto) (k : FailKeysX) (p : FailPkt) (hold : Nat) :
    (p.data.length + 968 = LN_MAX_MSG_LEN →
      (relayFailurePacket C k none p (some hold)).attr.isSome ∧
      updateFailHtlcWireLen (relayFailurePacket C k none p (some hold)) = LN_MAX_MSG_LEN) ∧
    (p.data.length + 968 = LN_MAX_MSG_LEN + 1 →
      (relayFailurePacket C k none p (some hold)).attr = none ∧
      updateFailHtlcWireLen (relayFailurePacket C k none p (some hold)) = LN_MAX_MSG_LEN + 1 - 924) := by
  have hM : LN_MAX_MSG_LEN = 65535 := rfl
  have hfit := attrFits_iff p.data.length
  rw [relayFailurePacket_eq, update_fail_htlc_wire_len_exact]
  constructor <;> intro h
  · rw [if_pos (hfit.mpr (by omega))]
    simp only [Option.isSome_some, wrapFailure_length, if_true, true_and]; omega
  · rw [if_neg (fun x => absurd (hfit.mp x) (by omega))]
    simp only [Option.isSome_none, wrapFailure_length, Bool.false_eq_true, if_false, true_and]; omega

example : attrFits 64567 ∧ ¬ attrFits 64568 := by
  constructor
  · exact (attrFits_iff _).mpr (by decide)
  · exact fun h => absurd ((attrFits_iff _).mp h) (by decide)

/-- **Length preservation and attribution data through any number of relays.** For every chain of relaying
    hops (any number, any keys and hold times) and every failure `P` entering it: the reason bytes keep their
    length, and — with at least one relay — the sender receives attribution data iff the message with
    attribution data fits (the same bound at every hop, because the length never changes). -/
theorem relay_chain_length_and_attribution (C : OnionCrypto) (pre : List RelayHop) (P : FailPkt) :
    (relayChainX C pre P).data.length = P.data.length ∧
    (pre ≠ [] → ((relayChainX C pre P).attr.isSome ↔ P.data.length + 968 ≤ LN_MAX_MSG_LEN)) := by
  refine ⟨relayChainX_length C pre P, fun hne => ?_⟩
  cases pre with
  | nil => exact absurd rfl hne
  | cons kh t =>
    rw [relayChainX_cons]
    have := (relay_keeps_attribution_iff_fits C kh.1 (relayChainX C t P) kh.2).2.2.1
    rwa [relayChainX_length] at this

/-- the failing hop's own packet: its length, and when it fits on the wire with its attribution data -/
theorem built_failure_length_and_fit (C : OnionCrypto) (k : FailKeysX) (code : Nat) (data : Bytes) (hold : Nat) :
    (buildFailurePacket C k code data hold).data.length =
      32 + 2 + (2 + data.length) + 2 + (DEFAULT_MIN_FAILURE_PACKET_LEN - (2 + data.length)) ∧
    (buildFailurePacket C k code data hold).attr.isSome ∧
    (updateFailHtlcWireLen (buildFailurePacket C k code data hold) ≤ LN_MAX_MSG_LEN ↔ data.length ≤ 64529) := by
  have hM : LN_MAX_MSG_LEN = 65535 := rfl
  have hD : DEFAULT_MIN_FAILURE_PACKET_LEN = 256 := rfl
  rw [update_fail_htlc_wire_len_exact, buildFailurePacket_eq]
  simp only [buildFailure_length, Option.isSome_some, if_true, true_and]
  omega

/-- **failure_roundtrip_hold_times.** For every path (relaying hops `pre` before the failing hop — each with its
    keys and the hold time it reports —, the failing hop `fk` with hold time `hf`, hops `post` after it; so every
    path length and failing position), every failure code and failure data such that the failing hop's
    `update_fail_htlc` fits in `LN_MAX_MSG_LEN` (data of up to 64529 bytes — INCLUDING the length that makes the
    message exactly `LN_MAX_MSG_LEN` bytes): the packet built by `build_failure_packet` and relayed by
    `process_failure_packet` + `crypt_failure_packet` at each of the hops before it is decoded by the sender as
    coming from hop `|pre|` with exactly the original code and data, AND the sender reads exactly the hold times of
    all hops on the way, first hop first (of the first `MAX_HOPS` hops: the attribution data has room for no more).
    Hypotheses: u32 hold times; `NoEarlyMatch` (no relaying hop's legacy HMAC verifies by accident on what it
    relayed — as in `failure_roundtrip`).  The 4-byte truncated attribution HMACs need NO hypothesis here: honest
    data always verifies. -/
theorem failure_roundtrip_hold_times (C : OnionCrypto) (pre : List RelayHop) (fk : FailKeysX) (hf : Nat)
    (post : List FailKeysX) (code : Nat) (data : Bytes) (hc : code < 65536)
    (hfit : updateFailHtlcWireLen (buildFailurePacket C fk code data hf) ≤ LN_MAX_MSG_LEN)
    (hhf : hf < 4294967296) (hh : ∀ kh ∈ pre, kh.2 < 4294967296)
    (hno : NoEarlyMatch C (pre.map (fun kh => kh.1.base)) (buildFailure C fk.base code data)) :
    let P := relayChainX C pre (buildFailurePacket C fk code data hf)
    P.attr.isSome ∧
    decodeFailureX C (pre.map (fun kh => kh.1) ++ fk :: post) P.data P.attr =
      (.attributed pre.length code data, (pre.map (fun kh => kh.2) ++ [hf]).take MAX_HOPS) := by
  intro P
  have hM : LN_MAX_MSG_LEN = 65535 := rfl
  have hD : DEFAULT_MIN_FAILURE_PACKET_LEN = 256 := rfl
  have hdl : data.length ≤ 64529 := (built_failure_length_and_fit C fk code data hf).2.2.mp hfit
  have hbd : (buildFailurePacket C fk code data hf).data = buildFailure C fk.base code data := by
    rw [buildFailurePacket_eq]
  have hfits : attrFits (buildFailurePacket C fk code data hf).data.length := by
    rw [attrFits_iff, hbd, buildFailure_length]; omega
  obtain ⟨aP, haP, _⟩ := relayChainX_attr C (buildFailurePacket C fk code data hf) _
    (by rw [buildFailurePacket_eq]) (Attr.crypt_wf C _ (Attr.update_wf C Attr.new_wf _ _ _)) hfits pre
  refine ⟨by show (relayChainX C pre _).attr.isSome = true; rw [haP]; rfl, ?_⟩
  show decodeFailureX C _ (relayChainX C pre _).data (relayChainX C pre _).attr = _
  unfold decodeFailureX
  rw [if_neg (by rw [relayChainX_length, hbd, buildFailure_length]; omega), haP]
  rw [decodeGoX_chain C fk post code data hf _ (Nat.min_le_right _ _) hhf hfits pre 0 [] aP aP hh
    (by rw [hbd]; exact hno) haP (fun _ => AgreeR.refl _ _)]
  rw [parseFailure_unencrypted C fk.base _ code _ data hc (by omega) (by omega)]
  simp only [Nat.zero_add, List.nil_append, Nat.sub_zero]
  rw [take_min_of_length_le _ _ _ (by simp)]

/-- the same, phrased on what the sender observes: whenever the attribution data survived all relays (at least
    one), the sender reads the failing hop, code, data and every hop's hold time -/
theorem failure_roundtrip_hold_times_of_kept (C : OnionCrypto) (pre : List RelayHop) (hne : pre ≠ []) (fk : FailKeysX)
    (hf : Nat) (post : List FailKeysX) (code : Nat) (data : Bytes) (hc : code < 65536)
    (hkept : (relayChainX C pre (buildFailurePacket C fk code data hf)).attr.isSome)
    (hhf : hf < 4294967296) (hh : ∀ kh ∈ pre, kh.2 < 4294967296)
    (hno : NoEarlyMatch C (pre.map (fun kh => kh.1.base)) (buildFailure C fk.base code data)) :
    decodeFailureX C (pre.map (fun kh => kh.1) ++ fk :: post)
        (relayChainX C pre (buildFailurePacket C fk code data hf)).data
        (relayChainX C pre (buildFailurePacket C fk code data hf)).attr =
      (.attributed pre.length code data, (pre.map (fun kh => kh.2) ++ [hf]).take MAX_HOPS) := by
  have h1 := ((relay_chain_length_and_attribution C pre (buildFailurePacket C fk code data hf)).2 hne).mp hkept
  have hfit : updateFailHtlcWireLen (buildFailurePacket C fk code data hf) ≤ LN_MAX_MSG_LEN := by
    rw [update_fail_htlc_wire_len_exact, if_pos (built_failure_length_and_fit C fk code data hf).2.1]; omega
  exact (failure_roundtrip_hold_times C pre fk hf post code data hc hfit hhf hh hno).2

/-- **…and when the message does not fit.** If the failing hop's packet with attribution data exceeds
    `LN_MAX_MSG_LEN` (failure data of 64530 … 65533 bytes) and at least one hop relays it, the sender receives
    no attribution data, still attributes the failure to the right hop with its code and data, and reports no
    hold times. -/
theorem failure_roundtrip_stripped (C : OnionCrypto) (pre : List RelayHop) (hne : pre ≠ []) (fk : FailKeysX) (hf : Nat)
    (post : List FailKeysX) (code : Nat) (data : Bytes) (hc : code < 65536) (hd : data.length ≤ 65533)
    (hbig : ¬ updateFailHtlcWireLen (buildFailurePacket C fk code data hf) ≤ LN_MAX_MSG_LEN)
    (hno : NoEarlyMatch C (pre.map (fun kh => kh.1.base)) (buildFailure C fk.base code data)) :
    let P := relayChainX C pre (buildFailurePacket C fk code data hf)
    P.attr = none ∧
    decodeFailureX C (pre.map (fun kh => kh.1) ++ fk :: post) P.data P.attr = (.attributed pre.length code data, []) := by
  intro P
  have hM : LN_MAX_MSG_LEN = 65535 := rfl
  have hD : DEFAULT_MIN_FAILURE_PACKET_LEN = 256 := rfl
  have hdl : ¬ data.length ≤ 64529 := fun h => hbig ((built_failure_length_and_fit C fk code data hf).2.2.mpr h)
  have hbd : (buildFailurePacket C fk code data hf).data = buildFailure C fk.base code data := by
    rw [buildFailurePacket_eq]
  have hnone : P.attr = none := by
    have := (relay_chain_length_and_attribution C pre (buildFailurePacket C fk code data hf)).2 hne
    rw [hbd, buildFailure_length] at this
    cases h : P.attr with
    | none => rfl
    | some a =>
      have h2 : (relayChainX C pre (buildFailurePacket C fk code data hf)).attr.isSome = true := by
        show P.attr.isSome = true; rw [h]; rfl
      have := this.mp h2
      omega
  refine ⟨hnone, ?_⟩
  rw [hnone, decodeFailureX_none]
  show (decodeFailure C _ (relayChainX C pre _).data, _) = _
  rw [relayChainX_data, hbd]
  have := failure_roundtrip C (pre.map (fun kh => kh.1.base)) fk.base (post.map FailKeysX.base) code data hc hd hno
  simp only [List.map_append, List.map_cons, List.map_map, List.length_map] at this ⊢
  rw [← this]
  rfl


-- non-vacuity: a failure of the third hop relayed by two hops (toy stream / MAC): all hypotheses hold, the sender
-- reads hop 2, the code, the data and the three hold times, first hop first
example :
    decodeFailureX toy ([⟨[1], [2], [9]⟩, ⟨[3, 3], [4], [8, 8]⟩] ++ (⟨[5], [6, 6], [7]⟩ : FailKeysX) :: [])
      (relayChainX toy [(⟨[1], [2], [9]⟩, 5), (⟨[3, 3], [4], [8, 8]⟩, 7)] (buildFailurePacket toy ⟨[5], [6, 6], [7]⟩ 0x400f [1, 2, 3] 3)).data
      (relayChainX toy [(⟨[1], [2], [9]⟩, 5), (⟨[3, 3], [4], [8, 8]⟩, 7)] (buildFailurePacket toy ⟨[5], [6, 6], [7]⟩ 0x400f [1, 2, 3] 3)).attr
    = (.attributed 2 0x400f [1, 2, 3], [5, 7, 3]) :=
  (failure_roundtrip_hold_times toy [(⟨[1], [2], [9]⟩, 5), (⟨[3, 3], [4], [8, 8]⟩, 7)] ⟨[5], [6, 6], [7]⟩ 3 [] 0x400f [1, 2, 3]
    (by decide) ((built_failure_length_and_fit toy _ _ _ _).2.2.mpr (by decide)) (by decide)
    (by intro kh hkh; simp at hkh; rcases hkh with rfl | rfl <;> decide)
    (by refine ⟨?_, ?_, trivial⟩ <;> (set_option maxRecDepth 100000 in decide))).2

-- the boundary: 64567 reason bytes + attribution data = exactly LN_MAX_MSG_LEN: kept; 64568: stripped
example (k : FailKeysX) : (relayFailurePacket toy k none ⟨zeros 64567, none⟩ (some 7)).attr.isSome = true :=
  (relay_keeps_attribution_iff_fits toy k ⟨zeros 64567, none⟩ 7).2.2.1.mpr (by simp [LN_MAX_MSG_LEN])
example (k : FailKeysX) : (relayFailurePacket toy k none ⟨zeros 64568, none⟩ (some 7)).attr = none :=
  ((relay_boundary toy k ⟨zeros 64568, none⟩ 7).2 (by simp [LN_MAX_MSG_LEN])).1


-- wire lengths: 10 reason bytes without attribution data weigh 54 bytes, with it 978
example : updateFailHtlcWireLen ⟨zeros 10, none⟩ = 54 ∧ updateFailHtlcWireLen ⟨zeros 10, some Attr.new⟩ = 978 := by
  constructor <;> (rw [update_fail_htlc_wire_len_exact]; rfl)
-- the failing hop's packet for 3 data bytes is 292 bytes long and fits; one for 64530 data bytes would not
example : (buildFailurePacket toy ⟨[5], [6, 6], [7]⟩ 0x400f [1, 2, 3] 3).data.length = 292 := by
  rw [(built_failure_length_and_fit toy _ _ _ _).1]; rfl
example : ¬ updateFailHtlcWireLen (buildFailurePacket toy ⟨[5], [6, 6], [7]⟩ 0x400f (zeros 64530) 3) ≤ LN_MAX_MSG_LEN := by
  rw [(built_failure_length_and_fit toy _ _ _ _).2.2]; simp
-- a chain of two relays keeps a 292-byte failure's attribution data
example : (relayChainX toy [(⟨[1], [2], [9]⟩, 5), (⟨[3, 3], [4], [8, 8]⟩, 7)]
    (buildFailurePacket toy ⟨[5], [6, 6], [7]⟩ 0x400f [1, 2, 3] 3)).attr.isSome = true := by
  rw [(relay_chain_length_and_attribution toy _ _).2 (by simp), (built_failure_length_and_fit toy _ _ _ _).1]; decide

/-! ## fulfil attribution data (hold times carried by `update_fulfill_htlc`)

   `processFulfillAttributionData` / `decodeFulfillAttributionData` (with `fulfillAttributableHopCount`, `fulfillPosition`)
   are TRANSLATED from process_fulfill_attribution_data / decode_fulfill_attribution_data on every run. -/

/-- **fulfil_roundtrip_hold_times.** For every path (any number `n ≥ 1` of hops — INCLUDING paths longer than
    `MAX_HOPS` = 20 —, each hop with its keys and the u32 hold time it reports): the attribution data created by the
    recipient (`process_fulfill_attribution_data(None, ..)`) and extended by every hop on the way back
    (`process_fulfill_attribution_data(Some(..), ..)`: shift_right, update, crypt) is decoded by the sender
    (`decode_fulfill_attribution_data`) into exactly the hold times of the first `min n MAX_HOPS` hops, first hop first.
    No cryptographic hypothesis: honest data always verifies. -/
theorem fulfil_roundtrip_hold_times (C : OnionCrypto) (hops : List RelayHop) (hne : hops ≠ [])
    (hh : ∀ kh ∈ hops, kh.2 < 4294967296) :
    ∃ a, fulfilChain C hops = some a ∧
      decodeFulfillAttributionData C (hops.map (fun kh => kh.1)) a = (hops.map (fun kh => kh.2)).take MAX_HOPS := by
  obtain ⟨a, ha⟩ := Option.isSome_iff_exists.mp (fulfilChain_isSome C hops hne)
  refine ⟨a, ha, ?_⟩
  unfold decodeFulfillAttributionData
  have := decodeFulfillLoop_chain C (hops.map (fun kh => kh.1)).length
    (fulfillAttributableHopCount (hops.map (fun kh => kh.1)).length) (fulfillAttributableHopCount_le _) hops 0 [] a hh
    (fun aP hP _ => by rw [ha] at hP; cases hP; exact AgreeR.refl _ _)
  simp only [Nat.sub_zero, List.nil_append] at this
  rw [this, fulfillAttributableHopCount_eq, List.length_map]
  exact take_min_of_length_le _ _ _ (by simp)

/-- the number of hold times the sender reports is `min n MAX_HOPS` -/
theorem fulfil_roundtrip_count (C : OnionCrypto) (hops : List RelayHop) (hne : hops ≠ [])
    (hh : ∀ kh ∈ hops, kh.2 < 4294967296) :
    ∀ a, fulfilChain C hops = some a →
      (decodeFulfillAttributionData C (hops.map (fun kh => kh.1)) a).length = min hops.length MAX_HOPS := by
  intro a ha
  obtain ⟨a', ha', h⟩ := fulfil_roundtrip_hold_times C hops hne hh
  rw [ha] at ha'; cases ha'
  rw [h]; simp [Nat.min_comm]

/-- **Modified fulfil attribution data is cut at the first affected hop.** Let `a` be the honest attribution data
    of a path and `a'` ANY data of the wire format received instead.  Call hop `j` (an attributable hop) the first
    AFFECTED hop: the verifications of hops `0 … j-1` read the same bytes on both (`SameInputs`), hop `j`'s reads
    something different — in its MESSAGE part (hold-time prefix, downstream HMACs) or in the stored TAG.  Then the sender
    reports exactly the honest hold times of hops `0 … j-1` and stops at hop `j` (never an invented hold time), when
    * the message hop `j` authenticates is untouched and only its tag differs (no hypothesis), or
    * the tag is untouched and the truncated HMAC under hop `j`'s `um` is binding (injective — the explicit MAC
      hypothesis, as `peel_rejects_modified`; a single corrupted byte falls in exactly one of the two cases). -/
theorem fulfil_rejects_modified (C : OnionCrypto) (hops : List RelayHop)
    (hh : ∀ kh ∈ hops, kh.2 < 4294967296) (a a' : Attr) (ha : fulfilChain C hops = some a) (wa' : a'.WF)
    (j : Nat) (hj : j < fulfillAttributableHopCount hops.length)
    (k : FailKeysX) (V V' : Attr)
    (hsame : SameInputs C (fulfillAttributableHopCount hops.length) j
      ((hops.map (fun kh => kh.1)).take (fulfillAttributableHopCount hops.length)) 0 a a')
    (hV : viewAt C j ((hops.map (fun kh => kh.1)).take (fulfillAttributableHopCount hops.length)) a = some (k, V))
    (hV' : viewAt C j ((hops.map (fun kh => kh.1)).take (fulfillAttributableHopCount hops.length)) a' = some (k, V'))
    (hdiff : V'.verifyInput (fulfillAttributableHopCount hops.length - j - 1) ≠
      V.verifyInput (fulfillAttributableHopCount hops.length - j - 1))
    (hcase :
      ((V'.verifyInput (fulfillAttributableHopCount hops.length - j - 1)).1 = (V.verifyInput (fulfillAttributableHopCount hops.length - j - 1)).1 ∧
       (V'.verifyInput (fulfillAttributableHopCount hops.length - j - 1)).2.1 = (V.verifyInput (fulfillAttributableHopCount hops.length - j - 1)).2.1) ∨
      ((V'.verifyInput (fulfillAttributableHopCount hops.length - j - 1)).2.2 = (V.verifyInput (fulfillAttributableHopCount hops.length - j - 1)).2.2 ∧
       ∀ m m', (norm32 (C.mac k.um m)).take HMAC_LEN = (norm32 (C.mac k.um m')).take HMAC_LEN → m = m')) :
    decodeFulfillAttributionData C (hops.map (fun kh => kh.1)) a' = (hops.map (fun kh => kh.2)).take j := by
  generalize hcount : fulfillAttributableHopCount hops.length = count at *
  have hcM : count ≤ MAX_HOPS := hcount ▸ fulfillAttributableHopCount_le _
  have hcl : count ≤ hops.length := by rw [← hcount, fulfillAttributableHopCount_eq]; exact Nat.min_le_left _ _
  have wa := fulfilChain_wf C hops a ha
  -- the honest loop
  have hhon := decodeFulfillLoop_chain C hops.length count hcM hops 0 [] a hh
    (fun aP hP _ => by rw [ha] at hP; cases hP; exact AgreeR.refl _ _)
  simp only [Nat.sub_zero, List.nil_append] at hhon
  -- hop j's verification passes on the honest view
  obtain ⟨k2, V2, hv2, hpass⟩ := verify_passed_of_longer C hops.length count j _ 0 a
    (by rw [hhon]; simp; omega)
  rw [hV] at hv2; cases hv2
  rw [Nat.zero_add, verify_isSome_iff] at hpass
  -- … and fails on the modified one
  have wV := take_take_viewAt_wf C j _ a k V wa hV
  have wV' := take_take_viewAt_wf C j _ a' k V' wa' hV'
  have hfail : V'.verify C k.um [] (count - j - 1) = none := by
    rw [verify_none_iff]
    rcases hcase with ⟨e1, e2⟩ | ⟨e3, hinj⟩
    · rw [hmacFor_eq_input, e1, e2, ← hmacFor_eq_input, hpass]
      intro heq
      exact hdiff (by
        have : (V'.verifyInput (count - j - 1)).2.2 = (V.verifyInput (count - j - 1)).2.2 := heq.symm
        exact Prod.ext e1 (Prod.ext e2 this))
    · intro heq
      have e3' : V'.getHmac (MAX_HOPS - (count - j - 1) - 1) = V.getHmac (MAX_HOPS - (count - j - 1) - 1) := e3
      rw [e3', ← hpass, hmacFor_eq_input, hmacFor_eq_input] at heq
      have hm := hinj _ _ heq
      simp only [List.nil_append] at hm
      have hlen : (V'.verifyInput (count - j - 1)).1.length = (V.verifyInput (count - j - 1)).1.length := by
        simp [Attr.verifyInput, wV.ht, wV'.ht]
      obtain ⟨h1, h2⟩ := List.append_inj hm hlen
      exact hdiff (Prod.ext h1 (Prod.ext h2 e3))
  have hcut := cutAt_of_sameInputs C count j _ 0 a a' hsame (fun k3 V3 h3 => by
    rw [hV'] at h3; cases h3; rwa [Nat.zero_add])
  unfold decodeFulfillAttributionData
  rw [List.length_map, hcount, decodeFulfillLoop_cut C hops.length count j _ 0 a a' [] hcut, hhon, List.nil_append,
    List.take_take, Nat.min_eq_left (by omega)]

/-- **…and whatever the sender accepts beyond the first affected hop is a MAC forgery.** With `a`, `a'`, `j` as above
    and NO assumption on the MAC: if the sender reports more than `j` hold times on `a'`, then hop `j`'s `um` key
    authenticates two DIFFERENT (message, tag) pairs — the honest one and the modified one, which nobody knowing `um`
    produced. -/
theorem fulfil_modified_is_forgery (C : OnionCrypto) (hops : List RelayHop)
    (hh : ∀ kh ∈ hops, kh.2 < 4294967296) (a a' : Attr) (ha : fulfilChain C hops = some a)
    (j : Nat) (hj : j < fulfillAttributableHopCount hops.length)
    (k : FailKeysX) (V V' : Attr)
    (hV : viewAt C j ((hops.map (fun kh => kh.1)).take (fulfillAttributableHopCount hops.length)) a = some (k, V))
    (hV' : viewAt C j ((hops.map (fun kh => kh.1)).take (fulfillAttributableHopCount hops.length)) a' = some (k, V'))
    (hdiff : V'.verifyInput (fulfillAttributableHopCount hops.length - j - 1) ≠
      V.verifyInput (fulfillAttributableHopCount hops.length - j - 1))
    (hmore : j < (decodeFulfillAttributionData C (hops.map (fun kh => kh.1)) a').length) :
    let p := fulfillAttributableHopCount hops.length - j - 1
    (norm32 (C.mac k.um ((V.verifyInput p).1 ++ (V.verifyInput p).2.1))).take HMAC_LEN = (V.verifyInput p).2.2 ∧
    (norm32 (C.mac k.um ((V'.verifyInput p).1 ++ (V'.verifyInput p).2.1))).take HMAC_LEN = (V'.verifyInput p).2.2 ∧
    V'.verifyInput p ≠ V.verifyInput p := by
  generalize hcount : fulfillAttributableHopCount hops.length = count at *
  intro p
  have hcM : count ≤ MAX_HOPS := hcount ▸ fulfillAttributableHopCount_le _
  have hcl : count ≤ hops.length := by rw [← hcount, fulfillAttributableHopCount_eq]; exact Nat.min_le_left _ _
  have hhon := decodeFulfillLoop_chain C hops.length count hcM hops 0 [] a hh
    (fun aP hP _ => by rw [ha] at hP; cases hP; exact AgreeR.refl _ _)
  simp only [Nat.sub_zero, List.nil_append] at hhon
  obtain ⟨k2, V2, hv2, hpass⟩ := verify_passed_of_longer C hops.length count j _ 0 a
    (by rw [hhon]; simp; omega)
  rw [hV] at hv2; cases hv2
  unfold decodeFulfillAttributionData at hmore
  rw [List.length_map, hcount] at hmore
  obtain ⟨k3, V3, hv3, hpass'⟩ := verify_passed_of_longer C hops.length count j _ 0 a' hmore
  rw [hV'] at hv3; cases hv3
  rw [Nat.zero_add, verify_isSome_iff, hmacFor_eq_input, List.nil_append] at hpass hpass'
  exact ⟨hpass, hpass', hdiff⟩

-- non-vacuity: a three-hop path (toy stream / MAC), hold times 5, 7, 3: the sender reads them, first hop first
example : ∃ a, fulfilChain toy [(⟨[1], [2], [9]⟩, 5), (⟨[3, 3], [4], [8, 8]⟩, 7), (⟨[5], [6, 6], [7]⟩, 3)] = some a ∧
    decodeFulfillAttributionData toy [⟨[1], [2], [9]⟩, ⟨[3, 3], [4], [8, 8]⟩, ⟨[5], [6, 6], [7]⟩] a = [5, 7, 3] :=
  fulfil_roundtrip_hold_times toy _ (by simp)
    (by intro kh hkh; simp at hkh; rcases hkh with rfl | rfl | rfl <;> decide)
-- 23 hops: the first 20 hold times are reported, the hop count / position formulas at work beyond MAX_HOPS
example : fulfillAttributableHopCount 23 = 20 ∧ fulfillPosition 23 20 0 = 19 ∧ fulfillPosition 23 20 19 = 0 := by decide
example : ∀ a, fulfilChain toy ((List.range 23).map fun i => ((⟨[UInt8.ofNat i], [2], [9]⟩ : FailKeysX), i)) = some a →
    (decodeFulfillAttributionData toy (((List.range 23).map fun i => ((⟨[UInt8.ofNat i], [2], [9]⟩ : FailKeysX), i)).map (fun kh => kh.1)) a).length = 20 := by
  intro a ha
  rw [fulfil_roundtrip_count toy _ (by simp) (by intro kh hkh; simp at hkh; obtain ⟨i, hi, rfl⟩ := hkh; simp; omega) a ha]
  simp [MAX_HOPS]

-- a two-hop path whose attribution data has ONE byte of hop 0's stored HMAC changed in flight: all hypotheses of
-- `fulfil_rejects_modified` hold (first affected hop j = 0, message untouched), the sender reports no hold time
set_option maxRecDepth 1000000 in
example : decodeFulfillAttributionData toy (toyFulfilHops.map (fun kh => kh.1)) toyFulfilAttrBad = [] := by
  have := fulfil_rejects_modified toy toyFulfilHops (by decide) toyFulfilAttr toyFulfilAttrBad (by decide +kernel)
    ⟨by decide +kernel, by decide +kernel⟩ 0 (by decide)
    ⟨[1], [2], [9]⟩ (toyFulfilAttr.crypt toy [9]) (toyFulfilAttrBad.crypt toy [9]) trivial rfl rfl (by decide +kernel)
    (Or.inl ⟨by decide +kernel, by decide +kernel⟩)
  simpa using this

/-- **The attribution-data layout the theorems are about is the one in the source.** Every index, offset and length the
    byte-level helpers of `AttributionData` compute — the `copy_within` ranges and the index updates of shift_left /
    shift_right (incl. the update order and the early `break`), the HMAC slot walk of write_downstream_hmacs, the
    position / hold-time prefix / truncation of add_hmacs and verify, the slices of get_hmac / get_hold_time_bytes, the
    array sizes — is TRANSLATED from onion_utils.rs on every run (Generated/AttrIdx.lean); the mirrors the theorems
    above are proved about use exactly those formulas, for all arguments. -/
theorem attribution_helpers_use_translated_indices :
    (∀ (st : ShiftSt UInt8) x, shiftLeftStep st x = (copyWithinHm st.1 st.2.1 st.2.2.1 st.2.2.2, AttrIdx.shiftLeftNext st.2.1 st.2.2.1 st.2.2.2)) ∧
    (∀ (st : ShiftSt UInt8) x, shiftRightStep st x = (copyWithinHm st.1 st.2.1 st.2.2.1 st.2.2.2, AttrIdx.shiftRightNext st.2.1 st.2.2.1 st.2.2.2)) ∧
    (∀ (h : Bytes) src dst len, copyWithinHm h src dst len = setSlice h (AttrIdx.shiftLeftCopy src dst len).2.2
      (slice h (AttrIdx.shiftLeftCopy src dst len).1 ((AttrIdx.shiftLeftCopy src dst len).2.1 - (AttrIdx.shiftLeftCopy src dst len).1))) ∧
    (∀ (h : Bytes) src dst len, copyWithinHm h src dst len = setSlice h (AttrIdx.shiftRightCopy src dst len).2.2
      (slice h (AttrIdx.shiftRightCopy src dst len).1 ((AttrIdx.shiftRightCopy src dst len).2.1 - (AttrIdx.shiftRightCopy src dst len).1))) ∧
    (∀ h : Bytes, shiftLeftHm h = ((List.range AttrIdx.shiftLeftIters).foldl shiftLeftStep (h, AttrIdx.shiftLeftInit)).1) ∧
    (∀ h : Bytes, shiftRightHm h = ((List.range AttrIdx.shiftRightIters).foldl shiftRightStep (h, AttrIdx.shiftRightInit)).1) ∧
    AttrIdx.shiftRightBreakAt + 1 = AttrIdx.shiftRightIters ∧
    (∀ ht : Bytes, Onion.shiftLeftHt ht = setSlice ht AttrIdx.shiftLeftHt.2 (ht.drop AttrIdx.shiftLeftHt.1)) ∧
    (∀ ht : Bytes, Onion.shiftRightHt ht = setSlice ht AttrIdx.shiftRightHt.2 (ht.take AttrIdx.shiftRightHt.1)) ∧
    (∀ (h : Bytes) acc j, downstreamStep h acc j =
      (acc.1 ++ slice h (AttrIdx.getHmacRange acc.2).1 (rangeLen (AttrIdx.getHmacRange acc.2)), AttrIdx.downstreamNext acc.2 j)) ∧
    (∀ (h : Bytes) position, downstreamG h position =
      ((List.range (AttrIdx.downstreamIters position)).foldl (downstreamStep h) ([], AttrIdx.downstreamInit position)).1) ∧
    (∀ C (a : Attr) um message, a.addHmacs C um message = (List.range AttrIdx.addHmacsIters).foldl (fun a hmacIdx =>
      { a with hmacs := setSlice a.hmacs (AttrIdx.getHmacMutRange hmacIdx).1 (a.hmacFor C um message (AttrIdx.addHmacsPosition hmacIdx)) }) a) ∧
    (∀ C (a : Attr) um message position, a.hmacFor C um message position =
      (norm32 (C.mac um (message ++ a.holdTimes.take (AttrIdx.verifyHoldTimesEnd position) ++ a.downstreamHmacs position))).take AttrIdx.verifyTruncLen) ∧
    (∀ C (a : Attr) um message position, a.verify C um message position =
      if a.hmacFor C um message position = a.getHmac (AttrIdx.verifyHmacIdx position)
      then some ((slice a.holdTimes (AttrIdx.getHoldTimeBytesRange AttrIdx.verifyHoldTimeIdx).1
        (rangeLen (AttrIdx.getHoldTimeBytesRange AttrIdx.verifyHoldTimeIdx))).foldl (fun acc x => acc * 256 + x.toNat) 0) else none) ∧
    (∀ (a : Attr) idx, a.getHmac idx = slice a.hmacs (AttrIdx.getHmacRange idx).1 (rangeLen (AttrIdx.getHmacRange idx))) ∧
    Attr.new = ⟨zeros AttrIdx.holdTimesLen, zeros AttrIdx.hmacsLen⟩ :=
  ⟨idx_shiftLeftStep, idx_shiftRightStep, idx_copyWithin_left, idx_copyWithin_right, idx_shiftLeftHm,
   fun h => (idx_shiftRightHm h).1, rfl, idx_shiftLeftHt, idx_shiftRightHt, idx_downstreamStep, idx_downstreamG,
   idx_addHmacs, idx_hmacFor_verify, idx_verify, idx_getHmac, idx_new⟩

-- the translated formulas at work: the first copy of shift_left moves 19 HMACs from slot 20 to slot 1, then (39, 21, 18)
example : AttrIdx.shiftLeftInit = (20, 1, 19) ∧ AttrIdx.shiftLeftNext 20 1 19 = (39, 21, 18) ∧
    AttrIdx.shiftLeftCopy 20 1 19 = (80, 156, 4) ∧ AttrIdx.shiftRightInit = (208, 209, 1) ∧
    AttrIdx.shiftRightNext 208 209 1 = (205, 207, 2) ∧ AttrIdx.downstreamInit 3 = 36 ∧ AttrIdx.downstreamNext 36 0 = 55 := by decide

/-! ## hop payload encoders (every `Writeable` arm of OutboundOnionPayload / OutboundTrampolinePayload) -/

/-- what `RecipientCustomTlvs::new` (translated: sort, reject types below 2^16, the reserved keysend / invoice_request
    types and repeats) lets through is a strictly type-sorted list in the custom range without the reserved types —
    the hypothesis `ValidCustom` of the theorems below -/
theorem custom_tlvs_accepted_are_valid (raw c : List Rec) (h : recipientCustomTlvsNew raw = some c) : ValidCustom c :=
  validCustom_of_new h

example : recipientCustomTlvsNew [(65537, [1]), (5482373487, [2, 3])] = some [(65537, [1]), (5482373487, [2, 3])] := by
  unfold recipientCustomTlvsNew
  rw [sortByType_of_strict _ (by decide)]
  decide
example : recipientCustomTlvsNew [(65537, [1]), (5482373484, [2, 3])] = none := by
  unfold recipientCustomTlvsNew
  rw [sortByType_of_strict _ (by decide)]
  decide


/-- **The encoder's TLV order check never fires, for any payload kind and any custom TLV set.** For every hop
    payload a sender can write (Forward, TrampolineEntrypoint, Receive, BlindedForward, BlindedReceive and the
    trampoline-onion Forward, LegacyBlindedPathEntry, BlindedForward, BlindedReceive), every field value, every
    combination of optional records (payment_data, payment_metadata, keysend preimage, invoice_request, blinding
    point, …) and every custom TLV set accepted by `RecipientCustomTlvs::new` (any types, any count): the type
    sequence the encoder checks in debug builds — all declared typed records, then the extra TLVs AS ORDERED BY THE
    WRITER — is strictly increasing. -/
theorem payload_types_strictly_increasing (p : OutPayload) (hc : ValidCustom p.customTlvs) :
    StrictInc p.out.checkedTypes := by
  have hM : customTlvMin = 65536 := by decide
  cases p with
  | onionReceive pd pm ks amt cltv c =>
    have hc' : ValidCustom c := hc
    have := merged_sorted hc' none ks
    exact strictInc_checked _ _ (by simp [StrictInc]) (by simp [hM]) (by simpa [synth] using this.1) (by simpa [synth] using this.2)
  | onionBlindedReceive amt tot cltv enc bp ks ir c =>
    have hc' : ValidCustom c := hc
    have := merged_sorted hc' ir ks
    exact strictInc_checked _ _ (by simp [StrictInc]) (by simp [hM]) (by simpa [synth, List.append_assoc] using this.1)
      (by simpa [synth, List.append_assoc] using this.2)
  | trampolineBlindedReceive amt tot cltv enc bp ks c =>
    exact strictInc_checked _ _ (by simp [StrictInc]) (by simp [hM]) (show ValidCustom c from hc).strict (fun r hr => ((show ValidCustom c from hc).types r hr).1)
  | onionForward _ _ _ => simp [OutPayload.out, writeOnionForward, TlvOut.checkedTypes, StrictInc]
  | onionTrampolineEntrypoint _ _ _ _ _ => simp [OutPayload.out, writeOnionTrampolineEntrypoint, TlvOut.checkedTypes, StrictInc]
  | onionBlindedForward _ _ => simp [OutPayload.out, writeOnionBlindedForward, TlvOut.checkedTypes, StrictInc]
  | trampolineForward _ _ _ => simp [OutPayload.out, writeTrampolineForward, TlvOut.checkedTypes, StrictInc]
  | trampolineLegacyBlindedPathEntry _ _ _ _ => simp [OutPayload.out, writeTrampolineLegacyBlindedPathEntry, TlvOut.checkedTypes, StrictInc]
  | trampolineBlindedForward _ _ => simp [OutPayload.out, writeTrampolineBlindedForward, TlvOut.checkedTypes, StrictInc]

/-- hence the TLV stream that is written has strictly increasing types: the receiving decoder's order check
    (`Some(t) if typ.0 <= t => InvalidValue`) accepts it -/
theorem payload_written_types_strictly_increasing (p : OutPayload)
    (h : StrictInc p.out.checkedTypes) : StrictInc (p.records.map (·.1)) :=
  List.Pairwise.sublist (records_types_sublist p.out) h

/-- **Decoding what was written yields what was asked.** For every payload written into the outer onion
    (Forward, TrampolineEntrypoint, Receive, BlindedForward, BlindedReceive), every field value, every combination
    of optional records and every custom TLV set accepted by `RecipientCustomTlvs::new`: the receiving
    `decode_tlv_stream_with_custom_tlv_decode!` (known types and custom-range threshold extracted from
    `InboundOnionPayload::read`) succeeds, fills its typed fields with exactly the typed records of the payload
    (incl. invoice_request 77777 / keysend 5482373484) and returns exactly the user's custom TLVs. -/
theorem payload_decodes_to_what_was_written (p : OutPayload) (ho : p.outerOnion = true)
    (hc : ValidCustom p.customTlvs) :
    decodeRecords inboundKnownTypes customTlvMin p.records = .ok (p.typedRecs, p.customTlvs) := by
  have hM : customTlvMin = 65536 := by decide
  have hnil : ValidCustom [] := ⟨List.Pairwise.nil, fun r hr => by cases hr⟩
  have hK : ∀ t ∈ [2, 4, 6, 8, 10, 12, 16, 18, 20], inboundKnownTypes.contains t = true ∧ t < customTlvMin := by decide
  cases p with
  | onionReceive pd pm ks amt cltv c =>
    have := decode_typed [(2, some amt), (4, some cltv), (8, pd), (16, pm)] (by simp [StrictInc])
      (fun t ht => hK t (by simp at ht ⊢; omega)) (show ValidCustom c from hc) none ks
    cases pd <;> cases pm <;> cases ks <;>
      simpa [synth, tlvRecords, OutPayload.records, OutPayload.out, writeOnionReceive, TlvOut.records,
        OutPayload.typedRecs, OutPayload.customTlvs] using this
  | onionBlindedReceive amt tot cltv enc bp ks ir c =>
    have := decode_typed [(2, some amt), (4, some cltv), (10, some enc), (12, bp), (18, some tot)] (by simp [StrictInc])
      (fun t ht => hK t (by simp at ht ⊢; omega)) (show ValidCustom c from hc) ir ks
    simpa [synth, tlvRecords, OutPayload.records, OutPayload.out, writeOnionBlindedReceive, TlvOut.records,
      OutPayload.typedRecs, OutPayload.customTlvs, List.append_assoc] using this
  | onionForward s a c =>
    have := decode_typed [(2, some a), (4, some c), (6, some s)] (by simp [StrictInc])
      (fun t ht => hK t (by simp at ht ⊢; omega)) hnil none none
    simpa [synth, tlvRecords, sortByType_nil, OutPayload.records, OutPayload.out, writeOnionForward, TlvOut.records,
      OutPayload.typedRecs, OutPayload.customTlvs] using this
  | onionTrampolineEntrypoint a c m t k =>
    have := decode_typed [(2, some a), (4, some c), (8, m), (12, k), (20, some t)] (by simp [StrictInc])
      (fun t ht => hK t (by simp at ht ⊢; omega)) hnil none none
    cases m <;> cases k <;>
      simpa [synth, tlvRecords, sortByType_nil, OutPayload.records, OutPayload.out, writeOnionTrampolineEntrypoint, TlvOut.records,
        OutPayload.typedRecs, OutPayload.customTlvs] using this
  | onionBlindedForward e b =>
    have := decode_typed [(10, some e), (12, b)] (by simp [StrictInc])
      (fun t ht => hK t (by simp at ht ⊢; omega)) hnil none none
    cases b <;>
      simpa [synth, tlvRecords, sortByType_nil, OutPayload.records, OutPayload.out, writeOnionBlindedForward, TlvOut.records,
        OutPayload.typedRecs, OutPayload.customTlvs] using this
  | trampolineForward _ _ _ => cases ho
  | trampolineLegacyBlindedPathEntry _ _ _ _ => cases ho
  | trampolineBlindedForward _ _ => cases ho
  | trampolineBlindedReceive _ _ _ _ _ _ _ => cases ho

/-- **…and the receiving hop recognises the kind of instruction.** With the typed fields the decoder filled from the
    written payload, the kind decision of `InboundOnionPayload::read` (its `InvalidValue` conditions and required
    fields translated from the source) yields: Forward for a Forward payload, Receive for a Receive payload (whatever
    optional records it carries), TrampolineEntrypoint for a trampoline entry, and — when exactly one of the onion's
    `current_path_key` record and the `update_add_htlc` blinding point is present and the `encrypted_tlvs` decrypt to
    forward / receive data — BlindedForward resp. BlindedReceive (with or without keysend / invoice_request). -/
theorem payload_kind_recognised :
    (∀ s a c inner, classifyInbound (presenceOf (OutPayload.onionForward s a c).typedRecs) false inner = some .forward) ∧
    (∀ pd pm ks amt cltv c inner,
      classifyInbound (presenceOf (OutPayload.onionReceive pd pm ks amt cltv c).typedRecs) false inner = some .receive) ∧
    (∀ a c m t k inner,
      classifyInbound (presenceOf (OutPayload.onionTrampolineEntrypoint a c m t k).typedRecs) false inner = some .trampolineEntrypoint) ∧
    (∀ e (bp : Option Bytes) (ubp : Bool), (bp.isSome != ubp) = true →
      classifyInbound (presenceOf (OutPayload.onionBlindedForward e bp).typedRecs) ubp .forward = some .blindedForward) ∧
    (∀ amt tot cltv enc (bp : Option Bytes) ks ir c (ubp : Bool), (bp.isSome != ubp) = true →
      classifyInbound (presenceOf (OutPayload.onionBlindedReceive amt tot cltv enc bp ks ir c).typedRecs) ubp .receive = some .blindedReceive) := by
  refine ⟨?_, ?_, ?_, ?_, ?_⟩
  · intro s a c inner; cases inner <;> rfl
  · intro pd pm ks amt cltv c inner; cases pd <;> cases pm <;> cases ks <;> cases inner <;> rfl
  · intro a c m t k inner; cases m <;> cases k <;> cases inner <;> rfl
  · intro e bp ubp h; cases bp <;> cases ubp <;> first | rfl | cases h
  · intro amt tot cltv enc bp ks ir c ubp h
    cases bp <;> cases ubp <;> cases ks <;> cases ir <;> first | rfl | cases h


-- non-vacuity: a BLINDED recipient's payload with keysend, an invoice_request and custom TLVs below, between and above
-- the fixed types 77777 and 5482373484: the hypotheses hold and the checked type sequence is the expected one
example : ValidCustom [(65537, [1]), (77779, [2]), (5482373483, [3]), (5482373487, [4])] := ⟨by decide, by decide⟩
example :
    StrictInc (OutPayload.onionBlindedReceive [1] [1] [2] [9, 9] none (some [7]) (some [8])
      [(65537, [1]), (77779, [2]), (5482373483, [3]), (5482373487, [4])]).out.checkedTypes :=
  payload_types_strictly_increasing _ ⟨by decide, by decide⟩
example :
    decodeRecords inboundKnownTypes customTlvMin
      (OutPayload.onionBlindedReceive [1] [1] [2] [9, 9] none (some [7]) (some [8])
        [(65537, [1]), (5482373487, [4])]).records =
      .ok ([(2, [1]), (4, [2]), (10, [9, 9]), (18, [1]), (77777, [8]), (5482373484, [7])], [(65537, [1]), (5482373487, [4])]) :=
  payload_decodes_to_what_was_written _ rfl ⟨by decide, by decide⟩
-- an out-of-order stream (what a writer without the sort emits) is rejected by the decoder
example : decodeRecords inboundKnownTypes customTlvMin [(2, [1]), (4, [2]), (5482373487, [4]), (5482373484, [7])] =
    .error .invalidValue := by rfl

/-! ## hop payloads as VALUES and BYTES: what a hop reads is what the sender meant

   `HopInstr` (Model/OnionInstr.lean) is what a hop is told — amounts, expiries, channel id, payment secret / total,
   metadata, keysend preimage, invoice_request, blinded-hop data, custom TLVs.  `HopInstr.encode` writes it with the
   GENERATED payload constructors and the GENERATED value encodings of the writers (`writeEnc…`: from the value
   expressions and declared field types of `impl Writeable for OutboundOnionPayload`); `readInstr` reads bytes the way
   `InboundOnionPayload::read` does: BigSize length, TLV framing, the record loop, the GENERATED value encodings of the
   reader (`inboundEnc`: from the `encoding:` annotations / declared types), the translated kind decision. -/

/-- **Writer and reader use the same value encoding for every record** of every outer-onion payload kind
    (both tables are extracted from msgs.rs on every run; e.g. amt: HighZeroBytesDroppedBigSize<u64> on both sides,
    cltv: <u32>, short_channel_id: 8 bytes big-endian, payment_data: 32-byte secret ‖ HighZeroBytesDroppedBigSize<u64>). -/
theorem payload_value_encodings_agree :
    ∀ tbl ∈ [writeEncOnionForward, writeEncOnionReceive, writeEncOnionBlindedForward, writeEncOnionBlindedReceive,
      writeEncOnionTrampolineEntrypoint], ∀ te ∈ tbl, encOf inboundEnc te.1 = te.2 := by decide

example : encOf inboundEnc 2 = .hzbd 8 ∧ encOf inboundEnc 4 = .hzbd 4 ∧ encOf inboundEnc 6 = .be 8 ∧ encOf inboundEnc 8 = .secretTotal := by decide

/-- **Every value encoding round-trips**, for every value of the encoding's type: truncated integers
    (HighZeroBytesDroppedBigSize, any width: every `x < 256^w`, incl. 0 ↦ empty string), fixed-width integers,
    fixed-size byte arrays, raw byte strings, payment_data. -/
theorem payload_value_roundtrip (e : ValEnc) (v : HVal) (hv : v.valid e = true) : decodeVal e (encodeVal e v) = some v :=
  decodeVal_encodeVal e v hv

/-- HighZeroBytesDroppedBigSize: the writer's output is minimal (at most `w` bytes, no leading zero byte) and the reader
    REJECTS every non-minimal or over-long encoding — so the encoding of a value is unique. -/
theorem hzbd_canonical (w : Nat) :
    (∀ x, (hzbdEnc w x).length ≤ w ∧ (hzbdEnc w x).head? ≠ some 0) ∧
    (∀ x, x < 256 ^ w → hzbdDec w (hzbdEnc w x) = some x) ∧
    (∀ b : Bytes, (b.head? = some 0 ∨ w < b.length) → hzbdDec w b = none) :=
  ⟨fun x => ⟨hzbdEnc_length_le w x, hzbdEnc_minimal w x⟩, fun x hx => hzbd_roundtrip w x hx, hzbdDec_rejects w⟩

example : hzbdEnc 8 0 = [] ∧ hzbdEnc 8 255 = [255] ∧ hzbdEnc 8 256 = [1, 0] ∧ hzbdEnc 4 800000 = [12, 53, 0] ∧
    hzbdDec 8 [0, 1] = none ∧ hzbdDec 4 [1, 2, 3, 4, 5] = none ∧ hzbdDec 8 [1, 0] = some 256 := by decide

/-- **Bytes round-trip**: for every record list whose types and value lengths fit a u64 (BigSize), parsing the
    length-prefixed TLV stream `_encode_varint_length_prefixed_tlv!` wrote yields exactly the records. -/
theorem payload_bytes_roundtrip (recs : List Rec) (hu : RecsU64 recs) (hl : (encodeRecords recs).length < 2 ^ 64) :
    parsePayload (encodePayload recs) = some recs :=
  parsePayload_encodePayload recs hu hl

example : parsePayload (encodePayload [(2, [1, 0]), (4, [12, 53, 0]), (65537, [])]) = some [(2, [1, 0]), (4, [12, 53, 0]), (65537, [])] :=
  payload_bytes_roundtrip _ (by intro r hr; simp at hr; rcases hr with rfl | rfl | rfl <;> decide) (by decide)

/-- **Unknown types: even is rejected, odd is ignored** — the single-step law of the record loop of
    `_decode_tlv_stream_range!`, in every state (any previous type, any remaining records): a record in order, of a
    type the reader has no field for and below the custom-TLV range, makes the whole payload fail with
    `UnknownRequiredFeature` when its type is even, and is skipped (neither a typed field nor a custom TLV) when odd. -/
theorem unknown_even_rejected_odd_ignored (last : Option Nat) (t : Nat) (v : Bytes) (rest : List Rec)
    (ho : orderBad last t = false) (hk : inboundKnownTypes.contains t = false) (hc : t < customTlvMin) :
    (t % 2 = 0 → decodeGo inboundKnownTypes customTlvMin last ((t, v) :: rest) = .error .unknownRequired) ∧
    (t % 2 = 1 → decodeGo inboundKnownTypes customTlvMin last ((t, v) :: rest) =
      decodeGo inboundKnownTypes customTlvMin (some t) rest) := by
  rw [decodeGo_unknown _ _ last t v rest ho hk hc]
  constructor <;> intro h
  · rw [if_pos h]
  · rw [if_neg (by omega)]

example : decodeRecords inboundKnownTypes customTlvMin [(2, [1]), (4, [2]), (14, [9])] = .error .unknownRequired ∧
    decodeRecords inboundKnownTypes customTlvMin [(2, [1]), (4, [2]), (15, [9])] = .ok ([(2, [1]), (4, [2])], []) := by
  constructor <;> rfl

/-- the translated kind decision recognises the payload of every instruction (in a matching reader context) -/
theorem instr_kind_recognised (i : HopInstr) (ubp : Bool) (inner : BlindedInner) (hc : i.ctxOk ubp inner = true) :
    classifyInbound (presenceOf i.toOut.typedRecs) ubp inner = some i.kind := by
  obtain ⟨k1, k2, k3, k4, k5⟩ := payload_kind_recognised
  cases i with
  | forward scid amt cltv =>
    have : ubp = false := by simpa [HopInstr.ctxOk] using hc
    subst this; exact k1 _ _ _ inner
  | receive amt cltv pd md ks custom =>
    have : ubp = false := by simpa [HopInstr.ctxOk] using hc
    subst this; exact k2 _ _ _ _ _ _ inner
  | trampolineEntrypoint amt cltv mp pkt pk =>
    have : ubp = false := by simpa [HopInstr.ctxOk] using hc
    subst this; exact k3 _ _ _ _ _ inner
  | blindedForward enc bp =>
    simp only [HopInstr.ctxOk, Bool.and_eq_true, beq_iff_eq] at hc
    obtain ⟨h1, rfl⟩ := hc
    exact k4 _ (bp.map _) ubp (by simpa using h1)
  | blindedReceive amt total cltv enc bp ks ir custom =>
    simp only [HopInstr.ctxOk, Bool.and_eq_true, beq_iff_eq] at hc
    obtain ⟨h1, rfl⟩ := hc
    exact k5 _ _ _ _ (bp.map _) _ _ _ ubp (by simpa using h1)

/-- **decode_payload (encode_payload i) = i, for every well-formed instruction of every kind** (Forward, Receive with
    or without payment_data / metadata / keysend / custom TLVs, BlindedForward, BlindedReceive with or without
    keysend / invoice_request / custom TLVs, TrampolineEntrypoint): reading the bytes the sender wrote — framing, record
    loop, value decoders, kind decision — yields the kind and EXACTLY the values the sender meant, custom TLVs included. -/
theorem instr_roundtrip (i : HopInstr) (hv : i.Valid) (ubp : Bool) (inner : BlindedInner) (hc : i.ctxOk ubp inner = true) :
    readInstr i.encode ubp inner = .ok (i.kind, i) := by
  unfold readInstr HopInstr.encode
  rw [parsePayload_encodePayload _ (instr_records_u64 i hv.customU64 (by have := hv.size; omega)) (by have := hv.size; omega)]
  have hdec := payload_decodes_to_what_was_written i.toOut (toOut_outer i) (by rw [toOut_custom]; exact hv.custom)
  obtain ⟨h1, h2⟩ := typed_values_decode i hv.values
  simp only [hdec, h1, Bool.not_true, Bool.false_eq_true, if_false, instr_kind_recognised i ubp inner hc, toOut_custom, h2]

/-- the serialized payload is self-delimiting for the onion layer's reader -/
theorem instr_wellFramed (i : HopInstr) (hv : i.Valid) : WellFramed bigSizeFrame i.encode :=
  wellFramed_encodePayload _ hv.size

/-- **End to end: every hop reads exactly the instructions the sender wrote for it.** For every route of `n ≥ 1` hops
    (any keys, any associated data / initial noise, any well-formed instructions of any kind per hop) whose serialized
    payloads fit the packet: the sender's `build` succeeds; peeling layer after layer with each hop's own keys yields, at
    hop `j`, a payload that `InboundOnionPayload::read` decodes to the kind and exactly the VALUES of the `j`-th
    instruction — nothing of any other hop's.  (`hnz`: the inner HMACs are not the all-zero "final" marker, as in
    `peel_build`; `hctx`: each hop reads in the context matching its kind.) -/
theorem hops_read_their_instructions (C : OnionCrypto) (ad noise : Bytes) (route : List (HopKeys × HopInstr))
    (ctx : Nat → Bool × BlindedInner)
    (hne : route ≠ [])
    (hvalid : ∀ ki ∈ route, ki.2.Valid)
    (hfit : totalSize (route.map fun ki => ⟨ki.1.rho, ki.1.mu, ki.2.encode⟩) ≤ noise.length)
    (hnz : ∀ j, 0 < j → j < route.length →
      (packetAt C ad noise (route.map fun ki => ⟨ki.1.rho, ki.1.mu, ki.2.encode⟩) j).2 ≠ zeros 32)
    (hctx : ∀ j (hj : j < route.length), route[j].2.ctxOk (ctx j).1 (ctx j).2 = true) :
    let hops : List Hop := route.map fun ki => ⟨ki.1.rho, ki.1.mu, ki.2.encode⟩
    build C ad noise hops = some (packetAt C ad noise hops 0) ∧
    ∃ ps : List Bytes, peelChain C bigSizeFrame ad (hops.map Hop.keys) (packetAt C ad noise hops 0) = some ps ∧
      ps.length = route.length ∧
      ∀ j (hj : j < route.length), readInstr (ps.getD j []) (ctx j).1 (ctx j).2 = .ok (route[j].2.kind, route[j].2) := by
  intro hops
  have hlen : hops.length = route.length := by simp [hops]
  have hpb := peel_build C bigSizeFrame ad noise hops (by simpa [hops] using hne) hfit
    (by
      intro h hh
      obtain ⟨ki, hki, rfl⟩ := List.mem_map.mp hh
      exact instr_wellFramed ki.2 (hvalid ki hki))
    (by intro j h0 h1; exact hnz j h0 (hlen ▸ h1))
  refine ⟨hpb.1, hops.map (·.payload), hpb.2.2, by simp [hops], fun j hj => ?_⟩
  have : (hops.map (·.payload)).getD j [] = route[j].2.encode := by
    simp [hops, List.getD_eq_getElem?_getD, List.getElem?_map, List.getElem?_eq_getElem hj]
  rw [this]
  exact instr_roundtrip _ (hvalid _ (List.getElem_mem hj)) _ _ (hctx j hj)

-- non-vacuity: a forwarding instruction and a blinded hop's instruction
example : (HopInstr.forward 0x123456789abcdef0 1000 800000).Valid :=
  HopInstr.Valid.mk (by decide) (ValidCustom.mk List.Pairwise.nil (fun r hr => by simp [HopInstr.custom] at hr))
    (fun r hr => by simp [HopInstr.custom] at hr) (by decide)
example : readInstr (HopInstr.forward 0x123456789abcdef0 1000 800000).encode false .forward =
    .ok (.forward, .forward 0x123456789abcdef0 1000 800000) :=
  instr_roundtrip _ (HopInstr.Valid.mk (by decide) (ValidCustom.mk List.Pairwise.nil (fun r hr => by simp [HopInstr.custom] at hr))
    (fun r hr => by simp [HopInstr.custom] at hr) (by decide)) _ _ rfl
example : (HopInstr.forward 0x123456789abcdef0 1000 800000).encode =
    [0x13, 2, 2, 0x03, 0xe8, 4, 3, 0x0c, 0x35, 0x00, 6, 8, 0x12, 0x34, 0x56, 0x78, 0x9a, 0xbc, 0xde, 0xf0] := by decide
example : readInstr (HopInstr.blindedForward [9, 9, 9] (some (zeros 33))).encode false .forward =
    .ok (.blindedForward, .blindedForward [9, 9, 9] (some (zeros 33))) :=
  instr_roundtrip _ (HopInstr.Valid.mk (by decide) (ValidCustom.mk List.Pairwise.nil (fun r hr => by simp [HopInstr.custom] at hr))
    (fun r hr => by simp [HopInstr.custom] at hr) (by decide)) _ _ rfl

/-! ## failures in and around blinded payment paths

   `getHtlcForwardFailure` (channelmanager.rs::get_htlc_forward_failure, every arm), the `Reason` arm of
   get_encrypted_failure_packet, the failure code `BADONION | PERM | 24`, and the blinded-hop branches of the sender's
   loop (`decodeGoB`: `None =>` arm, `is_from_final_non_blinded_node`, `match next_hop`, their position BEFORE the
   decryption) are TRANSLATED from the Rust source on every run (Generated/OnionBlinded.lean). -/

/-- **What comes out of a blinded path says nothing about its inside.** A node INSIDE a blinded path never produces an
    onion error packet: it answers with update_fail_malformed_htlc, code invalid_onion_blinding, all-zero
    sha256_of_onion — whatever the failure was.  The INTRODUCTION node answers every failure — its own or whatever it
    received from inside (`onion_error` is ignored) — with one and the same packet: invalid_onion_blinding with 32 zero
    bytes, built and encrypted with ITS OWN shared secret, hold time 0. -/
theorem blinded_failure_conversion (C : OnionCrypto) (k : FailKeysX) (onion_error : OnionError) :
    getHtlcForwardFailure C (some .fromBlindedNode) onion_error k = .failMalformed INVALID_ONION_BLINDING (zeros 32) ∧
    getHtlcForwardFailure C (some .fromIntroductionNode) onion_error k =
      .failHtlc (buildFailurePacket C k INVALID_ONION_BLINDING (zeros 32) 0) ∧
    INVALID_ONION_BLINDING = 0xC018 ∧ INVALID_ONION_BLINDING &&& BADONION = BADONION :=
  ⟨rfl, rfl, by decide, by decide⟩

/-- **The sender never attributes a failure to a node inside or after the blinded section — for ANY packet.**
    Path: hops `pre` before the introduction node, the introduction node `kI`, at least one blinded hop after it
    (`kb :: bl`).  Whatever bytes come back (honest, corrupted, forged by anyone): the sender either reports "failed
    within the blinded path" — decided exactly when its loop stands at the introduction node, without naming a channel
    or a node — or names, by a verified `um` HMAC, a hop STRICTLY BEFORE the introduction node, or nothing
    (packet shorter than an HMAC).  No outcome names the introduction node's successors. -/
theorem blinded_failure_never_attributed_inside (C : OnionCrypto) (nb : Nat) (pre : List FailKeys) (kI kb : FailKeys)
    (bl : List FailKeys) (pkt : Bytes) :
    match decodeFailureB C nb (pathHops (pre ++ [kI]) (kb :: bl)) pkt with
    | .withinBlindedPath h => h = pre.length
    | .plain d => ∀ h, d.hop? = some h → h < pre.length := by
  unfold decodeFailureB
  by_cases hl : pkt.length < 32
  · rw [if_pos hl]
    simp [FailDecoded.hop?]
  · rw [if_neg hl]
    rcases decodeGoB_cases C nb kI kb bl pre 0 pkt with h | ⟨j, hj, p, h⟩
    · rw [h]; simp
    · rw [h]
      intro x hx
      rw [parseFailure_hop] at hx
      cases hx; omega

/-- **A failure from inside the blinded path is attributed to the blinded path at the introduction node.** For every
    path (relaying hops `pre` with their keys and hold times, the introduction node `kI`, blinded hops `kb :: bl`), and
    WHATEVER happened inside (`onion_error` arbitrary: the introduction node discards it): the packet the introduction
    node produces (`get_htlc_forward_failure(Some(FromIntroductionNode), ..)`), relayed by the hops before it
    (`process_failure_packet` + `crypt_failure_packet`), makes the sender report "failed within the blinded path" with
    its loop at the introduction node — provided no earlier hop's `um` HMAC verifies by accident on what it relayed
    (`NoEarlyMatch`, as in `failure_roundtrip`). -/
theorem blinded_failure_attributed_to_introduction_node (C : OnionCrypto) (nb : Nat) (pre : List RelayHop)
    (kI : FailKeysX) (kb : FailKeys) (bl : List FailKeys) (onion_error : OnionError)
    (hno : NoEarlyMatch C (pre.map (fun kh => kh.1.base)) (buildFailure C kI.base INVALID_ONION_BLINDING (zeros 32))) :
    ∃ P0, getHtlcForwardFailure C (some .fromIntroductionNode) onion_error kI = .failHtlc P0 ∧
      decodeFailureB C nb (pathHops (pre.map (fun kh => kh.1.base) ++ [kI.base]) (kb :: bl)) (relayChainX C pre P0).data =
        .withinBlindedPath pre.length := by
  refine ⟨buildFailurePacket C kI INVALID_ONION_BLINDING (zeros 32) 0, rfl, ?_⟩
  unfold decodeFailureB
  rw [relayChainX_data, buildFailurePacket_eq]
  rw [if_neg (by rw [relayFailure_length, buildFailure_length]; omega)]
  have := decodeGoB_relay C nb kI.base kb bl _ (pre.map (fun kh => kh.1.base)) 0 hno
  simpa using this

/-- **A ONE-hop blinded path** (the recipient is the introduction node, `num_blinded_hops ≤ 1`): the sender's loop is the
    legacy one — every hop, including the introduction node / recipient, is named by its HMAC as in `failure_roundtrip`. -/
theorem one_hop_blinded_path_is_legacy (C : OnionCrypto) (nb : Nat) (hnb : nb ≤ 1) (ks : List FailKeys) (pkt : Bytes) :
    decodeFailureB C nb (pathHops ks []) pkt = .plain (decodeFailure C ks pkt) := by
  unfold decodeFailureB decodeFailure
  split
  · rfl
  · exact decodeGoB_one_hop C nb hnb ks 0 pkt

-- non-vacuity (toy stream / MAC): two hops, the introduction node, two blinded hops; the introduction node's packet
-- relayed by the two hops: NoEarlyMatch holds, the sender reports "within blinded path" at hop 2
example : decodeFailureB toy 3 (pathHops (toyFailKeys.take 2 ++ [⟨[5], [6, 6]⟩]) [⟨[7], [8]⟩, ⟨[9], [1]⟩])
    (relayFailure toy (toyFailKeys.take 2) (buildFailure toy ⟨[5], [6, 6]⟩ INVALID_ONION_BLINDING (zeros 32))) = .withinBlindedPath 2 := by
  set_option maxRecDepth 100000 in decide
example : NoEarlyMatch toy (toyFailKeys.take 2) (buildFailure toy ⟨[5], [6, 6]⟩ INVALID_ONION_BLINDING (zeros 32)) := by
  refine ⟨?_, ?_, trivial⟩ <;> (set_option maxRecDepth 100000 in decide)

/-! ## route blinding at forwarding hops, concatenated blinded paths

   `fwdBlinded` (create_fwd_pending_htlc_info: the last two tuple components of every forwarding `match hop_data` arm and
   the `blinded:` field of PendingHTLCRouting::Forward / ::TrampolineForward) and `nextBlindingPoint` (channelmanager.rs,
   both forwarding sites) are TRANSLATED from the Rust source on every run (Generated/OnionFwdInfo.lean);
   `relayBlinded` chains them over the forwarding hops of a blinded tail (Model/OnionFwdInfo.lean). -/

/-- **A blinded forwarder's peeled instructions keep the path-key override of its recipient data whatever its role.**
    For every payload introduction point, update_add_htlc blinding point and override (TLV 8): the hop records the
    point it was handed (the payload's, else the message's), the override UNCHANGED, and the introduction-node role
    exactly when the point came in the payload; without any point the forward is unblinded.  The same for the
    trampoline arms with `current_path_key` in the place of the message's point; unblinded kinds carry no blinding. -/
theorem fwd_info_keeps_blinding_instructions (intro msg_bp ovr cpk : Option Bytes) :
    fwdBlinded (.blindedForward intro ovr) msg_bp
        = (intro.or msg_bp).map (fun bp => ⟨bp, ovr, if intro.isSome then .fromIntroductionNode else .fromBlindedNode⟩)
    ∧ fwdBlinded (.trampolineBlindedForward cpk intro ovr) msg_bp
        = (intro.or cpk).map (fun bp => ⟨bp, ovr, if intro.isSome then .fromIntroductionNode else .fromBlindedNode⟩)
    ∧ fwdBlinded .forward none = none ∧ fwdBlinded .trampolineForward msg_bp = none := by
  cases intro <;> cases msg_bp <;> cases cpk <;> exact ⟨rfl, rfl, rfl, rfl⟩

example : fwdBlinded (.blindedForward none (some [2, 2])) (some [1]) = some ⟨[1], some [2, 2], .fromBlindedNode⟩ := by decide
example : fwdBlinded (.blindedForward (some [1]) (some [2, 2])) none = some ⟨[1], some [2, 2], .fromIntroductionNode⟩ := by decide

/-- **The outgoing update_add_htlc carries the override when the instructions have one, else the derived key**; an
    unblinded forward carries none. -/
theorem next_blinding_point_spec (derive : Bytes → Option Bytes) (b : BlindedForward) :
    nextBlindingPoint derive (some b)
        = (match b.next_blinding_override with | some o => some o | none => derive b.inbound_blinding_point)
    ∧ nextBlindingPoint derive none = none := by
  refine ⟨?_, rfl⟩
  cases h : b.next_blinding_override <;> simp [nextBlindingPoint, h]

example : nextBlindingPoint (fun _ => some [7]) (some ⟨[1], some [2, 2], .fromBlindedNode⟩) = some [2, 2] := by decide
example : nextBlindingPoint (fun _ => some [7]) (some ⟨[1], none, .fromBlindedNode⟩) = some [7] := by decide

set_option linter.unusedSimpArgs false in
/-- **Every hop of a blinded tail is handed exactly the path key its creator(s) intended**, for every number of hops,
    every placement of overrides (any number of concatenated paths) and every derivation function: relaying with the
    translated per-hop functions, starting at the introduction node (point in the payload, none in the message),
    yields hop after hop the intended key, the hop's own override and the right failure role. -/
theorem relay_hands_on_intended_keys (e : Bytes) (hops : List BlindedHopSpec) :
    relayBlinded (some e) none hops = intendedBlinded true (some e) hops := by
  have inner : ∀ (hops : List BlindedHopSpec) (m : Option Bytes), relayBlinded none m hops = intendedBlinded false m hops := by
    intro hops
    induction hops with
    | nil => intro m; rfl
    | cons h t ih =>
      intro m
      cases m with
      | none => simp only [relayBlinded, intendedBlinded]; rw [ih]; rfl
      | some x =>
        simp only [relayBlinded, intendedBlinded]; rw [ih]
        cases ho : h.next_blinding_override <;> simp [fwdBlinded, directBlinded, fwdIntroNodeBlindingPoint, fwdNextBlindingOverride, nextBlindingPoint, ho]
  cases hops with
  | nil => rfl
  | cons h t =>
    simp only [relayBlinded, intendedBlinded]; rw [inner]
    cases ho : h.next_blinding_override <;> simp [fwdBlinded, directBlinded, fwdIntroNodeBlindingPoint, fwdNextBlindingOverride, nextBlindingPoint, ho]

set_option linter.unusedSimpArgs false in
/-- **The recipient of the tail is handed the key its path's creator intended**: after every forwarding hop has relayed
    with the translated functions, the blinding point of the last update_add_htlc is `keyAfter` — the last override on
    the way, carried on by the derivations after it. -/
theorem relay_final_key (e : Bytes) (hops : List BlindedHopSpec) :
    relayFinalKey (some e) none hops = keyAfter (some e) hops := by
  have inner : ∀ (hops : List BlindedHopSpec) (m : Option Bytes), relayFinalKey none m hops = keyAfter m hops := by
    intro hops
    induction hops with
    | nil => intro m; cases m <;> rfl
    | cons h t ih =>
      intro m
      simp only [relayFinalKey, keyAfter]; rw [ih]
      cases m with
      | none => rfl
      | some x => cases ho : h.next_blinding_override <;> simp [fwdBlinded, directBlinded, fwdIntroNodeBlindingPoint, fwdNextBlindingOverride, nextBlindingPoint, ho]
  cases hops with
  | nil => rfl
  | cons h t =>
    simp only [relayFinalKey, keyAfter]; rw [inner]
    cases ho : h.next_blinding_override <;> simp [fwdBlinded, directBlinded, fwdIntroNodeBlindingPoint, fwdNextBlindingOverride, nextBlindingPoint, ho]

example : relayFinalKey (some [1]) none
    [⟨fun e => some (e ++ [0]), none⟩, ⟨fun e => some (e ++ [0]), some [9]⟩, ⟨fun e => some (e ++ [5]), none⟩] = some [9, 5] := by decide

/-- **Concatenated blinded paths**: when the last hop `h` of a first path carries the override `e2` (and the path key
    reaches it), the hops of the second path are handed `e2` and its successors — i.e. exactly what they would be
    handed if the second path were used alone (as non-introduction hops, since the point travels in update_add_htlc). -/
theorem concatenated_paths_switch_path_key (e1 e2 : Bytes) (p1 p2 : List BlindedHopSpec) (h : BlindedHopSpec)
    (ho : h.next_blinding_override = some e2) (hk : (keyAfter (some e1) p1).isSome) :
    relayBlinded (some e1) none (p1 ++ h :: p2)
      = intendedBlinded true (some e1) (p1 ++ [h]) ++ intendedBlinded false (some e2) p2 := by
  rw [relay_hands_on_intended_keys]
  have app : ∀ (a b : List BlindedHopSpec) (f : Bool) (e : Option Bytes),
      intendedBlinded f e (a ++ b) = intendedBlinded f e a ++ intendedBlinded (f && a.isEmpty) (keyAfter e a) b := by
    intro a
    induction a with
    | nil => intro b f e; simp [intendedBlinded, keyAfter]
    | cons x t ih => intro b f e; simp [intendedBlinded, keyAfter, ih]
  have : p1 ++ h :: p2 = (p1 ++ [h]) ++ p2 := by simp
  rw [this, app (p1 ++ [h]) p2]
  have hka : ∀ (a : List BlindedHopSpec) (e : Option Bytes), keyAfter e (a ++ [h]) = (keyAfter e a).bind fun e => h.next_blinding_override.orElse fun _ => h.derive e := by
    intro a
    induction a with
    | nil => intro e; rfl
    | cons x t ih => intro e; simp [keyAfter, ih]
  rw [hka]
  obtain ⟨k, hk'⟩ := Option.isSome_iff_exists.mp hk
  have hne : (p1 ++ [h]).isEmpty = false := by cases p1 <;> rfl
  simp [hk', ho, hne]

-- non-vacuity: Bob(intro) -> Carol (override = the second path's key [9]) ++ Dave -> (Eve): Dave is handed [9], Eve its successor
example : relayBlinded (some [1]) none
    [⟨fun e => some (e ++ [0]), none⟩, ⟨fun e => some (e ++ [0]), some [9]⟩, ⟨fun e => some (e ++ [5]), none⟩, ⟨fun e => some (e ++ [5]), none⟩]
    = [some ⟨[1], none, .fromIntroductionNode⟩, some ⟨[1, 0], some [9], .fromBlindedNode⟩, some ⟨[9], none, .fromBlindedNode⟩, some ⟨[9, 5], none, .fromBlindedNode⟩] := by
  decide
example : (keyAfter (some [1]) [(⟨fun e => some (e ++ [0]), none⟩ : BlindedHopSpec)]).isSome := by decide

/-! ## the sender's blame policy

   `blameDecision` — the flag predicates, the "only the final node may send" list (is_recipient_failure),
   `payment_failed`, the BADONION / NODE / PERM / UPDATE / payment_failed / else chain of process_onion_failure_inner and
   `payment_failed_permanently` — is TRANSLATED from the Rust source on every run (Generated/OnionBlame.lean). -/

/-- **A failure authenticated by a NON-final hop always penalises a channel or node on the path and never fails the
    payment permanently** — for every 16-bit (indeed every) code, including the codes only the recipient may send
    (incorrect_payment_details, final_incorrect_cltv_expiry, final_incorrect_htlc_amount, mpp_timeout) and unknown ones,
    with or without a well-framed channel_update. -/
theorem blame_non_final_names_hop_never_permanent (c : Nat) (update_ok : Bool) :
    (blameDecision c false true update_ok).network_update.isSome = true
    ∧ (blameDecision c false true update_ok).payment_failed_permanently = false := by
  unfold blameDecision
  generalize isBadonion c = b1; generalize isNode c = b2; generalize isPermanent c = b3
  generalize isTemporary c = b4; generalize isRecipientFailure c = b5; generalize (c == 18 || c == 19) = b6
  cases b1 <;> cases b2 <;> cases b3 <;> cases b4 <;> cases b5 <;> cases b6 <;> cases update_ok <;> exact ⟨rfl, rfl⟩

example : (blameDecision 23 false true false) = ⟨some (.nodeFailure true), some .routeHop, false⟩ := by decide

/-- **Only a PERM code from the final hop fails the payment permanently** (all codes, all hop kinds). -/
theorem blame_permanent_only_from_final (c : Nat) (is_final fr update_ok : Bool) :
    (blameDecision c is_final fr update_ok).payment_failed_permanently = (isPermanent c && is_final) := by
  unfold blameDecision
  generalize isBadonion c = b1; generalize isNode c = b2; generalize isPermanent c = b3
  generalize isTemporary c = b4; generalize isRecipientFailure c = b5; generalize (c == 18 || c == 19) = b6
  cases b1 <;> cases b2 <;> cases b3 <;> cases b4 <;> cases b5 <;> cases b6 <;> cases update_ok <;> cases is_final <;> cases fr <;> rfl

example : (blameDecision 16399 true true false).payment_failed_permanently = true := by decide

/-- **A recipient-only code from the final hop penalises nobody** (the payment parameters failed, not the route); the
    recipient's channel is named only when a value of the HTLC did not match the onion (codes 18 / 19). -/
theorem blame_final_recipient_failure_penalises_nobody (c : Nat) (fr update_ok : Bool) (h : isRecipientFailure c = true) :
    (blameDecision c true fr update_ok).network_update = none
    ∧ ((blameDecision c true fr update_ok).short_channel_id.isSome = (c == 18 || c == 19)) := by
  simp only [isRecipientFailure, Bool.or_eq_true, beq_iff_eq] at h
  rcases h with ((rfl | rfl) | rfl) | rfl <;> cases fr <;> cases update_ok <;> decide

/-! ## what a hop answers when it cannot decode / forward (decode_incoming_update_add_htlc_onion)

   `inboundFailure` — the closures encode_malformed_error / encode_relay_error and every site that calls them — is TRANSLATED
   from the Rust source on every run (Generated/OnionInbFail.lean). -/

/-- **No hop inside a blinded path ever reveals a non-blinded failure code**: whenever the incoming update_add_htlc
    carries a blinding point, EVERY failure site (bad ephemeral key, unknown version, any Malformed / Relay decode error
    with any reason code, a failed blinded-forward check) answers update_fail_malformed_htlc with
    invalid_onion_blinding and an all-zero sha256_of_onion — never an onion error packet, never another code. -/
theorem blinded_hop_never_reveals_failure_code (site : InboundFailSite) :
    inboundFailure true site = .malformed .zeros INVALID_ONION_BLINDING := by
  cases site <;> rfl

/-- **The introduction node** (no blinding point in the message) answers a failed blinded-forward check with an
    encrypted invalid_onion_blinding failure with 32 zero bytes, and an invalid_onion_blinding decode error with the
    zero sha; any other malformed-onion error outside a blinded path keeps its code and carries the hash of the hop data. -/
theorem unblinded_hop_failure_answers (c : Nat) :
    inboundFailure false .blindedForwardCheck = .relay INVALID_ONION_BLINDING (zeros 32)
    ∧ inboundFailure false .dummyCheck = .relay INVALID_ONION_BLINDING (zeros 32)
    ∧ inboundFailure false (.decodeMalformed INVALID_ONION_BLINDING) = .malformed .zeros INVALID_ONION_BLINDING
    ∧ (c ≠ INVALID_ONION_BLINDING → inboundFailure false (.decodeMalformed c) = .malformed .hashOfHopData c)
    ∧ inboundFailure false (.decodeRelay c) = .relay c [] := by
  refine ⟨rfl, rfl, rfl, ?_, rfl⟩
  intro h
  have : (c == 49176) = false := by simpa [INVALID_ONION_BLINDING] using h
  simp [inboundFailure, encodeMalformedError, this]

example : inboundFailure true (.decodeMalformed 49157) = .malformed .zeros 49176 := by decide
example : inboundFailure false (.decodeMalformed 49157) = .malformed .hashOfHopData 49157 := by decide

/-! ## non-vacuity (a toy stream/MAC, evaluated by the kernel) -/

-- a 3-hop route in a 130-byte packet: built, then peeled hop by hop, yields the three payloads
example : peelChain toy bigSizeFrame [7, 7] (toyHops.map Hop.keys)
    ((build toy [7, 7] (zeros 130) toyHops).getD ([], [])) = some (toyHops.map (·.payload)) := by
  set_option maxRecDepth 100000 in decide

-- the hypotheses of `peel_build` are satisfiable (and its conclusion then gives the same fact)
example : peelChain toy bigSizeFrame [7, 7] (toyHops.map Hop.keys) (packetAt toy [7, 7] (zeros 130) toyHops 0)
    = some (toyHops.map (·.payload)) :=
  (peel_build toy bigSizeFrame [7, 7] (zeros 130) toyHops (by decide)
    (by simp [toyHops, totalSize, Hop.size, zeros])
    (by
      intro h hh
      simp only [toyHops, List.mem_cons, List.mem_nil_iff, or_false] at hh
      rcases hh with rfl | rfl | rfl
      · exact bigSizeFrame_wellFramed 2 _ (by decide) rfl
      · exact bigSizeFrame_wellFramed 4 _ (by decide) rfl
      · exact bigSizeFrame_wellFramed 1 _ (by decide) rfl)
    (by
      intro i h0 h1
      have : i = 1 ∨ i = 2 := by simp [toyHops] at h1; omega
      rcases this with rfl | rfl <;> (set_option maxRecDepth 100000 in decide))).2.2

-- one more hop than fits is refused; a flipped bit / other payment hash is rejected with badHmac
example : build toy [7, 7] (zeros 105) toyHops = none := by
  rw [build_rejects_oversize]; right; simp [toyHops, totalSize, Hop.size, zeros]
example : (build toy [7, 7] (zeros 106) toyHops).isSome = true := by
  set_option maxRecDepth 100000 in decide
example : (match peel toy bigSizeFrame toyHops[0].keys [7, 8]
    ((build toy [7, 7] (zeros 130) toyHops).getD ([], [])).1
    ((build toy [7, 7] (zeros 130) toyHops).getD ([], [])).2 with
    | .error .badHmac => true | _ => false) = true := by
  set_option maxRecDepth 100000 in decide

-- a failure of the third hop, relayed by the first two, is attributed to hop 2 with its code and data;
-- `NoEarlyMatch` holds here
example : decodeFailure toy toyFailKeys
    (relayFailure toy (toyFailKeys.take 2) (buildFailure toy ⟨[5], [6, 6]⟩ 0x400f [1, 2, 3]))
    = .attributed 2 0x400f [1, 2, 3] := by
  set_option maxRecDepth 100000 in decide
example : NoEarlyMatch toy (toyFailKeys.take 2) (buildFailure toy ⟨[5], [6, 6]⟩ 0x400f [1, 2, 3]) := by
  refine ⟨?_, ?_, trivial⟩ <;> (set_option maxRecDepth 100000 in decide)
-- a packet from nowhere is unattributable
example : decodeFailure toy toyFailKeys (zeros 292) = .unattributable := by
  set_option maxRecDepth 100000 in decide

end Ldk.C14
