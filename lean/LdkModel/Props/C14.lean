/- C14 — Onions deliver exactly each hop's instructions; failures name the right hop.
   Property theorems only, over an ARBITRARY stream cipher / MAC (`OnionCrypto`), arbitrary packet
   length `L = noise.length`, arbitrary hop count, keys, payloads, associated data.
   The model (Model/Onion.lean) mirrors construct_onion_packet_with_init_noise / decode_next_hop /
   build_failure_packet / crypt_failure_packet / process_onion_failure_inner; the c14 correspondence
   runs the same definitions (instantiated with ChaCha20 / HMAC-SHA256) against the real code.
   Cryptographic facts appear only as explicit hypotheses (never axioms):
     * `hnz`  — the HMACs `build` puts in front of inner packets are not the all-zero string
                (the protocol reserves all-zero for "final"; a real HMAC hits it with probability 2⁻²⁵⁶);
     * `NoEarlyMatch` — no relaying hop's `um` HMAC verifies by accident on the packet it relayed;
     * collisions: accepting a modified packet is shown to EXHIBIT a MAC collision.
   Not covered here: ECDH / ephemeral-key blinding (shared secrets are inputs), payload contents
   (opaque, length-framed), attribution data / hold times (executable model in Model/Onion.lean,
   validated by the correspondence only). -/
import LdkModel.Proofs.Onion
namespace Ldk.C14
open Ldk Ldk.Onion

/-! ## building -/

/-- A route whose payloads (+32-byte HMAC each) exceed the packet is refused — as is an empty one —
    and nothing else is. -/
theorem build_rejects_oversize (C : OnionCrypto) (ad noise : Bytes) (hops : List Hop) :
    (build C ad noise hops = none ↔ (hops = [] ∨ totalSize hops > noise.length)) := by
  unfold build
  cases hops with
  | nil => simp
  | cons h t =>
    by_cases hs : totalSize (h :: t) > noise.length <;> simp [hs]

example : build ldk [] (zeros 100) [⟨[1], [2], zeros 40⟩, ⟨[3], [4], zeros 40⟩] = none := by
  rw [build_rejects_oversize]; right; decide

/-- Whatever is built has the packet length of the initial noise and a 32-byte HMAC. -/
theorem build_length (C : OnionCrypto) (ad noise : Bytes) (hops : List Hop) (d hm : Bytes)
    (hb : build C ad noise hops = some (d, hm)) : d.length = noise.length ∧ hm.length = 32 := by
  unfold build at hb
  split at hb
  · cases hb
  · split at hb
    · cases hb
    · rename_i hne hfit
      have hne' : hops ≠ [] := by intro h; simp [h] at hne
      have := wrapAll_tail C ad noise hops [] hne' (by simpa using Nat.le_of_not_gt hfit)
      simp only [Option.some.injEq] at hb
      have h2 := wrapAll_snd_length C ad noise (filler C noise.length hops) hops
      unfold filler at hb h2
      rw [hb] at this h2
      exact ⟨this.1, h2⟩

/-! ## peeling what was built -/

/-- **peel_build.** For every route of `n ≥ 1` hops that fits (`Σ (|pᵢ| + 32) ≤ L`), every key,
    payload (self-delimiting for the hop's reader), associated data and initial noise:
    `build` succeeds; the packet hop `i` receives has length `L`; hop `i`, peeling with its own
    keys, obtains exactly its payload `pᵢ`; every hop but the last forwards exactly the
    (hop_data, HMAC) pair `build` computed for the next hop — in particular a packet of length `L`
    again and the non-zero HMAC — and the last hop sees the all-zero HMAC (final).
    Consequently the whole chain of peels yields exactly the payload list. -/
theorem peel_build (C : OnionCrypto) (plen : Bytes → Option Nat) (ad noise : Bytes) (hops : List Hop)
    (hne : hops ≠ []) (hfit : totalSize hops ≤ noise.length)
    (hframe : ∀ h ∈ hops, WellFramed plen h.payload)
    (hnz : ∀ i, 0 < i → i < hops.length → (packetAt C ad noise hops i).2 ≠ zeros 32) :
    build C ad noise hops = some (packetAt C ad noise hops 0) ∧
    (∀ i (hi : i < hops.length),
      (packetAt C ad noise hops i).1.length = noise.length ∧
      peel C plen hops[i].keys ad (packetAt C ad noise hops i).1 (packetAt C ad noise hops i).2 =
        if i + 1 = hops.length then .ok (.final hops[i].payload)
        else .ok (.forward hops[i].payload (packetAt C ad noise hops (i + 1)).2
                    (packetAt C ad noise hops (i + 1)).1)) ∧
    peelChain C plen ad (hops.map Hop.keys) (packetAt C ad noise hops 0) = some (hops.map (·.payload)) := by
  refine ⟨?_, ?_, ?_⟩
  · have : ¬ totalSize hops > noise.length := by omega
    cases hops with
    | nil => exact absurd rfl hne
    | cons h t => simp [build, this, packetAt]
  · intro i hi
    constructor
    · rw [packetAt_eq C ad noise hops i hi]
      have hne' : hops.drop i ≠ [] := by simp [List.drop_eq_nil_iff]; omega
      have hsz : totalSize hops = totalSize (hops.take i) + totalSize (hops.drop i) := by
        rw [← totalSize_append, List.take_append_drop]
      exact (wrapAll_tail C ad noise (hops.drop i) _ hne'
        (by rw [foldl_fillerStep_length]; simp; omega)).1
    · rw [peel_packetAt C plen ad noise hops i hi hfit (hframe _ (List.getElem_mem hi))]
      by_cases hl : i + 1 = hops.length
      · simp [hl]
      · simp [hl, hnz (i + 1) (by omega) (by omega)]
  · have := peelChain_wrapAll C plen ad noise hops [] hne (by simpa using hfit) hframe
      (fun pre t hpre ht heq => by
        have hi := hnz pre.length
          (by cases pre with | nil => exact absurd rfl hpre | cons _ _ => simp)
          (by rw [← heq, List.length_append]; cases t with | nil => exact absurd rfl ht | cons _ _ => simp)
        have : hops.drop pre.length = t := by rw [← heq]; exact List.drop_left' rfl
        simpa [packetAt, this, filler] using hi)
    simpa [packetAt, filler] using this

/-- the same per-hop fact WITHOUT the cryptographic hypothesis `hnz`, as an exact case analysis:
    hop `i` always obtains exactly its payload; it forwards exactly the next packet `build` computed
    unless it is the last hop — or the next packet's HMAC happens to be the all-zero string, the one
    (2⁻²⁵⁶) event in which BOLT 4's "all-zero HMAC = final" convention misfires. -/
theorem peel_build_unconditional (C : OnionCrypto) (plen : Bytes → Option Nat) (ad noise : Bytes)
    (hops : List Hop) (i : Nat) (hi : i < hops.length) (hfit : totalSize hops ≤ noise.length)
    (hframe : WellFramed plen hops[i].payload) :
    peel C plen hops[i].keys ad (packetAt C ad noise hops i).1 (packetAt C ad noise hops i).2 =
      if i + 1 = hops.length ∨ (packetAt C ad noise hops (i + 1)).2 = zeros 32
      then .ok (.final hops[i].payload)
      else .ok (.forward hops[i].payload (packetAt C ad noise hops (i + 1)).2
                  (packetAt C ad noise hops (i + 1)).1) := by
  rw [peel_packetAt C plen ad noise hops i hi hfit hframe]
  by_cases h1 : i + 1 = hops.length
  · simp [h1]
  · by_cases h2 : (packetAt C ad noise hops (i + 1)).2 = zeros 32 <;> simp [h1, h2]

/-- the one-hop instance, free of the non-zero-HMAC hypothesis: a single hop always recognises
    itself as final and reads exactly its payload -/
theorem peel_build_one_hop (C : OnionCrypto) (plen : Bytes → Option Nat) (ad noise : Bytes) (h : Hop)
    (hfit : h.payload.length + 32 ≤ noise.length) (hframe : WellFramed plen h.payload) :
    ∃ d hm, build C ad noise [h] = some (d, hm) ∧ d.length = noise.length ∧
      peel C plen h.keys ad d hm = .ok (.final h.payload) := by
  have hfit' : totalSize [h] ≤ noise.length := by simpa [totalSize, Hop.size] using hfit
  have := peel_build C plen ad noise [h] (by simp) hfit'
    (by intro x hx; simp at hx; subst hx; exact hframe)
    (by intro i h0 h1; simp at h1; omega)
  obtain ⟨hb, hp, _⟩ := this
  have h0 := hp 0 (by simp)
  exact ⟨(packetAt C ad noise [h] 0).1, (packetAt C ad noise [h] 0).2, by simpa using hb, h0.1,
    by simpa using h0.2⟩

/-- BigSize-length-prefixed payloads shorter than 253 bytes (every `amt/cltv/scid` forwarding
    payload) are self-delimiting for LDK's reader -/
theorem bigSizeFrame_wellFramed (n : Nat) (body : Bytes) (hn : n < 0xfd) (hb : body.length = n) :
    WellFramed bigSizeFrame (UInt8.ofNat n :: body) := by
  intro rest
  have h1 : (UInt8.ofNat n).toNat = n := by simp; omega
  simp [bigSizeFrame, h1, hn, hb]; omega

/-- ... and so are the longer ones with the 3-byte `0xfd` BigSize prefix (253 … 65535 bytes: final-hop
    payloads with payment metadata / custom TLVs) -/
theorem bigSizeFrame_wellFramed_u16 (hi lo : UInt8) (body : Bytes)
    (hv : 0xfd ≤ hi.toNat * 256 + lo.toNat) (hb : body.length = hi.toNat * 256 + lo.toNat) :
    WellFramed bigSizeFrame (0xfd :: hi :: lo :: body) := by
  intro rest
  simp [bigSizeFrame, hb]
  omega

example : WellFramed bigSizeFrame (0xfd :: 1 :: 4 :: zeros 260) :=
  bigSizeFrame_wellFramed_u16 1 4 _ (by decide) (by simp)

/-! ## integrity -/

/-- **MAC first.** Anything `peel` accepts satisfies the HMAC equation under the hop's `mu` over
    hop_data ‖ associated data (payment hash); otherwise the answer is `badHmac` before any byte
    is decrypted or parsed. -/
theorem peel_checks_mac_first (C : OnionCrypto) (plen : Bytes → Option Nat) (k : HopKeys)
    (ad data hmac : Bytes) :
    (∀ r, peel C plen k ad data hmac = .ok r → hmac = hmacOf C k.mu data ad) ∧
    (hmac ≠ hmacOf C k.mu data ad → peel C plen k ad data hmac = .error .badHmac) ∧
    (∀ e, peel C plen k ad data hmac = .error e → e ≠ .badHmac → hmac = hmacOf C k.mu data ad) := by
  by_cases h : hmacOf C k.mu data ad = hmac
  · exact ⟨fun _ _ => h.symm, fun hne => absurd h.symm hne, fun _ _ _ => h.symm⟩
  · have : peel C plen k ad data hmac = .error .badHmac := by unfold peel; simp [h]
    refine ⟨fun r hr => (by rw [this] at hr; cases hr), fun _ => this, fun e he hne => ?_⟩
    rw [this] at he; cases he; exact absurd rfl hne

/-- **Any accepted modification is a MAC forgery.** Suppose a hop accepted `(hop_data, payment
    hash, hmac)`. If it does not answer `badHmac` to a packet that differs in hop_data (same
    length), in the associated payment hash or in the HMAC, then the modified packet carries a VALID
    tag under that hop's `mu` for a (message, tag) pair different from the one the sender produced —
    an existential forgery by a party that does not know `mu`. (A changed ephemeral key changes the
    shared secret and with it `mu`; `peel_checks_mac_first` then says the same for the other key.) -/
theorem peel_modified_is_forgery (C : OnionCrypto) (plen : Bytes → Option Nat) (k : HopKeys)
    (ad data hmac ad' data' hmac' : Bytes) (r : Peeled)
    (hok : peel C plen k ad data hmac = .ok r) (hlen : data'.length = data.length)
    (hmod : (data', ad', hmac') ≠ (data, ad, hmac))
    (hacc : peel C plen k ad' data' hmac' ≠ .error .badHmac) :
    hmac' = hmacOf C k.mu data' ad' ∧ hmac = hmacOf C k.mu data ad ∧
      (data' ++ ad', hmac') ≠ (data ++ ad, hmac) := by
  have h1 := (peel_checks_mac_first C plen k ad data hmac).1 r hok
  have h2 : hmac' = hmacOf C k.mu data' ad' := by
    apply Classical.byContradiction; intro hne
    exact hacc ((peel_checks_mac_first C plen k ad' data' hmac').2.1 hne)
  refine ⟨h2, h1, ?_⟩
  intro heq
  simp only [Prod.mk.injEq] at heq
  obtain ⟨hd, ha⟩ := List.append_inj heq.1 hlen
  exact hmod (by rw [hd, ha, heq.2])

/-- ... hence, if the MAC under that `mu` has no collisions (injective on its inputs), every
    change of hop_data or payment hash that keeps the HMAC is rejected with `badHmac`; and a changed
    HMAC on unchanged data is rejected unconditionally. -/
theorem peel_rejects_modified (C : OnionCrypto) (plen : Bytes → Option Nat) (k : HopKeys)
    (ad data hmac : Bytes) (r : Peeled) (hok : peel C plen k ad data hmac = .ok r) :
    (∀ hmac', hmac' ≠ hmac → peel C plen k ad data hmac' = .error .badHmac) ∧
    ((∀ m m', norm32 (C.mac k.mu m) = norm32 (C.mac k.mu m') → m = m') →
      ∀ ad' data', data'.length = data.length → (data', ad') ≠ (data, ad) →
        peel C plen k ad' data' hmac = .error .badHmac) := by
  have h1 := (peel_checks_mac_first C plen k ad data hmac).1 r hok
  constructor
  · intro hmac' hne
    exact (peel_checks_mac_first C plen k ad data hmac').2.1 (by rw [← h1]; exact hne)
  · intro hinj ad' data' hlen hmod
    apply (peel_checks_mac_first C plen k ad' data' hmac).2.1
    intro heq
    have := hinj _ _ (by simpa [hmacOf] using (h1.symm.trans heq))
    obtain ⟨hd, ha⟩ := List.append_inj this hlen.symm
    exact hmod (by rw [hd, ha])

/-! ## failures -/

/-- **failure_roundtrip.** For every path (hops `pre` before the failing hop, `fk` the failing hop,
    `post` after it — so every length `n = |pre| + 1 + |post|` and every failing position
    `k = |pre| < n`), every failure code (u16) and failure data (≤ 65533 bytes): the packet built by
    hop `k` (`build_failure_packet`) and re-wrapped by hops `k−1 … 0` (`crypt_failure_packet`) is
    decoded by the sender as coming from hop `k` with exactly the original code and data — provided
    no earlier hop's `um` HMAC verifies by accident on the packet that hop relayed (`NoEarlyMatch`,
    stated explicitly: `|pre|` MAC-forgery events). -/
theorem failure_roundtrip (C : OnionCrypto) (pre : List FailKeys) (fk : FailKeys) (post : List FailKeys)
    (code : Nat) (data : Bytes) (hc : code < 65536) (hd : data.length ≤ 65533)
    (hno : NoEarlyMatch C pre (buildFailure C fk code data)) :
    decodeFailure C (pre ++ fk :: post) (relayFailure C pre (buildFailure C fk code data)) =
      .attributed pre.length code data := by
  unfold decodeFailure
  have hlen : ¬ (relayFailure C pre (buildFailure C fk code data)).length < 32 := by
    simp [buildFailure, buildUnencryptedFailure]
  rw [if_neg hlen]
  unfold buildFailure at hno ⊢
  rw [decodeGo_relay C fk post _ (failMacOk_unencrypted C fk _ code data) pre 0 hno]
  rw [parseFailure_unencrypted C fk _ code _ data hc (by omega)
    (by simp [Ldk.DEFAULT_MIN_FAILURE_PACKET_LEN]; omega)]
  simp

/-- the first hop failing needs no hypothesis at all -/
theorem failure_roundtrip_first_hop (C : OnionCrypto) (fk : FailKeys) (post : List FailKeys)
    (code : Nat) (data : Bytes) (hc : code < 65536) (hd : data.length ≤ 65533) :
    decodeFailure C (fk :: post) (buildFailure C fk code data) = .attributed 0 code data := by
  simpa [relayFailure] using failure_roundtrip C [] fk post code data hc hd trivial

/-- **failure_foreign_rejected.** A packet on which no hop's HMAC verifies (after removing the
    layers of hops `0..j`, hop `j`'s `um` HMAC does not match, for every `j`) — e.g. one made or
    altered by someone who knows none of the `um` keys — is reported as unattributable, never as
    some hop. -/
theorem failure_foreign_rejected (C : OnionCrypto) (keys : List FailKeys) (pkt : Bytes)
    (h : ∀ j (hj : j < keys.length), failMacOk C keys[j] (unwrapped C keys pkt j) = false) :
    decodeFailure C keys pkt = .unattributable := by
  unfold decodeFailure
  split
  · rfl
  · rcases decodeGo_spec C keys 0 pkt with ⟨h1, _⟩ | ⟨j, hj, h1, _, _⟩
    · exact h1
    · rw [h j hj] at h1; cases h1

/-- ... and conversely, whenever the sender names a hop (attributed / unreadable / no code), that
    hop's `um` HMAC verified on the packet with layers `0..hop` removed, it is the FIRST hop for
    which this holds, and what is reported is the parse of exactly that authenticated packet. -/
theorem failure_attribution_sound (C : OnionCrypto) (keys : List FailKeys) (pkt : Bytes)
    (hne : decodeFailure C keys pkt ≠ .unattributable) :
    ∃ hop, ∃ hh : hop < keys.length,
      failMacOk C keys[hop] (unwrapped C keys pkt hop) = true ∧
      (∀ j (hj : j < keys.length), j < hop → failMacOk C keys[j] (unwrapped C keys pkt j) = false) ∧
      decodeFailure C keys pkt = parseFailure hop (unwrapped C keys pkt hop) := by
  unfold decodeFailure at hne ⊢
  split at hne
  · exact absurd rfl hne
  · rename_i hlen
    rw [if_neg hlen]
    rcases decodeGo_spec C keys 0 pkt with ⟨h1, _⟩ | ⟨j, hj, h1, h2, h3⟩
    · exact absurd h1 hne
    · exact ⟨j, hj, h1, h2, by simpa using h3⟩

/-! ## non-vacuity (a toy stream/MAC, evaluated by the kernel) -/

-- a 3-hop route in a 130-byte packet: built, then peeled hop by hop, yields the three payloads
example : peelChain toy bigSizeFrame [7, 7] (toyHops.map Hop.keys)
    ((build toy [7, 7] (zeros 130) toyHops).getD ([], [])) = some (toyHops.map (·.payload)) := by
  set_option maxRecDepth 100000 in decide

-- the hypotheses of `peel_build` are satisfiable (and its conclusion then gives the same fact)
example : peelChain toy bigSizeFrame [7, 7] (toyHops.map Hop.keys) (packetAt toy [7, 7] (zeros 130) toyHops 0)
    = some (toyHops.map (·.payload)) :=
  (peel_build toy bigSizeFrame [7, 7] (zeros 130) toyHops (by decide)
    (by simp [toyHops, totalSize, Hop.size, zeros])
    (by
      intro h hh
      simp only [toyHops, List.mem_cons, List.mem_nil_iff, or_false] at hh
      rcases hh with rfl | rfl | rfl
      · exact bigSizeFrame_wellFramed 2 _ (by decide) rfl
      · exact bigSizeFrame_wellFramed 4 _ (by decide) rfl
      · exact bigSizeFrame_wellFramed 1 _ (by decide) rfl)
    (by
      intro i h0 h1
      have : i = 1 ∨ i = 2 := by simp [toyHops] at h1; omega
      rcases this with rfl | rfl <;> (set_option maxRecDepth 100000 in decide))).2.2

-- one more hop than fits is refused; a flipped bit / other payment hash is rejected with badHmac
example : build toy [7, 7] (zeros 105) toyHops = none := by
  rw [build_rejects_oversize]; right; simp [toyHops, totalSize, Hop.size, zeros]
example : (build toy [7, 7] (zeros 106) toyHops).isSome = true := by
  set_option maxRecDepth 100000 in decide
example : (match peel toy bigSizeFrame toyHops[0].keys [7, 8]
    ((build toy [7, 7] (zeros 130) toyHops).getD ([], [])).1
    ((build toy [7, 7] (zeros 130) toyHops).getD ([], [])).2 with
    | .error .badHmac => true | _ => false) = true := by
  set_option maxRecDepth 100000 in decide

-- a failure of the third hop, relayed by the first two, is attributed to hop 2 with its code and data;
-- `NoEarlyMatch` holds here
example : decodeFailure toy toyFailKeys
    (relayFailure toy (toyFailKeys.take 2) (buildFailure toy ⟨[5], [6, 6]⟩ 0x400f [1, 2, 3]))
    = .attributed 2 0x400f [1, 2, 3] := by
  set_option maxRecDepth 100000 in decide
example : NoEarlyMatch toy (toyFailKeys.take 2) (buildFailure toy ⟨[5], [6, 6]⟩ 0x400f [1, 2, 3]) := by
  refine ⟨?_, ?_, trivial⟩ <;> (set_option maxRecDepth 100000 in decide)
-- a packet from nowhere is unattributable
example : decodeFailure toy toyFailKeys (zeros 292) = .unattributable := by
  set_option maxRecDepth 100000 in decide

end Ldk.C14
