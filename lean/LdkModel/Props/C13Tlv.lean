import LdkModel.Props.C13
import LdkModel.Generated.TlvLoop
import LdkModel.Proofs.TlvLoop
import LdkModel.Model.TlvProbe
/-!
  C13 — the TLV stream reader of every message with optional fields is the one util/ser_macros.rs / util/ser.rs state TODAY.

  `Generated/TlvLoop.lean` is re-translated on every check (tools/gen_tlv_loop.py) from `_decode_tlv_stream_range!` (ordering guard,
  unknown-type rule, known-field trailer; the statement order around them pinned as a skeleton), `_decode_tlv_stream_match_check!`,
  the `required` / `option` arms of `_check_decoded_tlv_order!` and `_check_missing_tlv!`, and `FixedLengthReader`
  (`bytes_remain`, `eat_remaining`, `read`).  `tlv_loop_is_source` identifies the loop built from those decisions with the
  hand-written `Codec.tlvLoop` for ALL schemas and byte strings, which ties every TLV theorem of Props/C13 to the current source; the
  `src_*` theorems restate the protocol rules directly over the translated reader.
-/
namespace Ldk.C13
open Ldk.Codec Ldk

/-- the TLV stream reader / the macro-generated message reader built from the decisions of the current source are
    `decodeTlvStream` / `Schema.decode`, for all schemas and all inputs -/
theorem tlv_loop_is_source :
    (∀ tlvs b, TlvSrc.decodeTlvStreamSrc tlvs b = decodeTlvStream tlvs b) ∧ (∀ (s : Schema) b, TlvSrc.schemaDecodeSrc s b = s.decode b) := by
  have h1 : ∀ tlvs b, TlvSrc.decodeTlvStreamSrc tlvs b = decodeTlvStream tlvs b :=
    fun tlvs b => TlvSrc.tlvLoopSrc_eq tlvs _ _ _ _
  refine ⟨h1, fun s b => ?_⟩
  unfold TlvSrc.schemaDecodeSrc Schema.decode
  cases decodeFixed s.fixed b with
  | error e => rfl
  | ok p =>
    obtain ⟨fx, r⟩ := p
    simp only [h1]
    cases decodeTlvStream s.tlvs r <;> rfl
example : TlvSrc.decodeTlvStreamSrc Gen.schema_ChannelReady.tlvs (rawEncode [(1, beEncode 8 5), (3, [9, 9])]) = .ok [(1, .nat 5)] := by decide

/-- what the translated decisions say, in plain terms: duplicates / non-ascending types are refused (`typ ≤ last`), an unknown type
    is refused iff even, a record belongs to the field of its exact type, a required type is "skipped" iff it lies strictly between the
    last seen type and the current one, "missing" iff it lies after the last seen type -/
theorem tlv_decisions_spec (last : Option Nat) (typ ty t : Nat) :
    (TlvSrc.orderBadO last typ = true ↔ ∃ l, last = some l ∧ typ ≤ l) ∧
    (TlvSrc.unknownEven t = true ↔ t % 2 = 0) ∧
    (TlvSrc.matchCheck typ ty = true ↔ typ = ty) ∧
    (TlvSrc.invalidOrder last.isNone (last.getD 0) typ ty = true ↔ (∀ l, last = some l → l < ty) ∧ ty < typ) ∧
    (TlvSrc.missingReq last.isNone (last.getD 0) ty = true ↔ ∀ l, last = some l → l < ty) := by
  cases last with
  | none => simp [TlvSrc.orderBadO, TlvSrc.unknownEven, TlvSrc.matchCheck, TlvSrc.invalidOrder, TlvSrc.missingReq]
  | some l => simp [TlvSrc.orderBadO, TlvSrc.orderBad, TlvSrc.unknownEven, TlvSrc.matchCheck, TlvSrc.invalidOrder, TlvSrc.missingReq]
example : TlvSrc.orderBadO (some 3) 3 = true ∧ TlvSrc.orderBadO (some 3) 4 = false ∧ TlvSrc.orderBadO none 0 = false := by decide

/-- `FixedLengthReader` never hands out more than the declared length nor more than the stream has, and a known record is accepted
    iff its field decoder consumed EXACTLY the declared length and the stream had that many bytes: trailing bytes inside a record ⇒
    InvalidValue, a record cut short ⇒ ShortRead ("never reads past the declared length") -/
theorem fixed_length_reader_exact (avail len remLen : Nat) (h : remLen ≤ min len avail) :
    TlvSrc.flrHandOut len avail = min len avail ∧
    (TlvSrc.flrKnownOutcome avail len remLen = none ↔ remLen = 0 ∧ len ≤ avail) ∧
    (TlvSrc.flrKnownOutcome avail len remLen = some .ShortRead ↔ avail < len) ∧
    (TlvSrc.flrKnownOutcome avail len remLen = some .InvalidValue ↔ len ≤ avail ∧ remLen ≠ 0) ∧
    (TlvSrc.flrSkipOutcome avail len = none ↔ len ≤ avail) := by
  rw [TlvSrc.flrKnownOutcome_eq _ _ _ h, TlvSrc.flrSkipOutcome_eq, TlvSrc.flrHandOut_eq]
  refine ⟨rfl, ?_, ?_, ?_, ?_⟩
  · by_cases h1 : remLen = 0 ∧ len ≤ avail
    · simp [h1]
    · by_cases h2 : avail < len <;> simp [h1, h2]
  · by_cases h1 : remLen = 0 ∧ len ≤ avail
    · simp [h1] <;> omega
    · by_cases h2 : avail < len <;> simp [h1, h2]
  · by_cases h1 : remLen = 0 ∧ len ≤ avail
    · simp [h1]
    · by_cases h2 : avail < len
      · simp [h1, h2] <;> omega
      · simp [h1, h2] <;> omega
  · by_cases h2 : avail < len
    · simp [h2]
    · simp [h2] <;> omega
example : TlvSrc.flrKnownOutcome 5 3 1 = some .InvalidValue ∧ TlvSrc.flrKnownOutcome 2 3 0 = some .ShortRead ∧ TlvSrc.flrKnownOutcome 5 3 0 = none := by decide

/-- over the TRANSLATED reader: a record of an unknown even type is refused wherever it stands -/
theorem src_unknown_even_rejected (tlvs : List TlvField) (r1 r2 : List (Nat × Bytes)) (t : Nat) (val : Bytes)
    (hf : Framed (r1 ++ (t, val) :: r2)) (heven : t % 2 = 0) (hunk : ∀ f ∈ tlvs, f.typ ≠ t) :
    ∃ e, TlvSrc.decodeTlvStreamSrc tlvs (rawEncode (r1 ++ (t, val) :: r2)) = .error e := by
  rw [tlv_loop_is_source.1]; exact unknown_even_rejected tlvs r1 r2 t val hf heven hunk
example : TlvSrc.decodeTlvStreamSrc Gen.schema_ChannelReady.tlvs (rawEncode [(1, beEncode 8 5), (4, [9])]) = .error .UnknownRequiredFeature := by decide

/-- over the TRANSLATED reader: a record of an unknown odd type is skipped — removing it changes nothing, value or error -/
theorem src_unknown_odd_ignored (tlvs : List TlvField) (r1 r2 : List (Nat × Bytes)) (t : Nat) (val : Bytes)
    (hf : Framed (r1 ++ (t, val) :: r2)) (hodd : t % 2 = 1) (hunk : ∀ f ∈ tlvs, f.typ ≠ t)
    (h1 : ∀ p ∈ r1, p.1 < t) (h2 : ∀ p ∈ r2, t < p.1) :
    TlvSrc.decodeTlvStreamSrc tlvs (rawEncode (r1 ++ (t, val) :: r2)) = TlvSrc.decodeTlvStreamSrc tlvs (rawEncode (r1 ++ r2)) := by
  rw [tlv_loop_is_source.1, tlv_loop_is_source.1]; exact unknown_odd_ignored tlvs r1 r2 t val hf hodd hunk h1 h2
example : TlvSrc.decodeTlvStreamSrc Gen.schema_ChannelReady.tlvs (rawEncode [(1, beEncode 8 5), (3, [9, 9])]) =
    TlvSrc.decodeTlvStreamSrc Gen.schema_ChannelReady.tlvs (rawEncode [(1, beEncode 8 5)]) := by decide

/-- over the TRANSLATED reader: duplicates and non-ascending types are refused wherever they stand -/
theorem src_out_of_order_rejected (tlvs : List TlvField) (r1 r2 : List (Nat × Bytes)) (t1 t2 : Nat) (v1 v2 : Bytes)
    (hf : Framed (r1 ++ (t1, v1) :: (t2, v2) :: r2)) (hle : t2 ≤ t1) :
    ∃ e, TlvSrc.decodeTlvStreamSrc tlvs (rawEncode (r1 ++ (t1, v1) :: (t2, v2) :: r2)) = .error e := by
  rw [tlv_loop_is_source.1]; exact out_of_order_rejected tlvs r1 r2 t1 t2 v1 v2 hf hle
example : TlvSrc.decodeTlvStreamSrc Gen.schema_ChannelReestablish.tlvs (rawEncode [(3, [1]), (3, [1])]) = .error .InvalidValue := by decide

/-- over the TRANSLATED reader: the loop is total by construction and the out-of-fuel answer is never taken — any larger fuel
    gives the same result -/
theorem src_decode_total (tlvs : List TlvField) (b : Bytes) (k : Nat) :
    TlvSrc.decodeTlvStreamSrc tlvs b = TlvSrc.tlvLoopSrc tlvs (b.length + 1 + k) none [] b := by
  rw [tlv_loop_is_source.1, TlvSrc.tlvLoopSrc_eq]; exact decode_total tlvs b k
example : TlvSrc.decodeTlvStreamSrc [] [0xfd] = .error .ShortRead := by decide

/-- the probe schema with required TLVs (differential op `tlvp`, the real `decode_tlv_stream!` expanded on the same field list) is
    well formed, so every generic theorem (round trip, decode_valid, truncation, unknown even / odd, ordering) applies to it; a stream
    without one of its required types is refused -/
theorem tlv_probe_schema_wf : tlvProbeSchema.wf = true ∧ tlvProbeSchema.tlvs.any (·.kind == .required) = true := by decide
example : TlvSrc.schemaDecodeSrc tlvProbeSchema (rawEncode [(2, beEncode 8 7), (3, beEncode 4 1)]) = .error .InvalidValue ∧
    TlvSrc.schemaDecodeSrc tlvProbeSchema (rawEncode [(3, beEncode 4 1), (6, [0, 1])]) = .error .InvalidValue ∧
    (TlvSrc.schemaDecodeSrc tlvProbeSchema (rawEncode [(2, beEncode 8 7), (6, [0, 1])])).isOk = true := by decide

/-- the TLV WRITER of the current source (`_encode_tlv!` required / option arms, `_encode_tlv_stream!` declaration order) is
    `encodeTlvs`, and its debug-build order check passes exactly on strictly increasing declared types -/
theorem tlv_writer_is_source :
    (∀ tlvs vals, TlvSrc.encodeTlvStreamSrc tlvs vals = encodeTlvs tlvs vals) ∧
    (∀ tys, TlvSrc.encOrderCheck none tys = strictInc tys) :=
  ⟨TlvSrc.encodeTlvStreamSrc_eq, fun tys => TlvSrc.encOrderCheck_eq none tys⟩
example : TlvSrc.encodeTlvStreamSrc tlvProbeSchema.tlvs [some (.nat 7), none, some (.nat 1), none] =
    [2, 8, 0, 0, 0, 0, 0, 0, 0, 7, 6, 2, 0, 1] := by decide

/-- round trip of the MACRO pair, independent of any message: for every field list with strictly increasing types and every value
    list it can hold (option present or absent, required present), the translated `decode_tlv_stream!` reads back exactly what the
    translated `encode_tlv_stream!` wrote -/
theorem src_tlv_macro_roundtrip (tlvs : List TlvField) (vals : List (Option Val))
    (hs : strictInc (tlvs.map (·.typ)) = true) (hwf : ∀ f ∈ tlvs, f.ty.wf = true ∧ f.typ < 2 ^ 64)
    (hv : validTlvs tlvs vals = true) :
    (TlvSrc.decodeTlvStreamSrc tlvs (TlvSrc.encodeTlvStreamSrc tlvs vals)).map (fun acc => tlvs.map fun f => acc.lookup f.typ) = .ok vals := by
  rw [tlv_writer_is_source.1, tlv_loop_is_source.1]; exact tlv_stream_roundtrip tlvs vals hs hwf hv
example : (TlvSrc.decodeTlvStreamSrc tlvProbeSchema.tlvs (TlvSrc.encodeTlvStreamSrc tlvProbeSchema.tlvs [some (.nat 7), some (.nat 3), some (.nat 1), none])).map
    (fun acc => tlvProbeSchema.tlvs.map fun f => acc.lookup f.typ) = .ok [some (.nat 7), some (.nat 3), some (.nat 1), none] := by decide

/-- `ReadTrackingReader` as the source states it today (`new`, `read`, both translated): `have_read` holds iff SOME read handed out at
    least one byte, whatever the sequence of reads; the TLV loop's end-of-stream test `!tracking_reader.have_read` (translated) therefore
    fires iff not a single byte of the next type was there, and the `WithoutLength<Vec<T>>` guard (translated) iff the element reader
    failed with ShortRead before its first byte -/
theorem read_tracking_spec (lens : List Nat) (b : Bytes) (isshort hread : Bool) :
    (TlvSrc.rtrHaveRead lens = true ↔ ∃ l ∈ lens, l ≠ 0) ∧
    (TlvSrc.typeEofBreak (TlvSrc.rtrHaveRead (TlvSrc.bigFirstRead b)) = true ↔ b = []) ∧
    (TlvSrc.wlVecBreak isshort hread = true ↔ isshort = true ∧ hread = false) := by
  refine ⟨?_, ?_, ?_⟩
  · rw [TlvSrc.rtrHaveRead_eq]; simp
  · rw [TlvSrc.typeEofBreak_eq]; exact List.isEmpty_iff
  · cases isshort <;> cases hread <;> simp [TlvSrc.wlVecBreak]
example : TlvSrc.rtrHaveRead [0, 0] = false ∧ TlvSrc.rtrHaveRead [0, 2, 0] = true ∧ TlvSrc.typeEofBreak (TlvSrc.rtrHaveRead (TlvSrc.bigFirstRead [0xfd])) = false := by decide

/-- over the TRANSLATED reader: the stream ends cleanly ONLY between records — on the empty rest the result is decided by the
    missing-required test alone (never ShortRead), and a rest that holds some but not all bytes of the next type is ShortRead -/
theorem src_eof_only_between_records (tlvs : List TlvField) (b : Bytes) :
    (TlvSrc.decodeTlvStreamSrc tlvs [] = if reqMissing tlvs none then .error .InvalidValue else .ok []) ∧
    (b ≠ [] → BigSize.decode b = .error .ShortRead → TlvSrc.decodeTlvStreamSrc tlvs b = .error .ShortRead) := by
  rw [tlv_loop_is_source.1, tlv_loop_is_source.1]
  refine ⟨by first | rfl | simp [decodeTlvStream, tlvLoop], fun hb hd => ?_⟩
  have hne : b.isEmpty = false := by cases b with | nil => exact absurd rfl hb | cons _ _ => rfl
  unfold decodeTlvStream tlvLoop
  simp [hne, hd]
example : TlvSrc.decodeTlvStreamSrc tlvProbeSchema.tlvs [] = .error .InvalidValue ∧ TlvSrc.decodeTlvStreamSrc [] [] = .ok [] ∧
    TlvSrc.decodeTlvStreamSrc [] [0xfd, 1] = .error .ShortRead := by decide

/-- over the TRANSLATED reader: ALL cut points of a valid encoding of any well-formed schema — a prefix either ends at a record
    boundary (accepted with the later optional records absent, InvalidValue iff a required record was cut off, never ShortRead) or is
    ShortRead; nothing else -/
theorem src_truncation_classified (s : Schema) (v : MsgVal) (hwf : s.wf = true) (hv : v.valid s = true) (p q : Bytes)
    (h : s.encode v = p ++ q) :
    (TlvSrc.schemaDecodeSrc s p = .error .ShortRead ∧ ¬ ∃ k, p = boundaryCut s v k) ∨
    ∃ k, p = boundaryCut s v k ∧
      TlvSrc.schemaDecodeSrc s p = if reqDropped s.tlvs v.tlvs k then .error .InvalidValue else .ok ⟨v.fixed, maskAfter k v.tlvs⟩ := by
  rw [tlv_loop_is_source.2]; exact truncation_classified s v hwf hv p q h
example : TlvSrc.schemaDecodeSrc Gen.schema_StartBatch (List.replicate 32 7 ++ [0, 3, 1]) = .error .ShortRead ∧
    (TlvSrc.schemaDecodeSrc Gen.schema_StartBatch (List.replicate 32 7 ++ [0, 3])).isOk = true := by decide

/-- the read-to-end vector reader of the current source (`impl LengthReadable for WithoutLength<Vec<T>>`: loop skeleton matched, break
    guard and `ReadTrackingReader` translated) over `n`-byte elements IS the model's `FieldTy.chunks n` decoder: the record is accepted
    iff it holds a whole number of elements, the elements are its bytes in order, nothing is left unread, and a partial last element is
    the element reader's ShortRead — for all n > 0 and all byte strings -/
theorem without_length_vec_is_source (n : Nat) (hn : 0 < n) (b : Bytes) (k : Nat) :
    (TlvSrc.wlVecLoopSrc n (b.length + 1 + k) [] b).map (fun l => (TlvSrc.bytesVec l, ([] : Bytes))) = (FieldTy.chunks n).decode b := by
  rw [TlvSrc.wlVecLoopSrc_eq n hn (b.length + 1 + k) [] b (by omega)]
  simp only [FieldTy.decode]
  by_cases hz : b.length % n = 0
  · rw [if_pos hz, if_pos hz]; simp [Except.map, TlvSrc.bytesVec_chunkList]
  · rw [if_neg hz, if_neg hz]; rfl
example : TlvSrc.wlVecLoopSrc 2 9 [] [1, 2, 3, 4] = .ok [[1, 2], [3, 4]] ∧ TlvSrc.wlVecLoopSrc 2 9 [] [1, 2, 3] = .error .ShortRead ∧
    TlvSrc.wlVecLoopSrc 2 9 [] [] = .ok [] := by decide

end Ldk.C13
