/- C01 / C05 — the two-party commitment update protocol (Model/Channel.lean): counters, balance
   conservation, and the headline: both peers always agree on every commitment.

   Every theorem quantifies over ALL event lists: every interleaving of the two FIFO streams, every
   sequence of adds / fulfils / fails, every delay between building, releasing and delivering, and
   DISCONNECTIONS AND RECONNECTIONS AT ANY POINT (`Ev.disconnect`: everything on the wire is lost, both nodes
   run `remove_uncommitted_htlcs_and_mark_paused`; `Ev.reest y`: y processes the peer's
   `channel_reestablish` and schedules its retransmissions in `resend_order`).

   FINDING.  The model's `step` admits runs in which agreement FAILS (`agreement_fails_*` below, checked
   by `decide`).  Two enabling conditions of the real node are missing from `step`:
     (G1) `sendRaa x` while a built batch is still held back (`pend ≠ []`) is only allowed if that batch
          was built while this revoke_and_ack was already owed (`raaSent < needRaa`); a batch built BEFORE
          the peer's commitment_signed arrived must go out first (channel.rs: `commitment_signed` sets
          `resend_order = CommitmentFirst`, `build_commitment_no_status_check` sets `RevokeAndACKFirst`);
     (G2) new HTLCs must be covered by the sender's balance net of its pending outbound HTLCs that still
          count against it — `liveSum`: every outbound HTLC except FAILED removals already signed away
          (AwaitingRemoteRevokeToRemove(Failure) / AwaitingRemovedRemoteRevoke(Failure): in no commitment,
          never subtracted) — as `send_htlc` → `get_available_balances` guarantees; otherwise
          `value_to_self` underflows (truncated subtraction in the model) and the balances drift apart;
   and the proof additionally uses
     (G3) a batch removes each HTLC at most once (`(fulfills ++ fails).Nodup`).  No violation WITHOUT (G3)
          was found by exhaustive search (1.2 M states, duplicates allowed): a duplicate removal only
          blocks the receiving peer; (G3) is a limitation of the proof, not a known necessity.
     (G4) (update_fee, section 5c) an `update_fee` is processed only once the receiver's previous inbound fee
          update has left AwaitingRemoteRevokeToAnnounce: `update_fee` OVERWRITES `pending_update_fee`, and
          the real node never rests in that state unless it awaits a revoke_and_ack (`commitment_signed`
          sets `need_commitment` and builds the next commitment at once — which promotes the update), in
          which case FIFO delivers that revoke_and_ack before the funder's next update_fee.  Without (G4)
          the feerates of the two views can differ (`fee_agreement_fails_lazy_commit`).
   `Chan.evOk` states (G1)–(G4); `Chan.stepG` = `step` restricted to `evOk`; `Chan.runG` runs it.  Every
   guarded run is a run (`guarded_refines`).  Theorems that need the guards are named `…_partial`.

   UPDATE_FEE is part of the model: `Ev.fee x f` (the funder `x` decides on feerate `f`; enabled as
   `send_update_fee` is: `x` is the funder, connected, not AwaitingRemoteRevoke, nothing built and unsent,
   no fee update of its own pending — otherwise the real node parks the update in the holding cell), the
   `update_fee` leaves with the next batch, is retransmitted with it after a reconnection, and every
   commitment carries the feerate that the `pending_update_fee` arm of build_commitment_transaction selects.
   The affordability test of `can_send_update_fee` has no counterpart here (the model's balances are the
   pre-fee `value_to_self_msat`; nothing in the model is truncated by a fee): it is Props/C01Fee.lean.
   All theorems below quantify over runs WITH fee updates at any enabled point; `f0` is the opening feerate.

   Proof architecture (Proofs/Channel/*.lean): each HTLC is viewed jointly — offerer state, receiver
   state, the tokens of the two FIFO streams that concern it (in flight ++ held back ++ owed), the two
   AwaitingRemoteRevoke flags.  While a node is disconnected its stream is what it WILL retransmit (computed
   from the two nodes' commitment numbers as `channel_reestablish` does), so `reest` changes no stream and a
   disconnection acts by the abstract move `mDisc`; `Base.i7` proves that a retransmission repeats the
   original order of revoke_and_ack and commitment_signed.  Under (G1) the full stream is an append-only
   FIFO, every protocol step is one of eight abstract moves on every HTLC's configuration, and the 106
   reachable configurations (the same set with or without disconnections) are
   closed under the moves (`good_closed`, by `decide` through the GENERATED tables: flipping an entry of
   `included_in_commitment` or of a state rewrite breaks it).  Agreement and the balance identities are
   per-configuration facts (`good_okI`, `good_okO`, `good_balI`, `good_balO`, …, by `decide`). -/
import LdkModel.Proofs.Channel
namespace Ldk.ChanProto
open Ldk.Chan

/-! ### 1. counters (commitment NUMBERS: retransmissions never bump them) -/

/-- every event changes each "commitments signed" counter by exactly its own contribution -/
theorem counters_step_by_one (s s' : Sys) (e : Ev) (h : step s e = some s') :
    s'.a.csSent = s.a.csSent + (if isCommit true e then 1 else 0) ∧
    s'.b.csSent = s.b.csSent + (if isCommit false e then 1 else 0) :=
  step_event_counts h

example : step (Sys.init 10 10) (.commit true [3] [] []) ≠ none := by decide

/-- In every run (with disconnections): `csSent` counts the `commit` events — a retransmission after a
    reconnection is not a new commitment; a commitment_signed on the wire or held back has been signed and not
    yet processed, likewise a revoke_and_ack on the wire; hence the chain
    `raaRecv ≤ peer.raaSent ≤ peer.csRecv ≤ csSent` in both directions. -/
theorem counters (va vb f0 : Nat) (evs : List Ev) (s : Sys) (h : run (Sys.init va vb f0) evs = some s) :
    s.a.csSent = evs.countP (isCommit true) ∧ s.b.csSent = evs.countP (isCommit false) ∧
    s.b.csRecv + countCs (s.qab ++ s.pendA) ≤ s.a.csSent ∧ s.a.csRecv + countCs (s.qba ++ s.pendB) ≤ s.b.csSent ∧
    s.a.raaRecv + countRaa s.qba ≤ s.b.raaSent ∧ s.b.raaRecv + countRaa s.qab ≤ s.a.raaSent ∧
    (s.a.raaRecv ≤ s.b.raaSent ∧ s.b.raaSent ≤ s.b.csRecv ∧ s.b.csRecv ≤ s.a.csSent) ∧
    (s.b.raaRecv ≤ s.a.raaSent ∧ s.a.raaSent ≤ s.a.csRecv ∧ s.a.csRecv ≤ s.b.csSent) := by
  obtain ⟨c1, c3⟩ := run_event_counts evs _ s h
  obtain ⟨ca, cb⟩ := Cnt.run evs _ s (Cnt.init va vb f0) h
  have a1 := ca.k1; have a2 := ca.k2; have a4 := ca.k4
  have b1 : s.a.csRecv + countCs (s.qba ++ s.pendB) ≤ s.b.csSent := cb.k1
  have b2 : s.b.raaRecv + countRaa s.qab ≤ s.a.raaSent := cb.k2
  have b4 : s.b.raaSent + s.b.owesRaa = s.b.csRecv := cb.k4
  refine ⟨by simpa [Sys.init, Node.init] using c1, by simpa [Sys.init, Node.init] using c3, a1, b1, a2, b2, ?_, ?_⟩
  · omega
  · omega

example : run (Sys.init 10 10) [.commit true [3] [] [], .release true, .recv false, .disconnect, .reest true, .reest false,
    .release true, .recv false, .recv false, .sendRaa false, .recv true] ≠ none := by
  decide

/-! ### 2. at most one unrevoked commitment -/

/-- A node never signs a new counterparty commitment while an earlier one is unrevoked — across
    disconnections too — and AwaitingRemoteRevoke is set exactly while one is outstanding. -/
theorem at_most_one_outstanding (va vb f0 : Nat) (evs : List Ev) (s : Sys) (h : run (Sys.init va vb f0) evs = some s) :
    s.a.csSent ≤ s.a.raaRecv + 1 ∧ s.b.csSent ≤ s.b.raaRecv + 1 ∧
    (s.a.awaitingRaa = true ↔ s.a.csSent = s.a.raaRecv + 1) ∧
    (s.b.awaitingRaa = true ↔ s.b.csSent = s.b.raaRecv + 1) := by
  obtain ⟨ca, cb⟩ := Cnt.run evs _ s (Cnt.init va vb f0) h
  have a3 := ca.k3
  have b3 : s.b.csSent = s.b.raaRecv + (if s.b.awaitingRaa then 1 else 0) := cb.k3
  refine ⟨?_, ?_, ?_, ?_⟩
  · split at a3 <;> omega
  · split at b3 <;> omega
  · cases hw : s.a.awaitingRaa <;> simp [hw] at a3 ⊢ <;> omega
  · cases hw : s.b.awaitingRaa <;> simp [hw] at b3 ⊢ <;> omega

-- a second commit before the revoke_and_ack is not a run, also not after a reconnection
example : run (Sys.init 10 10) [.commit true [3] [] [], .release true, .commit true [] [] []] = none := by decide
example : run (Sys.init 10 10) [.commit true [3] [] [], .release true, .disconnect, .reest true, .commit true [] [] []] = none := by
  decide

/-! ### 3. a revocation is released only for a processed commitment_signed -/

/-- also after a reconnection: `reest` re-owes exactly the revocations the peer has not seen -/
theorem raa_only_after_cs (va vb f0 : Nat) (evs : List Ev) (s : Sys) (h : run (Sys.init va vb f0) evs = some s) :
    s.a.raaSent + s.a.owesRaa = s.a.csRecv ∧ s.b.raaSent + s.b.owesRaa = s.b.csRecv := by
  obtain ⟨ca, cb⟩ := Cnt.run evs _ s (Cnt.init va vb f0) h
  exact ⟨ca.k4, cb.k4⟩

example : run (Sys.init 10 10) [.sendRaa true] = none := by decide

/-- Non-vacuity: adds in both directions (crossing commitments), a fulfil and a fail in one batch, a
    fulfil the other way, interleaved deliveries; the run is a guarded run, ends quiescent, agreed, with
    the fulfilled amounts moved (300 a→b, 50 b→a; the failed 200 returned). -/
def goodRun : List Ev := [
  .commit true [300, 200] [] [], .commit false [50] [] [], .release true, .release false,
  .recv false, .recv false, .recv false, .recv true, .recv true,
  .sendRaa false, .sendRaa true, .recv true, .recv false,
  .commit true [] [] [], .commit false [] [] [], .release false, .release true,
  .recv true, .recv false, .sendRaa true, .sendRaa false, .recv false, .recv true,
  .commit false [] [0] [1], .release false, .recv true, .recv true, .recv true, .sendRaa true,
  .commit true [] [0] [], .release true,
  .recv false, .recv false, .recv false, .sendRaa false, .recv true,
  .commit false [] [] [], .release false, .recv true, .sendRaa true, .recv false,
  .commit true [] [] [], .release true, .recv false, .sendRaa false, .recv true ]

/-! ### the guarded protocol refines the model -/

/-- a guarded run is a run of the model with the same final state (the guards only remove runs) -/
theorem guarded_refines (s s' : Sys) (evs : List Ev) (h : runG s evs = some s') : run s evs = some s' :=
  run_of_runG evs s s' h

example : (runG (Sys.init 1000 1000) goodRun).isSome = true := by decide

/-! ### 4. balance conservation -/

/-- The general invariant (guarded runs): the two settled balances add up to the channel value plus the
    amounts of fulfilled HTLCs that the receiver has already credited and the offerer not yet debited
    (`excess`: offerer state AwaitingRemoteRevokeToRemove(Success) / AwaitingRemovedRemoteRevoke(Success),
    receiver copy gone); and each node's live outbound HTLCs (`liveSum`: all but failed removals already
    signed away) are covered by its balance — so no subtraction of the model ever truncates.
    Partial: needs the guards (G1)–(G3); without (G2) it is false (`agreement_fails_overdraw`). -/
theorem balance_conservation_partial (va vb f0 : Nat) (evs : List Ev) (s : Sys)
    (h : runG (Sys.init va vb f0) evs = some s) :
    s.a.valueToSelf + s.b.valueToSelf = s.total + excess s.a s.b + excess s.b s.a ∧
    liveSum s.a ≤ s.a.valueToSelf ∧ liveSum s.b ≤ s.b.valueToSelf ∧
    s.total = va + vb := by
  have inv := Inv.run h
  have ht : s.total = va + vb := by
    have : ∀ (evs : List Ev) (s s' : Sys), runG s evs = some s' → s'.total = s.total := by
      intro evs
      induction evs with
      | nil => intro s s' h; simp only [runG] at h; injection h with h; rw [h]
      | cons e es ih =>
        intro s s' h
        simp only [runG] at h
        cases hs : stepG s e with
        | none => simp [hs] at h
        | some s1 =>
          rw [hs] at h
          rw [ih s1 s' h]
          obtain ⟨_, h0⟩ := stepG_some hs
          cases e with
          | commit x adds fu fa =>
            cases x
            · obtain ⟨_, _, n, ms, _, e⟩ := step_commit_false h0; subst e; rfl
            · obtain ⟨_, _, n, ms, _, e⟩ := step_commit_true h0; subst e; rfl
          | release x =>
            cases x
            · obtain ⟨_, _, _, e⟩ := step_release_false h0; subst e; rfl
            · obtain ⟨_, _, _, e⟩ := step_release_true h0; subst e; rfl
          | sendRaa x =>
            cases x
            · obtain ⟨_, _, e⟩ := step_sendRaa_false h0; subst e; rfl
            · obtain ⟨_, _, e⟩ := step_sendRaa_true h0; subst e; rfl
          | recv y =>
            cases y
            · obtain ⟨_, _, _, _, _, _, _, e⟩ := step_recv_false h0; subst e; rfl
            · obtain ⟨_, _, _, _, _, _, _, e⟩ := step_recv_true h0; subst e; rfl
          | disconnect => have e := step_disconnect h0; subst e; rfl
          | reest y =>
            cases y
            · obtain ⟨_, _, _, e⟩ := step_reest_false h0; subst e; rfl
            · obtain ⟨_, _, _, e⟩ := step_reest_true h0; subst e; rfl
          | fee x f =>
            cases x
            · obtain ⟨_, _, _, _, _, e⟩ := step_fee_false h0; subst e; rfl
            · obtain ⟨_, _, _, _, _, e⟩ := step_fee_true h0; subst e; rfl
    exact this evs _ s h
  have e1 := EA_explicit s inv.base.ok
  have e2 : EA s.swap = excess s.b s.a := EA_explicit s.swap inv.base'.ok
  refine ⟨?_, inv.bal.fa, inv.bal.fb, ht⟩
  rw [← e1, ← e2]; exact inv.bal.cons

-- in the middle of `goodRun`: b has credited the fulfilled 300, a has not yet debited them
example : (runG (Sys.init 1000 1000) (goodRun.take 32)).map (fun s =>
    (s.a.valueToSelf, s.b.valueToSelf, excess s.a s.b, excess s.b s.a)) = some (1000, 1300, 300, 0) := by decide

/-- Quiescent form: with no HTLC pending anywhere the two balances partition the channel value. -/
theorem balance_quiescent_partial (va vb f0 : Nat) (evs : List Ev) (s : Sys)
    (h : runG (Sys.init va vb f0) evs = some s)
    (hq : s.a.inb = [] ∧ s.a.outb = [] ∧ s.b.inb = [] ∧ s.b.outb = []) :
    s.a.valueToSelf + s.b.valueToSelf = va + vb := by
  obtain ⟨h1, _, _, ht⟩ := balance_conservation_partial va vb f0 evs s h
  have z1 : excess s.a s.b = 0 := by simp [excess, hq.2.1]
  have z2 : excess s.b s.a = 0 := by simp [excess, hq.2.2.2]
  omega

/-! ### 5. the headline: agreement -/

/-- In every guarded protocol run (fee updates included), every `commitment_signed` that is processed carries
    exactly the HTLC set (ids, amounts, directions) and the balance the receiver computes for its own
    transaction; the feerate is `fee_agreement_partial`.
    Partial: needs the guards (G1)–(G3); without (G1) or (G2) it is false (counter-examples below). -/
theorem agreement_partial (va vb f0 : Nat) (evs : List Ev) (s : Sys) (h : runG (Sys.init va vb f0) evs = some s) :
    s.agreed = true :=
  (Inv.run h).agreed

/-- The joint invariant behind it, for reuse: in every reachable state of the guarded protocol every HTLC
    id has one of the 106 good joint configurations (both families), every commitment_signed still
    undelivered equals its signer's current signing view, and the two copies of an HTLC carry the same amount. -/
theorem joint_invariant_partial (va vb f0 : Nat) (evs : List Ev) (s : Sys) (h : runG (Sys.init va vb f0) evs = some s) :
    (∀ id, good (cfgA s id) = true) ∧ (∀ id, good (cfgA s.swap id) = true) ∧
    (∀ c, Msg.cs c ∈ s.fullAB → c = s.a.buildView false true) ∧
    (∀ c, Msg.cs c ∈ s.fullBA → c = s.b.buildView false true) ∧
    (∀ x ∈ s.a.outb, ∀ y ∈ s.b.inb, x.id = y.id → x.amt = y.amt) ∧
    (∀ x ∈ s.b.outb, ∀ y ∈ s.a.inb, x.id = y.id → x.amt = y.amt) := by
  have inv := Inv.run h
  exact ⟨inv.good, inv.good', inv.view, inv.view', inv.amt.a1, inv.amt'.a1⟩

/-- COUNTER-EXAMPLE without (G1): `b` builds a (here empty) batch before `a`'s commitment_signed arrives,
    then sends the revoke_and_ack for it BEFORE releasing the older batch: `a` has already promoted its
    HTLC to Committed when the older commitment_signed — which does not contain it — arrives. -/
def cexRaaOrder : List Ev :=
  [.commit true [1] [] [], .release true, .recv false, .commit false [] [] [], .recv false,
   .sendRaa false, .release false, .recv true, .recv true]

theorem agreement_fails_raa_order :
    (run (Sys.init 1000 1000) cexRaaOrder).map (·.agreed) = some false ∧ runG (Sys.init 1000 1000) cexRaaOrder = none := by
  decide

/-- COUNTER-EXAMPLE without (G2): `a` (balance 0) offers 5 msat; once fulfilled its `value_to_self` cannot
    go below 0, the two views' balances no longer add up to the channel value. -/
def cexOverdraw : List Ev :=
  [.commit true [5] [] [], .release true, .recv false, .recv false, .sendRaa false, .recv true,
   .commit false [] [] [], .release false, .recv true, .sendRaa true, .recv false,
   .commit false [] [0] [], .release false, .recv true, .recv true]

theorem agreement_fails_overdraw :
    (run (Sys.init 0 10) cexOverdraw).map (·.agreed) = some false ∧ runG (Sys.init 0 10) cexOverdraw = none := by
  decide

-- the run `goodRun` (defined above) is a guarded run, ends quiescent and agreed, with the fulfilled amounts moved
example : (runG (Sys.init 1000 1000) goodRun).map (fun s =>
    s.agreed && s.qab.isEmpty && s.qba.isEmpty && s.pendA.isEmpty && s.pendB.isEmpty &&
    s.a.inb.isEmpty && s.a.outb.isEmpty && s.b.inb.isEmpty && s.b.outb.isEmpty &&
    s.a.valueToSelf == 750 && s.b.valueToSelf == 1250) = some true := by decide

/-! ### 5b. disconnection and reestablish -/

/-- Exact accounting on the full streams, in every reachable state of the guarded protocol, connected or
    not: every commitment_signed `a` signed has been processed by `b` or is in the a→b stream — on the wire,
    held back, or (while `a` is disconnected) due for retransmission; every commitment_signed `a` processed
    has been revoked towards `b` or its revoke_and_ack is in / owed to / due for retransmission in that stream.
    Symmetric for `b`.  (`counters`, unguarded, has the `≤` forms on the wire queues.) -/
theorem stream_accounting_partial (va vb f0 : Nat) (evs : List Ev) (s : Sys) (h : runG (Sys.init va vb f0) evs = some s) :
    s.b.csRecv + countCs s.fullAB = s.a.csSent ∧ s.b.raaRecv + countRaa s.fullAB = s.a.csRecv ∧
    s.a.csRecv + countCs s.fullBA = s.b.csSent ∧ s.a.raaRecv + countRaa s.fullBA = s.b.csRecv ∧
    countCs s.fullAB ≤ 1 ∧ countRaa s.fullAB ≤ 1 ∧ countCs s.fullBA ≤ 1 ∧ countRaa s.fullBA ≤ 1 := by
  have inv := Inv.run h
  have hbs : Base s.swap.swap := by simpa using inv.base
  exact ⟨inv.base.i1, inv.base.i2, inv.base'.i1, inv.base'.i2, (inv.base.bounds inv.base').2.2.2.1,
    inv.base.raaBound inv.base', (inv.base'.bounds hbs).2.2.2.1, inv.base'.raaBound hbs⟩

/-- What a disconnection loses is retransmitted identically: after `disconnect` the a→b stream (now: what `a`
    will retransmit once it has processed `b`'s channel_reestablish) contains the same commitment_signed —
    the SAME commitment, not a rebuilt different one — and the same number of revoke_and_acks as before, in
    the same order (`resend_order`); and `reest` itself changes neither stream.
    (The update_add / removal messages of the batch are retransmitted too and the receiver has forgotten the
    copies it had processed: that is the abstract move `mDisc`, under which the good configurations are closed.) -/
theorem lost_messages_retransmitted_partial (va vb f0 : Nat) (evs : List Ev) (s s' : Sys)
    (h : runG (Sys.init va vb f0) evs = some s) (hd : step s .disconnect = some s') :
    (∀ c, Msg.cs c ∈ s.fullAB → Msg.cs c ∈ s'.fullAB) ∧
    countCs s'.fullAB = countCs s.fullAB ∧ countRaa s'.fullAB = countRaa s.fullAB ∧
    raaFirst s'.fullAB = raaFirst s.fullAB ∧
    (∀ s'' y, step s' (.reest y) = some s'' → s''.fullAB = s'.fullAB ∧ s''.fullBA = s'.fullBA) := by
  have inv := Inv.run h
  have hdG : stepG s .disconnect = some s' := by simp [stepG, evOk, hd]
  have inv' := inv.step hdG
  have e := step_disconnect hd
  obtain ⟨_, _, _, _, pa5, pa6, _, _⟩ := pause_fields s.a
  obtain ⟨_, _, _, _, _, pb6, _, pb8⟩ := pause_fields s.b
  have hcs : s'.a.csSent = s.a.csSent := by rw [e]; exact pa5
  have hcr : s'.a.csRecv = s.a.csRecv := by rw [e]; exact pa6
  have hbc : s'.b.csRecv = s.b.csRecv := by rw [e]; exact pb6
  have hbr : s'.b.raaRecv = s.b.raaRecv := by rw [e]; exact pb8
  have hn : s'.needRaaA = s.needRaaA := by rw [e]
  have c1 : countCs s'.fullAB = countCs s.fullAB := by
    have := inv.base.i1; have := inv'.base.i1; omega
  have c2 : countRaa s'.fullAB = countRaa s.fullAB := by
    have := inv.base.i2; have := inv'.base.i2; omega
  refine ⟨?_, c1, c2, ?_, ?_⟩
  · intro c hc
    have hview := inv.view c hc
    have hne : countCs s.fullAB ≠ 0 := (hasCs_iff_count _).1 (by
      simp only [hasCs, List.any_eq_true]; exact ⟨_, hc, rfl⟩)
    have hlost : s.a.pause.csSent ≠ s.b.csRecv := by
      have := inv.base.i1; rw [pa5]; omega
    rw [fullAB_disconnect hd]
    unfold Node.retrans full
    rw [if_neg hlost]
    have : Msg.cs c ∈ s.a.pause.lastBatch := by
      unfold Node.lastBatch
      rw [pause_signing_view, ← hview]; simp
    simp [this]
  · by_cases hz : countCs s.fullAB = 0
    · have k : ∀ l : List Msg, countCs l = 0 → raaFirst l = false := by
        intro l hl
        induction l with
        | nil => rfl
        | cons m l ih =>
          cases m with
          | cs c => simp [countCs, List.countP_cons] at hl
          | raa =>
            have : countCs l = 0 := by simpa [countCs, List.countP_cons] using hl
            simp [raaFirst, hasCs_false_of_count this]
          | add _ _ => exact ih (by simpa [countCs, List.countP_cons] using hl)
          | fulfill _ => exact ih (by simpa [countCs, List.countP_cons] using hl)
          | fail _ => exact ih (by simpa [countCs, List.countP_cons] using hl)
          | fee _ => exact ih (by simpa [countCs, List.countP_cons] using hl)
      rw [k _ hz, k _ (by rw [c1]; exact hz)]
    · rw [inv.base.i7 hz, inv'.base.i7 (by rw [c1]; exact hz), hbr, hn]
  · intro s'' y hr
    have hbs : Base s'.swap.swap := by simpa using inv'.base
    cases y
    · exact ⟨fullAB_reest_false hr, fullAB_reest_true (s := s'.swap) (s' := s''.swap) inv'.base' (step_swap_of hr)⟩
    · exact ⟨fullAB_reest_true inv'.base hr, fullAB_reest_false (s := s'.swap) (s' := s''.swap) (step_swap_of hr)⟩

/-- Non-vacuity: three disconnections — (1) with an update_add already processed and its commitment_signed
    still in flight, (2) losing a revoke_and_ack, (3) with an update_fulfill processed and its
    commitment_signed in flight — each followed by reestablish and the retransmissions; the run is a guarded
    run, every commitment agrees, it ends quiescent with the 300 msat moved. -/
def discRun : List Ev := [
  .commit true [300] [] [], .release true, .recv false,
  .disconnect, .reest false, .reest true, .release true,
  .recv false, .recv false, .sendRaa false, .recv true,
  .commit false [] [] [], .release false, .recv true, .sendRaa true,
  .disconnect,
  .reest true, .reest false, .sendRaa true, .recv false,
  .commit false [] [0] [], .release false, .recv true,
  .disconnect, .reest false, .reest true, .release false,
  .recv true, .recv true, .sendRaa true, .recv false,
  .commit true [] [] [], .release true, .recv false, .sendRaa false, .recv true ]

example : (runG (Sys.init 1000 1000) discRun).map (fun s =>
    s.agreed && s.qab.isEmpty && s.qba.isEmpty && s.pendA.isEmpty && s.pendB.isEmpty &&
    s.a.inb.isEmpty && s.a.outb.isEmpty && s.b.inb.isEmpty && s.b.outb.isEmpty &&
    !s.a.paused && !s.b.paused && s.a.valueToSelf == 700 && s.b.valueToSelf == 1300) = some true := by decide

-- right after the first disconnection: b has forgotten the RemoteAnnounced HTLC, a's stream is add + commitment_signed again
example : (runG (Sys.init 1000 1000) (discRun.take 4)).map (fun s =>
    s.b.inb.isEmpty && s.qab.isEmpty && s.a.paused && (s.fullAB.length == 2) && (countCs s.fullAB == 1)) = some true := by decide

/-! ### 5c. update_fee -/

/-- In every guarded protocol run — fee updates by the funder at any enabled point, any interleaving,
    disconnections anywhere — every `commitment_signed` that is processed was built with exactly the feerate
    the receiver computes for its own transaction (`pending_update_fee` arm of build_commitment_transaction
    on both sides).  Partial: needs (G1)–(G4); without (G4) it is false (next theorem). -/
theorem fee_agreement_partial (va vb f0 : Nat) (evs : List Ev) (s : Sys) (h : runG (Sys.init va vb f0) evs = some s) :
    s.feeAgreed = true :=
  (Inv.run h).feeAgreed

/-- COUNTER-EXAMPLE without (G4): the fundee holds the first update AwaitingRemoteRevokeToAnnounce and does
    NOT build the commitment `need_commitment` asks for; the funder's second update_fee overwrites the slot,
    the first feerate is lost on the fundee's side: its next commitment_signed is built with the opening
    feerate while the funder expects the first update's. -/
def cexFeeLazyCommit : List Ev :=
  [.fee true 1, .commit true [] [] [], .release true, .recv false, .recv false, .sendRaa false, .recv true,
   .fee true 2, .commit true [] [] [], .release true, .recv false, .commit false [] [] [], .release false, .recv true]

theorem fee_agreement_fails_lazy_commit :
    (run (Sys.init 1000 1000) cexFeeLazyCommit).map (·.feeAgreed) = some false ∧
    runG (Sys.init 1000 1000) cexFeeLazyCommit = none ∧ (runG (Sys.init 1000 1000) (cexFeeLazyCommit.take 10)).isSome = true := by
  decide

/-- The invariant behind it, in its quiescent form: whenever no commitment_signed of the funder is under way
    and neither node has a fee update pending, both nodes run at the same feerate; and a fee update of the
    funder is Outbound, one of the other node RemoteAnnounced / AwaitingRemoteRevokeToAnnounce, never the
    other way round. -/
theorem fee_quiescent_partial (va vb f0 : Nat) (evs : List Ev) (s : Sys) (h : runG (Sys.init va vb f0) evs = some s) :
    (s.a.pendingFee = none → s.b.pendingFee = none → hasCs s.fullAB = false → s.a.feerate = s.b.feerate) ∧
    (∀ f st, s.a.pendingFee = some (f, st) → st = .outbound) ∧ (∀ f st, s.b.pendingFee = some (f, st) → st ≠ .outbound) := by
  have inv := Inv.run h
  have hfa : s.a.isFunder = true := by
    have : ∀ (evs : List Ev) (s s' : Sys), runG s evs = some s' → s'.a.isFunder = s.a.isFunder := by
      intro evs
      induction evs with
      | nil => intro s s' h; simp only [runG] at h; injection h with h; rw [h]
      | cons e es ih =>
        intro s s' h
        simp only [runG] at h
        cases hs : stepG s e with
        | none => simp [hs] at h
        | some s1 => rw [hs] at h; rw [ih s1 s' h]; exact (isFunder_step (stepG_some hs).2).1
    exact this evs _ s h
  have hfb : s.b.isFunder = false := by
    have := inv.fee.fd; rw [hfa] at this; cases hb : s.b.isFunder <;> simp [hb] at this ⊢
  refine ⟨?_, wfF_of inv.base.wf hfa, wfN_of inv.base'.wf hfb⟩
  intro h1 h2 h3
  have hff := inv.fee.ff hfa
  unfold FF at hff
  have hnil : fproj s.fullAB = [] := FFv_nil_of hff (by rw [cs_mem_fproj, h3]; simp)
  rw [hnil, h1, h2] at hff
  exact (hff.2 (Or.inr rfl)).symm

/-- Non-vacuity: the funder raises the feerate 253 → 500; the `update_fee` is processed, then a disconnection
    loses the commitment_signed: the fundee forgets the RemoteAnnounced update, the funder retransmits
    update_fee + commitment_signed; both commitments are renewed; the run is a guarded run, every commitment
    agrees in HTLCs, balances and feerate, both nodes end at 500 with nothing pending. -/
def feeRun : List Ev := [
  .fee true 500, .commit true [] [] [], .release true, .recv false,
  .disconnect, .reest true, .reest false, .release true,
  .recv false, .recv false, .sendRaa false, .recv true,
  .commit false [] [] [], .release false, .recv true, .sendRaa true, .recv false ]

example : (runG (Sys.init 1000 1000 253) feeRun).map (fun s =>
    s.agreed && s.feeAgreed && s.qab.isEmpty && s.qba.isEmpty && s.a.feerate == 500 && s.b.feerate == 500 &&
    s.a.pendingFee.isNone && s.b.pendingFee.isNone) = some true := by decide

-- after the 4th event `b` holds the update RemoteAnnounced; the disconnection drops it and the a→b stream is update_fee + commitment_signed again
example : (runG (Sys.init 1000 1000 253) (feeRun.take 4)).map (fun s => s.b.pendingFee) = some (some (500, .remoteAnnounced)) := by decide
example : (runG (Sys.init 1000 1000 253) (feeRun.take 5)).map (fun s => (s.b.pendingFee, fproj s.fullAB)) = some (none, [.fee 500, .cs]) := by decide

/-! ### 6. send limits: the sender's statistics filter covers the peer's (C01) -/

/-- `get_next_commitment_htlcs`, sender against peer, in every reachable state of the guarded protocol.
    A node `x` sizing its next HTLC on the peer `y`'s next commitment uses
    `OutState.inNextStats · false true` for the HTLCs it offered and `InState.inNextStats · false ·` for those it
    received; `y`, validating the `update_add_htlc` on that same (its own) commitment, uses
    `InState.inNextStats · true ·` resp. `OutState.inNextStats · true false`.  Every HTLC `y` counts, `x`
    counts too, with the same id and amount (`x` never under-counts):
      * for HTLCs offered by `x` — provided no revoke_and_ack of `x` is undelivered (on the wire, held back
        or owed: `Msg.raa ∉ full x→y stream`).  While one is, `x` may already have dropped a removed HTLC
        (AwaitingRemoteRevokeToRemove) that `y` still holds as LocalRemoved; `y` drops it when it processes
        that revoke_and_ack, which FIFO puts before any later `update_add_htlc` of `x` (see the example below);
      * for HTLCs offered by `y` — provided `x`'s removal message of that HTLC is not undelivered.
    Stated for `x = a` (first two clauses) and `x = b` (last two).  Partial: guarded runs, and the two
    in-flight restrictions.  The table facts are `good_stats_offered` / `good_stats_received` (`decide` over
    the 106 joint configurations): flipping an arm of either generated `inNextStats` breaks them. -/
theorem next_stats_sender_covers_peer_partial (va vb f0 : Nat) (evs : List Ev) (s : Sys)
    (h : runG (Sys.init va vb f0) evs = some s) :
    (Msg.raa ∉ s.fullAB → ∀ y ∈ s.b.inb, ∀ u, y.st.inNextStats true u = true →
      ∃ x ∈ s.a.outb, x.id = y.id ∧ x.amt = y.amt ∧ x.st.inNextStats false true = true) ∧
    (∀ y ∈ s.b.outb, Msg.fulfill y.id ∉ s.fullAB → Msg.fail y.id ∉ s.fullAB → y.st.inNextStats true false = true →
      ∀ u, ∃ x ∈ s.a.inb, x.id = y.id ∧ x.amt = y.amt ∧ x.st.inNextStats false u = true) ∧
    (Msg.raa ∉ s.fullBA → ∀ y ∈ s.a.inb, ∀ u, y.st.inNextStats true u = true →
      ∃ x ∈ s.b.outb, x.id = y.id ∧ x.amt = y.amt ∧ x.st.inNextStats false true = true) ∧
    (∀ y ∈ s.a.outb, Msg.fulfill y.id ∉ s.fullBA → Msg.fail y.id ∉ s.fullBA → y.st.inNextStats true false = true →
      ∀ u, ∃ x ∈ s.b.inb, x.id = y.id ∧ x.amt = y.amt ∧ x.st.inNextStats false u = true) := by
  have inv := Inv.run h
  refine ⟨fun hr => stats_offered inv.good inv.base.ok inv.base'.ok inv.amt hr,
    stats_received inv.good' inv.base.ok inv.base'.ok inv.amt',
    fun hr => stats_offered (s := s.swap) inv.good' inv.base'.ok inv.base.ok inv.amt' hr,
    stats_received (s := s.swap) (by simpa using inv.good) inv.base'.ok inv.base.ok (by simpa using inv.amt)⟩

-- non-vacuity (27 events into `goodRun`): no revoke_and_ack of `a` pending, `b` still counts both HTLCs it is
-- removing (LocalRemoved), `a` counts them as RemoteRemoved on `b`'s commitment — the `(RemoteRemoved, false)` arm
example : (runG (Sys.init 1000 1000) (goodRun.take 27)).map (fun s =>
    !s.fullAB.contains .raa && s.b.inb.length == 2 && s.b.inb.all (fun y => y.st.inNextStats true false) &&
    s.a.outb.all (fun x => x.st.inNextStats false true) &&
    s.a.outb.all (fun x => x.st == .remoteRemoved true || x.st == .remoteRemoved false)) = some true := by decide

-- the restriction is needed: two events later `a`'s revoke_and_ack is on the wire, `a` no longer counts the two
-- HTLCs, `b` still does until it processes that revoke_and_ack
example : (runG (Sys.init 1000 1000) (goodRun.take 29)).map (fun s =>
    s.fullAB.contains .raa && s.b.inb.all (fun y => y.st.inNextStats true false) && s.b.inb.length == 2 &&
    s.a.outb.all (fun x => !x.st.inNextStats false true)) = some true := by decide

/-- Companion (peer side): when `y` is about to verify a commitment_signed of `x`, every HTLC offered by `x`
    that `x` signed into it is held by `y` and counted by `y`'s own-commitment filter (local = true) — `y`
    never validates against fewer HTLCs than the commitment it is about to accept contains.  Per joint
    configuration (`cfgA s id` of any guarded-reachable `s` is good: `joint_invariant_partial`). -/
theorem next_stats_holder_counts_signed (c : Cfg) (hc : good c = true) (hh : c.fwd.head? = some .cs)
    (ho : inclT c.o = true) : ∃ i, c.i = some i ∧ ∀ u, i.inNextStats true u = true := by
  have f := good_stats_holder c hc
  rw [hh, ho] at f
  simp only [beq_self_eq_true, Bool.not_true, Bool.false_or] at f
  cases hi : c.i with
  | none => rw [hi] at f; cases f
  | some i => rw [hi] at f; exact ⟨i, rfl, fun u => by rw [in_stats_flag i true u false]; exact f⟩

example : good ⟨some .committed, some (.localRemoved true), [.cs], [.rem true, .cs], true, true⟩ = true := by decide

end Ldk.ChanProto
