/- C06 — Any revoked commitment the counterparty confirms is fully punished.

   Property theorems only.  Models: Model/Secrets.lean (C05's `CounterpartyCommitmentSecrets`),
   Model/Punish.lean (what the monitor keeps per counterparty commitment and what it claims when a
   revoked one confirms), Generated/Package.lean (fee-bump / bump-timer arithmetic TRANSLATED from
   chain/package.rs on every run).  Helper lemmas: Proofs/{Secrets,Punish,Package}.lean.

   What is covered: secret availability for every revoked number of a 2^B-long history (B = 48 in
   the code), retention of the per-commitment HTLC data under pruning, completeness of the claim
   set, progress of the bump timer, monotonicity / BIP-125 compliance of `feerate_bump`.
   What is NOT formalised (validated by the c06justice run with libbitcoinconsensus): key
   derivation, script/witness construction, OnchainTxHandler package aggregation and splitting. -/
import LdkModel.Props.C05
import LdkModel.Proofs.Punish
import LdkModel.Proofs.Package
namespace Ldk.C06
open Ldk Ldk.Secrets Ldk.Punish Ldk.Pkg

variable {S : Type} [DecidableEq S]

/-- **revoked_secret_available** — corollary of C05's `secret_store_complete`, `min_seen_tracks`
    and `get_secret_never_asserts`.  After ANY number `k ≤ 2^B` of revocations (the whole
    commitment-number space), for EVERY revoked commitment number `n` (`2^B − k ≤ n < 2^B`):
    the store answers `get_secret n` with the sender's secret, `n ≥ get_min_seen_secret()` (so
    `check_spend_counterparty_transaction` takes the revoked branch) and the `assert!` inside
    `get_secret` / the `unwrap()` in the monitor cannot fire. -/
theorem revoked_secret_available (P : Params S) (seed : S) (k : Nat) (hk : k ≤ 2 ^ P.B) :
    ∃ st, C05.insertDesc P seed k = some st ∧
      ∀ n, 2 ^ P.B - k ≤ n → n < 2 ^ P.B →
        getSecret P st n = some (C05.secretFor P seed n) ∧
        getMinSeenSecret P st ≤ n ∧ getSecretAsserts P st n = false := by
  obtain ⟨_, st, hst, _, hget⟩ := C05.secret_store_complete P seed k hk
  refine ⟨st, hst, fun n h1 h2 => ⟨hget n h1 h2, ?_, C05.get_secret_never_asserts P seed k hk st hst n h2⟩⟩
  rw [C05.min_seen_tracks P seed k hk st hst]
  exact h1

/-- the same on the MONITOR of a channel history: `bodies` are the counterparty commitments
    `0 … len−1` (numbers `2^B−1, 2^B−2, …`), all but the last revoked, optionally one more
    commitment `pending` provided but its predecessor not yet revoked.  Every revoked commitment
    `j` has its secret in the monitor and is recognised as revoked. -/
theorem revoked_secret_available_in_monitor (P : Params S) (seed : S) (bodies : List Body)
    (pending : Option Body) (hlen : bodies.length ≤ 2 ^ P.B) (j : Nat) (hj : j + 1 < bodies.length) :
    let m := monitorAfter P seed bodies pending
    getSecret P m.store (numberOf P j) = some (secretOf P seed (numberOf P j)) ∧
    getMinSeenSecret P m.store ≤ numberOf P j := by
  have hne : bodies ≠ [] := by intro e; rw [e] at hj; simp at hj
  have hinv := chanOps_inv P seed bodies hne hlen
  have hstore : (monitorAfter P seed bodies pending).store = (run P (Mon.new P) (chanOps P seed bodies)).store := by
    unfold monitorAfter; cases pending <;> rfl
  simp only [hstore]
  have hn : 2 ^ P.B - (bodies.length - 1) ≤ numberOf P j := by unfold numberOf; omega
  refine ⟨hinv.store.get _ hn (numberOf_lt P j), ?_⟩
  rw [hinv.store.min (by omega)]
  exact hn

/-- **claim_data_retained** — for every history, every commitment ever provided (revoked long ago,
    just revoked, current, or pending) still has its complete HTLC list — amounts, directions,
    CLTVs and OUTPUT INDICES — in `counterparty_claimable_outpoints`, after any number of later
    `provide_secret`s: pruning only forgets the `HTLCSource`s. -/
theorem claim_data_retained (P : Params S) (seed : S) (bodies : List Body) (pending : Option Body)
    (hlen : bodies.length + (if pending.isSome then 1 else 0) ≤ 2 ^ P.B) :
    let m := monitorAfter P seed bodies pending
    (∀ j b, bodies[j]? = some b → htlcsOf m.claimable (numberOf P j) = some b.htlcs) ∧
    (∀ b, pending = some b → htlcsOf m.claimable (numberOf P bodies.length) = some b.htlcs) := by
  intro m
  by_cases hne : bodies = []
  · subst hne
    refine ⟨fun j b h => by simp at h, fun b hb => ?_⟩
    subst hb
    simp only [m, monitorAfter, chanOps, run, List.foldl_nil, provideCommitment, Mon.new]
    rw [htlcsOf_insert]; simp
  · have hinv := chanOps_inv P seed bodies hne (by omega)
    constructor
    · intro j b hb
      have hjl : j < bodies.length := by
        rcases Nat.lt_or_ge j bodies.length with h | h
        · exact h
        · rw [List.getElem?_eq_none h] at hb; cases hb
      have hk := hinv.kept j hjl
      rw [hb] at hk
      cases hp : pending with
      | none => simpa [m, monitorAfter, hp] using hk
      | some pb =>
        simp only [m, monitorAfter, hp, provideCommitment]
        rw [htlcsOf_insert]
        have : numberOf P j ≠ numberOf P bodies.length := by
          intro e
          have hl : bodies.length < 2 ^ P.B := by simp [hp] at hlen; omega
          have := numberOf_inj P j bodies.length (by omega) hl e
          omega
        simp only [this, if_false]
        simpa using hk
    · intro b hb
      subst hb
      simp only [m, monitorAfter, provideCommitment]
      rw [htlcsOf_insert]; simp

/-- **revoked_fully_claimed_partial** — MISSING for the unconditional statement: nothing but the
    hypothesis `Body.WF b` (HTLC indices consistent with the outputs), which `revoked_fully_claimed`
    below discharges for every commitment laid out by `Spec.body`; this form is kept because it
    covers ANY output order (the real one is BIP-69).  For every history of arbitrary bodies, every
    REVOKED commitment `j` of it (however old), every set `second` of the cheater's second-stage transactions confirmed on top (each a
    list of the commitment outputs it spends): when the cheater's transaction for `j` confirms,
    (1) the claims made directly on it are exactly its `to_local` output(s) followed by one claim
        per listed HTLC with an output index;
    (2) every `to_local` and every HTLC output of the transaction is either claimed or spent by a
        confirmed second-stage transaction; (3) for every input of every such second-stage
        transaction the output at the same index is claimed instead; (4) nothing else on the
        commitment — not the victim's `to_remote`, not an anchor — is claimed. -/
theorem revoked_fully_claimed_partial (P : Params S) (seed : S) (bodies : List Body) (pending : Option Body)
    (hlen : bodies.length + (if pending.isSome then 1 else 0) ≤ 2 ^ P.B) (j : Nat) (hj : j + 1 < bodies.length) (b : Body)
    (hb : bodies[j]? = some b) (hwf : Body.WF b) (second : List (List Nat)) :
    let m := monitorAfter P seed bodies pending
    let n := numberOf P j
    let tx : List (TxOut S) := b.tx (secretOf P seed n)
    let claims := punish P m n tx second
    onConfirmRevoked P m n tx =
        toLocalClaims (secretOf P seed n) tx ++ b.htlcs.filterMap (fun h => h.outIdx.map Outpoint.commit) ∧
    (∀ i sat k, b.outputs[i]? = some (sat, k) → k = .toLocal ∨ k = .htlc →
        .commit i ∈ claims ∨ ∃ t ∈ second, i ∈ t) ∧
    (∀ k t p, second[k]? = some t → p < t.length → .second k p ∈ claims) ∧
    (∀ i, .commit i ∈ claims → ∃ sat k, b.outputs[i]? = some (sat, k) ∧ (k = .toLocal ∨ k = .htlc)) := by
  intro m n tx claims
  obtain ⟨hsec, hmin⟩ := revoked_secret_available_in_monitor P seed bodies pending (by omega) j hj
  have hdata : htlcsOf m.claimable n = some b.htlcs :=
    (claim_data_retained P seed bodies pending hlen).1 j b hb
  have htxwf : ∀ h ∈ b.htlcs, ∀ i, h.outIdx = some i → ∃ o, tx[i]? = some o ∧ o.sat = h.sat := by
    intro h hh i hi
    have := hwf.1 h hh i hi
    refine ⟨({ sat := h.sat, spk := .htlc } : TxOut S), ?_, rfl⟩
    simp only [tx]
    rw [Body.tx_get, this]; rfl
  -- (1) the direct claims
  have hdirect : onConfirmRevoked P m n tx =
      toLocalClaims (secretOf P seed n) tx ++ b.htlcs.filterMap (fun h => h.outIdx.map Outpoint.commit) := by
    unfold onConfirmRevoked
    rw [if_pos hmin, hsec]
    simp only
    unfold htlcsOf at hdata
    cases hg : m.claimable.get n with
    | none => rw [hg] at hdata; cases hdata
    | some data =>
      rw [hg] at hdata
      simp only [Option.map_some, Option.some.injEq] at hdata
      simp only [hdata]
      rw [htlcClaims_eq tx b.htlcs htxwf]
  have hclaims : claims = (onConfirmRevoked P m n tx).filter (notSpent second) ++ allSecondClaims 0 second := by
    have hs : getSecret P m.store n = some (secretOf P seed n) := hsec
    simp only [claims, punish, hs]
  refine ⟨hdirect, ?_, ?_, ?_⟩
  · -- (2) coverage
    intro i sat k hget hk
    by_cases hsp : ∃ t ∈ second, i ∈ t
    · right; exact hsp
    · left
      rw [hclaims, List.mem_append]
      left
      rw [List.mem_filter]
      constructor
      · rw [hdirect, List.mem_append]
        rcases hk with rfl | rfl
        · left
          exact (mem_toLocalClaims_tx b _ _).2 ⟨i, sat, rfl, hget⟩
        · right
          obtain ⟨h, hh, hi⟩ := hwf.2 i sat hget
          exact List.mem_filterMap.2 ⟨h, hh, by simp [hi]⟩
      · simp only [notSpent, Bool.not_eq_true', List.any_eq_false, List.contains_eq_mem, decide_eq_true_eq]
        intro t ht hit
        exact hsp ⟨t, ht, hit⟩
  · -- (3) second-stage outputs
    intro k t p hget hp
    rw [hclaims, List.mem_append]
    right
    exact (mem_allSecondClaims 0 second _).2 ⟨k, p, t, by simp, hget, hp⟩
  · -- (4) nothing else
    intro i hi
    rw [hclaims, List.mem_append] at hi
    rcases hi with hi | hi
    · rw [List.mem_filter, hdirect, List.mem_append] at hi
      rcases hi.1 with h | h
      · obtain ⟨i', sat, e, hget⟩ := (mem_toLocalClaims_tx b _ _).1 h
        cases e
        exact ⟨sat, .toLocal, hget, Or.inl rfl⟩
      · obtain ⟨h', hh, e⟩ := List.mem_filterMap.1 h
        cases ho : h'.outIdx with
        | none => rw [ho] at e; cases e
        | some i' =>
          rw [ho] at e
          simp only [Option.map_some, Option.some.injEq, Outpoint.commit.injEq] at e
          subst e
          exact ⟨h'.sat, .htlc, hwf.1 h' hh _ ho, Or.inr rfl⟩
    · exact absurd hi (commit_not_mem_allSecondClaims 0 second i)

/-- **revoked_fully_claimed** — for EVERY channel history `specs` (any number of commitments up to
    the 2^B numbers; any balances above or below dust; anchors or not; any HTLC list — amounts,
    directions, CLTVs, dust or not), optionally one more commitment `pending` not yet revoked, EVERY
    revoked commitment `j` of it however old, and EVERY set `second` of the cheater's second-stage
    transactions confirmed on top: when the cheater's transaction for `j` confirms,
    (1) the claims made directly on it are exactly its `to_local` output followed by one claim per
        non-dust HTLC; (2) every `to_local` / HTLC output of the transaction is claimed or was spent
    by a confirmed second-stage transaction; (3) for every input of every such second-stage
    transaction the output at the same index is claimed instead; (4) nothing else — not the victim's
    own `to_remote`, not an anchor — is claimed. -/
theorem revoked_fully_claimed (P : Params S) (seed : S) (specs : List Spec) (pending : Option Spec)
    (hlen : specs.length + (if pending.isSome then 1 else 0) ≤ 2 ^ P.B) (j : Nat) (hj : j + 1 < specs.length)
    (sp : Spec) (hsp : specs[j]? = some sp) (second : List (List Nat)) :
    let m := monitorAfter P seed (specs.map Spec.body) (pending.map Spec.body)
    let n := numberOf P j
    let b := sp.body
    let tx : List (TxOut S) := b.tx (secretOf P seed n)
    let claims := punish P m n tx second
    onConfirmRevoked P m n tx =
        toLocalClaims (secretOf P seed n) tx ++ b.htlcs.filterMap (fun h => h.outIdx.map Outpoint.commit) ∧
    (∀ i sat k, b.outputs[i]? = some (sat, k) → k = .toLocal ∨ k = .htlc →
        .commit i ∈ claims ∨ ∃ t ∈ second, i ∈ t) ∧
    (∀ k t p, second[k]? = some t → p < t.length → .second k p ∈ claims) ∧
    (∀ i, .commit i ∈ claims → ∃ sat k, b.outputs[i]? = some (sat, k) ∧ (k = .toLocal ∨ k = .htlc)) := by
  have h := revoked_fully_claimed_partial P seed (specs.map Spec.body) (pending.map Spec.body)
    (by cases pending <;> simpa using hlen) j (by simpa using hj) sp.body (by simp [hsp]) (Spec.body_wf sp) second
  exact h

/-- **bump_progress** — the next fee-bump height of ANY package (any input list, any
    counterparty-spendable height) at ANY height `h` is strictly in the future and at most
    `LOW_FREQUENCY_BUMP_INTERVAL` away; the per-deadline timer is monotone in the deadline; and a
    justice claim on a revocable balance (`RevokedOutput`, deadline = the CSV expiry
    `counterparty_spendable_height`) is re-bumped every block once the deadline is within
    `MIDDLE_FREQUENCY_BUMP_INTERVAL`, at least every `MIDDLE_FREQUENCY_BUMP_INTERVAL` blocks once it
    is within `LOW_FREQUENCY_BUMP_INTERVAL`. -/
theorem bump_progress (h csh : Nat) (inputs : List PkgInput) :
    h < getHeightTimer h csh inputs ∧
    getHeightTimer h csh inputs ≤ h + LOW_FREQUENCY_BUMP_INTERVAL ∧
    (∀ t t', t ≤ t' → timerForTargetConf h t ≤ timerForTargetConf h t') ∧
    (.revokedOutput ∈ inputs → csh ≤ h + MIDDLE_FREQUENCY_BUMP_INTERVAL →
        getHeightTimer h csh inputs = h + HIGH_FREQUENCY_BUMP_INTERVAL) ∧
    (.revokedOutput ∈ inputs → csh ≤ h + LOW_FREQUENCY_BUMP_INTERVAL →
        getHeightTimer h csh inputs ≤ h + MIDDLE_FREQUENCY_BUMP_INTERVAL) :=
  bump_progress_core h csh inputs

/-- **feerate_bump_monotone** — whenever `feerate_bump` answers `(fee', rate')`:
    (a) `rate' ≥` the previous feerate, for every transaction weight `w ≥ 4` (every real transaction
        weighs hundreds of WU; for `w < 4` integer division makes the re-derived feerate collapse —
        counter-example among the non-vacuity examples below — so the bound is tight);
    (b) either this is a plain re-broadcast (`rate'` = previous feerate and `fee'` = previous fee)
        or a replacement whose absolute fee is at least the previous fee PLUS the relay increment
        `INCREMENTAL_RELAY_FEE_SAT_PER_1000_WEIGHT·w/1000` (BIP-125 rules 3 and 4) and which leaves
        at least the dust limit to the output;
    (c) a `ForceBump` of a feerate ≥ 4 sat/kW is always such a replacement. -/
theorem feerate_bump_monotone (w inp dust prev : Nat) (s : FeerateStrategy) (est fee' rate' : Nat)
    (h : feerateBump w inp dust prev s est = some (fee', rate')) :
    (4 ≤ w → prev ≤ rate') ∧
    ((rate' = prev ∧ fee' = prev * w / 1000) ∨
     (prev * w / 1000 + INCREMENTAL_RELAY_FEE_SAT_PER_1000_WEIGHT * w / 1000 ≤ fee' ∧ dust ≤ inp - fee')) ∧
    (s = .forceBump → 4 ≤ prev →
      prev * w / 1000 + INCREMENTAL_RELAY_FEE_SAT_PER_1000_WEIGHT * w / 1000 ≤ fee') :=
  feerate_bump_monotone_core w inp dust prev s est fee' rate' h

/-- **feerate_bump_none_only_if_unpayable** — `feerate_bump` gives up (`None`) only when the inputs
    cannot pay: half of the spent amount does not reach the feerate floor on this weight, or the
    inputs minus the fee that would be required (the larger of: half the inputs, 125 % of the
    previous fee, previous fee + relay increment) would fall below the dust limit. -/
theorem feerate_bump_none_only_if_unpayable (w inp dust prev : Nat) (s : FeerateStrategy) (est : Nat)
    (h : feerateBump w inp dust prev s est = none) :
    computeFeerateSatPer1000Weight (inp / 2) w < FEERATE_FLOOR_SATS_PER_KW ∨
    inp < dust + Nat.max (Nat.max (inp / 2) ((prev + prev / 4) * w / 1000))
              (prev * w / 1000 + INCREMENTAL_RELAY_FEE_SAT_PER_1000_WEIGHT * w / 1000) :=
  feerate_bump_none_core w inp dust prev s est h

/-! ### Non-vacuity (sanity runs of the executable model, not the claim) -/

-- a 5-commitment history on a 3-bit number space with a free symbolic hash; commitment 1 (revoked)
-- has a to_local, the victim's to_remote, one offered and one received non-dust HTLC and a dust one
def b0 : Body := { outputs := [(5000, .toRemote), (90000, .toLocal)], htlcs := [] }
def b1 : Body :=
  { outputs := [(330, .anchor), (2000, .htlc), (3000, .htlc), (5000, .toRemote), (80000, .toLocal)],
    htlcs := [⟨2000999, true, 500, some 1⟩, ⟨100000, false, 510, none⟩, ⟨3000000, false, 520, some 2⟩] }
def P3 : Params C05.Sym := { B := 3, zero := .zero, flip := .flip, H := .hash }
def hist : List Body := [b0, b1, b0, b1, b0]

example : Body.WF b1 := by
  constructor
  · intro h hh i hi
    simp only [b1, List.mem_cons, List.mem_nil_iff, or_false] at hh
    rcases hh with rfl | rfl | rfl
    · cases hi; rfl
    · cases hi
    · cases hi; rfl
  · intro i sat hget
    match i with
    | 0 | 4 | 3 => simp [b1] at hget
    | 1 => exact ⟨⟨2000999, true, 500, some 1⟩, by simp [b1], rfl⟩
    | 2 => exact ⟨⟨3000000, false, 520, some 2⟩, by simp [b1], rfl⟩
    | n + 5 => simp [b1] at hget
-- the revoked commitment 1 confirms: to_local (4) and both HTLC outputs (1, 2) are claimed …
example : punish P3 (monitorAfter P3 .seed hist none) (numberOf P3 1) (b1.tx (secretOf P3 .seed (numberOf P3 1))) []
    = [.commit 4, .commit 1, .commit 2] := by decide
-- … with the cheater's HTLC transaction on output 2 confirmed, its output is claimed instead
example : punish P3 (monitorAfter P3 .seed hist none) (numberOf P3 1) (b1.tx (secretOf P3 .seed (numberOf P3 1))) [[2]]
    = [.commit 4, .commit 1, .second 0 0] := by decide
-- the CURRENT commitment (4, not revoked) is not punished, nor is a transaction keyed by another secret
example : punish P3 (monitorAfter P3 .seed hist none) (numberOf P3 4) (b0.tx (secretOf P3 .seed (numberOf P3 4))) [] = [] := by decide
example : onConfirmRevoked P3 (monitorAfter P3 .seed hist none) (numberOf P3 1) (b1.tx (secretOf P3 .seed (numberOf P3 2)))
    = [.commit 1, .commit 2] := by decide
-- sources are pruned, data stays
example : (monitorAfter P3 .seed hist none).claimable.get (numberOf P3 1) =
    some [(⟨2000999, true, 500, some 1⟩, false), (⟨100000, false, 510, none⟩, false), (⟨3000000, false, 520, some 2⟩, false)] := by decide
-- the same through the layout of `Spec.body` (to_remote, 2 anchors, 2 non-dust HTLCs around a dust one, to_local)
def sp1 : Spec := { toLocalSat := some 80000, toRemoteSat := some 5000, anchors := true, htlcs := [⟨2000999, true, 500, true⟩, ⟨100000, false, 510, false⟩, ⟨3000000, false, 520, true⟩] }
def sp0 : Spec := { toLocalSat := some 90000, toRemoteSat := none, anchors := false, htlcs := [] }
example : sp1.body.htlcs.map (·.outIdx) = [some 3, none, some 4] ∧ sp1.body.outputs.length = 6 := by decide
example : punish P3 (monitorAfter P3 .seed ([sp0, sp1, sp0].map Spec.body) none) (numberOf P3 1)
    (sp1.body.tx (secretOf P3 .seed (numberOf P3 1))) [[4]] = [.commit 5, .commit 3, .second 0 0] := by decide
-- bump timer and fee bump
example : getHeightTimer 100 120 [.revokedOutput] = 115 ∧ getHeightTimer 100 110 [.revokedOutput] = 103 ∧
    getHeightTimer 100 102 [.revokedHTLCOutput, .revokedOutput] = 101 ∧ getHeightTimer 100 0 [.revokedHTLCOutput] = 115 := by decide
example : feerateBump 1000 100000 546 1000 .forceBump 253 = some (1253, 1253) := by decide
example : feerateBump 1000 100000 546 1000 .retryPrevious 5000 = some (1000, 1000) := by decide
example : feerateBump 1000 100000 546 1000 .highestOfPreviousOrNew 5000 = some (5000, 5000) := by decide
example : feerateBump 1000 1500 546 1000 .forceBump 253 = none := by decide
-- the weight hypothesis of `feerate_bump_monotone` is needed: on a 1-WU "transaction" integer
-- division makes the re-derived feerate 0
example : feerateBump 1 100000 546 1000 .forceBump 253 = some (1, 1000) := by decide
example : feerateBump 3 100000 546 1000 .forceBump 253 = some (3, 1000) := by decide

end Ldk.C06
