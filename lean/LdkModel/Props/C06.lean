/- C06 — Any revoked commitment the counterparty confirms is fully punished.

   Property theorems only.  Models: Model/Secrets.lean (C05's `CounterpartyCommitmentSecrets`),
   Model/Punish.lean (what the monitor keeps per counterparty commitment and what it claims when a
   revoked one confirms), Generated/Package.lean (fee-bump / bump-timer arithmetic TRANSLATED from
   chain/package.rs on every run).  Helper lemmas: Proofs/{Secrets,Punish,Package}.lean.

   What is covered: secret availability for every revoked number of a 2^B-long history (B = 48 in
   the code), retention of the per-commitment HTLC data under pruning, completeness of the claim
   set, progress of the bump timer, monotonicity / BIP-125 compliance of `feerate_bump`.
   Second half (Model/JusticeChain.lean, height expressions TRANSLATED into Generated/Justice.lean on every run): the claims
   while the chain is RE-ORGANISED — over ALL sequences of block connections / disconnections / rebroadcasts / reloads a
   consistent chain can produce: every claim records the confirmation height of the transaction whose output it spends, is
   dropped exactly when that transaction is disconnected, is pending for as long as its output exists unspent (by a final
   spend) on the best chain, is re-issued at every height-timer expiry, and the drain theorem for histories with reorgs.
   Third part (Model/Packages.lean, shared with C07; decisions TRANSLATED into Generated/Packages.lean on every run): the PACKAGE layer of
   OnchainTxHandler — split_package / merge_package never drop an outpoint, a merged package's timer / feerate / deadline is the minimum,
   the package timer is never later than any member's own timer, and for every accepted block: no pending request keeps an outpoint whose
   spend confirmed in that block (unless the block spent ALL of it and its `Claim` entry waits for burial), and no claim re-issued while the
   block is processed spends an outpoint the block spent.
   What is NOT formalised (validated by the c06justice run with libbitcoinconsensus): key
   derivation, script/witness construction. -/
import LdkModel.Props.C05
import LdkModel.Proofs.Punish
import LdkModel.Proofs.Package
import LdkModel.Proofs.JusticeChain
import LdkModel.Proofs.Packages
import LdkModel.Proofs.ScopeData
namespace Ldk.C06
open Ldk Ldk.Secrets Ldk.Punish Ldk.Pkg

variable {S : Type} [DecidableEq S]

/-- **revoked_secret_available** — corollary of C05's `secret_store_complete`, `min_seen_tracks`
    and `get_secret_never_asserts`.  After ANY number `k ≤ 2^B` of revocations (the whole
    commitment-number space), for EVERY revoked commitment number `n` (`2^B − k ≤ n < 2^B`):
    the store answers `get_secret n` with the sender's secret, `n ≥ get_min_seen_secret()` (so
    `check_spend_counterparty_transaction` takes the revoked branch) and the `assert!` inside
    `get_secret` / the `unwrap()` in the monitor cannot fire. -/
theorem revoked_secret_available (P : Params S) (seed : S) (k : Nat) (hk : k ≤ 2 ^ P.B) :
    ∃ st, C05.insertDesc P seed k = some st ∧
      ∀ n, 2 ^ P.B - k ≤ n → n < 2 ^ P.B →
        getSecret P st n = some (C05.secretFor P seed n) ∧
        getMinSeenSecret P st ≤ n ∧ getSecretAsserts P st n = false := by
  obtain ⟨_, st, hst, _, hget⟩ := C05.secret_store_complete P seed k hk
  refine ⟨st, hst, fun n h1 h2 => ⟨hget n h1 h2, ?_, C05.get_secret_never_asserts P seed k hk st hst n h2⟩⟩
  rw [C05.min_seen_tracks P seed k hk st hst]
  exact h1

/-- the same on the MONITOR of a channel history: `bodies` are the counterparty commitments
    `0 … len−1` (numbers `2^B−1, 2^B−2, …`), all but the last revoked, optionally one more
    commitment `pending` provided but its predecessor not yet revoked.  Every revoked commitment
    `j` has its secret in the monitor and is recognised as revoked. -/
theorem revoked_secret_available_in_monitor (P : Params S) (seed : S) (bodies : List Body)
    (pending : Option Body) (hlen : bodies.length ≤ 2 ^ P.B) (j : Nat) (hj : j + 1 < bodies.length) :
    let m := monitorAfter P seed bodies pending
    getSecret P m.store (numberOf P j) = some (secretOf P seed (numberOf P j)) ∧
    getMinSeenSecret P m.store ≤ numberOf P j := by
  have hne : bodies ≠ [] := by intro e; rw [e] at hj; simp at hj
  have hinv := chanOps_inv P seed bodies hne hlen
  have hstore : (monitorAfter P seed bodies pending).store = (run P (Mon.new P) (chanOps P seed bodies)).store := by
    unfold monitorAfter; cases pending <;> rfl
  simp only [hstore]
  have hn : 2 ^ P.B - (bodies.length - 1) ≤ numberOf P j := by unfold numberOf; omega
  refine ⟨hinv.store.get _ hn (numberOf_lt P j), ?_⟩
  rw [hinv.store.min (by omega)]
  exact hn

/-- **claim_data_retained** — for every history, every commitment ever provided (revoked long ago,
    just revoked, current, or pending) still has its complete HTLC list — amounts, directions,
    CLTVs and OUTPUT INDICES — in `counterparty_claimable_outpoints`, after any number of later
    `provide_secret`s: pruning only forgets the `HTLCSource`s. -/
theorem claim_data_retained (P : Params S) (seed : S) (bodies : List Body) (pending : Option Body)
    (hlen : bodies.length + (if pending.isSome then 1 else 0) ≤ 2 ^ P.B) :
    let m := monitorAfter P seed bodies pending
    (∀ j b, bodies[j]? = some b → htlcsOf m.claimable (numberOf P j) = some b.htlcs) ∧
    (∀ b, pending = some b → htlcsOf m.claimable (numberOf P bodies.length) = some b.htlcs) := by
  intro m
  by_cases hne : bodies = []
  · subst hne
    refine ⟨fun j b h => by simp at h, fun b hb => ?_⟩
    subst hb
    simp only [m, monitorAfter, chanOps, run, List.foldl_nil, provideCommitment, Mon.new]
    rw [htlcsOf_insert]; simp
  · have hinv := chanOps_inv P seed bodies hne (by omega)
    constructor
    · intro j b hb
      have hjl : j < bodies.length := by
        rcases Nat.lt_or_ge j bodies.length with h | h
        · exact h
        · rw [List.getElem?_eq_none h] at hb; cases hb
      have hk := hinv.kept j hjl
      rw [hb] at hk
      cases hp : pending with
      | none => simpa [m, monitorAfter, hp] using hk
      | some pb =>
        simp only [m, monitorAfter, hp, provideCommitment]
        rw [htlcsOf_insert]
        have : numberOf P j ≠ numberOf P bodies.length := by
          intro e
          have hl : bodies.length < 2 ^ P.B := by simp [hp] at hlen; omega
          have := numberOf_inj P j bodies.length (by omega) hl e
          omega
        simp only [this, if_false]
        simpa using hk
    · intro b hb
      subst hb
      simp only [m, monitorAfter, provideCommitment]
      rw [htlcsOf_insert]; simp

/-- **revoked_fully_claimed_partial** — MISSING for the unconditional statement: nothing but the
    hypothesis `Body.WF b` (HTLC indices consistent with the outputs), which `revoked_fully_claimed`
    below discharges for every commitment laid out by `Spec.body`; this form is kept because it
    covers ANY output order (the real one is BIP-69).  For every history of arbitrary bodies, every
    REVOKED commitment `j` of it (however old), every set `second` of the cheater's second-stage transactions confirmed on top (each a
    list of the commitment outputs it spends): when the cheater's transaction for `j` confirms,
    (1) the claims made directly on it are exactly its `to_local` output(s) followed by one claim
        per listed HTLC with an output index;
    (2) every `to_local` and every HTLC output of the transaction is either claimed or spent by a
        confirmed second-stage transaction; (3) for every input of every such second-stage
        transaction the output at the same index is claimed instead; (4) nothing else on the
        commitment — not the victim's `to_remote`, not an anchor — is claimed. -/
theorem revoked_fully_claimed_partial (P : Params S) (seed : S) (bodies : List Body) (pending : Option Body)
    (hlen : bodies.length + (if pending.isSome then 1 else 0) ≤ 2 ^ P.B) (j : Nat) (hj : j + 1 < bodies.length) (b : Body)
    (hb : bodies[j]? = some b) (hwf : Body.WF b) (second : List (List Nat)) :
    let m := monitorAfter P seed bodies pending
    let n := numberOf P j
    let tx : List (TxOut S) := b.tx (secretOf P seed n)
    let claims := punish P m n tx second
    onConfirmRevoked P m n tx =
        toLocalClaims (secretOf P seed n) tx ++ b.htlcs.filterMap (fun h => h.outIdx.map Outpoint.commit) ∧
    (∀ i sat k, b.outputs[i]? = some (sat, k) → k = .toLocal ∨ k = .htlc →
        .commit i ∈ claims ∨ ∃ t ∈ second, i ∈ t) ∧
    (∀ k t p, second[k]? = some t → p < t.length → .second k p ∈ claims) ∧
    (∀ i, .commit i ∈ claims → ∃ sat k, b.outputs[i]? = some (sat, k) ∧ (k = .toLocal ∨ k = .htlc)) := by
  intro m n tx claims
  obtain ⟨hsec, hmin⟩ := revoked_secret_available_in_monitor P seed bodies pending (by omega) j hj
  have hdata : htlcsOf m.claimable n = some b.htlcs :=
    (claim_data_retained P seed bodies pending hlen).1 j b hb
  have htxwf : ∀ h ∈ b.htlcs, ∀ i, h.outIdx = some i → ∃ o, tx[i]? = some o ∧ o.sat = h.sat := by
    intro h hh i hi
    have := hwf.1 h hh i hi
    refine ⟨({ sat := h.sat, spk := .htlc } : TxOut S), ?_, rfl⟩
    simp only [tx]
    rw [Body.tx_get, this]; rfl
  -- (1) the direct claims
  have hdirect : onConfirmRevoked P m n tx =
      toLocalClaims (secretOf P seed n) tx ++ b.htlcs.filterMap (fun h => h.outIdx.map Outpoint.commit) := by
    unfold onConfirmRevoked
    rw [if_pos hmin, hsec]
    simp only
    unfold htlcsOf at hdata
    cases hg : m.claimable.get n with
    | none => rw [hg] at hdata; cases hdata
    | some data =>
      rw [hg] at hdata
      simp only [Option.map_some, Option.some.injEq] at hdata
      simp only [hdata]
      rw [htlcClaims_eq tx b.htlcs htxwf]
  have hclaims : claims = (onConfirmRevoked P m n tx).filter (notSpent second) ++ allSecondClaims 0 second := by
    have hs : getSecret P m.store n = some (secretOf P seed n) := hsec
    simp only [claims, punish, hs]
  refine ⟨hdirect, ?_, ?_, ?_⟩
  · -- (2) coverage
    intro i sat k hget hk
    by_cases hsp : ∃ t ∈ second, i ∈ t
    · right; exact hsp
    · left
      rw [hclaims, List.mem_append]
      left
      rw [List.mem_filter]
      constructor
      · rw [hdirect, List.mem_append]
        rcases hk with rfl | rfl
        · left
          exact (mem_toLocalClaims_tx b _ _).2 ⟨i, sat, rfl, hget⟩
        · right
          obtain ⟨h, hh, hi⟩ := hwf.2 i sat hget
          exact List.mem_filterMap.2 ⟨h, hh, by simp [hi]⟩
      · simp only [notSpent, Bool.not_eq_true', List.any_eq_false, List.contains_eq_mem, decide_eq_true_eq]
        intro t ht hit
        exact hsp ⟨t, ht, hit⟩
  · -- (3) second-stage outputs
    intro k t p hget hp
    rw [hclaims, List.mem_append]
    right
    exact (mem_allSecondClaims 0 second _).2 ⟨k, p, t, by simp, hget, hp⟩
  · -- (4) nothing else
    intro i hi
    rw [hclaims, List.mem_append] at hi
    rcases hi with hi | hi
    · rw [List.mem_filter, hdirect, List.mem_append] at hi
      rcases hi.1 with h | h
      · obtain ⟨i', sat, e, hget⟩ := (mem_toLocalClaims_tx b _ _).1 h
        cases e
        exact ⟨sat, .toLocal, hget, Or.inl rfl⟩
      · obtain ⟨h', hh, e⟩ := List.mem_filterMap.1 h
        cases ho : h'.outIdx with
        | none => rw [ho] at e; cases e
        | some i' =>
          rw [ho] at e
          simp only [Option.map_some, Option.some.injEq, Outpoint.commit.injEq] at e
          subst e
          exact ⟨h'.sat, .htlc, hwf.1 h' hh _ ho, Or.inr rfl⟩
    · exact absurd hi (commit_not_mem_allSecondClaims 0 second i)

/-- **revoked_fully_claimed** — for EVERY channel history `specs` (any number of commitments up to
    the 2^B numbers; any balances above or below dust; anchors or not; any HTLC list — amounts,
    directions, CLTVs, dust or not), optionally one more commitment `pending` not yet revoked, EVERY
    revoked commitment `j` of it however old, and EVERY set `second` of the cheater's second-stage
    transactions confirmed on top: when the cheater's transaction for `j` confirms,
    (1) the claims made directly on it are exactly its `to_local` output followed by one claim per
        non-dust HTLC; (2) every `to_local` / HTLC output of the transaction is claimed or was spent
    by a confirmed second-stage transaction; (3) for every input of every such second-stage
    transaction the output at the same index is claimed instead; (4) nothing else — not the victim's
    own `to_remote`, not an anchor — is claimed. -/
theorem revoked_fully_claimed (P : Params S) (seed : S) (specs : List Spec) (pending : Option Spec)
    (hlen : specs.length + (if pending.isSome then 1 else 0) ≤ 2 ^ P.B) (j : Nat) (hj : j + 1 < specs.length)
    (sp : Spec) (hsp : specs[j]? = some sp) (second : List (List Nat)) :
    let m := monitorAfter P seed (specs.map Spec.body) (pending.map Spec.body)
    let n := numberOf P j
    let b := sp.body
    let tx : List (TxOut S) := b.tx (secretOf P seed n)
    let claims := punish P m n tx second
    onConfirmRevoked P m n tx =
        toLocalClaims (secretOf P seed n) tx ++ b.htlcs.filterMap (fun h => h.outIdx.map Outpoint.commit) ∧
    (∀ i sat k, b.outputs[i]? = some (sat, k) → k = .toLocal ∨ k = .htlc →
        .commit i ∈ claims ∨ ∃ t ∈ second, i ∈ t) ∧
    (∀ k t p, second[k]? = some t → p < t.length → .second k p ∈ claims) ∧
    (∀ i, .commit i ∈ claims → ∃ sat k, b.outputs[i]? = some (sat, k) ∧ (k = .toLocal ∨ k = .htlc)) := by
  have h := revoked_fully_claimed_partial P seed (specs.map Spec.body) (pending.map Spec.body)
    (by cases pending <;> simpa using hlen) j (by simpa using hj) sp.body (by simp [hsp]) (Spec.body_wf sp) second
  exact h

/-- **bump_progress** — the next fee-bump height of ANY package (any input list, any
    counterparty-spendable height) at ANY height `h` is strictly in the future and at most
    `LOW_FREQUENCY_BUMP_INTERVAL` away; the per-deadline timer is monotone in the deadline; and a
    justice claim on a revocable balance (`RevokedOutput`, deadline = the CSV expiry
    `counterparty_spendable_height`) is re-bumped every block once the deadline is within
    `MIDDLE_FREQUENCY_BUMP_INTERVAL`, at least every `MIDDLE_FREQUENCY_BUMP_INTERVAL` blocks once it
    is within `LOW_FREQUENCY_BUMP_INTERVAL`. -/
theorem bump_progress (h csh : Nat) (inputs : List PkgInput) :
    h < getHeightTimer h csh inputs ∧
    getHeightTimer h csh inputs ≤ h + LOW_FREQUENCY_BUMP_INTERVAL ∧
    (∀ t t', t ≤ t' → timerForTargetConf h t ≤ timerForTargetConf h t') ∧
    (.revokedOutput ∈ inputs → csh ≤ h + MIDDLE_FREQUENCY_BUMP_INTERVAL →
        getHeightTimer h csh inputs = h + HIGH_FREQUENCY_BUMP_INTERVAL) ∧
    (.revokedOutput ∈ inputs → csh ≤ h + LOW_FREQUENCY_BUMP_INTERVAL →
        getHeightTimer h csh inputs ≤ h + MIDDLE_FREQUENCY_BUMP_INTERVAL) :=
  bump_progress_core h csh inputs

/-- **feerate_bump_monotone** — whenever `feerate_bump` answers `(fee', rate')`:
    (a) `rate' ≥` the previous feerate, for every transaction weight `w ≥ 4` (every real transaction
        weighs hundreds of WU; for `w < 4` integer division makes the re-derived feerate collapse —
        counter-example among the non-vacuity examples below — so the bound is tight);
    (b) either this is a plain re-broadcast (`rate'` = previous feerate and `fee'` = previous fee)
        or a replacement whose absolute fee is at least the previous fee PLUS the relay increment
        `INCREMENTAL_RELAY_FEE_SAT_PER_1000_WEIGHT·w/1000` (BIP-125 rules 3 and 4) and which leaves
        at least the dust limit to the output;
    (c) a `ForceBump` of a feerate ≥ 4 sat/kW is always such a replacement. -/
theorem feerate_bump_monotone (w inp dust prev : Nat) (s : FeerateStrategy) (est fee' rate' : Nat)
    (h : feerateBump w inp dust prev s est = some (fee', rate')) :
    (4 ≤ w → prev ≤ rate') ∧
    ((rate' = prev ∧ fee' = prev * w / 1000) ∨
     (prev * w / 1000 + INCREMENTAL_RELAY_FEE_SAT_PER_1000_WEIGHT * w / 1000 ≤ fee' ∧ dust ≤ inp - fee')) ∧
    (s = .forceBump → 4 ≤ prev →
      prev * w / 1000 + INCREMENTAL_RELAY_FEE_SAT_PER_1000_WEIGHT * w / 1000 ≤ fee') :=
  feerate_bump_monotone_core w inp dust prev s est fee' rate' h

/-- **feerate_bump_none_only_if_unpayable** — `feerate_bump` gives up (`None`) only when the inputs
    cannot pay: half of the spent amount does not reach the feerate floor on this weight, or the
    inputs minus the fee that would be required (the larger of: half the inputs, 125 % of the
    previous fee, previous fee + relay increment) would fall below the dust limit. -/
theorem feerate_bump_none_only_if_unpayable (w inp dust prev : Nat) (s : FeerateStrategy) (est : Nat)
    (h : feerateBump w inp dust prev s est = none) :
    computeFeerateSatPer1000Weight (inp / 2) w < FEERATE_FLOOR_SATS_PER_KW ∨
    inp < dust + Nat.max (Nat.max (inp / 2) ((prev + prev / 4) * w / 1000))
              (prev * w / 1000 + INCREMENTAL_RELAY_FEE_SAT_PER_1000_WEIGHT * w / 1000) :=
  feerate_bump_none_core w inp dust prev s est h

/-! ### Non-vacuity (sanity runs of the executable model, not the claim) -/

-- a 5-commitment history on a 3-bit number space with a free symbolic hash; commitment 1 (revoked)
-- has a to_local, the victim's to_remote, one offered and one received non-dust HTLC and a dust one
def b0 : Body := { outputs := [(5000, .toRemote), (90000, .toLocal)], htlcs := [] }
def b1 : Body :=
  { outputs := [(330, .anchor), (2000, .htlc), (3000, .htlc), (5000, .toRemote), (80000, .toLocal)],
    htlcs := [⟨2000999, true, 500, some 1⟩, ⟨100000, false, 510, none⟩, ⟨3000000, false, 520, some 2⟩] }
def P3 : Params C05.Sym := { B := 3, zero := .zero, flip := .flip, H := .hash }
def hist : List Body := [b0, b1, b0, b1, b0]

example : Body.WF b1 := by
  constructor
  · intro h hh i hi
    simp only [b1, List.mem_cons, List.mem_nil_iff, or_false] at hh
    rcases hh with rfl | rfl | rfl
    · cases hi; rfl
    · cases hi
    · cases hi; rfl
  · intro i sat hget
    match i with
    | 0 | 4 | 3 => simp [b1] at hget
    | 1 => exact ⟨⟨2000999, true, 500, some 1⟩, by simp [b1], rfl⟩
    | 2 => exact ⟨⟨3000000, false, 520, some 2⟩, by simp [b1], rfl⟩
    | n + 5 => simp [b1] at hget
-- the revoked commitment 1 confirms: to_local (4) and both HTLC outputs (1, 2) are claimed …
example : punish P3 (monitorAfter P3 .seed hist none) (numberOf P3 1) (b1.tx (secretOf P3 .seed (numberOf P3 1))) []
    = [.commit 4, .commit 1, .commit 2] := by decide
-- … with the cheater's HTLC transaction on output 2 confirmed, its output is claimed instead
example : punish P3 (monitorAfter P3 .seed hist none) (numberOf P3 1) (b1.tx (secretOf P3 .seed (numberOf P3 1))) [[2]]
    = [.commit 4, .commit 1, .second 0 0] := by decide
-- the CURRENT commitment (4, not revoked) is not punished, nor is a transaction keyed by another secret
example : punish P3 (monitorAfter P3 .seed hist none) (numberOf P3 4) (b0.tx (secretOf P3 .seed (numberOf P3 4))) [] = [] := by decide
example : onConfirmRevoked P3 (monitorAfter P3 .seed hist none) (numberOf P3 1) (b1.tx (secretOf P3 .seed (numberOf P3 2)))
    = [.commit 1, .commit 2] := by decide
-- sources are pruned, data stays
example : (monitorAfter P3 .seed hist none).claimable.get (numberOf P3 1) =
    some [(⟨2000999, true, 500, some 1⟩, false), (⟨100000, false, 510, none⟩, false), (⟨3000000, false, 520, some 2⟩, false)] := by decide
-- the same through the layout of `Spec.body` (to_remote, 2 anchors, 2 non-dust HTLCs around a dust one, to_local)
def sp1 : Spec := { toLocalSat := some 80000, toRemoteSat := some 5000, anchors := true, htlcs := [⟨2000999, true, 500, true⟩, ⟨100000, false, 510, false⟩, ⟨3000000, false, 520, true⟩] }
def sp0 : Spec := { toLocalSat := some 90000, toRemoteSat := none, anchors := false, htlcs := [] }
example : sp1.body.htlcs.map (·.outIdx) = [some 3, none, some 4] ∧ sp1.body.outputs.length = 6 := by decide
example : punish P3 (monitorAfter P3 .seed ([sp0, sp1, sp0].map Spec.body) none) (numberOf P3 1)
    (sp1.body.tx (secretOf P3 .seed (numberOf P3 1))) [[4]] = [.commit 5, .commit 3, .second 0 0] := by decide
-- bump timer and fee bump
example : getHeightTimer 100 120 [.revokedOutput] = 115 ∧ getHeightTimer 100 110 [.revokedOutput] = 103 ∧
    getHeightTimer 100 102 [.revokedHTLCOutput, .revokedOutput] = 101 ∧ getHeightTimer 100 0 [.revokedHTLCOutput] = 115 := by decide
example : feerateBump 1000 100000 546 1000 .forceBump 253 = some (1253, 1253) := by decide
example : feerateBump 1000 100000 546 1000 .retryPrevious 5000 = some (1000, 1000) := by decide
example : feerateBump 1000 100000 546 1000 .highestOfPreviousOrNew 5000 = some (5000, 5000) := by decide
example : feerateBump 1000 1500 546 1000 .forceBump 253 = none := by decide
-- the weight hypothesis of `feerate_bump_monotone` is needed: on a 1-WU "transaction" integer
-- division makes the re-derived feerate 0
example : feerateBump 1 100000 546 1000 .forceBump 253 = some (1, 1000) := by decide
example : feerateBump 3 100000 546 1000 .forceBump 253 = some (3, 1000) := by decide

/-! ## Re-organisations: the claims of Model/JusticeChain.lean over ALL chain histories -/

section Reorg
open Ldk.Justice Ldk.JusticeGen

/-- **creation_height_is_confirmation_height** — about the expressions TRANSLATED from the Rust source
    (check_spend_counterparty_transaction / check_spend_counterparty_htlc call sites, RevokedOutput::build /
    RevokedHTLCOutput::build, update_claims_view_from_requests): for ALL heights, CSV delays and HTLC data, the
    `outpoint_confirmation_height` handed to every justice package — on the revoked commitment's to_local, on each of its HTLC
    outputs, on the output of a second-stage transaction — is the height of the block that confirms the transaction whose
    output the claim spends; it is stored and read back unchanged, so that is the `creation_height` registered in
    `claimable_outpoints`. -/
theorem creation_height_is_confirmation_height (h csv : Nat) (offered : Bool) (cltv : Nat) :
    toLocalCreationHeight h csv = h ∧ htlcCreationHeight h csv offered cltv = h ∧ secondStageCreationHeight h csv = h ∧
    (∀ c conf, registeredCreationHeight (revokedOutputStored c) conf = c) ∧
    (∀ c conf, registeredCreationHeight (revokedHtlcOutputStored c) conf = c) ∧
    (∀ (W : World) (kd : Kind), creationHeight W kd h = h) := by
  refine ⟨rfl, rfl, rfl, fun _ _ => rfl, fun _ _ => rfl, fun W kd => creationHeight_eq W kd h⟩

/-- **disconnect_rule** — the translated retain condition of `OnchainTxHandler::blocks_disconnected`: an entry of
    `claimable_outpoints` (and its whole request) is removed iff its creation height is above the new tip; an awaiting
    `Claim` / `ContentiousOutpoint` event is undone iff its height is above the new tip; events mature after
    ANTI_REORG_DELAY − 1 further blocks; both disconnect paths of the monitor hand the new tip height on unchanged and
    `transaction_unconfirmed` of a transaction confirmed at `h` acts like a disconnection down to `h − 1`; a pending request
    is re-issued in the block at height `h` iff its timer is `≤ h` (translated `cur_height >= request.timer()`). -/
theorem disconnect_rule (created s n h t : Nat) :
    (claimDropped created n = true ↔ n < created) ∧ (awaitingDropped s n = true ↔ n < s) ∧
    (handlerThresholdReached s h = true ↔ s + ANTI_REORG_DELAY - 1 ≤ h) ∧
    monitorDisconnectNewBest n = n ∧ unconfirmedNewBest h = h - 1 ∧ (timerExpired h t = true ↔ t ≤ h) :=
  ⟨claimDropped_iff created n, awaitingDropped_iff s n, reached_iff s h, rfl, rfl, timerExpired_iff h t⟩

/-- **justice_claim_pending** — for EVERY world (claimable outputs, second-stage transactions, CSV), EVERY start height and
    EVERY history of block connections (with any consistent mix of the cheater's commitment / second-stage transactions and
    the victim's justice transactions, in any blocks), disconnections of any depth and fork point (that do not undo a
    transaction with ANTI_REORG_DELAY confirmations), rebroadcasts and reloads: for every claimable output `X` of a
    transaction that is confirmed on the best chain at height `hp`, either `X` is spent by a FINAL (ANTI_REORG_DELAY-deep)
    transaction, or a justice claim for `X` is pending whose recorded creation height is `hp` and whose awaiting-spend
    marker agrees with the chain. -/
theorem justice_claim_pending (W : World) (h0 : Nat) (ops : List Op) (st : St) (hrun : run W (St.init h0) ops = some st)
    (X : Outpoint) (hk : (W.kindOf X).isSome) (hp : Nat) (hconf : st.chain.conf (parentOf X) = some hp) :
    (∃ sp, st.chain.spent X = some sp ∧ sp.final = true) ∨
    (∃ c, st.claim X = some c ∧ c.created = hp ∧ c.spentAt = (st.chain.spent X).map (·.height)) := by
  have hi := inv_run ops (inv_init W h0) hrun
  rcases hi.cover X hk (by rw [hconf]; rfl) with hcl | hfin
  · right
    obtain ⟨c, hc⟩ := Option.isSome_iff_exists.1 hcl
    have h1 := (hi.created X c hc).2
    rw [hconf] at h1
    exact ⟨c, hc, (Option.some.inj h1).symm, (hi.spent X c hc).1⟩
  · left; exact hfin

/-- **claim_survives_reorg** — in every reachable state, for every disconnection the model accepts (any depth): a pending
    claim survives iff the transaction whose output it spends is still confirmed — and then with the same creation height —
    and is dropped iff that transaction was disconnected (`conf = none` ⟺ it was confirmed above the new tip).  Nothing
    else can drop a claim at a disconnection. -/
theorem claim_survives_reorg (W : World) (h0 : Nat) (ops : List Op) (st : St) (hrun : run W (St.init h0) ops = some st)
    (n : Nat) (st' : St) (bc : List Outpoint) (hd : disconnect W st n = some (st', bc))
    (X : Outpoint) (c : Claim) (hc : st.claim X = some c) :
    (st'.chain.conf (parentOf X) = none ↔ n < c.created) ∧
    ((st'.chain.conf (parentOf X)).isSome → ∃ c', st'.claim X = some c' ∧ c'.created = c.created) ∧
    (st'.chain.conf (parentOf X) = none → st'.claim X = none) := by
  have hi := inv_run ops (inv_init W h0) hrun
  have hcr := (hi.created X c hc).2
  obtain ⟨_, _, _, rfl⟩ := disconnect_some hd
  simp only [hcr]
  by_cases hlt : n < c.created
  · rw [if_pos hlt]
    refine ⟨Iff.intro (fun _ => hlt) (fun _ => rfl), ?_, ?_⟩
    · intro h; cases h
    · intro _; exact afterDisconnect_dropped hc hlt
  · rw [if_neg hlt]
    refine ⟨Iff.intro (fun h => by cases h) (fun h => absurd h hlt), ?_, ?_⟩
    · intro _; exact afterDisconnect_kept hc (by omega)
    · intro h; cases h

/-- **reissued_at_timer_expiry** — in every reachable state, for every block the model accepts: after the block every claim
    without a confirmed spend has its height timer strictly in the future; and if the claim is new, or its timer had
    expired (`timer ≤` the new height, the code's `cur_height >= request.timer()`), then its outpoint is among those the
    victim's broadcasts of this block spend and its next timer is at most LOW_FREQUENCY_BUMP_INTERVAL blocks away (the
    bounds of the TRANSLATED `get_height_timer`, `bump_progress`). -/
theorem reissued_at_timer_expiry (W : World) (h0 : Nat) (ops : List Op) (st : St) (hrun : run W (St.init h0) ops = some st)
    (txs : List BTx) (st' : St) (bc : List Outpoint) (hc : connect W st txs = some (st', bc))
    (X : Outpoint) (c' : Claim) (hx : st'.claim X = some c') (hs : c'.spentAt = none) :
    st'.chain.tip < c'.timer ∧
    ((st.claim X = none ∨ ∃ c, st.claim X = some c ∧ c.timer ≤ st'.chain.tip) →
        X ∈ bc ∧ c'.timer ≤ st'.chain.tip + LOW_FREQUENCY_BUMP_INTERVAL) :=
  connect_reissue (inv_run ops (inv_init W h0) hrun) hc X c' hx hs

/-- **rebroadcast_reissues_every_pending_claim** — `rebroadcast_pending_claims` is always possible, changes nothing in the
    bookkeeping, and spends every claimed outpoint that has no confirmed spend; a disconnection never postpones a timer
    (a claim whose confirmed spend is undone is due at once). -/
theorem rebroadcast_reissues_every_pending_claim (W : World) (h0 : Nat) (ops : List Op) (st : St)
    (hrun : run W (St.init h0) ops = some st) :
    step W st .rebroadcast = some (st, active W st) ∧
    (∀ X c, st.claim X = some c → c.spentAt = none → X ∈ active W st) ∧
    (∀ n st' bc, disconnect W st n = some (st', bc) → ∀ X c', st'.claim X = some c' →
        ∃ c, st.claim X = some c ∧ c'.timer ≤ c.timer) := by
  have hi := inv_run ops (inv_init W h0) hrun
  refine ⟨rfl, fun X c hc hs => active_mem hi hc hs, ?_⟩
  intro n st' bc hd X c' hx
  obtain ⟨_, _, _, rfl⟩ := disconnect_some hd
  obtain ⟨c, hc, _, _, hcase⟩ := afterDisconnect_some hx
  refine ⟨c, hc, ?_⟩
  rcases hcase with ⟨_, _, _, _, ht⟩ | ⟨rfl, _⟩
  · omega
  · exact Nat.le_refl _

/-- **revoked_fully_punished_after_reorgs** — the punishment theorem for histories WITH reorgs.  After ANY history the model
    accepts (see `justice_claim_pending`), let the miners confirm one block containing the justice transaction(s) the victim
    currently has pending — spending exactly the outpoints `rebroadcast_pending_claims` re-issues — and ANTI_REORG_DELAY − 1
    further blocks.  That continuation is always accepted (every pending claim spends an existing, unspent output), it does
    not touch the cheater's transactions, afterwards NOTHING is pending, and every claimable output of every transaction of
    the cheater that is confirmed on the best chain is spent by a FINAL transaction which is the victim's — or is the
    cheater's confirmed second-stage transaction, every claimable output of which is in turn finally spent by the victim.
    (The cheater can spend a to_local / second-stage output itself only after the CSV delay: consensus, see `assumptions`.) -/
theorem revoked_fully_punished_after_reorgs (W : World) (h0 : Nat) (ops : List Op) (st : St)
    (hrun : run W (St.init h0) ops = some st) :
    ∃ st', run W st (.connect [.justice (active W st)] :: List.replicate (ANTI_REORG_DELAY - 1) (.connect [])) = some st' ∧
      st'.chain.conf = st.chain.conf ∧ (∀ X, st'.claim X = none) ∧
      ∀ X, (W.kindOf X).isSome → (st'.chain.conf (parentOf X)).isSome →
        ∃ sp, st'.chain.spent X = some sp ∧ sp.final = true ∧
          (sp.byVictim = true ∨
           ∃ k v, X = .commit v ∧ v ∈ W.second k ∧ (st'.chain.conf (.second k)).isSome ∧
             ∀ i, (W.kindOf (.second k i)).isSome →
               ∃ sp2, st'.chain.spent (.second k i) = some sp2 ∧ sp2.final = true ∧ sp2.byVictim = true) := by
  have hi := inv_run ops (inv_init W h0) hrun
  obtain ⟨st', hr, hi', hconf, hnone⟩ := drain_all hi
  refine ⟨st', hr, hconf, hnone, ?_⟩
  have hfin : ∀ X, (W.kindOf X).isSome → (st'.chain.conf (parentOf X)).isSome →
      ∃ sp, st'.chain.spent X = some sp ∧ sp.final = true := by
    intro X hk hc
    rcases hi'.cover X hk hc with hcl | h
    · rw [hnone X] at hcl; cases hcl
    · exact h
  intro X hk hc
  obtain ⟨sp, hs, hf⟩ := hfin X hk hc
  refine ⟨sp, hs, hf, ?_⟩
  cases hb : sp.byVictim with
  | true => left; rfl
  | false =>
    right
    obtain ⟨k, v, hx, hv, hck⟩ := hi'.cheater X sp hs hb
    refine ⟨k, v, hx, hv, by rw [hck]; rfl, ?_⟩
    intro i hki
    obtain ⟨sp2, hs2, hf2⟩ := hfin (.second k i) hki (by simp only [parentOf, hck]; rfl)
    refine ⟨sp2, hs2, hf2, ?_⟩
    cases hb2 : sp2.byVictim with
    | true => rfl
    | false =>
      obtain ⟨_, _, hx2, _, _⟩ := hi'.cheater _ sp2 hs2 hb2
      cases hx2

variable {S : Type} [DecidableEq S]

omit [DecidableEq S] in
private theorem notSpent_nil (X : Outpoint) : notSpent [] X = true := by
  cases X <;> simp [notSpent]

/-- **world_covers_every_revoked_output** — the chain theorems above are about the RIGHT set of outputs: for every channel
    history (as in `revoked_fully_claimed`), every revoked commitment `j` of it and every list `held` of second-stage
    transactions the cheater holds — each given input by input, `some v` for an input spending commitment output `v`, `none`
    for any other input (fee inputs before, between or after the HTLC inputs; several HTLC inputs) — the world
    `World.ofMonitor` (what the monitor model of Model/Punish.lean claims) makes every to_local / HTLC output of the revoked
    commitment claimable, makes output `p` of held transaction `k` claimable for EVERY input position `p` that spends the
    commitment, and nothing else on the commitment (not the victim's to_remote, not an anchor). -/
theorem world_covers_every_revoked_output (P : Secrets.Params S) (seed : S) (specs : List Spec) (pending : Option Spec)
    (hlen : specs.length + (if pending.isSome then 1 else 0) ≤ 2 ^ P.B) (j : Nat) (hj : j + 1 < specs.length)
    (sp : Spec) (hsp : specs[j]? = some sp) (held : List (List (Option Nat))) (csv : Nat) :
    let m := monitorAfter P seed (specs.map Spec.body) (pending.map Spec.body)
    let n := numberOf P j
    let b := sp.body
    let W := World.ofMonitor P m n (b.tx (secretOf P seed n)) held csv
    (∀ i sat k, b.outputs[i]? = some (sat, k) → k = .toLocal ∨ k = .htlc → (W.kindOf (.commit i)).isSome) ∧
    (∀ k t p v, held[k]? = some t → t[p]? = some (some v) → (W.kindOf (.second k p)).isSome) ∧
    (∀ i, (W.kindOf (.commit i)).isSome → ∃ sat k, b.outputs[i]? = some (sat, k) ∧ (k = .toLocal ∨ k = .htlc)) ∧
    W.inputs = held := by
  intro m n b W
  have hall : W.allOutpoints = onConfirmRevoked P m n (b.tx (secretOf P seed n)) ++ allSecondClaimsAt 0 held :=
    ofMonitor_allOutpoints P m n _ held csv
  obtain ⟨hdirect, hcov, _, honly⟩ := revoked_fully_claimed P seed specs pending hlen j hj sp hsp []
  obtain ⟨hsec, _⟩ := revoked_secret_available_in_monitor P seed (specs.map Spec.body) (pending.map Spec.body)
    (by cases pending <;> simp at hlen ⊢ <;> omega) j (by simpa using hj)
  have hpun : punish P m n (b.tx (secretOf P seed n)) [] = onConfirmRevoked P m n (b.tx (secretOf P seed n)) := by
    have hs : Secrets.getSecret P m.store n = some (secretOf P seed n) := hsec
    simp only [punish, hs, allSecondClaims, List.append_nil]
    exact List.filter_eq_self.2 (fun X _ => notSpent_nil X)
  refine ⟨?_, ?_, ?_, rfl⟩
  · intro i sat k hget hk
    apply mem_kindOf_isSome
    rw [hall, List.mem_append]
    left
    rcases hcov i sat k hget hk with hm | ⟨t, ht, _⟩
    · rw [← hpun]; exact hm
    · cases ht
  · intro k t p v hget hp
    apply mem_kindOf_isSome
    rw [hall, List.mem_append]
    right
    exact (mem_allSecondClaimsAt 0 held _).2 ⟨k, p, t, v, by simp, hget, hp⟩
  · intro i hk
    have hm := kindOf_isSome_mem hk
    rw [hall, List.mem_append] at hm
    rcases hm with hm | hm
    · exact honly i (by rw [hpun]; exact hm)
    · exact absurd hm (commit_not_mem_allSecondClaimsAt 0 held i)

/-- **second_stage_tx_always_matched** — about `filter_block`, whose `matches` expression is TRANSLATED from the Rust source
    on every run (Generated/Justice.lean `filterMatches`): (1) a transaction of a block is handed to the monitor's spend checks
    iff it spends a watched output or ANY of its inputs — at ANY position, whatever the other inputs are — spends a transaction
    matched earlier in the same block; (2) therefore, in EVERY reachable state and for EVERY block the model accepts (the
    revoked commitment, second-stage transactions with fee inputs before / between / after their HTLC inputs or several HTLC
    inputs, the victim's transactions, in the same block as their parents or in later blocks, in any order the chain allows),
    filtering the block against the outputs watched BEFORE it and processing only the matched transactions is the same as
    processing every transaction: no second-stage transaction spending the revoked commitment is ever dropped, so
    `justice_claim_pending` holds for its outputs. -/
theorem second_stage_tx_always_matched :
    (∀ (α : Type) [DecidableEq α] (sw : Bool) (ins matched : List α),
        filterMatches sw ins matched = true ↔ (sw = true ∨ ∃ i, i ∈ ins ∧ i ∈ matched)) ∧
    (∀ (W : World) (h0 : Nat) (ops : List Op) (st : St), run W (St.init h0) ops = some st →
        ∀ txs, connect W st txs = connectAll W st txs) := by
  refine ⟨fun α _ sw ins matched => filterMatches_iff sw ins matched, ?_⟩
  intro W h0 ops st hrun txs
  exact connect_eq_all (inv_run ops (inv_init W h0) hrun) txs

/-! ### Non-vacuity of the chain part (sanity runs of the executable model, not the claim) -/

-- to_local = output 1, an offered HTLC = output 0 (its second-stage transaction S0 spends it), CSV 144
def W0 : World :=
  { outs := [(.commit 1, .toLocal), (.commit 0, .htlc true 500), (.second 0 0, .secondStage)], inputs := [[some 0]], csv := 144 }
def created (r : Option St) (X : Outpoint) : Option Nat := r.bind fun st => (st.claim X).map (·.created)
def awaiting (r : Option St) (X : Outpoint) : Option (Option Nat) := r.bind fun st => (st.claim X).map (·.spentAt)
-- the commitment confirms at 101, S0 at 102, one more block
def hist0 : List Op := [.connect [.commit], .connect [.second 0], .connect []]
example : created (run W0 (St.init 100) hist0) (.commit 1) = some 101 ∧ created (run W0 (St.init 100) hist0) (.second 0 0) = some 102 ∧
    awaiting (run W0 (St.init 100) hist0) (.commit 0) = some (some 102) := by decide
-- a reorg ABOVE S0 (the seeded C06-a history) keeps the second-stage claim, with its creation height
example : created (run W0 (St.init 100) (hist0 ++ [.disconnect 102, .connect []])) (.second 0 0) = some 102 := by decide
-- a reorg BELOW S0 drops it and un-spends the HTLC output, whose claim is due again
example : created (run W0 (St.init 100) (hist0 ++ [.disconnect 101])) (.second 0 0) = none ∧
    awaiting (run W0 (St.init 100) (hist0 ++ [.disconnect 101])) (.commit 0) = some none := by decide
-- a reorg below the commitment drops everything; re-confirmation (one block later) regenerates the claims at the new height
example : created (run W0 (St.init 100) (hist0 ++ [.disconnect 100])) (.commit 1) = none ∧
    created (run W0 (St.init 100) (hist0 ++ [.disconnect 100, .connect [], .connect [.commit, .second 0]])) (.commit 1) = some 102 := by decide
-- inconsistent blocks are rejected: a second-stage transaction without the commitment, a double spend, a too-deep reorg
example : (run W0 (St.init 100) [.connect [.second 0]]).isNone ∧
    (run W0 (St.init 100) [.connect [.commit], .connect [.justice [.commit 0]], .connect [.second 0]]).isNone ∧
    (run W0 (St.init 100) ([.connect [.commit], .connect [.justice [.commit 0, .commit 1]]] ++ List.replicate 5 (.connect []) ++ [.disconnect 101])).isNone := by decide
-- re-issue: the broadcast list of a block names the new claims; 15 blocks later the to_local claim is re-issued
example : (step W0 (St.init 100) (.connect [.commit])).map (·.2) = some [.commit 1, .commit 0] := by decide
-- an anchor-style second-stage transaction: fee input FIRST, then the HTLC input (claimed output = index 1), in the SAME block as
-- the commitment, after it: matched through the parent/child rule of the filter, its output is claimed
def W1 : World :=
  { outs := [(.commit 1, .toLocal), (.commit 0, .htlc false 500), (.second 0 1, .secondStage)], inputs := [[none, some 0]], csv := 144 }
example : created (run W1 (St.init 100) [.connect [.commit, .second 0]]) (.second 0 1) = some 101 ∧
    awaiting (run W1 (St.init 100) [.connect [.commit, .second 0]]) (.commit 0) = some (some 101) := by decide
-- a "first input only" filter would have dropped it: the first input is not the commitment's
example : (inputRefs W1 (.second 0)).head? = some .other ∧ spendsWatched W1 (St.init 100).seen (.second 0) = false := by decide
end Reorg

/-! ## the package layer of OnchainTxHandler (Model/Packages.lean; decisions translated: Generated/Packages.lean) -/

section Packages
open Ldk.Packages Ldk.PkgLayer Ldk.JusticeGen

/-- **revoked_to_local_deadline_is_counterparty_csv** — the `counterparty_spendable_height` the monitor gives the justice package of the
    revoked `to_local` output (and of a revoked second-stage output) is the confirmation height plus the delay IN THE CHEATER'S SCRIPT
    (`counterparty_commitment_params.on_counterparty_tx_csv`), whatever the delay on our own outputs is (`on_holder_tx_csv`, a translatable
    name too: a call site that picks the wrong delay changes the generated definition and refutes this theorem) — so the bump schedule
    (`get_height_timer`, translated) re-issues the claim EVERY block once the cheater's CSV is at most MIDDLE_FREQUENCY_BUMP_INTERVAL away. -/
theorem revoked_to_local_deadline_is_counterparty_csv (h csv holderCsv cur : Nat) :
    toLocalSpendableHeight h csv holderCsv = h + csv ∧ secondStageSpendableHeight h csv holderCsv = h + csv ∧
    (h + csv ≤ cur + MIDDLE_FREQUENCY_BUMP_INTERVAL →
      getHeightTimer cur (toLocalSpendableHeight h csv holderCsv) [.revokedOutput] = cur + HIGH_FREQUENCY_BUMP_INTERVAL) := by
  refine ⟨rfl, rfl, fun hle => ?_⟩
  have h1 : HIGH_FREQUENCY_BUMP_INTERVAL = 1 := rfl
  have h2 : MIDDLE_FREQUENCY_BUMP_INTERVAL = 3 := rfl
  have h3 : LOW_FREQUENCY_BUMP_INTERVAL = 15 := rfl
  simp only [getHeightTimer, List.foldl_cons, List.foldl_nil, heightTimerStep, timerForTargetConf, toLocalSpendableHeight,
    decide_eq_true_eq, if_pos hle, Nat.min_def]
  split <;> omega

example : getHeightTimer 140 (toLocalSpendableHeight 100 42 2016) [.revokedOutput] = 141 := by decide

/-- **justice_claim_output_and_fee** — the arithmetic half of "consensus-valid justice transactions" (`compute_package_output`,
    `compute_fee_from_spent_amounts`, `feerate_bump`, all TRANSLATED): whenever a self-funded claim over inputs worth `amt` is built
    with predicted weight `w`, its single output is never below the dust limit; the fee it is computed from covers the recorded feerate
    over EVERY actual weight `≤ w` (`package_weight`, translated into `packageWeight` / `inputWeight`, is compared with the real weight of
    every broadcast justice transaction by the harness, and asserted by generate_claim itself); output + fee = inputs exactly whenever
    the inputs leave at least dust after the fee — always on the first issue of a claim worth at least twice the dust limit, where the
    fee is at most half of the inputs. -/
theorem justice_claim_output_and_fee (amt w dust prev : Nat) (s : FeerateStrategy) (est out rate : Nat) (hd : 0 < dust)
    (h : computePackageOutput amt w dust prev s est = some (out, rate)) :
    dust ≤ out ∧ ∃ fee, (∀ actual, actual ≤ w → rate * actual / 1000 ≤ fee) ∧
      (dust ≤ amt - fee → out + fee = amt) ∧ (prev = 0 → 2 * dust ≤ amt → out + fee = amt) := by
  obtain ⟨h1, fee, hout, hfee, hhalf⟩ := package_output_sound amt w dust prev s est out rate h
  refine ⟨h1, fee, hfee, fun hle => ?_, fun hp h2 => ?_⟩
  · rw [hout, pf_nat_max_eq]; omega
  · have := hhalf hp
    rw [hout, pf_nat_max_eq]; omega

example : computePackageOutput 100000 600 330 0 .forceBump 2000 = some (98800, 2000) ∧ packageWeight 22 [inputWeight false true .revokedHTLCOutput, inputWeight false false .revokedOutput] = 892 := by decide

variable {α : Type} [DecidableEq α]

/-- **package_split_never_drops** — the split loop of update_claims_view_from_matched_txn (split_package for every input of a confirmed
    transaction) loses nothing: an outpoint of the request is still in the request afterwards, or it is an input of that transaction and
    was handed back as a single-outpoint package (which becomes a `ContentiousOutpoint` entry). -/
theorem package_split_never_drops (p : Package α) (ins : List α) (x : α) (hx : x ∈ p.outpoints) :
    x ∈ (splitAll p ins).1.outpoints ∨ (x ∈ ins ∧ ∃ d ∈ (splitAll p ins).2, d.outpoints = [x]) :=
  splitAll_never_drops p ins x hx

def exPkg : Package Nat :=
  { inputs := [(0, { kind := .revokedOutput }), (1, { kind := .revokedHTLCOutput }), (2, { kind := .revokedHTLCOutput })], mall := .malleable .unpinnable, spendable := 200, feerate := 253, timer := 115 }
example : ((splitAll exPkg [1, 7]).1.outpoints, (splitAll exPkg [1, 7]).2.map (·.outpoints)) = ([0, 2], [[1]]) := by decide

/-- **package_merge_never_drops_takes_minimum** — merge_package keeps every outpoint of both packages and takes the MINIMUM of the two
    height timers, the two previous feerates and the two counterparty_spendable_heights (translated assignments). -/
theorem package_merge_never_drops_takes_minimum (p q r : Package α) (cur : Nat) (h : p.merge q cur = some r) :
    r.outpoints = p.outpoints ++ q.outpoints ∧ r.timer = min p.timer q.timer ∧ r.feerate = min p.feerate q.feerate ∧
    r.spendable = min p.spendable q.spendable :=
  ⟨merge_outpoints p q r cur h, merge_minimum p q r cur h⟩

/-- **package_timer_not_later_than_member** — `get_height_timer` of an aggregated package is never later than the `get_height_timer` any of
    its members would have alone (also with the member's own, possibly later, counterparty_spendable_height: a merged package keeps the
    minimum), and the stored `height_timer` of a merged package is never later than either part's: the re-issue guarantees of Model/JusticeChain.lean
    (one timer per outpoint) lift to packages. -/
theorem package_timer_not_later_than_member (p q r : Package α) (cur now : Nat) (h : p.merge q cur = some r) :
    (∀ e ∈ p.inputs, r.heightTimer now ≤ getHeightTimer now p.spendable [e.2.kind]) ∧
    (∀ e ∈ q.inputs, r.heightTimer now ≤ getHeightTimer now q.spendable [e.2.kind]) ∧
    r.timer ≤ p.timer ∧ r.timer ≤ q.timer := by
  obtain ⟨ht, _, hs⟩ := merge_minimum p q r cur h
  have hin : r.inputs = p.inputs ++ q.inputs := by
    unfold Package.merge at h; split at h
    · cases h; rfl
    · cases h
  refine ⟨fun e he => ?_, fun e he => ?_, by omega, by omega⟩
  · exact heightTimer_le_member now r.spendable p.spendable r.kinds e.2.kind
      (by unfold Package.kinds; rw [hin]; exact List.mem_map.mpr ⟨e, List.mem_append_left _ he, rfl⟩) (by omega)
  · exact heightTimer_le_member now r.spendable q.spendable r.kinds e.2.kind
      (by unfold Package.kinds; rw [hin]; exact List.mem_map.mpr ⟨e, List.mem_append_right _ he, rfl⟩) (by omega)

def exP : Package Nat := { inputs := [(0, { kind := .revokedOutput })], mall := .malleable .unpinnable, spendable := 300, feerate := 500, timer := 130 }
def exQ : Package Nat := { inputs := [(1, { kind := .revokedHTLCOutput, offered := true })], mall := .malleable .unpinnable, spendable := 250, feerate := 253, timer := 115 }
example : (exP.merge exQ 100).map (fun r => (r.outpoints, r.spendable, r.feerate, r.timer)) = some ([0, 1], 250, 253, 115) := by decide

/-- **no_pending_package_keeps_a_spent_outpoint** (partition, block level) — for EVERY handler state satisfying the consistency check
    `wfB` (evaluated on every real handler state by the differential) and EVERY block the model accepts, with any number of transactions
    spending any outpoints in any order: after update_claims_view_from_matched_txn a pending request that still contains an outpoint spent
    by a transaction of the block is ENTIRELY spent by the block and has its `Claim` entry at that height (it is only kept for
    ANTI_REORG_DELAY); every other pending request contains no outpoint whose spend confirmed in the block.  Uses the TRANSLATED branch
    condition `splitBranch`. -/
theorem no_pending_package_keeps_a_spent_outpoint (height : Nat) (feeOk : Nat → Bool) (h0 : Handler α) (txs : List (Tx α))
    (hwf : h0.wfB = true) (r : BlockResult α) (hr : connectBlock height feeOk h0 txs = some r) :
    ∀ e ∈ r.handler.pending, ∀ o ∈ e.2.outpoints, o ∈ blockSpent txs →
      hasClaimAt r.handler.events e.1 height ∧ ∀ o' ∈ e.2.outpoints, o' ∈ blockSpent txs :=
  connectBlock_no_spent_outpoint_left height feeOk h0 txs (wfB_sound h0 hwf) r hr

/-- **reissue_spends_only_unspent_outpoints** — … and every claim (re)issued while the block is processed (the replacement of a request
    that transactions of the block split, and every timer bump) spends only outpoints that NO transaction of the block spends.  Uses the
    TRANSLATED queueing rule `bumpInsertOverwrites` (the bump candidate is the request after ALL splits of the block). -/
theorem reissue_spends_only_unspent_outpoints (height : Nat) (feeOk : Nat → Bool) (h0 : Handler α) (txs : List (Tx α))
    (hwf : h0.wfB = true) (r : BlockResult α) (hr : connectBlock height feeOk h0 txs = some r) :
    ∀ i ∈ r.issued, ∀ o ∈ i.spends, o ∉ blockSpent txs :=
  connectBlock_reissue_spends_unspent height feeOk h0 txs (wfB_sound h0 hwf) r hr

/-- **remaining_package_still_covers_the_rest** — after a counterparty second-stage spend (any block, any transactions): every outpoint of a
    pending request that NO transaction of the block spends is still an outpoint of the pending request with the same claim id — the only
    exception being a request whose complete spend (an earlier `Claim` entry) has just reached ANTI_REORG_DELAY confirmations.  (The output
    of the second-stage transaction itself is a NEW request: `regClaims` of Model/JusticeChain.lean, `justice_claim_pending`.) -/
theorem remaining_package_still_covers_the_rest (height : Nat) (feeOk : Nat → Bool) (h0 : Handler α) (txs : List (Tx α))
    (hwf : h0.wfB = true) (r : BlockResult α) (hr : connectBlock height feeOk h0 txs = some r) :
    ∀ e0 ∈ h0.pending, ∀ o ∈ e0.2.outpoints, o ∉ blockSpent txs →
      (∃ e ∈ r.handler.pending, e.1 = e0.1 ∧ o ∈ e.2.outpoints) ∨
      (∃ t hg, Ev.claim e0.1 t hg ∈ h0.events ∧ handlerThresholdReached hg height = true) :=
  connectBlock_rest_still_covered height feeOk h0 txs (wfB_sound h0 hwf) r hr

/-- **aggregation_never_drops** — the aggregation loop of update_claims_view_from_requests (`can_merge_with` / `merge_package`, translated)
    issues requests that claim exactly the outpoints of the requests it was given, for every list of requests and every height. -/
theorem aggregation_never_drops (cur : Nat) (reqs : List (Package α)) (x : α) :
    x ∈ (aggregate cur reqs).flatMap Package.outpoints ↔ x ∈ reqs.flatMap Package.outpoints :=
  aggregate_never_drops cur reqs x

-- to_local (unpinnable, CSV far away) and two offered revoked HTLCs (unpinnable, expiry far away) aggregate into one package; a received one
-- (pinnable: the cheater can take it with the preimage at once) stays on its own
example : (aggregate 100 [exP, exQ, { exQ with inputs := [(2, { kind := .revokedHTLCOutput, offered := true })] },
    ({ inputs := [(3, { kind := .revokedHTLCOutput })], mall := .malleable .pinnable, spendable := 100, feerate := 0, timer := 0 } : Package Nat)]).map (·.outpoints) = [[0, 2, 1], [3]] := by decide

/-- a justice package `{to_local, HTLC_a, HTLC_b}` (claim id 7) and the cheater's TWO single-input HTLC transactions in ONE block -/
def exHandler : Handler Nat :=
  { pending := [(7, { inputs := [(0, { kind := .revokedOutput }), (1, { kind := .revokedHTLCOutput, offered := true }), (2, { kind := .revokedHTLCOutput, offered := true })],
                      mall := .malleable .unpinnable, spendable := 500, feerate := 253, timer := 115 })],
    claimable := [(0, 7, 100), (1, 7, 100), (2, 7, 100)], events := [], locked := [] }
def exBlock : List (Tx Nat) := [⟨11, [1]⟩, ⟨12, [2]⟩]

-- non-vacuity: the state is well-formed, the block accepted, both HTLC outpoints leave the request, ONE replacement claim spending only to_local
example : exHandler.wfB = true ∧
    (connectBlock 101 (fun _ => true) exHandler exBlock).map (fun r =>
      (r.handler.pending.map (fun e => (e.1, e.2.outpoints)), r.issued.map (fun i => (i.id, i.spends)), r.handler.events.length)) =
      some ([(7, [0])], [(7, [0])], 2) := by decide
-- … and a block that spends the whole request: kept, with its `Claim` entry, nothing re-issued
example : (connectBlock 101 (fun _ => true) exHandler [⟨13, [2, 0, 1]⟩]).map (fun r =>
      (r.handler.pending.map (fun e => (e.1, e.2.outpoints)), r.issued.length, r.handler.events)) =
      some ([(7, [0, 1, 2])], 0, [.claim 7 13 101]) := by decide

end Packages

/-! ### the per-FundingScope commitment data while splices / RBF candidates are pending (Model/ScopeData.lean; which element of
    `commitment_txs` feeds which scope is TRANSLATED on every run into Generated/ScopeData.lean by gen_scopedata.py) -/
section Scopes
open Ldk.ScopeData

/-- **scope_data_is_own_commitment** — over ALL histories of monitor updates that touch the per-commitment data (counterparty
    commitments with one transaction per funding scope, funding renegotiations — splices and RBF candidates —, promotions of a pending
    funding), starting from a fresh channel: every HTLC list stored in ANY funding scope (the locked one or a pending one), under
    whatever txid, is the non-dust HTLC list — WITH ITS `transaction_output_index`es — of a commitment transaction of the history
    that has this txid and spends THAT scope's funding output (never the list of the same commitment's version for another
    funding).  The proof needs `Gen.pendingSrc k = Gen.pendingKey k` and `Gen.lockedSrc = Gen.lockedKey` of the TRANSLATED
    definitions: a list built from another scope's transaction (seeded C06-r5) refutes it. -/
theorem scope_data_is_own_commitment (f0 : Nat) (ops : List ScopeData.Op) (m : ScopeData.Mon)
    (hrun : ScopeData.run (ScopeData.Mon.init f0) ops = some m) :
    ∀ s ∈ m.scopes, ∀ e ∈ s.claimable,
      ∃ t ∈ seenTxs ops, t.funding = s.funding ∧ t.txid = e.1 ∧ t.htlcs = e.2 := by
  have hinit : Inv [] (ScopeData.Mon.init f0) := by
    intro s hs e he
    simp only [ScopeData.Mon.init, Mon.scopes, List.mem_cons, List.not_mem_nil, or_false] at hs
    subst hs
    simp at he
  have h := run_inv ops [] _ m hinit hrun
  rw [List.nil_append] at h
  exact h

example : (ScopeData.run (ScopeData.Mon.init 1)
      [.commit [⟨1, 10, [], 9, 1, 253⟩], .reneg ⟨2, 20, [], 9, 1, 253⟩,
       .commit [⟨1, 11, [⟨20000000, true, 100, some 3⟩], 8, 2, 253⟩, ⟨2, 21, [⟨20000000, true, 100, some 2⟩], 8, 2, 253⟩], .promote 2]).map
      (fun m => (m.locked.funding, m.locked.claimable, m.pending.length)) =
    some (2, [(21, [⟨20000000, true, 100, some 2⟩]), (20, [])], 0) := by decide

/-- **revoked_commitment_htlcs_claimed_in_every_scope** — for every such history, every funding scope `s` of the monitor and every
    counterparty commitment txid it has data for: that data belongs to a commitment transaction `t` of the history spending `s`'s
    funding, and when `t` confirms — with ANY output order, as long as `t`'s own indices point at outputs of the HTLCs' values,
    which is what a transaction builder assigning the indices guarantees (`Body.WF`, re-checked on every real commitment) —
    `check_spend_counterparty_transaction`'s loop does not hit its "per_commitment_data is corrupt" early return and produces one
    claim per non-dust HTLC of `t`: no HTLC output of a revoked commitment signed while a splice was pending goes unpunished,
    whichever funding it spends. -/
theorem revoked_commitment_htlcs_claimed_in_every_scope {S : Type} (f0 : Nat) (ops : List ScopeData.Op) (m : ScopeData.Mon)
    (hrun : ScopeData.run (ScopeData.Mon.init f0) ops = some m) (funding txid : Nat) (s : Scope) (l : List Htlc)
    (hs : m.scopes.find? (fun s => s.funding == funding) = some s) (hl : s.claimable.lookup txid = some l) :
    ∃ t ∈ seenTxs ops, t.funding = funding ∧ t.txid = txid ∧
      ∀ tx : List (TxOut S), (∀ h ∈ t.htlcs, ∀ i, h.outIdx = some i → ∃ o, tx[i]? = some o ∧ o.sat = h.sat) →
        htlcClaimsOn m funding txid tx = t.htlcs.filterMap (fun h => h.outIdx.map Outpoint.commit) := by
  have hmem := List.mem_of_find?_eq_some hs
  have hf : s.funding = funding := by simpa using List.find?_some hs
  obtain ⟨t, ht, h1, h2, h3⟩ := scope_data_is_own_commitment f0 ops m hrun s hmem (txid, l) (mem_of_lookup txid _ l hl)
  refine ⟨t, ht, h1.trans hf, h2, ?_⟩
  intro tx hwf
  simp only [htlcClaimsOn, hs, hl]
  simp only at h3
  rw [← h3]
  exact htlcClaims_eq tx t.htlcs hwf

-- the splice version of a commitment has the HTLC at output 2, the pre-splice version at output 3: with each scope's OWN list both
-- are punished; with the other scope's list the value check fails at the stored index and NOTHING is claimed
example : htlcClaims ([⟨330, .anchor⟩, ⟨330, .anchor⟩, ⟨20000, .htlc⟩, ⟨108000, .toRemote⟩, ⟨70000, .revokeable ()⟩] : List (TxOut Unit))
      [⟨20000000, true, 100, some 2⟩] = [.commit 2] ∧
    htlcClaims ([⟨330, .anchor⟩, ⟨330, .anchor⟩, ⟨20000, .htlc⟩, ⟨108000, .toRemote⟩, ⟨70000, .revokeable ()⟩] : List (TxOut Unit))
      [⟨20000000, true, 100, some 3⟩] = [] := by decide

/-- **versions_of_a_commitment_agree** — over ALL histories the monitor accepts (counterparty commitments with one transaction per
    funding scope, renegotiations, promotions; any number of pending scopes): the transactions of EVERY accepted
    update_counterparty_commitment_data call — the versions of one counterparty commitment, one per funding scope — pairwise carry
    the same commitment number and the same per-commitment point (so the ONE per-commitment secret the counterparty later reveals for
    that number — the C05 store — is the revocation secret of the version of EVERY scope, the locked one and every splice / RBF
    candidate: `revoked_commitment_htlcs_claimed_in_every_scope` and the to_local claim need no per-scope secret), the same feerate
    and the same non-dust HTLCs (direction, amount, expiry) in the same order.  The proof goes through the comparisons of
    verify_matching_commitment_transactions and HTLCOutputInCommitment::is_data_equal as TRANSLATED on every run
    (`Gen.versionMismatch`, `Gen.verifyOtherIsPredecessor`, `Gen.isDataEqual`): a dropped or weakened comparison, or a loop that
    no longer chains `other_commitment_tx`, leaves a case of `versionMismatch_none` / `verifyLoop_agree` open. -/
theorem versions_of_a_commitment_agree (f0 : Nat) (ops : List ScopeData.Op) (m : ScopeData.Mon)
    (hrun : ScopeData.run (ScopeData.Mon.init f0) ops = some m) :
    ∀ txs ∈ seenCommits ops, ∀ a ∈ txs, ∀ b ∈ txs,
      a.num = b.num ∧ a.point = b.point ∧ a.feerate = b.feerate ∧
      a.htlcs.map (fun h => (h.offered, h.amtMsat, h.cltv)) = b.htlcs.map (fun h => (h.offered, h.amtMsat, h.cltv)) :=
  run_commits_agree ops _ m hrun

/-- **mismatching_version_refused** — the step-level converse: an update whose transactions for two ADJACENT scopes differ in
    commitment number, per-commitment point, feerate, or in the number / data of their non-dust HTLCs is refused and stores nothing
    (the monitor is unchanged: `step` answers `none`), whatever the scopes are. -/
theorem mismatching_version_refused (m : ScopeData.Mon) (pre : List CTx) (a b : CTx) (post : List CTx)
    (hdiff : a.num ≠ b.num ∨ a.point ≠ b.point ∨ a.feerate ≠ b.feerate ∨
      a.htlcs.map (fun h => (h.offered, h.amtMsat, h.cltv)) ≠ b.htlcs.map (fun h => (h.offered, h.amtMsat, h.cltv))) :
    ScopeData.step m (.commit (pre ++ a :: b :: post)) = none := by
  cases hs : ScopeData.step m (.commit (pre ++ a :: b :: post)) with
  | none => rfl
  | some m' =>
    exfalso
    have hr : ScopeData.run m [.commit (pre ++ a :: b :: post)] = some m' := by simp [ScopeData.run, hs]
    have h := run_commits_agree _ m m' hr (pre ++ a :: b :: post) (by simp [seenCommits]) a (by simp) b (by simp)
    rcases hdiff with h1 | h1 | h1 | h1
    · exact h1 h.1
    · exact h1 h.2.1
    · exact h1 h.2.2.1
    · exact h1 h.2.2.2

-- two scopes: the same commitment in both versions is accepted; a version with another number / point / feerate / HTLC amount is not
example : (ScopeData.run (ScopeData.Mon.init 1)
      [.commit [⟨1, 10, [], 9, 1, 253⟩], .reneg ⟨2, 20, [], 9, 1, 253⟩,
       .commit [⟨1, 11, [⟨20000000, true, 100, some 3⟩], 8, 2, 253⟩, ⟨2, 21, [⟨20000000, true, 100, some 2⟩], 8, 2, 253⟩]]).isSome = true ∧
    [(⟨2, 21, [⟨20000000, true, 100, some 2⟩], 7, 2, 253⟩ : CTx), ⟨2, 21, [⟨20000000, true, 100, some 2⟩], 8, 3, 253⟩,
     ⟨2, 21, [⟨20000000, true, 100, some 2⟩], 8, 2, 254⟩, ⟨2, 21, [⟨20000001, true, 100, some 2⟩], 8, 2, 253⟩, ⟨2, 21, [], 8, 2, 253⟩].all
      (fun v => (ScopeData.run (ScopeData.Mon.init 1)
        [.commit [⟨1, 10, [], 9, 1, 253⟩], .reneg ⟨2, 20, [], 9, 1, 253⟩,
         .commit [⟨1, 11, [⟨20000000, true, 100, some 3⟩], 8, 2, 253⟩, v]]).isNone) = true := by decide

end Scopes

end Ldk.C06
