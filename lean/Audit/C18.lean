import LdkModel.Props.C18
#print axioms Ldk.C18.bech32_single_symbol_detected
#print axioms Ldk.C18.amount_hrp_roundtrip
#print axioms Ldk.C18.bolt11_data_roundtrip
#print axioms Ldk.C18.fes_bytes_roundtrip
#print axioms Ldk.C18.bolt11_sig_covers
#print axioms Ldk.C18.parseTagged_eq_split_interp
#print axioms Ldk.C18.merkle_binding
#print axioms Ldk.C18.merkle_binding_ideal
#print axioms Ldk.C18.merkle_binding_hypothesis_satisfiable
#print axioms Ldk.C18.metadata_verify_iff
#print axioms Ldk.C18.metadata_verify_keys_iff
#print axioms Ldk.C18.payer_metadata_verify_iff
