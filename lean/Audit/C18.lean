import LdkModel.Props.C18
#print axioms Ldk.C18.bech32_single_symbol_detected
