import LdkModel.Props.C16
#print axioms Ldk.C16.route_checker_correct
#print axioms Ldk.C16.driver_verdict_correct
#print axioms Ldk.C16.limit_is_min_of_max_and_capacity
#print axioms Ldk.C16.compute_fees_value
#print axioms Ldk.C16.compute_fees_none_iff_overflow
#print axioms Ldk.C16.compute_fees_monotone
#print axioms Ldk.C16.compute_fees_saturating_agrees
#print axioms Ldk.C16.recompute_fees_sound
#print axioms Ldk.C16.final_raise_pays_policy_fee
#print axioms Ldk.C16.raise_is_reported_as_fee
#print axioms Ldk.C16.min_contribution_covers
#print axioms Ldk.C16.path_count_bounded
#print axioms Ldk.C16.recompute_none_only_on_fee_overflow
