import LdkModel.Props.C17
#print axioms Ldk.C17.accepted_implies_verified
#print axioms Ldk.C17.rejected_unchanged
#print axioms Ldk.C17.never_older_or_equal
#print axioms Ldk.C17.never_older_or_equal_run
#print axioms Ldk.C17.reject_rules
#print axioms Ldk.C17.duplicates_idempotent
#print axioms Ldk.C17.failed_permanent_removed
#print axioms Ldk.C17.node_failed_permanent_removed
#print axioms Ldk.C17.prune_rules
#print axioms Ldk.C17.order_independent
#print axioms Ldk.C17.order_independent_from_empty
#print axioms Ldk.C17.order_independent_updates
#print axioms Ldk.C17.duplicates_anywhere
