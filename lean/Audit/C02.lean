import LdkModel.Props.C02
#print axioms Ldk.C02.satisfies_eq
#print axioms Ldk.C02.admit_ok_iff
#print axioms Ldk.C02.admit_no_loss
#print axioms Ldk.C02.admit_fee_exact
#print axioms Ldk.C02.preimage_durable_before_removal_irrevocable
#print axioms Ldk.C02.blocker_removed_only_when_durable
#print axioms Ldk.C02.raa_only_after_removal
#print axioms Ldk.C02.claim_replayed
#print axioms Ldk.C02.claim_replayed_reachable
#print axioms Ldk.C02.fail_only_after_irrevocable
#print axioms Ldk.C02.never_fulfilled_down_failed_up
#print axioms Ldk.C02.learned_preimage_claims
#print axioms Ldk.C02.forward_no_loss
