import LdkModel.Props.C10
#print axioms Ldk.C10.reload_total_world
#print axioms Ldk.C10.reload_total
#print axioms Ldk.C10.reload_node_total
#print axioms Ldk.C10.stale_manager_closes
#print axioms Ldk.C10.closed_only_if_stale
#print axioms Ldk.C10.stale_closes_from_monitor_partial
#print axioms Ldk.C10.resume_consistent_world
#print axioms Ldk.C10.resume_consistent_partial
#print axioms Ldk.C10.repeated_crash_idempotent_partial
#print axioms Ldk.C10.repeated_crash_closed_partial
#print axioms Ldk.C10.reconcile_dropped_only_if_forwarded
#print axioms Ldk.C10.reconcile_never_forwarded_kept
#print axioms Ldk.C10.reconcile_forwarded_dropped
#print axioms Ldk.C10.dedup_decode_exact
#print axioms Ldk.C10.failed_on_reload_only_if_buried
#print axioms Ldk.C10.not_buried_kept_pending
#print axioms Ldk.C10.buried_absent_failed
