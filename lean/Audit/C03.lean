import LdkModel.Props.C03
#print axioms Ldk.C03.sent_at_most_once
#print axioms Ldk.C03.failed_at_most_once
#print axioms Ldk.C03.terminal_exclusive
#print axioms Ldk.C03.sent_iff_a_part_claimed
#print axioms Ldk.C03.failed_only_if_no_part_claimed_and_none_pending
#print axioms Ldk.C03.terminal_when_drained
#print axioms Ldk.C03.duplicate_send_refused
#print axioms Ldk.C03.duplicates_idempotent
#print axioms Ldk.C03.absent_implies_no_part
#print axioms Ldk.C03.restart_never_contradicts_partial
#print axioms Ldk.C03.send_results_classified
#print axioms Ldk.C03.entry_dropped_on_send_failure_only_if_nothing_in_flight
#print axioms Ldk.C03.in_flight_tracked
#print axioms Ldk.C03.pending_amount_is_in_flight_sum
#print axioms Ldk.C03.retry_requests_missing_amount
#print axioms Ldk.C03.failed_only_when_nothing_in_flight
#print axioms Ldk.C03.dropped_only_when_nothing_in_flight
