import LdkModel.Props.C03
#print axioms Ldk.C03.sent_at_most_once
#print axioms Ldk.C03.failed_at_most_once
#print axioms Ldk.C03.terminal_exclusive
#print axioms Ldk.C03.sent_iff_a_part_claimed
#print axioms Ldk.C03.failed_only_if_no_part_claimed_and_none_pending
#print axioms Ldk.C03.terminal_when_drained
#print axioms Ldk.C03.duplicate_send_refused
#print axioms Ldk.C03.duplicates_idempotent
#print axioms Ldk.C03.absent_implies_no_part
#print axioms Ldk.C03.restart_never_contradicts_partial
