import LdkModel.Props.C09
#print axioms Ldk.C09.step_next_update
#print axioms Ldk.C09.step_next_other
#print axioms Ldk.C09.ids_from
#print axioms Ldk.C09.update_ids_gap_free
#print axioms Ldk.C09.in_flight_characterised
#print axioms Ldk.C09.lastWith_is_last
#print axioms Ldk.C09.no_release_while_in_flight
#print axioms Ldk.C09.no_release_while_in_flight_raa
#print axioms Ldk.C09.release_needs_commitment
#print axioms Ldk.C09.done_only_in_flight
#print axioms Ldk.C09.any_completion_order
#print axioms Ldk.C09.any_completion_order_fields
#print axioms Ldk.C09.release_independent_of_completion_order
