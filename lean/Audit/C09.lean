import LdkModel.Props.C09
#print axioms Ldk.C09.step_next_update
#print axioms Ldk.C09.step_next_other
#print axioms Ldk.C09.ids_from
#print axioms Ldk.C09.update_ids_gap_free
