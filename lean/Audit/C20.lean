import LdkModel.Props.C20
#print axioms Ldk.C20.find_difference_lca
#print axioms Ldk.C20.find_difference_complete
#print axioms Ldk.C20.connected_step_sound
#print axioms Ldk.C20.disconnected_step_sound
#print axioms Ldk.C20.notifications_single_chain_poll
#print axioms Ldk.C20.notifications_single_chain
#print axioms Ldk.C20.worse_common_untouched
#print axioms Ldk.C20.tip_moves_toward_better
#print axioms Ldk.C20.tip_only_improves_partial
#print axioms Ldk.C20.interrupted_reorg_example
#print axioms Ldk.C20.cache_miss_safe
#print axioms Ldk.C20.cache_miss_safe_poll
#print axioms Ldk.C20.error_keeps_prefix
#print axioms Ldk.C20.error_then_resume
#print axioms Ldk.C20.listeners_converge
