import LdkModel.Props.C05
#print axioms Ldk.C05.derivation_identity
#print axioms Ldk.C05.slot_invariant_preserved
#print axioms Ldk.C05.insertDesc_inv
#print axioms Ldk.C05.secret_store_complete
#print axioms Ldk.C05.get_secret_sound
#print axioms Ldk.C05.min_seen_tracks
#print axioms Ldk.C05.get_secret_never_asserts
#print axioms Ldk.C05.secret_store_rejects
#print axioms Ldk.C05.provide_refuses_inconsistent
#print axioms Ldk.C05.provide_effect
#print axioms Ldk.C05.store_reload_roundtrip
