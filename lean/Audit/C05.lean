import LdkModel.Props.C05
import LdkModel.Props.ChanProto
#print axioms Ldk.C05.derivation_identity
#print axioms Ldk.C05.slot_invariant_preserved
#print axioms Ldk.C05.insertDesc_inv
#print axioms Ldk.C05.secret_store_complete
#print axioms Ldk.C05.get_secret_sound
#print axioms Ldk.C05.min_seen_tracks
#print axioms Ldk.C05.get_secret_never_asserts
#print axioms Ldk.C05.secret_store_rejects
#print axioms Ldk.C05.provide_refuses_inconsistent
#print axioms Ldk.C05.provide_effect
#print axioms Ldk.C05.store_reload_roundtrip
#print axioms Ldk.ChanProto.counters_step_by_one
#print axioms Ldk.ChanProto.counters
#print axioms Ldk.ChanProto.at_most_one_outstanding
#print axioms Ldk.ChanProto.raa_only_after_cs
#print axioms Ldk.ChanProto.guarded_refines
#print axioms Ldk.ChanProto.balance_conservation_partial
#print axioms Ldk.ChanProto.balance_quiescent_partial
#print axioms Ldk.ChanProto.agreement_partial
#print axioms Ldk.ChanProto.joint_invariant_partial
#print axioms Ldk.ChanProto.agreement_fails_raa_order
#print axioms Ldk.ChanProto.agreement_fails_overdraw
#print axioms Ldk.ChanProto.stream_accounting_partial
#print axioms Ldk.ChanProto.lost_messages_retransmitted_partial
#print axioms Ldk.ChanProto.next_stats_sender_covers_peer_partial
#print axioms Ldk.ChanProto.next_stats_holder_counts_signed
