import LdkModel.Props.C04
#print axioms Ldk.C04.info_roundtrip
#print axioms Ldk.C04.verify_create
#print axioms Ldk.C04.verify_create_from_hash
#print axioms Ldk.C04.verify_create_spontaneous
#print axioms Ldk.C04.verify_accepts_iff
#print axioms Ldk.C04.verify_returns
#print axioms Ldk.C04.mac_checked_first
#print axioms Ldk.C04.claimable_only_if_complete
#print axioms Ldk.C04.claimable_amount_deadline
#print axioms Ldk.C04.late_part_rejected
#print axioms Ldk.C04.timeout_fails_all
#print axioms Ldk.C04.first_tick_fails_incomplete
#print axioms Ldk.C04.all_or_nothing
#print axioms Ldk.C04.claim_before_deadline_total
#print axioms Ldk.C04.none_if_part_lost
#print axioms Ldk.C04.resolved_at_most_once
