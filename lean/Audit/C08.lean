import LdkModel.Props.C08
#print axioms Ldk.C08.static_asserts
#print axioms Ldk.C08.never_claimable_too_soon
#print axioms Ldk.C08.final_reject_iff
#print axioms Ldk.C08.claim_window
#print axioms Ldk.C08.claim_window_other_parts
#print axioms Ldk.C08.never_forward_too_soon
#print axioms Ldk.C08.forward_cltv_ok_iff
#print axioms Ldk.C08.inbound_trigger_iff
#print axioms Ldk.C08.outbound_trigger_iff
#print axioms Ldk.C08.claim_then_safe
#print axioms Ldk.C08.preimage_race_won
#print axioms Ldk.C08.forward_race_won
#print axioms Ldk.C08.last_moment_preimage_ok
#print axioms Ldk.C08.last_moment_onchain_claim_partial
#print axioms Ldk.C08.failback_only_when_buried
#print axioms Ldk.C08.holding_cell_timeout_matches_forward_rule
#print axioms Ldk.C08.accepted_forward_not_in_onchain_window
