import LdkModel.Props.C11
#print axioms Ldk.C11.threshold_ge_anti_reorg
#print axioms Ldk.C11.irrevocable_only_when_buried
#print axioms Ldk.C11.redelivery_idempotent
#print axioms Ldk.C11.redelivery_idempotent_step
#print axioms Ldk.C11.late_redelivery_noop
#print axioms Ldk.C11.delivery_conclusion_canonical
#print axioms Ldk.C11.delivery_style_independent
#print axioms Ldk.C11.styles_admissible
#print axioms Ldk.C11.delivery_style_independent_styles
#print axioms Ldk.C11.shallow_reorg_retracts
#print axioms Ldk.C11.shallow_reorg_removes_all
#print axioms Ldk.C11.fork_then_final_canonical_partial
#print axioms Ldk.C11.rewinds_act_as_one
