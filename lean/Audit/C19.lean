import LdkModel.Props.C19
#print axioms Ldk.C19.store_is_map
#print axioms Ldk.C19.persister_recovers
#print axioms Ldk.C19.cleanup_never_needed
#print axioms Ldk.C19.window_bound
#print axioms Ldk.C19.fs_refines_map
#print axioms Ldk.C19.fs_store_is_map
#print axioms Ldk.C19.crash_never_tears
#print axioms Ldk.C19.async_last_issued_wins
#print axioms Ldk.C19.async_any_interleaving
#print axioms Ldk.C19.async_equals_sequential
#print axioms Ldk.C19.monitor_isolation
#print axioms Ldk.C19.archive_correct
#print axioms Ldk.C19.archive_holds_memory_monitor
#print axioms Ldk.C19.read_all_is_map_of_recover
#print axioms Ldk.C19.cleanup_idempotent
#print axioms Ldk.C19.cleanup_all_idempotent
