import LdkModel.Props.C19
#print axioms Ldk.C19.store_is_map
#print axioms Ldk.C19.persister_recovers
#print axioms Ldk.C19.cleanup_never_needed
#print axioms Ldk.C19.window_bound
