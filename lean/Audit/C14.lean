import LdkModel.Props.C14
#print axioms Ldk.C14.build_rejects_oversize
#print axioms Ldk.C14.build_length
#print axioms Ldk.C14.peel_build
#print axioms Ldk.C14.peel_build_unconditional
#print axioms Ldk.C14.peel_build_one_hop
#print axioms Ldk.C14.bigSizeFrame_wellFramed
#print axioms Ldk.C14.bigSizeFrame_wellFramed_u16
#print axioms Ldk.C14.peel_checks_mac_first
#print axioms Ldk.C14.peel_modified_is_forgery
#print axioms Ldk.C14.peel_rejects_modified
#print axioms Ldk.C14.failure_roundtrip
#print axioms Ldk.C14.failure_roundtrip_first_hop
#print axioms Ldk.C14.failure_foreign_rejected
#print axioms Ldk.C14.failure_attribution_sound
