import LdkModel.Props.C01
#print axioms Ldk.C01.commit_outputs_partition
#print axioms Ldk.C01.outputs_plus_fee_le_channel_value
