import LdkModel.Props.C01
import LdkModel.Props.C01Stats
import LdkModel.Props.C01Fee
import LdkModel.Props.C01Close
import LdkModel.Props.C01Send
import LdkModel.Props.C01Persist
import LdkModel.Props.C01Recv
import LdkModel.Props.C01Raa
import LdkModel.Props.ChanProto
#print axioms Ldk.C01.commit_outputs_partition
#print axioms Ldk.C01.outputs_plus_fee_le_channel_value
#print axioms Ldk.C01.isDust_agrees
#print axioms Ldk.C01.stats_accept_implies_build_affords
#print axioms Ldk.C01.accepted_commitment_conserves
#print axioms Ldk.C01.stats_has_output
#print axioms Ldk.C01.limit_le_outbound_capacity
#print axioms Ldk.C01.minimum_ge_peer_minimum
#print axioms Ldk.C01.limit_le_in_flight_remaining
#print axioms Ldk.C01.limit_respects_in_flight
#print axioms Ldk.C01.limit_pos_respects_in_flight
#print axioms Ldk.C01.limit_zero_when_slots_full
#print axioms Ldk.C01.outbound_capacity_eq
#print axioms Ldk.C01.outbound_capacity_excludes_reserve
#print axioms Ldk.C01.outbound_capacity_le
#print axioms Ldk.C01.limit_excludes_reserve
#print axioms Ldk.C01.funder_limit_covers_fee
#print axioms Ldk.C01.stats_of_cover
#print axioms Ldk.C01.limit_accepted_by_peer_stats_partial
#print axioms Ldk.C01.limit_accepted_by_peer_stats_nospike
#print axioms Ldk.C01.limit_accepted_by_peer_partial
#print axioms Ldk.C01.limit_accepted_by_peer_nospike
#print axioms Ldk.C01.fundee_limit_not_accepted_example
#print axioms Ldk.C01Fee.update_fee_reserve_accepted
#print axioms Ldk.C01Fee.sender_test_is_peer_reserve
#print axioms Ldk.C01Fee.receiver_prices_only_the_signed_commitment
#print axioms Ldk.C01Fee.holding_cell_fee_sees_released_adds
#print axioms Ldk.C01Close.closing_fails_iff
#print axioms Ldk.C01Close.closing_conservation
#print axioms Ldk.C01Close.closing_outputs_plus_fee
#print axioms Ldk.C01Close.closing_dropped_goes_to_fee
#print axioms Ldk.C01Close.closing_fee_paid_by_funder
#print axioms Ldk.C01Close.closing_views_mirror
#print axioms Ldk.C01Close.closing_same_tx
#print axioms Ldk.C01Close.peer_verifies_iff
#print axioms Ldk.C01Close.peer_rejects_in_dust_band
#print axioms Ldk.C01Close.coop_close_agreement_partial
#print axioms Ldk.C01Close.negotiation_ready_needs_quiescence
#print axioms Ldk.C01Close.negotiation_outcome
#print axioms Ldk.C01Close.fundee_max_is_funder_balance
#print axioms Ldk.C01Close.fundee_signs_below_its_minimum
#print axioms Ldk.C01Close.legacy_decision
#print axioms Ldk.C01Send.real_limit_implies_guard
#print axioms Ldk.C01Send.stepChecked_refines_stepG
#print axioms Ldk.C01Send.runChecked_refines_runG
#print axioms Ldk.C01Send.agreement_real_limit_partial
#print axioms Ldk.C01Send.quiescent_real_limit_partial
#print axioms Ldk.C01Persist.good_init
#print axioms Ldk.C01Persist.written_forgets_uncommitted
#print axioms Ldk.C01Persist.good_step
#print axioms Ldk.C01Persist.restart_is_disconnect
#print axioms Ldk.C01Persist.good_stepR
#print axioms Ldk.C01Persist.runR_eq_run
#print axioms Ldk.C01Persist.good_reachable
#print axioms Ldk.C01Persist.restart_runs_are_disconnect_runs
#print axioms Ldk.C01Persist.agreement_with_restarts_partial
#print axioms Ldk.C01Persist.good_of_run
#print axioms Ldk.C01Persist.restart_retransmits_same_commitment_partial
#print axioms Ldk.C01Persist.reestablish_generated_eq
#print axioms Ldk.C01Persist.reestablish_generated_on_runs
#print axioms Ldk.C01Persist.fee_drop_is_necessary
#print axioms Ldk.C01Recv.sender_limit_admitted_by_receiver_partial
#print axioms Ldk.C01Recv.real_limit_within_sender_caps
#print axioms Ldk.C01Recv.real_send_check_admitted_by_receiver_partial
#print axioms Ldk.C01Recv.can_accept_decision_ok_iff
#print axioms Ldk.C01Recv.can_accept_decision_reason
#print axioms Ldk.C01Raa.filterMap_eq_filter_map
#print axioms Ldk.C01Raa.raa_generated_eq
#print axioms Ldk.C01Raa.raa_message_generated
#print axioms Ldk.C01Raa.raa_generated_moves_claimed_funds
#print axioms Ldk.ChanProto.counters_step_by_one
#print axioms Ldk.ChanProto.counters
#print axioms Ldk.ChanProto.at_most_one_outstanding
#print axioms Ldk.ChanProto.raa_only_after_cs
#print axioms Ldk.ChanProto.guarded_refines
#print axioms Ldk.ChanProto.balance_conservation_partial
#print axioms Ldk.ChanProto.balance_quiescent_partial
#print axioms Ldk.ChanProto.agreement_partial
#print axioms Ldk.ChanProto.joint_invariant_partial
#print axioms Ldk.ChanProto.agreement_fails_raa_order
#print axioms Ldk.ChanProto.agreement_fails_overdraw
#print axioms Ldk.ChanProto.stream_accounting_partial
#print axioms Ldk.ChanProto.lost_messages_retransmitted_partial
#print axioms Ldk.ChanProto.fee_agreement_partial
#print axioms Ldk.ChanProto.fee_agreement_fails_lazy_commit
#print axioms Ldk.ChanProto.fee_quiescent_partial
#print axioms Ldk.ChanProto.next_stats_sender_covers_peer_partial
#print axioms Ldk.ChanProto.next_stats_holder_counts_signed
