import LdkModel.Props.C06
#print axioms Ldk.C06.revoked_secret_available
#print axioms Ldk.C06.revoked_secret_available_in_monitor
#print axioms Ldk.C06.claim_data_retained
#print axioms Ldk.C06.revoked_fully_claimed_partial
#print axioms Ldk.C06.revoked_fully_claimed
#print axioms Ldk.C06.bump_progress
#print axioms Ldk.C06.feerate_bump_monotone
#print axioms Ldk.C06.feerate_bump_none_only_if_unpayable
#print axioms Ldk.C06.creation_height_is_confirmation_height
#print axioms Ldk.C06.disconnect_rule
#print axioms Ldk.C06.justice_claim_pending
#print axioms Ldk.C06.claim_survives_reorg
#print axioms Ldk.C06.reissued_at_timer_expiry
#print axioms Ldk.C06.rebroadcast_reissues_every_pending_claim
#print axioms Ldk.C06.revoked_fully_punished_after_reorgs
#print axioms Ldk.C06.world_covers_every_revoked_output
#print axioms Ldk.C06.second_stage_tx_always_matched
