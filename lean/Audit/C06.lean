import LdkModel.Props.C06
#print axioms Ldk.C06.revoked_secret_available
#print axioms Ldk.C06.revoked_secret_available_in_monitor
#print axioms Ldk.C06.claim_data_retained
#print axioms Ldk.C06.revoked_fully_claimed_partial
#print axioms Ldk.C06.revoked_fully_claimed
#print axioms Ldk.C06.bump_progress
#print axioms Ldk.C06.feerate_bump_monotone
#print axioms Ldk.C06.feerate_bump_none_only_if_unpayable
