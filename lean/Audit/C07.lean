import LdkModel.Props.C07
#print axioms Ldk.C07.feerate_bump_monotone
#print axioms Ldk.C07.bump_progress
#print axioms Ldk.C07.threshold_ge_anti_reorg
#print axioms Ldk.C07.ledger_conservation
#print axioms Ldk.C07.balances_drain
#print axioms Ldk.C07.locktime_final
