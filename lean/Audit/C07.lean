import LdkModel.Props.C07
#print axioms Ldk.C07.feerate_bump_monotone
#print axioms Ldk.C07.bump_progress
#print axioms Ldk.C07.threshold_ge_anti_reorg
#print axioms Ldk.C07.ledger_conservation
#print axioms Ldk.C07.balances_drain
#print axioms Ldk.C07.locktime_final
#print axioms Ldk.C07.package_feerate_monotone
#print axioms Ldk.C07.force_bump_raises_unless_capped
#print axioms Ldk.C07.package_feerate_trajectory_monotone
#print axioms Ldk.C07.package_output_sound
#print axioms Ldk.C07.own_feerate_trajectory_monotone
#print axioms Ldk.C07.rebroadcast_fee_slack
#print axioms Ldk.C07.descriptor_matches_script
#print axioms Ldk.C07.descriptor_kind_table
#print axioms Ldk.C07.item_csv_is_script_csv
#print axioms Ldk.C07.spendable_exactly_when_final
