import LdkModel.Props.C15
#print axioms Ldk.C15.reassembly
#print axioms Ldk.C15.transport_delivers
#print axioms Ldk.C15.rotation_in_sync
#print axioms Ldk.C15.rotation_schedule
#print axioms Ldk.C15.tamper_disconnects
#print axioms Ldk.C15.delivered_is_genuine
#print axioms Ldk.C15.replay_disconnects
#print axioms Ldk.C15.replay_within_epoch_disconnects
#print axioms Ldk.C15.truncation_delivers_prefix
#print axioms Ldk.C15.init_before_anything
#print axioms Ldk.C15.non_init_first_disconnects
#print axioms Ldk.C15.unknown_even_odd_rule
#print axioms Ldk.C15.handshake_keys_match
#print axioms Ldk.C15.handshake_then_transport
#print axioms Ldk.C15.model_constants_match_source
