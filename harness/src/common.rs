//! Shared plumbing: PRNG, case recording (ops / impl output / stats / oracle failures).
use std::collections::{BTreeMap, HashSet};
use std::fs::File;
use std::io::{BufWriter, Write};
use std::path::{Path, PathBuf};

/// SplitMix64 — every random choice of a run derives from one seed.
pub struct Rng(pub u64);
impl Rng {
	pub fn new(seed: u64) -> Self { Rng(seed ^ 0x9E37_79B9_7F4A_7C15) }
	pub fn next(&mut self) -> u64 {
		self.0 = self.0.wrapping_add(0x9E37_79B9_7F4A_7C15);
		let mut z = self.0;
		z = (z ^ (z >> 30)).wrapping_mul(0xBF58_476D_1CE4_E5B9);
		z = (z ^ (z >> 27)).wrapping_mul(0x94D0_49BB_1331_11EB);
		z ^ (z >> 31)
	}
	pub fn below(&mut self, n: u64) -> u64 { if n == 0 { 0 } else { self.next() % n } }
	pub fn range(&mut self, lo: u64, hi: u64) -> u64 { lo + self.below(hi - lo + 1) }
	pub fn chance(&mut self, num: u64, den: u64) -> bool { self.below(den) < num }
	pub fn pick<'a, T>(&mut self, xs: &'a [T]) -> &'a T { &xs[self.below(xs.len() as u64) as usize] }
	pub fn bytes(&mut self, n: usize) -> Vec<u8> { (0..n).map(|_| self.next() as u8).collect() }
	pub fn bytes32(&mut self) -> [u8; 32] { let mut b = [0u8; 32]; for x in b.iter_mut() { *x = self.next() as u8; } b }
	/// value near `c` (c-2..c+2) with saturating arithmetic
	pub fn near(&mut self, c: u64) -> u64 { let d = self.below(5); (c + d).saturating_sub(2) }
}

pub fn hex(b: &[u8]) -> String { let mut s = String::with_capacity(b.len() * 2); for x in b { s.push_str(&format!("{:02x}", x)); } if s.is_empty() { "-".into() } else { s } }
pub fn unhex(s: &str) -> Vec<u8> { if s == "-" { return vec![]; } (0..s.len() / 2).map(|i| u8::from_str_radix(&s[2 * i..2 * i + 2], 16).unwrap()).collect() }

pub struct Args { pub model: String, pub seed: u64, pub thorough: bool, pub out: PathBuf, pub replay: Option<PathBuf>, pub scale: u64 }

/// One output stream per harness model: `<model>.ops` (fed to the Lean driver), `<model>.impl`
/// (what the real code answered, one line per op), `<model>.stats.json`.
pub struct Rec {
	ops: BufWriter<File>,
	imp: BufWriter<File>,
	dir: PathBuf,
	model: String,
	pub evaluations: u64,
	distinct: HashSet<u64>,
	pub classes: BTreeMap<String, u64>,
	samples: BTreeMap<String, Vec<String>>,
	pub oracle_failures: Vec<String>,
	pub discarded: u64,
	pub notes: BTreeMap<String, String>,
}

fn fnv(s: &str) -> u64 { let mut h = 0xcbf29ce484222325u64; for b in s.bytes() { h ^= b as u64; h = h.wrapping_mul(0x100000001b3); } h }

impl Rec {
	pub fn new(dir: &Path, model: &str) -> Rec {
		std::fs::create_dir_all(dir).unwrap();
		Rec {
			ops: BufWriter::new(File::create(dir.join(format!("{}.ops", model))).unwrap()),
			imp: BufWriter::new(File::create(dir.join(format!("{}.impl", model))).unwrap()),
			dir: dir.to_path_buf(), model: model.to_string(), evaluations: 0, distinct: HashSet::new(),
			classes: BTreeMap::new(), samples: BTreeMap::new(), oracle_failures: vec![], discarded: 0,
			notes: BTreeMap::new(),
		}
	}
	/// Record one case. `class` names the branch / outcome kind hit (for the histogram);
	/// `nontrivial` is the per-model rule for counting distinct non-trivial cases.
	pub fn case(&mut self, op: &str, result: &str, class: &str, nontrivial: bool) {
		debug_assert!(!op.contains('\n') && !result.contains('\n'));
		writeln!(self.ops, "{}", op).unwrap();
		writeln!(self.imp, "{}", result).unwrap();
		self.evaluations += 1;
		if nontrivial { self.distinct.insert(fnv(op)); }
		*self.classes.entry(class.to_string()).or_insert(0) += 1;
		let v = self.samples.entry(class.to_string()).or_insert_with(Vec::new);
		if v.len() < 2 { v.push(format!("{} => {}", trunc(op), trunc(result))); }
	}
	/// A line that only the driver needs (state set-up); the implementation answer is fixed text.
	pub fn directive(&mut self, op: &str) { writeln!(self.ops, "{}", op).unwrap(); writeln!(self.imp, "-").unwrap(); }
	pub fn oracle_fail(&mut self, what: String) { if self.oracle_failures.len() < 50 { self.oracle_failures.push(what); } else { self.oracle_failures.push(String::new()); self.oracle_failures.pop(); } }
	pub fn finish(mut self) {
		self.ops.flush().unwrap(); self.imp.flush().unwrap();
		let mut f = File::create(self.dir.join(format!("{}.stats.json", self.model))).unwrap();
		let esc = |s: &str| s.chars().map(|c| if c.is_control() { ' ' } else { c }).collect::<String>().replace('\\', "\\\\").replace('"', "\\\"");
		let classes: Vec<String> = self.classes.iter().map(|(k, v)| format!("\"{}\": {}", esc(k), v)).collect();
		let mut samples: Vec<String> = vec![];
		for (_, v) in self.samples.iter() { for s in v { if samples.len() < 24 { samples.push(format!("\"{}\"", esc(s))); } } }
		let fails: Vec<String> = self.oracle_failures.iter().map(|s| format!("\"{}\"", esc(s))).collect();
		let notes: Vec<String> = self.notes.iter().map(|(k, v)| format!("\"{}\": \"{}\"", esc(k), esc(v))).collect();
		write!(f, "{{\"model\": \"{}\", \"evaluations\": {}, \"distinct_nontrivial\": {}, \"discarded\": {}, \"classes\": {{{}}}, \"samples\": [{}], \"oracle_failures\": [{}], \"notes\": {{{}}}}}\n",
			self.model, self.evaluations, self.distinct.len(), self.discarded, classes.join(", "), samples.join(", "), fails.join(", "), notes.join(", ")).unwrap();
	}
}

fn trunc(s: &str) -> String { if s.len() > 160 { format!("{}…({} chars)", &s[..160], s.len()) } else { s.to_string() } }

/// Run a closure under catch_unwind; a panic becomes `Err(message)`.
pub fn guarded<T, F: FnOnce() -> T + std::panic::UnwindSafe>(f: F) -> Result<T, String> {
	match std::panic::catch_unwind(f) {
		Ok(v) => Ok(v),
		Err(e) => Err(if let Some(s) = e.downcast_ref::<String>() { s.clone() } else if let Some(s) = e.downcast_ref::<&str>() { s.to_string() } else { "panic".to_string() }),
	}
}

pub struct NullLogger;
impl lightning::util::logger::Logger for NullLogger { fn log(&self, _r: lightning::util::logger::Record) {} }

/// Parse the common command line: `<bin> [model] --seed S --tier quick|thorough --out DIR [--replay FILE] [--scale N]`
pub fn parse_args(default_model: &str) -> Args {
	let a: Vec<String> = std::env::args().collect();
	let mut args = Args { model: default_model.to_string(), seed: 1, thorough: false, out: PathBuf::from("run"), replay: None, scale: 1 };
	let mut i = 1;
	while i < a.len() {
		match a[i].as_str() {
			"--seed" => { args.seed = a[i + 1].parse().unwrap(); i += 2; }
			"--tier" => { args.thorough = a[i + 1] == "thorough"; i += 2; }
			"--out" => { args.out = PathBuf::from(&a[i + 1]); i += 2; }
			"--replay" => { args.replay = Some(PathBuf::from(&a[i + 1])); i += 2; }
			"--scale" => { args.scale = a[i + 1].parse().unwrap(); i += 2; }
			x if !x.starts_with("--") => { args.model = x.to_string(); i += 1; }
			x => { eprintln!("unknown arg {}", x); std::process::exit(2); }
		}
	}
	// panics inside guarded cases are outcomes; keep the default hook quiet
	if std::env::var("VERIF_PANIC").is_err() { std::panic::set_hook(Box::new(|_| {})); }
	args
}
