//! ldk-verif-harness: runs the real rust-lightning code on generated inputs and writes, per model,
//! `<model>.ops` (the line protocol fed to the Lean driver), `<model>.impl` (what the implementation
//! answered) and `<model>.stats.json` (input distribution, oracle failures).
mod common;
mod c08;

use common::Args;
use std::path::PathBuf;

fn main() {
	let a: Vec<String> = std::env::args().collect();
	if a.len() < 2 { eprintln!("usage: harness <model> --seed S --tier quick|thorough --out DIR [--replay FILE] [--scale N]"); std::process::exit(2); }
	let mut args = Args { model: a[1].clone(), seed: 1, thorough: false, out: PathBuf::from("run"), replay: None, scale: 1 };
	let mut i = 2;
	while i < a.len() {
		match a[i].as_str() {
			"--seed" => { args.seed = a[i + 1].parse().unwrap(); i += 2; }
			"--tier" => { args.thorough = a[i + 1] == "thorough"; i += 2; }
			"--out" => { args.out = PathBuf::from(&a[i + 1]); i += 2; }
			"--replay" => { args.replay = Some(PathBuf::from(&a[i + 1])); i += 2; }
			"--scale" => { args.scale = a[i + 1].parse().unwrap(); i += 2; }
			x => { eprintln!("unknown arg {}", x); std::process::exit(2); }
		}
	}
	// panics inside guarded cases are outcomes; keep the default hook quiet
	std::panic::set_hook(Box::new(|_| {}));
	match args.model.as_str() {
		"c08" => c08::run(&args),
		m => { eprintln!("unknown model {}", m); std::process::exit(2); }
	}
}
